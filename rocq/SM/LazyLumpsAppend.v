(** What C10 needs from writers that APPEND to a view they look at ([find_or_insert(self.texinfo)] ...).

    In SM/LazyLumps.v a writer leaves the cached values of the views it looks at unchanged.  The real writers hand
    those lists to [find_or_insert] / [find_or_extend] (Bin/FindInsert.v, the model used by C11), which append an
    item when it is not found.  On an unmodified BSP every reference a parsed value holds was resolved FROM the
    table it refers to, so every requested item is already present: then [find_or_insert] never appends, the
    looked-at view is literally unchanged, and the writer's "appending" use is a read.  (C11's
    [fi_run_sound] adds that the indexes handed out denote the requested items, and that when something is
    appended — a modified BSP — earlier indexes never move.) *)
From Coq Require Import NArith List Bool Lia PeanoNat.
From SV Require Import Bin.FindInsert Bin.FindInsertProofs.
Import ListNotations.
Local Open Scope N_scope.

(** The index knows every item of the table. *)
Definition fi_complete (s : fi_state) : Prop := forall k, In k (items s) -> lookup k (index s) <> None.

Lemma build_from_complete : forall l i d k, In k l \/ lookup k d <> None -> lookup k (build_from i l d) <> None.
Proof.
  induction l as [|a l IH]; intros i d k H; cbn [build_from].
  - destruct H as [[]|H]; exact H.
  - apply IH. destruct H as [[->|H]|H].
    + right. cbn [lookup]. rewrite N.eqb_refl. discriminate.
    + left. exact H.
    + right. cbn [lookup]. destruct (k =? a); [discriminate | exact H].
Qed.

Lemma fi_init_complete : forall l, fi_complete (fi_init l).
Proof. intros l k H. unfold fi_init. cbn [items index] in *. apply build_from_complete. now left. Qed.

Lemma fi_find_present : forall s k, fi_complete s -> In k (items s) -> fst (fi_find s k) = s.
Proof.
  intros s k Hc Hin. unfold fi_find. destruct (lookup k (index s)) eqn:E; [reflexivity|].
  exfalso. exact (Hc k Hin E).
Qed.

(** A whole run of requests for items that are all in the table leaves the table (and its index) unchanged. *)
Theorem fi_run_present_noop : forall ks s, fi_complete s -> (forall k, In k ks -> In k (items s)) -> fst (fi_run s ks) = s.
Proof.
  induction ks as [|k r IH]; intros s Hc Hin; cbn [fi_run]; [reflexivity|].
  pose proof (fi_find_present s k Hc (Hin k (or_introl eq_refl))) as H1.
  destruct (fi_find s k) as [s1 i]. cbn [fst] in H1. subst s1.
  pose proof (IH s Hc (fun k' H' => Hin k' (or_intror H'))) as H2.
  destruct (fi_run s r) as [s2 is2]. cbn [fst] in *. exact H2.
Qed.

Corollary find_or_insert_noop_on_parsed : forall l ks, (forall k, In k ks -> In k l) ->
  items (fst (fi_run (fi_init l) ks)) = l.
Proof.
  intros l ks H. rewrite (fi_run_present_noop ks (fi_init l) (fi_init_complete l)); [reflexivity|].
  intros k Hk. cbn [fi_init items]. exact (H k Hk).
Qed.

(** ... and a request for an item that is NOT in the table does append (so the hypothesis cannot be dropped):
    the origin vertex of the dummy edge before fix dae40a3. *)
Example append_when_missing : items (fst (fi_run (fi_init [5; 6]) [6; 7])) = [5; 6; 7].
Proof. vm_compute. reflexivity. Qed.
