(** Proofs about the shape of [_remove_copyset] (SM/IndexRemove.v): a shape that passes the four boolean obligations
    is the model's [ix_remove] for every mapping, key and entity and never raises; without the last obligation the
    result differs from [ix_remove] at most by an empty set left under the key; the other shapes are refuted. *)
From stdpp Require Import gmap sets list.
From SV Require Import SM.IndexModel SM.IndexRemove.

Section proofs.
  Context {K : Type} `{Countable K}.
  Implicit Types (m : gmap K (gset nat)) (k : K) (e : nat).

  Lemma rc_run_ok sh k e m : rc_ok sh = true → rc_run sh k e m = (ix_remove k e m, 0).
  Proof.
    destruct sh as [lk ab rm dr]. unfold rc_ok, rc_lookup_ok, rc_discards, rc_keeps_others, rc_drops_empty, rc_run, ix_remove.
    simpl. intros Hok.
    destruct rm; [|by rewrite !andb_false_r in Hok || (destruct lk, ab; simpl in Hok; done)].
    destruct dr; try (destruct lk, ab; simpl in Hok; done).
    destruct (m !! k) as [s|] eqn:E.
    - assert (Hgo : (if decide (s ∖ {[e]} = ∅) then delete k (<[k:=s ∖ {[e]}]> m) else <[k:=s ∖ {[e]}]> m)
                    = (if decide (s ∖ {[e]} = ∅) then delete k m else <[k:=s ∖ {[e]}]> m)).
      { destruct (decide _); [by rewrite delete_insert_delete|done]. }
      destruct lk; simpl; rewrite ?E; simpl; by rewrite Hgo.
    - destruct lk; simpl; rewrite ?E; simpl.
      + destruct ab; [done|simpl in Hok; done].
      + assert (Hemp : (∅ : gset nat) ∖ {[e]} = ∅) by set_solver. rewrite Hemp.
        destruct (decide _) as [_|Hn]; [|done].
        rewrite insert_insert, delete_insert; done.
      + destruct ab; [done|simpl in Hok; done].
  Qed.

  (** without "drops the set when it became empty": the same sets everywhere for a reader, no exception *)
  Lemma rc_run_reader_ok sh k e m : rc_reader_ok sh = true →
    (rc_run sh k e m).2 = 0 ∧ ∀ k', ix_get (rc_run sh k e m).1 k' = ix_get (ix_remove k e m) k'.
  Proof.
    intros Hok. destruct (rc_drops_empty sh) eqn:Hd.
    { rewrite rc_run_ok; [done|]. unfold rc_ok. unfold rc_reader_ok in Hok. by rewrite Hok, Hd. }
    destruct sh as [lk ab rm dr]. unfold rc_reader_ok, rc_lookup_ok, rc_discards, rc_keeps_others in Hok.
    unfold rc_drops_empty in Hd. simpl in *.
    destruct rm; [|by rewrite andb_false_r in Hok].
    destruct dr; try done; try (by rewrite !andb_false_r in Hok).
    unfold rc_run, ix_remove, ix_get. simpl.
    destruct (m !! k) as [s|] eqn:E.
    - assert (Hgo : ∀ k', default ∅ (<[k:=s ∖ {[e]}]> m !! k')
                    = default ∅ ((if decide (s ∖ {[e]} = ∅) then delete k m else <[k:=s ∖ {[e]}]> m) !! k')).
      { intros k'. destruct (decide _) as [He|]; [|done].
        destruct (decide (k' = k)) as [->|Hne].
        - by rewrite lookup_insert, lookup_delete, He.
        - by rewrite lookup_insert_ne, lookup_delete_ne. }
      destruct lk; simpl; rewrite ?E; simpl; split; try done.
    - destruct lk; simpl; rewrite ?E; simpl.
      + destruct ab; [done|simpl in Hok; done].
      + split; [done|]. intros k'. assert (Hemp : (∅ : gset nat) ∖ {[e]} = ∅) by set_solver. rewrite Hemp.
        rewrite insert_insert. destruct (decide (k' = k)) as [->|Hne].
        * by rewrite lookup_insert, E.
        * by rewrite lookup_insert_ne.
      + destruct ab; [done|simpl in Hok; done].
  Qed.
End proofs.

(** today's shape passes *)
Lemma rc_today_ok : rc_ok rc_today = true.
Proof. reflexivity. Qed.

(** refutations (computed witnesses over [gmap nat (gset nat)]): [set.remove] raises KeyError when the entity is not
    in the set; the inverted emptiness test drops a set that still has a member and keeps the empty one; without
    the `is not None` guard an absent key raises; never dropping leaves an empty set (not [ix_remove], though no
    reader sees it) *)
Lemma rc_refutations :
  let m1 : gmap nat (gset nat) := {[ 7 := {[1; 2]} ]} in
  (rc_discards rc_strict_remove = false ∧ (rc_run rc_strict_remove 7 3 m1).2 = 1 ∧ (ix_remove 7 3 m1) = m1) ∧
  (rc_keeps_others rc_drop_inverted = false ∧ ix_get (rc_run rc_drop_inverted 7 1 m1).1 7 = ∅ ∧ ix_get (ix_remove 7 1 m1) 7 = {[2]}) ∧
  (rc_lookup_ok rc_no_none_guard = false ∧ (rc_run rc_no_none_guard 8 1 m1).2 = 9) ∧
  (rc_drops_empty rc_never_drops = false ∧ rc_reader_ok rc_never_drops = true ∧
   (rc_run rc_never_drops 7 1 {[ 7 := {[1]} ]}).1 = ({[ 7 := ∅ ]} : gmap nat (gset nat)) ∧
   ix_remove 7 1 ({[ 7 := {[1]} ]} : gmap nat (gset nat)) = ∅).
Proof.
  cbv zeta. repeat split; try (vm_compute; reflexivity); apply (bool_decide_unpack _); vm_compute; exact I.
Qed.
