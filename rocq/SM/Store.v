(** C09 — heap model for "copies are independent".

    Python objects are heap nodes: a location carries a mutability tag and a list of field values; a
    value is an atom (int, str, float, enum, None, ... and the VMF back pointer, which is *context*,
    see docs/C09.md) or a reference.  A list / dict / set / array is a mutable node whose fields are its
    elements; a tuple or a frozen attrs object is an immutable node.

    Executable / definitional part only; proofs are in StoreProofs.v. *)
From Coq Require Import List PArith ZArith Bool.
Import ListNotations.

Definition loc := positive.
Inductive val := VAtom (z : Z) | VRef (l : loc).
Record node := Node { nmut : bool; nfields : list val }.
Definition heap := loc -> option node.

(** Reachability through fields (any node kind). *)
Inductive reach (h : heap) (a : loc) : loc -> Prop :=
| reach_refl : reach h a a
| reach_step l nd l' : reach h a l -> h l = Some nd -> In (VRef l') (nfields nd) -> reach h a l'.

Definition vreach (h : heap) (v : val) (l : loc) : Prop :=
  match v with VAtom _ => False | VRef r => reach h r l end.

Definition is_mut (h : heap) (l : loc) : Prop := exists nd, h l = Some nd /\ nmut nd = true.
Definition alloc (h : heap) (l : loc) : Prop := h l <> None.

(** Reachable from one of a set of roots (the references a mutator holds). *)
Definition reachR (h : heap) (R : list loc) (l : loc) : Prop := exists r, In r R /\ reach h r l.

(** No dangling references. *)
Definition closed (h : heap) : Prop :=
  forall l nd l', h l = Some nd -> In (VRef l') (nfields nd) -> alloc h l'.

(** The premise of the frame theorem: no MUTABLE location is reachable both from [a] and from the roots
    [R].  Immutable nodes may be shared freely. *)
Definition sep (h : heap) (a : loc) (R : list loc) : Prop :=
  forall l, reach h a l -> reachR h R l -> is_mut h l -> False.

(** Heap update. *)
Definition upd (h : heap) (l : loc) (nd : node) : heap :=
  fun x => if Pos.eqb x l then Some nd else h x.

(** A value the mutator can get hold of: an atom, or anything reachable from its roots. *)
Definition val_held (h : heap) (R : list loc) (v : val) : Prop :=
  match v with VAtom _ => True | VRef l => reachR h R l end.

(** In-place mutations performed by code that holds the roots [R]:
    - [MStore l vs]: replace the contents of a mutable node it can reach (attribute store, list
      append/pop/sort, dict/set update, in-place vector arithmetic, array item store, ...) by values it holds;
    - [MAlloc l nd]: construct a new object from values it holds; the new object becomes a root. *)
Inductive mutation := MStore (l : loc) (vs : list val) | MAlloc (l : loc) (nd : node).

Inductive step : heap * list loc -> mutation -> heap * list loc -> Prop :=
| step_store h R l vs nd :
    reachR h R l -> h l = Some nd -> nmut nd = true ->
    (forall v, In v vs -> val_held h R v) ->
    step (h, R) (MStore l vs) (upd h l (Node true vs), R)
| step_alloc h R l nd :
    h l = None -> (forall v, In v (nfields nd) -> val_held h R v) ->
    step (h, R) (MAlloc l nd) (upd h l nd, l :: R).

Inductive steps : heap * list loc -> list mutation -> heap * list loc -> Prop :=
| steps_nil s : steps s [] s
| steps_cons s m s1 ms s2 : step s m s1 -> steps s1 ms s2 -> steps s (m :: ms) s2.

(** Observation: the unfolding of the object graph below a value to any depth (what a recursive
    export / serialise can see). *)
Inductive tree := TAtom (z : Z) | TCut | TDangling | TNode (m : bool) (ch : list tree).

Fixpoint unfold (n : nat) (h : heap) (v : val) : tree :=
  match v with
  | VAtom z => TAtom z
  | VRef l =>
    match n with
    | O => TCut
    | S n' => match h l with
              | None => TDangling
              | Some nd => TNode (nmut nd) (map (unfold n' h) (nfields nd))
              end
    end
  end.

(** A heap extension only allocates. *)
Definition extends (h h' : heap) : Prop := forall l nd, h l = Some nd -> h' l = Some nd.

(** Every mutable location reachable from [v] in [h'] is new with respect to [h]. *)
Definition new_mut (h h' : heap) (v : val) : Prop :=
  forall l, vreach h' v l -> is_mut h' l -> h l = None.

(** No mutable location is reachable from [v]. *)
Definition no_mut (h : heap) (v : val) : Prop := forall l, vreach h v l -> ~ is_mut h l.

Definition val_alloc (h : heap) (v : val) : Prop :=
  match v with VAtom _ => True | VRef l => alloc h l end.
