(** Reuse histories of one writer interleaved with a concurrent writer (the product the seeded fault c12_5 needs).

    Writer A is one object used for a history of [with] blocks, all to the same destination; writer B is a single use
    of another file of the same directory, in flight across A's uses.  A history is a list of segments
    [(scenario of the use, schedule)]: the schedule interleaves the operations of this use of A with operations of B;
    when the use of A has finished *without leaving its temp file* the next segment starts A again at [mkdir] — that
    the real entry does nothing before [mkdir] whenever no temp file is open is the obligation
    [reuse_entry_touches_nothing_before_creating_its_temp_file] ([entry_inert], SM/AtomicRetry.v), and that every use
    runs the first-use protocol is [reuse_indep] (SM/AtomicReuse.v).  A use that is not finished at the end of its
    segment (killed), or that left its temp file (its cleanup unlink was refused), ends the history.

    AtomicProductProofs.v: the two-writer invariant of round 1 survives the restart of A when it is re-based at A's
    destination only; hence B never notices A's re-entries. *)
From Coq Require Import List Bool Arith.
From SV Require Import SM.AtomicWriter SM.AtomicExit.
Import ListNotations.

Definition segment := (scen * list (bool * bool))%type.

(** Flag machine. *)
Definition restart (st : sys) : sys := {| sd := sd st; p1 := PMkdir; p2 := p2 st; tr := tr st |}.
Definition clean_done (p : pc) : bool := match p with PDone _ None => true | _ => false end.
Fixpoint prun (c : cfg) (s2 : scen) (h : list segment) (st : sys) : sys :=
  match h with
  | [] => st
  | (s1, sched) :: r =>
      let st' := run2 c s1 s2 sched st in
      match r with
      | [] => st'
      | _ => if clean_done (p1 st') then prun c s2 r (restart st') else st'
      end
  end.

(** Tree machine. *)
Definition restartt (st : syst) : syst := {| sdt := sdt st; q1 := TMkdir; q2 := q2 st; trt := trt st |}.
Definition clean_donet (p : pct) : bool := match p with TDone _ None _ => true | _ => false end.
Fixpoint prunt (x : xproto) (s2 : scen) (h : list segment) (st : syst) : syst :=
  match h with
  | [] => st
  | (s1, sched) :: r =>
      let st' := run2t x s1 s2 sched st in
      match r with
      | [] => st'
      | _ => if clean_donet (q1 st') then prunt x s2 r (restartt st') else st'
      end
  end.

(** The content B's temp file must have at each point of B's use (tree machine; cf. [progress] for the flag machine). *)
Definition progresst (s : scen) (p : pct) (ct : content) : Prop :=
  match p with
  | TBody _ k => ct = firstn k (body s) /\ k < length (body s)
  | TTail _ j => ct = body s ++ firstn j (tail s) /\ j < length (tail s)
  | _ => True
  end.

(** Executable form for the correspondence with executed product runs. *)
Definition corr_product (x : xproto) (s2 : scen) (h : list segment) (init : list (name * content)) (ns : list name)
  : list nat * list nat * list (list nat) * list (list nat) :=
  let st := prunt x s2 h (startt (dir_of init)) in
  (enc_pct (q1 st), enc_pct (q2 st),
   map (fun we : bool * event => (if fst we then 1 else 0) :: enc_event (snd we)) (trt st),
   map enc_opt (probe (sdt st) ns)).
