(** Source-shaped model for property C07, round 3: [Entity.__delitem__] with a single key, as written.  The statements
    before the lookup loop (the by_target update of the targetname branch, the refusal to delete the classname) are a
    maintenance program in the language of SM/IndexMaint.v ([mprog]; the value folded by the removal is the entity's
    current targetname, read through __getitem__); the loop that pops the stored key is a shape ([del_loop]).  Both
    are read off vmf.py by translate/c07_index_shapes.py on every run ([gen_delitem_maint], [gen_delitem_loop]).

    Executable definitions only; proofs are in IndexDelProofs.v. *)
From stdpp Require Import gmap sets list.
From Coq Require Import NArith.
From SV Require Import SM.IndexModel SM.IndexShapes SM.IndexMaint.

(** [dict.pop(k)] / [del d[k]] on an insertion-ordered key list; [None] = KeyError *)
Fixpoint ddel (k : str) (l : kvs) : option kvs :=
  match l with
  | [] => None
  | (k0, v) :: r => if decide (k0 = k) then Some r else (λ r', (k0, v) :: r') <$> ddel k r
  end.

(** the lookup loop [for k in self._keys: if <k> == <key>: self._keys.pop(<which>); break] *)
Record del_loop := DL {
  dl_fold_stored : bool;     (* the test compares [k.casefold()] (true) or [k] (false) ...                         *)
  dl_key_folded : bool;      (* ... with the casefolded key (true) or the key as the caller wrote it (false)       *)
  dl_pop_by : keyspell;      (* the key popped: the loop variable ([KStored]) or the [key] variable                *)
}.

Section del.
  Variable fold : str → str.

  Definition delitem_loop (dl : del_loop) (key : str) (l : kvs) : kvs * nat :=
    let kv := if dl_key_folded dl then fold key else key in
    match first_match (λ k, bool_decide ((if dl_fold_stored dl then fold k else k) = kv)) l with
    | Some k0 => match ddel (match dl_pop_by dl with KStored => k0 | _ => kv end) l with
                 | Some l' => (l', 0)
                 | None => (l, 1)
                 end
    | None => (l, 0)
    end.

  (** __delitem__ never stores through [self[...] = ...]; a program that did would not pass the obligations *)
  Definition no_rec : nat → str → str → mstate → mstate * nat := λ _ _ _ st, (st, 9).

  (** the function as written: program [p] (with [orig] = the current targetname, new value unused), then the loop *)
  Definition del_item_pg (p : mprog) (dl : del_loop) (e : nat) (key : str) (st : mstate) : mstate * nat :=
    let l := keys_of st e in
    let '(st1, er) := m_run fold no_rec p e key [] (default [] (kv_find fold tn l)) st in
    match er with
    | 0 => let '(l', er2) := delitem_loop dl key l in (with_keys e l' st1, er2)
    | _ => (st1, er)
    end.

  (** what today's code executes before the loop, path by path *)
  Definition acts_del_today (f : mfacts) : list mact :=
    match f_key f with
    | KTn => ARemTarget MKOrig :: (if f_is_spawn f || f_in_ents f then [AAddTarget (MKLit [])] else [])
    | KCn => [ARaise EKey]
    | KOther => []
    end.
  Definition del_path_ok (p : mprog) (f : mfacts) : bool :=
    match m_flat p f with Some l => bool_decide (trunc_raise l = acts_del_today f) | None => false end.

  (** the named obligations *)
  Definition del_targetname_ok (p : mprog) : bool := forallb (del_path_ok p) (facts_with KTn).
  Definition del_classname_refused (p : mprog) : bool := forallb (del_path_ok p) (facts_with KCn).
  Definition del_other_ok (p : mprog) : bool := forallb (del_path_ok p) (facts_with KOther).
  Definition del_maint_ok (p : mprog) : bool := del_targetname_ok p && del_classname_refused p && del_other_ok p.
  Definition del_loop_case_insensitive (dl : del_loop) : bool := dl_fold_stored dl && dl_key_folded dl.
  Definition del_loop_pops_stored (dl : del_loop) : bool := match dl_pop_by dl with KStored => true | _ => false end.
  Definition del_loop_ok (dl : del_loop) : bool := del_loop_case_insensitive dl && del_loop_pops_stored dl.

  (** today's function; a by_target[None] addition without the membership test; a pop by the caller's spelling *)
  Definition del_maint_today : mprog :=
    MSeq (MIf (MCKeyIs tn)
            (MSeq (MAct (ARemTarget MKOrig)) (MIf (MCOr MCIsSpawn MCInEnts) (MAct (AAddTarget (MKLit []))) MSkip))
            MSkip)
         (MIf (MCKeyIs cn) (MAct (ARaise EKey)) MSkip).
  Definition del_maint_unguarded : mprog :=
    MSeq (MIf (MCKeyIs tn) (MSeq (MAct (ARemTarget MKOrig)) (MAct (AAddTarget (MKLit [])))) MSkip)
         (MIf (MCKeyIs cn) (MAct (ARaise EKey)) MSkip).
  Definition del_loop_today : del_loop := DL true true KStored.
  Definition del_loop_pop_caller : del_loop := DL true true KCaller.
End del.
