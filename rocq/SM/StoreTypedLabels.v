(** C09, round 4 — the census label of an exported node is DERIVED IN THE KERNEL from the run-time type name, and the
    attribute names the harness read for the node are VALIDATED IN THE KERNEL against the generated census.

    The two certificates of round 3 ([row_cert_ok], [export_cert_ok]) are evaluated on heaps exported from real objects.
    Which export mask a node gets used to be decided by harness code (a label per object).  Here the harness only reports
    raw run-time facts per node — the location, [type(o).__name__] and the attribute names it read, in the order of the
    node's fields — and the kernel
      - finds the label: the first census label whose class is that type name ([label_of_type]);
      - checks that the names read are exactly the field names of that census, in census order, and that the node has that
        many fields ([typed_nodes_ok]);
      - computes the mask from the label as before.
    Several labels may describe one class (EntityFixup_copy_values / _copy / _deepcopy ...): [labels_agree] demands that
    all of them list the same fields with the same kinds, and then every one of them gives the same export mask
    ([labels_agree_same_mask]) — so "the first label of the class" is as good as the label under test. *)
From Coq Require Import List String Bool PArith FMapPositive.
From SV Require Import SM.Store SM.StoreCert SM.StoreCopy SM.StoreCopySrc SM.StoreCopyExport.
Import ListNotations.

Definition tlookup {A} (k : string) (l : list (string * A)) : option A :=
  option_map snd (find (fun q => String.eqb (fst q) k) l).

(** First label (in table order) whose class is [cls]. *)
Fixpoint label_of_type (col : list (string * string)) (cls : string) : option string :=
  match col with
  | [] => None
  | (lab, c) :: r => if String.eqb c cls then Some lab else label_of_type r cls
  end.

Fixpoint str_list_eqb (a b : list string) : bool :=
  match a, b with
  | [], [] => true
  | x :: a', y :: b' => String.eqb x y && str_list_eqb a' b'
  | _, _ => false
  end.

(** One typed node as reported by the harness: location, run-time type name, attribute names read (in field order). *)
Definition typed_node := (loc * string * list string)%type.

Definition typed_node_ok (allc : list (string * census)) (col : list (string * string)) (l' : list (loc * node))
    (tn : typed_node) : bool :=
  match label_of_type col (snd (fst tn)) with
  | Some lab =>
      match tlookup lab allc, PositiveMap.find (fst (fst tn)) (mk_heap l') with
      | Some c, Some nd => str_list_eqb (snd tn) (names c) && Nat.eqb (List.length (nfields nd)) (List.length c)
      | _, _ => false
      end
  | None => false
  end.

Definition typed_nodes_ok allc col l' (tns : list typed_node) : bool := forallb (typed_node_ok allc col l') tns.

Definition labels_of_typed (col : list (string * string)) (tns : list typed_node) : list (loc * string) :=
  map (fun tn => (fst (fst tn), match label_of_type col (snd (fst tn)) with Some l => l | None => EmptyString end)) tns.

(** Names and "is the field masked whatever export reads" — all the export mask depends on. *)
Definition msig (c : census) : list (string * bool) := map (fun row => (cname row, kind_masked (snd (fst row)))) c.

Fixpoint msig_eqb (a b : list (string * bool)) : bool :=
  match a, b with
  | [], [] => true
  | (x, p) :: a', (y, q) :: b' => String.eqb x y && Bool.eqb p q && msig_eqb a' b'
  | _, _ => false
  end.

Definition labels_agree (allc : list (string * census)) (col : list (string * string)) : bool :=
  forallb (fun p => match label_of_type col (snd p), tlookup (fst p) allc with
                    | Some l0, Some c => match tlookup l0 allc with
                                         | Some c0 => msig_eqb (msig c) (msig c0)
                                         | None => false end
                    | _, _ => false end) col.

