(** VMF.search returns exactly the entities in the map whose current name / class matches (SM/IndexModel.v [search]). *)
From stdpp Require Import gmap sets list.
From Coq Require Import NArith.
From SV Require Import SM.IndexModel SM.IndexProofs.

Section search.
  Variable fold : str → str.
  Hypothesis fold_idem : ∀ s, fold (fold s) = fold s.

  (** what search() should return, read off the entities themselves *)
  Definition search_spec (name : str) (st : mstate) (e : nat) : Prop :=
    name ≠ [] ∧ present st e ∧
    let nm := fold name in
    if ends_star nm then ∃ k, tgt_of fold st e = Some k ∧ is_prefix (removelast nm) k = true
    else tgt_of fold st e = Some nm ∨ cls_of fold st e = nm.

  Lemma tgt_of_folded st e k : tgt_of fold st e = Some k → fold k = k.
  Proof.
    unfold tgt_of, tgt_of_keys, or_none. case_decide; [done|]. intros [= <-]. apply fold_idem.
  Qed.

  Lemma named_spec (p : str → bool) st e : Inv fold st →
    e ∈ ⋃ (map snd (List.filter (λ kv : option str * gset nat, match kv.1 with Some k => p (fold k) | None => false end)
                                (map_to_list (by_target st))))
    ↔ present st e ∧ ∃ k, tgt_of fold st e = Some k ∧ p k = true.
  Proof.
    intros HI. rewrite elem_of_union_list. split.
    - intros (X & HX & He). apply elem_of_list_In, in_map_iff in HX as ([ko X'] & <- & Hin).
      apply filter_In in Hin as [Hin Hp]. apply elem_of_list_In, elem_of_map_to_list in Hin. simpl in *.
      destruct ko as [k|]; [|done].
      assert (He' : e ∈ ix_get (by_target st) (Some k)) by (unfold ix_get; rewrite Hin; done).
      apply (inv_by_target fold) in He' as [Hpres Htg]; [|done].
      split; [done|]. exists k. split; [done|]. by rewrite (tgt_of_folded _ _ _ Htg) in Hp.
    - intros (Hpres & k & Htg & Hp).
      assert (He' : e ∈ ix_get (by_target st) (Some k)) by (apply (inv_by_target fold); done).
      unfold ix_get in He'. destruct (by_target st !! Some k) as [X|] eqn:E; simpl in He'; [|set_solver].
      exists X. split; [|done]. apply elem_of_list_In, in_map_iff. exists (Some k, X). split; [done|].
      apply filter_In. split.
      + apply elem_of_list_In, elem_of_map_to_list. done.
      + simpl. by rewrite (tgt_of_folded _ _ _ Htg).
  Qed.

  Theorem search_sound_complete name st e : Inv fold st → e ∈ search fold name st ↔ search_spec name st e.
  Proof.
    intros HI. unfold search, search_spec. destruct (decide (name = [])) as [->|Hne].
    - split; [set_solver|]. intros [? _]. done.
    - cbv beta zeta. destruct (ends_star (fold name)) eqn:Hstar.
      + pose proof (named_spec (is_prefix (removelast (fold name))) st e HI) as Hn. cbv beta in Hn.
        rewrite Hn. naive_solver.
      + pose proof (named_spec (λ k, bool_decide (k = fold name)) st e HI) as Hn. cbv beta in Hn.
        rewrite elem_of_union, Hn.
        change (default ∅ (by_class st !! fold name)) with (ix_get (by_class st) (fold name)).
        rewrite (inv_by_class fold) by done. split.
        * intros [(Hp & k & Htg & Hk)|[Hp Hc]].
          -- apply bool_decide_eq_true in Hk as ->. naive_solver.
          -- naive_solver.
        * intros (_ & Hp & [Htg|Hc]).
          -- left. split; [done|]. exists (fold name). split; [done|]. by apply bool_decide_eq_true.
          -- right. done.
  Qed.
End search.
