(** C09 round 2 — instancing.collapse_one: census of what is written and what enters the target map.
    [Gen/C09Collapse_gen.v] lists every WRITE site (origin of the object written), every ENTER site (origin of a value
    stored into / appended to a non-local object) and every COPY site (class of the template object copied) of
    collapse_one, as classified by translate/c09_collapse.py.  Proofs in CollapseCensusProofs.v. *)
From Coq Require Import List PArith ZArith Bool String.
From SV Require Import SM.Store.
Import ListNotations.

Inductive corigin :=
| CTemplate   (* an object of the instance template (file.vmf, its brushes / entities / visgroups, proxy outputs) *)
| CCopy       (* result of <template object>.copy(...) *)
| CFresh      (* built by collapse_one itself *)
| CTarget     (* the map being built, the visgroup parameter, what they reach *)
| CInst       (* the Instance parameter and its ID tables *)
| CLocal      (* local bookkeeping containers, FGD cache, module globals *)
| CScalar.    (* immutable values *)

Definition is_template (c : corigin) : bool := match c with CTemplate => true | _ => false end.

(** Instance obligations. *)
Definition collapse_never_writes_template (w : list (string * corigin)) : bool :=
  forallb (fun p => negb (is_template (snd p))) w.
Definition collapse_only_copies_enter (e : list (string * corigin)) : bool :=
  forallb (fun p => negb (is_template (snd p))) e.
Definition collapse_copies_censused (copies : list (string * string)) (census_names : list string) : bool :=
  forallb (fun p => existsb (String.eqb (snd p)) census_names) copies.
Definition collapse_template_sites (l : list (string * corigin)) : list string :=
  map fst (filter (fun p => is_template (snd p)) l).

(** Heap meaning.  [tgt]: one root standing for everything collapse_one may legitimately change (target map,
    Instance, local and module state); [tmpl]: the template; [F]: objects built during the call (copies included).
    Every store is tagged with the origin of the object written and of each value stored. *)
Definition croots (tgt tmpl : loc) (F : list loc) (o : corigin) : list loc :=
  match o with
  | CTemplate => [tmpl]
  | CCopy | CFresh => F
  | CTarget | CInst | CLocal => [tgt]
  | CScalar => []
  end.

Definition cevent := (mutation * corigin * list corigin)%type.

Inductive cstep (tgt tmpl : loc) : heap * list loc -> cevent -> heap * list loc -> Prop :=
| cs_alloc h F l nd vos :
    h l = None -> Forall2 (fun v vo => val_held h (croots tgt tmpl F vo) v) (nfields nd) vos ->
    cstep tgt tmpl (h, F) (MAlloc l nd, CFresh, vos) (upd h l nd, l :: F)
| cs_store h F l vs nd o vos :
    reachR h (croots tgt tmpl F o) l -> h l = Some nd -> nmut nd = true ->
    Forall2 (fun v vo => val_held h (croots tgt tmpl F vo) v) vs vos ->
    cstep tgt tmpl (h, F) (MStore l vs, o, vos) (upd h l (Node true vs), F).

Inductive crun (tgt tmpl : loc) : heap * list loc -> list cevent -> heap * list loc -> Prop :=
| cr_nil s : crun tgt tmpl s [] s
| cr_cons s m s1 ms s2 : cstep tgt tmpl s m s1 -> crun tgt tmpl s1 ms s2 -> crun tgt tmpl s (m :: ms) s2.

Definition event_clean (e : cevent) : bool :=
  negb (is_template (snd (fst e))) && forallb (fun o => negb (is_template o)) (snd e).
