(** C18 — histories of _resolve_path calls over several RawFileSystem objects, with a memo table in front of it.

    Seeded fault c18_4 decorated the method with functools.lru_cache.  The cache key is (self, path) and
    FileSystem.__eq__/__hash__ compare the type and the root only, so an entry written by an UNconstrained system is
    served to a constrained one on the same folder.  This file models a memo table in front of [resolve] for an
    arbitrary replacement policy ([evict], any function that only drops entries); [with_flag] says whether the key
    contains constrain_path.  Proofs in SM/PathMemoProofs.v:
      - key with the flag, or no unconstrained caller: the table is transparent for every history
        (no table at all is the policy [fun _ => []]);
      - key without the flag: refuted by the two-call history of the fault.  *)
From Coq Require Import List NArith Bool.
From SV Require Import SM.PathNorm.
Import ListNotations.

(** [resolve] with the root already made absolute by the constructor. *)
Definition resolve_abs (g : gx) (con : bool) (cwd root path : str) : res :=
  let a := abspath cwd (pjoin root path) in
  if geval {| e_abs := a; e_root := root; e_con := con |} g then Escape else Ok a.

(** one call [RawFileSystem(root_arg, constrain_path=con)._resolve_path(path)] *)
Record rcall := { rc_root : str; rc_con : bool; rc_path : str }.

Record mkey := { k_root : str; k_con : bool; k_path : str }.
Definition mkey_eqb (a b : mkey) : bool :=
  str_eqb (k_root a) (k_root b) && Bool.eqb (k_con a) (k_con b) && str_eqb (k_path a) (k_path b).

(** the key a call is filed under: the object's root (FileSystem.__eq__: type and path), the flag only if asked *)
Definition key_of (with_flag : bool) (cwd : str) (c : rcall) : mkey :=
  {| k_root := abspath cwd (rc_root c); k_con := if with_flag then rc_con c else true; k_path := rc_path c |}.

Definition cache := list (mkey * str).
Fixpoint lookup (k : mkey) (c : cache) : option str :=
  match c with
  | [] => None
  | (k', v) :: r => if mkey_eqb k k' then Some v else lookup k r
  end.

Definition plain (g : gx) (cwd : str) (c : rcall) : res := resolve g (rc_con c) cwd (rc_root c) (rc_path c).

(** one memoised call: a hit answers from the table; a miss computes, and stores only successful results
    (lru_cache does not keep calls that raised), after which the policy may drop entries *)
Definition memo_step (with_flag : bool) (g : gx) (cwd : str) (evict : cache -> cache) (c : cache) (call : rcall)
  : cache * res :=
  let k := key_of with_flag cwd call in
  match lookup k c with
  | Some a => (c, Ok a)
  | None =>
      match plain g cwd call with
      | Ok a => (evict ((k, a) :: c), Ok a)
      | Escape => (c, Escape)
      end
  end.

Fixpoint memo_run (with_flag : bool) (g : gx) (cwd : str) (evict : cache -> cache) (c : cache) (calls : list rcall)
  : list res :=
  match calls with
  | [] => []
  | call :: rest =>
      let '(c', r) := memo_step with_flag g cwd evict c call in
      r :: memo_run with_flag g cwd evict c' rest
  end.

(** a policy only drops entries *)
Definition only_drops (evict : cache -> cache) : Prop :=
  forall c k a, lookup k (evict c) = Some a -> lookup k c = Some a.

(** a call whose answer may be taken from / put into a table with this kind of key *)
Definition key_covers (with_flag : bool) (c : rcall) : bool := with_flag || rc_con c.
