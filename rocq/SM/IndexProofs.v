(** Proofs about SM/IndexModel.v: the index invariant holds initially, after VMF.parse, and is preserved by
    every operation; hence for every operation sequence on every family of maps. *)
From stdpp Require Import gmap sets list.
From Coq Require Import NArith.
From SV Require Import SM.IndexModel.

(** ** Index primitives *)
Section ix.
  Context {K : Type} `{Countable K}.
  Implicit Types m : gmap K (gset nat).

  Lemma elem_of_ix_add k e m k' e' :
    e' ∈ ix_get (ix_add k e m) k' ↔ (k = k' ∧ e' = e) ∨ e' ∈ ix_get m k'.
  Proof.
    unfold ix_add, ix_get. destruct (decide (k = k')) as [->|Hne].
    - rewrite lookup_insert. simpl. set_solver.
    - rewrite lookup_insert_ne by done. naive_solver.
  Qed.

  Lemma elem_of_ix_remove k e m k' e' :
    e' ∈ ix_get (ix_remove k e m) k' ↔ e' ∈ ix_get m k' ∧ ¬ (k = k' ∧ e' = e).
  Proof.
    unfold ix_remove, ix_get. destruct (m !! k) as [s|] eqn:E.
    - cbn zeta. destruct (decide (s ∖ {[e]} = ∅)) as [Hemp|Hemp].
      + destruct (decide (k = k')) as [->|Hne].
        * rewrite lookup_delete, E. simpl. set_solver.
        * rewrite lookup_delete_ne by done. naive_solver.
      + destruct (decide (k = k')) as [->|Hne].
        * rewrite lookup_insert, E. simpl. set_solver.
        * rewrite lookup_insert_ne by done. naive_solver.
    - destruct (decide (k = k')) as [->|Hne].
      + rewrite E. simpl. set_solver.
      + naive_solver.
  Qed.

  (** An index is [good] for a presence predicate and a key function when it is exactly their scan. *)
  Definition good m (P : nat → Prop) (f : nat → K) : Prop := ∀ k e, e ∈ ix_get m k ↔ P e ∧ f e = k.
End ix.

Lemma elem_of_remove_first e x l : x ∈ remove_first e l → x ∈ l.
Proof.
  induction l as [|y l IH]; simpl; [done|]. destruct (decide (y = e)); set_solver.
Qed.
Lemma elem_of_remove_first_ne e x l : x ≠ e → x ∈ l → x ∈ remove_first e l.
Proof.
  intros Hne. induction l as [|y l IH]; simpl; [done|]. destruct (decide (y = e)); set_solver.
Qed.

Section kv.
  Variable fold : str → str.
  Notation kv_find := (kv_find fold). Notation kv_set := (kv_set fold). Notation kv_del := (kv_del fold).

  Definition fkeys (l : kvs) : list str := map (λ kv, fold kv.1) l.
  Definition fold_nodup (l : kvs) : Prop := NoDup (fkeys l).

  Lemma kv_find_set_eq key v l : kv_find (fold key) (kv_set key v l) = Some v.
  Proof.
    induction l as [|[k v0] l IH]; simpl.
    - by rewrite decide_True.
    - destruct (decide (fold k = fold key)) as [E|E]; simpl.
      + by rewrite decide_True.
      + by rewrite decide_False.
  Qed.
  Lemma kv_find_set_ne kf key v l : kf ≠ fold key → kv_find kf (kv_set key v l) = kv_find kf l.
  Proof.
    intros Hne. induction l as [|[k v0] l IH]; simpl.
    - by rewrite decide_False.
    - destruct (decide (fold k = fold key)) as [E|E]; simpl.
      + rewrite !decide_False by congruence. done.
      + destruct (decide (fold k = kf)); done.
  Qed.
  Lemma kv_find_none kf l : kf ∉ fkeys l → kv_find kf l = None.
  Proof.
    induction l as [|[k v0] l IH]; simpl; [done|]. intros Hn.
    rewrite decide_False by set_solver. apply IH. set_solver.
  Qed.
  Lemma kv_find_del_eq kf l : fold_nodup l → kv_find kf (kv_del kf l) = None.
  Proof.
    unfold fold_nodup. induction l as [|[k v0] l IH]; simpl; [done|]. intros Hnd.
    apply NoDup_cons in Hnd as [Hn Hnd]. destruct (decide (fold k = kf)) as [<-|E]; simpl.
    - by apply kv_find_none.
    - rewrite decide_False by done. auto.
  Qed.
  Lemma kv_find_del_ne kf' kf l : kf' ≠ kf → kv_find kf' (kv_del kf l) = kv_find kf' l.
  Proof.
    intros Hne. induction l as [|[k v0] l IH]; simpl; [done|].
    destruct (decide (fold k = kf)) as [E|E]; simpl.
    - rewrite decide_False by congruence. done.
    - destruct (decide (fold k = kf')); done.
  Qed.
  Lemma fkeys_del_sub kf l x : x ∈ fkeys (kv_del kf l) → x ∈ fkeys l.
  Proof.
    induction l as [|[k v0] l IH]; simpl; [done|]. destruct (decide (fold k = kf)); simpl; set_solver.
  Qed.
  Lemma fold_nodup_del kf l : fold_nodup l → fold_nodup (kv_del kf l).
  Proof.
    unfold fold_nodup. induction l as [|[k v0] l IH]; simpl; [done|]. intros Hnd.
    apply NoDup_cons in Hnd as [Hn Hnd]. destruct (decide (fold k = kf)); simpl; [done|].
    apply NoDup_cons. split; [|auto]. intros Hin. apply Hn. by eapply fkeys_del_sub.
  Qed.
  Lemma fkeys_set_sub key v l x : x ∈ fkeys (kv_set key v l) → x ∈ fkeys l ∨ x = fold key.
  Proof.
    induction l as [|[k v0] l IH]; simpl; [set_solver|]. destruct (decide (fold k = fold key)); simpl; set_solver.
  Qed.
  Lemma fold_nodup_set key v l : fold_nodup l → fold_nodup (kv_set key v l).
  Proof.
    unfold fold_nodup. induction l as [|[k v0] l IH]; simpl.
    - intros _. apply NoDup_singleton.
    - intros Hnd. apply NoDup_cons in Hnd as [Hn Hnd]. destruct (decide (fold k = fold key)) as [E|E]; simpl.
      + apply NoDup_cons; done.
      + apply NoDup_cons. split; [|auto]. intros Hin. apply fkeys_set_sub in Hin as [Hin|Heq]; [done|congruence].
  Qed.
End kv.

(** ** Compositional facts about one index *)
Section good.
  Context {K : Type} `{Countable K}.
  Implicit Types m : gmap K (gset nat).

  (** [good_ex m P f e]: the index is right for everybody but [e], and [e] is in no set. *)
  Definition good_ex m (P : nat → Prop) (f : nat → K) (e : nat) : Prop :=
    ∀ k x, x ∈ ix_get m k ↔ x ≠ e ∧ P x ∧ f x = k.

  Lemma good_to_ex m P f e kold : good m P f → (P e → kold = f e) → good_ex (ix_remove kold e m) P f e.
  Proof.
    intros Hg Hk k x. rewrite elem_of_ix_remove, (Hg k x).
    destruct (decide (x = e)) as [->|]; naive_solver.
  Qed.
  Lemma good_ex_remove m P f e k0 : good_ex m P f e → good_ex (ix_remove k0 e m) P f e.
  Proof. intros Hg k x. rewrite elem_of_ix_remove, (Hg k x). naive_solver. Qed.
  Lemma good_ex_add m P f e k0 :
    good_ex m P f e → P e → good (ix_add k0 e m) P (λ x, if decide (x = e) then k0 else f x).
  Proof.
    intros Hg HP k x. rewrite elem_of_ix_add, (Hg k x).
    destruct (decide (x = e)) as [->|]; naive_solver.
  Qed.
  Lemma good_ex_out m P f e k0 :
    good_ex m P f e → ¬ P e → good m P (λ x, if decide (x = e) then k0 else f x).
  Proof.
    intros Hg HP k x. rewrite (Hg k x). destruct (decide (x = e)) as [->|]; naive_solver.
  Qed.
  Lemma good_keep m P f e k0 :
    good m P f → (P e → k0 = f e) → good m P (λ x, if decide (x = e) then k0 else f x).
  Proof.
    intros Hg HP k x. rewrite (Hg k x). destruct (decide (x = e)) as [->|]; naive_solver.
  Qed.
  Lemma good_ext m P f P' f' : good m P f → (∀ x, P' x ↔ P x) → (∀ x, f' x = f x) → good m P' f'.
  Proof. intros Hg HP Hf k x. rewrite (Hg k x), HP, Hf. done. Qed.
  Lemma good_add_present m P f P' e k0 :
    good m P f → k0 = f e → (∀ x, P' x ↔ P x ∨ x = e) → good (ix_add k0 e m) P' f.
  Proof.
    intros Hg -> HP k x. rewrite elem_of_ix_add, (Hg k x), HP.
    destruct (decide (x = e)) as [->|]; naive_solver.
  Qed.
  Lemma good_remove_present m P f P' e k0 :
    good m P f → k0 = f e → (∀ x, P' x ↔ P x ∧ x ≠ e) → good (ix_remove k0 e m) P' f.
  Proof.
    intros Hg -> HP k x. rewrite elem_of_ix_remove, (Hg k x), HP.
    destruct (decide (x = e)) as [->|]; naive_solver.
  Qed.
End good.

(** ** The invariant *)
Section inv.
  Variable fold : str → str.
  Hypothesis fold_nil : fold [] = [].
  Hypothesis fold_cn : fold cn = cn.
  Hypothesis fold_tn : fold tn = tn.
  Hypothesis fold_ws : fold ws = ws.

  Notation cls_of := (cls_of fold). Notation tgt_of := (tgt_of fold).
  Notation cls_of_keys := (cls_of_keys fold). Notation tgt_of_keys := (tgt_of_keys fold).
  Notation fold_nodup := (fold_nodup fold).

  (** the entities "in the map": the entity list plus the worldspawn entity *)
  Definition present (st : mstate) (e : nat) : Prop := e = spawn st ∨ e ∈ ents st.

  Record Inv (st : mstate) : Prop := {
    inv_class : good (by_class st) (present st) (cls_of st);
    inv_target : good (by_target st) (present st) (tgt_of st);
    inv_spawn : cls_of st (spawn st) = ws;
    inv_spawn_ents : spawn st ∉ ents st;
    inv_keys : ∀ e, fold_nodup (keys_of st e);
    inv_fresh : ∀ e, nobj st ≤ e → ¬ present st e;
  }.

  Lemma in_map_present st e : in_map st e = true ↔ present st e.
  Proof.
    unfold in_map, present. rewrite orb_true_iff, !bool_decide_eq_true. done.
  Qed.
  Lemma in_map_not_present st e : in_map st e = false ↔ ¬ present st e.
  Proof. rewrite <- in_map_present. destruct (in_map st e); naive_solver. Qed.

  Lemma cn_ne_tn : cn ≠ tn. Proof. done. Qed.
  Lemma mapver_ne_cn : mapver ≠ cn. Proof. done. Qed.
  Lemma mapver_ne_tn : mapver ≠ tn. Proof. done. Qed.

  (** Plumbing: the keys of one object are replaced, both indexes are given, everything else is kept. *)
  Lemma inv_rekey st e l' bc' bt' :
    Inv st → fold_nodup l' →
    good bc' (present st) (λ x, if decide (x = e) then cls_of_keys l' else cls_of st x) →
    good bt' (present st) (λ x, if decide (x = e) then tgt_of_keys l' else tgt_of st x) →
    (e = spawn st → cls_of_keys l' = ws) →
    Inv (MS (<[e := l']> (objs st)) (nobj st) (ents st) (spawn st) bc' bt').
  Proof.
    intros [Hc Ht Hs Hse Hk Hf] Hnd Hc' Ht' Hsp.
    assert (Hko : ∀ x, keys_of (MS (<[e := l']> (objs st)) (nobj st) (ents st) (spawn st) bc' bt') x
                       = if decide (x = e) then l' else keys_of st x).
    { intros x. unfold keys_of. simpl. destruct (decide (x = e)) as [->|].
      - by rewrite lookup_insert.
      - by rewrite lookup_insert_ne. }
    split; simpl.
    - eapply good_ext; [exact Hc'|done|]. intros x. unfold IndexModel.cls_of. rewrite Hko.
      by destruct (decide (x = e)).
    - eapply good_ext; [exact Ht'|done|]. intros x. unfold IndexModel.tgt_of. rewrite Hko.
      by destruct (decide (x = e)).
    - unfold IndexModel.cls_of. rewrite Hko. destruct (decide (spawn st = e)) as [<-|]; auto.
    - done.
    - intros x. rewrite Hko. destruct (decide (x = e)); auto.
    - done.
  Qed.

  (** same, when the state is written with the model's update functions *)
  Lemma rekey_eq st e l' fc ft :
    upd_target ft (upd_class fc (with_keys e l' st))
    = MS (<[e := l']> (objs st)) (nobj st) (ents st) (spawn st) (fc (by_class st)) (ft (by_target st)).
  Proof. done. Qed.

  (** *** Entity.__setitem__ *)
  Lemma set_item_inv e key v st : Inv st → Inv (set_item fold e key v st).1.
  Proof.
    intros HI. pose proof HI as [Hc Ht Hs Hse Hk Hf]. unfold set_item.
    set (l := keys_of st e). set (l' := kv_set fold key v l).
    assert (Hnd' : fold_nodup l') by apply fold_nodup_set, Hk.
    destruct (decide (fold key = cn)) as [Hcn|Hncn].
    { assert (Hold : fold (default [] (kv_find fold (fold key) l)) = cls_of st e) by (by rewrite Hcn).
      assert (Hnew : cls_of_keys l' = fold v).
      { unfold IndexModel.cls_of_keys, l'. rewrite <- Hcn at 1. by rewrite kv_find_set_eq. }
      assert (Htg : tgt_of_keys l' = tgt_of st e).
      { unfold IndexModel.tgt_of, IndexModel.tgt_of_keys, l'. rewrite kv_find_set_ne; [done|].
        rewrite Hcn. apply not_eq_sym, cn_ne_tn. }
      rewrite Hold.
      assert (Hex : good_ex (ix_remove (cls_of st e) e (by_class st)) (present st) (cls_of st) e)
        by (by apply good_to_ex).
      destruct (decide (e ∈ ents st)) as [Hin|Hnin]; simpl.
      - apply (inv_rekey st e l' _ (by_target st)); auto.
        + rewrite Hnew. apply good_ex_add; [done|by right].
        + rewrite Htg. by apply good_keep.
        + intros ->. done.
      - destruct (decide (e = spawn st)) as [Hsp|Hnsp].
        + destruct (decide (fold v = ws)) as [Hws|Hnws]; simpl.
          * apply (inv_rekey st e l' _ (by_target st)); auto.
            -- rewrite Hnew, Hws. apply good_ex_add; [done|by left].
            -- rewrite Htg. by apply good_keep.
            -- intros _. by rewrite Hnew.
          * set (l'' := kv_set fold cn ws l').
            assert (Hnew'' : cls_of_keys l'' = ws).
            { unfold IndexModel.cls_of_keys, l''. rewrite <- fold_cn at 1. rewrite kv_find_set_eq. done. }
            assert (Htg'' : tgt_of_keys l'' = tgt_of st e).
            { rewrite <- Htg. unfold IndexModel.tgt_of_keys, l''. rewrite kv_find_set_ne; [done|].
              rewrite fold_cn. apply not_eq_sym, cn_ne_tn. }
            replace (upd_class _ _) with
              (MS (<[e := l'']> (objs st)) (nobj st) (ents st) (spawn st)
                  (ix_add ws e (ix_remove (fold v) e (ix_remove (cls_of st e) e (by_class st)))) (by_target st)).
            2:{ unfold upd_class, with_keys. simpl. f_equal. by rewrite insert_insert. }
            apply inv_rekey; auto.
            -- by apply fold_nodup_set.
            -- rewrite Hnew''. apply good_ex_add; [by apply good_ex_remove|by left].
            -- rewrite Htg''. by apply good_keep.
        + simpl. apply (inv_rekey st e l' _ (by_target st)); auto.
          * apply good_ex_out; [done|]. unfold present. naive_solver.
          * rewrite Htg. by apply good_keep.
          * done. }
    destruct (decide (fold key = tn)) as [Htn|Hntn].
    { assert (Hold : or_none (fold (default [] (kv_find fold (fold key) l))) = tgt_of st e) by (by rewrite Htn).
      assert (Hnew : tgt_of_keys l' = or_none (fold v)).
      { unfold IndexModel.tgt_of_keys, l'. rewrite <- Htn at 1. by rewrite kv_find_set_eq. }
      assert (Hcl : cls_of_keys l' = cls_of st e).
      { unfold IndexModel.cls_of, IndexModel.cls_of_keys, l'. rewrite kv_find_set_ne; [done|].
        rewrite Htn. apply cn_ne_tn. }
      rewrite Hold.
      assert (Hex : good_ex (ix_remove (tgt_of st e) e (by_target st)) (present st) (tgt_of st) e)
        by (by apply good_to_ex).
      destruct (in_map st e) eqn:Him; simpl.
      - apply in_map_present in Him.
        apply (inv_rekey st e l' (by_class st)); auto.
        + rewrite Hcl. by apply good_keep.
        + rewrite Hnew. by apply good_ex_add.
        + intros ->. by rewrite Hcl.
      - apply in_map_not_present in Him.
        apply (inv_rekey st e l' (by_class st)); auto.
        + rewrite Hcl. by apply good_keep.
        + by apply good_ex_out.
        + intros ->. by rewrite Hcl. }
    simpl.
    assert (Hcl : cls_of_keys l' = cls_of st e).
    { unfold IndexModel.cls_of, IndexModel.cls_of_keys, l'. rewrite kv_find_set_ne; [done|]. congruence. }
    assert (Htg : tgt_of_keys l' = tgt_of st e).
    { unfold IndexModel.tgt_of, IndexModel.tgt_of_keys, l'. rewrite kv_find_set_ne; [done|]. congruence. }
    apply (inv_rekey st e l' (by_class st) (by_target st)); auto.
    - rewrite Hcl. by apply good_keep.
    - rewrite Htg. by apply good_keep.
    - intros ->. by rewrite Hcl.
  Qed.
End inv.
