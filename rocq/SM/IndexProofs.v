(** Proofs about SM/IndexModel.v: the index invariant holds initially, after VMF.parse, and is preserved by
    every operation; hence for every operation sequence on every family of maps. *)
From stdpp Require Import gmap sets list.
From Coq Require Import NArith.
From SV Require Import SM.IndexModel.

(** ** Index primitives *)
Section ix.
  Context {K : Type} `{Countable K}.
  Implicit Types m : gmap K (gset nat).

  Lemma elem_of_ix_add k e m k' e' :
    e' ∈ ix_get (ix_add k e m) k' ↔ (k = k' ∧ e' = e) ∨ e' ∈ ix_get m k'.
  Proof.
    unfold ix_add, ix_get. destruct (decide (k = k')) as [->|Hne].
    - rewrite lookup_insert. simpl. set_solver.
    - rewrite lookup_insert_ne by done. naive_solver.
  Qed.

  Lemma elem_of_ix_remove k e m k' e' :
    e' ∈ ix_get (ix_remove k e m) k' ↔ e' ∈ ix_get m k' ∧ ¬ (k = k' ∧ e' = e).
  Proof.
    unfold ix_remove, ix_get. destruct (m !! k) as [s|] eqn:E.
    - cbn zeta. destruct (decide (s ∖ {[e]} = ∅)) as [Hemp|Hemp].
      + destruct (decide (k = k')) as [->|Hne].
        * rewrite lookup_delete, E. simpl. set_solver.
        * rewrite lookup_delete_ne by done. naive_solver.
      + destruct (decide (k = k')) as [->|Hne].
        * rewrite lookup_insert, E. simpl. set_solver.
        * rewrite lookup_insert_ne by done. naive_solver.
    - destruct (decide (k = k')) as [->|Hne].
      + rewrite E. simpl. set_solver.
      + naive_solver.
  Qed.

  (** a defaultdict read changes nothing a reader can see *)
  Lemma ix_get_probe k m k' : ix_get (probe k m) k' = ix_get m k'.
  Proof.
    unfold probe, ix_get. destruct (m !! k) eqn:E; [done|].
    destruct (decide (k = k')) as [<-|Hne]; [by rewrite lookup_insert, E|by rewrite lookup_insert_ne].
  Qed.

  (** An index is [good] for a presence predicate and a key function when it is exactly their scan. *)
  Definition good m (P : nat → Prop) (f : nat → K) : Prop := ∀ k e, e ∈ ix_get m k ↔ P e ∧ f e = k.
End ix.

Lemma elem_of_remove_first e x l : x ∈ remove_first e l → x ∈ l.
Proof.
  induction l as [|y l IH]; simpl; [done|]. destruct (decide (y = e)); set_solver.
Qed.
Lemma elem_of_remove_first_ne e x l : x ≠ e → x ∈ l → x ∈ remove_first e l.
Proof.
  intros Hne. induction l as [|y l IH]; simpl; [done|]. destruct (decide (y = e)); set_solver.
Qed.

Section kv.
  Variable fold : str → str.
  Notation kv_find := (kv_find fold). Notation kv_set := (kv_set fold). Notation kv_del := (kv_del fold).

  Definition fkeys (l : kvs) : list str := map (λ kv, fold kv.1) l.
  Definition fold_nodup (l : kvs) : Prop := NoDup (fkeys l).

  Lemma kv_find_set_eq key v l : kv_find (fold key) (kv_set key v l) = Some v.
  Proof.
    induction l as [|[k v0] l IH]; simpl.
    - by rewrite decide_True.
    - destruct (decide (fold k = fold key)) as [E|E]; simpl.
      + by rewrite decide_True.
      + by rewrite decide_False.
  Qed.
  Lemma kv_find_set_ne kf key v l : kf ≠ fold key → kv_find kf (kv_set key v l) = kv_find kf l.
  Proof.
    intros Hne. induction l as [|[k v0] l IH]; simpl.
    - by rewrite decide_False.
    - destruct (decide (fold k = fold key)) as [E|E]; simpl.
      + rewrite !decide_False by congruence. done.
      + destruct (decide (fold k = kf)); done.
  Qed.
  Lemma kv_find_none kf l : kf ∉ fkeys l → kv_find kf l = None.
  Proof.
    induction l as [|[k v0] l IH]; simpl; [done|]. intros Hn.
    rewrite decide_False by set_solver. apply IH. set_solver.
  Qed.
  Lemma kv_find_del_eq kf l : fold_nodup l → kv_find kf (kv_del kf l) = None.
  Proof.
    unfold fold_nodup. induction l as [|[k v0] l IH]; simpl; [done|]. intros Hnd.
    apply NoDup_cons in Hnd as [Hn Hnd]. destruct (decide (fold k = kf)) as [<-|E]; simpl.
    - by apply kv_find_none.
    - rewrite decide_False by done. auto.
  Qed.
  Lemma kv_find_del_ne kf' kf l : kf' ≠ kf → kv_find kf' (kv_del kf l) = kv_find kf' l.
  Proof.
    intros Hne. induction l as [|[k v0] l IH]; simpl; [done|].
    destruct (decide (fold k = kf)) as [E|E]; simpl.
    - rewrite decide_False by congruence. done.
    - destruct (decide (fold k = kf')); done.
  Qed.
  Lemma fkeys_del_sub kf l x : x ∈ fkeys (kv_del kf l) → x ∈ fkeys l.
  Proof.
    induction l as [|[k v0] l IH]; simpl; [done|]. destruct (decide (fold k = kf)); simpl; set_solver.
  Qed.
  Lemma fold_nodup_del kf l : fold_nodup l → fold_nodup (kv_del kf l).
  Proof.
    unfold fold_nodup. induction l as [|[k v0] l IH]; simpl; [done|]. intros Hnd.
    apply NoDup_cons in Hnd as [Hn Hnd]. destruct (decide (fold k = kf)); simpl; [done|].
    apply NoDup_cons. split; [|auto]. intros Hin. apply Hn. by eapply fkeys_del_sub.
  Qed.
  Lemma fkeys_set_sub key v l x : x ∈ fkeys (kv_set key v l) → x ∈ fkeys l ∨ x = fold key.
  Proof.
    induction l as [|[k v0] l IH]; simpl; [set_solver|]. destruct (decide (fold k = fold key)); simpl; set_solver.
  Qed.
  Lemma fold_nodup_set key v l : fold_nodup l → fold_nodup (kv_set key v l).
  Proof.
    unfold fold_nodup. induction l as [|[k v0] l IH]; simpl.
    - intros _. apply NoDup_singleton.
    - intros Hnd. apply NoDup_cons in Hnd as [Hn Hnd]. destruct (decide (fold k = fold key)) as [E|E]; simpl.
      + apply NoDup_cons; done.
      + apply NoDup_cons. split; [|auto]. intros Hin. apply fkeys_set_sub in Hin as [Hin|Heq]; [done|congruence].
  Qed.
End kv.

(** ** Compositional facts about one index *)
Section good.
  Context {K : Type} `{Countable K}.
  Implicit Types m : gmap K (gset nat).

  (** [good_ex m P f e]: the index is right for everybody but [e], and [e] is in no set. *)
  Definition good_ex m (P : nat → Prop) (f : nat → K) (e : nat) : Prop :=
    ∀ k x, x ∈ ix_get m k ↔ x ≠ e ∧ P x ∧ f x = k.

  Lemma good_to_ex m P f e kold : good m P f → (P e → kold = f e) → good_ex (ix_remove kold e m) P f e.
  Proof.
    intros Hg Hk k x. rewrite elem_of_ix_remove, (Hg k x).
    destruct (decide (x = e)) as [->|]; naive_solver.
  Qed.
  Lemma good_ex_remove m P f e k0 : good_ex m P f e → good_ex (ix_remove k0 e m) P f e.
  Proof. intros Hg k x. rewrite elem_of_ix_remove, (Hg k x). naive_solver. Qed.
  Lemma good_ex_add m P f e k0 :
    good_ex m P f e → P e → good (ix_add k0 e m) P (λ x, if decide (x = e) then k0 else f x).
  Proof.
    intros Hg HP k x. rewrite elem_of_ix_add, (Hg k x).
    destruct (decide (x = e)) as [->|]; naive_solver.
  Qed.
  Lemma good_ex_out m P f e k0 :
    good_ex m P f e → ¬ P e → good m P (λ x, if decide (x = e) then k0 else f x).
  Proof.
    intros Hg HP k x. rewrite (Hg k x). destruct (decide (x = e)) as [->|]; naive_solver.
  Qed.
  Lemma good_keep m P f e k0 :
    good m P f → (P e → k0 = f e) → good m P (λ x, if decide (x = e) then k0 else f x).
  Proof.
    intros Hg HP k x. rewrite (Hg k x). destruct (decide (x = e)) as [->|]; naive_solver.
  Qed.
  Lemma good_ext m P f P' f' : good m P f → (∀ x, P' x ↔ P x) → (∀ x, f' x = f x) → good m P' f'.
  Proof. intros Hg HP Hf k x. rewrite (Hg k x), HP, Hf. done. Qed.
  Lemma good_add_present m P f P' e k0 :
    good m P f → k0 = f e → (∀ x, P' x ↔ P x ∨ x = e) → good (ix_add k0 e m) P' f.
  Proof.
    intros Hg -> HP k x. rewrite elem_of_ix_add, (Hg k x), HP.
    destruct (decide (x = e)) as [->|]; naive_solver.
  Qed.
  Lemma good_remove_present m P f P' e k0 :
    good m P f → k0 = f e → (∀ x, P' x ↔ P x ∧ x ≠ e) → good (ix_remove k0 e m) P' f.
  Proof.
    intros Hg -> HP k x. rewrite elem_of_ix_remove, (Hg k x), HP.
    destruct (decide (x = e)) as [->|]; naive_solver.
  Qed.
End good.

(** ** The invariant *)
Section inv.
  Variable fold : str → str.
  Hypothesis fold_nil : fold [] = [].
  Hypothesis fold_cn : fold cn = cn.
  Hypothesis fold_tn : fold tn = tn.
  Hypothesis fold_ws : fold ws = ws.

  Notation cls_of := (cls_of fold). Notation tgt_of := (tgt_of fold).
  Notation cls_of_keys := (cls_of_keys fold). Notation tgt_of_keys := (tgt_of_keys fold).
  Notation fold_nodup := (fold_nodup fold).

  (** the entities "in the map": the entity list plus the worldspawn entity *)
  Definition present (st : mstate) (e : nat) : Prop := e = spawn st ∨ e ∈ ents st.

  Record Inv (st : mstate) : Prop := {
    inv_class : good (by_class st) (present st) (cls_of st);
    inv_target : good (by_target st) (present st) (tgt_of st);
    inv_spawn : cls_of st (spawn st) = ws;
    inv_spawn_ents : spawn st ∉ ents st;
    inv_keys : ∀ e, fold_nodup (keys_of st e);
    inv_fresh : ∀ e, nobj st ≤ e → ¬ present st e;
  }.

  Lemma in_map_present st e : in_map st e = true ↔ present st e.
  Proof.
    unfold in_map, present. rewrite orb_true_iff, !bool_decide_eq_true. done.
  Qed.
  Lemma in_map_not_present st e : in_map st e = false ↔ ¬ present st e.
  Proof. rewrite <- in_map_present. destruct (in_map st e); naive_solver. Qed.

  Lemma cn_ne_tn : cn ≠ tn. Proof. done. Qed.
  Lemma mapver_ne_cn : mapver ≠ cn. Proof. done. Qed.
  Lemma mapver_ne_tn : mapver ≠ tn. Proof. done. Qed.

  (** Plumbing: the keys of one object are replaced, both indexes are given, everything else is kept. *)
  Lemma inv_rekey st e l' bc' bt' :
    Inv st → fold_nodup l' →
    good bc' (present st) (λ x, if decide (x = e) then cls_of_keys l' else cls_of st x) →
    good bt' (present st) (λ x, if decide (x = e) then tgt_of_keys l' else tgt_of st x) →
    (e = spawn st → cls_of_keys l' = ws) →
    Inv (MS (<[e := l']> (objs st)) (nobj st) (ents st) (spawn st) bc' bt').
  Proof.
    intros [Hc Ht Hs Hse Hk Hf] Hnd Hc' Ht' Hsp.
    assert (Hko : ∀ x, keys_of (MS (<[e := l']> (objs st)) (nobj st) (ents st) (spawn st) bc' bt') x
                       = if decide (x = e) then l' else keys_of st x).
    { intros x. unfold keys_of. simpl. destruct (decide (x = e)) as [->|].
      - by rewrite lookup_insert.
      - by rewrite lookup_insert_ne. }
    split; simpl.
    - eapply good_ext; [exact Hc'|done|]. intros x. unfold IndexModel.cls_of. rewrite Hko.
      by destruct (decide (x = e)).
    - eapply good_ext; [exact Ht'|done|]. intros x. unfold IndexModel.tgt_of. rewrite Hko.
      by destruct (decide (x = e)).
    - unfold IndexModel.cls_of. rewrite Hko. destruct (decide (spawn st = e)) as [<-|]; auto.
    - done.
    - intros x. rewrite Hko. destruct (decide (x = e)); auto.
    - done.
  Qed.

  (** same, when the state is written with the model's update functions *)
  Lemma rekey_eq st e l' fc ft :
    upd_target ft (upd_class fc (with_keys e l' st))
    = MS (<[e := l']> (objs st)) (nobj st) (ents st) (spawn st) (fc (by_class st)) (ft (by_target st)).
  Proof. done. Qed.

  (** *** Entity.__setitem__ *)
  Lemma set_item_inv e key v st : Inv st → Inv (set_item fold e key v st).1.
  Proof.
    intros HI. pose proof HI as [Hc Ht Hs Hse Hk Hf]. unfold set_item.
    set (l := keys_of st e). set (l' := kv_set fold key v l).
    assert (Hnd' : fold_nodup l') by apply fold_nodup_set, Hk.
    destruct (decide (fold key = cn)) as [Hcn|Hncn].
    { assert (Hold : fold (default [] (kv_find fold (fold key) l)) = cls_of st e) by (by rewrite Hcn).
      assert (Hnew : cls_of_keys l' = fold v).
      { unfold IndexModel.cls_of_keys, l'. rewrite <- Hcn at 1. by rewrite kv_find_set_eq. }
      assert (Htg : tgt_of_keys l' = tgt_of st e).
      { unfold IndexModel.tgt_of, IndexModel.tgt_of_keys, l'. rewrite kv_find_set_ne; [done|].
        rewrite Hcn. apply not_eq_sym, cn_ne_tn. }
      rewrite Hold.
      assert (Hex : good_ex (ix_remove (cls_of st e) e (by_class st)) (present st) (cls_of st) e)
        by (by apply good_to_ex).
      destruct (decide (e ∈ ents st)) as [Hin|Hnin]; simpl.
      - apply (inv_rekey st e l' _ (by_target st)); auto.
        + rewrite Hnew. apply good_ex_add; [done|by right].
        + rewrite Htg. by apply good_keep.
        + intros ->. done.
      - destruct (decide (e = spawn st)) as [Hsp|Hnsp].
        + destruct (decide (fold v = ws)) as [Hws|Hnws]; simpl.
          * apply (inv_rekey st e l' _ (by_target st)); auto.
            -- rewrite Hnew, Hws. apply good_ex_add; [done|by left].
            -- rewrite Htg. by apply good_keep.
            -- intros _. by rewrite Hnew.
          * set (l'' := kv_set fold cn ws l').
            assert (Hnew'' : cls_of_keys l'' = ws).
            { unfold IndexModel.cls_of_keys, l''. rewrite <- fold_cn at 1. rewrite kv_find_set_eq. done. }
            assert (Htg'' : tgt_of_keys l'' = tgt_of st e).
            { rewrite <- Htg. unfold IndexModel.tgt_of_keys, l''. rewrite kv_find_set_ne; [done|].
              rewrite fold_cn. apply not_eq_sym, cn_ne_tn. }
            replace (upd_class _ _) with
              (MS (<[e := l'']> (objs st)) (nobj st) (ents st) (spawn st)
                  (ix_add ws e (ix_remove (fold v) e (ix_remove (cls_of st e) e (by_class st)))) (by_target st)).
            2:{ unfold upd_class, with_keys. simpl. f_equal. by rewrite insert_insert. }
            apply inv_rekey; auto.
            -- by apply fold_nodup_set.
            -- rewrite Hnew''. apply good_ex_add; [by apply good_ex_remove|by left].
            -- rewrite Htg''. by apply good_keep.
        + simpl. apply (inv_rekey st e l' _ (by_target st)); auto.
          * apply good_ex_out; [done|]. unfold present. naive_solver.
          * rewrite Htg. by apply good_keep.
          * done. }
    destruct (decide (fold key = tn)) as [Htn|Hntn].
    { assert (Hold : or_none (fold (default [] (kv_find fold (fold key) l))) = tgt_of st e) by (by rewrite Htn).
      assert (Hnew : tgt_of_keys l' = or_none (fold v)).
      { unfold IndexModel.tgt_of_keys, l'. rewrite <- Htn at 1. by rewrite kv_find_set_eq. }
      assert (Hcl : cls_of_keys l' = cls_of st e).
      { unfold IndexModel.cls_of, IndexModel.cls_of_keys, l'. rewrite kv_find_set_ne; [done|].
        rewrite Htn. apply cn_ne_tn. }
      rewrite Hold.
      assert (Hex : good_ex (ix_remove (tgt_of st e) e (by_target st)) (present st) (tgt_of st) e)
        by (by apply good_to_ex).
      destruct (in_map st e) eqn:Him; simpl.
      - apply in_map_present in Him.
        apply (inv_rekey st e l' (by_class st)); auto.
        + rewrite Hcl. by apply good_keep.
        + rewrite Hnew. by apply good_ex_add.
        + intros ->. by rewrite Hcl.
      - apply in_map_not_present in Him.
        apply (inv_rekey st e l' (by_class st)); auto.
        + rewrite Hcl. by apply good_keep.
        + by apply good_ex_out.
        + intros ->. by rewrite Hcl. }
    simpl.
    assert (Hcl : cls_of_keys l' = cls_of st e).
    { unfold IndexModel.cls_of, IndexModel.cls_of_keys, l'. rewrite kv_find_set_ne; [done|]. congruence. }
    assert (Htg : tgt_of_keys l' = tgt_of st e).
    { unfold IndexModel.tgt_of, IndexModel.tgt_of_keys, l'. rewrite kv_find_set_ne; [done|]. congruence. }
    apply (inv_rekey st e l' (by_class st) (by_target st)); auto.
    - rewrite Hcl. by apply good_keep.
    - rewrite Htg. by apply good_keep.
    - intros ->. by rewrite Hcl.
  Qed.

  (** *** Entity.__delitem__ *)
  Lemma del_item_inv e key st : Inv st → Inv (del_item fold e key st).1.
  Proof.
    intros HI. pose proof HI as [Hc Ht Hs Hse Hk Hf]. unfold del_item.
    set (l := keys_of st e). set (kf := fold key). set (l' := kv_del fold kf l).
    assert (Hnd' : fold_nodup l') by apply fold_nodup_del, Hk.
    destruct (decide (kf = tn)) as [Htn|Hntn].
    - rewrite decide_False by (rewrite Htn; apply not_eq_sym, cn_ne_tn). simpl.
      assert (Hnew : tgt_of_keys l' = None).
      { unfold IndexModel.tgt_of_keys, l'. rewrite <- Htn. rewrite kv_find_del_eq by apply Hk. simpl.
        rewrite fold_nil. done. }
      assert (Hcl : cls_of_keys l' = cls_of st e).
      { unfold IndexModel.cls_of, IndexModel.cls_of_keys, l'. rewrite kv_find_del_ne; [done|].
        rewrite Htn. apply cn_ne_tn. }
      assert (Hex : good_ex (ix_remove (tgt_of_keys l) e (by_target st)) (present st) (tgt_of st) e)
        by (by apply good_to_ex).
      destruct (in_map st e) eqn:Him.
      + apply in_map_present in Him.
        apply (inv_rekey st e l' (by_class st)); auto.
        * rewrite Hcl. by apply good_keep.
        * rewrite Hnew. by apply good_ex_add.
        * intros ->. by rewrite Hcl.
      + apply in_map_not_present in Him.
        apply (inv_rekey st e l' (by_class st)); auto.
        * rewrite Hcl. by apply good_keep.
        * by apply good_ex_out.
        * intros ->. by rewrite Hcl.
    - destruct (decide (kf = cn)) as [Hcn|Hncn]; simpl; [done|].
      assert (Hcl : cls_of_keys l' = cls_of st e).
      { unfold IndexModel.cls_of, IndexModel.cls_of_keys, l'. rewrite kv_find_del_ne; [done|]. congruence. }
      assert (Htg : tgt_of_keys l' = tgt_of st e).
      { unfold IndexModel.tgt_of, IndexModel.tgt_of_keys, l'. rewrite kv_find_del_ne; [done|]. congruence. }
      apply (inv_rekey st e l' (by_class st) (by_target st)); auto.
      + rewrite Hcl. by apply good_keep.
      + rewrite Htg. by apply good_keep.
      + intros ->. by rewrite Hcl.
  Qed.

  Lemma del_items_inv e ks st : Inv st → Inv (del_items fold e ks st).1.
  Proof.
    revert st. induction ks as [|k ks IH]; intros st HI; simpl; [done|].
    pose proof (del_item_inv e k st HI) as H1. destruct (del_item fold e k st) as [st' er]. simpl in H1.
    destruct er; auto.
  Qed.

  Lemma pop_item_inv e key st : Inv st → Inv (pop_item fold e key st).1.
  Proof. intros HI. unfold pop_item. destruct (kv_find _ _ _); [by apply del_item_inv|done]. Qed.

  Lemma pop_first_inv e st : Inv st → Inv (pop_first fold e st).1.
  Proof. intros HI. unfold pop_first. destruct (keys_of st e) as [|[k v] r]; [done|by apply del_item_inv]. Qed.

  Lemma update_inv e l st : Inv st → Inv (update fold e l st).1.
  Proof.
    revert st. induction l as [|[k v] l IH]; intros st HI; simpl; [done|].
    pose proof (set_item_inv e k v st HI) as H1. destruct (set_item fold e k v st) as [st' er]. simpl in H1.
    destruct er; auto.
  Qed.

  (** the spawn and the entity list are never changed by key operations *)
  Lemma set_item_frame e key v st :
    spawn (set_item fold e key v st).1 = spawn st ∧ ents (set_item fold e key v st).1 = ents st
    ∧ nobj (set_item fold e key v st).1 = nobj st.
  Proof. unfold set_item. repeat case_decide; try destruct (in_map st e); done. Qed.
  Lemma del_item_frame e key st :
    spawn (del_item fold e key st).1 = spawn st ∧ ents (del_item fold e key st).1 = ents st
    ∧ nobj (del_item fold e key st).1 = nobj st.
  Proof. unfold del_item. repeat case_decide; try destruct (in_map st e); done. Qed.
  Lemma update_frame e l st :
    spawn (update fold e l st).1 = spawn st ∧ ents (update fold e l st).1 = ents st
    ∧ nobj (update fold e l st).1 = nobj st.
  Proof.
    revert st. induction l as [|[k v] l IH]; intros st; simpl; [done|].
    pose proof (set_item_frame e k v st) as H1. destruct (set_item fold e k v st) as [st' er]. simpl in H1.
    destruct er; [|done]. destruct (IH st') as (?&?&?). naive_solver congruence.
  Qed.

  (** what the keys of [e] look up to after a store / a delete *)
  Lemma set_item_keys e key v st :
    keys_of (set_item fold e key v st).1 e = kv_set fold key v (keys_of st e)
    ∨ (e = spawn st ∧ e ∉ ents st ∧ fold key = cn ∧ fold v ≠ ws).
  Proof.
    unfold set_item. repeat case_decide; try destruct (in_map st e); simpl; auto;
      unfold keys_of; simpl; rewrite lookup_insert; auto.
  Qed.
  Lemma del_item_keys e key st :
    fold key ≠ cn → keys_of (del_item fold e key st).1 e = kv_del fold (fold key) (keys_of st e).
  Proof.
    intros Hne. unfold del_item. rewrite (decide_False _ _ Hne).
    case_decide; try destruct (in_map st e); simpl; unfold keys_of; simpl; by rewrite lookup_insert.
  Qed.

  Lemma find_set_cn v l : kv_find fold cn (kv_set fold cn v l) = Some v.
  Proof. rewrite <- fold_cn at 1. apply kv_find_set_eq. Qed.

  (** *** Entity.clear *)
  Lemma clear_inv e st : Inv st → Inv (clear fold e st).1.
  Proof.
    intros HI. unfold clear.
    set (c := if decide (e = spawn st) then ws else inull).
    pose proof (set_item_inv e cn c st HI) as H1. pose proof (set_item_frame e cn c st) as (F1&F2&F3).
    pose proof (set_item_keys e cn c st) as K1.
    destruct (set_item fold e cn c st) as [st1 er1]. simpl in *. destruct er1; [|done].
    pose proof (del_item_inv e tn st1 H1) as H2. pose proof (del_item_frame e tn st1) as (G1&G2&G3).
    pose proof (del_item_keys e tn st1) as K2.
    destruct (del_item fold e tn st1) as [st2 er2]. simpl in *. destruct er2; [|done]. simpl.
    destruct K1 as [K1|(Hsp&_&_&Hne)].
    2:{ exfalso. apply Hne. unfold c. by rewrite decide_True. }
    rewrite fold_tn in K2. specialize (K2 (not_eq_sym cn_ne_tn)).
    pose proof H2 as [Hc Ht Hs Hse Hk Hf].
    assert (Hcl : cls_of_keys [(cn, c)] = cls_of st2 e).
    { unfold IndexModel.cls_of, IndexModel.cls_of_keys. rewrite K2, K1. rewrite kv_find_del_ne by apply cn_ne_tn.
      rewrite find_set_cn. simpl. rewrite decide_True by done. done. }
    assert (Htg : tgt_of_keys [(cn, c)] = tgt_of st2 e).
    { unfold IndexModel.tgt_of, IndexModel.tgt_of_keys. rewrite K2. rewrite kv_find_del_eq.
      - simpl. rewrite decide_False; [done|]. rewrite fold_cn. apply cn_ne_tn.
      - rewrite K1. apply fold_nodup_set. destruct HI as [_ _ _ _ Hk0 _]. apply Hk0. }
    apply (inv_rekey st2 e [(cn, c)] (by_class st2) (by_target st2)); auto.
    - apply NoDup_singleton.
    - rewrite Hcl. by apply good_keep.
    - rewrite Htg. by apply good_keep.
    - intros ->. by rewrite Hcl.
  Qed.

  (** *** new objects, add_ent, remove_ent *)
  Lemma new_obj_inv st : Inv st → Inv (new_obj st).
  Proof.
    intros HI. pose proof HI as [Hc Ht Hs Hse Hk Hf].
    assert (Hnp : ¬ present st (nobj st)) by (apply Hf; lia).
    assert (HI' : Inv (MS (<[nobj st := []]> (objs st)) (nobj st) (ents st) (spawn st) (by_class st) (by_target st))).
    { apply inv_rekey; auto.
      - apply NoDup_nil_2.
      - apply good_keep; [done|]. intros; done.
      - apply good_keep; [done|]. intros; done.
      - intros E. exfalso. apply Hnp. by left. }
    destruct HI' as [Hc' Ht' Hs' Hse' Hk' Hf']. split; auto.
    simpl in *. intros e Hle. apply Hf. lia.
  Qed.

  Lemma new_ent_inv l st : Inv st → Inv (new_ent fold l st).
  Proof. intros HI. unfold new_ent. apply update_inv, new_obj_inv, HI. Qed.
  Lemma new_ent_frame l st :
    spawn (new_ent fold l st) = spawn st ∧ ents (new_ent fold l st) = ents st ∧ nobj (new_ent fold l st) = S (nobj st).
  Proof. unfold new_ent. destruct (update_frame (nobj st) l (new_obj st)) as (?&?&?). done. Qed.

  Lemma add_ent_inv e st : Inv st → Inv (add_ent fold e st).
  Proof.
    intros HI. pose proof HI as [Hc Ht Hs Hse Hk Hf]. unfold add_ent.
    destruct (decide (e = spawn st ∨ nobj st ≤ e)) as [|Hn]; [done|].
    assert (HP : ∀ x, present (MS (objs st) (nobj st) (ents st ++ [e]) (spawn st)
                   (ix_add (cls_of_keys (keys_of st e)) e (by_class st))
                   (ix_add (tgt_of_keys (keys_of st e)) e (by_target st))) x ↔ present st x ∨ x = e).
    { intros x. unfold present. simpl. rewrite elem_of_app, elem_of_list_singleton. naive_solver. }
    split; simpl.
    - eapply good_add_present; [exact Hc|done|exact HP].
    - eapply good_add_present; [exact Ht|done|exact HP].
    - done.
    - rewrite elem_of_app, elem_of_list_singleton. naive_solver.
    - done.
    - intros x Hle. rewrite HP. intros [Hp| ->]; [by eapply Hf|]. apply Hn. right. lia.
  Qed.

  Lemma add_ents_inv es st : Inv st → Inv (add_ents fold es st).
  Proof.
    unfold add_ents. revert st. induction es as [|e es IH]; intros st HI; simpl; [done|].
    apply IH, add_ent_inv, HI.
  Qed.

  Lemma remove_ent_inv e st : Inv st → Inv (remove_ent fold e st).
  Proof.
    intros HI. pose proof HI as [Hc Ht Hs Hse Hk Hf]. unfold remove_ent.
    set (ents' := remove_first e (ents st)).
    destruct (decide (e = spawn st ∨ e ∈ ents')) as [Hstill|Hgone].
    - assert (HP : ∀ x, present (with_ents ents' st) x ↔ present st x).
      { intros x. unfold present. simpl. split.
        - intros [?|Hin]; [by left|]. right. by eapply elem_of_remove_first.
        - intros [?|Hin]; [by left|]. destruct (decide (x = e)) as [->|Hne].
          + destruct Hstill as [->|?]; [by left|by right].
          + right. by apply elem_of_remove_first_ne. }
      split; simpl.
      + eapply good_ext; [exact Hc|exact HP|done].
      + eapply good_ext; [exact Ht|exact HP|done].
      + done.
      + intros Hin. apply Hse. by eapply elem_of_remove_first.
      + done.
      + intros x Hle. rewrite HP. by apply Hf.
    - assert (HP : ∀ x, present (upd_target (ix_remove (tgt_of_keys (keys_of st e)) e)
                          (upd_class (ix_remove (cls_of_keys (keys_of st e)) e) (with_ents ents' st))) x
                        ↔ present st x ∧ x ≠ e).
      { intros x. unfold present. simpl. split.
        - intros [->|Hin].
          + split; [by left|]. intros E. apply Hgone. by left.
          + split; [right; by eapply elem_of_remove_first|]. intros E. apply Hgone. right. by rewrite <- E.
        - intros [[?|Hin] Hne]; [by left|]. right. by apply elem_of_remove_first_ne. }
      split; simpl.
      + eapply good_remove_present; [exact Hc|done|exact HP].
      + eapply good_remove_present; [exact Ht|done|exact HP].
      + done.
      + intros Hin. apply Hse. by eapply elem_of_remove_first.
      + done.
      + intros x Hle. rewrite HP. intros [Hp _]. by eapply Hf.
  Qed.

  Lemma create_ent_inv c l st : Inv st → Inv (create_ent fold c l st).
  Proof. intros HI. unfold create_ent. apply add_ent_inv, new_ent_inv, HI. Qed.

  (** *** make_unique, export *)
  Lemma make_unique_inv e p st : Inv st → Inv (make_unique fold e p st).1.
  Proof.
    intros HI. unfold make_unique. case_decide; [done|].
    set (orig := default [] (kv_find fold tn (keys_of st e))).
    assert (H1 : Inv (if decide (orig = []) then (st, 0) else set_item fold e tn [] st).1).
    { case_decide; [done|by apply set_item_inv]. }
    destruct (if decide (orig = []) then (st, 0) else set_item fold e tn [] st) as [st1 er1]. simpl in H1.
    case_decide; [by apply set_item_inv|].
    destruct (free_name _ _ _ _ _); [by apply set_item_inv|done].
  Qed.

  Lemma export_inv ver st : Inv st → Inv (export fold ver st).1.
  Proof.
    intros HI. unfold export.
    pose proof (set_item_inv (spawn st) mapver ver st HI) as H1.
    destruct (set_item fold (spawn st) mapver ver st) as [st1 er1]. simpl in H1.
    pose proof (set_item_inv (spawn st) cn ws st1 H1) as H2.
    destruct (set_item fold (spawn st) cn ws st1) as [st2 er2]. simpl in H2.
    by apply del_item_inv.
  Qed.

  (** *** reading an index (defaultdict side effect) *)
  Lemma probe_class_inv k st : Inv st → Inv (upd_class (probe k) st).
  Proof.
    intros [Hc Ht Hs Hse Hk Hf]. split; try done. intros k' e. simpl. rewrite ix_get_probe. apply Hc.
  Qed.
  Lemma probe_target_inv k st : Inv st → Inv (upd_target (probe k) st).
  Proof.
    intros [Hc Ht Hs Hse Hk Hf]. split; try done. intros k' e. simpl. rewrite ix_get_probe. apply Ht.
  Qed.

  (** *** every operation, every sequence *)
  Theorem step_inv o st : Inv st → Inv (step fold o st).1.
  Proof.
    intros HI. destruct o; simpl;
      auto using probe_class_inv, probe_target_inv, new_ent_inv, create_ent_inv, add_ent_inv, add_ents_inv, remove_ent_inv, set_item_inv,
        del_item_inv, del_items_inv, pop_item_inv, pop_first_inv, update_inv, clear_inv, make_unique_inv, export_inv.
  Qed.

  Theorem run_inv ops st : Inv st → Inv (run fold ops st).
  Proof.
    unfold run. revert st. induction ops as [|o ops IH]; intros st HI; simpl; [done|].
    apply IH, step_inv, HI.
  Qed.

  (** *** VMF() and VMF.parse *)
  Lemma init_cls : cls_of init 0 = ws.
  Proof.
    unfold IndexModel.cls_of, IndexModel.cls_of_keys, keys_of, init. simpl. rewrite lookup_singleton. simpl.
    rewrite decide_True by done. done.
  Qed.
  Lemma init_tgt : tgt_of init 0 = None.
  Proof.
    unfold IndexModel.tgt_of, IndexModel.tgt_of_keys, keys_of, init. simpl. rewrite lookup_singleton. simpl.
    rewrite decide_False by (rewrite fold_cn; apply cn_ne_tn). simpl. by rewrite fold_nil.
  Qed.

  Theorem init_inv : Inv init.
  Proof.
    split.
    - intros k e. unfold ix_get, present. simpl. destruct (decide (k = ws)) as [->|Hne].
      + rewrite lookup_singleton. simpl. rewrite elem_of_singleton, elem_of_nil.
        split; [intros ->; split; [by left|apply init_cls]|naive_solver].
      + rewrite lookup_singleton_ne by done. simpl. rewrite elem_of_empty, elem_of_nil.
        split; [done|]. intros [[->|[]] E]. rewrite init_cls in E. done.
    - intros k e. unfold ix_get, present. simpl. destruct (decide (k = None)) as [->|Hne].
      + rewrite lookup_singleton. simpl. rewrite elem_of_singleton, elem_of_nil.
        split; [intros ->; split; [by left|apply init_tgt]|naive_solver].
      + rewrite lookup_singleton_ne by done. simpl. rewrite elem_of_empty, elem_of_nil.
        split; [done|]. intros [[->|[]] E]. rewrite init_tgt in E. done.
    - apply init_cls.
    - simpl. apply not_elem_of_nil.
    - intros e. unfold keys_of, init. simpl. destruct (decide (e = 0)) as [->|].
      + rewrite lookup_singleton. simpl. apply NoDup_singleton.
      + rewrite lookup_singleton_ne by done. simpl. apply NoDup_nil_2.
    - intros e Hle. unfold present. simpl in *. rewrite elem_of_nil. intros [->|[]]. lia.
  Qed.

  (** the spawn is replaced by a detached object whose keys are rewritten; both indexes are given *)
  Lemma inv_respawn st e l' bc' bt' :
    Inv st → fold_nodup l' → e < nobj st → e ∉ ents st →
    good bc' (λ x, x = e ∨ x ∈ ents st) (λ x, if decide (x = e) then cls_of_keys l' else cls_of st x) →
    good bt' (λ x, x = e ∨ x ∈ ents st) (λ x, if decide (x = e) then tgt_of_keys l' else tgt_of st x) →
    cls_of_keys l' = ws →
    Inv (MS (<[e := l']> (objs st)) (nobj st) (ents st) e bc' bt').
  Proof.
    intros [Hc Ht Hs Hse Hk Hf] Hnd Hlt Hnin Hc' Ht' Hsp.
    assert (Hko : ∀ x, keys_of (MS (<[e := l']> (objs st)) (nobj st) (ents st) e bc' bt') x
                       = if decide (x = e) then l' else keys_of st x).
    { intros x. unfold keys_of. simpl. destruct (decide (x = e)) as [->|].
      - by rewrite lookup_insert.
      - by rewrite lookup_insert_ne. }
    split; simpl.
    - eapply good_ext; [exact Hc'|done|]. intros x. unfold IndexModel.cls_of. rewrite Hko.
      by destruct (decide (x = e)).
    - eapply good_ext; [exact Ht'|done|]. intros x. unfold IndexModel.tgt_of. rewrite Hko.
      by destruct (decide (x = e)).
    - unfold IndexModel.cls_of. rewrite Hko. by rewrite decide_True.
    - done.
    - intros x. rewrite Hko. destruct (decide (x = e)); auto.
    - intros x Hle. unfold present. simpl. intros [->|Hin]; [lia|]. apply (Hf x Hle). by right.
  Qed.

  Lemma good_swap3 {K} `{Countable K} (m : gmap K (gset nat)) P f old e k1 knew :
    good m P f → ¬ P e → old ≠ e →
    good (ix_add knew e (ix_remove k1 e (ix_remove (f old) old m)))
         (λ x, (P x ∧ x ≠ old) ∨ x = e) (λ x, if decide (x = e) then knew else f x).
  Proof.
    intros Hg Hne Hoe k x. rewrite elem_of_ix_add, !elem_of_ix_remove, (Hg k x).
    destruct (decide (x = e)) as [Hxe|Hxe]; destruct (decide (x = old)) as [Hxo|Hxo]; subst; naive_solver.
  Qed.
  Lemma good_swap2 {K} `{Countable K} (m : gmap K (gset nat)) P f old e knew :
    good m P f → ¬ P e → old ≠ e →
    good (ix_add knew e (ix_remove (f old) old m))
         (λ x, (P x ∧ x ≠ old) ∨ x = e) (λ x, if decide (x = e) then knew else f x).
  Proof.
    intros Hg Hne Hoe k x. rewrite elem_of_ix_add, !elem_of_ix_remove, (Hg k x).
    destruct (decide (x = e)) as [Hxe|Hxe]; destruct (decide (x = old)) as [Hxo|Hxo]; subst; naive_solver.
  Qed.

  Lemma set_item_keys_ne e key v st x : x ≠ e → keys_of (set_item fold e key v st).1 x = keys_of st x.
  Proof.
    intros Hne. unfold set_item. repeat case_decide; try destruct (in_map st e); simpl; unfold keys_of; simpl;
      rewrite !lookup_insert_ne by done; done.
  Qed.
  Lemma update_keys_ne e l st x : x ≠ e → keys_of (update fold e l st).1 x = keys_of st x.
  Proof.
    intros Hne. revert st. induction l as [|[k v] l IH]; intros st; simpl; [done|].
    pose proof (set_item_keys_ne e k v st x Hne) as H1. destruct (set_item fold e k v st) as [st' er].
    simpl in H1. destruct er; [|done]. by rewrite IH.
  Qed.
  Lemma new_ent_keys_ne l st x : x ≠ nobj st → keys_of (new_ent fold l st) x = keys_of st x.
  Proof.
    intros Hne. unfold new_ent. rewrite update_keys_ne by done. unfold keys_of, new_obj. simpl.
    by rewrite lookup_insert_ne.
  Qed.

  Lemma replace_spawn_inv l st : Inv st → tgt_of st (spawn st) = None → Inv (replace_spawn fold l st).
  Proof.
    intros HI0 Htn0. unfold replace_spawn.
    pose proof (new_ent_inv l st HI0) as HI. destruct (new_ent_frame l st) as (F1&F2&F3).
    set (st2 := new_ent fold l st) in *. set (e := nobj st). set (old := spawn st2).
    assert (Hold_e : old ≠ e).
    { unfold old. rewrite F1. intros E. destruct HI0 as [_ _ _ _ _ Hf0]. apply (Hf0 (spawn st)); [unfold e in E; lia|by left]. }
    assert (He_np : ¬ present st2 e).
    { destruct HI0 as [_ _ _ _ _ Hf0]. unfold present. rewrite F1, F2. apply (Hf0 e). done. }
    assert (He_nin : e ∉ ents st2) by (intros Hin; apply He_np; by right).
    assert (Htn2 : tgt_of st2 old = None).
    { unfold IndexModel.tgt_of, st2, old. rewrite F1. rewrite new_ent_keys_ne; [exact Htn0|]. rewrite <- F1. exact Hold_e. }
    pose proof HI as [Hc Ht Hs Hse Hk Hf].
    set (L := keys_of st2 e). set (l' := kv_set fold cn ws L).
    assert (Hcl' : cls_of_keys l' = ws) by (unfold IndexModel.cls_of_keys, l'; by rewrite find_set_cn).
    assert (Htg' : tgt_of_keys l' = tgt_of st2 e).
    { unfold IndexModel.tgt_of, IndexModel.tgt_of_keys, l'. rewrite kv_find_set_ne; [done|].
      rewrite fold_cn. apply not_eq_sym, cn_ne_tn. }
    set (st3 := MS (objs st2) (nobj st2) (ents st2) e (ix_remove ws old (by_class st2)) (ix_remove None old (by_target st2))).
    assert (Hst4 : (set_item fold e cn ws st3).1
                   = MS (<[e := l']> (objs st2)) (nobj st2) (ents st2) e
                        (ix_add ws e (ix_remove (cls_of st2 e) e (ix_remove ws old (by_class st2))))
                        (ix_remove None old (by_target st2))).
    { unfold set_item. rewrite (decide_True _ _ fold_cn). simpl ents.
      rewrite (decide_False _ _ He_nin). simpl spawn. rewrite (decide_True _ _ (eq_refl e)).
      rewrite (decide_True _ _ fold_ws). simpl. rewrite fold_cn. done. }
    rewrite Hst4.
    assert (Hk4 : tgt_of (MS (<[e := l']> (objs st2)) (nobj st2) (ents st2) e
                        (ix_add ws e (ix_remove (cls_of st2 e) e (ix_remove ws old (by_class st2))))
                        (ix_remove None old (by_target st2))) e = tgt_of_keys l').
    { unfold IndexModel.tgt_of, keys_of. simpl. by rewrite lookup_insert. }
    rewrite Hk4. unfold upd_target. simpl.
    assert (HP : ∀ x, x = e ∨ x ∈ ents st2 ↔ present st2 x ∧ x ≠ old ∨ x = e).
    { intros x. unfold present. fold old. split.
      - intros [->|Hin]; [by right|]. left. split; [by right|]. intros ->. by apply Hse.
      - intros [[[->|Hin] Hne]| ->]; [done|by right|by left]. }
    apply inv_respawn; auto.
    - apply fold_nodup_set, Hk.
    - rewrite F3. unfold e. lia.
    - eapply good_ext.
      + pose proof (good_swap3 (by_class st2) (present st2) (cls_of st2) (spawn st2) e (cls_of st2 e) ws
                      Hc He_np Hold_e) as G. rewrite Hs in G. exact G.
      + exact HP.
      + intros x. simpl. rewrite Hcl'. done.
    - eapply good_ext.
      + pose proof (good_swap2 (by_target st2) (present st2) (tgt_of st2) (spawn st2) e (tgt_of_keys l')
                      Ht He_np Hold_e) as G. unfold old in Htn2. rewrite Htn2 in G. exact G.
      + exact HP.
      + intros x. simpl. done.
  Qed.

  Theorem parse_init_inv sk ek : Inv (parse_init fold sk ek).
  Proof.
    unfold parse_init.
    assert (H0 : Inv (replace_spawn fold sk init)) by (apply replace_spawn_inv; [apply init_inv|apply init_tgt]).
    revert H0. generalize (replace_spawn fold sk init). induction ek as [|l ek IH]; intros st HI; simpl; [done|].
    apply IH. apply add_ent_inv, new_ent_inv, HI.
  Qed.

  (** *** Several maps *)
  Theorem wstep_inv o w : Forall Inv w → Forall Inv (wstep fold o w).1.
  Proof.
    intros HW. destruct o as [|sk ek|m e m2|m o]; simpl.
    - apply Forall_app. split; [done|]. apply Forall_singleton, init_inv.
    - apply Forall_app. split; [done|]. apply Forall_singleton, parse_init_inv.
    - destruct (w !! m) as [sm|]; simpl; [|done]. apply Forall_alter; [done|].
      intros x _ Hx. by apply new_ent_inv.
    - destruct (w !! m) as [sm|] eqn:E; simpl; [|done].
      pose proof (step_inv o sm (Forall_lookup_1 _ _ _ _ HW E)) as H1.
      destruct (step fold o sm) as [sm' er]. simpl in *. by apply Forall_insert.
  Qed.

  Theorem wrun_inv ops w : Forall Inv w → Forall Inv (wrun fold ops w).
  Proof.
    unfold wrun. revert w. induction ops as [|o ops IH]; intros w HW; simpl; [done|].
    apply IH, wstep_inv, HW.
  Qed.

  (** *** What the invariant says to a reader of the indexes *)
  Lemma inv_by_class st k e : Inv st → e ∈ ix_get (by_class st) k ↔ present st e ∧ cls_of st e = k.
  Proof. intros [Hc _ _ _ _ _]. apply Hc. Qed.
  Lemma inv_by_target st k e : Inv st → e ∈ ix_get (by_target st) k ↔ present st e ∧ tgt_of st e = k.
  Proof. intros [_ Ht _ _ _ _]. apply Ht. Qed.
  Lemma inv_worldspawn st : Inv st → cls_of st (spawn st) = ws ∧ spawn st ∈ ix_get (by_class st) ws.
  Proof. intros HI. pose proof HI as [Hc _ Hs _ _ _]. split; [done|]. apply Hc. split; [by left|done]. Qed.
End inv.
