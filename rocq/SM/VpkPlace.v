(** Where [FileInfo.write] puts the data, as a decision table.  translate/c13_place.py executes the method on symbolic values for every
    combination of (directory VPK?, dir_limit None / <= MAX_PRELOAD / > MAX_PRELOAD, arch_index None?, anything left after the preload?)
    and writes one [prow] per combination into Gen/VpkPlace_gen.v: where the data was cut, where the rest went, what index and offset
    were stored, whether the stored pieces are exactly the two halves of the data.  [place_table_ok] compares the table with
    [want_cut] / [want_dest]; VpkPlaceProofs.v shows that these two functions are [write_info] of SM/Vpk.v for all inputs. *)
From Coq Require Import List NArith Bool.
From SV Require Import Fmt.VpkDir SM.Vpk.
Import ListNotations.
Open Scope N_scope.

Inductive lim_class := LNone | LSmall | LBig.
Inductive cut_t := CLimit | CMax | COther.
Inductive dest_t := DNone | DFooter | DArch | DOther.
Inductive off_t := OZero | OFooterLen | OArchEnd | OOther.
Record prow := mkRow { r_dir : bool; r_lim : lim_class; r_idx_none : bool; r_tail_empty : bool;
                       r_cut : cut_t; r_dest : dest_t; r_stored_none : bool; r_off : off_t; r_exact : bool }.

Definition lim_eqb (a b : lim_class) : bool := match a, b with LNone, LNone | LSmall, LSmall | LBig, LBig => true | _, _ => false end.
Definition cut_eqb (a b : cut_t) : bool := match a, b with CLimit, CLimit | CMax, CMax => true | _, _ => false end.
Definition dest_eqb (a b : dest_t) : bool := match a, b with DNone, DNone | DFooter, DFooter | DArch, DArch => true | _, _ => false end.
Definition off_eqb (a b : off_t) : bool := match a, b with OZero, OZero | OFooterLen, OFooterLen | OArchEnd, OArchEnd => true | _, _ => false end.

(** everything is kept in the directory file: singular VPK, or no limit *)
Definition forced (dir : bool) (lim : lim_class) : bool := negb dir || lim_eqb lim LNone.
Definition want_cut (dir : bool) (lim : lim_class) : cut_t :=
  if forced dir lim then CMax else match lim with LSmall => CLimit | _ => CMax end.
Definition want_dest (dir : bool) (lim : lim_class) (idx_none tail_empty : bool) : dest_t :=
  if tail_empty then DNone else if forced dir lim || idx_none then DFooter else DArch.
Definition want_off (d : dest_t) : off_t := match d with DNone => OZero | DFooter => OFooterLen | DArch => OArchEnd | DOther => OOther end.

Definition row_cut_ok (r : prow) : bool := cut_eqb (r_cut r) (want_cut (r_dir r) (r_lim r)) && r_exact r.
Definition row_dest_ok (r : prow) : bool :=
  let d := want_dest (r_dir r) (r_lim r) (r_idx_none r) (r_tail_empty r) in
  dest_eqb (r_dest r) d && off_eqb (r_off r) (want_off d) && Bool.eqb (r_stored_none r) (negb (dest_eqb d DArch)).
Definition row_ok (r : prow) : bool := row_cut_ok r && row_dest_ok r.

Definition all_scen : list (bool * lim_class * bool * bool) :=
  flat_map (fun d => flat_map (fun l => flat_map (fun i => map (fun t => (d, l, i, t)) [false; true]) [false; true]) [LNone; LSmall; LBig]) [false; true].
Definition covers (tbl : list prow) : bool :=
  forallb (fun s => let '(d, l, i, t) := s in
             existsb (fun r => Bool.eqb (r_dir r) d && lim_eqb (r_lim r) l && Bool.eqb (r_idx_none r) i && Bool.eqb (r_tail_empty r) t) tbl) all_scen.
Definition place_table_ok (tbl : list prow) : bool := forallb row_ok tbl && covers tbl.
(** the two historical obligations, now read off the table *)
Definition place_cut_ok (tbl : list prow) : bool := forallb row_cut_ok tbl && covers tbl.
Definition place_dest_ok (tbl : list prow) : bool := forallb row_dest_ok tbl && covers tbl.

(** the class of a configuration, and the value of a cut *)
Definition class_of (cf : vcfg) : lim_class :=
  match v_limit cf with None => LNone | Some l => if l <=? v_max_pre cf then LSmall else LBig end.
Definition cut_val (cf : vcfg) (c : cut_t) : N :=
  match c with CLimit => match v_limit cf with Some l => l | None => 0 end | _ => v_max_pre cf end.

(** ---- where FileInfo.read / FileInfo.verify take the bytes after [start_data] from ---- *)
Inductive rsrc := RNone | RFooter | RArch | ROther.
(** (arch_len is zero, arch_index is None, source read() uses, source whose checksum verify() compares with crc) *)
Record rrow := mkRRow { rr_alen_zero : bool; rr_idx_none : bool; rr_read : rsrc; rr_verify : rsrc }.
Definition rsrc_eqb (a b : rsrc) : bool := match a, b with RNone, RNone | RFooter, RFooter | RArch, RArch => true | _, _ => false end.
Definition want_src (alen_zero idx_none : bool) : rsrc := if alen_zero then RNone else if idx_none then RFooter else RArch.
Definition rrow_ok (r : rrow) : bool :=
  rsrc_eqb (rr_read r) (want_src (rr_alen_zero r) (rr_idx_none r)) && rsrc_eqb (rr_verify r) (want_src (rr_alen_zero r) (rr_idx_none r)).
Definition read_table_ok (tbl : list rrow) : bool :=
  forallb rrow_ok tbl &&
  forallb (fun s => existsb (fun r => Bool.eqb (rr_alen_zero r) (fst s) && Bool.eqb (rr_idx_none r) (snd s)) tbl)
          [(false, false); (false, true); (true, false); (true, true)].
