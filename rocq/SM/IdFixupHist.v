(** EntityFixup over whole histories (round 3).

    SM/IdLife.v models the constructor ([fx_init]), [__setitem__] ([fx_set]) and [__delitem__] ([fx_del]) of
    vmf.EntityFixup one step at a time.  Here: every operation that can change the table of one entity, and runs of
    them from any constructor argument.
    - [FSet v]      fixup[var] = value, setdefault(var, value), update({var: value}): a new variable takes the
                    lowest unused index, an existing one keeps its index;
    - [FDel v]      del fixup[var], pop(var);
    - [FClear]      clear();
    - [FRebuild]    EntityFixup(fixup.copy_values()) — what Entity.copy() does: the constructor is run again on the
                    table's own values, in table order;
    - [FCopy]       copy.copy / copy.deepcopy / pickle round trip: index-preserving duplicates.
    Executable definitions only; proofs are in SM/IdFixupHistProofs.v. *)
From stdpp Require Import list.
From Coq Require Import ZArith.
From SV Require Import SM.IdLife.
Open Scope Z_scope.

Inductive fxop := FSet (v : Z) | FDel (v : Z) | FClear | FRebuild | FCopy.

Section fxhist.
  Variables require_positive defer : bool.

  Definition fx_step (f : fixups) (o : fxop) : fixups :=
    match o with
    | FSet v => fx_set v f
    | FDel v => fx_del v f
    | FClear => []
    | FRebuild => fx_init require_positive defer f
    | FCopy => f
    end.

  Definition fx_hist (l : list (Z * Z)) (ops : list fxop) : fixups :=
    fold_left fx_step ops (fx_init require_positive defer l).
End fxhist.
