(** C05 (b) — hash of frozen values: equal values hash equal, and the hash of a frozen object never changes. *)
From Coq Require Import List String Bool Arith.
From SV Require Import SM.FrozenOps SM.FrozenOpsProofs SM.FrozenHash.
Import ListNotations.
Open Scope string_scope.

Lemma lookup_in c rows k : lookup c rows = Some k -> In (c, k) rows.
Proof.
  induction rows as [|[c' k'] r IH]; simpl; try discriminate.
  destruct (c' =? c) eqn:E; intros Hk.
  - apply String.eqb_eq in E. inversion Hk; subst. left; reflexivity.
  - right; auto.
Qed.

Lemma subset_in a b x : subset a b = true -> In x a -> In x b.
Proof.
  unfold subset. rewrite forallb_forall. intros H Hx. specialize (H x Hx).
  apply existsb_exists in H. destruct H as [y [Hy E]]. apply String.eqb_eq in E. subst; exact Hy.
Qed.

(** with the census passed, whatever class defines an in-place operator is not a class of, or a base class of, a frozen object *)
Theorem inplace_never_on_frozen rows : inplace_ok rows = true ->
  forall c m, In (c, m) rows -> frozen_reachable c = false /\ frozen_class c = false.
Proof.
  unfold inplace_ok. rewrite forallb_forall. intros H c m Hin. specialize (H _ Hin). simpl in H.
  apply negb_true_iff in H. split; auto.
  unfold frozen_reachable in H. apply orb_false_iff in H. destruct H as [H _].
  apply orb_false_iff in H. destruct H as [H _]. apply orb_false_iff in H. destruct H as [H _]. exact H.
Qed.

Example inplace_on_base_refuted : inplace_ok [("Vec", "__iadd__"); ("VecBase", "__imul__")] = false.
Proof. reflexivity. Qed.

Section Proofs.
  Variables V X H : Type.
  Variable get : V -> string -> X.
  Variable hf : list X -> H.
  Variable ident : nat -> H.

  (** Equal FROZEN values hash equal: for a table that passes [hash_table_ok], two objects of the same frozen class whose
      slots read the same have the same hash (or are both unhashable) - whichever registers they live in. *)
  Theorem hash_same_value rows : hash_table_ok rows = true ->
    forall c a b i j, frozen_class c = true -> same_value V X get c a b ->
      hash_of V X H get hf ident rows i (c, a) = hash_of V X H get hf ident rows j (c, b).
  Proof.
    unfold hash_table_ok. intros Hok c a b i j Hfz Hs.
    apply andb_prop in Hok. destruct Hok as [Hok _].
    rewrite forallb_forall in Hok. unfold hash_of; simpl.
    destruct (lookup c rows) as [k|] eqn:E; auto.
    specialize (Hok _ (lookup_in _ _ _ E)). unfold hash_row_ok in Hok; simpl in Hok. rewrite Hfz in Hok.
    destruct k as [|l| |]; try discriminate; auto.
    apply andb_prop in Hok. destruct Hok as [Hsub _].
    f_equal. f_equal. apply map_ext_in. intros s Hin. apply Hs. eapply subset_in; eauto.
  Qed.

  (** a hashable frozen class reads every slot: two objects that hash through [HSlots l] and differ in no slot of [l]
      differ in no slot of the family (so the hash cannot ignore a component) *)
  Theorem hash_reads_every_slot rows : hash_table_ok rows = true ->
    forall c l, frozen_class c = true -> lookup c rows = Some (HSlots l) -> forall s, In s (family_slots c) -> In s l.
  Proof.
    unfold hash_table_ok. intros Hok c l Hfz E s Hin.
    apply andb_prop in Hok. destruct Hok as [Hok _].
    rewrite forallb_forall in Hok. specialize (Hok _ (lookup_in _ _ _ E)). unfold hash_row_ok in Hok; simpl in Hok. rewrite Hfz in Hok.
    apply andb_prop in Hok. destruct Hok as [_ Hsub]. eapply subset_in; eauto.
  Qed.

  (** only frozen classes are hashable - under the CONVENTIONS [hash_conventions], which C05 does not state (observation) *)
  Theorem hashable_is_frozen rows : hash_conventions rows = true ->
    forall c i v h, hash_of V X H get hf ident rows i (c, v) = Some h -> frozen_class c = true.
  Proof.
    unfold hash_conventions. intros Hok c i v h.
    repeat (apply andb_prop in Hok; destruct Hok as [Hok ?]).
    rewrite forallb_forall in Hok. unfold hash_of; simpl.
    destruct (lookup c rows) as [k|] eqn:E; try discriminate.
    specialize (Hok _ (lookup_in _ _ _ E)). simpl in Hok.
    destruct k as [|l| |]; try discriminate. intros _. exact Hok.
  Qed.

  (** The hash of a frozen object held across ANY history of public calls is the hash it had at the start
      (composes the frame theorem): a frozen value used as a dictionary key stays findable. *)
  Theorem frozen_hash_stable table carve rows : table_ok table carve = true ->
    forall h st i r, good_history V table carve h st ->
    nth_error st i = Some r -> frozen_class (fst r) = true ->
    exists r', nth_error (FrozenOps.run V table h st) i = Some r' /\
               hash_of V X H get hf ident rows i r' = hash_of V X H get hf ident rows i r.
  Proof.
    intros OK h st i r G Hn Hf. exists r. split; auto.
    exact (frozen_registers_stable V table carve OK h st i r G Hn Hf).
  Qed.
End Proofs.

(** object.__hash__ on a frozen class is rejected: two objects with the same value in different registers hash
    differently (a pickled copy of a key would not be found). *)
Theorem hash_identity_refuted :
  let rows := [("FrozenVec", HIdentity)] in
  hash_table_ok rows = false /\ bad_hash_rows rows = ["FrozenVec"] /\
  hash_of nat nat nat (fun v _ => v) (fun l => 0) (fun i => i) rows 0 ("FrozenVec", 7)
  <> hash_of nat nat nat (fun v _ => v) (fun l => 0) (fun i => i) rows 1 ("FrozenVec", 7).
Proof. repeat split; try reflexivity. discriminate. Qed.

(** a hash that skips a component is rejected as well *)
Example hash_two_slots_refuted : hash_row_ok ("FrozenAngle", HSlots ["_pitch"; "_yaw"]) = false.
Proof. reflexivity. Qed.

(** the property is silent about a value that can change: an identity hash on a mutable class passes the table check
    (and fails the conventions) *)
Example hash_of_mutable_not_constrained :
  hash_row_ok ("Matrix", HIdentity) = true /\ hash_conventions [("Matrix", HIdentity)] = false.
Proof. split; reflexivity. Qed.

(** today's shape satisfies the premise *)
Example hash_table_satisfiable :
  hash_table_ok [("Vec", HUnhashable); ("FrozenVec", HSlots ["_x"; "_y"; "_z"]); ("Angle", HUnhashable);
                 ("FrozenAngle", HSlots ["_pitch"; "_yaw"; "_roll"]); ("Matrix", HUnhashable); ("FrozenMatrix", HUnhashable)] = true
  /\ hash_conventions [("Vec", HUnhashable); ("FrozenVec", HSlots ["_x"; "_y"; "_z"]); ("Angle", HUnhashable);
                 ("FrozenAngle", HSlots ["_pitch"; "_yaw"; "_roll"]); ("Matrix", HUnhashable); ("FrozenMatrix", HUnhashable)] = true.
Proof. split; reflexivity. Qed.
