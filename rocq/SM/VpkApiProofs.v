(** Proofs for SM/VpkApi.v: extended histories (with-blocks, load_dirfile() on the same object) refine the specification map. *)
From Coq Require Import List NArith Bool Permutation Lia.
From SV Require Import Fmt.VpkDir Fmt.VpkDirProofs SM.Vpk SM.VpkProofs SM.VpkRefine SM.VpkApi.
Import ListNotations.
Open Scope N_scope.

Lemma exit_table_ok_lookup et : exit_table_ok et = true -> forall e w,
  exit_lookup et e w = Some ((if e && w then 1 else 0), false).
Proof.
  unfold exit_table_ok. intros H e w. repeat (apply andb_prop in H; destruct H as [H ?]).
  assert (exit_row_ok et e w = true) as Hr by (destruct e, w; assumption).
  unfold exit_row_ok in Hr. destruct (exit_lookup et e w) as [[c r]|]; [|discriminate].
  apply andb_prop in Hr. destruct Hr as [Hc Hn]. apply N.eqb_eq in Hc. apply negb_true_iff in Hn. now subst.
Qed.

(** For an accepted table, leaving a with-block is write_dirfile() exactly when no exception is in flight and the mode is writable. *)
Lemma xstep_exit et crc cf st e : exit_table_ok et = true ->
  xstep et crc cf st (XExit e) = if e && writable (md st) then step crc cf st OSave else Some (st, rOk).
Proof.
  intros H. cbn [xstep]. rewrite (exit_table_ok_lookup et H). destruct (e && writable (md st)); reflexivity.
Qed.

Section xrefine.
  Variable et : list exit_row.
  Hypothesis Htbl : exit_table_ok et = true.
  Variable crc : bytes -> N.
  Variable cf : vcfg.
  Hypothesis Hcf : vcfg_okb cf = true.
  Variable D : bytes -> Prop.
  Hypothesis D_nil : D [].
  Hypothesis D_inj : forall d1 d2, D d1 -> D d2 -> crc d1 = crc d2 -> d1 = d2.

  Definition xop_D (x : xop) : Prop := match x with XOp o => op_D D o | _ => True end.

  Lemma xstep_refines st s x st' c :
    inv crc cf D st s -> xop_D x -> xstep et crc cf st x = Some (st', c) ->
    c = snd (sxstep cf s x) /\ inv crc cf D st' (fst (sxstep cf s x)).
  Proof.
    intros Hinv Hx. pose proof Hinv as (Hm & _). destruct x as [o|e|].
    - cbn [xstep sxstep]. apply (step_refines crc cf Hcf D D_nil D_inj); assumption.
    - rewrite (xstep_exit et crc cf st e Htbl). cbn [sxstep]. rewrite <- Hm.
      destruct (e && writable (md st)).
      + apply (step_refines crc cf Hcf D D_nil D_inj); [assumption|constructor].
      + intros [= <- <-]. cbn [fst snd]. auto.
    - cbn [xstep sxstep]. rewrite <- Hm.
      destruct (step crc cf st (OReopen (md st))) as [[st1 c1]|] eqn:E; [|discriminate].
      destruct (c1 =? rOk); [|discriminate]. intros [= <- <-].
      apply (step_refines crc cf Hcf D D_nil D_inj) with (st := st); [assumption|constructor|exact E].
  Qed.

  Lemma xrun_refines xs : forall st s st' cs,
    inv crc cf D st s -> Forall xop_D xs -> xrun et crc cf st xs = Some (st', cs) ->
    cs = snd (sxrun cf s xs) /\ inv crc cf D st' (fst (sxrun cf s xs)).
  Proof.
    induction xs as [|x xs IH]; intros st s st' cs Hinv Hxs; cbn [xrun sxrun].
    - intros [= <- <-]. auto.
    - inversion Hxs as [|? ? Hx Hxs']; subst.
      destruct (xstep et crc cf st x) as [[st1 c]|] eqn:Es; [|discriminate].
      destruct (xrun et crc cf st1 xs) as [[st2 cs']|] eqn:Er; [|discriminate]. intros [= <- <-].
      destruct (xstep_refines _ _ _ _ _ Hinv Hx Es) as [Hc Hinv1].
      destruct (sxstep cf s x) as [s1 c1] eqn:Ess. cbn [fst snd] in Hc, Hinv1.
      destruct (IH _ _ _ _ Hinv1 Hxs' Er) as [Hcs Hinv2].
      destruct (sxrun cf s1 xs) as [s2 cs2]. cbn [fst snd] in *. subst. auto.
  Qed.
End xrefine.

(** Every history over the six operations, with-blocks left normally or by an exception, and load_dirfile() on the same object. *)
Theorem vpk_api_refines_map et crc cf : exit_table_ok et = true -> vcfg_okb cf = true -> forall xs st codes,
  collision_free crc (xplain xs) ->
  xrun et crc cf (init) xs = Some (st, codes) ->
  let '(s, scodes) := sxrun cf sinit xs in
  codes = scodes /\ md st = smd s /\ Permutation (map fst (tbl st)) (map fst (cur s)) /\
  forall k, match alookup k (tbl st), alookup k (cur s) with
            | Some i, Some d => read_info st i = d /\ verify_info crc st i = true
            | None, None => True
            | _, _ => False
            end.
Proof.
  intros Htbl Hcf xs st codes Hfree Hrun.
  set (D := fun d => In d (datas (xplain xs))).
  assert (D []) as D_nil by (left; reflexivity).
  assert (Forall (xop_D D) xs) as Hxs.
  { apply Forall_forall. intros x Hx. destruct x as [o| |]; cbn [xop_D]; [|exact I|exact I].
    unfold op_D. apply Forall_forall. intros d Hd. right. apply in_flat_map. exists o. split; [|exact Hd].
    unfold xplain. apply in_flat_map. exists (XOp o). split; [exact Hx|now left]. }
  destruct (xrun_refines et Htbl crc cf Hcf D D_nil Hfree xs _ _ _ _ (inv_init crc cf D) Hxs Hrun) as [Hc Hinv].
  destruct (sxrun cf sinit xs) as [s scodes]. cbn [fst snd] in *.
  split; [exact Hc|]. exact (inv_observe crc cf D _ _ Hinv).
Qed.

Lemma sxrun_app cf a : forall s b,
  sxrun cf s (a ++ b) = let '(s1, c1) := sxrun cf s a in let '(s2, c2) := sxrun cf s1 b in (s2, c1 ++ c2).
Proof.
  induction a as [|x a IH]; intros s b; cbn [sxrun app].
  - destruct (sxrun cf s b). reflexivity.
  - destruct (sxstep cf s x) as [s' c]. rewrite IH. destruct (sxrun cf s' a) as [s1 c1]. destruct (sxrun cf s1 b) as [s2 c2]. reflexivity.
Qed.
Lemma xplain_app a b : xplain (a ++ b) = xplain a ++ xplain b.
Proof. unfold xplain. apply flat_map_app. Qed.

(** The with-statement: any extended history that leaves the archive writable, then the block is left normally, then the archive is
    opened again for reading or appending: it lists exactly the files of the map, each reading back its bytes and verifying. *)
Theorem vpk_with_block_saves et crc cf : exit_table_ok et = true -> vcfg_okb cf = true -> forall xs m st codes,
  m <> MW -> collision_free crc (xplain xs) ->
  xrun et crc cf (init) (xs ++ [XExit true; XOp (OReopen m)]) = Some (st, codes) ->
  let '(s0, c0) := sxrun cf sinit xs in
  writable (smd s0) = true ->
  codes = c0 ++ [rOk; rOk] /\ md st = m /\ Permutation (map fst (tbl st)) (map fst (cur s0)) /\
  forall k, match alookup k (tbl st), alookup k (cur s0) with
            | Some i, Some d => read_info st i = d /\ verify_info crc st i = true
            | None, None => True
            | _, _ => False
            end.
Proof.
  intros Htbl Hcf xs m st codes Hm Hfree Hrun.
  assert (collision_free crc (xplain (xs ++ [XExit true; XOp (OReopen m)]))) as Hfree'.
  { unfold collision_free in *. rewrite xplain_app. cbn [xplain flat_map app]. unfold datas. rewrite flat_map_app. cbn [flat_map op_data app]. rewrite app_nil_r. exact Hfree. }
  pose proof (vpk_api_refines_map et crc cf Htbl Hcf _ _ _ Hfree' Hrun) as H.
  rewrite sxrun_app in H. destruct (sxrun cf sinit xs) as [s0 c0]. intros Hw.
  cbn [sxrun sxstep andb] in H. rewrite Hw in H. cbn [sstep] in H. rewrite Hw in H. cbn [negb saved] in H.
  destruct m; [|contradiction|]; cbn [cur smd] in H; exact H.
Qed.

(** An exception in the block: nothing is written; what the next open finds is what was saved before. *)
Theorem vpk_with_block_exception et crc cf st : exit_table_ok et = true -> xstep et crc cf st (XExit false) = Some (st, rOk).
Proof. intros H. rewrite (xstep_exit et crc cf st false H). reflexivity. Qed.

Lemma exit_tables_computed :
  exit_table_ok exit_table_pinned = true /\ exit_table_ok exit_table_always = false /\ exit_table_ok exit_table_never = false
  /\ mode_table_ok false true true = true.
Proof. vm_compute. repeat split; reflexivity. Qed.
