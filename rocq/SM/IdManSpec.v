(** Set-level specification of [srctools.vmf.IDMan]: the allocator seen as a plain finite set of IDs in use.
    [spec_get] hands out the desired ID when it is positive and free, otherwise the *least* free positive ID;
    there is no search hint.  SM/IdManSpecProofs.v shows that the implementation model of SM/IdMan.v
    (with its [search_pos] hint) is observationally equal to this specification on every operation sequence,
    i.e. the hint is a pure optimisation.  Executable definitions only. *)
From stdpp Require Import gmap sets.
From Coq Require Import ZArith.
From SV Require Import SM.IdMan.
Open Scope Z_scope.

(** The least positive integer that is not in [u] (the scan started at 1; [None] is unreachable). *)
Definition least_free (u : gset Z) : option Z := scan (S (size u)) 1 u.

Definition spec_get (d : Z) (u : gset Z) : option (Z * gset Z) :=
  if decide (0 < d ∧ d ∉ u) then Some (d, {[d]} ∪ u)
  else match least_free u with Some i => Some (i, {[i]} ∪ u) | None => None end.

Definition spec_step (u : gset Z) (o : op) : gset Z * Z :=
  match o with
  | Get d => match spec_get d u with Some (i, u') => (u', i) | None => (u, -3) end
  | Discard e => (u ∖ {[e]}, -2)
  | Remove e => if decide (e ∈ u) then (u ∖ {[e]}, -2) else (u, -1)
  | Clear => (∅, -2)
  | Contains e => (u, if decide (e ∈ u) then 1 else 0)
  | Len => (u, Z.of_nat (size u))
  end.

Fixpoint spec_run (u : gset Z) (ops : list op) : list Z :=
  match ops with
  | [] => []
  | o :: r => let '(u', z) := spec_step u o in z :: spec_run u' r
  end.

(** The observable results of the implementation model (everything [run] yields except the final hint). *)
Fixpoint run_res (g : bool) (s : idman) (ops : list op) : list Z :=
  match ops with
  | [] => []
  | o :: r => let '(s', z) := step g s o in z :: run_res g s' r
  end.

(** [IDMan(existing)]: any starting set, the hint at 1. *)
Definition init_from (l : list Z) : idman := {| used := list_to_set l; pos := 1 |}.
