(** C18 — whole histories of file-system operations over several RawFileSystem objects.

    One step of a history is one access site of one object: the object (root argument, constrain flag), the site
    (method, OS callee, path expression — from the table generated out of filesys.py) and the strings it is handed
    (argument, File handle strings, ...; a handle produced by an earlier step of ANY object is just such strings).
    A memo table may stand in front of _resolve_path (SM/PathMemo.v: any replacement policy, key with or without the
    constrain flag); it is the only state a step leaves behind, and it is threaded through the evaluation of the
    path expression in evaluation order (arguments of os.path.join left to right).

    Proofs in SM/PathHistoryProofs.v: when the key covers every step (it contains the flag, or every object is
    constrained) the history is the step-by-step [peval] of SM/PathOps.v, so every path a constrained object hands to
    the OS at any point of any history is inside its root; with a key that ignores the flag the two-step history
    "an unconstrained object opens ../secret.txt, then a constrained one on the same folder" reaches the outside. *)
From Coq Require Import List NArith Bool String.
From SV Require Import SM.PathNorm SM.PathOps SM.PathMemo.
Import ListNotations.

(** [peval] with the memo table threaded through; [None] = RootEscapeError. *)
Fixpoint peval_m (wf : bool) (g : gx) (cwd : str) (evict : cache -> cache) (c : cache)
                 (root_arg : str) (con : bool) (i : inp) (e : pexp) : cache * option str :=
  match e with
  | PArg => (c, Some (i_arg i))
  | PHandleData => (c, Some (i_data i))
  | PHandlePath => (c, Some (i_hpath i))
  | PPrefix => (c, Some (i_prefix i))
  | PWalked => (c, Some (i_walked i))
  | PSelfRoot => (c, Some (abspath cwd root_arg))
  | PLit s => (c, Some s)
  | PUnbs a => let '(c1, v) := peval_m wf g cwd evict c root_arg con i a in (c1, option_map unbackslash v)
  | PJoin a b =>
      let '(c1, va) := peval_m wf g cwd evict c root_arg con i a in
      match va with
      | None => (c1, None)                      (* the exception leaves before b is evaluated *)
      | Some x =>
          let '(c2, vb) := peval_m wf g cwd evict c1 root_arg con i b in
          (c2, match vb with Some y => Some (pjoin x y) | None => None end)
      end
  | PResolve a =>
      let '(c1, va) := peval_m wf g cwd evict c root_arg con i a in
      match va with
      | None => (c1, None)
      | Some s =>
          let '(c2, r) := memo_step wf g cwd evict c1 {| rc_root := root_arg; rc_con := con; rc_path := s |} in
          (c2, match r with Ok p => Some p | Escape => None end)
      end
  end.

(** one step of a history *)
Record opcall := { oc_root : str; oc_con : bool; oc_site : site; oc_in : inp }.

(** what each step hands to the OS ([None]: it raised RootEscapeError before reaching the OS) *)
Fixpoint hist_run (wf : bool) (g : gx) (cwd : str) (evict : cache -> cache) (c : cache) (ops : list opcall)
  : list (option str) :=
  match ops with
  | [] => []
  | op :: rest =>
      let '(c', v) := peval_m wf g cwd evict c (oc_root op) (oc_con op) (oc_in op) (st_arg (oc_site op)) in
      v :: hist_run wf g cwd evict c' rest
  end.

(** the same step without any table *)
Definition op_plain (g : gx) (cwd : str) (op : opcall) : option str :=
  peval g (oc_con op) cwd (oc_root op) (oc_in op) (st_arg (oc_site op)).

(** the key covers a step: it contains the flag, or the object is constrained *)
Definition op_covered (wf : bool) (op : opcall) : bool := wf || oc_con op.

(** A step made through a FileSystemChain: the chain computes the member's argument from its prefix and its own
    argument ([cc_arg], generated from filesys.py), the member runs one of its sites on it.  It is an ordinary step
    whose argument string is that value ([None]: computing the argument raised). *)
Definition chain_step (g : gx) (cwd root_arg : str) (con : bool) (c : ccall) (s : site) (i : inp) : option opcall :=
  match peval g con cwd root_arg i (cc_arg c) with
  | Some a => Some {| oc_root := root_arg; oc_con := con; oc_site := s;
                      oc_in := {| i_arg := a; i_data := i_data i; i_hpath := i_hpath i; i_prefix := i_prefix i;
                                  i_walked := i_walked i |} |}
  | None => None
  end.
