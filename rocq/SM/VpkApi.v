(** The parts of the VPK API around the state machine of [SM/Vpk.v] that are not one of its six operations:

    - leaving a [with VPK(...) as v:] block ([VPK.__exit__]), which writes the directory when no exception is in flight and the archive is
      writable, and does nothing otherwise;
    - calling [load_dirfile()] a second time on the same object, which is a reopen in the mode the object already has
      ("This erases all changes made to the object");
    - [OpenModes.writable].

    What [__exit__] does is a table read from the source (Gen/VpkApi_gen.v [g_exit_table]: for each combination of "no exception" and
    "mode writable", how often write_dirfile() is called and whether the method returns a true value, which would swallow the exception).
    [xstep] runs an extended operation over such a table; VpkApiProofs.v shows that for every table accepted by [exit_table_ok] the extended
    histories refine the specification map, as the plain ones do.  Executable definitions only. *)
From Coq Require Import List NArith Bool.
From SV Require Import Fmt.VpkDir SM.Vpk.
Import ListNotations.
Open Scope N_scope.

(** (no exception in flight, mode writable, calls of write_dirfile(), returns a true value) *)
Definition exit_row := (bool * bool * N * bool)%type.

Fixpoint exit_lookup (et : list exit_row) (e w : bool) : option (N * bool) :=
  match et with
  | [] => None
  | (e', w', c, r) :: t => if Bool.eqb e e' && Bool.eqb w w' then Some (c, r) else exit_lookup t e w
  end.

Definition exit_row_ok (et : list exit_row) (e w : bool) : bool :=
  match exit_lookup et e w with
  | Some (c, r) => (c =? (if e && w then 1 else 0)) && negb r
  | None => false
  end.
(** complete enumeration of the four situations *)
Definition exit_table_ok (et : list exit_row) : bool :=
  exit_row_ok et false false && exit_row_ok et false true && exit_row_ok et true false && exit_row_ok et true true.

(** [OpenModes.writable] evaluated for the three members, against [writable] of SM/Vpk.v *)
Definition mode_table_ok (r w a : bool) : bool :=
  Bool.eqb r (writable MR) && Bool.eqb w (writable MW) && Bool.eqb a (writable MA).

(** extended operations *)
Inductive xop :=
| XOp (o : op)
| XExit (noexc : bool)      (* leaving a with-block, normally or with an exception *)
| XReload.                  (* load_dirfile() on the same object *)

Section xmachine.
  Variable et : list exit_row.
  Variable crc : bytes -> N.
  Variable cf : vcfg.

  (** [None]: outside the model (write_dirfile raising struct.error as in [step]; an [__exit__] that calls write_dirfile twice or
      swallows the exception; load_dirfile() failing half-way, which leaves the object emptied). *)
  Definition xstep (st : vstate) (x : xop) : option (vstate * N) :=
    match x with
    | XOp o => step crc cf st o
    | XExit e =>
        match exit_lookup et e (writable (md st)) with
        | Some (0, false) => Some (st, rOk)
        | Some (1, false) => step crc cf st OSave
        | _ => None
        end
    | XReload =>
        match step crc cf st (OReopen (md st)) with
        | Some (st', c) => if c =? rOk then Some (st', c) else None
        | None => None
        end
    end.

  Fixpoint xrun (st : vstate) (xs : list xop) : option (vstate * list N) :=
    match xs with
    | [] => Some (st, [])
    | x :: r => match xstep st x with
                | None => None
                | Some (st', c) => match xrun st' r with None => None | Some (st'', cs) => Some (st'', c :: cs) end
                end
    end.
End xmachine.

(** the specification map under the extended operations *)
Definition sxstep (cf : vcfg) (s : spec) (x : xop) : spec * N :=
  match x with
  | XOp o => sstep cf s o
  | XExit e => if e && writable (smd s) then sstep cf s OSave else (s, rOk)
  | XReload => sstep cf s (OReopen (smd s))
  end.
Fixpoint sxrun (cf : vcfg) (s : spec) (xs : list xop) : spec * list N :=
  match xs with
  | [] => (s, [])
  | x :: r => let '(s', c) := sxstep cf s x in let '(s'', cs) := sxrun cf s' r in (s'', c :: cs)
  end.

(** the plain operations of an extended history (they carry the data values) *)
Definition xplain (xs : list xop) : list op := flat_map (fun x => match x with XOp o => [o] | _ => [] end) xs.

(** vpk.py as pinned: [if exc_type is None and self.mode.writable: self.write_dirfile()] *)
Definition exit_table_pinned : list exit_row := [(false, false, 0, false); (false, true, 0, false); (true, false, 0, false); (true, true, 1, false)].
(** saving also when an exception is in flight / only in append mode is not accepted *)
Definition exit_table_always : list exit_row := [(false, false, 0, false); (false, true, 1, false); (true, false, 0, false); (true, true, 1, false)].
Definition exit_table_never : list exit_row := [(false, false, 0, false); (false, true, 0, false); (true, false, 0, false); (true, true, 0, false)].
