(** CopySet.__iter__ (SM/IndexShapes.v [irun]): iteration over a snapshot plus the late additions is total, never
    raises whatever the loop body does to the set, yields every element of the snapshot and every late addition
    exactly once, and keeps every invariant the loop body keeps.  Iterating the live set instead raises. *)
From stdpp Require Import gmap sets list.
From Coq Require Import NArith.
From SV Require Import SM.IndexModel SM.IndexProofs SM.IndexShapes.

Section copyset.
  Context {S : Type}.
  Variable get : S → gset nat.
  Variable body : nat → S → S.
  Variable order : gset nat → list nat.

  (** A generator that never iterates the live set cannot raise RuntimeError — for every loop body. *)
  Theorem irun_never_live_no_raise p : iprog_never_live p = true →
    ∀ cur ys s, io_raised (irun get body order p cur ys s) = false.
  Proof.
    induction p as [|st p IH]; intros Hok cur ys s; simpl in *; [done|].
    apply andb_true_iff in Hok as [H1 H2]. destruct st as [|e]; [by apply IH|].
    destruct e; simpl in H1; try discriminate; by apply IH.
  Qed.

  (** every property the loop body keeps is kept by the whole iteration (whatever the generator) *)
  Lemma yield_frozen_keeps (I : S → Prop) l s : (∀ x s, I s → I (body x s)) → I s → I (yield_frozen body l s).
  Proof. intros Hb. revert s. induction l as [|x l IH]; intros s Hs; simpl; [done|]. apply IH, Hb, Hs. Qed.
  Lemma yield_live_keeps (I : S → Prop) n0 l ys s :
    (∀ x s, I s → I (body x s)) → I s → I (io_state (yield_live get body n0 l ys s)).
  Proof.
    intros Hb. revert ys s. induction l as [|x l IH]; intros ys s Hs; simpl; [done|].
    destruct (negb _); [done|]. apply IH, Hb, Hs.
  Qed.
  Theorem irun_keeps (I : S → Prop) p : (∀ x s, I s → I (body x s)) →
    ∀ cur ys s, I s → I (io_state (irun get body order p cur ys s)).
  Proof.
    intros Hb. induction p as [|st p IH]; intros cur ys s Hs; simpl; [done|].
    destruct st as [|e]; [by apply IH|].
    destruct e; try (apply IH; by apply yield_frozen_keeps).
    pose proof (yield_live_keeps I (size (get s)) (order (get s)) ys s Hb Hs) as Hl.
    destruct (io_raised _); [done|]. by apply IH.
  Qed.

  (** today's generator: the snapshot in some order, then what was added meanwhile and is not in the snapshot *)
  Theorem copyset_iter_today_run cur ys s :
    let l1 := order (get s) in
    let s1 := yield_frozen body l1 s in
    let l2 := order (get s1 ∖ get s) in
    irun get body order copyset_iter_today cur ys s = IOut (ys ++ l1 ++ l2) (yield_frozen body l2 s1) false.
  Proof. simpl. by rewrite <- app_assoc. Qed.

  Hypothesis order_perm : ∀ X, order X ≡ₚ elements X.

  (** termination with an explicit bound, no element twice, snapshot and late additions all visited *)
  Theorem copyset_iteration_total s :
    let out := irun get body order copyset_iter_today ∅ [] s in
    let s1 := yield_frozen body (order (get s)) s in
    io_raised out = false ∧
    length (io_yield out) = size (get s) + size (get s1 ∖ get s) ∧
    NoDup (io_yield out) ∧
    ∀ x, x ∈ io_yield out ↔ x ∈ get s ∨ (x ∈ get s1 ∧ x ∉ get s).
  Proof.
    rewrite copyset_iter_today_run. simpl.
    set (s1 := yield_frozen body (order (get s)) s).
    split; [done|]. split; [|split].
    - rewrite app_length, !order_perm. unfold size, set_size. simpl. done.
    - apply NoDup_app. split; [rewrite order_perm; apply NoDup_elements|]. split.
      + intros x. rewrite !order_perm, !elem_of_elements. set_solver.
      + rewrite order_perm. apply NoDup_elements.
    - intros x. rewrite elem_of_app, !order_perm, !elem_of_elements. set_solver.
  Qed.
End copyset.

Lemma iprog_is_today_eq p : iprog_is_today p = true → p = copyset_iter_today.
Proof.
  unfold iprog_is_today. repeat (match goal with |- context [match ?x with _ => _ end] => destruct x end; try discriminate).
  done.
Qed.

(** Iterating [vmf.by_class[k]] with a loop body that applies any operation to the yielded entity keeps the index
    invariant of every map and never raises — the body may re-class, rename, remove or add entities. *)
Section over_worlds.
  Variable fold : str → str.
  Hypothesis fold_nil : fold [] = [].
  Hypothesis fold_cn : fold cn = cn.
  Hypothesis fold_tn : fold tn = tn.
  Hypothesis fold_ws : fold ws = ws.

  Theorem copyset_iteration_keeps_inv (get : list mstate → gset nat) (f : nat → list wop)
      (order : gset nat → list nat) p w :
    iprog_never_live p = true → Forall (Inv fold) w →
    let out := irun get (λ x w, wrun fold (f x) w) order p ∅ [] w in
    io_raised out = false ∧ Forall (Inv fold) (io_state out).
  Proof.
    intros Hp Hw. split; [by apply irun_never_live_no_raise|].
    apply (irun_keeps get _ order (Forall (Inv fold))); [|done].
    intros x w' Hw'. by apply wrun_inv.
  Qed.
End over_worlds.

(** the plain set iteration that CopySet replaces: a body that removes the yielded element makes it raise *)
Lemma plain_set_iteration_refuted :
  iprog_never_live plain_set_iter = false ∧
  io_raised (irun (S := gset nat) id (λ x s, s ∖ {[x]}) elements plain_set_iter ∅ [] {[1; 2]}) = true.
Proof. split; [reflexivity|]. vm_compute. reflexivity. Qed.
