(** C19, round 3 — the remaining public lookup forms and the bytes a backend hands out.

    (1) [FileSystemChain._file_exists] (what [name in chain] calls).  Inherited from [FileSystem] it is "try
        [_get_file]"; an override is a loop over the members that asks each member's own [_file_exists] for a joined
        name.  The join's second argument is either the method's parameter (every member is asked for
        prefix/name) or a variable the loop itself re-assigns (the name asked of a member then carries the prefixes
        of the members visited before it).  The translator emits which one the source has.
    (2) What [open_bin]/[open_str] of the VPK backend read: an expression over a [FileInfo] - the container's reader
        [FileInfo.read()] (preload ++ the part kept after the directory tree or in a numbered archive), the preload
        bytes alone, or a choice between such expressions on where the file lives.
    Executable definitions only; proofs are in FsChainFormsProofs.v. *)
From Coq Require Import List NArith Bool.
From SV Require Import SM.FsChain.
Import ListNotations.
Open Scope N_scope.

Definition is_some {A} (o : option A) : bool := match o with Some _ => true | None => false end.

(** ** (1) [name in chain] *)

(** A member with its own existence test (a backend's [_file_exists] has its own normalisation of the name). *)
Record xmember := { x_base : member; x_exists : str -> bool }.
Definition xmember_of (b : backend) (fs : list file) (p : str) : xmember :=
  {| x_base := member_of b fs p; x_exists := exists_ b fs |}.

Inductive exists_mode :=
| ExViaGet                                            (* inherited: try self._get_file(name) *)
| ExLoop (carry : bool) (cond : bool) (ops : list sop).
    (* for sys, prefix in self.systems:  [if prefix:] n = os.path.join(prefix, X)<ops>;  if sys._file_exists(n): return True
       X is the parameter ([carry = false]) or the variable assigned in the loop ([carry = true]);
       [cond]: the join happens only for a non-empty prefix *)

Definition join_name (cond : bool) (ops : list sop) (p q : str) : str :=
  match cond, p with
  | true, [] => q
  | _, _ => apply_ops ops (pjoin p q)
  end.

Fixpoint chain_exists_loop (carry cond : bool) (ops : list sop) (ms : list xmember) (cur orig : str) : bool :=
  match ms with
  | [] => false
  | m :: r =>
    let n := join_name cond ops (m_prefix (x_base m)) (if carry then cur else orig) in
    if x_exists m n then true else chain_exists_loop carry cond ops r n orig
  end.

Definition chain_exists (em : exists_mode) (ms : list xmember) (q : str) : bool :=
  match em with
  | ExViaGet => is_some (chain_get (map x_base ms) q)
  | ExLoop carry cond ops => chain_exists_loop carry cond ops ms q q
  end.

(** The join is the one [_get_file] uses (slashes converted, nothing else) and every member is asked for its own
    prefix joined with the caller's name. *)
Definition slash_only (ops : list sop) : bool :=
  forallb (fun o => match o with OSlash => true | _ => false end) ops.
Definition exists_mode_ok (em : exists_mode) : bool :=
  match em with
  | ExViaGet => true
  | ExLoop carry _ ops => negb carry && slash_only ops
  end.

(** [open_bin(name)] / [open_str(name)] of the chain, and [chain[name]], [iter(chain)]: the translator only accepts
    delegation to [_get_file] / [walk_folder('')] and fails closed otherwise, so they have no mode of their own. *)
Definition chain_open (ms : list member) (q : str) : option file := chain_get ms q.

(** ** (2) the bytes of a file kept in a VPK *)

(** A [FileInfo]: the preload bytes stored inside the directory tree, the remaining [arch_len] bytes (found at
    [offset] in the block after the tree when [arch_index is None], else in a numbered archive), and which of the two. *)
Record vfile := { vf_pre : bytes; vf_tail : bytes; vf_in_dir : bool }.

(** [FileInfo.write]: the first [limit] bytes are the preload ([dir_data_limit], at most 65535; single-file VPKs and
    [dir_data_limit=None] use 65535), the rest goes where [arch_index] says; without a rest [arch_index] is None. *)
Definition vf_place (limit : nat) (in_dir : bool) (data : bytes) : vfile :=
  {| vf_pre := firstn limit data; vf_tail := skipn limit data;
     vf_in_dir := match skipn limit data with [] => true | _ :: _ => in_dir end |}.

(** [FileInfo.read()] (the container's reader; its agreement with the bytes on disk is property C13). *)
Definition vf_read (f : vfile) : bytes := vf_pre f ++ vf_tail f.

Inductive cexpr :=
| CRead                         (* file.read() *)
| CPreload                      (* file.start_data *)
| CIfDir (a b : cexpr)          (* a if file.arch_index is None else b *)
| CIfNoTail (a b : cexpr).      (* a if file.arch_len == 0 else b *)

Fixpoint ceval (c : cexpr) (f : vfile) : bytes :=
  match c with
  | CRead => vf_read f
  | CPreload => vf_pre f
  | CIfDir a b => if vf_in_dir f then ceval a f else ceval b f
  | CIfNoTail a b => match vf_tail f with [] => ceval a f | _ :: _ => ceval b f end
  end.

(** The expression yields the whole file wherever it is kept ([notail]: we are under a test that there is no rest). *)
Fixpoint cexpr_whole (notail : bool) (c : cexpr) : bool :=
  match c with
  | CRead => true
  | CPreload => notail
  | CIfDir a b => cexpr_whole notail a && cexpr_whole notail b
  | CIfNoTail a b => cexpr_whole true a && cexpr_whole notail b
  end.

(** What [open_bin(q)] of a VPK backend returns for a file set whose files are placed with [limit] / [in_dir]. *)
Definition open_bytes (c : cexpr) (limit : nat) (in_dir : bool) (b : backend) (fs : list file) (q : str) : option bytes :=
  match open_ b fs q with
  | Some e => Some (ceval c (vf_place limit in_dir (snd e)))
  | None => None
  end.
