(** C17 — the sentence of the property that ties the parts together:
    "The instance template itself is not modified, so collapsing the same file any number of times, in any order and at
    any placement, gives results that differ only by that placement."

    An abstract collapse takes the template [T], the process-global state [G], a placement [P] and the other arguments
    [A] (fixup table, style, names) and returns what it adds to the map [M], the template and the global state afterwards.
    The four hypotheses of the section are the abstract forms of what is established part by part elsewhere:
      - [reads_obs]          the result depends on the template only through its observations (fields reachable from it);
      - [template_intact]    c17_template_intact_any_number_of_collapses (SM/C17Frame.v on C09's heap model);
      - [state_independent]  c17_call_independent_of_process_state (SM/C17Global.v);
      - [equivariant]        c17_placement_equivariance / c17_placement_composes (Rot/C17GeomProofs.v).
    They are visible in the theorem; the link between the models is by reading, not formal. *)
From Coq Require Import List.
Import ListNotations.

Section Compose.
  Variables T G P A M Obs : Type.
  Variable obs : T -> Obs.
  Variable collapse : T -> G -> P -> A -> M * T * G.
  Variable ident : P.
  Variable transform : P -> M -> M.

  Definition c_out (r : M * T * G) : M := fst (fst r).
  Definition c_tmpl (r : M * T * G) : T := snd (fst r).
  Definition c_glob (r : M * T * G) : G := snd r.

  (** the results of a history of collapses of one file in one process *)
  Fixpoint c_history (cs : list (P * A)) (t : T) (g : G) : list M :=
    match cs with
    | [] => []
    | (p, a) :: r => let x := collapse t g p a in c_out x :: c_history r (c_tmpl x) (c_glob x)
    end.

  (** what the same call gives on the untouched template, in a new process, at the identity placement - moved to [p] *)
  Definition as_if_first (t0 : T) (g0 : G) (c : P * A) : M := transform (fst c) (c_out (collapse t0 g0 ident (snd c))).
End Compose.
