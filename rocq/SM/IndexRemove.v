(** Source-shaped model for property C07, round 3: the helper [_remove_copyset(mapping, key, ent)] of vmf.py, the one
    place where an entity leaves an index set and where a set that became empty is dropped from the defaultdict.
    Its shape is read off vmf.py by translate/c07_index_shapes.py on every run ([gen_remove_copyset] in
    Gen/IndexShapes_gen.v).

    Executable definitions only; proofs are in IndexRemoveProofs.v. *)
From stdpp Require Import gmap sets list.
From SV Require Import SM.IndexModel.

(** how the set is fetched *)
Inductive rlook :=
| LGet            (* mapping.get(key) / mapping.get(key, None): None when absent, inserts nothing *)
| LIndex          (* mapping[key] on the defaultdict: an absent key is inserted with an empty set *)
| LIndexIfIn.     (* mapping[key] only after `key in mapping` / inside try ... except KeyError: nothing found when absent *)
(** how the entity is taken out of the set *)
Inductive rrem := RDiscard | RRemove.                    (* set.discard / set.remove (KeyError when not a member) *)
(** when the key is deleted from the mapping afterwards *)
Inductive rdrop := DIfEmpty | DIfNonEmpty | DAlways | DNever.
Record rc_shape := RC {
  rc_look : rlook;
  rc_absent_skips : bool;    (* nothing else is executed when no set was found (`if copyset is not None:` / early return) *)
  rc_rem : rrem;
  rc_drop : rdrop;
}.

Section remove.
  Context {K : Type} `{Countable K}.

  (** error codes: 0 none, 1 KeyError, 9 AttributeError (a method called on None) *)
  Definition rc_run (sh : rc_shape) (k : K) (e : nat) (m : gmap K (gset nat)) : gmap K (gset nat) * nat :=
    let found : option (gset nat) * gmap K (gset nat) :=
      match rc_look sh with
      | LGet | LIndexIfIn => (m !! k, m)
      | LIndex => match m !! k with Some s => (Some s, m) | None => (Some ∅, <[k := ∅]> m) end
      end in
    match found with
    | (None, m1) => (m1, if rc_absent_skips sh then 0 else 9)
    | (Some s, m1) =>
        if (match rc_rem sh with RDiscard => false | RRemove => bool_decide (e ∉ s) end) then (m1, 1) else
        let s' := s ∖ {[e]} in
        let m2 := <[k := s']> m1 in
        (match rc_drop sh with
         | DIfEmpty => if decide (s' = ∅) then delete k m2 else m2
         | DIfNonEmpty => if decide (s' = ∅) then m2 else delete k m2
         | DAlways => delete k m2
         | DNever => m2
         end, 0)
    end.

  (** the named obligations *)
  (** the set is found without raising, and a missing set means there is nothing to do *)
  Definition rc_lookup_ok (sh : rc_shape) : bool :=
    match rc_look sh with LIndex => true | LGet | LIndexIfIn => rc_absent_skips sh end.
  (** taking the entity out never raises *)
  Definition rc_discards (sh : rc_shape) : bool := match rc_rem sh with RDiscard => true | RRemove => false end.
  (** the other members of the set stay listed *)
  Definition rc_keeps_others (sh : rc_shape) : bool :=
    match rc_drop sh with DIfEmpty | DNever => true | DIfNonEmpty | DAlways => false end.
  (** a set that became empty is dropped from the mapping *)
  Definition rc_drops_empty (sh : rc_shape) : bool :=
    match rc_drop sh with DIfEmpty | DAlways => true | DIfNonEmpty | DNever => false end.
  Definition rc_ok (sh : rc_shape) : bool := rc_lookup_ok sh && rc_discards sh && rc_keeps_others sh && rc_drops_empty sh.
  (** what a reader needs (the empty set may stay behind) *)
  Definition rc_reader_ok (sh : rc_shape) : bool := rc_lookup_ok sh && rc_discards sh && rc_keeps_others sh.
End remove.

(** today's helper; with a guard clause; the variants refuted in IndexRemoveProofs.v *)
Definition rc_today : rc_shape := RC LGet true RDiscard DIfEmpty.
Definition rc_strict_remove : rc_shape := RC LGet true RRemove DIfEmpty.
Definition rc_drop_inverted : rc_shape := RC LGet true RDiscard DIfNonEmpty.
Definition rc_never_drops : rc_shape := RC LGet true RDiscard DNever.
Definition rc_no_none_guard : rc_shape := RC LGet false RDiscard DIfEmpty.
