(** C09 round 3 — the copy census with ARGUMENT FLOWS: how the original's fields flow into each field of the
    copy THROUGH the constructor.  [copy_sources_match] (round 2) names the source field; it says nothing about what
    happens to the value on the way: [Output(..., only_once=self.only_once)] builds [times] from [times] — through the
    property [only_once] ([self.times == 1]) and the constructor's [1 if only_once else times]: every refire limit
    other than 1 becomes -1.  The translator specialises the constructor to the call (defaults of the parameters that
    are not given, partial evaluation of its tests, properties of the source class inlined) and records for every field
    the list [flows_X] of (source field, mode):
      [FIdent]     the value itself (possibly copied / re-wrapped in a fresh container);
      [FPresence]  only its presence ([x is not None], truthiness) steers a conditional whose branch carries it;
      [FOrDefault] the value itself when truthy, the constructor's default otherwise ([p or default]; admitted for
                   object / container fields only);
      [FGuard]     it only steers which value is taken;
      [FDerived]   it goes through a comparison / arithmetic / formatting / slicing / projection / unknown call.
    [copy_args_lossless] (instance obligation per class) accepts a row only when the field is carried over from its own
    field by identity.  Proofs in StoreCopyFlowProofs.v. *)
From Coq Require Import List PArith ZArith Bool String.
From SV Require Import SM.Store SM.StoreCopy SM.StoreCopySrc.
Import ListNotations.

Inductive flow := FIdent | FPresence | FOrDefault | FGuard | FDerived.

Definition flowmap := list (string * list (string * flow)).

Fixpoint flows_of (fl : flowmap) (f : string) : list (string * flow) :=
  match fl with
  | [] => []
  | (g, l) :: fl' => if String.eqb g f then l else flows_of fl' f
  end.

(** The value arrives ... *)
Definition flow_carries (m : flow) : bool := match m with FIdent | FOrDefault => true | _ => false end.
(** ... and nothing on the way can replace it by something else. *)
Definition flow_harmless (m : flow) : bool := match m with FIdent | FOrDefault | FPresence => true | _ => false end.

(** For an immutable scalar field (str, int, float, bool) the falsy value ('', 0) is a value like any other, so
    [p or default] loses it; for object and container fields falsiness is absence / emptiness, which the default
    (None, an empty container) represents equally. *)
Definition flow_harmless_for (k : kind) (m : flow) : bool :=
  match m, k with
  | FOrDefault, KImm => false
  | _, _ => flow_harmless m
  end.

Definition own_harmless (f : string) (k : kind) (x : string * flow) : bool :=
  String.eqb (fst x) f && flow_harmless_for k (snd x).

Definition field_flow_ok (fl : flowmap) (row : string * kind * how) : bool :=
  let l := flows_of fl (cname row) in
  match snd row with
  | HShare | HDeep | HShallow | HCtx =>
      forallb (own_harmless (cname row) (snd (fst row))) l && existsb (fun x => flow_carries (snd x)) l
  | HMissing => match l with [] => true | _ => false end   (* computed from the original, yet not carried over: lossy *)
  | HNewId => true
  end.

(** The instance obligation [copy_args_lossless:<Class>]. *)
Definition copy_args_lossless (c : census) (fl : flowmap) : bool := forallb (field_flow_ok fl) c.

Definition lossy_fields (c : census) (fl : flowmap) : list string :=
  map cname (filter (fun row => negb (field_flow_ok fl row)) c).

(** The source names a flow table induces (what [sources_X] lists). *)
Fixpoint dedup (l : list string) : list string :=
  match l with
  | [] => []
  | x :: r => if existsb (String.eqb x) r then dedup r else x :: dedup r
  end.

Definition flow_sources (fl : flowmap) : srcmap := map (fun p => (fst p, dedup (map fst (snd p)))) fl.

(** Heap meaning, for an atom field: what the copy's field is when the original's is [z].
    [d] = the constructor's default, [g] = whatever the lossy path computes. *)
Definition flow_fun (m : flow) (d : Z) (g : Z -> Z) (z : Z) : Z :=
  match m with
  | FIdent | FPresence => z
  | FOrDefault => if Z.eqb z 0 then d else z
  | FGuard | FDerived => g z
  end.

(** One-field original at location 1 holding [z]; the copy at location 2 holding [z']. *)
Definition fheap (z : Z) : heap := fun l => match l with 1%positive => Some (Node true [VAtom z]) | _ => None end.
Definition fheap' (z z' : Z) : heap :=
  fun l => match l with 1%positive => Some (Node true [VAtom z]) | 2%positive => Some (Node true [VAtom z']) | _ => None end.

Definition field_complete (f : Z -> Z) (z : Z) : Prop :=
  obs_eq (fheap z) (fheap' z (f z)) (VRef 1%positive) (VRef 2%positive).

(** The shape of seeded fault c09_4: [Output.only_once] = [times == 1]; [Output.__init__]: [1 if only_once else times]
    with [times] left at its default -1. *)
Definition once_fn (t : Z) : Z := if Z.eqb t 1 then 1%Z else (-1)%Z.
Definition oo_census : census := [("times"%string, KImm, HMissing)].
Definition oo_census_claims_share : census := [("times"%string, KImm, HShare)].
Definition oo_flows : flowmap := [("times"%string, [("times"%string, FDerived)])].
Definition oo_flows_good : flowmap := [("times"%string, [("times"%string, FIdent)])].
