(** C19, round 4 — the walk of chains whose members are folding backends *or directories*.

    The composition theorem of round 2 ([FsChainCompose.chain_walk_lookup_closed]) is re-proved from an *interface*: what
    the chain needs from a member, for one folder, is
    - [lists_sound]: every file it lists below "prefix joined with folder" has a clean listed name (prefix dropped)
      inside the folder, and asking the member for that listed name yields that very file;
    - [lists_complete]: every clean name inside the folder that the member serves is listed, under a name with the same
      folded key.
    Folding backends with a sound walk form satisfy it (for empty or clean prefixes and folders); so does the directory
    backend as translated (listed names = stored names, slashes converted) when the folder is *exact* for it - every
    stored file that lies below prefix/folder up to letter case lies below it exactly ("for exact-case names" in the
    property text; the premise is shown necessary by a kernel-computed witness). *)
From Coq Require Import List NArith Bool Lia.
From SV Require Import SM.FsChain SM.FsChainProofs SM.FsChainRel SM.FsChainCompose SM.FsChainRaw SM.FsChainWitness SM.FsChainAdd SM.FsChainAddProofs.
Import ListNotations.
Open Scope N_scope.

(** [fk] is the folded key of the folder that is meant (for a folder argument spelt with redundant separators or "."
    segments: the key of its clean spelling) *)
Definition lists_sound_at (fk : str) (folder : str) (m : member) : Prop :=
  forall e, In e (m_walk m (full_name (m_prefix m) folder)) ->
    clean_name (drop_segs (fst e) (m_prefix m)) = true
    /\ path_prefix fk (nkey (drop_segs (fst e) (m_prefix m)))
    /\ asks (drop_segs (fst e) (m_prefix m)) m = Some e.
Definition lists_complete_at (fk : str) (folder : str) (m : member) : Prop :=
  forall r g, clean_name r = true -> path_prefix fk (nkey r) -> asks r m = Some g ->
    In g (m_walk m (full_name (m_prefix m) folder))
    /\ clean_name (drop_segs (fst g) (m_prefix m)) = true
    /\ nkey (drop_segs (fst g) (m_prefix m)) = nkey r.
Definition walk_member_ok_at (fk folder : str) (m : member) : Prop := lists_sound_at fk folder m /\ lists_complete_at fk folder m.
Definition lists_sound (folder : str) (m : member) : Prop := lists_sound_at (nkey folder) folder m.
Definition lists_complete (folder : str) (m : member) : Prop := lists_complete_at (nkey folder) folder m.
Definition walk_member_ok (folder : str) (m : member) : Prop := walk_member_ok_at (nkey folder) folder m.

(** * the composition, from the interface alone *)
Theorem chain_walk_lookup_closed_at fk dops ms folder x :
  dedup_ops_ok dops = true -> Forall (walk_member_ok_at fk folder) ms ->
  In x (chain_walk RelDropSegs dops ms folder) ->
  chain_get ms (fst x) = Some (snd x).
Proof.
  intros Hd Hms Hin. unfold chain_walk in Hin.
  apply dedup_inv in Hin as [l1 [l2 [Hrep [Hfirst _]]]].
  unfold chain_walk_repeat in Hrep. apply flat_map_split in Hrep as [pre [m [post [a [b0 [-> [Hm Hl1]]]]]]].
  apply Forall_app in Hms as [Hpre Hmpost]. inversion Hmpost as [|? ? [HA HB] _]; subst.
  assert (Hx : In x (map (fun f => (rel_name RelDropSegs (fst f) (m_prefix m), f)) (m_walk m (full_name (m_prefix m) folder)))).
  { rewrite Hm. apply in_or_app. right. left. reflexivity. }
  apply in_map_iff in Hx as [e [<- He]]. cbn [fst snd rel_name].
  destruct (HA e He) as [Hclr [HR Hask]].
  set (r := drop_segs (fst e) (m_prefix m)) in *.
  apply chain_first_match. exists pre, m, post. split; [reflexivity|]. split; [exact Hask|].
  apply Forall_forall. intros m' Hm'. rewrite Forall_forall in Hpre. destruct (Hpre m' Hm') as [_ HB'].
  destruct (asks r m') as [g|] eqn:Eg; [exfalso|reflexivity].
  destruct (HB' r g Hclr HR Eg) as [Hgw [Hclr' Hkr']].
  apply (Hfirst (drop_segs (fst g) (m_prefix m'), g)).
  - apply in_or_app. left. apply in_flat_map. exists m'. split; [exact Hm'|].
    cbn [rel_name]. apply in_map_iff. exists g. split; [reflexivity|exact Hgw].
  - change (apply_ops dops (drop_segs (fst g) (m_prefix m')) = apply_ops dops r).
    rewrite (dedup_key dops _ Hd Hclr'), (dedup_key dops r Hd Hclr). exact Hkr'.
Qed.

Theorem chain_walk_lookup_closed_gen dops ms folder x :
  dedup_ops_ok dops = true -> Forall (walk_member_ok folder) ms ->
  In x (chain_walk RelDropSegs dops ms folder) ->
  chain_get ms (fst x) = Some (snd x).
Proof. apply chain_walk_lookup_closed_at. Qed.

(** * folding backends satisfy the interface *)
Lemma sound_member_walk_ok m folder : sound_member m -> okp folder -> walk_member_ok folder m.
Proof.
  intros [b [fs [p [-> [Hw [Hk [Hc Hp]]]]]]] Hfo. split.
  - intros e He. cbn [member_of m_walk m_prefix] in *.
    apply (walk_member b fs p folder e Hw Hc Hp Hfo) in He as [Hent [R [Hun HR]]].
    assert (Hes : spec_lookup fs (fst e) = Some e).
    { apply backend_keys_ok_inv in Hk as [Hs _]. apply (entries_spec b fs e Hs Hc). exact Hent. }
    pose proof (spec_lookup_sound _ _ _ Hes) as [Hefs _].
    pose proof (clean_fs_In _ _ Hc Hefs) as Hcle.
    destruct (listed_name (fst e) p R Hcle Hp Hun) as [Hclr HkR].
    split; [exact Hclr|]. split; [rewrite HkR; exact HR|].
    change (asks (drop_segs (fst e) p) (member_of b fs p) = Some e).
    rewrite (asks_member b fs p _ Hk Hc Hp Hclr). transitivity (spec_lookup fs (fst e)); [|exact Hes].
    apply spec_lookup_variant. apply (full_name_listed p _ Hp Hclr). rewrite HkR. exact Hun.
  - intros r g Hclr HR Eg. cbn [member_of m_walk m_prefix] in *.
    change (asks r (member_of b fs p) = Some g) in Eg. rewrite (asks_member b fs p r Hk Hc Hp Hclr) in Eg.
    pose proof (spec_lookup_sound _ _ _ Eg) as [Hgfs Hgk].
    pose proof (clean_fs_In _ _ Hc Hgfs) as Hclg.
    assert (Hung : under p (nkey (fst g)) (nkey r)).
    { destruct Hp as [->|[Hpc Hsp]].
      - left. split; [reflexivity|]. rewrite Hgk. apply (full_name_listed [] r (or_introl eq_refl) Hclr).
        left. split; reflexivity.
      - right. split; [apply clean_nonempty; exact Hpc|]. rewrite Hgk.
        apply (full_name_listed p r (or_intror (conj Hpc Hsp)) Hclr).
        right. split; [apply clean_nonempty; exact Hpc|reflexivity]. }
    assert (Hgent : In g (entries b fs)).
    { apply backend_keys_ok_inv in Hk as [Hs _]. apply (entries_spec b fs g Hs Hc).
      transitivity (spec_lookup fs (full_name p r)); [|exact Eg]. apply spec_lookup_variant. exact Hgk. }
    split.
    + apply (walk_member b fs p folder g Hw Hc Hp Hfo). split; [exact Hgent|].
      exists (nkey r). split; [exact Hung|exact HR].
    + apply (listed_name (fst g) p (nkey r) Hclg Hp Hung).
Qed.

(** * the directory backend satisfies the interface on folders that are exact for it *)
(** "prefix joined with folder" as the directory backend resolves it (exact letters, slashes converted) *)
Definition xkey (p folder : str) : str :=
  match p, folder with
  | [], _ => slash folder
  | _ :: _, [] => slash p
  | _ :: _, _ :: _ => slash p ++ SL :: slash folder
  end.
(** every stored file that lies below prefix/folder up to letter case lies below it exactly *)
Definition folder_exact (fs : list file) (p folder : str) : Prop :=
  forall e, In e fs -> path_prefix (gkey p folder) (nkey (fst e)) -> path_prefix (xkey p folder) (fst e).
Definition raw_sound_member (folder : str) (m : member) : Prop :=
  exists r ops fs p, m = raw_member_of r ops fs p /\ raw_rel_ok r = true /\ raw_ops_ok ops = true /\ clean_fs fs = true
    /\ NoDup (map (fun e => nkey (fst e)) fs) /\ okp p /\ folder_exact fs p folder.

Lemma clean_not_dot s : clean s = true -> eqb_str s S_DOT = false.
Proof.
  intros H. destruct (eqb_str s S_DOT) eqn:E; [|reflexivity]. apply eqb_str_eq in E. subst s. discriminate.
Qed.

Lemma slash_sep_clean a b : clean_name b = true -> slash (slash a ++ SL :: b) = slash a ++ SL :: b.
Proof. intros Hb. rewrite <- slash_app_sep, slash_idem, (clean_name_slash b Hb). reflexivity. Qed.

Lemma raw_folder_full ops p folder :
  raw_ops_ok ops = true -> okp p -> okp folder -> raw_folder ops (full_name p folder) = xkey p folder.
Proof.
  intros Ho Hp Hf. unfold raw_folder. rewrite (raw_ops_sem ops _ Ho).
  destruct Hp as [->|[Hp Hsp]]; destruct Hf as [->|[Hf Hsf]].
  - reflexivity.
  - rewrite chain_no_prefix, slash_idem, (clean_normpath _ Hsf), (clean_not_dot _ Hsf).
    destruct folder; reflexivity.
  - rewrite (chain_prefix_relative p [] Hp eq_refl). change (SL :: slash []) with [SL].
    assert (E : slash (slash p ++ [SL]) = slash p ++ [SL]) by (unfold slash; rewrite map_app, map_map; cbn [map]; f_equal; apply map_ext; intros c; unfold slashc; destruct (N.eqb_spec c BS) as [->|]; [reflexivity|]; destruct (N.eqb_spec c BS); [congruence|reflexivity]).
    rewrite E, (normpath_trailing _ Hsp), (clean_not_dot _ Hsp).
    pose proof (clean_nonempty p Hp). destruct p; [congruence|reflexivity].
  - rewrite (chain_prefix_relative p folder Hp (clean_no_lead_slash folder Hf)).
    assert (Hc : clean (slash p ++ SL :: slash folder) = true) by (rewrite clean_app, Hsp, Hsf; reflexivity).
    assert (E : slash (slash p ++ SL :: slash folder) = slash p ++ SL :: slash folder).
    { rewrite <- slash_app_sep, !slash_idem. reflexivity. }
    rewrite E, (clean_normpath _ Hc), (clean_not_dot _ Hc).
    pose proof (clean_nonempty p Hp). pose proof (clean_nonempty folder Hf).
    destruct p; [congruence|]. destruct folder; [congruence|reflexivity].
Qed.

Lemma clean_name_sep a b : clean_name (a ++ SL :: b) = true -> clean_name a = true /\ clean_name b = true.
Proof.
  unfold clean_name. rewrite clean_app, forallb_app. cbn [forallb]. intros H.
  apply andb_true_iff in H as [H1 H2]. apply andb_true_iff in H1 as [Ha Hb]. apply andb_true_iff in H2 as [Hna H2].
  apply andb_true_iff in H2 as [_ Hnb]. rewrite Ha, Hb, Hna, Hnb. split; reflexivity.
Qed.

Lemma drop_segs_exact p rest :
  clean (slash p) = true -> clean_name rest = true -> drop_segs (slash p ++ SL :: rest) p = rest.
Proof.
  intros Hp Hr. unfold drop_segs. rewrite (slash_sep_clean p rest Hr), (clean_nonempty_segs _ Hp), split_app_sep, skipn_length_app, join_split.
  reflexivity.
Qed.

(** the stored name [n] lies exactly below prefix/folder: its part [r] below the prefix *)
Lemma exact_rest p folder n :
  okp p -> okp folder -> clean_name n = true -> path_prefix (xkey p folder) n ->
  exists r, ((p = [] /\ n = r) \/ (p <> [] /\ clean (slash p) = true /\ n = slash p ++ SL :: r))
            /\ clean_name r = true /\ path_prefix (nkey folder) (nkey r) /\ drop_segs n p = r.
Proof.
  intros Hp Hf Hn HX. destruct Hp as [->|[Hp Hsp]].
  - exists n. split; [left; split; reflexivity|]. split; [exact Hn|]. split; [|apply drop_segs_nil; exact Hn].
    cbn [xkey] in HX. destruct HX as [E|[r' ->]].
    + left. destruct folder; [reflexivity|discriminate].
    + right. exists (nkey r'). rewrite nkey_sep, nkey_slash. reflexivity.
  - pose proof (clean_nonempty p Hp) as Hne. destruct p as [|c p']; [congruence|].
    destruct Hf as [->|[Hf Hsf]].
    + cbn [xkey] in HX. destruct HX as [E|[r' ->]]; [discriminate|].
      exists r'. destruct (clean_name_sep _ _ Hn) as [_ Hr'].
      split; [right; split; [discriminate|split; [exact Hsp|reflexivity]]|]. split; [exact Hr'|].
      split; [left; reflexivity|apply drop_segs_exact; assumption].
    + pose proof (clean_nonempty folder Hf) as Hnf. destruct folder as [|d f']; [congruence|].
      cbn [xkey] in HX. destruct HX as [E|[r' ->]]; [destruct (slash (c :: p')); discriminate|].
      rewrite <- app_assoc in Hn |- *. cbn [app] in Hn |- *.
      exists (slash (d :: f') ++ SL :: r'). destruct (clean_name_sep _ _ Hn) as [_ Hr].
      split; [right; split; [discriminate|split; [exact Hsp|reflexivity]]|]. split; [exact Hr|].
      split; [|apply drop_segs_exact; assumption].
      right. exists (nkey r'). rewrite nkey_sep, nkey_slash. reflexivity.
Qed.

(** the name a member with prefix [p] is asked for, for a clean listed name [r] *)
Lemma full_name_clean p r :
  okp p -> clean_name r = true ->
  ((p = [] /\ full_name p r = r) \/ (p <> [] /\ clean (slash p) = true /\ full_name p r = slash p ++ SL :: r))
  /\ normpath (slash (full_name p r)) = full_name p r.
Proof.
  intros Hp Hr. pose proof (clean_name_slash r Hr) as Hsr.
  assert (Hcr : clean r = true) by (unfold clean_name in Hr; apply andb_true_iff in Hr as [H _]; exact H).
  destruct (full_name_listed p r Hp Hr) as [[_ Hst] _].
  assert (Hss : slash (full_name p r) = full_name p r) by (unfold full_name; apply slash_idem).
  rewrite Hss in Hst. split; [|rewrite Hss; exact Hst].
  destruct Hp as [->|[Hp Hsp]].
  - left. split; [reflexivity|]. rewrite chain_no_prefix. exact Hsr.
  - right. split; [apply clean_nonempty; exact Hp|]. split; [exact Hsp|].
    rewrite (chain_prefix_relative p r Hp (clean_no_lead_slash r Hcr)), Hsr. reflexivity.
Qed.

Lemma raw_member_walk_ok m folder : raw_sound_member folder m -> okp folder -> walk_member_ok folder m.
Proof.
  intros [rr [ops [fs [p [-> [Hrr [Ho [Hc [Hnd [Hp Hex]]]]]]]]]] Hfo.
  destruct rr; [|discriminate]. split.
  - intros e He. cbn [raw_member_of m_walk m_prefix] in *.
    rewrite raw_walk_rel_file in He. apply raw_walk_exact in He as [Hefs HX].
    rewrite (raw_folder_full ops p folder Ho Hp Hfo) in HX.
    pose proof (clean_fs_In _ _ Hc Hefs) as Hcle.
    destruct (exact_rest p folder (fst e) Hp Hfo Hcle HX) as [r [Hshape [Hclr [HR Hdrop]]]].
    rewrite Hdrop. split; [exact Hclr|]. split; [exact HR|].
    unfold asks. cbn [raw_member_of m_lookup m_prefix].
    destruct (full_name_clean p r Hp Hclr) as [Hfn Hnp].
    apply (raw_lookup_slash_agree ops fs e (full_name p r) Ho Hc Hnd Hefs). rewrite Hnp.
    destruct Hshape as [[Hpe <-]|[Hpn [_ ->]]]; destruct Hfn as [[Hpe' ->]|[Hpn' [_ ->]]]; try congruence; reflexivity.
  - intros r g Hclr HR Eg. unfold asks in Eg. cbn [raw_member_of m_walk m_lookup m_prefix] in *.
    unfold raw_lookup_ops in Eg. apply find_some in Eg as [Hg Heq]. apply in_rev in Hg.
    apply eqb_str_eq in Heq. rewrite (raw_ops_sem ops _ Ho) in Heq.
    destruct (full_name_clean p r Hp Hclr) as [Hfn Hnp]. rewrite Hnp in Heq.
    assert (Hun : under p (nkey (fst g)) (nkey r)).
    { rewrite Heq. destruct Hfn as [[-> ->]|[Hpn [_ ->]]].
      - left. split; reflexivity.
      - right. split; [exact Hpn|]. rewrite nkey_sep, nkey_slash. reflexivity. }
    assert (HX : path_prefix (xkey p folder) (fst g)).
    { apply (Hex g Hg). apply (gkey_iff p folder _ Hp). exists (nkey r). split; [exact Hun|exact HR]. }
    assert (Hdrop : drop_segs (fst g) p = r).
    { rewrite Heq. destruct Hfn as [[-> ->]|[_ [Hsp ->]]]; [apply drop_segs_nil; exact Hclr|apply drop_segs_exact; assumption]. }
    rewrite Hdrop. split; [|split; [exact Hclr|reflexivity]].
    rewrite raw_walk_rel_file. apply raw_walk_exact. split; [exact Hg|].
    rewrite (raw_folder_full ops p folder Ho Hp Hfo). exact HX.
Qed.

(** * chains of folding and directory members *)
Definition gmember_ok (folder : str) (m : member) : Prop := sound_member m \/ raw_sound_member folder m.

(** Every (path, File) the de-duplicated walk of such a chain lists is what the chain's lookup returns for that path:
    the listed name can be looked up and yields that file - the file of the first member that has the name. *)
Theorem chain_walk_lookup_closed_mixed dops ms folder x :
  dedup_ops_ok dops = true -> okp folder -> Forall (gmember_ok folder) ms ->
  In x (chain_walk RelDropSegs dops ms folder) ->
  chain_get ms (fst x) = Some (snd x).
Proof.
  intros Hd Hfo Hms. apply chain_walk_lookup_closed_gen; [exact Hd|].
  eapply Forall_impl; [|exact Hms]. intros m [H|H]; [apply sound_member_walk_ok|apply raw_member_walk_ok]; assumption.
Qed.

(** The exactness premise is needed: a directory holding "sub/x" walked as folder "Sub" lists nothing, the zip behind it
    lists its "sub/x" - but the lookup of that listed name is answered by the directory, with another file.  With the
    folder spelt "sub" the directory's file is listed and is what the lookup returns. *)
Definition subx : str := [115; 117; 98; 47; 120].
Definition dir_then_zip : list member :=
  [raw_member_of RawRelFile [OSlash] [(subx, [1])] []; member_of fixed_zip [(subx, [2])] []].
Theorem walk_dir_folder_case_refuted :
  chain_walk RelDropSegs [OFold] dir_then_zip [83; 117; 98] = [(subx, (subx, [2]))]
  /\ chain_get dir_then_zip subx = Some (subx, [1])
  /\ chain_walk RelDropSegs [OFold] dir_then_zip [115; 117; 98] = [(subx, (subx, [1]))].
Proof. vm_compute. repeat split. Qed.
(** ... and the hypotheses are satisfiable: the same chain with the folder "sub". *)
Example walk_mixed_premises_satisfiable : Forall (gmember_ok [115; 117; 98]) dir_then_zip /\ okp [115; 117; 98].
Proof.
  split; [|right; split; reflexivity].
  constructor; [|constructor; [|constructor]].
  - right. exists RawRelFile, [OSlash], [(subx, [1])], []. repeat split; try reflexivity.
    + constructor; [intros []|constructor].
    + left. reflexivity.
    + intros e [<-|[]] _. right. exists [120]. reflexivity.
  - left. exists fixed_zip, [(subx, [2])], []. repeat split; try reflexivity. left. reflexivity.
Qed.
