(** C09 — executable certificate checker: given a finite heap exported from real Python objects (original
    and copy) and two candidate reach sets computed by the harness, check inside the kernel that the
    premise of the frame theorem holds.  Proofs (soundness) in StoreCertProofs.v. *)
From Coq Require Import List PArith ZArith Bool FMapPositive.
From SV Require Import SM.Store.
Import ListNotations.

Definition fheap := PositiveMap.t node.
Definition hof (m : fheap) : heap := fun l => PositiveMap.find l m.

Definition mk_heap (l : list (loc * node)) : fheap :=
  fold_right (fun p m => PositiveMap.add (fst p) (snd p) m) (PositiveMap.empty node) l.

Definition pset := PositiveMap.t unit.
Definition mk_set (l : list loc) : pset :=
  fold_right (fun x s => PositiveMap.add x tt s) (PositiveMap.empty unit) l.
Definition smem (x : loc) (s : pset) : bool := PositiveMap.mem x s.

Definition val_in (s : pset) (v : val) : bool :=
  match v with VAtom _ => true | VRef l => smem l s end.

(** [S] (as a list, with its set) is closed under the fields of allocated nodes, and all its members are
    allocated. *)
Definition closed_set (m : fheap) (S : list loc) (s : pset) : bool :=
  forallb (fun l => match PositiveMap.find l m with
                    | Some nd => forallb (val_in s) (nfields nd)
                    | None => false
                    end) S.

Definition mutb (m : fheap) (l : loc) : bool :=
  match PositiveMap.find l m with Some nd => nmut nd | None => false end.

(** The whole certificate: [SA] ∋ a and [SB] ∋ b are closed sets of allocated locations, and no location of
    [SA] that is also in [SB] is mutable. *)
Definition cert_ok (m : fheap) (a b : loc) (SA SB : list loc) : bool :=
  let sa := mk_set SA in let sb := mk_set SB in
  smem a sa && smem b sb && closed_set m SA sa && closed_set m SB sb &&
  forallb (fun l => negb (smem l sb && mutb m l)) SA.

(** Whole-heap closedness (no dangling reference anywhere), checked on the list the heap was built from. *)
Definition heap_closed_b (m : fheap) (l : list (loc * node)) : bool :=
  forallb (fun p => forallb (fun v => match v with
                                      | VAtom _ => true
                                      | VRef r => PositiveMap.mem r m
                                      end) (nfields (snd p))) l.

Definition export_ok (l : list (loc * node)) (a b : loc) (SA SB : list loc) : bool :=
  let m := mk_heap l in heap_closed_b m l && cert_ok m a b SA SB.
