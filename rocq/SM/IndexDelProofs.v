(** Proofs about SM/IndexDel.v: [Entity.__delitem__] as written — a pre-loop program that passes its path
    obligations and a loop that passes the shape obligations — is the hand model [del_item] for all arguments and
    states (hence keeps the invariant); the unguarded by_target[None] addition and the pop by the caller's spelling
    are refuted. *)
From stdpp Require Import gmap sets list.
From Coq Require Import NArith Lia.
From SV Require Import SM.IndexModel SM.IndexProofs SM.IndexShapes SM.IndexShapeProofs SM.IndexMaint SM.IndexMaintProofs SM.IndexDel.

Section del.
  Variable fold : str → str.

  Lemma ddel_first_match key l k0 :
    first_match (λ k, bool_decide (fold k = fold key)) l = Some k0 → ddel k0 l = Some (kv_del fold (fold key) l).
  Proof.
    induction l as [|[k1 v1] r IH]; simpl; [done|]. case_bool_decide as Hk.
    - intros [= ->]. by rewrite !decide_True by done.
    - intros Hm. assert (Hf : fold k0 = fold key).
      { clear IH. induction r as [|[k2 v2] r IH]; simpl in Hm; [done|]. case_bool_decide; [by simplify_eq|auto]. }
      rewrite !decide_False by congruence. by rewrite (IH Hm).
  Qed.
  Lemma kv_del_no_match key l :
    first_match (λ k, bool_decide (fold k = fold key)) l = None → kv_del fold (fold key) l = l.
  Proof.
    induction l as [|[k1 v1] r IH]; simpl; [done|]. case_bool_decide as Hk; [done|].
    intros Hm. rewrite decide_False by done. by rewrite (IH Hm).
  Qed.

  Lemma delitem_loop_ok dl key l : del_loop_ok dl = true → delitem_loop fold dl key l = (kv_del fold (fold key) l, 0).
  Proof.
    destruct dl as [a b s]. unfold del_loop_ok, del_loop_case_insensitive, del_loop_pops_stored, delitem_loop. simpl.
    destruct a, b, s; try done. intros _.
    destruct (first_match _ l) as [k0|] eqn:Hm.
    - by rewrite (ddel_first_match key l k0 Hm).
    - by rewrite (kv_del_no_match key l Hm).
  Qed.

  Lemma no_rec_frame : rec_frame no_rec.
  Proof. done. Qed.

  Lemma del_maint_ok_path p f : del_maint_ok p = true → del_path_ok p f = true.
  Proof.
    unfold del_maint_ok, del_targetname_ok, del_classname_refused, del_other_ok.
    rewrite !andb_true_iff, !forallb_forall. intros [[H1 H2] H3].
    assert (Hin : In f (facts_with (f_key f))).
    { destruct f as [k [|] [|] [|]]; simpl; destruct k; simpl; tauto. }
    destruct f as [k i s w]. destruct k; simpl in Hin; auto.
  Qed.

  Theorem del_item_pg_ok p dl e key st : del_maint_ok p = true → del_loop_ok dl = true →
    del_item_pg fold p dl e key st = del_item fold e key st.
  Proof.
    intros Hp Hdl. unfold del_item_pg. rewrite (delitem_loop_ok dl key _ Hdl).
    pose proof (del_maint_ok_path p (facts_of fold e key [] st) Hp) as Hpath. unfold del_path_ok in Hpath.
    destruct (m_flat p _) as [l|] eqn:El; [|done]. apply bool_decide_eq_true in Hpath.
    rewrite (m_run_flat fold _ p no_rec_frame _ _ _ _ _ l El).
    rewrite <- acts_run_trunc, Hpath. clear Hpath El.
    unfold del_item, facts_of, acts_del_today, in_map, tgt_of_keys. simpl.
    destruct (decide (fold key = cn)) as [Hcn|Hcn]; simpl.
    - rewrite decide_False; [done|]. rewrite Hcn. done.
    - destruct (decide (fold key = tn)) as [Htn|Htn]; simpl; [|done].
      repeat case_bool_decide; simpl; done.
  Qed.
End del.

Lemma del_today_ok : del_maint_ok del_maint_today = true ∧ del_loop_ok del_loop_today = true.
Proof. split; reflexivity. Qed.

(** The by_target[None] addition without the membership test (`del ent['targetname']` on an entity that is not in the
    map files it under None): the targetname obligation fails, and on a reachable state — an entity constructed with
    a targetname and never added — the function leaves an entity that is not in the map inside by_target[None].
    A pop by the caller's spelling raises KeyError for a key stored in another letter case. *)
Lemma del_refutations :
  (del_targetname_ok del_maint_unguarded = false ∧ del_classname_refused del_maint_unguarded = true ∧
   del_other_ok del_maint_unguarded = true ∧
   let st0 := run ascii_fold [NewEnt [(cn, [97]%N); (tn, [120]%N)]] init in
   let r := del_item_pg ascii_fold del_maint_unguarded del_loop_today 1 tn st0 in
   Inv ascii_fold st0 ∧ r.2 = 0 ∧ ents r.1 = [] ∧ ¬ Inv ascii_fold r.1) ∧
  (del_loop_pops_stored del_loop_pop_caller = false ∧
   delitem_loop ascii_fold del_loop_pop_caller [84;110]%N [([116;78]%N, [120]%N)] = ([([116;78]%N, [120]%N)], 1) ∧
   delitem_loop ascii_fold del_loop_today [84;110]%N [([116;78]%N, [120]%N)] = ([], 0)).
Proof.
  split; [|split; [reflexivity|split; vm_compute; reflexivity]].
  split; [reflexivity|]. split; [reflexivity|]. split; [reflexivity|]. split; [by apply run_inv, init_inv|].
  split; [reflexivity|]. split; [reflexivity|].
  intros HI. pose proof (proj1 (inv_by_target ascii_fold _ None 1 HI)) as Hp.
  assert (H1 : 1 ∈ ix_get (by_target (del_item_pg ascii_fold del_maint_unguarded del_loop_today 1 tn
                 (run ascii_fold [NewEnt [(cn, [97]%N); (tn, [120]%N)]] init)).1) None).
  { apply elem_of_elements.
    match goal with |- _ ∈ ?l => replace l with [0; 1] by (vm_compute; reflexivity) end. set_solver. }
  destruct (Hp H1) as [Hpres _]. unfold present in Hpres. revert Hpres.
  match goal with |- context [spawn ?s] => replace (spawn s) with 0 by (vm_compute; reflexivity) end.
  match goal with |- context [ents ?s] => replace (ents s) with (@nil nat) by (vm_compute; reflexivity) end.
  set_solver.
Qed.
