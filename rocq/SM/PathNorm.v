(** C18 — POSIX path algebra on character lists and the containment guard of RawFileSystem._resolve_path.

    Characters are [N] code points, strings are [list N].  The definitions mirror CPython 3.12 [posixpath]
    ([join], [normpath], [abspath], [commonpath] for two paths) and
    [srctools.filesys.RawFileSystem.__init__/_resolve_path], [srctools.packlist.unify_path].
    Proofs are in SM/PathNormProofs.v.  The guard instance comes from Gen/Containment_gen.v. *)
From Coq Require Import List NArith Bool.
Import ListNotations.
Open Scope N_scope.

Definition str := list N.
Definition sep : N := 47.      (* '/' *)
Definition dotc : N := 46.     (* '.' *)
Definition bslash : N := 92.   (* '\\' *)

Definition is_sep (c : N) : bool := N.eqb c sep.

Fixpoint str_eqb (a b : str) : bool :=
  match a, b with
  | [], [] => true
  | x :: a', y :: b' => N.eqb x y && str_eqb a' b'
  | _, _ => false
  end.

(** [s.split('/')] *)
Fixpoint split (s : str) : list str :=
  match s with
  | [] => [[]]
  | c :: r =>
      if is_sep c then [] :: split r
      else match split r with
           | [] => [[c]]
           | h :: t => (c :: h) :: t
           end
  end.

(** ['/'.join(l)] *)
Fixpoint join (l : list str) : str :=
  match l with
  | [] => []
  | x :: r => match r with [] => x | _ => x ++ sep :: join r end
  end.

Definition is_dot (c : str) : bool := str_eqb c [dotc].
Definition is_dotdot (c : str) : bool := str_eqb c [dotc; dotc].
(** components that name nothing: empty and '.' *)
Definition skip (c : str) : bool := match c with [] => true | _ => is_dot c end.

(** The directory names a path walks through, in order. *)
Definition segs (p : str) : list str := filter (fun c => negb (skip c)) (split p).

Definition starts_sep (s : str) : bool := match s with c :: _ => is_sep c | [] => false end.
Fixpoint ends_sep (s : str) : bool :=
  match s with
  | [] => false
  | c :: r => match r with [] => is_sep c | _ => ends_sep r end
  end.
Definition is_abs (p : str) : bool := starts_sep p.

(** [posixpath.join(a, b)] *)
Definition pjoin (a b : str) : str :=
  if starts_sep b then b
  else if (match a with [] => true | _ => ends_sep a end) then a ++ b
  else a ++ sep :: b.

(** number of leading slashes kept by normpath: 0, 1, or 2 (exactly two are preserved, POSIX) *)
Definition lead_slashes (p : str) : nat :=
  match p with
  | [] => 0
  | a :: r1 =>
      if is_sep a then
        match r1 with
        | [] => 1
        | b :: r2 =>
            if is_sep b then
              match r2 with
              | [] => 2
              | c :: _ => if is_sep c then 1 else 2
              end
            else 1
        end
      else 0
  end%nat.

(** One iteration of normpath's loop; [acc] is new_comps reversed. *)
Definition norm_step (isabs : bool) (acc : list str) (c : str) : list str :=
  if skip c then acc
  else if is_dotdot c then
    match acc with
    | [] => if isabs then [] else [c]
    | t :: r => if is_dotdot t then c :: acc else r
    end
  else c :: acc.

Definition norm_comps (isabs : bool) (cs : list str) : list str :=
  rev (fold_left (norm_step isabs) cs []).

Definition normpath (p : str) : str :=
  match p with
  | [] => [dotc]
  | _ =>
      let n := lead_slashes p in
      let s := repeat sep n ++ join (norm_comps (Nat.ltb 0 n) (split p)) in
      match s with [] => [dotc] | _ => s end
  end.

(** [posixpath.abspath] with the working directory as a parameter *)
Definition abspath (cwd p : str) : str := normpath (if is_abs p then p else pjoin cwd p).

(** ---------------------------------------------------------------- string helpers of the guard language *)
Fixpoint prefixb (pre s : str) : bool :=
  match pre, s with
  | [], _ => true
  | x :: pre', y :: s' => N.eqb x y && prefixb pre' s'
  | _ :: _, [] => false
  end.
Definition suffixb (suf s : str) : bool := prefixb (rev suf) (rev s).

(** [s.rstrip('/')] *)
Fixpoint rstrip_sep (s : str) : str :=
  match s with
  | [] => []
  | c :: r => match rstrip_sep r with
              | [] => if is_sep c then [] else [c]
              | r' => c :: r'
              end
  end.

Fixpoint lcp (a b : list str) : list str :=
  match a, b with
  | x :: a', y :: b' => if str_eqb x y then x :: lcp a' b' else []
  | _, _ => []
  end.
(** [posixpath.commonpath([a, b])] (both absolute or both relative; the mixed case raises ValueError in Python
    and does not occur in [resolve], where both arguments are absolute). *)
Definition commonpath2 (a b : str) : str :=
  (if is_abs a then [sep] else []) ++ join (lcp (segs a) (segs b)).

(** [os.path.commonprefix([a, b])]: the longest common prefix taken character by character *)
Fixpoint char_lcp (a b : str) : str :=
  match a, b with
  | x :: a', y :: b' => if N.eqb x y then x :: char_lcp a' b' else []
  | _, _ => []
  end.

(** [str.casefold] / [str.lower] on one code point, ASCII part: 'A'..'Z' -> 'a'..'z', everything else unchanged.
    This is exact for ASCII strings and wherever Unicode case folding is the identity (all inputs of the
    correspondences); multi-character foldings (sharp s -> ss) are NOT modelled.  No theorem accepts a guard that
    contains it; it exists so that a guard comparing case-folded strings has a meaning the refutation can compute with. *)
Definition fold_char (c : N) : N := if (N.leb 65 c && N.leb c 90)%bool then c + 32 else c.

(** ---------------------------------------------------------------- the guard language *)
Inductive sx : Type :=
| SAbs                                  (* abs_path *)
| SRoot                                 (* self.path *)
| SLit (s : str)                        (* string constant; os.sep is SLit "/" *)
| SCat (a b : sx)                       (* a + b *)
| SRStrip (a : sx)                      (* a.rstrip(os.sep) *)
| SJoin (a b : sx)                      (* os.path.join(a, b) *)
| SCommon (a b : sx)                    (* os.path.commonpath([a, b]) *)
| SIfEndsSep (c a b : sx)               (* a if c.endswith(os.sep) else b *)
| SCommonPrefix (a b : sx)              (* os.path.commonprefix([a, b]): CHARACTER-wise; never accepted as a guard *)
(* round 5 (seeded c18_8): the string transformations of the name-normalising helpers of filesys.py
   ([_norm_name], [_folder_prefix]); a guard that compares TRANSFORMED strings is translated faithfully and never
   accepted by [raise_sound] (what is compared is no longer the path handed to the OS) *)
| SFold (a : sx)                        (* a.casefold() / a.lower(): ASCII letters folded, see [fold_char] *)
| SUnbs (a : sx)                        (* a.replace('\\', '/') *)
| SNorm (a : sx)                        (* os.path.normpath(a) *)
| SIfEq (c d a b : sx)                  (* a if c == d else b *)
| SIfEmpty (c a b : sx)                 (* a if not c else b   (c the empty string) *)
(* a transformation the language has NO meaning for (x.strip(), unicodedata.normalize('NFKC', x), os.path.realpath(x) ...):
   recorded with its name so that the guard can be written down and rejected BY NAME ([raise_sound] refuses every guard
   that contains one, wherever it stands); [seval] gives it the identity as a placeholder, which no theorem about an
   accepted guard ever evaluates *)
| SOpaque (name : str) (a : sx).

Inductive gx : Type :=
| GConstrain                            (* self.constrain_path *)
| GTrue | GFalse
| GEq (a b : sx)
| GStarts (a b : sx)                    (* a.startswith(b) *)
| GEnds (a b : sx)                      (* a.endswith(b) *)
| GNot (g : gx)
| GAnd (g h : gx)
| GOr (g h : gx).

Record env := { e_abs : str; e_root : str; e_con : bool }.

Fixpoint seval (e : env) (x : sx) : str :=
  match x with
  | SAbs => e_abs e
  | SRoot => e_root e
  | SLit s => s
  | SCat a b => seval e a ++ seval e b
  | SRStrip a => rstrip_sep (seval e a)
  | SJoin a b => pjoin (seval e a) (seval e b)
  | SCommon a b => commonpath2 (seval e a) (seval e b)
  | SIfEndsSep c a b => if ends_sep (seval e c) then seval e a else seval e b
  | SCommonPrefix a b => char_lcp (seval e a) (seval e b)
  | SFold a => map fold_char (seval e a)
  | SUnbs a => map (fun c => if N.eqb c bslash then sep else c) (seval e a)
  | SNorm a => normpath (seval e a)
  | SIfEq c d a b => if str_eqb (seval e c) (seval e d) then seval e a else seval e b
  | SIfEmpty c a b => match seval e c with [] => seval e a | _ => seval e b end
  | SOpaque _ a => seval e a
  end.

Fixpoint geval (e : env) (g : gx) : bool :=
  match g with
  | GConstrain => e_con e
  | GTrue => true
  | GFalse => false
  | GEq a b => str_eqb (seval e a) (seval e b)
  | GStarts a b => prefixb (seval e b) (seval e a)
  | GEnds a b => suffixb (seval e b) (seval e a)
  | GNot g => negb (geval e g)
  | GAnd g h => geval e g && geval e h
  | GOr g h => geval e g || geval e h
  end.

(** RawFileSystem(root_arg, constrain_path=con)._resolve_path(path) with working directory [cwd]. *)
Inductive res := Ok (a : str) | Escape.

Definition resolve (raise_if : gx) (con : bool) (cwd root_arg path : str) : res :=
  let root := abspath cwd root_arg in
  let a := abspath cwd (pjoin root path) in
  if geval {| e_abs := a; e_root := root; e_con := con |} raise_if then Escape else Ok a.

(** ---------------------------------------------------------------- syntactic recogniser of sound guards *)
Definition is_SAbs (x : sx) : bool := match x with SAbs => true | _ => false end.
Definition is_SRoot (x : sx) : bool := match x with SRoot => true | _ => false end.
Definition is_sep_lit (x : sx) : bool := match x with SLit s => str_eqb s [sep] | _ => false end.
Definition is_empty_lit (x : sx) : bool := match x with SLit [] => true | _ => false end.

(** expressions whose segments are those of abs_path: [abs_path], [abs_path + os.sep] *)
Definition abs_like (x : sx) : bool :=
  match x with
  | SAbs => true
  | SCat a s => is_SAbs a && is_sep_lit s
  | _ => false
  end.
Definition is_dot_lit (x : sx) : bool := match x with SLit s => str_eqb s [dotc] | _ => false end.
(** expressions whose segments are those of the root: [self.path], [R.rstrip(os.sep)], and (round 5)
    ['' if R == '.' else R'] — the first step of filesys._folder_prefix: '.' and '' have the same (no) segments *)
Fixpoint root_like (x : sx) : bool :=
  match x with
  | SRoot => true
  | SRStrip a => root_like a
  | SIfEq c d a b => root_like c && is_dot_lit d && is_empty_lit a && root_like b
  | _ => false
  end.
(** expressions that end with a separator and whose segments are those of the root:
    [R + os.sep], [os.path.join(self.path, '')], [self.path if self.path.endswith(os.sep) else self.path + os.sep];
    or (round 5) that are EMPTY exactly when the root has no segments and else of that kind:
    ['' if not G else R + os.sep] — filesys._folder_prefix on the un-folded root (the root '/' gives the empty prefix) *)
Definition root_sep_like (y : sx) : bool :=
  match y with
  | SCat r s => root_like r && is_sep_lit s
  | SJoin r e => is_SRoot r && is_empty_lit e
  | SIfEndsSep c a b =>
      is_SRoot c && is_SRoot a && match b with SCat r s => is_SRoot r && is_sep_lit s | _ => false end
  | SIfEmpty g a b =>
      root_like g && is_empty_lit a && match b with SCat r s => root_like r && is_sep_lit s | _ => false end
  | _ => false
  end.
Definition is_common_abs_root (x : sx) : bool :=
  match x with
  | SCommon a b => (is_SAbs a && is_SRoot b) || (is_SRoot a && is_SAbs b)
  | _ => false
  end.
(** equalities that imply containment: [abs_path == self.path], [commonpath([abs_path, self.path]) == self.path] *)
Definition eq_inside (a b : sx) : bool :=
  (is_SAbs a && is_SRoot b) || (is_SRoot a && is_SAbs b)
  || (is_common_abs_root a && is_SRoot b) || (is_SRoot a && is_common_abs_root b).

(** [ok_when pol g = true]: whenever [g] evaluates to [pol] (with constrain_path on and an absolute root),
    abs_path is inside the root. *)
Fixpoint ok_when (pol : bool) (g : gx) : bool :=
  match g with
  | GConstrain => negb pol
  | GTrue => negb pol
  | GFalse => pol
  | GEq a b => pol && eq_inside a b
  | GStarts a b => pol && abs_like a && root_sep_like b
  | GEnds _ _ => false
  | GNot g => ok_when (negb pol) g
  | GAnd g h => if pol then ok_when true g || ok_when true h else ok_when false g && ok_when false h
  | GOr g h => if pol then ok_when true g && ok_when true h else ok_when false g || ok_when false h
  end.

(** no uninterpreted transformation anywhere in the guard *)
Fixpoint sx_plain (x : sx) : bool :=
  match x with
  | SAbs | SRoot | SLit _ => true
  | SCat a b | SJoin a b | SCommon a b | SCommonPrefix a b => sx_plain a && sx_plain b
  | SRStrip a | SFold a | SUnbs a | SNorm a => sx_plain a
  | SIfEndsSep c a b | SIfEmpty c a b => sx_plain c && sx_plain a && sx_plain b
  | SIfEq c d a b => sx_plain c && sx_plain d && sx_plain a && sx_plain b
  | SOpaque _ _ => false
  end.
Fixpoint gx_plain (g : gx) : bool :=
  match g with
  | GConstrain | GTrue | GFalse => true
  | GEq a b | GStarts a b | GEnds a b => sx_plain a && sx_plain b
  | GNot g => gx_plain g
  | GAnd g h | GOr g h => gx_plain g && gx_plain h
  end.

(** The raise condition is sound when "not raised" implies containment (and every string in it has a meaning). *)
Definition raise_sound (raise_if : gx) : bool := gx_plain raise_if && ok_when false raise_if.

(** Containment: the root's segments are a prefix of the path's segments, and the path has no '..' left. *)
Definition seg_prefix (r a : list str) : Prop := exists rest, a = r ++ rest.
Definition no_dotdot (l : list str) : Prop := Forall (fun c => is_dotdot c = false) l.
Definition inside (root a : str) : Prop :=
  is_abs a = true /\ seg_prefix (segs root) (segs a) /\ no_dotdot (segs a).

Fixpoint seg_prefixb (r a : list str) : bool :=
  match r, a with
  | [], _ => true
  | x :: r', y :: a' => str_eqb x y && seg_prefixb r' a'
  | _ :: _, [] => false
  end.

(** ---------------------------------------------------------------- packlist.unify_path (POSIX) *)
(** [path.replace('\\', '/')] *)
Definition unbackslash (s : str) : str := map (fun c => if N.eqb c bslash then sep else c) s.
(** ['../' in s] *)
Fixpoint has_parent_ref (s : str) : bool :=
  match s with
  | [] => false
  | _ :: r => prefixb [dotc; dotc; sep] s || has_parent_ref r
  end.
Fixpoint lstrip_sep (s : str) : str :=
  match s with
  | c :: r => if is_sep c then lstrip_sep r else s
  | [] => []
  end.
(** Case folding is the identity on the characters that matter ('.', '/', '\\') and is left out; the
    correspondence runs on lower-case inputs and the check verifies that no code point folds to one of them. *)
Definition unify_path (p : str) : option str :=
  let q := unbackslash (normpath p) in
  if has_parent_ref q then None else Some (lstrip_sep q).

(** depth walk: does following the segments ever step above the starting directory? *)
Fixpoint stays_below (depth : nat) (l : list str) : bool :=
  match l with
  | [] => true
  | c :: r => if is_dotdot c then match depth with O => false | S d => stays_below d r end
              else stays_below (S depth) r
  end.

(** Following segments from a directory given as the stack of its components (innermost first):
    a name goes down, '..' goes up; [None] = tried to go above the top of the stack. *)
Fixpoint follow (stack : list str) (l : list str) : option (list str) :=
  match l with
  | [] => Some stack
  | c :: r => if is_dotdot c then match stack with [] => None | _ :: s => follow s r end
              else follow (c :: stack) r
  end.

(** ---------------------------------------------------------------- literals for examples *)
From Coq Require Import String Ascii.
Definition s2l (s : string) : str := map N_of_ascii (list_ascii_of_string s).
