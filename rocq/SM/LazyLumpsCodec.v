(** C10, round 4: the premise "the writer of every view inverts its reader on the values the file holds"
    ([codec_ok] of SM/LazyLumpsProofs.v), made visible PER VIEW, and discharged for the texture-name view from the
    object C11 generates from [_lmp_write_textures] / [_lmp_read_textures] (Gen/BspGlue_gen.v: [tex_cfg]) through
    C11's model Fmt/BspTexStrings.v and theorem [texdata_strings_roundtrip].

    What C10 needs from a view codec is slightly different from what C11 states: C11 quantifies over the values a
    user may assign (and has the writer's guard as a hypothesis), C10 over the values the READER returns for the
    lumps of the file.  So the extra obligation here is that every value the reader can return passes the writer's
    guard ([texcfg_window_is_guard]: a name the reader accepts has fewer characters than the search window, the
    writer refuses names of [maxlen + 1] characters and more).  One style: stdlib. *)
From Coq Require Import List Arith NArith Bool Lia.
From SV Require Import SM.LazyLumps SM.LazyLumpsProofs Fmt.BspTexStrings Fmt.BspTexStringsProofs.
Import ListNotations.
Close Scope N_scope.

(** * Per-view form of the codec premise, and the whole property as one statement *)
Section PerView.
  Variables D P : Type.
  Variable empty : D.
  Variable rd : nat -> list D -> option P.
  Variable wr : nat -> P -> list D.
  Variable g : graph.
  Variable sh : shape.

  (** On the value [p] that the reader of view [v] makes of the lumps of THIS file, reading what the writer wrote
      gives [p] again, and the writer returns one datum per lump the view owns. *)
  Definition codec_ok_at (s0 : state D P) (v : nat) : Prop :=
    forall p, rd v (own_data D P g s0 v) = Some p ->
      rd v (wr v p) = Some p /\ length (wr v p) = length (own g v).

  Lemma codec_ok_per_view : forall s0,
    (forall v, v < nviews g -> codec_ok_at s0 v) <-> (codec_ok D P rd wr g s0 /\ wr_len_ok D P rd wr g s0).
  Proof.
    intros s0. split.
    - intros H. split; intros v p Hv Hr; destruct (H v Hv p Hr) as [A B]; assumption.
    - intros [Hc Hl] v Hv p Hr. split; [apply Hc | apply Hl]; assumption.
  Qed.

  (** The list form (one premise per position of the rebuild order), convenient for instances. *)
  Lemma codec_ok_from_list : forall s0,
    Forall (codec_ok_at s0) (seq 0 (nviews g)) -> forall v, v < nviews g -> codec_ok_at s0 v.
  Proof.
    intros s0 H v Hv. rewrite Forall_forall in H. apply H. apply in_seq. lia.
  Qed.

  (** The property as one statement, every hypothesis visible: graph and statement-order conditions (decidable,
      instance obligations for today's bsp.py), the file was just read, and one codec premise per view.  For every
      access sequence: save completes, the cache is empty, every view parses to the same content (or is rejected
      exactly as before), lumps without a view are byte-identical, lumps of views outside the dependency closure of
      the looks are byte-identical, saving again is the identity; and with no look at all every lump is identical. *)
  Theorem property_per_view :
    order_consistent g = true -> shape_ok sh = true -> wdeps_within_rdeps g = true ->
    forall s0 : state D P, fresh D P s0 ->
    (forall v, v < nviews g -> codec_ok_at s0 v) ->
    (save D P empty rd wr g sh s0 = (true, s0)) /\
    forall accs,
      let r := save D P empty rd wr g sh (run D P empty rd g sh accs s0) in
      fst r = true /\ fresh D P (snd r) /\ same_content D P rd g (snd r) s0 /\
      save D P empty rd wr g sh (snd r) = (true, snd r) /\
      (forall R : nat -> Prop,
         (forall v d, v < nviews g -> R v -> In d (v_rdeps (decl g v) ++ v_wdeps (decl g v)) -> R d) ->
         (forall v, In v accs -> R v) ->
         forall v l, v < nviews g -> ~ R v -> In l (own g v) -> raw (snd r) l = raw s0 l).
  Proof.
    intros Hg Hs Hw s0 Hf Hc. apply codec_ok_per_view in Hc. destruct Hc as [Hc Hl]. split.
    - apply (save_fresh_id D P empty rd wr g sh). exact Hf.
    - intros accs r.
      destruct (save_lossless D P empty rd wr g sh Hg Hs s0 accs Hf Hl Hc) as [A B]. fold r in A, B.
      assert (Hr : fst r = true) by (apply B; apply writers_can_look_from_graph; exact Hw).
      destruct (A Hr) as [A1 A2].
      split; [exact Hr|]. split; [exact A1|]. split; [exact A2|]. split.
      + exact (save_idempotent D P empty rd wr g sh Hg Hs s0 accs Hf Hl Hr).
      + intros R HR1 HR2. exact (save_untouched_exact D P empty rd wr g sh Hg Hs s0 accs R Hf Hl HR1 HR2 Hr).
  Qed.

  (** One view whose codec fails on the file's own value is enough to lose content: the premise cannot be dropped
      for any single view (the per-view premises are independent). *)
  Lemma codec_ok_needs_every_view : forall s0 v, v < nviews g ->
    codec_ok D P rd wr g s0 -> forall p, rd v (own_data D P g s0 v) = Some p -> rd v (wr v p) = Some p.
  Proof. intros s0 v Hv Hc p Hr. exact (Hc v p Hv Hr). Qed.
End PerView.

(** Non-vacuity of [property_per_view]: the example graph / codec of SM/LazyLumpsProofs.v. *)
Lemma property_hyps_example :
  order_consistent g_ok = true /\ shape_ok std_shape = true /\ wdeps_within_rdeps g_ok = true /\
  fresh nat (list nat) ex_s0 /\ (forall v, v < nviews g_ok -> codec_ok_at nat (list nat) ex_rd ex_wr g_ok ex_s0 v).
Proof.
  destruct ex_hyps as [Hf [Hl [Hc _]]].
  split; [exact g_ok_consistent|]. split; [reflexivity|]. split; [vm_compute; reflexivity|]. split; [exact Hf|].
  apply codec_ok_per_view. split; assumption.
Qed.

(** * The texture-name view: lumps TEXDATA_STRING_DATA (the block) and TEXDATA_STRING_TABLE (one offset per name) *)
Open Scope N_scope.

(** The two lumps of the view as the model sees them; the [<i] packing of the offsets is C11's struct layer
    ([c11_unpack_pack]) and is not repeated here. *)
Inductive tdatum := TBytes (b : list N) | TOffs (o : list nat).

Fixpoint sequence {A : Type} (l : list (option A)) : option (list A) :=
  match l with
  | [] => Some []
  | Some x :: r => option_map (cons x) (sequence r)
  | None :: _ => None
  end.

Definition texcfg_window_is_guard (c : texcfg) : bool := let '(_, _, maxlen, win) := c in Nat.eqb win (S maxlen).

(** [_lmp_read_textures]: every table entry is read up to the next NUL inside the window; one bad entry = ValueError. *)
Definition tex_view_rd (c : texcfg) (ds : list tdatum) : option (list (list N)) :=
  let '(_, _, _, win) := c in
  match ds with
  | [TBytes data; TOffs offs] => sequence (map (tex_read win data) offs)
  | _ => None
  end.
(** [_lmp_write_textures]: returns the block, stores the table. *)
Definition tex_view_wr (c : texcfg) (names : list (list N)) : list tdatum :=
  let '(ss, sa, _, _) := c in let '(data, offs) := tex_write ss sa names in [TBytes data; TOffs offs].

Lemma sequence_map_Some : forall (A : Type) (l : list A), sequence (map Some l) = Some l.
Proof. induction l as [|x l IH]; [reflexivity|]. cbn [map sequence]. rewrite IH. reflexivity. Qed.

Lemma sequence_Some_Forall : forall (A B : Type) (f : A -> option B) (Q : B -> Prop),
  (forall a b, f a = Some b -> Q b) -> forall l r, sequence (map f l) = Some r -> Forall Q r.
Proof.
  intros A B f Q Hf. induction l as [|a l IH]; intros r E; cbn [map sequence] in E.
  - injection E as <-. constructor.
  - destruct (f a) as [b|] eqn:Fa; [|discriminate].
    destruct (sequence (map f l)) as [r'|] eqn:S; [|discriminate]. cbn [option_map] in E. injection E as <-.
    constructor; [exact (Hf a b Fa) | apply IH; reflexivity].
Qed.

(** What the reader returns is NUL-free and shorter than the window. *)
Lemma take_until0_spec : forall fuel l s, take_until0 fuel l = Some s -> nul_free s = true /\ (length s < fuel)%nat.
Proof.
  induction fuel as [|f IH]; intros l s E; cbn [take_until0] in E; [discriminate|].
  destruct l as [|x r]; [discriminate|]. destruct (x =? 0) eqn:X.
  - injection E as <-. split; [reflexivity | cbn [length]; lia].
  - destruct (take_until0 f r) as [s'|] eqn:T; [|discriminate]. cbn [option_map] in E. injection E as <-.
    destruct (IH r s' T) as [A B]. split.
    + unfold nul_free. cbn [forallb]. rewrite X. cbn [negb andb]. exact A.
    + cbn [length]. lia.
Qed.

(** The codec premise of the texture-name view, for EVERY content of its two lumps, from the generated
    configuration alone: if the reader accepts the lumps and returns [names], the writer's output is accepted and
    read back as [names] (whatever storage the search shared), and the writer returns its two lumps. *)
Theorem tex_view_codec : forall c, texcfg_ok c = true -> texcfg_window_is_guard c = true ->
  forall ds names, tex_view_rd c ds = Some names ->
  tex_view_rd c (tex_view_wr c names) = Some names /\ length (tex_view_wr c names) = 2%nat.
Proof.
  intros [[[ss sa] maxlen] win] Hc Hw ds names Hr. cbn [texcfg_window_is_guard] in Hw. apply Nat.eqb_eq in Hw.
  cbn [tex_view_rd] in Hr.
  destruct ds as [|[data|?] [|[?|offs] [|? ?]]]; try discriminate.
  assert (Hn : Forall (fun s => nul_free s = true /\ (length s <= maxlen)%nat) names).
  { eapply sequence_Some_Forall; [|exact Hr]. intros off s E. unfold tex_read in E.
    destruct (take_until0_spec _ _ _ E) as [A B]. split; [exact A | lia]. }
  cbn [tex_view_wr]. destruct (tex_write ss sa names) as [data' offs'] eqn:W.
  split; [|reflexivity]. cbn [tex_view_rd].
  rewrite (texdata_strings_roundtrip ss sa maxlen win names data' offs' Hc Hn W). apply sequence_map_Some.
Qed.

(** The same in the vocabulary of the lazy-lump machine: in ANY graph, if position [v] of the rebuild order is the
    texture-name view (it owns two lumps and its reader / writer are the ones above), the per-view premise holds at
    [v] for every file. *)
Corollary tex_view_codec_ok_at : forall (P : Type) (inj : list (list N) -> P) (prj : P -> list (list N))
    (rd : nat -> list tdatum -> option P) (wr : nat -> P -> list tdatum) (g : graph) c v,
  texcfg_ok c = true -> texcfg_window_is_guard c = true ->
  (forall x, prj (inj x) = x) ->
  (forall ds, rd v ds = option_map inj (tex_view_rd c ds)) -> (forall p, wr v p = tex_view_wr c (prj p)) ->
  length (own g v) = 2%nat ->
  forall s0, codec_ok_at tdatum P rd wr g s0 v.
Proof.
  intros P inj prj rd wr g c v Hc Hw Hpi Hrd Hwr Hown s0 p Hr. rewrite Hrd in Hr.
  destruct (tex_view_rd c (own_data tdatum P g s0 v)) as [names|] eqn:E; [|discriminate].
  cbn [option_map] in Hr. injection Hr as <-.
  destruct (tex_view_codec c Hc Hw _ _ E) as [A B]. rewrite Hwr, Hrd, Hpi, A, Hown. split; [reflexivity | exact B].
Qed.

(** Seeded fault c10_5 in closed form: the pool is searched for the bare name.  The file holds "AB" and "A", each
    stored in full; the reader returns both; what the writer makes of them reads back as "AB", "AB". *)
Theorem tex_view_codec_bare_search_refuted :
  let c := ([], [0], 127%nat, 128%nat) in
  let file := [TBytes [65; 66; 0; 65; 0]; TOffs [0; 3]%nat] in
  texcfg_ok c = false /\ texcfg_window_is_guard c = true /\
  tex_view_rd c file = Some [[65; 66]; [65]] /\
  tex_view_wr c [[65; 66]; [65]] = [TBytes [65; 66; 0]; TOffs [0; 0]%nat] /\
  tex_view_rd c (tex_view_wr c [[65; 66]; [65]]) = Some [[65; 66]; [65; 66]].
Proof. vm_compute. repeat split; reflexivity. Qed.

(** With the terminator in the search the same file is lossless, and so is one where the shorter name is a TAIL of the
    longer (storage shared legitimately): non-vacuity of [tex_view_codec]. *)
Example tex_view_codec_example :
  let c := ([0], [0], 127%nat, 128%nat) in
  texcfg_ok c = true /\ texcfg_window_is_guard c = true /\
  tex_view_rd c (tex_view_wr c [[65; 66]; [65]]) = Some [[65; 66]; [65]] /\
  tex_view_wr c [[65; 66]; [66]] = [TBytes [65; 66; 0]; TOffs [0; 1]%nat] /\
  tex_view_rd c (tex_view_wr c [[65; 66]; [66]]) = Some [[65; 66]; [66]].
Proof. vm_compute. repeat split; reflexivity. Qed.

(** The second obligation is necessary too: a writer that refuses names of 100 characters and more cannot write back
    a 100-character name the reader accepted (look + save raises OverflowError): outside [tex_view_codec]. *)
Example texcfg_window_wider_than_guard : texcfg_ok ([0], [0], 99%nat, 128%nat) = true /\
  texcfg_window_is_guard ([0], [0], 99%nat, 128%nat) = false.
Proof. vm_compute. split; reflexivity. Qed.
