(** C17 — the compiled-pattern cache of [EntityFixup].

    SM/C17Subst.v models `EntityFixup.substitute` as a function of the *current* table: the regular expression is built
    from the keys that are defined when the text is scanned.  The code keeps the compiled pattern in `self._matcher` and
    reuses it "whenever called again without adding new variables".  That the model's assumption holds is an invariant
    of the class: the cached pattern, if there is one, was compiled from the present key set.

    translate/c17_formulas.py reads, for every method of the class (and every other place of vmf.py that touches the two
    attributes), what it does to the key set and to the cache ([shape]); the theorem in SM/C17CacheProofs.v holds for
    every list of shapes passing [shape_ok], every key-set type, every `compile` and every effect on the keys. *)
From Coq Require Import List Bool.
Import ListNotations.

Inductive shape :=
| SKeep                                      (* does not touch the key set (values may change) *)
| SChange (resets : bool)                    (* may add / remove / replace keys; sets the cache to None, or not *)
| SCopy (same_keys copies_cache : bool).     (* builds another table from this one (copy, unpickle): same key set or another
                                                one; the new object's cache is this one's, or None *)

Definition shape_ok (sh : shape) : bool :=
  match sh with
  | SKeep => true
  | SChange resets => resets
  | SCopy same copies => implb copies same
  end.

Section Cache.
  Variables Keys Pat : Type.
  Variable compile : Keys -> Pat.

  Record pc_tbl := { pc_keys : Keys; pc_cache : option Pat }.

  Definition pc_coherent (t : pc_tbl) : Prop :=
    match pc_cache t with None => True | Some p => p = compile (pc_keys t) end.

  (** One call of a method of shape [sh]; [f]: what it does to the key set (arbitrary).  For [SCopy] the history
      continues with the new object. *)
  Definition pc_step (sh : shape) (f : Keys -> Keys) (t : pc_tbl) : pc_tbl :=
    match sh with
    | SKeep => t
    | SChange resets => {| pc_keys := f (pc_keys t); pc_cache := if resets then None else pc_cache t |}
    | SCopy same copies => {| pc_keys := if same then pc_keys t else f (pc_keys t); pc_cache := if copies then pc_cache t else None |}
    end.

  (** `substitute`: use the cached pattern, compile and remember it when there is none. *)
  Definition pc_lookup (t : pc_tbl) : Pat * pc_tbl :=
    match pc_cache t with
    | Some p => (p, t)
    | None => (compile (pc_keys t), {| pc_keys := pc_keys t; pc_cache := Some (compile (pc_keys t)) |})
    end.

  Inductive pc_action := AStep (sh : shape) (f : Keys -> Keys) | ALookup.

  Definition pc_action_ok (a : pc_action) : bool := match a with AStep sh _ => shape_ok sh | ALookup => true end.

  Fixpoint pc_run (h : list pc_action) (t : pc_tbl) : pc_tbl :=
    match h with
    | [] => t
    | AStep sh f :: r => pc_run r (pc_step sh f t)
    | ALookup :: r => pc_run r (snd (pc_lookup t))
    end.

  Definition pc_fresh (k : Keys) : pc_tbl := {| pc_keys := k; pc_cache := None |}.
End Cache.
