(** C17 — the ancestry check is exact also when file names come from $variables: [loop3] (parents recorded along literal
    links, reset at links through a $variable) decides like the loop without the check on the state graph. *)
From Coq Require Import List Arith Lia Permutation.
From SV Require Import SM.C17Rounds SM.C17RoundsProofs SM.C17RoundsDyn.
Import ListNotations.

Section Graph3.
  Variable fl : nat -> file.
  Variable kids : nat -> list (nat * bool).
  Hypothesis lit : lit_by_file fl kids.
  Notation ch := (children3 kids).
  Notation loop := (loop ch).
  Notation round := (round ch).
  Notation rounds := (rounds ch).
  Notation expand3 := (expand3 fl kids).
  Notation is_loop3 := (is_loop3 fl).

  (** file [g] is a literal nested instance of file [f], from whatever state [f] is collapsed *)
  Definition flink (f g : file) : Prop := forall s, fl s = f -> exists c, In (c, true) (kids s) /\ fl c = g.

  Fixpoint lit_path (f : file) (ps : list file) : Prop :=
    match ps with [] => True | a :: t => flink a f /\ lit_path a t end.

  Lemma flink_intro : forall s c, In (c, true) (kids s) -> flink (fl s) (fl c).
  Proof. intros s c H s' E. apply (lit s s' (eq_sym E) c H). Qed.

  Lemma kid_in_round : forall s c b, In (c, b) (kids s) -> In c (round [s]).
  Proof.
    intros s c b H. unfold C17Rounds.round. cbn [flat_map]. rewrite app_nil_r. unfold children3.
    apply in_map_iff. exists (c, b). split; [reflexivity | exact H].
  Qed.

  Lemma path_reach : forall l1 f a l2, lit_path f (l1 ++ a :: l2) ->
    forall s, fl s = a -> exists s', In s' (rounds (S (length l1)) [s]) /\ fl s' = f.
  Proof.
    induction l1 as [|b l1 IH]; intros f a l2 H s E.
    - cbn [app lit_path] in H. destruct H as [H _]. destruct (H s E) as (c & Hc & Fc).
      exists c. split; [|exact Fc]. cbn [length C17Rounds.rounds]. eapply kid_in_round, Hc.
    - cbn [app lit_path] in H. destruct H as [H1 H2]. destruct (IH _ _ _ H2 s E) as (s1 & I1 & F1).
      destruct (H1 s1 F1) as (c & Hc & Fc). exists c. split; [|exact Fc].
      cbn [length]. rewrite (rounds_S_end ch). unfold C17Rounds.round. apply in_flat_map. exists s1. split; [exact I1|].
      unfold children3. apply in_map_iff. exists (c, true). split; [reflexivity | exact Hc].
  Qed.

  (** a file from which a literal path of [m] links leads back to itself: every state of that file stays pending forever *)
  Lemma self_reach_forever3 : forall f m, (forall s, fl s = f -> exists s', In s' (rounds m [s]) /\ fl s' = f) ->
    forall i s, fl s = f -> exists s', In s' (rounds (i * m) [s]) /\ fl s' = f.
  Proof.
    intros f m H. induction i as [|i IH]; intros s E.
    - exists s. split; [left; reflexivity | exact E].
    - destruct (IH s E) as (s1 & I1 & F1). destruct (H s1 F1) as (s2 & I2 & F2). exists s2. split; [|exact F2].
      replace (S i * m) with (i * m + m) by lia. rewrite (rounds_add ch).
      apply (rounds_incl ch m [s1]); [|exact I2]. intros x [<-|[]]. exact I1.
  Qed.

  Lemma cycle_never_empty3 : forall f m, 0 < m -> (forall s, fl s = f -> exists s', In s' (rounds m [s]) /\ fl s' = f) ->
    forall s, fl s = f -> forall j, rounds j [s] <> [].
  Proof.
    intros f m Hm H s E j Z. destruct (self_reach_forever3 f m H j s E) as (s' & I & _).
    replace (j * m) with (j + (j * m - j)) in I by nia. rewrite (rounds_add ch), Z, (rounds_nil ch) in I. exact I.
  Qed.

  Lemma loop_item_forever3 : forall s ps, lit_path (fl s) ps -> In (fl s) ps -> forall j, rounds j [s] <> [].
  Proof.
    intros s ps C I. apply in_split in I as (l1 & l2 & ->).
    apply (cycle_never_empty3 (fl s) (S (length l1))); [lia | | reflexivity].
    intros s0 E. eapply path_reach; [exact C | exact E].
  Qed.

  Variable perm : list item3 -> list item3.
  Hypothesis perm_ok : forall l, Permutation (perm l) l.
  Notation loop3 := (loop3 fl kids perm).

  Lemma loop3_unfold : forall k p, loop3 (S k) p =
    match p with
    | [] => (Done, 0, 0)
    | _ :: _ => let q := perm p in
                if existsb is_loop3 q then (Raise, 1, before3 fl q)
                else let '(o, r, w) := loop3 k (flat_map expand3 q) in (o, S r, length q + w)
    end.
  Proof. reflexivity. Qed.

  Definition good3 (x : item3) : Prop := lit_path (fl (fst x)) (snd x).

  Lemma flat_expand_good3 : forall q, Forall good3 q -> Forall good3 (flat_map expand3 q).
  Proof.
    intros q H. rewrite Forall_forall in *. intros y Hy. apply in_flat_map in Hy as (x & Hx & Hy).
    unfold C17RoundsDyn.expand3 in Hy. apply in_map_iff in Hy as ([c b] & <- & Hc). unfold good3. cbn [fst snd].
    destruct b; [|exact I]. split; [apply flink_intro, Hc | apply (H x Hx)].
  Qed.

  Lemma map_fst_expand3 : forall q, map fst (flat_map expand3 q) = round (map fst q).
  Proof.
    induction q as [|x q IH]; [reflexivity|].
    change (flat_map expand3 (x :: q)) with (expand3 x ++ flat_map expand3 q).
    change (round (map fst (x :: q))) with (ch (fst x) ++ round (map fst q)).
    rewrite map_app. f_equal; [|exact IH]. unfold C17RoundsDyn.expand3, children3. rewrite map_map. reflexivity.
  Qed.

  Lemma before3_le : forall q, before3 fl q <= length q.
  Proof. induction q as [|x q IH]; cbn [before3 length]; [lia|]. destruct (is_loop3 x); lia. Qed.

  Lemma is_loop3_true : forall x, is_loop3 x = true <-> In (fl (fst x)) (snd x).
  Proof.
    intros x. unfold C17RoundsDyn.is_loop3. rewrite existsb_exists. split.
    - intros (y & Hy & E). apply Nat.eqb_eq in E. subst. exact Hy.
    - intros H. exists (fl (fst x)). split; [exact H | apply Nat.eqb_refl].
  Qed.

  Lemma loop3_vs_loop : forall limit p, Forall good3 p ->
    l_outcome (loop3 limit p) = l_outcome (loop limit (map fst p)) /\
    (l_outcome (loop limit (map fst p)) = Done -> loop3 limit p = loop limit (map fst p)) /\
    l_work (loop3 limit p) <= l_work (loop limit (map fst p)) /\
    l_rounds (loop3 limit p) <= l_rounds (loop limit (map fst p)).
  Proof.
    induction limit as [|k IH]; intros p G.
    - cbn. repeat split; auto.
    - destruct p as [|x p]; [cbn; repeat split; auto|].
      rewrite loop3_unfold. cbv zeta.
      pose proof (perm_ok (x :: p)) as Pq. remember (perm (x :: p)) as q eqn:Eq. clear Eq.
      assert (Gq : Forall good3 q) by (eapply Permutation_Forall; [apply Permutation_sym, Pq | exact G]).
      assert (Pm : Permutation (map fst q) (map fst (x :: p))) by (apply Permutation_map, Pq).
      assert (Lq : length q = length (map fst (x :: p))) by (rewrite map_length; apply Permutation_length, Pq).
      destruct (existsb is_loop3 q) eqn:Hit.
      + apply existsb_exists in Hit as (y & Hy & L). apply is_loop3_true in L.
        rewrite Forall_forall in Gq. pose proof (loop_item_forever3 _ _ (Gq y Hy) L) as F.
        assert (I : In (fst y) (map fst (x :: p))) by (eapply Permutation_in; [exact Pm | apply in_map, Hy]).
        pose proof (in_never_empty ch _ _ I F) as NE.
        destruct (cycle_raises ch (S k) _ NE) as [O _].
        pose proof (before3_le q) as B. rewrite Lq in B.
        revert O B. cbn [map]. rewrite (loop_unfold ch).
        destruct (C17Rounds.loop ch k _) as [[o r] w]. unfold l_outcome, l_work, l_rounds. cbn [fst snd length].
        intros -> B. repeat split; try lia. discriminate.
      + specialize (IH (flat_map expand3 q) (flat_expand_good3 q Gq)). rewrite map_fst_expand3 in IH.
        rewrite (loop_perm ch k _ _ (round_perm ch _ _ Pm)) in IH. rewrite Lq.
        cbn [map] in *. rewrite (loop_unfold ch).
        destruct (C17RoundsDyn.loop3 fl kids perm k _) as [[o2 r2] w2].
        destruct (C17Rounds.loop ch k _) as [[o r] w]. unfold l_outcome, l_work, l_rounds in *. cbn [fst snd length] in *.
        destruct IH as (A & B & C & D). repeat split; try lia; [exact A|].
        intros H. specialize (B H). injection B as -> -> ->. reflexivity.
  Qed.

  Lemma start3_good : forall roots, Forall good3 (start3 roots).
  Proof. intros. apply Forall_forall. intros x Hx. apply in_map_iff in Hx as (f & <- & _). exact I. Qed.

  Lemma map_fst_start3 : forall roots, map fst (start3 roots) = roots.
  Proof. intros. unfold start3. rewrite map_map. apply map_id. Qed.

  Theorem dyn_cycle_check_exact : forall limit roots,
    l_outcome (loop3 limit (start3 roots)) = l_outcome (loop limit roots) /\
    (l_outcome (loop limit roots) = Done -> loop3 limit (start3 roots) = loop limit roots) /\
    l_work (loop3 limit (start3 roots)) <= l_work (loop limit roots) /\
    l_rounds (loop3 limit (start3 roots)) <= l_rounds (loop limit roots).
  Proof.
    intros limit roots. pose proof (loop3_vs_loop limit (start3 roots) (start3_good roots)) as H.
    rewrite map_fst_start3 in H. exact H.
  Qed.
End Graph3.

(** *** Witnesses.  A file that contains itself through a `$variable` file name, with a counter handed down in the fixups
    (state [n] = "n levels to go", all states are the same file 0): it ends, and the check - parents reset at the
    `$variable` link - does not fire; had the link been recorded like a literal one, the second level would raise. *)
Definition countdown_fl (_ : nat) : file := 0.
Definition countdown (s : nat) : list (nat * bool) := match s with 0 => [] | S k => [(k, false)] end.
Definition countdown_as_literal (s : nat) : list (nat * bool) := match s with 0 => [] | S k => [(k, true)] end.

Lemma countdown_lit : lit_by_file countdown_fl countdown.
Proof. intros s s' _ c H. destruct s as [|k]; [destruct H | destruct H as [H|[]]; discriminate H]. Qed.

Example dyn_chain_terminates : loop3 countdown_fl countdown (fun l => l) 100 (start3 [3]) = (Done, 4, 4).
Proof. reflexivity. Qed.

Example dyn_chain_recorded_as_literal_refuted :
  loop3 countdown_fl countdown_as_literal (fun l => l) 100 (start3 [3]) = (Raise, 2, 1) /\
  loop (children3 countdown_as_literal) 100 [3] = (Done, 4, 4) /\ ~ lit_by_file countdown_fl countdown_as_literal.
Proof.
  split; [reflexivity|]. split; [reflexivity|]. intros H.
  destruct (H 1 0 eq_refl 0 (or_introl eq_refl)) as (c & [] & _).
Qed.

(** A `$variable` link (state 1, file 1) into a file that contains itself literally (state 0, file 0): one collapse of
    each, then the second instance of file 0 finds its file among its parents. *)
Definition into_cycle_fl (s : nat) : file := s.
Definition into_cycle (s : nat) : list (nat * bool) := match s with 1 => [(0, false)] | 0 => [(0, true)] | _ => [] end.

Lemma into_cycle_lit : lit_by_file into_cycle_fl into_cycle.
Proof. intros s s' E c H. unfold into_cycle_fl in E. subst s'. exists c. split; [exact H | reflexivity]. Qed.

Example dyn_link_into_literal_cycle : forall limit, 3 <= limit ->
  loop3 into_cycle_fl into_cycle (fun l => l) limit (start3 [1]) = (Raise, 3, 2).
Proof. intros [|[|[|k]]] H; try lia. reflexivity. Qed.
