(** C19, round 3 — the container's reader [FileInfo.read()] as an expression translated from vpk.py.

    [FsChainForms.CRead] takes the reader as "preload ++ rest".  Here the reader itself is an expression over the
    [FileInfo]: the preload bytes, a slice of the home of the rest (the block kept after the directory tree,
    [self.vpk.footer_data[self.offset + a : self.offset + self.arch_len + b]], or a numbered archive file read by
    [seek(self.offset + a); read(self.arch_len + b - a)]), concatenation, and the two tests on where the data lives.
    The translator emits the expression with the integer displacements [a], [b] it finds in the source.
    Executable definitions only; proofs are in FsChainReadProofs.v. *)
From Coq Require Import List NArith ZArith Bool.
From SV Require Import SM.FsChain SM.FsChainForms.
Import ListNotations.

(** A [FileInfo] together with the byte string its rest lives in. *)
Record rfile := { r_pre : bytes; r_home : bytes; r_off : nat; r_len : nat; r_in_dir : bool }.

(** the [arch_len] bytes at [offset] of the home *)
Definition r_tail (f : rfile) : bytes := firstn (r_len f) (skipn (r_off f) (r_home f)).
Definition r_whole (f : rfile) : bytes := r_pre f ++ r_tail f.

Inductive rexpr :=
| RPre                                   (* self.start_data *)
| RSlice (dir : bool) (a b : Z)          (* bytes [offset + a, offset + arch_len + b) of the directory block / of the archive *)
| RCat (x y : rexpr)                     (* x + y *)
| RIfDir (x y : rexpr)                   (* x if self.arch_index is None else y *)
| RIfNoTail (x y : rexpr).               (* x if not self.arch_len else y *)

Definition slice (start stop : Z) (l : bytes) : bytes :=
  let s := Z.to_nat start in firstn (Z.to_nat stop - s) (skipn s l).

Fixpoint reval (e : rexpr) (f : rfile) : bytes :=
  match e with
  | RPre => r_pre f
  | RSlice dir a b =>
      (* reading the other home yields bytes that are not this file's: modelled as nothing *)
      if Bool.eqb dir (r_in_dir f)
      then slice (Z.of_nat (r_off f) + a) (Z.of_nat (r_off f) + Z.of_nat (r_len f) + b) (r_home f)
      else []
  | RCat x y => reval x f ++ reval y f
  | RIfDir x y => if r_in_dir f then reval x f else reval y f
  | RIfNoTail x y => match r_len f with O => reval x f | S _ => reval y f end
  end.

(** What is known on a path: [d] - whether the rest is in the directory block; [nt] - that there is no rest. *)
Definition known_is (k : option bool) (v : bool) : bool := match k with Some w => Bool.eqb w v | None => false end.

Fixpoint rexpr_whole (d : option bool) (nt : bool) (e : rexpr) : bool :=
  match e with
  | RPre => nt
  | RSlice _ _ _ => false
  | RCat RPre (RSlice dir a b) => (a =? 0)%Z && (b =? 0)%Z && known_is d dir
  | RCat _ _ => false
  | RIfDir x y =>
      match d with
      | Some true => rexpr_whole d nt x
      | Some false => rexpr_whole d nt y
      | None => rexpr_whole (Some true) nt x && rexpr_whole (Some false) nt y
      end
  | RIfNoTail x y => if nt then rexpr_whole d nt x else rexpr_whole d true x && rexpr_whole d false y
  end.

(** A file written by [FileInfo.write]: the first [limit] bytes are the preload, the rest lies somewhere ([before],
    [after] arbitrary) in the directory block ([in_dir]) or in a numbered archive; without a rest [arch_index] is None. *)
Definition rfile_of (before after : bytes) (limit : nat) (in_dir : bool) (data : bytes) : rfile :=
  {| r_pre := firstn limit data; r_home := before ++ skipn limit data ++ after; r_off := length before;
     r_len := length (skipn limit data);
     r_in_dir := match skipn limit data with [] => true | _ :: _ => in_dir end |}.

(** The reader of the pinned tree and of today's source, and the off-by-one variant. *)
Definition reader_today : rexpr :=
  RIfNoTail RPre (RIfDir (RCat RPre (RSlice true 0 0)) (RCat RPre (RSlice false 0 0))).
Definition reader_short : rexpr :=
  RIfNoTail RPre (RIfDir (RCat RPre (RSlice true 0 (-1))) (RCat RPre (RSlice false 0 0))).

(** What the VPK backend's [open_bin] / [open_str] hand out when its content expression ([FsChainForms.cexpr], translated
    from filesys.py) is evaluated with [file.read()] standing for the translated reader. *)
Fixpoint ceval_r (rd : rexpr) (c : cexpr) (f : rfile) : bytes :=
  match c with
  | CRead => reval rd f
  | CPreload => r_pre f
  | CIfDir a b => if r_in_dir f then ceval_r rd a f else ceval_r rd b f
  | CIfNoTail a b => match r_len f with O => ceval_r rd a f | S _ => ceval_r rd b f end
  end.
