(** C09, round 5 — [Instance.from_entity]: what of the func_instance entity reaches the Instance built from it.
    [instance_from_entity] (Gen/C09Collapse_gen.v): per constructor parameter / attribute stored afterwards, the origin of
    the value ([CTemplate] here = an object of the ENTITY itself or a container of its own objects).  The Instance may
    share nothing with the entity except what is listed as read-only by design (the Output list: collapse_one only reads
    these outputs, Output.combine builds new ones — census of collapse_one); the $fixup values must be copies. *)
From Coq Require Import List String Bool.
From SV Require Import SM.CollapseCensus.
Import ListNotations.

Definition origin_shared (o : corigin) : bool :=
  match o with CTemplate | CTarget | CInst | CLocal => true | _ => false end.

Definition from_entity_shares_only (allowed : list string) (rows : list (string * corigin)) : bool :=
  forallb (fun p => negb (origin_shared (snd p)) || existsb (String.eqb (fst p)) allowed) rows.

Definition from_entity_copies (f : string) (rows : list (string * corigin)) : bool :=
  existsb (fun p => String.eqb (fst p) f && match snd p with CCopy => true | _ => false end) rows &&
  forallb (fun p => negb (String.eqb (fst p) f) || match snd p with CCopy => true | _ => false end) rows.

Lemma from_entity_shares_only_spec : forall allowed rows, from_entity_shares_only allowed rows = true ->
  forall f o, In (f, o) rows -> origin_shared o = true -> In f allowed.
Proof.
  intros allowed rows H f o Hin Hs. unfold from_entity_shares_only in H. rewrite forallb_forall in H.
  specialize (H _ Hin). cbn [fst snd] in H. rewrite Hs in H. cbn [negb orb] in H.
  apply existsb_exists in H. destruct H as (x & Hx & E). apply String.eqb_eq in E. subst x. exact Hx.
Qed.

Lemma from_entity_copies_spec : forall f rows, from_entity_copies f rows = true ->
  (exists o, In (f, o) rows) /\ forall o, In (f, o) rows -> o = CCopy.
Proof.
  intros f rows H. unfold from_entity_copies in H. apply andb_true_iff in H. destruct H as [He Ha]. split.
  - apply existsb_exists in He. destruct He as ([g o] & Hin & E). cbn [fst snd] in E. apply andb_true_iff in E.
    destruct E as [E _]. apply String.eqb_eq in E. subst g. exists o. exact Hin.
  - intros o Hin. rewrite forallb_forall in Ha. specialize (Ha _ Hin). cbn [fst snd] in Ha.
    rewrite String.eqb_refl in Ha. cbn [negb orb] in Ha. destruct o; try discriminate Ha; reflexivity.
Qed.

(** A from_entity that hands the entity's own $fixup table (or its live FixupValues) to the Instance is rejected. *)
Lemma from_entity_shared_fixup_rejected :
  from_entity_shares_only ["outputs"%string] [("outputs"%string, CTemplate); ("fixup"%string, CTemplate)] = false /\
  from_entity_copies "fixup"%string [("outputs"%string, CTemplate); ("fixup"%string, CTemplate)] = false /\
  from_entity_shares_only ["outputs"%string] [("outputs"%string, CTemplate); ("fixup"%string, CCopy)] = true /\
  from_entity_copies "fixup"%string [("outputs"%string, CTemplate); ("fixup"%string, CCopy)] = true.
Proof. vm_compute. repeat split. Qed.
