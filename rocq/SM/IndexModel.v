(** Model of the class/name indexes of [srctools.vmf.VMF] ([by_class], [by_target]) and of every operation that
    maintains them: VMF.__init__/add_ent/add_ents/remove_ent/create_ent/parse/export/search and
    Entity.__init__/__setitem__/__delitem__/pop/popitem/setdefault/update/clear/make_unique/copy (vmf.py).

    This is the model of the REPAIRED maintenance code (the "fix:" commits of property C07).
    Executable definitions only; proofs are in IndexProofs.v / IndexSearchProofs.v.

    Strings are lists of code points.  [str.casefold] is a parameter [fold] of the whole model: nothing below
    depends on what it does, the theorems quantify over it (with the hypotheses that the four literals
    'classname', 'targetname', 'worldspawn' are their own casefold and, for [search], that folding is idempotent).
    The correspondence check instantiates it with ASCII lower-casing ([ascii_fold]). *)
From stdpp Require Import gmap sets list.
From Coq Require Import NArith.

Definition str := list N.
Definition kvs := list (str * str).
Notation eid := nat (only parsing).

(** 'classname', 'targetname', 'worldspawn', 'info_null', 'mapversion' *)
Definition cn : str := [99;108;97;115;115;110;97;109;101]%N.
Definition tn : str := [116;97;114;103;101;116;110;97;109;101]%N.
Definition ws : str := [119;111;114;108;100;115;112;97;119;110]%N.
Definition inull : str := [105;110;102;111;95;110;117;108;108]%N.
Definition mapver : str := [109;97;112;118;101;114;115;105;111;110]%N.

(** ** An index: [defaultdict(CopySet)]; an absent key and an empty set are the same thing to a reader. *)
Section index.
  Context {K : Type} `{Countable K}.
  Definition ix_get (m : gmap K (gset nat)) (k : K) : gset nat := default ∅ (m !! k).
  (** [mapping[k].add(e)] *)
  Definition ix_add (k : K) (e : nat) (m : gmap K (gset nat)) : gmap K (gset nat) :=
    <[k := {[e]} ∪ ix_get m k]> m.
  (** [_remove_copyset(mapping, k, e)]: discard, and drop the set when it became empty. *)
  Definition ix_remove (k : K) (e : nat) (m : gmap K (gset nat)) : gmap K (gset nat) :=
    match m !! k with
    | None => m
    | Some s => let s' := s ∖ {[e]} in if decide (s' = ∅) then delete k m else <[k := s']> m
    end.
End index.

(** [list.remove(x)]: first occurrence only; no error when absent (remove_ent swallows ValueError). *)
Fixpoint remove_first (e : nat) (l : list nat) : list nat :=
  match l with
  | [] => []
  | x :: r => if decide (x = e) then r else x :: remove_first e r
  end.

(** ** State of one VMF. Entity objects are numbered in creation order; [objs] holds the [_keys] dict of
    every Entity object ever constructed with this VMF as its [map] (insertion-ordered key list). *)
Record mstate := MS {
  objs : gmap nat kvs;
  nobj : nat;
  ents : list nat;                         (* VMF.entities; may contain an entity more than once *)
  spawn : nat;                             (* VMF.spawn *)
  by_class : gmap str (gset nat);
  by_target : gmap (option str) (gset nat);
}.

Definition keys_of (st : mstate) (e : nat) : kvs := default [] (objs st !! e).
Definition with_keys (e : nat) (l : kvs) (st : mstate) : mstate :=
  MS (<[e := l]> (objs st)) (nobj st) (ents st) (spawn st) (by_class st) (by_target st).
Definition upd_class (f : gmap str (gset nat) → gmap str (gset nat)) (st : mstate) : mstate :=
  MS (objs st) (nobj st) (ents st) (spawn st) (f (by_class st)) (by_target st).
Definition upd_target (f : gmap (option str) (gset nat) → gmap (option str) (gset nat)) (st : mstate) : mstate :=
  MS (objs st) (nobj st) (ents st) (spawn st) (by_class st) (f (by_target st)).
Definition with_ents (l : list nat) (st : mstate) : mstate :=
  MS (objs st) (nobj st) l (spawn st) (by_class st) (by_target st).

(** [x or None] for strings *)
Definition or_none (s : str) : option str := if decide (s = []) then None else Some s.

(** ** String helpers *)
Definition is_digit (c : N) : bool := ((48 <=? c) && (c <=? 57))%N.
Fixpoint drop_while_digit (l : list N) : list N :=
  match l with
  | [] => []
  | c :: r => if is_digit c then drop_while_digit r else l
  end.
(** [s.rstrip('0123456789')] *)
Definition rstrip_digits (s : str) : str := reverse (drop_while_digit (reverse s)).
(** [str(i)] for a non-negative integer: the decimal digits of the standard library's [N.to_uint] as code points *)
Fixpoint uint_codes (u : Decimal.uint) : list N :=
  match u with
  | Decimal.Nil => []
  | Decimal.D0 r => 48%N :: uint_codes r | Decimal.D1 r => 49%N :: uint_codes r
  | Decimal.D2 r => 50%N :: uint_codes r | Decimal.D3 r => 51%N :: uint_codes r
  | Decimal.D4 r => 52%N :: uint_codes r | Decimal.D5 r => 53%N :: uint_codes r
  | Decimal.D6 r => 54%N :: uint_codes r | Decimal.D7 r => 55%N :: uint_codes r
  | Decimal.D8 r => 56%N :: uint_codes r | Decimal.D9 r => 57%N :: uint_codes r
  end.
Definition dec (n : N) : str := uint_codes (N.to_uint n).
Fixpoint is_prefix (p s : str) : bool :=
  match p, s with
  | [], _ => true
  | a :: p', b :: s' => bool_decide (a = b) && is_prefix p' s'
  | _ :: _, [] => false
  end.
(** [name[-1] == '*'] *)
Definition ends_star (s : str) : bool := match last s with Some 42%N => true | _ => false end.


Section model.
  Variable fold : str → str.

  (** *** The per-entity key list: case-insensitive lookup, first spelling wins. *)
  (** value of the first key [k] with [k.casefold() == kf] (Entity.__getitem__ loop) *)
  Fixpoint kv_find (kf : str) (l : kvs) : option str :=
    match l with
    | [] => None
    | (k, v) :: r => if decide (fold k = kf) then Some v else kv_find kf r
    end.
  (** Entity.__setitem__'s store: overwrite the first key that matches case-insensitively, else append. *)
  Fixpoint kv_set (key v : str) (l : kvs) : kvs :=
    match l with
    | [] => [(key, v)]
    | (k, v0) :: r => if decide (fold k = fold key) then (k, v) :: r else (k, v0) :: kv_set key v r
    end.
  (** Entity.__delitem__'s loop: pop the first matching key. *)
  Fixpoint kv_del (kf : str) (l : kvs) : kvs :=
    match l with
    | [] => []
    | (k, v) :: r => if decide (fold k = kf) then r else (k, v) :: kv_del kf r
    end.

  (** [ent['classname'].casefold()] and [ent['targetname'].casefold() or None] ('' when absent).
      ('classname'.casefold() is identified with 'classname': hypothesis [fold_cn] of the theorems.) *)
  Definition cls_of_keys (l : kvs) : str := fold (default [] (kv_find cn l)).
  Definition tgt_of_keys (l : kvs) : option str := or_none (fold (default [] (kv_find tn l))).

  Definition cls_of (st : mstate) (e : nat) : str := cls_of_keys (keys_of st e).
  Definition tgt_of (st : mstate) (e : nat) : option str := tgt_of_keys (keys_of st e).
  (** [self is self.map.spawn or self in self.map.entities] *)
  Definition in_map (st : mstate) (e : nat) : bool := bool_decide (e = spawn st) || bool_decide (e ∈ ents st).

  (** *** Entity.__setitem__ (error code: 0 none, 1 KeyError, 2 ValueError) *)
  Definition set_item (e : nat) (key v : str) (st : mstate) : mstate * nat :=
    let l := keys_of st e in
    let orig := default [] (kv_find (fold key) l) in          (* orig_val or '' *)
    let st1 := with_keys e (kv_set key v l) st in
    if decide (fold key = cn) then
      let st2 := upd_class (ix_remove (fold orig) e) st1 in
      if decide (e ∈ ents st) then (upd_class (ix_add (fold v) e) st2, 0)
      else if decide (e = spawn st) then
        if decide (fold v = ws) then (upd_class (ix_add ws e) st2, 0)
        else (* self['classname'] = 'worldspawn' (recursive call, which succeeds), then raise ValueError *)
          let st3 := with_keys e (kv_set cn ws (kv_set key v l)) st2 in
          (upd_class (ix_add ws e) (upd_class (ix_remove (fold v) e) st3), 2)
      else (st2, 0)
    else if decide (fold key = tn) then
      let st2 := upd_target (ix_remove (or_none (fold orig)) e) st1 in
      if in_map st e then (upd_target (ix_add (or_none (fold v)) e) st2, 0) else (st2, 0)
    else (st1, 0).

  (** *** Entity.__delitem__ with a single key *)
  Definition del_item (e : nat) (key : str) (st : mstate) : mstate * nat :=
    let kf := fold key in
    let l := keys_of st e in
    let st1 :=
      if decide (kf = tn) then
        let st' := upd_target (ix_remove (tgt_of_keys l) e) st in
        if in_map st e then upd_target (ix_add None e) st' else st'
      else st in
    if decide (kf = cn) then (st1, 1)
    else (with_keys e (kv_del kf l) st1, 0).

  (** [del ent[k1, k2, ...]]: one after the other, the first exception stops it. *)
  Fixpoint del_items (e : nat) (ks : list str) (st : mstate) : mstate * nat :=
    match ks with
    | [] => (st, 0)
    | k :: r => let '(st', er) := del_item e k st in
                match er with 0 => del_items e r st' | _ => (st', er) end
    end.

  (** Entity.pop: [del self[k]] for the stored spelling [k] when a key matches, nothing otherwise. *)
  Definition pop_item (e : nat) (key : str) (st : mstate) : mstate * nat :=
    match kv_find (fold key) (keys_of st e) with
    | Some _ => del_item e key st
    | None => (st, 0)
    end.

  (** MutableMapping.popitem: first key, through __delitem__; KeyError when there is no key. *)
  Definition pop_first (e : nat) (st : mstate) : mstate * nat :=
    match keys_of st e with
    | [] => (st, 1)
    | (k, _) :: _ => del_item e k st
    end.

  (** MutableMapping.update / Entity.__init__'s key loop: __setitem__ for each pair, stops at an exception. *)
  Fixpoint update (e : nat) (l : kvs) (st : mstate) : mstate * nat :=
    match l with
    | [] => (st, 0)
    | (k, v) :: r => let '(st', er) := set_item e k v st in
                     match er with 0 => update e r st' | _ => (st', er) end
    end.

  (** Entity.clear *)
  Definition clear (e : nat) (st : mstate) : mstate * nat :=
    let c := if decide (e = spawn st) then ws else inull in
    let '(st1, er1) := set_item e cn c st in
    match er1 with
    | 0 => let '(st2, er2) := del_item e tn st1 in
           match er2 with
           | 0 => (with_keys e [(cn, c)] st2, 0)
           | _ => (st2, er2)
           end
    | _ => (st1, er1)
    end.

  (** Entity(vmf, keys): a new object that is not in the map. *)
  Definition new_obj (st : mstate) : mstate :=
    MS (<[nobj st := []]> (objs st)) (S (nobj st)) (ents st) (spawn st) (by_class st) (by_target st).
  Definition new_ent (l : kvs) (st : mstate) : mstate := (update (nobj st) l (new_obj st)).1.

  (** VMF.add_ent. Adding the worldspawn object to the entity list, or an object that does not exist, is outside
      the modelled domain (no-op). *)
  Definition add_ent (e : nat) (st : mstate) : mstate :=
    if decide (e = spawn st ∨ nobj st ≤ e) then st else
    let l := keys_of st e in
    MS (objs st) (nobj st) (ents st ++ [e]) (spawn st)
       (ix_add (cls_of_keys l) e (by_class st)) (ix_add (tgt_of_keys l) e (by_target st)).
  (** VMF.add_ents: the list is extended first, then every item is indexed; same final state. *)
  Definition add_ents (es : list nat) (st : mstate) : mstate := foldl (λ s e, add_ent e s) st es.

  (** VMF.remove_ent / Entity.remove *)
  Definition remove_ent (e : nat) (st : mstate) : mstate :=
    let ents' := remove_first e (ents st) in
    let st' := with_ents ents' st in
    if decide (e = spawn st ∨ e ∈ ents') then st'
    else let l := keys_of st e in
         upd_target (ix_remove (tgt_of_keys l) e) (upd_class (ix_remove (cls_of_keys l) e) st').

  (** VMF.create_ent(classname, **kargs) *)
  Definition create_ent (c : str) (l : kvs) (st : mstate) : mstate :=
    add_ent (nobj st) (new_ent (l ++ [(cn, c)]) st).

  (** *** Entity.make_unique *)
  (** the [while True] search for a free numbered name, on explicit fuel (None = fuel exhausted) *)
  Fixpoint free_name (fuel : nat) (i : N) (base : str) (bt : gmap (option str) (gset nat)) : option str :=
    match fuel with
    | O => None
    | S f => let name := base ++ dec i in
             if decide (ix_get bt (Some (fold name)) = ∅) then Some name else free_name f (i + 1)%N base bt
    end.

  Definition make_unique (e : nat) (prefix : str) (st : mstate) : mstate * nat :=
    let orig := default [] (kv_find tn (keys_of st e)) in
    if decide (orig ≠ [] ∧ ix_get (by_target st) (Some (fold orig)) = {[e]}) then (st, 0)
    else
      let '(st1, er1) := if decide (orig = []) then (st, 0) else set_item e tn [] st in
      let base := rstrip_digits (if decide (orig = []) then prefix else orig) in
      if decide (ix_get (by_target st1) (Some (fold base)) = ∅) then set_item e tn base st1
      else match free_name (S (size (by_target st1))) 1 base (by_target st1) with
           | Some name => set_item e tn name st1
           | None => (st1, 9)      (* the Python loop would not have ended; never observed *)
           end.

  (** *** VMF.export: the worldspawn keys it touches *)
  Definition export (ver : str) (st : mstate) : mstate * nat :=
    let '(st1, er1) := set_item (spawn st) mapver ver st in
    let '(st2, er2) := set_item (spawn st) cn ws st1 in
    del_item (spawn st) mapver st2.

  (** *** VMF() and VMF.parse *)
  Definition init : mstate :=
    MS {[ 0 := [(cn, ws)] ]} 1 [] 0 {[ ws := {[ 0 ]} ]} {[ None := {[ 0 ]} ]}.

  (** VMF.parse: build the parsed worldspawn (Entity.parse -> Entity(map, keys), not in the map), drop the
      constructor's placeholder worldspawn from the indexes, make the new one [spawn], force its class, index
      its name. *)
  Definition replace_spawn (l : kvs) (st : mstate) : mstate :=
    let e := nobj st in
    let st2 := new_ent l st in
    let old := spawn st2 in
    let st3 := MS (objs st2) (nobj st2) (ents st2) e
                  (ix_remove ws old (by_class st2)) (ix_remove None old (by_target st2)) in
    let st4 := (set_item e cn ws st3).1 in
    upd_target (ix_add (tgt_of st4 e) e) st4.

  Definition parse_init (spawn_keys : kvs) (ent_keys : list kvs) : mstate :=
    foldl (λ st l, add_ent (nobj st) (new_ent l st)) (replace_spawn spawn_keys init) ent_keys.

  (** *** VMF.search *)
  Definition search (name : str) (st : mstate) : gset nat :=
    if decide (name = []) then ∅ else
    let nm := fold name in
    let named (p : str → bool) : gset nat :=
      ⋃ (map snd (List.filter (λ kv : option str * gset nat, match kv.1 with Some k => p (fold k) | None => false end)
                         (map_to_list (by_target st)))) in
    if ends_star nm then named (is_prefix (removelast nm))
    else named (λ k, bool_decide (k = nm)) ∪ default ∅ (by_class st !! nm).

  (** *** Reading an index: [vmf.by_class[k]] / [vmf.by_target[k]] on a [defaultdict] leaves an empty set behind
      when the key was absent.  No reader can tell the difference ([ix_get]), and the theorems show that nothing
      else can either. *)
  Definition probe {K} `{Countable K} (k : K) (m : gmap K (gset nat)) : gmap K (gset nat) :=
    match m !! k with None => <[k := ∅]> m | Some _ => m end.

  (** *** Operations on one map *)
  Inductive op :=
  | NewEnt (l : kvs)                      (* Entity(vmf, keys) / Entity.parse / the target side of Entity.copy *)
  | CreateEnt (c : str) (l : kvs)
  | AddEnt (e : nat) | AddEnts (es : list nat) | RemoveEnt (e : nat)
  | SetItem (e : nat) (k v : str) | DelItem (e : nat) (k : str) | DelItems (e : nat) (ks : list str)
  | Pop (e : nat) (k : str) | PopItem (e : nat) | SetDefault (e : nat) (k v : str)
  | Update (e : nat) (l : kvs) | Clear (e : nat) | MakeUnique (e : nat) (prefix : str)
  | Export (ver : str)
  | ProbeClass (k : str) | ProbeTarget (k : option str).   (* a reader evaluates vmf.by_class[k] / vmf.by_target[k] *)

  Definition step (o : op) (st : mstate) : mstate * nat :=
    match o with
    | NewEnt l => (new_ent l st, 0)
    | CreateEnt c l => (create_ent c l st, 0)
    | AddEnt e => (add_ent e st, 0)
    | AddEnts es => (add_ents es st, 0)
    | RemoveEnt e => (remove_ent e st, 0)
    | SetItem e k v => set_item e k v st
    | DelItem e k => del_item e k st
    | DelItems e ks => del_items e ks st
    | Pop e k => pop_item e k st
    | PopItem e => pop_first e st
    | SetDefault e k v => (st, 0)          (* Entity.__getitem__ never raises KeyError, so nothing is ever stored *)
    | Update e l => update e l st
    | Clear e => clear e st
    | MakeUnique e p => make_unique e p st
    | Export ver => export ver st
    | ProbeClass k => (upd_class (probe k) st, 0)
    | ProbeTarget k => (upd_target (probe k) st, 0)
    end.

  Definition run (ops : list op) (st : mstate) : mstate := foldl (λ s o, (step o s).1) st ops.

  (** *** Several maps: entities are copied between them *)
  Inductive wop :=
  | WNewMap
  | WParse (spawn_keys : kvs) (ent_keys : list kvs)
  | WCopy (m e m2 : nat)                   (* maps[m].objs[e].copy(vmf_file=maps[m2]) *)
  | WOp (m : nat) (o : op).

  Definition wstep (o : wop) (w : list mstate) : list mstate * nat :=
    match o with
    | WNewMap => (w ++ [init], 0)
    | WParse sk ek => (w ++ [parse_init sk ek], 0)
    | WCopy m e m2 =>
        match w !! m with
        | Some sm => (alter (new_ent (keys_of sm e)) m2 w, 0)
        | None => (w, 0)
        end
    | WOp m o =>
        match w !! m with
        | Some sm => let '(sm', er) := step o sm in (<[m := sm']> w, er)
        | None => (w, 0)
        end
    end.

  Definition wrun (ops : list wop) (w : list mstate) : list mstate := foldl (λ s o, (wstep o s).1) w ops.
End model.


(** ASCII lower-casing: [str.casefold] restricted to the code points the correspondence check uses. *)
Definition ascii_lower (c : N) : N := if ((65 <=? c) && (c <=? 90))%N then (c + 32)%N else c.
Definition ascii_fold (s : str) : str := map ascii_lower s.
