(** Entity.make_unique: the [while True] search for a free numbered name always ends.
    The model runs the loop on fuel [S (size by_target)]; here: that fuel is never exhausted (pigeonhole over the
    names in use — the candidate names [base ++ str(i)] are pairwise distinct even after case folding), the name
    found is the first unused one, and make_unique never reports the "fuel exhausted" code.
    Case folding is abstract: [fold (b ++ str i) = fold b ++ str i] (folding works code point by code point and
    leaves digits alone; true of str.casefold, shown for [ascii_fold]). *)
From stdpp Require Import gmap sets list.
From Coq Require Import NArith DecimalN.
From SV Require Import SM.IndexModel SM.IndexProofs.

Lemma uint_codes_inj u u' : uint_codes u = uint_codes u' → u = u'.
Proof.
  revert u'. induction u as [|u IH|u IH|u IH|u IH|u IH|u IH|u IH|u IH|u IH|u IH]; intros [] H; simpl in H;
    try discriminate; try done; f_equal; apply IH; by injection H.
Qed.

Lemma dec_inj n m : dec n = dec m → n = m.
Proof.
  unfold dec. intros H%uint_codes_inj. apply (f_equal N.of_uint) in H. by rewrite !Unsigned.of_to in H.
Qed.

Section unique.
  Variable fold : str → str.
  Hypothesis fold_app_dec : ∀ b i, fold (b ++ dec i) = fold b ++ dec i.

  Definition cand (base : str) (i : N) (j : nat) : option str := Some (fold (base ++ dec (i + N.of_nat j))).

  Lemma cand_inj base i : Inj (=) (=) (cand base i).
  Proof.
    intros j j' H. unfold cand in H. injection H as H. rewrite !fold_app_dec in H.
    apply app_inv_head, dec_inj in H. lia.
  Qed.

  (** what the loop returns: the first candidate that is not in use; None only if all [fuel] candidates are *)
  Lemma free_name_some fuel i base bt name : free_name fold fuel i base bt = Some name →
    ∃ j, (j < fuel)%nat ∧ name = base ++ dec (i + N.of_nat j) ∧ ix_get bt (cand base i j) = ∅ ∧
         ∀ j', (j' < j)%nat → ix_get bt (cand base i j') ≠ ∅.
  Proof.
    revert i. induction fuel as [|f IH]; intros i; simpl; [done|]. case_decide as Hd.
    - intros [= <-]. exists 0%nat. unfold cand. rewrite N.add_0_r. repeat split; [lia|done|lia].
    - intros (j & Hj & -> & He & Hl)%IH. exists (S j). unfold cand in *.
      replace (i + N.of_nat (S j))%N with (i + 1 + N.of_nat j)%N by lia. repeat split; [lia|done|].
      intros [|j'] Hj'; [by rewrite N.add_0_r|].
      replace (i + N.of_nat (S j'))%N with (i + 1 + N.of_nat j')%N by lia. apply Hl. lia.
  Qed.

  Lemma free_name_none fuel i base bt : free_name fold fuel i base bt = None →
    ∀ j, (j < fuel)%nat → ix_get bt (cand base i j) ≠ ∅.
  Proof.
    revert i. induction fuel as [|f IH]; intros i; simpl; [lia|]. case_decide as Hd; [done|].
    intros Hn [|j] Hj; unfold cand in *; [by rewrite N.add_0_r|].
    replace (i + N.of_nat (S j))%N with (i + 1 + N.of_nat j)%N by lia. apply (IH _ Hn). lia.
  Qed.

  (** Termination: [size by_target + 1] candidates cannot all be in use. *)
  Theorem free_name_total (bt : gmap (option str) (gset nat)) base i :
    is_Some (free_name fold (S (size bt)) i base bt).
  Proof.
    destruct (free_name fold (S (size bt)) i base bt) eqn:E; [eauto|]. exfalso.
    pose proof (free_name_none _ _ _ _ E) as Hused.
    set (ks := cand base i <$> seq 0 (S (size bt))).
    assert (Hnd : NoDup ks) by (apply (NoDup_fmap_2 _ (Inj0 := cand_inj base i)), NoDup_seq).
    assert (Hsub : list_to_set (C := gset (option str)) ks ⊆ dom bt).
    { intros k. rewrite elem_of_list_to_set. unfold ks. rewrite elem_of_list_fmap. intros (j & -> & Hj).
      apply elem_of_seq in Hj. apply elem_of_dom. specialize (Hused j ltac:(lia)).
      unfold ix_get in Hused. destruct (bt !! cand base i j); [eauto|done]. }
    apply subseteq_size in Hsub. rewrite size_list_to_set, size_dom in Hsub by done.
    unfold ks in Hsub. rewrite fmap_length, seq_length in Hsub. lia.
  Qed.

  Hypothesis fold_cn : fold cn = cn.
  Hypothesis fold_tn : fold tn = tn.

  Lemma set_item_tn_err e v st : (set_item fold e tn v st).2 = 0.
  Proof.
    unfold set_item. rewrite fold_tn. rewrite decide_False by (intros H; by apply cn_ne_tn).
    rewrite decide_True by done. by destruct (in_map st e).
  Qed.

  (** make_unique never raises and never runs out of candidates (error code 9 of the model is unreachable) *)
  Theorem make_unique_terminates e p st : (make_unique fold e p st).2 = 0.
  Proof.
    unfold make_unique. case_decide; [done|].
    destruct (if decide (default [] (kv_find fold tn (keys_of st e)) = []) then (st, 0) else set_item fold e tn [] st)
      as [st1 er1].
    case_decide; [apply set_item_tn_err|].
    destruct (free_name_total (by_target st1) (rstrip_digits
      (if decide (default [] (kv_find fold tn (keys_of st e)) = []) then p else default [] (kv_find fold tn (keys_of st e)))) 1)
      as [name ->].
    apply set_item_tn_err.
  Qed.
End unique.

(** the folding hypothesis is satisfiable *)
Lemma uint_codes_digits u : Forall (λ c, (48 ≤ c ≤ 57)%N) (uint_codes u).
Proof. induction u; simpl; constructor; try done; split; by apply N.leb_le. Qed.
Lemma ascii_fold_app_dec b i : ascii_fold (b ++ dec i) = ascii_fold b ++ dec i.
Proof.
  unfold ascii_fold. rewrite map_app. f_equal. unfold dec.
  induction (uint_codes_digits (N.to_uint i)) as [|c l Hc _ IH]; simpl; [done|]. rewrite IH. f_equal.
  unfold ascii_lower. destruct ((65 <=? c) && (c <=? 90))%N eqn:E; [|done].
  apply andb_true_iff in E as [E%N.leb_le _]. lia.
Qed.
