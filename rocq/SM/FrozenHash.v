(** C05 (b) — hash of frozen values (round 4).  translate/c05_sites.py reads, for each of the six concrete classes,
    what [__hash__] is after Python's resolution (a class body that defines [__eq__] without [__hash__] is
    unhashable; [__hash__ = None]; a [def __hash__] whose result is computed from slots of self only and pure
    builtins).  The table is [hash_kinds] in Gen/AngleSites_gen.v.  Definitions only. *)
From Coq Require Import List String Bool Arith.
From SV Require Import SM.FrozenOps.
Import ListNotations.
Open Scope string_scope.

Inductive hkind :=
  | HUnhashable                 (* __hash__ is None *)
  | HSlots (l : list string)    (* a function of exactly these slots of self *)
  | HIdentity                   (* object.__hash__: the identity of the object *)
  | HUnknown.

Definition hash_row : Type := string * hkind.

Definition family_slots (c : string) : list string :=
  let b := base_of c in
  if b =? "VecBase" then ["_x"; "_y"; "_z"]
  else if b =? "AngleBase" then ["_pitch"; "_yaw"; "_roll"]
  else if b =? "MatrixBase" then ["_aa"; "_ab"; "_ac"; "_ba"; "_bb"; "_bc"; "_ca"; "_cb"; "_cc"]
  else [].

Definition subset (a b : list string) : bool := forallb (fun x => existsb (String.eqb x) b) a.

(** What C05 states about hashes is about FROZEN values only (their observable value never changes; a copy is equal to
    its source): a frozen class is either unhashable or hashes ALL of its slots and nothing else (object identity is
    rejected: a pickled copy of a key would not be found).  The property says nothing about the hash of a value that can
    change: rows of the mutable classes pass whatever they are (round 5; see [hash_conventions] below). *)
Definition hash_row_ok (r : hash_row) : bool :=
  if frozen_class (fst r) then
    match snd r with
    | HUnhashable => true
    | HSlots l => subset l (family_slots (fst r)) && subset (family_slots (fst r)) l
    | HIdentity | HUnknown => false
    end
  else true.

Fixpoint lookup (c : string) (rows : list hash_row) : option hkind :=
  match rows with
  | [] => None
  | (c', k) :: r => if c' =? c then Some k else lookup c r
  end.

Definition is_hslots (o : option hkind) : bool := match o with Some (HSlots _) => true | _ => false end.

(** all six classes listed, every row of a frozen class acceptable *)
Definition hash_table_ok (rows : list hash_row) : bool :=
  forallb hash_row_ok rows
  && forallb (fun c => match lookup c rows with Some _ => true | None => false end)
             ["Vec"; "FrozenVec"; "Angle"; "FrozenAngle"; "Matrix"; "FrozenMatrix"].

(** Python conventions that today's source follows but C05 does not state (an OBSERVATION in the evidence of the check, not
    an obligation): a value that can change is unhashable, only frozen classes hash by value, FrozenVec and FrozenAngle are
    usable as dictionary keys. *)
Definition hash_conventions (rows : list hash_row) : bool :=
  forallb (fun r : hash_row => match snd r with HUnhashable => true | HSlots _ => frozen_class (fst r) | HIdentity | HUnknown => false end) rows
  && is_hslots (lookup "FrozenVec" rows) && is_hslots (lookup "FrozenAngle" rows).

Definition bad_hash_rows (rows : list hash_row) : list string := map fst (filter (fun r => negb (hash_row_ok r)) rows).

(** In-place operators (`x += y`, `x @= m` ...).  [inplace_rows] = (defining class, method) of every __iOP__ method found
    in math.py, the exec() templates included.  Python falls back to the binary operator when the class of `x` has no
    in-place method: the name is then rebound to a NEW object.  The census demands that no class a frozen object
    inherits from defines one (the frame theorem already forbids it to write; this says there is none at all). *)
Definition inplace_row : Type := string * string.
Definition inplace_ok (rows : list inplace_row) : bool := forallb (fun r => negb (frozen_reachable (fst r))) rows.
Definition bad_inplace_rows (rows : list inplace_row) : list inplace_row := filter (fun r => frozen_reachable (fst r)) rows.

Section Hash.
  Variables V X H : Type.
  Variable get : V -> string -> X.        (* reading a slot of a value *)
  Variable hf : list X -> H.              (* what the body of __hash__ computes from the slots it reads *)
  Variable ident : nat -> H.              (* object.__hash__ of the object in register i *)

  Definition hash_of (rows : list hash_row) (i : nat) (r : string * V) : option H :=
    match lookup (fst r) rows with
    | Some (HSlots l) => Some (hf (map (get (snd r)) l))
    | Some HIdentity => Some (ident i)
    | _ => None
    end.

  (** two values are the same when every slot of the family reads the same *)
  Definition same_value (c : string) (a b : V) : Prop := forall s, In s (family_slots c) -> get a s = get b s.
End Hash.
