From stdpp Require Import gmap sets list.
From Coq Require Import ZArith Lia.
From SV Require Import SM.IdMan SM.IdManProofs SM.IdNode SM.IdNodeProofs SM.IdNodeMaps.
Open Scope Z_scope.

(** Every map's node world satisfies the single-map invariant. *)
Definition MInv (w : mworld) : Prop := ∀ m, NInv (mmap w m).

Lemma nw0_inv : NInv nw0.
Proof. unfold NInv. simpl. apply good_init. Qed.

Lemma mw0_inv : MInv mw0.
Proof. intros m. unfold mmap. simpl. rewrite lookup_empty. apply nw0_inv. Qed.

Lemma mmap_insert ms d m w' m' :
  mmap {| mmaps := <[m := w']> ms; mdir := d |} m' = if decide (m' = m) then w' else default nw0 (ms !! m').
Proof.
  unfold mmap. simpl. destruct (decide (m' = m)) as [->|Hn]; [by rewrite lookup_insert|by rewrite lookup_insert_ne].
Qed.

Lemma minv_insert w m w' d : MInv w → NInv w' → MInv {| mmaps := <[m := w']> (mmaps w); mdir := d |}.
Proof. intros H H' m'. rewrite mmap_insert. destruct (decide (m' = m)); [done|apply H]. Qed.

Section proofs.
  Variables ra rd : bool.
  Notation mstep_ok := (mstep ra false rd true).

  Lemma mlocal_inv w m e : MInv w → MInv (mlocal ra false rd true w m e).
  Proof. intros H. apply minv_insert; [done|]. apply nstep_inv, H. Qed.

  Lemma mcopy_inv w k m : MInv w → MInv (mcopy ra true w k m).
  Proof.
    intros H. unfold mcopy. destruct (mdir w !! k) as [[ms j]|]; [|done].
    destruct (nents (mmap w ms) !! j) as [o|]; [|done]. destruct (nalive o); [|done].
    apply minv_insert; [done|]. apply ncreate_inv, H.
  Qed.

  Lemma mrewrite_inv w k : MInv w → MInv (mrewrite ra false rd true w k).
  Proof.
    intros H. unfold mrewrite. destruct (mdir w !! k) as [[m j]|]; [|done].
    destruct (nents (mmap w m) !! j) as [o|]; [|done]. destruct (nid o) as [i|]; [|done].
    destruct (get_id i (nman (mmap w m))) as [[r ?]|]; [|done]. by do 2 apply mlocal_inv.
  Qed.

  Lemma mstep_inv w e : MInv w → MInv (mstep_ok w e).
  Proof.
    intros H. destruct e as [m d|k o|k m|m d|ks m]; cbn [mstep].
    - apply minv_insert; [done|]. apply nstep_inv, H.
    - destruct (mdir w !! k) as [[m j]|]; [|done]. by apply mlocal_inv.
    - by apply mcopy_inv.
    - by apply mlocal_inv.
    - assert (H1 : MInv (fold_left (λ w k, mcopy ra true w k m) ks w)).
      { revert w H. induction ks as [|k ks IH]; intros w H; simpl; [done|]. apply IH. by apply mcopy_inv. }
      revert H1. generalize (fold_left (λ w k, mcopy ra true w k m) ks w). intros w1.
      generalize (seq (length (mdir w)) (length (mdir w1) - length (mdir w))). intros l. revert w1.
      induction l as [|k l IH]; intros w1 H1; simpl; [done|]. apply IH. by apply mrewrite_inv.
  Qed.

  Lemma mrun_inv es : MInv (mrun ra false rd true es).
  Proof.
    unfold mrun. generalize mw0_inv. generalize mw0.
    induction es as [|e es IH]; intros w H; simpl; [done|]. apply IH. by apply mstep_inv.
  Qed.
End proofs.

(** Several maps: after every history of construction / parse with any 'nodeid' value in any map, key assignment,
    deletion, removal, re-adding, destruction, copy within and ACROSS maps, reservations by Instance.fixup_key and
    collapse_one of node entities into another map, in every map the node IDs held by existing entities are
    pairwise distinct and positive — when remove_ent does not release and copies register their node ID; for
    either shape of add_ent and of the destructor. *)
Theorem node_maps_ids_nodup_pos ra rd es m : let w := mrun ra false rd true es in
  NoDup (nids (nents (mmap w m))) ∧ (∀ i, i ∈ nids (nents (mmap w m)) → 0 < i).
Proof.
  intros w. destruct (mrun_inv ra rd es m) as (_ & Hnd & Hin). split; [done|].
  intros i Hi. by destruct (Hin _ Hi).
Qed.

(** Without registration a cross-map copy brings the source's ID into a map where it may be taken already. *)
Theorem node_maps_copy_unregistered_refuted :
  let w := mrun false false true false [MCreate 0 (Some 1); MCreate 1 (Some 1); MCopy 0 1] in
  nids (nents (mmap w 1)) = [1; 1].
Proof. vm_compute. done. Qed.

(** collapse_one on the shape of the source: map 1 holds nodes 1, 2, 3; the instance map 0 holds nodes 2 and 7.
    The copies get 4 and 7, the reservations 5 and 6 stay taken (next free ID: 8). *)
Example node_collapse_example :
  let w := mrun false false true true
             [MCreate 1 (Some 1); MCreate 1 (Some 2); MCreate 1 (Some 3); MCreate 0 (Some 2); MCreate 0 (Some 7);
              MCreate 0 None; MCollapse [3; 4; 5]%nat 1] in
  nids (nents (mmap w 1)) = [1; 2; 3; 4; 7] ∧ (fst <$> get_id (-1) (nman (mmap w 1))) = Some 8.
Proof. vm_compute. done. Qed.
