(** The nested dictionaries of [srctools.vpk.VPK]: [_fileinfo[ext][folder][name]] and the clean-up that [VPK.__delitem__] performs
    after removing a file, over a description of that clean-up read from the source (Gen/VpkNested_gen.v, [g_del_prog]).

    [SM/Vpk.v] keeps the files in a flat table and deletes with [adel]; the implementation keeps three levels of dicts and, after
    popping the file, pops the folder dict and the extension dict when they have become empty.  Which dict is tested before which pop
    is what seeded fault c13_3 changed (the second test looked at the files dict again instead of the folders dict, so a whole
    extension disappeared with its last file of one folder).  Here the clean-up is a program [dprog]; its tests can only observe two
    facts (is the files dict empty / has the folders dict entries for other folders), so [prog_safe] decides by complete enumeration of
    those facts whether a program only ever pops empty dicts, and the theorem (VpkNestedProofs.v) says that then the nested delete
    is the flat delete, for every tree.  Dicts are association lists; every operation acts on all entries with the key, so no
    distinctness invariant is needed.  Executable definitions only. *)
From Coq Require Import List NArith Bool.
From SV Require Import Fmt.VpkDir SM.Vpk.
Import ListNotations.
Open Scope N_scope.

(** [not files] / [not folders] (also spelled [len(x) == 0]) and their negations *)
Inductive dtest := TFilesEmpty | TFoldersEmpty | TNot (t : dtest).

(** The statements after [files.pop(filename)], as a tree: what follows an [if] is copied into both branches. *)
Inductive dprog :=
| PEnd
| PPopFolder (k : dprog)              (* folders.pop(path) / del folders[path] *)
| PPopExt (k : dprog)                 (* self._fileinfo.pop(ext) / del self._fileinfo[ext] *)
| PIf (t : dtest) (a b : dprog).

(** [fe]: the files dict is empty (it never changes after the pop of the file, also not when it is detached from the folders dict);
    [oth0]: the folders dict has no entry for another folder; [fp]/[ep]: the folder / the extension has been popped already. *)
Fixpoint teval (t : dtest) (fe oth0 fp : bool) : bool :=
  match t with TFilesEmpty => fe | TFoldersEmpty => oth0 && fp | TNot t' => negb (teval t' fe oth0 fp) end.

(** [None] = KeyError (popping what is not there). *)
Fixpoint outcome (p : dprog) (fe oth0 fp ep : bool) : option (bool * bool) :=
  match p with
  | PEnd => Some (fp, ep)
  | PPopFolder k => if fp then None else outcome k fe oth0 true ep
  | PPopExt k => if ep then None else outcome k fe oth0 fp true
  | PIf t a b => if teval t fe oth0 fp then outcome a fe oth0 fp ep else outcome b fe oth0 fp ep
  end.

(** Complete enumeration of what the tests can see: never a KeyError, the folder is popped only when its files dict is empty, the
    extension only when no folder with files is left in it. *)
Definition safe_at (p : dprog) (fe oth0 : bool) : bool :=
  match outcome p fe oth0 false false with
  | None => false
  | Some (fp, ep) => implb fp fe && implb ep (fe && oth0)
  end.
Definition prog_safe (p : dprog) : bool :=
  safe_at p false false && safe_at p false true && safe_at p true false && safe_at p true true.

(** ... and, not needed for the contents but what the code documents: empty dicts are removed. *)
Definition tidy_at (p : dprog) (fe oth0 : bool) : bool :=
  match outcome p fe oth0 false false with
  | None => false
  | Some (fp, ep) => Bool.eqb fp fe && Bool.eqb ep (fe && oth0)
  end.
Definition prog_tidy (p : dprog) : bool :=
  tidy_at p false false && tidy_at p false true && tidy_at p true false && tidy_at p true true.

(** ---- the nested tree ([VpkDir.tree]: extension -> folder -> name -> info) ---- *)
Definition is_nil {A} (l : list A) : bool := match l with [] => true | _ => false end.

Definition nmem (t : tree) (k : key) : bool :=
  let '(x, p, n) := k in
  existsb (fun e => bytes_eqb (fst e) x &&
    existsb (fun d => bytes_eqb (fst d) p && existsb (fun f => bytes_eqb (fst f) n) (snd d)) (snd e)) t.

Definition rm_name (x p n : bytes) (t : tree) : tree :=
  map (fun e => if bytes_eqb (fst e) x
                then (fst e, map (fun d => if bytes_eqb (fst d) p
                                           then (fst d, filter (fun f => negb (bytes_eqb (fst f) n)) (snd d)) else d) (snd e))
                else e) t.
Definition files_empty (x p : bytes) (t : tree) : bool :=
  forallb (fun e => if bytes_eqb (fst e) x
                    then forallb (fun d => if bytes_eqb (fst d) p then is_nil (snd d) else true) (snd e) else true) t.
Definition others_none (x p : bytes) (t : tree) : bool :=
  forallb (fun e => if bytes_eqb (fst e) x then forallb (fun d => bytes_eqb (fst d) p) (snd e) else true) t.
Definition pop_folder (x p : bytes) (t : tree) : tree :=
  map (fun e => if bytes_eqb (fst e) x then (fst e, filter (fun d => negb (bytes_eqb (fst d) p)) (snd e)) else e) t.
Definition pop_ext (x : bytes) (t : tree) : tree := filter (fun e => negb (bytes_eqb (fst e) x)) t.

(** [VPK.__delitem__] on the nested dicts; [None] = KeyError. *)
Definition ndel (prog : dprog) (t : tree) (k : key) : option tree :=
  let '(x, p, n) := k in
  if nmem t k then
    let t1 := rm_name x p n t in
    match outcome prog (files_empty x p t1) (others_none x p t1) false false with
    | None => None
    | Some (fp, ep) =>
        let t2 := if fp then pop_folder x p t1 else t1 in
        Some (if ep then pop_ext x t2 else t2)
    end
  else None.

(** vpk.py as pinned: [if not files: folders.pop(path); if not folders: self._fileinfo.pop(ext)] *)
Definition del_prog_pinned : dprog := PIf TFilesEmpty (PPopFolder (PIf TFoldersEmpty (PPopExt PEnd) PEnd)) PEnd.
(** seeded fault c13_3: [if files: return] / [folders.pop(path)] / [if not files: self._fileinfo.pop(ext)] *)
Definition del_prog_c13_3 : dprog := PIf (TNot TFilesEmpty) PEnd (PPopFolder (PIf TFilesEmpty (PPopExt PEnd) PEnd)).

(** For the correspondence (checks/c13.py): the flat contents after a sequence of deletes. *)
Fixpoint ndel_all (prog : dprog) (t : tree) (ks : list key) : list bool * tree :=
  match ks with
  | [] => ([], t)
  | k :: r => match ndel prog t k with
              | None => let '(l, t') := ndel_all prog t r in (false :: l, t')
              | Some t1 => let '(l, t') := ndel_all prog t1 r in (true :: l, t')
              end
  end.
