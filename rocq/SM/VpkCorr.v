(** Helpers for running the VPK model against the implementation (correspondence, checks/c13.py).
    Nothing here is used by a theorem. *)
From Coq Require Import List NArith ZArith Bool Uint63.
From SV Require Import Fmt.VpkDir Fmt.VpkDirV2 SM.Vpk Fmt.VpkArchName Fmt.VpkNullStr.
Import ListNotations.
Open Scope N_scope.

(** Deterministic test data, the same formula as checks/c13.py [gen_data]; on primitive 63-bit integers
    because it is evaluated for several hundred KiB per run. *)
Fixpoint gen_from (fuel : nat) (s i : int) : bytes :=
  match fuel with
  | O => []
  | S f => Z.to_N (to_Z ((s * 31 + i * 7 + (i >> 8) * 13 + s * i) mod 251)%uint63) :: gen_from f s (i + 1)%uint63
  end.
Definition gen (s n : N) : bytes := gen_from (N.to_nat n) (of_Z (Z.of_N s)) 0%uint63.

(** CRC-32 on primitive integers (same algorithm as [Vpk.crc32], which is kept as the readable reference). *)
Definition fstep (c : int) : int := (if (c land 1 =? 1) then (c >> 1) lxor 3988292384 else c >> 1)%uint63.
Definition fbyte (c : int) (b : N) : int :=
  let c := (c lxor (of_Z (Z.of_N b)))%uint63 in fstep (fstep (fstep (fstep (fstep (fstep (fstep (fstep c))))))).
Definition fcrc32 (d : bytes) : N := Z.to_N (to_Z ((fold_left fbyte d 4294967295) lxor 4294967295)%uint63).
Example fcrc32_check : fcrc32 [49;50;51;52;53;54;55;56;57] = 3421780262 /\ crc32 (gen 5 300) = fcrc32 (gen 5 300).
Proof. vm_compute. split; reflexivity. Qed.

Fixpoint nlist_eqb (a b : list N) : bool :=
  match a, b with [], [] => true | x :: a', y :: b' => (x =? y) && nlist_eqb a' b' | _, _ => false end.

(** digest of a byte string: (length, crc32) *)
Definition dg (b : bytes) : N * N := (len b, fcrc32 b).
Definition dg_eqb (a b : N * N) : bool := (fst a =? fst b) && (snd a =? snd b).

(** per-file observation: key -> (digest of read(), verify()) *)
Definition obs_t := (key * ((N * N) * bool))%type.
Definition model_obs (cf : vcfg) (st : vstate) : list obs_t :=
  map (fun e => (fst e, (dg (fst (snd e)), snd (snd e)))) (observe fcrc32 st).
Definition obs_match (ex md : list obs_t) : bool :=
  Nat.eqb (length ex) (length md) &&
  forallb (fun e => match alookup (fst e) md with
                    | Some (d, v) => dg_eqb d (fst (snd e)) && Bool.eqb v (snd (snd e))
                    | None => false end) ex.

(** per-operation trace: result code, number of files, sum of content digests mod 2^32, all verify *)
Definition summary (cf : vcfg) (st : vstate) : list N :=
  let o := model_obs cf st in
  [N.of_nat (length o);
   fold_left (fun a e => (a + fst (fst (snd e)) + snd (fst (snd e))) mod 4294967296) o 0;
   if forallb (fun e => snd (snd e)) o then 1 else 0].
Fixpoint trace (cf : vcfg) (st : vstate) (ops : list op) : option (vstate * list N) :=
  match ops with
  | [] => Some (st, [])
  | o :: r => match step fcrc32 cf st o with
              | None => None
              | Some (st', c) => match trace cf st' r with
                                 | None => None
                                 | Some (st'', t) => Some (st'', c :: summary cf st' ++ t) end
              end
  end.

Definition archs_match (ex : list (N * (N * N))) (st : vstate) : bool :=
  Nat.eqb (length ex) (length (archs st)) &&
  forallb (fun e => dg_eqb (dg (arch_get (fst e) (archs st))) (snd e)) ex.

(** 0 = model and implementation agree; otherwise the first aspect that differs. *)
Definition check_case (cf : vcfg) (ops : list op) (tr : list N) (fin : list obs_t) (dsk : N * N)
           (ars : list (N * (N * N))) : N :=
  match trace cf (init) ops with
  | None => 1
  | Some (st, t) =>
      if negb (nlist_eqb t tr) then 2
      else if negb (obs_match fin (model_obs cf st)) then 3
      else if negb (dg_eqb (dg (disk st)) dsk) then 4
      else if negb (archs_match ars st) then 5
      else 0
  end.

(** Independent decode: the model decoder applied to the bytes the implementation wrote.
    Expected: the FileInfo fields the implementation itself loaded, and its footer. *)
Definition ent_t := (key * (N * (N * N) * option N * N * N))%type.   (* crc, digest of preload, index, offset, arch_len *)
Definition ent_of (e : key * info) : ent_t :=
  (fst e, (icrc (snd e), dg (ipre (snd e)), iidx (snd e), ioff (snd e), ilen (snd e))).
Definition oN_eqb (a b : option N) : bool :=
  match a, b with None, None => true | Some x, Some y => x =? y | _, _ => false end.
Definition ent_match (ex : list ent_t) (md : list (key * info)) : bool :=
  Nat.eqb (length ex) (length md) &&
  forallb (fun e => match alookup (fst e) md with
                    | Some i => let '(c, p, x, o, l) := snd e in
                                (icrc i =? c) && dg_eqb (dg (ipre i)) p && oN_eqb (iidx i) x && (ioff i =? o) && (ilen i =? l)
                    | None => false end) ex.
Definition check_decode (dc : dcfg) (file : bytes) (ex : option (list ent_t * (N * N))) : bool :=
  match dec_file dc file, ex with
  | None, None => true
  | Some (es, f), Some (xs, fd) => ent_match xs (load_table es) && dg_eqb (dg f) fd
  | _, _ => false
  end.

Definition entry_widths_expected : list N := [4; 2; 2; 4; 4; 2].

Fixpoint bad_idx {A} (f : A -> bool) (n : N) (l : list A) : list N :=
  match l with [] => [] | x :: r => (if f x then [] else [n]) ++ bad_idx f (n + 1) r end.

(** Archive naming: the model's [_dir_prefix] and per-index names of the write / read / verify sites against the names the
    implementation's sites really open. *)
Definition oB_eqb (a b : option bytes) : bool :=
  match a, b with None, None => true | Some x, Some y => bytes_eqb x y | _, _ => false end.
Fixpoint list_eqb {A} (f : A -> A -> bool) (a b : list A) : bool :=
  match a, b with [], [] => true | x :: a', y :: b' => f x y && list_eqb f a' b' | _, _ => false end.
Definition check_archname (c : ncfg) (f : bytes) (idxs : list N) (ex : option bytes * list (list (option bytes))) : bool :=
  let '(dp, names) := obs_name c f idxs in
  oB_eqb dp (fst ex) && list_eqb (list_eqb oB_eqb) names (snd ex).

(** The same for both header versions: (VPK.version, entries, footer). *)
Definition check_decode_v (dc : dcfg) (file : bytes) (ex : option (N * list ent_t * (N * N))) : bool :=
  match dec_file_v dc file, ex with
  | None, None => true
  | Some (v, es, f), Some (xv, xs, fd) => (v =? xv) && ent_match xs (load_table es) && dg_eqb (dg f) fd
  | _, _ => false
  end.

(** run-length literal used by checks/c13.py for long names and streams *)
Definition nrep (x n : N) : bytes := repeat x (N.to_nat n).

(** iter_nullstr on a byte stream: the strings it yields as (length, crc32) digests and the number of bytes left, or that it raises. *)
Fixpoint dgs_eqb (a : list bytes) (b : list (N * N)) : bool :=
  match a, b with [], [] => true | x :: a', y :: b' => dg_eqb (dg x) y && dgs_eqb a' b' | _, _ => false end.
Definition check_nullstr_dg (k : ncodec) (bs : bytes) (ex : option (list (N * N) * N)) : bool :=
  match iter_nullstr_k k bs, ex with
  | None, None => true
  | Some (l, r), Some (l', n) => dgs_eqb l l' && (len r =? n)
  | _, _ => false
  end.

(** VPK.__delitem__ on the nested dicts (SM/VpkNested.v): which deletes succeed and the key structure left, in dict order. *)
From SV Require Import SM.VpkNested.
Definition shape_t := list (bytes * list (bytes * list bytes)).
Definition tree_shape (t : tree) : shape_t := map (fun e => (fst e, map (fun d => (fst d, map fst (snd d))) (snd e))) t.
Definition shape_tree (s : shape_t) : tree :=
  map (fun e => (fst e, map (fun d => (fst d, map (fun n => (n, mkInfo 0 [] None 0 0)) (snd d))) (snd e))) s.
Fixpoint blist_eqb' (a b : list bytes) : bool :=
  match a, b with [], [] => true | x :: a', y :: b' => bytes_eqb x y && blist_eqb' a' b' | _, _ => false end.
Fixpoint dshape_eqb (a b : list (bytes * list bytes)) : bool :=
  match a, b with [], [] => true | (x, l) :: a', (y, m) :: b' => bytes_eqb x y && blist_eqb' l m && dshape_eqb a' b' | _, _ => false end.
Fixpoint shape_eqb (a b : shape_t) : bool :=
  match a, b with [], [] => true | (x, l) :: a', (y, m) :: b' => bytes_eqb x y && dshape_eqb l m && shape_eqb a' b' | _, _ => false end.
Fixpoint bools_eqb (a b : list bool) : bool :=
  match a, b with [], [] => true | x :: a', y :: b' => Bool.eqb x y && bools_eqb a' b' | _, _ => false end.
Definition check_ndel (prog : dprog) (s : shape_t) (ks : list key) (oks : list bool) (after : shape_t) : bool :=
  let '(l, t) := ndel_all prog (shape_tree s) ks in bools_eqb l oks && shape_eqb (tree_shape t) after.

(** Extended histories (SM/VpkApi.v): the same comparison as [check_case] over [xstep] and the translated __exit__ table. *)
From SV Require Import SM.VpkApi.
Fixpoint xtrace (et : list exit_row) (cf : vcfg) (st : vstate) (xs : list xop) : option (vstate * list N) :=
  match xs with
  | [] => Some (st, [])
  | x :: r => match xstep et fcrc32 cf st x with
              | None => None
              | Some (st', c) => match xtrace et cf st' r with
                                 | None => None
                                 | Some (st'', t) => Some (st'', c :: summary cf st' ++ t) end
              end
  end.
Definition check_xcase (et : list exit_row) (cf : vcfg) (xs : list xop) (tr : list N) (fin : list obs_t) (dsk : N * N)
           (ars : list (N * (N * N))) : N :=
  match xtrace et cf (init) xs with
  | None => 1
  | Some (st, t) =>
      if negb (nlist_eqb t tr) then 2
      else if negb (obs_match fin (model_obs cf st)) then 3
      else if negb (dg_eqb (dg (disk st)) dsk) then 4
      else if negb (archs_match ars st) then 5
      else 0
  end.

(** new_file / del sequences on the nested dicts from an empty archive (SM/VpkNestedMap.v [nrun] over the translated descriptions), the
    key structure left, and membership of probe names. *)
From SV Require Import SM.VpkNestedMap.
Definition check_nrun (g1 g2 : goc) (chk : bool) (prog : dprog) (ops : list nop) (oks : list bool) (after : shape_t)
           (probes : list (key * bool)) : bool :=
  let '(l, t) := nrun g1 g2 chk prog [] ops in
  bools_eqb l oks && shape_eqb (tree_shape t) after
  && forallb (fun pb => Bool.eqb (match nlookup t (fst pb) with Some _ => true | None => false end) (snd pb)) probes.

(** The same through the program compiled from load_dirfile (Fmt/VpkDirRead.v [rexec] over Gen/VpkDirProg_gen.v [g_rprog]). *)
From SV Require Import Fmt.VpkDirProg Fmt.VpkDirRead.
Definition check_decode_p (dc : dcfg) (p : rprog) (file : bytes) (ex : option (N * list ent_t * (N * N))) : bool :=
  match rexec dc p file, ex with
  | None, None => true
  | Some (v, es, f), Some (xv, xs, fd) => (v =? xv) && ent_match xs (load_table es) && dg_eqb (dg f) fd
  | _, _ => false
  end.

(** Plain histories (no with-blocks, no load_dirfile() on the same object) through the machine assembled from the generated objects
    (SM/VpkGenMachine.v [gstep]: FileInfo.write from the placement table, write_dirfile / reopen as the translated programs). *)
From SV Require Import SM.VpkPlace SM.VpkPlaceTable SM.VpkGenMachine.
Fixpoint gtrace (pt : list prow) (wp : wprog) (rp : rprog) (cf : vcfg) (st : vstate) (ops : list op) : option (vstate * list N) :=
  match ops with
  | [] => Some (st, [])
  | o :: r => match gstep pt wp rp fcrc32 cf st o with
              | None => None
              | Some (st', c) => match gtrace pt wp rp cf st' r with
                                 | None => None
                                 | Some (st'', t) => Some (st'', c :: summary cf st' ++ t) end
              end
  end.
Definition check_gcase (pt : list prow) (wp : wprog) (rp : rprog) (cf : vcfg) (ops : list op) (tr : list N) (fin : list obs_t) (dsk : N * N)
           (ars : list (N * (N * N))) : N :=
  match gtrace pt wp rp cf (init) ops with
  | None => 1
  | Some (st, t) =>
      if negb (nlist_eqb t tr) then 2
      else if negb (obs_match fin (model_obs cf st)) then 3
      else if negb (dg_eqb (dg (disk st)) dsk) then 4
      else if negb (archs_match ars st) then 5
      else 0
  end.
