From stdpp Require Import gmap sets list.
From Coq Require Import ZArith Lia.
From SV Require Import SM.IdMan SM.IdManProofs SM.IdLifeProofs SM.IdWorld SM.IdWorldProofs SM.IdNest.
Open Scope Z_scope.

(** What one single-kind world needs for the uniqueness statement: the allocator-level invariant, and every
    object listed in the map that issued its ID. *)
Definition Good (w : wworld) : Prop := WInv w ∧ Homed w.

Lemma good0 : Good ww0.
Proof. split; [apply ww0_inv|constructor]. Qed.

Lemma good_run es w : Good w → Good (wrun_from false true w es).
Proof. intros [H1 H2]. split; [by apply wrun_from_inv|by apply wrun_from_homed]. Qed.

Lemma good_unique m w : Good w →
  NoDup (live_ids_in m w) ∧ (∀ i, i ∈ live_ids_in m w → 0 < i).
Proof.
  intros [(_ & Hnd & Hin) Hh]. split; [by apply keys_to_ids|].
  apply ids_pos. intros m' i H. by destruct (Hin _ _ H).
Qed.

Definition TGood (w : tworld) : Prop := Good (tE w) ∧ Good (tS w) ∧ Good (tF w).

Notation tstep_ok := (tstep false false false true true true).
Notation trun_ok := (trun false false false true true true).

Lemma tapply_good w a b c tops : TGood w → TGood (tapply false false false true true true w a b c tops).
Proof. intros (H1 & H2 & H3). split; [|split]; simpl; by apply good_run. Qed.

Lemma tparts_good mk w t : TGood w → TGood (tparts false false false true true true mk w t).
Proof. intros H. unfold tparts. destruct (ttops w !! t); [by apply tapply_good|done]. Qed.

Lemma tstep_good w e : TGood w → TGood (tstep_ok w e).
Proof.
  intros H. destruct e as [m d sds|m sd|t m d ex|t|t|t]; cbn [tstep].
  - destruct (new_solids _ _ _ _) as [[eS eF] parts]. by apply tapply_good.
  - destruct (new_solids _ _ _ _) as [[eS eF] parts]. by apply tapply_good.
  - destruct (ttops w !! t) as [top|]; [|done].
    destruct (copy_solids _ _ _ _ _ _ _) as [[eS eF] parts]. by apply tapply_good.
  - by apply tparts_good.
  - by apply tparts_good.
  - by apply tparts_good.
Qed.

Lemma trun_good es : TGood (trun_ok es).
Proof.
  unfold trun. assert (H0 : TGood tw0) by (split; [|split]; apply good0).
  revert H0. generalize tw0. induction es as [|e es IH]; intros w H; simpl; [done|].
  apply IH. by apply tstep_good.
Qed.

(** Entities, their brushes and the faces of those, as one world: after every history of bundled events on
    top-level objects, in every map the existing entities have pairwise distinct positive IDs, and so have the
    existing brushes (world brushes and brushes of entities together), and so have the existing faces. *)
Theorem trun_unique es m : let w := trun_ok es in
  (NoDup (live_ids_in m (tE w)) ∧ ∀ i, i ∈ live_ids_in m (tE w) → 0 < i) ∧
  (NoDup (live_ids_in m (tS w)) ∧ ∀ i, i ∈ live_ids_in m (tS w) → 0 < i) ∧
  (NoDup (live_ids_in m (tF w)) ∧ ∀ i, i ∈ live_ids_in m (tF w) → 0 < i).
Proof. intros w. destruct (trun_good es) as (H1 & H2 & H3). split; [|split]; by apply good_unique. Qed.

(** The seeded fault "Entity.copy does not pass the map down to Solid.copy" in this model: entity copies allocate
    in the destination map, brush and face copies do not.  Two world brushes in map 1, a brush entity in map 0,
    copied into map 1: brushes 1, 2, 2 and faces 1, 2, 2 in map 1. *)
Definition nested_copy_history : list tev :=
  [TCreateBrush 1 (-1, [-1]); TCreateBrush 1 (-1, [-1]); TCreateEnt 0 (-1) [(-1, [-1])]; TCopy 2 1 (-1) true].
Theorem nested_copy_from_source_refuted :
  let w := trun false false false true false false nested_copy_history in
  live_ids_in 1 (tE w) = [1] ∧ live_ids_in 1 (tS w) = [1; 2; 2] ∧ live_ids_in 1 (tF w) = [1; 2; 2].
Proof. vm_compute. done. Qed.
(** ... and the same history on the source's shape. *)
Example nested_copy_history_ok :
  let w := trun_ok nested_copy_history in
  live_ids_in 1 (tE w) = [1] ∧ live_ids_in 1 (tS w) = [1; 2; 3] ∧ live_ids_in 1 (tF w) = [1; 2; 3] ∧
  ttops w !! 3%nat = Some {| tt_ent := Some 1%nat; tt_solids := [(3%nat, [3%nat])] |}.
Proof. vm_compute. done. Qed.
