From stdpp Require Import gmap sets list.
From Coq Require Import ZArith Lia.
From SV Require Import SM.IdMan SM.IdManProofs SM.IdLifeProofs SM.IdWorld SM.IdWorldProofs SM.IdNest.
Open Scope Z_scope.

(** What one single-kind world needs for the uniqueness statement: the allocator-level invariant, and every
    object listed in the map that issued its ID. *)
Definition Good (w : wworld) : Prop := WInv w ∧ Homed w.

Lemma good0 : Good ww0.
Proof. split; [apply ww0_inv|constructor]. Qed.

Lemma good_run es w : Good w → Good (wrun_from false true w es).
Proof. intros [H1 H2]. split; [by apply wrun_from_inv|by apply wrun_from_homed]. Qed.

Lemma good_unique m w : Good w →
  NoDup (live_ids_in m w) ∧ (∀ i, i ∈ live_ids_in m w → 0 < i).
Proof.
  intros [(_ & Hnd & Hin) Hh]. split; [by apply keys_to_ids|].
  apply ids_pos. intros m' i H. by destruct (Hin _ _ H).
Qed.

Definition TGood (w : tworld) : Prop := Good (tE w) ∧ Good (tS w) ∧ Good (tF w).

Notation tstep_ok := (tstep false false false true true true).
Notation trun_ok := (trun false false false true true true).
(** The steps of [VMF.parse] in the pinned tree (the generated [parse_program] is compared with this by an Example
    in Props/C08.v; the theorems hold for EVERY program without an explicit release). *)
Definition prog_std : list pstep := [PPlaceholder; PWorld; PDropPlaceholder; PEntities].

Lemma tapply_good w a b c tops order : TGood w → TGood (tapply false false false true true true w a b c tops order).
Proof. intros (H1 & H2 & H3). split; [|split]; simpl; by apply good_run. Qed.

Lemma tparts_good mk w top tops order : TGood w → TGood (tparts false false false true true true mk w top tops order).
Proof. intros H. by apply tapply_good. Qed.

Lemma tcreate_good w m ent sds listed : TGood w → TGood (tcreate false false false true true true w m ent sds listed).
Proof.
  intros H. unfold tcreate. destruct (new_solids _ _ _ _) as [[eS eF] parts].
  destruct (tnew _ _) as [tops order]. by apply tapply_good.
Qed.

Lemma tcopy_good w t m d ex kp : TGood w → TGood (tcopy false false false true true true w t m d ex kp).
Proof.
  intros H. unfold tcopy. destruct (ttops w !! t) as [top|]; [|done].
  destruct (copy_solids _ _ _ _ _ _ _) as [[eS eF] parts]. destruct (tnew _ _) as [tops order]. by apply tapply_good.
Qed.

Lemma fold_tcopy_good m kp ts : ∀ w, TGood w →
  TGood (fold_left (λ w t, tcopy false false false true true true w t m (-1) true kp) ts w).
Proof. induction ts as [|t ts IH]; intros w H; simpl; [done|]. apply IH. by apply tcopy_good. Qed.

Lemma thide_good w t b : TGood w → TGood (thide false false false true true true w t b).
Proof. intros H. unfold thide. destruct (ttops w !! t) as [top|]; [|done]. by apply tapply_good. Qed.

Lemma tcreate_h_good w m ent sds listed hidden : TGood w →
  TGood (tcreate_h false false false true true true w m ent sds listed hidden).
Proof.
  intros H. unfold tcreate_h. destruct hidden; [apply thide_good|]; by apply tcreate_good.
Qed.

Lemma tdestroy_good w t : TGood w → TGood (tdestroy false false false true true true w t).
Proof.
  intros H. unfold tdestroy. destruct (ttops w !! t) as [top|]; [|done].
  destruct (tt_listed top); [done|by apply tparts_good].
Qed.

(** Every step of [VMF.parse] other than an explicit release keeps the invariants of the three worlds. *)
Lemma pstep_run_good m d st p : pstep_ok p = true → TGood st.1 →
  TGood (pstep_run false false false true true true m d st p).1.
Proof.
  destruct st as [w ph]. intros Hp H. destruct p; simpl in *; try done.
  - by apply tcreate_good.
  - apply tcreate_good. revert w H. induction (pd_brushes d) as [|b l IH]; intros w H; simpl; [done|].
    apply IH. by apply tcreate_h_good.
  - destruct ph as [t|]; simpl; [by apply tdestroy_good|done].
  - revert w H. induction (pd_ents d) as [|e l IH]; intros w H; simpl; [done|].
    apply IH. by apply tcreate_h_good.
Qed.

Lemma tparse_good prog w m d : prog_ok prog = true → TGood w → TGood (tparse false false false true true true prog w m d).
Proof.
  unfold tparse, prog_ok. intros Hp H.
  assert (Hst : TGood (w, @None nat).1) by done. revert Hp Hst. generalize (w, @None nat).
  induction prog as [|p prog IH]; intros st Hp Hst; simpl; [done|].
  simpl in Hp. apply andb_prop in Hp as [Hp1 Hp2]. apply IH; [done|]. by apply pstep_run_good.
Qed.

Lemma tstep_good prog w e : prog_ok prog = true → TGood w → TGood (tstep_ok prog w e).
Proof.
  intros Hp H. destruct e as [m d sds|m sd|t m d ex|t|t|t|m|t b|s m kp|m doc]; cbn [tstep].
  - by apply tcreate_good.
  - by apply tcreate_good.
  - by apply tcopy_good.
  - destruct (ttops w !! t) as [top|]; [|done]. destruct (tt_listed top); [by apply tparts_good|done].
  - destruct (ttops w !! t) as [top|]; [|done]. destruct (tt_listed top); [done|by apply tparts_good].
  - by apply tdestroy_good.
  - by apply tcreate_good.
  - by apply thide_good.
  - destruct (decide (s = m)); [done|]. by apply fold_tcopy_good.
  - by apply tparse_good.
Qed.

Lemma trun_good prog es : prog_ok prog = true → TGood (trun_ok prog es).
Proof.
  intros Hp. unfold trun. assert (H0 : TGood tw0) by (split; [|split]; apply good0).
  revert H0. generalize tw0. induction es as [|e es IH]; intros w H; simpl; [done|].
  apply IH. by apply tstep_good.
Qed.

(** Entities, their brushes and the faces of those, as one world: after every history of bundled events on
    top-level objects, in every map the existing entities have pairwise distinct positive IDs, and so have the
    existing brushes (world brushes and brushes of entities together), and so have the existing faces. *)
Theorem trun_unique prog es m : prog_ok prog = true → let w := trun_ok prog es in
  (NoDup (live_ids_in m (tE w)) ∧ ∀ i, i ∈ live_ids_in m (tE w) → 0 < i) ∧
  (NoDup (live_ids_in m (tS w)) ∧ ∀ i, i ∈ live_ids_in m (tS w) → 0 < i) ∧
  (NoDup (live_ids_in m (tF w)) ∧ ∀ i, i ∈ live_ids_in m (tF w) → 0 < i).
Proof. intros Hp w. destruct (trun_good prog es Hp) as (H1 & H2 & H3). split; [|split]; by apply good_unique. Qed.

(** The seeded fault "Entity.copy does not pass the map down to Solid.copy" in this model: entity copies allocate
    in the destination map, brush and face copies do not.  Two world brushes in map 1, a brush entity in map 0,
    copied into map 1: brushes 1, 2, 2 and faces 1, 2, 2 in map 1. *)
Definition nested_copy_history : list tev :=
  [TCreateBrush 1 (-1, [-1]); TCreateBrush 1 (-1, [-1]); TCreateEnt 0 (-1) [(-1, [-1])]; TCopy 2 1 (-1) true].
Theorem nested_copy_from_source_refuted :
  let w := trun false false false true false false prog_std nested_copy_history in
  live_ids_in 1 (tE w) = [1] ∧ live_ids_in 1 (tS w) = [1; 2; 2] ∧ live_ids_in 1 (tF w) = [1; 2; 2].
Proof. vm_compute. done. Qed.
(** ... and the same history on the source's shape. *)
Example nested_copy_history_ok :
  let w := trun_ok prog_std nested_copy_history in
  live_ids_in 1 (tE w) = [1] ∧ live_ids_in 1 (tS w) = [1; 2; 3] ∧ live_ids_in 1 (tF w) = [1; 2; 3] ∧
  ttops w !! 3%nat = Some {| tt_ent := Some 1%nat; tt_solids := [(3%nat, [3%nat])]; tt_home := 1%nat; tt_listed := true; tt_hidden := false |}.
Proof. vm_compute. done. Qed.

(** [collapse_one] is the fold of the copies of the source map's listed world brushes, then entities. *)
Lemma tcollapse_is_copies r1 r2 r3 c1 c2 c3 pg w s m : s ≠ m →
  tstep r1 r2 r3 c1 c2 c3 pg w (TCollapse s m true) =
  fold_left (tstep r1 r2 r3 c1 c2 c3 pg) ((λ t, TCopy t m (-1) true) <$> tcollapse_sources w s true) w.
Proof.
  intros Hn. cbn [tstep]. destruct (decide (s = m)); [done|].
  generalize (tcollapse_sources w s true). intros l. revert w.
  induction l as [|t l IH]; intros w; simpl; [done|]. apply IH.
Qed.

(** A removed object is not collapsed, a re-added one goes to the end of its map's list: map 0 holds brush A, an
    entity, brush B; A is removed and re-added; the collapse into map 1 copies B, A, then the entity. *)
Example collapse_order :
  let w := trun_ok prog_std [TCreateSpawn 0; TCreateSpawn 1; TCreateBrush 0 (7, [-1]); TCreateEnt 0 (-1) [];
                    TCreateBrush 0 (9, [-1]); TRemove 2; TReAdd 2; TCollapse 0 1 false] in
  torder w = [3; 4; 2; 5; 6; 7]%nat ∧ live_ids_in 1 (tS w) = [1; 2] ∧ live_ids_in 1 (tE w) = [1; 2] ∧
  (tt_solids <$> ttops w !! 5%nat) = Some [(2%nat, [2%nat])] ∧ (tt_solids <$> ttops w !! 6%nat) = Some [(3%nat, [3%nat])].
Proof. vm_compute. done. Qed.

(** Hidden objects: a hidden brush is never collapsed; a hidden entity only when visgroups are kept, and its copy is
    hidden then. *)
Example collapse_hidden :
  let h := [TCreateSpawn 0; TCreateSpawn 1; TCreateBrush 0 (-1, [-1]); TCreateBrush 0 (-1, [-1]); TCreateEnt 0 (-1) [];
            THide 2 true; THide 4 true] in
  tcollapse_sources (trun_ok prog_std h) 0 false = [3]%nat ∧ tcollapse_sources (trun_ok prog_std h) 0 true = [3; 4]%nat ∧
  (tt_hidden <$> ttops (trun_ok prog_std (h ++ [TCollapse 0 1 true])) !! 6%nat) = Some true.
Proof. vm_compute. done. Qed.

(** Round 4.  [VMF.parse] as an event.  A Hammer-saved document (world block with id 1, one entity with id 2, one
    without an id): the placeholder takes 1, so the parsed worldspawn is renumbered to 2; the placeholder dies when
    [map.spawn] is re-bound, so entity "2" is renumbered to 1 and the entity without an id gets 3.  An entity created
    afterwards gets 4.  Top-level objects: 0 = placeholder, 1 = worldspawn, 2.. = entities. *)
Definition hammer_doc : pdoc := {| pd_world := 1; pd_brushes := [(false, (1, [1; 2]))]; pd_ents := [(false, (2, [])); (false, (-1, []))] |}.
Example parse_hammer_doc :
  let w := trun_ok prog_std [TParse 0 hammer_doc; TCreateEnt 0 (-1) []] in
  wid <$> wobjs (tE w) = [1; 2; 1; 3; 4] ∧ walive <$> wobjs (tE w) = [false; true; true; true; true] ∧
  live_ids_in 0 (tE w) = [2; 1; 3; 4] ∧ live_ids_in 0 (tS w) = [1] ∧ live_ids_in 0 (tF w) = [1; 2] ∧
  tlisted_of w 0 false = [1]%nat ∧ tlisted_of w 0 true = [3; 4; 5]%nat.
Proof. vm_compute. done. Qed.

(** The time of the destructor matters for the numbering, not for uniqueness: a placeholder that is kept until the end
    of [parse] (say through a local variable) keeps ID 1 taken while the entity blocks are parsed. *)
Example parse_late_drop :
  let w := trun_ok [PPlaceholder; PWorld; PEntities; PDropPlaceholder] [TParse 0 hammer_doc; TCreateEnt 0 (-1) []] in
  live_ids_in 0 (tE w) = [2; 3; 4; 1].
Proof. vm_compute. done. Qed.

(** The hypothesis [prog_ok] is necessary.  When [parse] hands the placeholder's ID back itself before it parses the world
    block, the worldspawn keeps the ID 1 it asks for -- and the placeholder's destructor releases 1 a second time, while
    the worldspawn holds it: the next entity that needs a fresh ID (here the one without an id in the file; equally an
    entity created, copied or collapsed later) receives 1 as well. *)
Definition prog_early_release : list pstep := [PPlaceholder; PReleasePlaceholder; PWorld; PDropPlaceholder; PEntities].
Theorem parse_early_release_refuted :
  let w := trun_ok prog_early_release [TParse 0 hammer_doc] in
  live_ids_in 0 (tE w) = [1; 2; 1] ∧
  live_ids_in 0 (tE (trun_ok prog_early_release
     [TParse 0 {| pd_world := 1; pd_brushes := []; pd_ents := [] |}; TCreateEnt 0 (-1) []])) = [1; 1].
Proof. vm_compute. done. Qed.

(** [TParse] with the pinned tree's program is the sequence of constructor bundles and the placeholder's destructor. *)
Lemma tparse_is_events r1 r2 r3 c1 c2 c3 w m d :
  tparse r1 r2 r3 c1 c2 c3 prog_std w m d =
  let w1 := tstep r1 r2 r3 c1 c2 c3 prog_std w (TCreateSpawn m) in
  let w2 := fold_left (λ w (b : bool * (Z * list Z)), tcreate_h r1 r2 r3 c1 c2 c3 w m None [b.2] true b.1) (pd_brushes d) w1 in
  let w3 := tcreate r1 r2 r3 c1 c2 c3 w2 m (Some (pd_world d)) [] false in
  let w4 := tstep r1 r2 r3 c1 c2 c3 prog_std w3 (TDestroy (length (ttops w))) in
  fold_left (λ w (e : bool * (Z * list (Z * list Z))), tcreate_h r1 r2 r3 c1 c2 c3 w m (Some e.2.1) e.2.2 true e.1) (pd_ents d) w4.
Proof. reflexivity. Qed.
