From stdpp Require Import gmap sets list.
From Coq Require Import ZArith Lia.
From SV Require Import SM.IdMan SM.IdManProofs SM.IdLifeProofs SM.IdWorld SM.IdWorldProofs SM.IdNest.
Open Scope Z_scope.

(** What one single-kind world needs for the uniqueness statement: the allocator-level invariant, and every
    object listed in the map that issued its ID. *)
Definition Good (w : wworld) : Prop := WInv w ∧ Homed w.

Lemma good0 : Good ww0.
Proof. split; [apply ww0_inv|constructor]. Qed.

Lemma good_run es w : Good w → Good (wrun_from false true w es).
Proof. intros [H1 H2]. split; [by apply wrun_from_inv|by apply wrun_from_homed]. Qed.

Lemma good_unique m w : Good w →
  NoDup (live_ids_in m w) ∧ (∀ i, i ∈ live_ids_in m w → 0 < i).
Proof.
  intros [(_ & Hnd & Hin) Hh]. split; [by apply keys_to_ids|].
  apply ids_pos. intros m' i H. by destruct (Hin _ _ H).
Qed.

Definition TGood (w : tworld) : Prop := Good (tE w) ∧ Good (tS w) ∧ Good (tF w).

Notation tstep_ok := (tstep false false false true true true).
Notation trun_ok := (trun false false false true true true).

Lemma tapply_good w a b c tops order : TGood w → TGood (tapply false false false true true true w a b c tops order).
Proof. intros (H1 & H2 & H3). split; [|split]; simpl; by apply good_run. Qed.

Lemma tparts_good mk w top tops order : TGood w → TGood (tparts false false false true true true mk w top tops order).
Proof. intros H. by apply tapply_good. Qed.

Lemma tcreate_good w m ent sds listed : TGood w → TGood (tcreate false false false true true true w m ent sds listed).
Proof.
  intros H. unfold tcreate. destruct (new_solids _ _ _ _) as [[eS eF] parts].
  destruct (tnew _ _) as [tops order]. by apply tapply_good.
Qed.

Lemma tcopy_good w t m d ex kp : TGood w → TGood (tcopy false false false true true true w t m d ex kp).
Proof.
  intros H. unfold tcopy. destruct (ttops w !! t) as [top|]; [|done].
  destruct (copy_solids _ _ _ _ _ _ _) as [[eS eF] parts]. destruct (tnew _ _) as [tops order]. by apply tapply_good.
Qed.

Lemma fold_tcopy_good m kp ts : ∀ w, TGood w →
  TGood (fold_left (λ w t, tcopy false false false true true true w t m (-1) true kp) ts w).
Proof. induction ts as [|t ts IH]; intros w H; simpl; [done|]. apply IH. by apply tcopy_good. Qed.

Lemma tstep_good w e : TGood w → TGood (tstep_ok w e).
Proof.
  intros H. destruct e as [m d sds|m sd|t m d ex|t|t|t|m|t b|s m kp]; cbn [tstep].
  - by apply tcreate_good.
  - by apply tcreate_good.
  - by apply tcopy_good.
  - destruct (ttops w !! t) as [top|]; [|done]. destruct (tt_listed top); [by apply tparts_good|done].
  - destruct (ttops w !! t) as [top|]; [|done]. destruct (tt_listed top); [done|by apply tparts_good].
  - destruct (ttops w !! t) as [top|]; [|done]. destruct (tt_listed top); [done|by apply tparts_good].
  - by apply tcreate_good.
  - destruct (ttops w !! t) as [top|]; [|done]. by apply tapply_good.
  - destruct (decide (s = m)); [done|]. by apply fold_tcopy_good.
Qed.

Lemma trun_good es : TGood (trun_ok es).
Proof.
  unfold trun. assert (H0 : TGood tw0) by (split; [|split]; apply good0).
  revert H0. generalize tw0. induction es as [|e es IH]; intros w H; simpl; [done|].
  apply IH. by apply tstep_good.
Qed.

(** Entities, their brushes and the faces of those, as one world: after every history of bundled events on
    top-level objects, in every map the existing entities have pairwise distinct positive IDs, and so have the
    existing brushes (world brushes and brushes of entities together), and so have the existing faces. *)
Theorem trun_unique es m : let w := trun_ok es in
  (NoDup (live_ids_in m (tE w)) ∧ ∀ i, i ∈ live_ids_in m (tE w) → 0 < i) ∧
  (NoDup (live_ids_in m (tS w)) ∧ ∀ i, i ∈ live_ids_in m (tS w) → 0 < i) ∧
  (NoDup (live_ids_in m (tF w)) ∧ ∀ i, i ∈ live_ids_in m (tF w) → 0 < i).
Proof. intros w. destruct (trun_good es) as (H1 & H2 & H3). split; [|split]; by apply good_unique. Qed.

(** The seeded fault "Entity.copy does not pass the map down to Solid.copy" in this model: entity copies allocate
    in the destination map, brush and face copies do not.  Two world brushes in map 1, a brush entity in map 0,
    copied into map 1: brushes 1, 2, 2 and faces 1, 2, 2 in map 1. *)
Definition nested_copy_history : list tev :=
  [TCreateBrush 1 (-1, [-1]); TCreateBrush 1 (-1, [-1]); TCreateEnt 0 (-1) [(-1, [-1])]; TCopy 2 1 (-1) true].
Theorem nested_copy_from_source_refuted :
  let w := trun false false false true false false nested_copy_history in
  live_ids_in 1 (tE w) = [1] ∧ live_ids_in 1 (tS w) = [1; 2; 2] ∧ live_ids_in 1 (tF w) = [1; 2; 2].
Proof. vm_compute. done. Qed.
(** ... and the same history on the source's shape. *)
Example nested_copy_history_ok :
  let w := trun_ok nested_copy_history in
  live_ids_in 1 (tE w) = [1] ∧ live_ids_in 1 (tS w) = [1; 2; 3] ∧ live_ids_in 1 (tF w) = [1; 2; 3] ∧
  ttops w !! 3%nat = Some {| tt_ent := Some 1%nat; tt_solids := [(3%nat, [3%nat])]; tt_home := 1%nat; tt_listed := true; tt_hidden := false |}.
Proof. vm_compute. done. Qed.

(** [collapse_one] is the fold of the copies of the source map's listed world brushes, then entities. *)
Lemma tcollapse_is_copies r1 r2 r3 c1 c2 c3 w s m : s ≠ m →
  tstep r1 r2 r3 c1 c2 c3 w (TCollapse s m true) =
  fold_left (tstep r1 r2 r3 c1 c2 c3) ((λ t, TCopy t m (-1) true) <$> tcollapse_sources w s true) w.
Proof.
  intros Hn. cbn [tstep]. destruct (decide (s = m)); [done|].
  generalize (tcollapse_sources w s true). intros l. revert w.
  induction l as [|t l IH]; intros w; simpl; [done|]. apply IH.
Qed.

(** A removed object is not collapsed, a re-added one goes to the end of its map's list: map 0 holds brush A, an
    entity, brush B; A is removed and re-added; the collapse into map 1 copies B, A, then the entity. *)
Example collapse_order :
  let w := trun_ok [TCreateSpawn 0; TCreateSpawn 1; TCreateBrush 0 (7, [-1]); TCreateEnt 0 (-1) [];
                    TCreateBrush 0 (9, [-1]); TRemove 2; TReAdd 2; TCollapse 0 1 false] in
  torder w = [3; 4; 2; 5; 6; 7]%nat ∧ live_ids_in 1 (tS w) = [1; 2] ∧ live_ids_in 1 (tE w) = [1; 2] ∧
  (tt_solids <$> ttops w !! 5%nat) = Some [(2%nat, [2%nat])] ∧ (tt_solids <$> ttops w !! 6%nat) = Some [(3%nat, [3%nat])].
Proof. vm_compute. done. Qed.

(** Hidden objects: a hidden brush is never collapsed; a hidden entity only when visgroups are kept, and its copy is
    hidden then. *)
Example collapse_hidden :
  let h := [TCreateSpawn 0; TCreateSpawn 1; TCreateBrush 0 (-1, [-1]); TCreateBrush 0 (-1, [-1]); TCreateEnt 0 (-1) [];
            THide 2 true; THide 4 true] in
  tcollapse_sources (trun_ok h) 0 false = [3]%nat ∧ tcollapse_sources (trun_ok h) 0 true = [3; 4]%nat ∧
  (tt_hidden <$> ttops (trun_ok (h ++ [TCollapse 0 1 true])) !! 6%nat) = Some true.
Proof. vm_compute. done. Qed.
