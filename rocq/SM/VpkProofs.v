(** Proofs about the VPK state machine (SM/Vpk.v). *)
From Coq Require Import List NArith Bool Lia.
From SV Require Import Fmt.VpkDir SM.Vpk.
Import ListNotations.
Open Scope N_scope.

Definition mutating (o : op) : bool := match o with OReopen _ => false | _ => true end.

Section ro.
  Variable crc : bytes -> N.
  Variable cf : vcfg.

  (** A VPK opened in read mode rejects every mutation: the state is unchanged and the result is an error. *)
  Lemma readonly_rejects st o :
    md st = MR -> mutating o = true ->
    exists c, step crc cf st o = Some (st, c) /\ (c = rReadOnly \/ c = rMissing).
  Proof.
    intros Hm Ho. destruct o; try discriminate; cbn [step]; rewrite Hm; cbn [writable negb].
    - eauto.
    - eauto.
    - destruct (alookup k (tbl st)); eauto.
    - eauto.
    - eauto.
  Qed.
End ro.

(** ---- association lists ---- *)
From Coq Require Import Permutation.
From SV Require Import Fmt.VpkDirProofs.

Lemma bytes_eqb_eq a : forall b, bytes_eqb a b = true <-> a = b.
Proof.
  induction a as [|x a IH]; destruct b as [|y b]; cbn; split; try congruence; try discriminate.
  - intros H. apply andb_prop in H as [H1 H2]. apply N.eqb_eq in H1. apply IH in H2. congruence.
  - intros [= -> ->]. rewrite N.eqb_refl. now apply IH.
Qed.
Lemma key_eqb_eq a b : key_eqb a b = true <-> a = b.
Proof.
  destruct a as [[e1 d1] n1], b as [[e2 d2] n2]. cbn. split.
  - intros H. apply andb_prop in H as [H H3]. apply andb_prop in H as [H1 H2].
    apply bytes_eqb_eq in H1, H2, H3. congruence.
  - intros [= -> -> ->]. rewrite !(proj2 (bytes_eqb_eq _ _) eq_refl). reflexivity.
Qed.
Lemma key_eqb_refl a : key_eqb a a = true.
Proof. now apply key_eqb_eq. Qed.
Lemma key_eqb_neq a b : a <> b -> key_eqb a b = false.
Proof. intros H. destruct (key_eqb a b) eqn:E; [apply key_eqb_eq in E; contradiction|reflexivity]. Qed.

Section assoc_lemmas.
  Context {V : Type}.
  Implicit Types l : list (key * V).

  Lemma alookup_In k v l : alookup k l = Some v -> In (k, v) l.
  Proof.
    induction l as [|[k' v'] l IH]; cbn; [discriminate|].
    destruct (key_eqb k k') eqn:E.
    - apply key_eqb_eq in E. intros [= ->]. left. congruence.
    - intros H. right. auto.
  Qed.
  Lemma alookup_None k l : alookup k l = None <-> ~ In k (map fst l).
  Proof.
    induction l as [|[k' v'] l IH]; cbn; [tauto|].
    destruct (key_eqb k k') eqn:E.
    - apply key_eqb_eq in E. split; [discriminate|]. intros H. exfalso. apply H. left. congruence.
    - rewrite IH. split; [|tauto]. intros H [H1|H1]; [|tauto]. subst. now rewrite key_eqb_refl in E.
  Qed.
  Lemma In_alookup k v l : NoDup (map fst l) -> In (k, v) l -> alookup k l = Some v.
  Proof.
    induction l as [|[k' v'] l IH]; cbn; [tauto|]. intros Hnd [H|H].
    - injection H as -> ->. now rewrite key_eqb_refl.
    - inversion Hnd; subst. destruct (key_eqb k k') eqn:E; [|auto].
      apply key_eqb_eq in E. subst. exfalso. apply H2. apply (in_map fst) in H. exact H.
  Qed.
  Lemma alookup_perm l1 l2 : Permutation l1 l2 -> NoDup (map fst l1) -> forall k, alookup k l1 = alookup k l2.
  Proof.
    intros Hp Hnd k.
    assert (NoDup (map fst l2)) as Hnd2 by (eapply Permutation_NoDup; [apply Permutation_map, Hp|exact Hnd]).
    destruct (alookup k l1) as [v|] eqn:E.
    - symmetry. apply In_alookup; [assumption|]. eapply Permutation_in; [exact Hp|]. now apply alookup_In.
    - symmetry. apply alookup_None. apply alookup_None in E. intros H. apply E.
      eapply Permutation_in; [apply Permutation_sym, Permutation_map, Hp|exact H].
  Qed.

  Lemma alookup_aset k k' v l : alookup k (aset k' v l) = if key_eqb k k' then Some v else alookup k l.
  Proof.
    induction l as [|[k0 v0] l IH]; cbn.
    - reflexivity.
    - destruct (key_eqb k' k0) eqn:E0; cbn.
      + apply key_eqb_eq in E0. subst. destruct (key_eqb k k0); reflexivity.
      + destruct (key_eqb k k0) eqn:E1.
        * apply key_eqb_eq in E1. subst. destruct (key_eqb k0 k') eqn:E2; [|reflexivity].
          apply key_eqb_eq in E2. subst. now rewrite key_eqb_refl in E0.
        * exact IH.
  Qed.
  Lemma aset_keys k v l : NoDup (map fst l) -> NoDup (map fst (aset k v l)).
  Proof.
    induction l as [|[k0 v0] l IH]; cbn; intros H.
    - constructor; [tauto|constructor].
    - inversion H; subst. destruct (key_eqb k k0) eqn:E; cbn.
      + apply key_eqb_eq in E. subst. now constructor.
      + constructor; [|auto]. intros Hin. apply H2.
        assert (forall x, In x (map fst (aset k v l)) -> x = k \/ In x (map fst l)) as Hx.
        { clear. induction l as [|[k1 v1] l IH]; cbn; [intuition congruence|]. intros x. destruct (key_eqb k k1) eqn:E; cbn.
          - apply key_eqb_eq in E. subst. intuition congruence.
          - intros [H|H]; [tauto|]. apply IH in H. tauto. }
        apply Hx in Hin as [Hin|Hin]; [|exact Hin]. subst. now rewrite key_eqb_refl in E.
  Qed.
  Lemma alookup_adel k k' l : alookup k (adel k' l) = if key_eqb k k' then None else alookup k l.
  Proof.
    induction l as [|[k0 v0] l IH]; cbn.
    - now destruct (key_eqb k k').
    - destruct (key_eqb k' k0) eqn:E0; cbn.
      + apply key_eqb_eq in E0. subst. rewrite IH. destruct (key_eqb k k0); reflexivity.
      + rewrite IH. destruct (key_eqb k k0) eqn:E1; [|reflexivity].
        apply key_eqb_eq in E1. subst. destruct (key_eqb k0 k') eqn:E2; [|reflexivity].
        apply key_eqb_eq in E2. subst. now rewrite key_eqb_refl in E0.
  Qed.
  Lemma adel_in k x l : In x (map fst (adel k l)) -> In x (map fst l).
  Proof.
    induction l as [|[k1 v1] l IH]; cbn; [tauto|].
    destruct (key_eqb k k1); cbn; tauto.
  Qed.
  Lemma adel_keys k l : NoDup (map fst l) -> NoDup (map fst (adel k l)).
  Proof.
    induction l as [|[k0 v0] l IH]; cbn; intros H; [constructor|].
    inversion H; subst. destruct (key_eqb k k0); cbn; [auto|].
    constructor; [|auto]. intros Hin. apply H2. eapply adel_in, Hin.
  Qed.

  Lemma load_lookup (es : list (key * V)) : forall acc k, NoDup (map fst es) ->
    alookup k (fold_left (fun t e => aset (fst e) (snd e) t) es acc)
    = match alookup k es with Some v => Some v | None => alookup k acc end.
  Proof.
    induction es as [|[k0 v0] es IH]; intros acc k Hnd; cbn [fold_left alookup]; [reflexivity|].
    inversion Hnd; subst. rewrite IH by assumption. cbn [fst snd]. rewrite alookup_aset.
    destruct (key_eqb k k0) eqn:E; [|reflexivity].
    apply key_eqb_eq in E. subst. apply alookup_None in H1. now rewrite H1.
  Qed.
  Lemma load_keys (es : list (key * V)) : forall acc, NoDup (map fst acc) ->
    NoDup (map fst (fold_left (fun t e => aset (fst e) (snd e) t) es acc)).
  Proof. induction es as [|e es IH]; intros acc H; cbn; [exact H|]. apply IH, aset_keys, H. Qed.
End assoc_lemmas.

(** ---- grouping/sorting (tree_of) keeps exactly the entries of the table ---- *)
Section perm.
  Context {V X : Type}.
  Variable g : bytes -> V -> list X.
  Definition flatg (l : list (bytes * V)) : list X := flat_map (fun e => g (fst e) (snd e)) l.

  Lemma upsert_perm k f x l :
    (forall o, Permutation (g k (f o)) (x :: match o with Some v => g k v | None => [] end)) ->
    Permutation (flatg (upsert k f l)) (x :: flatg l).
  Proof.
    intros H. induction l as [|[k' v] l IH]; cbn [upsert].
    - unfold flatg. cbn. rewrite app_nil_r. apply (H None).
    - destruct (bytes_eqb k k') eqn:E.
      + apply bytes_eqb_eq in E. subst k'. unfold flatg. cbn [flat_map fst snd].
        change (x :: g k v ++ flat_map (fun e => g (fst e) (snd e)) l) with ((x :: g k v) ++ flat_map (fun e => g (fst e) (snd e)) l).
        apply Permutation_app_tail. apply (H (Some v)).
      + destruct (bytes_ltb k k').
        * unfold flatg. cbn [flat_map fst snd].
          change (x :: g k' v ++ flat_map (fun e => g (fst e) (snd e)) l) with ((x :: []) ++ (g k' v ++ flat_map (fun e => g (fst e) (snd e)) l)).
          apply Permutation_app_tail. apply (H None).
        * unfold flatg in *. cbn [flat_map fst snd].
          eapply Permutation_trans; [apply Permutation_app_head, IH|]. apply Permutation_sym, Permutation_middle.
  Qed.
End perm.

Lemma sins_perm {V} k (v : V) l : Permutation (sins k v l) ((k, v) :: l).
Proof.
  induction l as [|[k' v'] l IH]; cbn [sins]; [reflexivity|].
  destruct (bytes_ltb k k'); [reflexivity|].
  eapply Permutation_trans; [apply perm_skip, IH|]. apply perm_swap.
Qed.

Definition g2 (e d : bytes) (fs : list (bytes * info)) : list (key * info) := map (fun f => ((e, d, fst f), snd f)) fs.
Definition g1 (e : bytes) (ds : list (bytes * list (bytes * info))) : list (key * info) := flatg (g2 e) ds.
Lemma flat_tree_flatg t : flat_tree t = flatg g1 t.
Proof. reflexivity. Qed.

Lemma tree_insert_perm kv t : Permutation (flat_tree (tree_insert kv t)) (kv :: flat_tree t).
Proof.
  destruct kv as [[[e d] n] i]. unfold tree_insert.
  change (Permutation (flatg g1 (upsert e (fun od => upsert d (fun ofs => sins n i (odflt ofs)) (odflt od)) t)) ((e, d, n, i) :: flatg g1 t)).
  apply upsert_perm. intros od. unfold g1 at 1.
  eapply Permutation_trans.
  - apply upsert_perm with (x := ((e, d, n), i)). intros ofs. unfold g2.
    eapply Permutation_trans; [apply Permutation_map, sins_perm|]. cbn [map fst snd].
    destruct ofs; reflexivity.
  - destruct od; reflexivity.
Qed.

Lemma tree_of_perm tb : Permutation (flat_tree (tree_of tb)) tb.
Proof.
  induction tb as [|kv tb IH]; cbn [tree_of fold_right]; [reflexivity|].
  eapply Permutation_trans; [apply tree_insert_perm|]. now apply perm_skip.
Qed.

Section wf.
  Variable c : dcfg.
  Lemma upsert_Forall {V} (Q : V -> Prop) k f (l : list (bytes * V)) :
    Forall (fun e => str_ok (fst e) = true /\ Q (snd e)) l -> str_ok k = true ->
    Q (f None) -> (forall v, Q v -> Q (f (Some v))) ->
    Forall (fun e => str_ok (fst e) = true /\ Q (snd e)) (upsert k f l).
  Proof.
    intros Hl Hk Hn Hs. induction Hl as [|[k' v] l [Hk' Hv] Hl IH]; cbn [upsert].
    - constructor; [cbv beta; cbn [fst snd]; split; assumption|constructor].
    - destruct (bytes_eqb k k'); [constructor; [cbv beta; cbn [fst snd]; split; auto|assumption]|].
      destruct (bytes_ltb k k').
      + constructor; [cbv beta; cbn [fst snd]; split; assumption|]. constructor; [cbv beta; cbn [fst snd]; split; assumption|assumption].
      + constructor; [cbv beta; cbn [fst snd]; split; assumption|assumption].
  Qed.
  Lemma sins_Forall {V} (P : bytes * V -> Prop) k v l : Forall P l -> P (k, v) -> Forall P (sins k v l).
  Proof.
    intros Hl Hp. induction Hl as [|[k' v'] l Hx Hl IH]; cbn [sins]; [constructor; auto|].
    destruct (bytes_ltb k k').
    - constructor; [assumption|]. constructor; assumption.
    - constructor; assumption.
  Qed.

  Definition entry_wf (kv : key * info) : Prop := key_ok (fst kv) = true /\ idx_wf c (snd kv).

  Lemma tree_insert_wf kv t : wf_tree c t -> entry_wf kv -> wf_tree c (tree_insert kv t).
  Proof.
    destruct kv as [[[e d] n] i]. intros Ht [Hk Hi]. cbn [fst snd key_ok] in *.
    apply andb_prop in Hk as [Hk Hn]. apply andb_prop in Hk as [He Hd].
    unfold tree_insert, wf_tree.
    apply (upsert_Forall (wf_dirs c)); auto.
    - cbn [odflt upsert]. constructor; [|constructor]. cbv beta; cbn [fst snd]; split; [assumption|].
      constructor; [|constructor]. cbv beta; cbn [fst snd]; split; assumption.
    - intros ds Hds. cbn [odflt]. apply (upsert_Forall (wf_files c)); auto.
      + cbn [odflt sins]. constructor; [|constructor]. cbv beta; cbn [fst snd]; split; assumption.
      + intros fs Hfs. cbn [odflt]. apply sins_Forall; [assumption|]. cbv beta; cbn [fst snd]; split; assumption.
  Qed.
  Lemma tree_of_wf tb : Forall entry_wf tb -> wf_tree c (tree_of tb).
  Proof.
    induction 1 as [|kv tb Hkv Htb IH]; cbn [tree_of fold_right]; [constructor|].
    now apply tree_insert_wf.
  Qed.
End wf.

Lemma nmap_keys l : map fst (nmap l) = map fst l.
Proof. unfold nmap. rewrite map_map. reflexivity. Qed.
Lemma alookup_nmap k l : alookup k (nmap l) = option_map norm_info (alookup k l).
Proof.
  induction l as [|[k' v] l IH]; cbn; [reflexivity|]. destruct (key_eqb k k'); [reflexivity|exact IH].
Qed.

(** ---- write_dirfile followed by reopening: the table comes back, wherever the data is placed ---- *)
Section save.
  Variable crc : bytes -> N.
  Variable cf : vcfg.
  Hypothesis Hcf : dcfg_ok (v_dc cf) = true.

  Lemma read_norm st st' i :
    archs st' = archs st -> foot st' = foot st ->
    read_info st' (norm_info i) = read_info st i /\ verify_info crc st' (norm_info i) = verify_info crc st i.
  Proof.
    intros Ha Hf.
    assert (read_info st' (norm_info i) = read_info st i) as E.
    { unfold read_info, container, norm_info. cbn [ipre ilen iidx ioff]. rewrite Ha, Hf.
      destruct (ilen i =? 0); reflexivity. }
    split; [exact E|]. unfold verify_info. rewrite E. reflexivity.
  Qed.

  Theorem save_reopen st st1 m :
    m <> MW -> NoDup (map fst (tbl st)) -> Forall (entry_wf (v_dc cf)) (tbl st) ->
    step crc cf st OSave = Some (st1, rOk) ->
    exists st2, step crc cf st1 (OReopen m) = Some (st2, rOk)
      /\ archs st2 = archs st /\ foot st2 = foot st /\ md st2 = m /\ disk st2 = disk st1
      /\ NoDup (map fst (tbl st2))
      /\ forall k, alookup k (tbl st2) = option_map norm_info (alookup k (tbl st)).
  Proof.
    intros Hm Hnd Hwf. cbn [step].
    destruct (negb (writable (md st))); [discriminate|].
    destruct (enc_file (v_dc cf) (tree_of (tbl st)) (foot st)) as [b|] eqn:Eb; [|discriminate].
    intros [= <-].
    pose proof (dirtree_roundtrip (v_dc cf) Hcf _ _ _ (tree_of_wf _ _ Hwf) Eb) as Hd.
    assert (Permutation (nmap (flat_tree (tree_of (tbl st)))) (nmap (tbl st))) as Hp
      by (apply Permutation_map, tree_of_perm).
    assert (NoDup (map fst (nmap (flat_tree (tree_of (tbl st)))))) as Hnd'.
    { rewrite nmap_keys. eapply Permutation_NoDup; [apply Permutation_sym, Permutation_map, tree_of_perm|exact Hnd]. }
    eexists. split.
    - destruct m; [|contradiction|]; cbn [step disk]; rewrite Hd; reflexivity.
    - cbn [archs foot md disk tbl]. repeat split.
      + apply load_keys. constructor.
      + intros k. unfold load_table. rewrite load_lookup by exact Hnd'. cbn [alookup].
        rewrite (alookup_perm _ _ Hp Hnd' k), alookup_nmap.
        destruct (alookup k (tbl st)); reflexivity.
  Qed.

  (** ... and therefore every file reads back and verifies exactly as before the save. *)
  Corollary save_reopen_reads st st1 m :
    m <> MW -> NoDup (map fst (tbl st)) -> Forall (entry_wf (v_dc cf)) (tbl st) ->
    step crc cf st OSave = Some (st1, rOk) ->
    exists st2, step crc cf st1 (OReopen m) = Some (st2, rOk) /\ md st2 = m /\
      forall k, match alookup k (tbl st), alookup k (tbl st2) with
                | Some i, Some i2 => read_info st2 i2 = read_info st i
                                     /\ verify_info crc st2 i2 = verify_info crc st i /\ icrc i2 = icrc i
                | None, None => True
                | _, _ => False
                end.
  Proof.
    intros Hm Hnd Hwf Hs. destruct (save_reopen st st1 m Hm Hnd Hwf Hs) as (st2 & H1 & Ha & Hf & Hmd & _ & _ & Hl).
    exists st2. split; [exact H1|]. split; [exact Hmd|]. intros k. rewrite Hl.
    destruct (alookup k (tbl st)) as [i|]; cbn [option_map]; [|exact I].
    destruct (read_norm st st2 i Ha Hf) as [Hr Hv]. auto.
  Qed.
End save.

(** ---- one FileInfo.write: the file then reads back the data and verifies, for every placement ---- *)
Lemma arch_get_app_same x d a : arch_get x (arch_app x d a) = arch_get x a ++ d.
Proof.
  induction a as [|[y b] a IH]; cbn [arch_app arch_get].
  - now rewrite N.eqb_refl.
  - destruct (x =? y) eqn:E; cbn [arch_get]; rewrite E; [reflexivity|exact IH].
Qed.
Lemma arch_get_app_other x y d a : x <> y -> arch_get x (arch_app y d a) = arch_get x a.
Proof.
  intros Hn. induction a as [|[z b] a IH]; cbn [arch_app arch_get].
  - destruct (N.eqb_spec x y); [contradiction|reflexivity].
  - destruct (y =? z) eqn:E; cbn [arch_get].
    + apply N.eqb_eq in E. subst z. destruct (N.eqb_spec x y); [contradiction|reflexivity].
    + now rewrite IH.
Qed.

Lemma slice_end (a t : bytes) : slice (a ++ t) (len a) (len t) = t.
Proof.
  unfold slice. rewrite skipn_len_app. rewrite <- (app_nil_r t) at 2. apply firstn_len_app.
Qed.
Lemma len_cons_nz x (t : bytes) : (len (x :: t) =? 0) = false.
Proof. apply N.eqb_neq. rewrite len_cons. lia. Qed.

Section write.
  Variable crc : bytes -> N.
  Variable cf : vcfg.

  Theorem write_reads st k i d ix :
    (crc d =? icrc i) = false ->
    let st' := do_write crc cf st k i d ix in
    exists i', alookup k (tbl st') = Some i' /\ read_info st' i' = d /\ verify_info crc st' i' = true.
  Proof.
    intros Hc. unfold do_write, write_info. rewrite Hc.
    destruct (split_rule cf) as [lim force].
    pose proof (firstn_skipn (N.to_nat lim) d) as Hd.
    destruct (skipn (N.to_nat lim) d) as [|t0 tail] eqn:Et.
    - cbn [tbl with_tbl]. eexists. rewrite alookup_aset, key_eqb_refl. split; [reflexivity|].
      assert (read_info (with_tbl st (aset k (mkInfo (crc d) (firstn (N.to_nat lim) d) None 0 0) (tbl st)))
                (mkInfo (crc d) (firstn (N.to_nat lim) d) None 0 0) = d) as E.
      { unfold read_info. cbn [ipre ilen]. cbn [N.eqb]. exact Hd. }
      split; [exact E|]. unfold verify_info. rewrite E. cbn [icrc]. apply N.eqb_refl.
    - destruct (if force then None else ix) as [x|].
      + cbn [tbl with_tbl]. eexists. rewrite alookup_aset, key_eqb_refl. split; [reflexivity|].
        match goal with |- read_info ?s ?j = d /\ _ => assert (read_info s j = d) as E end.
        { unfold read_info, container. cbn [ipre ilen iidx ioff archs with_tbl]. rewrite len_cons_nz.
          rewrite arch_get_app_same, slice_end. exact Hd. }
        split; [exact E|]. unfold verify_info. rewrite E. cbn [icrc]. apply N.eqb_refl.
      + cbn [tbl with_tbl]. eexists. rewrite alookup_aset, key_eqb_refl. split; [reflexivity|].
        match goal with |- read_info ?s ?j = d /\ _ => assert (read_info s j = d) as E end.
        { unfold read_info, container. cbn [ipre ilen iidx ioff foot with_tbl]. rewrite len_cons_nz.
          rewrite slice_end. exact Hd. }
        split; [exact E|]. unfold verify_info. rewrite E. cbn [icrc]. apply N.eqb_refl.
  Qed.
End write.

(** ---- a concrete history (non-vacuity of the premises above) ---- *)
Definition ex_cfg : vcfg :=
  {| v_dc := {| c_sig := 1437209140; c_dir_index := 32767; c_term := 65535 |}; v_is_dir := true;
     v_limit := Some 4; v_max_pre := 65535; v_chk_idx := true; v_chk_name := true |}.
Definition ex_k1 : key := ([116; 120; 116], [97], [98]).
Definition ex_k2 : key := ([], [], [99]).
Definition ex_k3 : key := ([101], [120; 47; 121], []).
Definition ex_ops : list op :=
  [OAdd ex_k1 [1; 2; 3; 4; 5; 6] (Some 0); OAdd ex_k2 [9; 9; 9; 9; 9; 9; 9] None; OAdd ex_k3 [7; 7] (Some 3);
   OWrite ex_k1 [8; 8; 8; 8; 8; 8; 8; 8] (Some 1); OSave; OReopen MR].
Definition example_history_ok : bool :=
  match run crc32 ex_cfg init ex_ops with
  | Some (st, codes) =>
      forallb (fun c => c =? 0) codes &&
      match observe crc32 st with
      | [(_, (a, true)); (_, (b, true)); (_, (c, true))] =>
          bytes_eqb a [9; 9; 9; 9; 9; 9; 9] && bytes_eqb b [7; 7] && bytes_eqb c [8; 8; 8; 8; 8; 8; 8; 8]
      | _ => false
      end
  | None => false
  end.
Lemma example_history_ok_true : example_history_ok = true.
Proof. vm_compute. reflexivity. Qed.
