(** Proofs about the VPK state machine (SM/Vpk.v). *)
From Coq Require Import List NArith Bool Lia.
From SV Require Import Fmt.VpkDir SM.Vpk.
Import ListNotations.
Open Scope N_scope.

Definition mutating (o : op) : bool := match o with OReopen _ => false | _ => true end.

Section ro.
  Variable crc : bytes -> N.
  Variable cf : vcfg.

  (** A VPK opened in read mode rejects every mutation: the state is unchanged and the result is an error. *)
  Lemma readonly_rejects st o :
    md st = MR -> mutating o = true ->
    exists c, step crc cf st o = Some (st, c) /\ (c = rReadOnly \/ c = rMissing).
  Proof.
    intros Hm Ho. destruct o; try discriminate; cbn [step]; rewrite Hm; cbn [writable negb].
    - eauto.
    - eauto.
    - destruct (alookup k (tbl st)); eauto.
    - eauto.
    - eauto.
  Qed.
End ro.
