(** C09 round 2 — [copy_export_equal]: a copy built as the census-with-sources says, whose observed fields all
    pass [copy_export_ok], exports exactly like its original (masked unfolding equal at every depth). *)
From Coq Require Import List PArith ZArith Bool String Lia.
From SV Require Import SM.Store SM.StoreProofs SM.StoreCopy SM.StoreCopyProofs SM.StoreCopySrc SM.StoreCopySrcProofs
  SM.StoreCopyExport.
Import ListNotations.

Section Masked.
  Variable mk : loc -> list bool.

  Lemma munfold_agree h h' a :
    (forall x, reach h a x -> h' x = h x) ->
    forall n l, reach h a l -> munfold mk n h' (VRef l) = munfold mk n h (VRef l).
  Proof.
    intros Hag. induction n as [|n IH]; intros l Hl; [reflexivity|].
    cbn [munfold]. rewrite (Hag l Hl). destruct (h l) as [nd|] eqn:E; [|reflexivity].
    f_equal. f_equal. apply map_ext_in. intros v Hin. destruct v as [z|l'].
    - destruct n; reflexivity.
    - apply IH. eapply reach_step; eauto.
  Qed.

  Lemma share_mobs_eq h h' v : closed h -> extends h h' -> val_alloc h v -> mobs_eq mk h h' v v.
  Proof.
    intros Hc He Hv n. destruct v as [z|r]; [destruct n; reflexivity|].
    apply (munfold_agree h h' r); [|constructor]. intros x Hx. eapply extends_agree; eauto.
  Qed.

  Lemma how_complete_mobs w h h' v v' :
    closed h -> extends h h' -> val_alloc h v -> how_transfers w = true ->
    how_complete mk w h h' v v' -> mobs_eq mk h h' v v'.
  Proof.
    intros Hc He Hv Ht Hw. destruct w; try discriminate; cbn in Hw.
    - subst v'. apply share_mobs_eq; auto.
    - exact Hw.
    - destruct v as [z|c]; [subst v'; intros n; destruct n; reflexivity|].
      destruct Hw as (c' & nd & -> & Hnd & Hnd' & Hmk). intros n. destruct n as [|n]; [reflexivity|].
      cbn [munfold]. rewrite Hnd, Hnd', Hmk. cbn [nmut nfields]. f_equal. f_equal.
      apply map_ext_in. intros el Hin. apply (share_mobs_eq h h' el Hc He).
      destruct el as [z|x]; [exact I|]. exact (Hc _ _ _ Hnd Hin).
  Qed.

  (** Position by position: masked, or carried over from the same position. *)
  Lemma frc_mask_eq h h' orig n :
    closed h -> extends h h' ->
    forall rows vs', fields_rel_c mk h h' orig rows vs' ->
    forall pre rest, orig = pre ++ rest -> List.length rest = List.length rows ->
    (forall v, In v rest -> val_alloc h v) ->
    (forall p m w j, nth_error rows p = Some (m, w, j) -> m = false ->
                     how_transfers w = true /\ j = Some (List.length pre + p)) ->
    mask_apply (map (fun r : erow => fst (fst r)) rows) (map (munfold mk n h') vs') =
    mask_apply (map (fun r : erow => fst (fst r)) rows) (map (munfold mk n h) rest).
  Proof.
    intros Hc He rows vs' Hr. induction Hr as [|m w j rows v' vs' Hsem Hr IH]; intros pre rest Ho Hl Hal Hid.
    - destruct rest; [reflexivity|discriminate].
    - destruct rest as [|v rest]; [discriminate|]. cbn [map fst mask_apply].
      assert (Htail : mask_apply (map (fun r : erow => fst (fst r)) rows) (map (munfold mk n h') vs') =
                      mask_apply (map (fun r : erow => fst (fst r)) rows) (map (munfold mk n h) rest)).
      { apply (IH (pre ++ [v]) rest).
        - rewrite <- app_assoc. exact Ho.
        - cbn in Hl. lia.
        - intros x Hx. apply Hal. right. exact Hx.
        - intros p m1 w1 j1 Hp Hm1. destruct (Hid (S p) m1 w1 j1 Hp Hm1) as [H1 H2].
          split; [exact H1|]. rewrite H2, app_length. cbn. f_equal. lia. }
      destruct m.
      + f_equal. exact Htail.
      + destruct (Hid 0 false w j eq_refl eq_refl) as [Ht Hj].
        destruct (Hsem eq_refl) as (i & v0 & Hj' & Hn & Hw). rewrite Hj in Hj'. inversion Hj'; subst i.
        rewrite Ho, Nat.add_0_r, nth_error_app2 in Hn by lia. rewrite Nat.sub_diag in Hn. cbn in Hn.
        inversion Hn; subst v0.
        rewrite (how_complete_mobs w h h' v v' Hc He (Hal v (or_introl eq_refl)) Ht Hw n), Htail. reflexivity.
  Qed.
End Masked.

Lemma eresolve_mask c s reads : map (fun r : erow => fst (fst r)) (eresolve c s reads) = obs_mask c reads.
Proof. unfold eresolve, obs_mask. rewrite map_map. reflexivity. Qed.

Lemma eresolve_identity c s reads :
  copy_export_ok c s reads = true ->
  forall p m w j, nth_error (eresolve c s reads) p = Some (m, w, j) -> m = false ->
                  how_transfers w = true /\ j = Some p.
Proof.
  unfold copy_export_ok. rewrite andb_true_iff. intros [Hnd Hall] p m w j Hp Hm.
  apply nodupb_NoDup in Hnd. unfold eresolve in Hp. rewrite nth_error_map in Hp.
  destruct (nth_error c p) as [row|] eqn:Er; [|discriminate]. cbn in Hp. inversion Hp; subst; clear Hp.
  rewrite forallb_forall in Hall. specialize (Hall row (nth_error_In _ _ Er)).
  unfold field_export_ok in Hall. apply negb_false_iff in H0. rewrite H0 in Hall.
  apply andb_true_iff in Hall. destruct Hall as [Ht Hs]. split; [exact Ht|].
  unfold field_source_ok in Hs.
  assert (Hn : needs_source (snd row) = true) by (destruct (snd row); try discriminate; reflexivity).
  rewrite Hn in Hs. destruct (src_of s (cname row)) as [[|g [|? ?]]|]; try discriminate.
  apply String.eqb_eq in Hs. subst g. apply index_of_nth; [exact Hnd|].
  unfold names. rewrite nth_error_map, Er. reflexivity.
Qed.

(** THE COMPLETENESS THEOREM.  Original [la] and copy [lc] carry the class's observation mask; the copy's
    fields are related to the original's by the census with sources ([fields_rel_c]: share / fresh container of
    the same elements / nested copy that itself exports equally); every observed field passes
    [copy_export_ok].  Then the copy exports like the original, at every depth. *)
Theorem copy_export_equal (mk : loc -> list bool) (c : census) (s : srcmap) (reads : list string) h h' la lc nd nd' :
  closed h -> extends h h' -> h la = Some nd -> h' lc = Some nd' -> nmut nd' = nmut nd ->
  mk la = obs_mask c reads -> mk lc = obs_mask c reads ->
  List.length (nfields nd) = List.length c ->
  copy_export_ok c s reads = true ->
  fields_rel_c mk h h' (nfields nd) (eresolve c s reads) (nfields nd') ->
  mobs_eq mk h h' (VRef la) (VRef lc).
Proof.
  intros Hc He Hla Hlc Hm Hma Hmc Hlen Hok Hr n. destruct n as [|n]; [reflexivity|].
  cbn [munfold]. rewrite Hla, Hlc, Hm, Hma, Hmc. f_equal. rewrite <- (eresolve_mask c s reads).
  apply (frc_mask_eq mk h h' (nfields nd) n Hc He _ _ Hr [] (nfields nd)); auto.
  - unfold eresolve. rewrite map_length. exact Hlen.
  - intros v Hin. destruct v as [z|x]; [exact I|]. exact (Hc _ _ _ Hla Hin).
  - intros p m w j Hp Hm0. cbn. eapply eresolve_identity; eauto.
Qed.

(** Any export function that is a function of the observation returns the same text for copy and original. *)
Corollary copy_export_text_equal (T : Type) (mk : loc -> list bool) (E : tree -> T)
    (c : census) (s : srcmap) (reads : list string) h h' la lc nd nd' :
  closed h -> extends h h' -> h la = Some nd -> h' lc = Some nd' -> nmut nd' = nmut nd ->
  mk la = obs_mask c reads -> mk lc = obs_mask c reads ->
  List.length (nfields nd) = List.length c ->
  copy_export_ok c s reads = true ->
  fields_rel_c mk h h' (nfields nd) (eresolve c s reads) (nfields nd') ->
  forall n, E (munfold mk n h' (VRef lc)) = E (munfold mk n h (VRef la)).
Proof. intros. f_equal. eapply copy_export_equal; eauto. Qed.

(** Not vacuous, and sensitive: a 3-field object (id, blend, alpha), export reads blend and alpha. *)
Definition ex_census : census :=
  [("id"%string, KId, HNewId); ("blend"%string, KImm, HShare); ("alpha"%string, KImm, HShare)].
Definition ex_reads : list string := ["id"%string; "blend"%string; "alpha"%string].
Definition ex_src_good : srcmap :=
  [("id"%string, []); ("blend"%string, ["blend"%string]); ("alpha"%string, ["alpha"%string])].
Definition ex_src_bad : srcmap :=
  [("id"%string, []); ("blend"%string, ["blend"%string]); ("alpha"%string, ["blend"%string])].
Definition ex_mk : loc -> list bool := fun _ => obs_mask ex_census ex_reads.
Definition ex_h : heap := fun l => match l with 1%positive => Some (Node true [VAtom 10%Z; VAtom 5%Z; VAtom 7%Z]) | _ => None end.
Definition ex_h' (alpha : Z) : heap := fun l => match l with
  | 1%positive => Some (Node true [VAtom 10%Z; VAtom 5%Z; VAtom 7%Z])
  | 2%positive => Some (Node true [VAtom 11%Z; VAtom 5%Z; VAtom alpha]) | _ => None end.

Example copy_export_equal_applies :
  copy_export_ok ex_census ex_src_good ex_reads = true /\
  mobs_eq ex_mk ex_h (ex_h' 7%Z) (VRef 1%positive) (VRef 2%positive).
Proof.
  split; [reflexivity|].
  eapply (copy_export_equal ex_mk ex_census ex_src_good ex_reads ex_h (ex_h' 7%Z) 1%positive 2%positive); try reflexivity.
  - intros l nd0 l' Hl. destruct l as [l|l|]; try discriminate. cbn in Hl. inversion Hl; subst. cbn. intros [H|[H|[H|[]]]]; discriminate.
  - intros l nd0. destruct l as [l|l|]; try discriminate. auto.
  - cbn. constructor; [intros; discriminate|]. constructor; [intros _; exists 1%nat, (VAtom 5%Z); cbn; auto|].
    constructor; [intros _; exists 2%nat, (VAtom 7%Z); cbn; auto|]. constructor.
Qed.

(** The wrong-source census is rejected, and the copy it describes does NOT export like the original
    (new IDs alone, by contrast, are invisible: see [copy_export_equal_applies]). *)
Theorem copy_export_wrong_source_refuted :
  copy_export_ok ex_census ex_src_bad ex_reads = false /\
  export_broken ex_census ex_src_bad ex_reads = ["alpha"%string] /\
  ~ mobs_eq ex_mk ex_h (ex_h' 5%Z) (VRef 1%positive) (VRef 2%positive).
Proof.
  split; [reflexivity|]. split; [reflexivity|]. intros H. specialize (H 1%nat). cbv in H. discriminate.
Qed.

(** A field export reads that copy() never sets is rejected as well. *)
Example copy_export_missing_rejected :
  copy_export_ok [("blend"%string, KImm, HMissing)] [("blend"%string, [])] ["blend"%string] = false.
Proof. reflexivity. Qed.
