(** C16 — proofs about the block builder (SM/FgdBlocks.v): every entity is placed in exactly one block. *)
From Coq Require Import List NArith Arith Bool Lia.
From SV Require Import SM.FgdBlocks.
Import ListNotations.
Open Scope N_scope.

Notation cnt := (count_occ N.eq_dec).

Lemma memN_false_cnt e l : memN e l = false -> cnt l e = 0%nat.
Proof.
  induction l as [|y l IH]; cbn; auto. intros H. apply orb_false_iff in H as [H1 H2].
  destruct (N.eq_dec y e) as [->|]; [rewrite N.eqb_refl in H1; discriminate | auto].
Qed.
Lemma memN_true_cnt e l : memN e l = true -> (1 <= cnt l e)%nat.
Proof.
  induction l as [|y l IH]; cbn; try discriminate. intros H. destruct (N.eq_dec y e); [lia|].
  apply orb_true_iff in H as [H|H]; [apply N.eqb_eq in H; congruence | auto].
Qed.
Lemma cnt_concat_app (a b : blocks) x : cnt (concat (a ++ b)) x = (cnt (concat a) x + cnt (concat b) x)%nat.
Proof. rewrite concat_app, count_occ_app. reflexivity. Qed.
Lemma cnt_concat_cons (l : list N) (b : blocks) x : cnt (concat (l :: b)) x = (cnt l x + cnt (concat b) x)%nat.
Proof. cbn [concat]. rewrite count_occ_app. reflexivity. Qed.

Lemma split_at_some e : forall bl pre b post, split_at e bl = Some (pre, b, post) -> bl = pre ++ b :: post /\ memN e b = true.
Proof.
  induction bl as [|l r IH]; cbn; intros pre b post H; try discriminate.
  destruct (memN e l) eqn:M.
  - injection H as <- <- <-. auto.
  - destruct (split_at e r) as [[[p0 b0] q0]|]; try discriminate. injection H as <- <- <-.
    destruct (IH _ _ _ eq_refl) as [-> ?]. auto.
Qed.
Lemma split_at_none e : forall bl, split_at e bl = None -> cnt (concat bl) e = 0%nat.
Proof.
  induction bl as [|l r IH]; cbn; auto. destruct (memN e l) eqn:M; try discriminate.
  destruct (split_at e r) as [[[p0 b0] q0]|]; try discriminate. intros _.
  rewrite count_occ_app, (memN_false_cnt _ _ M), IH; auto.
Qed.

Section Build.
Variable cfg : bcfg.
Variable size : N -> N.
Variable maxsz : N.
Variable all : list N.

Definition sub (bl : blocks) : Prop := forall x, (cnt (concat bl) x <= cnt all x)%nat.

Lemma merged_cnt a b x : cnt (merged a b) x = (cnt a x + cnt b x)%nat.
Proof. unfold merged. destruct (length b <? length a)%nat; rewrite count_occ_app; lia. Qed.

Ltac norm := repeat (rewrite ?cnt_concat_app, ?cnt_concat_cons, ?merged_cnt, ?count_occ_app).

Lemma step_sub bl e1 e2 : sub bl -> e1 <> e2 -> (1 <= cnt all e1)%nat -> (1 <= cnt all e2)%nat -> sub (step cfg size maxsz bl (e1, e2)).
Proof.
  unfold sub. intros J Hne A1 A2. unfold step.
  destruct (split_at e1 bl) as [[[pre b1] post]|] eqn:S1.
  - destruct (split_at_some _ _ _ _ _ S1) as [-> M1].
    destruct (memN e2 b1) eqn:M2; auto.
    destruct (split_at e2 pre) as [[[p0 b2] p1]|] eqn:S2.
    + destruct (split_at_some _ _ _ _ _ S2) as [-> _].
      destruct (merge_fits cfg _ _); auto.
      destruct (merge_keeps_first b1 b2); intros x; specialize (J x); revert J; norm; lia.
    + destruct (split_at e2 post) as [[[p0 b2] p1]|] eqn:S3.
      * destruct (split_at_some _ _ _ _ _ S3) as [-> _].
        destruct (merge_fits cfg _ _); auto.
        destruct (merge_keeps_first b1 b2); intros x; specialize (J x); revert J; norm; lia.
      * destruct (add_fits cfg _ _); auto.
        pose proof (split_at_none _ _ S2) as Z1. pose proof (split_at_none _ _ S3) as Z3. pose proof (memN_false_cnt _ _ M2) as Z2.
        intros x. specialize (J x). revert J. norm. cbn [count_occ].
        destruct (N.eq_dec e2 x) as [<-|]; lia.
  - pose proof (split_at_none _ _ S1) as Z1.
    destruct (split_at e2 bl) as [[[pre b2] post]|] eqn:S2.
    + destruct (split_at_some _ _ _ _ _ S2) as [-> _].
      destruct (add_fits cfg _ _); auto.
      intros x. specialize (J x). revert J Z1. norm. cbn [count_occ].
      destruct (N.eq_dec e1 x) as [<-|]; lia.
    + pose proof (split_at_none _ _ S2) as Z2.
      intros x. specialize (J x). revert J. norm. cbn [concat count_occ app].
      destruct (N.eq_dec e1 x) as [E1|]; destruct (N.eq_dec e2 x) as [E2|]; try congruence; try subst x; lia.
Qed.

Lemma pairs_ok_cons p r : pairs_ok all (p :: r) = true ->
  fst p <> snd p /\ (1 <= cnt all (fst p))%nat /\ (1 <= cnt all (snd p))%nat /\ pairs_ok all r = true.
Proof.
  unfold pairs_ok. cbn [forallb]. intros H. apply andb_true_iff in H as [H Hr].
  apply andb_true_iff in H as [H H3]. apply andb_true_iff in H as [H1 H2].
  apply negb_true_iff, N.eqb_neq in H1. repeat split; auto using memN_true_cnt.
Qed.
Lemma loop_sub pairs : forall bl, sub bl -> pairs_ok all pairs = true -> sub (fold_left (step cfg size maxsz) pairs bl).
Proof.
  induction pairs as [|[e1 e2] r IH]; cbn [fold_left]; auto. intros bl J H.
  destruct (pairs_ok_cons _ _ H) as (H1 & H2 & H3 & H4). apply IH; auto. apply step_sub; auto.
Qed.

(** the leftovers all end up in overflow blocks when the first overflow block is still in the list *)
Lemma ovf_cnt left : forall others cur x,
  cnt (concat (ovf cfg size maxsz true left others cur)) x = (cnt (concat others) x + cnt cur x + cnt left x)%nat.
Proof.
  induction left as [|e r IH]; intros others cur x; cbn [ovf].
  - norm. cbn. lia.
  - destruct (ovf_full cfg _ _); rewrite IH; norm; cbn [concat count_occ app]; destruct (N.eq_dec e x); lia.
Qed.
Lemma filter_nonempty_cnt (out : blocks) x : cnt (concat (filter nonempty out)) x = cnt (concat out) x.
Proof.
  induction out as [|l r IH]; auto. cbn [filter]. destruct l; cbn [nonempty]; [exact IH|].
  rewrite !cnt_concat_cons, IH. reflexivity.
Qed.
Lemma filter_cnt (f : N -> bool) l x : cnt (filter f l) x = if f x then cnt l x else 0%nat.
Proof.
  induction l as [|y l IH]; cbn [filter count_occ]; [destruct (f x); auto|].
  destruct (f y) eqn:F; cbn [count_occ]; destruct (N.eq_dec y x) as [->|]; rewrite IH; try rewrite F; auto.
Qed.
Lemma nodupN_cnt l x : nodupN l = true -> (cnt l x <= 1)%nat.
Proof.
  induction l as [|y l IH]; cbn [nodupN count_occ]; auto. intros H. apply andb_true_iff in H as [H1 H2].
  apply negb_true_iff in H1. destruct (N.eq_dec y x) as [->|]; auto. rewrite (memN_false_cnt _ _ H1). lia.
Qed.

(** with the leftovers in ANY order (a Python set is iterated), every entity is in exactly as many blocks as it occurs in the
    list of all entities — once *)
Theorem build_with_places_every_entity pairs order :
  bcfg_ok cfg = true -> nodupN all = true -> pairs_ok all pairs = true ->
  (forall x, cnt order x = cnt (leftovers all (pair_loop cfg size maxsz pairs)) x) ->
  forall x, cnt (concat (build_with cfg size maxsz pairs order)) x = cnt all x.
Proof.
  intros C ND PO Hord x. unfold build_with, bcfg_ok in *. rewrite C.
  assert (J : sub (pair_loop cfg size maxsz pairs)) by (apply loop_sub; auto; intros y; cbn; lia).
  set (bl := pair_loop cfg size maxsz pairs) in *.
  assert (E : cnt (concat (ovf cfg size maxsz true order bl [])) x = cnt all x).
  { rewrite ovf_cnt, Hord. unfold leftovers. rewrite filter_cnt. cbn [count_occ].
    specialize (J x). pose proof (nodupN_cnt all x ND).
    destruct (memN x (concat bl)) eqn:M; cbn [negb].
    - apply memN_true_cnt in M. lia.
    - apply memN_false_cnt in M. lia. }
  destruct (drop_empty_after_leftovers cfg); [rewrite filter_nonempty_cnt|]; exact E.
Qed.
Theorem build_places_every_entity pairs :
  bcfg_ok cfg = true -> nodupN all = true -> pairs_ok all pairs = true ->
  forall x, cnt (concat (build cfg size maxsz all pairs)) x = cnt all x.
Proof. intros. apply build_with_places_every_entity; auto. Qed.

(** no block without entities is written when empty blocks are dropped at the end *)
Theorem build_has_no_empty_block pairs order : drop_empty_after_leftovers cfg = true ->
  Forall (fun b => b <> []) (build_with cfg size maxsz pairs order).
Proof.
  intros H. unfold build_with. rewrite H. apply Forall_forall. intros b I. apply filter_In in I as [_ I].
  destruct b; [discriminate | congruence].
Qed.
End Build.
