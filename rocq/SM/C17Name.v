(** C17 — Instance.fixup_name as a string function, interpreted over the decision table that
    translate/c17_formulas.py reads out of instancing.py (guard prefixes + one rule per FixupStyle).
    Strings are lists of code points (N), as everywhere in this development. *)
From Coq Require Import NArith List Bool.
Import ListNotations.
Open Scope N_scope.

Definition str := list N.

Inductive style := SPrefix | SSuffix | SNone.
(** A piece of a result template: the entity's own name, the instance's name, or literal text. *)
Inductive piece := PName | PInst | PLit (s : str).

Record name_cfg := { guard_prefixes : list str; rules : list (style * list piece) }.

Definition style_eqb (a b : style) : bool :=
  match a, b with SPrefix, SPrefix | SSuffix, SSuffix | SNone, SNone => true | _, _ => false end.

Fixpoint str_eqb (a b : str) : bool :=
  match a, b with
  | [], [] => true
  | x :: a', y :: b' => N.eqb x y && str_eqb a' b'
  | _, _ => false
  end.

(** Python's [name.startswith(p)]. *)
Fixpoint starts_with (p s : str) : bool :=
  match p, s with
  | [], _ => true
  | x :: p', y :: s' => N.eqb x y && starts_with p' s'
  | _ :: _, [] => false
  end.

Definition render (inst name : str) (ps : list piece) : str :=
  flat_map (fun p => match p with PName => name | PInst => inst | PLit s => s end) ps.

Fixpoint find_rule (st : style) (rs : list (style * list piece)) : option (list piece) :=
  match rs with
  | [] => None
  | (s, ps) :: r => if style_eqb st s then Some ps else find_rule st r
  end.

(** [None] = the AssertionError branch (no rule for the style). *)
Definition fixup_name (c : name_cfg) (st : style) (inst name : str) : option str :=
  match name with
  | [] => Some name
  | _ => if existsb (fun p => starts_with p name) (guard_prefixes c) then Some name
         else option_map (render inst name) (find_rule st (rules c))
  end.

(** What the table has to say (checked on the generated table by vm_compute, one named boolean each). *)
Definition AT : N := 64.   (* '@' *)
Definition BANG : N := 33. (* '!' *)
Definition DASH : N := 45. (* '-' *)

Fixpoint strs_eqb (a b : list str) : bool :=
  match a, b with
  | [], [] => true
  | x :: a', y :: b' => str_eqb x y && strs_eqb a' b'
  | _, _ => false
  end.

Definition piece_eqb (a b : piece) : bool :=
  match a, b with
  | PName, PName | PInst, PInst => true
  | PLit s, PLit t => str_eqb s t
  | _, _ => false
  end.
Fixpoint pieces_eqb (a b : list piece) : bool :=
  match a, b with
  | [], [] => true
  | x :: a', y :: b' => piece_eqb x y && pieces_eqb a' b'
  | _, _ => false
  end.
Definition rule_is (c : name_cfg) (st : style) (ps : list piece) : bool :=
  match find_rule st (rules c) with Some q => pieces_eqb q ps | None => false end.

Definition guards_ok (c : name_cfg) : bool := strs_eqb (guard_prefixes c) [[AT]; [BANG]].
Definition rule_none_ok (c : name_cfg) : bool := rule_is c SNone [PName].
Definition rule_prefix_ok (c : name_cfg) : bool := rule_is c SPrefix [PInst; PLit [DASH]; PName].
Definition rule_suffix_ok (c : name_cfg) : bool := rule_is c SSuffix [PName; PLit [DASH]; PInst].
Definition cfg_ok (c : name_cfg) : bool := guards_ok c && rule_none_ok c && rule_prefix_ok c && rule_suffix_ok c.

(** The reference table (what the property statement describes). *)
Definition ref_cfg : name_cfg :=
  {| guard_prefixes := [[AT]; [BANG]];
     rules := [(SNone, [PName]); (SPrefix, [PInst; PLit [DASH]; PName]); (SSuffix, [PName; PLit [DASH]; PInst])] |}.
