(** C17 — the property as one statement over the GENERATED objects: SM/C17WholeProofs.v instantiated with the generated
    placement arithmetic ([g_arith], Rot/C17GeomProofs.v) and stated for any census / list of copied classes / list of
    function skeletons that pass the named booleans the check evaluates on today's generated objects. *)
From Coq Require Import List Bool String NArith Permutation.
From SV Require Import SM.Store SM.StoreCopy SM.C17Frame SM.C17Global SM.C17Compose SM.C17Whole SM.C17WholeProofs
                       Rot.C17Base Rot.C17GeomProofs.
Import ListNotations.

Section Property.
  Variable all : list (string * census).                 (* C09's copy census *)
  Variable copied : list string.                         (* classes collapse_one copies *)
  Variable fns : list (list N * skel).                   (* skeletons of the functions touching module-level state *)
  Hypothesis fresh : copied_classes_fresh all copied = true.
  Hypothesis gates : forallb (fun f => fn_ok (snd f)) fns = true.
  Variable name : list N.
  Variable body : skel.
  Hypothesis present : In (name, body) fns.

  Variables X G A D : Type.
  Variable a : loc.
  Variable m : sem (pstate X) G.
  Hypothesis resp : respects all copied X G a m.
  Variable enter : A -> X.
  Variable content : X -> list (item D).

  Lemma body_ok : fn_ok body = true.
  Proof. rewrite forallb_forall in gates. exact (gates _ present). Qed.

  Notation collapse := (collapse X G m A D g_arith body enter content).

  Theorem property_each_collapse_as_if_first : forall cs t g g0, wf_T a t ->
    c_history T G placement A (added D) collapse cs t g =
    map (as_if_first T G placement A (added D) collapse ident_placement (transform D g_arith) t g0) cs.
  Proof. exact (whole_each_collapse_as_if_first all copied fresh X G a m resp A D g_arith g_arith_identity body body_ok enter content). Qed.

  Theorem property_order_independent : forall cs cs' t g, wf_T a t -> Permutation cs cs' ->
    Permutation (c_history T G placement A (added D) collapse cs t g) (c_history T G placement A (added D) collapse cs' t g).
  Proof. exact (whole_order_independent all copied fresh X G a m resp A D g_arith g_arith_identity body body_ok enter content). Qed.

  Theorem property_template_intact : forall cs t g, wf_T a t ->
    let t' := final_T X G m A D g_arith body enter content cs t g in
    wf_T a t' /\ forall n, unfold n (fst t') (VRef a) = unfold n (fst t) (VRef a).
  Proof. exact (whole_template_intact all copied fresh X G a m resp A D g_arith body enter content). Qed.
End Property.
