(** C17 — a VMM manifest entry (instancing.Manifest) is an Instance at origin 0 with the identity rotation and the fixup
    style NONE (obligation `manifest_identity_placement_names_unaltered`, read from Manifest.__init__): collapsing it
    alters no name and no position / direction / texture axis / orientation. *)
From Coq Require Import List NArith Reals.
From SV Require Import Rot.C17Base Rot.C17GeomProofs SM.C17Name SM.C17NameProofs SM.C17Global SM.C17Whole SM.C17WholeProofs.
Import ListNotations.

Lemma manifest_names_unaltered : forall c, cfg_ok c = true -> forall inst name, fixup_name c SNone inst name = Some name.
Proof.
  intros c H inst name. destruct (fixup_name_cases c H SNone inst name) as (E & S & O).
  destruct name as [|ch rest]; [apply E; reflexivity|].
  destruct (N.eq_dec ch AT) as [A|A]; [apply (S ch rest eq_refl); left; exact A|].
  destruct (N.eq_dec ch BANG) as [B|B]; [apply (S ch rest eq_refl); right; exact B|].
  rewrite (O ch rest eq_refl A B). reflexivity.
Qed.

Lemma manifest_content_unaltered : forall D (r : added D), transform D g_arith ident_placement r = r.
Proof. intros. apply transform_ident. exact g_arith_identity. Qed.
