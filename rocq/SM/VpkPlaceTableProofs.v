(** Accepted tables mean [write_info] / [read_info] / [verify_info] of SM/Vpk.v on all inputs. *)
From Coq Require Import List NArith Bool Lia.
From SV Require Import Fmt.VpkDir SM.Vpk SM.VpkProofs SM.VpkPlace SM.VpkPlaceProofs SM.VpkPlaceTable.
Import ListNotations.
Open Scope N_scope.

Lemma beq_true a b : Bool.eqb a b = true -> a = b.
Proof. destruct a, b; cbn; congruence. Qed.
Lemma lim_eqb_true a b : lim_eqb a b = true -> a = b.
Proof. destruct a, b; cbn; congruence. Qed.
Lemma cut_eqb_true a b : cut_eqb a b = true -> a = b.
Proof. destruct a, b; cbn; congruence. Qed.
Lemma dest_eqb_true a b : dest_eqb a b = true -> a = b.
Proof. destruct a, b; cbn; congruence. Qed.
Lemma off_eqb_true a b : off_eqb a b = true -> a = b.
Proof. destruct a, b; cbn; congruence. Qed.

Theorem write_info_t_is_write_info pt : place_table_ok pt = true -> forall crc cf st i d ix,
  write_info_t pt crc cf st i d ix = Some (write_info crc cf st i d ix).
Proof.
  intros Hok crc cf st i d ix. unfold place_table_ok in Hok. apply andb_true_iff in Hok. destruct Hok as [Hrows Hcov].
  unfold write_info_t, write_info. destruct (crc d =? icrc i); [reflexivity|].
  rewrite split_rule_want.
  set (wc := want_cut (v_is_dir cf) (class_of cf)).
  set (tail := skipn (N.to_nat (cut_val cf wc)) d).
  destruct (find (row_applies cf d ix) pt) as [r|] eqn:Hf.
  - apply find_some in Hf. destruct Hf as [Hin Ha].
    rewrite forallb_forall in Hrows. specialize (Hrows r Hin).
    unfold row_applies in Ha. apply andb_true_iff in Ha. destruct Ha as [Ha Ht]. apply andb_true_iff in Ha. destruct Ha as [Ha Hi].
    apply andb_true_iff in Ha. destruct Ha as [Hd Hl].
    apply beq_true in Hd, Hi, Ht. apply lim_eqb_true in Hl.
    unfold row_ok, row_cut_ok, row_dest_ok in Hrows. apply andb_true_iff in Hrows. destruct Hrows as [Hc Hds].
    apply andb_true_iff in Hc. destruct Hc as [Hc _]. apply andb_true_iff in Hds. destruct Hds as [Hds Hsn].
    apply andb_true_iff in Hds. destruct Hds as [Hds Hof].
    apply cut_eqb_true in Hc. apply dest_eqb_true in Hds. apply off_eqb_true in Hof. apply beq_true in Hsn.
    rewrite Hd, Hl in Hc. fold wc in Hc. rewrite Hc in Ht |- *. fold tail in Ht |- *.
    rewrite Hd, Hl, Hi, Ht in Hds. rewrite Hd, Hl, Hi, Ht in Hof. rewrite Hd, Hl, Hi, Ht in Hsn. rewrite Hds, Hof, Hsn. clear Hds Hof Hsn.
    unfold want_dest. destruct tail as [|t0 tl] eqn:Et; cbn [lnil].
    + reflexivity.
    + destruct (forced (v_is_dir cf) (class_of cf)); cbn [orb want_off dest_eqb negb].
      * reflexivity.
      * destruct ix as [x|]; cbn [onone want_off dest_eqb negb]; reflexivity.
  - exfalso. unfold covers in Hcov. rewrite forallb_forall in Hcov.
    assert (Hs : In (v_is_dir cf, class_of cf, onone ix, lnil tail) all_scen).
    { destruct (v_is_dir cf), (class_of cf), (onone ix), (lnil tail); cbn; tauto. }
    specialize (Hcov _ Hs). cbn beta iota in Hcov. apply existsb_exists in Hcov. destruct Hcov as [r [Hin Hr]].
    pose proof (find_none _ _ Hf _ Hin) as Hn.
    rewrite forallb_forall in Hrows. specialize (Hrows r Hin).
    unfold row_ok, row_cut_ok in Hrows. apply andb_true_iff in Hrows. destruct Hrows as [Hc _]. apply andb_true_iff in Hc. destruct Hc as [Hc _].
    apply cut_eqb_true in Hc.
    apply andb_true_iff in Hr. destruct Hr as [Hr Ht]. apply andb_true_iff in Hr. destruct Hr as [Hr Hi].
    apply andb_true_iff in Hr. destruct Hr as [Hd Hl].
    unfold row_applies in Hn. rewrite Hd, Hl, Hi in Hn. cbn [andb] in Hn.
    apply beq_true in Hd. apply lim_eqb_true in Hl. rewrite Hd, Hl in Hc. fold wc in Hc. rewrite Hc in Hn. fold tail in Hn.
    rewrite Ht in Hn. discriminate.
Qed.

Theorem read_info_t_is_read_info rt : read_table_ok rt = true -> forall crc st i,
  read_info_t rt st i = Some (read_info st i) /\ verify_info_t rt crc st i = Some (verify_info crc st i).
Proof.
  intros Hok crc st i. unfold read_table_ok in Hok. apply andb_true_iff in Hok. destruct Hok as [Hrows Hcov].
  unfold read_info_t, verify_info_t.
  destruct (find (rrow_applies i) rt) as [r|] eqn:Hf.
  - apply find_some in Hf. destruct Hf as [Hin Ha].
    rewrite forallb_forall in Hrows. specialize (Hrows r Hin).
    unfold rrow_applies in Ha. apply andb_true_iff in Ha. destruct Ha as [Hz Hn]. apply beq_true in Hz, Hn.
    unfold rrow_ok in Hrows. apply andb_true_iff in Hrows. destruct Hrows as [Hr Hv].
    assert (E : forall a b, rsrc_eqb a b = true -> a = b) by (intros [] []; cbn; congruence).
    apply E in Hr, Hv. rewrite Hz, Hn in Hr, Hv. rewrite Hr, Hv.
    unfold verify_info, read_info, container, want_src.
    destruct (ilen i =? 0); cbn [src_bytes]; [split; reflexivity|].
    destruct (iidx i) as [x|] eqn:Ei; cbn [onone src_bytes]; rewrite ?Ei; split; reflexivity.
  - exfalso. rewrite forallb_forall in Hcov.
    assert (Hs : In (ilen i =? 0, onone (iidx i)) [(false, false); (false, true); (true, false); (true, true)]).
    { destruct (ilen i =? 0), (onone (iidx i)); cbn; tauto. }
    specialize (Hcov _ Hs). apply existsb_exists in Hcov. destruct Hcov as [r [Hin Hr]].
    pose proof (find_none _ _ Hf _ Hin) as Hn. unfold rrow_applies in Hn. cbn [fst snd] in Hr. rewrite Hr in Hn. discriminate.
Qed.
