(** C17 — "the instance template itself is not modified": what collapse_one writes, against what copy() shares.

    collapse_one touches the template only by calling [.copy()] on its brushes, entities and visgroups (census of
    call sites in Gen/C17Formulas_gen.v) and then works on the copies: [Solid.localise] / [Side.localise] modify
    vectors IN PLACE ([p.localise(...)], [vert.normal @= orient]), the keyvalue / output / fixup loops store into the
    copy.  That is harmless exactly when copy() made those objects afresh.  What copy() does per field is C09's copy
    census (Gen/CopyCensus_gen.v, SM/StoreCopy.v — used read-only here); which fields localise modifies in place is
    read off the symbolic execution of the method bodies by translate/c17_formulas.py ([g_localise_writes]). *)
From Coq Require Import List String Bool.
From SV Require Import SM.Store SM.StoreCopy.
Import ListNotations.
Open Scope string_scope.

Inductive wmode := WInPlace | WRebound | WUntouched.
Definition write := (string * string * wmode)%type.       (* (census name of the class, field, how localise treats it) *)

Fixpoint lookup_census (all : list (string * census)) (cls : string) : option census :=
  match all with
  | [] => None
  | (n, c) :: r => if String.eqb n cls then Some c else lookup_census r cls
  end.

Fixpoint lookup_field (c : census) (f : string) : option (kind * how) :=
  match c with
  | [] => None
  | (n, k, w) :: r => if String.eqb n f then Some (k, w) else lookup_field r f
  end.

Definition field_how (all : list (string * census)) (cls f : string) : option (kind * how) :=
  match lookup_census all cls with Some c => lookup_field c f | None => None end.

(** A field whose object is modified in place must have been copied deeply; every written field must be known. *)
Definition write_ok (all : list (string * census)) (w : write) : bool :=
  match w with
  | (cls, f, WInPlace) => match field_how all cls f with Some (_, HDeep) => true | _ => false end
  | (cls, f, _) => match field_how all cls f with Some _ => true | None => false end
  end.
Definition writes_ok (all : list (string * census)) (ws : list write) : bool := forallb (write_ok all) ws.

(** The classes copy() reaches from a class collapse_one copies (hand-written closure over the HDeep fields). *)
Definition copy_closure (cls : string) : option (list string) :=
  if String.eqb cls "Solid" then Some ["Solid"; "Side"; "DispVertex_in_Side"; "UVAxis"]
  else if String.eqb cls "Entity" then
    Some ["Entity"; "Output"; "EntityFixup_copy_values"; "FixupValue_in_EntityFixup_copy_values";
          "Solid"; "Side"; "DispVertex_in_Side"; "UVAxis"]
  else if String.eqb cls "VisGroup" then Some ["VisGroup"]
  else None.

Definition class_fresh (all : list (string * census)) (cls : string) : bool :=
  match lookup_census all cls with Some c => copy_fresh_mutables c | None => false end.

Definition copied_classes_fresh (all : list (string * census)) (copied : list string) : bool :=
  forallb (fun cls => match copy_closure cls with Some l => forallb (class_fresh all) l | None => false end) copied.

(** Names of the offenders, for the failure report. *)
Definition writes_not_ok (all : list (string * census)) (ws : list write) : list (string * string) :=
  map (fun w => (fst (fst w), snd (fst w))) (filter (fun w => negb (write_ok all w)) ws).

(** Any number of collapses of one template, interleaved with arbitrary work on the copies made so far.
    [R] = the copies the code holds; a collapse adds a copy ([col_copy]: the heap is extended, the new root reaches
    only NEW mutable locations — which is what C09's census theorem [census_copy_new_mut] concludes for a copy built
    as a fresh census says); between and after the copies, any in-place stores / allocations through [R] ([col_work]:
    localise, keyvalue and output fixups, adding the copies to the map, other instances' collapses). *)
Inductive collapses : heap -> list loc -> heap -> list loc -> Prop :=
| col_done h R : collapses h R h R
| col_work h R ms h1 R1 h2 R2 :
    steps (h, R) ms (h1, R1) -> collapses h1 R1 h2 R2 -> collapses h R h2 R2
| col_copy h R h1 lc h2 R2 :
    closed h1 -> extends h h1 -> alloc h1 lc -> new_mut h h1 (VRef lc) ->
    collapses h1 (lc :: R) h2 R2 -> collapses h R h2 R2.
