(** State-machine model of [srctools.vpk.VPK] / [FileInfo] (vpk.py): the file table, numbered archives as
    append-only byte lists, [footer_data], the bytes of the _dir file on disk, the open mode; operations
    new_file / add_file / FileInfo.write / del / write_dirfile / reopen in a mode.
    Next to it the specification: a finite map from names to the bytes last written.
    Executable definitions only; proofs are in VpkProofs.v. *)
From Coq Require Import List NArith Bool.
From SV Require Import Fmt.VpkDir.
Import ListNotations.
Open Scope N_scope.

(** ---- byte strings, keys, association lists (Python dict semantics, insertion ordered) ---- *)
Fixpoint bytes_eqb (a b : bytes) : bool :=
  match a, b with
  | [], [] => true
  | x :: a', y :: b' => (x =? y) && bytes_eqb a' b'
  | _, _ => false
  end.
Definition key_eqb (a b : key) : bool :=
  let '(e1, d1, n1) := a in let '(e2, d2, n2) := b in bytes_eqb e1 e2 && bytes_eqb d1 d2 && bytes_eqb n1 n2.

(** Lexicographic order on byte strings (= Python's order on ASCII/surrogateescape str). *)
Fixpoint bytes_ltb (a b : bytes) : bool :=
  match a, b with
  | [], [] => false
  | [], _ :: _ => true
  | _ :: _, [] => false
  | x :: a', y :: b' => if x <? y then true else if y <? x then false else bytes_ltb a' b'
  end.

Section assoc.
  Context {V : Type}.
  Fixpoint alookup (k : key) (l : list (key * V)) : option V :=
    match l with [] => None | (k', v) :: r => if key_eqb k k' then Some v else alookup k r end.
  Fixpoint aset (k : key) (v : V) (l : list (key * V)) : list (key * V) :=
    match l with
    | [] => [(k, v)]
    | (k', v') :: r => if key_eqb k k' then (k, v) :: r else (k', v') :: aset k v r
    end.
  Fixpoint adel (k : key) (l : list (key * V)) : list (key * V) :=
    match l with [] => [] | (k', v') :: r => if key_eqb k k' then adel k r else (k', v') :: adel k r end.
End assoc.

(** ---- grouping and sorting the table the way write_dirfile walks it ---- *)
Section sorted.
  Context {V : Type}.
  (** find-or-create the group [k] of a sorted association list and update it *)
  Fixpoint upsert (k : bytes) (f : option V -> V) (l : list (bytes * V)) : list (bytes * V) :=
    match l with
    | [] => [(k, f None)]
    | (k', v) :: r =>
        if bytes_eqb k k' then (k, f (Some v)) :: r
        else if bytes_ltb k k' then (k, f None) :: l
        else (k', v) :: upsert k f r
    end.
  (** sorted insertion (never replaces) *)
  Fixpoint sins (k : bytes) (v : V) (l : list (bytes * V)) : list (bytes * V) :=
    match l with
    | [] => [(k, v)]
    | (k', v') :: r => if bytes_ltb k k' then (k, v) :: l else (k', v') :: sins k v r
    end.
End sorted.

Definition odflt {A} (o : option (list A)) : list A := match o with Some l => l | None => [] end.
Definition tree_insert (kv : key * info) (t : tree) : tree :=
  let '((e, d, n), i) := kv in
  upsert e (fun od => upsert d (fun ofs => sins n i (odflt ofs)) (odflt od)) t.
(** sorted(items) at the three levels of write_dirfile, for a table with distinct keys *)
Definition tree_of (tb : list (key * info)) : tree := fold_right tree_insert [] tb.

(** ---- configuration and state ---- *)
Inductive mode := MR | MW | MA.
Definition writable (m : mode) : bool := match m with MR => false | _ => true end.

Record vcfg := {
  v_dc : dcfg;                (* format constants *)
  v_is_dir : bool;            (* file name ends in _dir.vpk (VPK._dir_prefix is not None) *)
  v_limit : option N;         (* VPK.dir_limit *)
  v_max_pre : N;              (* MAX_PRELOAD *)
  v_chk_idx : bool;           (* write/add_file validate the archive index *)
  v_chk_name : bool           (* new_file validates that the name is representable *)
}.

Record vstate := {
  tbl : list (key * info);    (* VPK._fileinfo, flattened: (ext, folder, name) -> FileInfo *)
  archs : list (N * bytes);   (* numbered archive files on disk *)
  foot : bytes;               (* VPK.footer_data *)
  disk : bytes;               (* contents of the _dir / singular file on disk *)
  md : mode
}.

Fixpoint arch_get (x : N) (a : list (N * bytes)) : bytes :=
  match a with [] => [] | (y, b) :: r => if x =? y then b else arch_get x r end.
Fixpoint arch_app (x : N) (d : bytes) (a : list (N * bytes)) : list (N * bytes) :=
  match a with
  | [] => [(x, d)]
  | (y, b) :: r => if x =? y then (y, b ++ d) :: r else (y, b) :: arch_app x d r
  end.

Definition slice (b : bytes) (off n : N) : bytes := firstn (N.to_nat n) (skipn (N.to_nat off) b).

(** result codes of one operation *)
Definition rOk := 0.  Definition rReadOnly := 1.  Definition rExists := 2.  Definition rMissing := 3.
Definition rBadName := 4.  Definition rBadIndex := 5.  Definition rBadDir := 6.

Inductive op :=
| ONew (k : key)
| OAdd (k : key) (d : bytes) (ix : option N)
| OWrite (k : key) (d : bytes) (ix : option N)
| ODel (k : key)
| OSave
| OReopen (m : mode).

Section machine.
  Variable crc : bytes -> N.     (* binformat.checksum = zlib.crc32 *)
  Variable cf : vcfg.

  Definition container (st : vstate) (i : info) : bytes :=
    match iidx i with None => foot st | Some x => arch_get x (archs st) end.
  (** FileInfo.read *)
  Definition read_info (st : vstate) (i : info) : bytes :=
    ipre i ++ (if ilen i =? 0 then [] else slice (container st i) (ioff i) (ilen i)).
  (** FileInfo.verify (crc32 of the parts chained = crc32 of the concatenation) *)
  Definition verify_info (st : vstate) (i : info) : bool := crc (read_info st i) =? icrc i.

  Definition empty_info : info := mkInfo (crc []) [] None 0 0.

  (** how FileInfo.write splits the data: (preload limit, forced into the directory file?) *)
  Definition split_rule : N * bool :=
    match v_is_dir cf, v_limit cf with
    | true, Some l => (N.min l (v_max_pre cf), false)
    | _, _ => (v_max_pre cf, true)
    end.

  Definition idx_ok (ix : option N) : bool :=
    match ix with None => true | Some x => x <? c_dir_index (v_dc cf) end.
  Definition idx_rejected (ix : option N) : bool := v_chk_idx cf && v_is_dir cf && negb (idx_ok ix).
  Definition name_rejected (k : key) : bool := v_chk_name cf && negb (key_ok k).

  (** body of FileInfo.write after the mode and index checks *)
  Definition write_info (st : vstate) (i : info) (d : bytes) (ix : option N) : vstate * info :=
    let c := crc d in
    if c =? icrc i then (st, i) else
    let '(lim, force) := split_rule in
    let ix' := if force then None else ix in
    let pre := firstn (N.to_nat lim) d in
    let tail := skipn (N.to_nat lim) d in
    match tail with
    | [] => (st, mkInfo c pre None 0 0)
    | _ =>
      match ix' with
      | None => ({| tbl := tbl st; archs := archs st; foot := foot st ++ tail; disk := disk st; md := md st |},
                 mkInfo c pre None (len (foot st)) (len tail))
      | Some x => ({| tbl := tbl st; archs := arch_app x tail (archs st); foot := foot st; disk := disk st; md := md st |},
                   mkInfo c pre (Some x) (len (arch_get x (archs st))) (len tail))
      end
    end.

  Definition with_tbl (st : vstate) (t : list (key * info)) : vstate :=
    {| tbl := t; archs := archs st; foot := foot st; disk := disk st; md := md st |}.

  Definition do_write (st : vstate) (k : key) (i : info) (d : bytes) (ix : option N) : vstate :=
    let '(st', i') := write_info st i d ix in with_tbl st' (aset k i' (tbl st')).

  Definition load_table (es : list (key * info)) : list (key * info) :=
    fold_left (fun t e => aset (fst e) (snd e) t) es [].

  (** One operation; [None] = write_dirfile hit struct.error (a field does not fit its slot). *)
  Definition step (st : vstate) (o : op) : option (vstate * N) :=
    match o with
    | ONew k =>
        if negb (writable (md st)) then Some (st, rReadOnly)
        else if name_rejected k then Some (st, rBadName)
        else match alookup k (tbl st) with
             | Some _ => Some (st, rExists)
             | None => Some (with_tbl st (aset k empty_info (tbl st)), rOk)
             end
    | OAdd k d ix =>
        if negb (writable (md st)) then Some (st, rReadOnly)
        else if idx_rejected ix then Some (st, rBadIndex)
        else if name_rejected k then Some (st, rBadName)
        else match alookup k (tbl st) with
             | Some _ => Some (st, rExists)
             | None => Some (do_write st k empty_info d ix, rOk)
             end
    | OWrite k d ix =>
        match alookup k (tbl st) with
        | None => Some (st, rMissing)
        | Some i =>
            if negb (writable (md st)) then Some (st, rReadOnly)
            else if idx_rejected ix then Some (st, rBadIndex)
            else Some (do_write st k i d ix, rOk)
        end
    | ODel k =>
        if negb (writable (md st)) then Some (st, rReadOnly)
        else match alookup k (tbl st) with
             | None => Some (st, rMissing)
             | Some _ => Some (with_tbl st (adel k (tbl st)), rOk)
             end
    | OSave =>
        if negb (writable (md st)) then Some (st, rReadOnly)
        else match enc_file (v_dc cf) (tree_of (tbl st)) (foot st) with
             | None => None
             | Some b => Some ({| tbl := tbl st; archs := archs st; foot := foot st; disk := b; md := md st |}, rOk)
             end
    | OReopen MW =>
        Some ({| tbl := []; archs := archs st; foot := []; disk := []; md := MW |}, rOk)
    | OReopen m =>
        match dec_file (v_dc cf) (disk st) with
        | None => Some (st, rBadDir)
        | Some (es, f) => Some ({| tbl := load_table es; archs := archs st; foot := f; disk := disk st; md := m |}, rOk)
        end
    end.

  (** VPK(path, mode='w') in an empty directory *)
  Definition init : vstate := {| tbl := []; archs := []; foot := []; disk := []; md := MW |}.

  Fixpoint run (st : vstate) (ops : list op) : option (vstate * list N) :=
    match ops with
    | [] => Some (st, [])
    | o :: r => match step st o with
                | None => None
                | Some (st', c) => match run st' r with None => None | Some (st'', cs) => Some (st'', c :: cs) end
                end
    end.

  (** observations: name -> (contents, verify()) *)
  Definition observe (st : vstate) : list (key * (bytes * bool)) :=
    map (fun e => (fst e, (read_info st (snd e), verify_info st (snd e)))) (tbl st).
End machine.

(** ---- the specification: a map from names to contents, and the map last saved ---- *)
Record spec := { cur : list (key * bytes); saved : option (list (key * bytes)); smd : mode }.
Definition sinit : spec := {| cur := []; saved := None; smd := MW |}.

Section specm.
  Variable cf : vcfg.
  Definition with_cur (s : spec) (c : list (key * bytes)) : spec := {| cur := c; saved := saved s; smd := smd s |}.
  Definition sstep (s : spec) (o : op) : spec * N :=
    match o with
    | ONew k =>
        if negb (writable (smd s)) then (s, rReadOnly)
        else if name_rejected cf k then (s, rBadName)
        else match alookup k (cur s) with Some _ => (s, rExists) | None => (with_cur s (aset k [] (cur s)), rOk) end
    | OAdd k d ix =>
        if negb (writable (smd s)) then (s, rReadOnly)
        else if idx_rejected cf ix then (s, rBadIndex)
        else if name_rejected cf k then (s, rBadName)
        else match alookup k (cur s) with Some _ => (s, rExists) | None => (with_cur s (aset k d (cur s)), rOk) end
    | OWrite k d ix =>
        match alookup k (cur s) with
        | None => (s, rMissing)
        | Some _ => if negb (writable (smd s)) then (s, rReadOnly)
                    else if idx_rejected cf ix then (s, rBadIndex)
                    else (with_cur s (aset k d (cur s)), rOk)
        end
    | ODel k =>
        if negb (writable (smd s)) then (s, rReadOnly)
        else match alookup k (cur s) with None => (s, rMissing) | Some _ => (with_cur s (adel k (cur s)), rOk) end
    | OSave =>
        if negb (writable (smd s)) then (s, rReadOnly)
        else ({| cur := cur s; saved := Some (cur s); smd := smd s |}, rOk)
    | OReopen MW => ({| cur := []; saved := None; smd := MW |}, rOk)
    | OReopen m =>
        match saved s with
        | None => (s, rBadDir)
        | Some c => ({| cur := c; saved := saved s; smd := m |}, rOk)
        end
    end.
  Fixpoint srun (s : spec) (ops : list op) : spec * list N :=
    match ops with
    | [] => (s, [])
    | o :: r => let '(s', c) := sstep s o in let '(s'', cs) := srun s' r in (s'', c :: cs)
    end.
End specm.

(** ---- CRC-32 (zlib polynomial), used to run the model against the implementation ---- *)
Definition crc_step (c : N) : N :=
  if N.odd c then N.lxor (N.shiftr c 1) 3988292384 else N.shiftr c 1.
Definition crc_byte (c b : N) : N :=
  let c := N.lxor c b in
  crc_step (crc_step (crc_step (crc_step (crc_step (crc_step (crc_step (crc_step c))))))).
Definition crc32 (d : bytes) : N := N.lxor (fold_left crc_byte d 4294967295) 4294967295.
