(** C18 — the operations of RawFileSystem / FileSystemChain as data flow into the operating system.

    Every call that reaches the file system (open, os.walk, os.stat, os.path.isfile, ...) is an *access site*
    whose path argument is a [pexp]: an expression over the method's string parameter, the strings stored in a
    [File] handle, the chain prefix and what os.walk produced.  translate/c18_ops.py regenerates the table of
    sites from filesys.py on every run (Gen/FsOps_gen.v); the theorems in SM/PathOpsProofs.v are generic in the
    table and ask only for the boolean [site_ok] of every site.  *)
From Coq Require Import List NArith Bool String.
From SV Require Import SM.PathNorm.
Import ListNotations.

Inductive pexp : Type :=
| PArg                      (* the str parameter of the method: name / folder / path *)
| PHandleData               (* self._get_data(file): the string a File handle carries as data *)
| PHandlePath               (* file.path of a File handle *)
| PPrefix                   (* the subfolder prefix of a FileSystemChain member *)
| PWalked                   (* any string computed from what os.walk yielded (dirpath, file names, relpath of them) *)
| PSelfRoot                 (* self.path *)
| PLit (s : str)
| PUnbs (e : pexp)          (* e.replace('\\', '/') *)
| PJoin (a b : pexp)        (* os.path.join(a, b) *)
| PResolve (e : pexp).      (* self._resolve_path(e) *)

(** All strings an operation can be handed from outside: nothing is assumed about any of them. *)
Record inp := { i_arg : str; i_data : str; i_hpath : str; i_prefix : str; i_walked : str }.

(** Value of a path expression inside RawFileSystem(root_arg, constrain_path=con) whose guard is [g];
    [None] = RootEscapeError was raised while computing it (so the enclosing OS call is never made). *)
Fixpoint peval (g : gx) (con : bool) (cwd root_arg : str) (i : inp) (e : pexp) : option str :=
  match e with
  | PArg => Some (i_arg i)
  | PHandleData => Some (i_data i)
  | PHandlePath => Some (i_hpath i)
  | PPrefix => Some (i_prefix i)
  | PWalked => Some (i_walked i)
  | PSelfRoot => Some (abspath cwd root_arg)
  | PLit s => Some s
  | PUnbs a => option_map unbackslash (peval g con cwd root_arg i a)
  | PJoin a b =>
      match peval g con cwd root_arg i a, peval g con cwd root_arg i b with
      | Some x, Some y => Some (pjoin x y)
      | _, _ => None
      end
  | PResolve a =>
      match peval g con cwd root_arg i a with
      | Some s => match resolve g con cwd root_arg s with Ok r => Some r | Escape => None end
      | None => None
      end
  end.

(** An access site: method, OS callee, which dynamic branch ("str" / "File"), and the path it hands to the OS. *)
Record site := { st_method : string; st_callee : string; st_branch : string; st_arg : pexp }.

(** The only shape that is safe for every input: the OS receives the *result* of _resolve_path. *)
Definition is_resolved (e : pexp) : bool := match e with PResolve _ => true | _ => false end.
Definition site_ok (s : site) : bool := is_resolved (st_arg s).
Definition sites_ok (l : list site) : bool := forallb site_ok l.

(** The paths method [m] (dynamic branch [b]) hands to the OS on input [i], with the callee of each:
    used by the correspondence between this model and the observed accesses of the implementation. *)
Definition site_accesses (g : gx) (cwd root_arg : str) (i : inp) (m b : string) (sites : list site) : list (string * str) :=
  flat_map (fun s => if (String.eqb (st_method s) m && String.eqb (st_branch s) b)%bool
                     then match peval g true cwd root_arg i (st_arg s) with Some a => [(st_callee s, a)] | None => [] end
                     else []) sites.
Definition has_method (m b : string) (sites : list site) : bool :=
  existsb (fun s => (String.eqb (st_method s) m && String.eqb (st_branch s) b)%bool) sites.

(** Does an expression read the strings carried by a File handle? *)
Fixpoint reads_handle (e : pexp) : bool :=
  match e with
  | PHandleData | PHandlePath => true
  | PUnbs a | PResolve a => reads_handle a
  | PJoin a b => reads_handle a || reads_handle b
  | _ => false
  end.
(** Sites that consume a File handle: each must re-validate the string the handle carries. *)
Definition handle_sites (l : list site) : list site := filter (fun s => reads_handle (st_arg s)) l.

(** A File construction site: the method, the expression stored as File.path, the expression stored as data. *)
Record store := { so_method : string; so_path : pexp; so_data : pexp }.

(** Is what a handle stores literally the string that was validated?  ([name] validated, [name.replace] stored
    is NOT: that is why every consumer has to validate again.) *)
Fixpoint pexp_eqb (a b : pexp) : bool :=
  match a, b with
  | PArg, PArg | PHandleData, PHandleData | PHandlePath, PHandlePath | PPrefix, PPrefix
  | PWalked, PWalked | PSelfRoot, PSelfRoot => true
  | PLit s, PLit t => str_eqb s t
  | PUnbs x, PUnbs y => pexp_eqb x y
  | PResolve x, PResolve y => pexp_eqb x y
  | PJoin x1 x2, PJoin y1 y2 => pexp_eqb x1 y1 && pexp_eqb x2 y2
  | _, _ => false
  end.

(** A FileSystemChain call into a member: chain method, member method, the string expression it passes. *)
Record ccall := { cc_method : string; cc_member : string; cc_arg : pexp }.

(** The path a member's access site receives when the chain calls the member with [cc_arg]. *)
Definition chain_access (g : gx) (cwd root_arg : str) (i : inp) (c : ccall) (s : site) : option str :=
  match peval g true cwd root_arg i (cc_arg c) with
  | Some a => peval g true cwd root_arg
                {| i_arg := a; i_data := i_data i; i_hpath := i_hpath i; i_prefix := i_prefix i; i_walked := i_walked i |}
                (st_arg s)
  | None => None
  end.

(** os.walk: every dirpath is the top joined with directory-entry names; entry names contain no separator and
    are never '', '.' or '..' (what the OS hands out).  Used as hypothesis on a Section variable. *)
Definition entry_nameb (c : str) : bool :=
  forallb (fun x => negb (is_sep x)) c && negb (skip c) && negb (is_dotdot c).
Fixpoint descend (top : str) (names : list str) : str :=
  match names with [] => top | n :: r => descend (pjoin top n) r end.

(** _resolve_path with the working directory at construction time ([cwd0], consulted by __init__'s abspath) and at
    call time ([cwd1], consulted by _resolve_path's abspath) kept apart: os.chdir may happen in between. *)
Definition resolve2 (raise_if : gx) (con : bool) (cwd0 cwd1 root_arg path : str) : res :=
  let root := abspath cwd0 root_arg in
  let a := abspath cwd1 (pjoin root path) in
  if geval {| e_abs := a; e_root := root; e_con := con |} raise_if then Escape else Ok a.
