(** C09 round 3 — proofs about the argument-flow census (SM/StoreCopyFlow.v). *)
From Coq Require Import List PArith ZArith Bool String Lia.
From SV Require Import SM.Store SM.StoreCopy SM.StoreCopySrc SM.StoreCopyFlow.
Import ListNotations.

(** A field computed by [f] from the original's field is complete for the original holding [z] iff [f] fixes [z]. *)
Lemma field_complete_iff : forall f z, field_complete f z <-> f z = z.
Proof.
  intros f z. unfold field_complete, obs_eq. split.
  - intros H. specialize (H 1%nat). cbn in H. injection H. auto.
  - intros E n. destruct n as [|n]; [reflexivity|]. cbn. rewrite E. destruct n; reflexivity.
Qed.

(** COMPLETENESS OF A DERIVED FIELD: complete for EVERY original iff the derivation is the identity. *)
Theorem derived_field_complete_iff : forall g : Z -> Z,
  (forall z, field_complete g z) <-> (forall z, g z = z).
Proof.
  intros g. split; intros H z.
  - apply (proj1 (field_complete_iff g z)). apply H.
  - apply (proj2 (field_complete_iff g z)). apply H.
Qed.

Theorem flow_ident_complete : forall m d g z,
  m = FIdent \/ m = FPresence -> field_complete (flow_fun m d g) z.
Proof. intros m d g z [E|E]; subst; apply field_complete_iff; reflexivity. Qed.

(** [p or default]: complete exactly for truthy values (or when the default is the falsy value itself). *)
Theorem flow_ordefault_complete_iff : forall d g z,
  field_complete (flow_fun FOrDefault d g) z <-> (z <> 0%Z \/ d = 0%Z).
Proof.
  intros d g z. rewrite field_complete_iff. cbn [flow_fun]. destruct (Z.eqb_spec z 0).
  - subst. split; [intros E; right; exact E | intros [E|E]; [contradiction | exact E]].
  - split; [intros _; left; assumption | reflexivity].
Qed.

(** Every flow mode [copy_args_lossless] admits is complete on truthy values, whatever the lossy path computes. *)
Theorem harmless_flow_complete : forall m d g z,
  flow_harmless m = true -> z <> 0%Z -> field_complete (flow_fun m d g) z.
Proof.
  intros m d g z Hm Hz. destruct m; try discriminate.
  - apply flow_ident_complete; auto.
  - apply flow_ident_complete; auto.
  - apply flow_ordefault_complete_iff. left. exact Hz.
Qed.

Lemma harmless_for_harmless : forall k m, flow_harmless_for k m = true -> flow_harmless m = true.
Proof. intros k m; destruct m, k; cbn; intros H; try discriminate; reflexivity. Qed.

(** For an immutable scalar field the admitted modes are complete for EVERY value (falsy ones included). *)
Theorem imm_flow_complete : forall m d g z,
  flow_harmless_for KImm m = true -> field_complete (flow_fun m d g) z.
Proof.
  intros m d g z H. destruct m; try discriminate H; apply flow_ident_complete; auto.
Qed.

(** What the boolean means, row by row. *)
Theorem lossless_rows : forall c fl, copy_args_lossless c fl = true ->
  forall f k w, In (f, k, w) c -> needs_source w = true ->
  (forall g m, In (g, m) (flows_of fl f) -> g = f /\ flow_harmless_for k m = true) /\
  (exists g m, In (g, m) (flows_of fl f) /\ flow_carries m = true).
Proof.
  intros c fl H f k w Hin Hw. unfold copy_args_lossless in H. rewrite forallb_forall in H.
  specialize (H _ Hin). unfold field_flow_ok in H. cbn [snd cname fst] in H.
  assert (HH : forallb (own_harmless f k) (flows_of fl f) && existsb (fun x => flow_carries (snd x)) (flows_of fl f) = true).
  { destruct w; try discriminate Hw; exact H. }
  apply andb_true_iff in HH. destruct HH as [H1 H2]. split.
  - intros g m Hg. rewrite forallb_forall in H1. specialize (H1 _ Hg). unfold own_harmless in H1. cbn [fst snd] in H1.
    apply andb_true_iff in H1. destruct H1 as [Ha Hb]. apply String.eqb_eq in Ha. auto.
  - apply existsb_exists in H2. destruct H2 as [[g m] [Hg Hm]]. exists g, m. auto.
Qed.

(** A field that is NOT carried over must not be computed from the original at all. *)
Theorem lossless_missing_reads_nothing : forall c fl, copy_args_lossless c fl = true ->
  forall f k, In (f, k, HMissing) c -> flows_of fl f = [].
Proof.
  intros c fl H f k Hin. unfold copy_args_lossless in H. rewrite forallb_forall in H.
  specialize (H _ Hin). unfold field_flow_ok in H. cbn [snd cname fst] in H.
  destruct (flows_of fl f); [reflexivity | discriminate].
Qed.

Lemma dedup_all_same : forall f l, l <> [] -> forallb (fun x => String.eqb x f) l = true -> dedup l = [f].
Proof.
  intros f l. induction l as [|x r IH]; intros Hne H; [contradiction|].
  cbn [forallb] in H. apply andb_true_iff in H. destruct H as [Hx Hr]. apply String.eqb_eq in Hx. subst x.
  cbn [dedup]. destruct r as [|y r'].
  - reflexivity.
  - assert (E : existsb (String.eqb f) (y :: r') = true).
    { cbn [existsb]. cbn [forallb] in Hr. apply andb_true_iff in Hr. destruct Hr as [Hy _].
      apply String.eqb_eq in Hy. subst y. rewrite String.eqb_refl. reflexivity. }
    rewrite E. apply IH; [discriminate | exact Hr].
Qed.

Lemma src_of_flow_sources : forall fl f,
  flows_of fl f <> [] -> src_of (flow_sources fl) f = Some (dedup (map fst (flows_of fl f))).
Proof.
  induction fl as [|[g l] fl IH]; intros f H; cbn [flows_of] in *; [contradiction|].
  cbn [flow_sources map fst snd src_of]. destruct (String.eqb g f); [reflexivity|]. apply IH. exact H.
Qed.

(** The flow census refines the source census: lossless flows induce matching sources. *)
Theorem lossless_sources_match : forall c fl,
  copy_args_lossless c fl = true -> nodupb (names c) = true -> copy_sources_match c (flow_sources fl) = true.
Proof.
  intros c fl H Hn. unfold copy_sources_match. rewrite Hn. cbn [andb]. apply forallb_forall. intros [[f k] w] Hin.
  unfold field_source_ok. cbn [snd cname fst]. destruct (needs_source w) eqn:Hw; [|reflexivity].
  destruct (lossless_rows c fl H f k w Hin Hw) as [Hall [g [m [Hg _]]]].
  assert (Hne : flows_of fl f <> []) by (intro E; rewrite E in Hg; destruct Hg).
  rewrite (src_of_flow_sources fl f Hne).
  rewrite (dedup_all_same f (map fst (flows_of fl f))).
  - apply String.eqb_refl.
  - intro E. apply map_eq_nil in E. contradiction.
  - apply forallb_forall. intros x Hx. apply in_map_iff in Hx. destruct Hx as [[g' m'] [Ex Hx]]. cbn [fst] in Ex. subst x.
    destruct (Hall _ _ Hx) as [Eg _]. subst g'. apply String.eqb_refl.
Qed.

(** The shape of seeded fault c09_4 ([only_once=self.only_once] instead of [times=self.times]): rejected, named, and
    really lossy — yet invisible on the two values Hammer writes. *)
Theorem only_once_argument_lossy :
  copy_args_lossless oo_census oo_flows = false /\ lossy_fields oo_census oo_flows = ["times"%string] /\
  copy_args_lossless oo_census_claims_share oo_flows = false /\
  copy_args_lossless oo_census_claims_share oo_flows_good = true /\
  field_complete once_fn 1%Z /\ field_complete once_fn (-1)%Z /\ ~ field_complete once_fn 3%Z.
Proof.
  repeat split; try reflexivity.
  - apply field_complete_iff. reflexivity.
  - apply field_complete_iff. reflexivity.
  - intro H. apply field_complete_iff in H. discriminate H.
Qed.

(** [p or default] on a falsy value: observable (Entity.logical_pos = '' is copied as '[0 <id>]'). *)
Theorem or_default_falsy_observable : forall d g, d <> 0%Z -> ~ field_complete (flow_fun FOrDefault d g) 0%Z.
Proof. intros d g Hd H. apply flow_ordefault_complete_iff in H. destruct H as [H|H]; [apply H; reflexivity | contradiction]. Qed.
