(** Proofs about the AtomicWriter model (SM/AtomicWriter.v). *)
From Coq Require Import List Bool Arith PeanoNat Lia.
From SV Require Import SM.AtomicWriter.
Import ListNotations.

(** * Names and directories *)
Lemma name_eqb_eq a b : name_eqb a b = true <-> a = b.
Proof.
  destruct a, b; cbn [name_eqb]; rewrite ?Nat.eqb_eq; split; intros H; try discriminate; try congruence;
    inversion H; reflexivity.
Qed.
Lemma name_eqb_refl a : name_eqb a a = true.
Proof. apply name_eqb_eq. reflexivity. Qed.
Lemma name_eqb_neq a b : a <> b -> name_eqb a b = false.
Proof. intros H. destruct (name_eqb a b) eqn:E; [apply name_eqb_eq in E; contradiction | reflexivity]. Qed.
Lemma upd_same d n v : upd d n v n = v.
Proof. unfold upd. rewrite name_eqb_refl. reflexivity. Qed.
Lemma upd_other d n v m : m <> n -> upd d n v m = d m.
Proof. intros H. unfold upd. rewrite name_eqb_neq by assumption. reflexivity. Qed.
Lemma append_some d n tok ct : d n = Some ct -> append d n tok = upd d n (Some (ct ++ [tok])).
Proof. intros H. unfold append. rewrite H. reflexivity. Qed.

Lemma firstn_S_nth (l : list nat) k : k < length l -> firstn k l ++ [nth k l 0] = firstn (S k) l.
Proof.
  revert k. induction l as [|x l IH]; intros k H; cbn [length] in H; [lia|].
  destruct k; cbn [firstn nth app]; [reflexivity|]. rewrite IH by lia. reflexivity.
Qed.

(** * Shape of the successor states *)
Lemma assoc_after_tail s i j : assoc (after_tail s i j) = Some i.
Proof. unfold after_tail. destruct (j <? length (tail s)); reflexivity. Qed.
Lemma assoc_after_body s i k : assoc (after_body s i k) = Some i.
Proof.
  unfold after_body. destruct (raises_here s k); [reflexivity|].
  destruct (k <? length (body s)); [reflexivity | apply assoc_after_tail].
Qed.
Lemma committed_after_tail s i j : committed (after_tail s i j) = false.
Proof. unfold after_tail. destruct (j <? length (tail s)); reflexivity. Qed.
Lemma committed_after_body s i k : committed (after_body s i k) = false.
Proof.
  unfold after_body. destruct (raises_here s k); [reflexivity|].
  destruct (k <? length (body s)); [reflexivity | apply committed_after_tail].
Qed.

(** What the content of the writer's temp file must be at each program point of the success path. *)
Definition progress (s : scen) (p : pc) (ct : content) : Prop :=
  match p with
  | PBody _ k => ct = firstn k (body s) /\ k < length (body s)
  | PTail _ j => ct = body s ++ firstn j (tail s) /\ j < length (tail s)
  | PCloseFd _ false false => ct = new s
  | PReplace _ => ct = new s
  | _ => True
  end.

Lemma progress_after_tail s i j :
  j <= length (tail s) -> progress s (after_tail s i j) (body s ++ firstn j (tail s)).
Proof.
  intros H. unfold after_tail. destruct (j <? length (tail s)) eqn:E.
  - apply Nat.ltb_lt in E. cbn [progress]. auto.
  - apply Nat.ltb_ge in E. cbn [progress]. unfold new. rewrite firstn_all2 by lia. reflexivity.
Qed.
Lemma progress_after_body s i k :
  k <= length (body s) -> progress s (after_body s i k) (firstn k (body s)).
Proof.
  intros H. unfold after_body. destruct (raises_here s k); [exact I|].
  destruct (k <? length (body s)) eqn:E.
  - apply Nat.ltb_lt in E. cbn [progress]. auto.
  - apply Nat.ltb_ge in E. rewrite firstn_all2 by lia.
    pose proof (progress_after_tail s i 0 (Nat.le_0_l _)) as P. cbn [firstn] in P. rewrite app_nil_r in P. exact P.
Qed.

(** * Classification of one step by its effect on the directory *)
Section Safe.
Variable c : cfg.
Hypothesis Hsafe : cfg_safe c = true.

Lemma safe_excl : c_excl c = true.
Proof. unfold cfg_safe in Hsafe. apply andb_true_iff in Hsafe. tauto. Qed.
Lemma safe_exc : c_on_exc c = ADiscard.
Proof.
  unfold cfg_safe in Hsafe. apply andb_true_iff in Hsafe. destruct Hsafe as [_ H].
  destruct (c_on_exc c); [discriminate | reflexivity | discriminate].
Qed.

Inductive step_class (s : scen) (p : pc) (d : dir) (p' : pc) (d' : dir) : Prop :=
| SC_same :
    d' = d -> committed p' = committed p ->
    (forall i, assoc p' = Some i -> assoc p = Some i) ->
    (forall i, assoc p = Some i -> assoc p' = Some i \/ d (Tmp i) = None) ->
    (forall ct, progress s p ct -> progress s p' ct) ->
    step_class s p d p' d'
| SC_create i :
    p = POpen i -> d (Tmp i) = None -> d' = upd d (Tmp i) (Some []) -> p' = after_body s i 0 ->
    step_class s p d p' d'
| SC_append i tok :
    assoc p = Some i -> assoc p' = Some i -> d' = append d (Tmp i) tok ->
    committed p' = false -> committed p = false ->
    (forall ct, progress s p ct -> progress s p' (ct ++ [tok])) ->
    step_class s p d p' d'
| SC_replace i v :
    p = PReplace i -> d (Tmp i) = Some v -> d' = upd (upd d (File (dest s)) (Some v)) (Tmp i) None ->
    p' = PDone FCommitted None ->
    step_class s p d p' d'
| SC_unlink i :
    p = PUnlink i -> d' = upd d (Tmp i) None -> p' = PDone FNot None ->
    step_class s p d p' d'.

Lemma act_pc_assoc a i : assoc (act_pc a i) = Some i.
Proof. destruct a; reflexivity. Qed.
Lemma act_pc_committed a i : committed (act_pc a i) = false.
Proof. destruct a; reflexivity. Qed.

Lemma wstep_class s p d f p' d' e :
  wstep c s p d f = (p', d', e) -> step_class s p d p' d'.
Proof.
  intros H. destruct p as [|i|i k|i j|i exc failed|i|i|r l]; cbn [wstep] in H.
  - (* PMkdir *)
    destruct f; inversion H; subst; apply SC_same; auto; cbn; intros; discriminate.
  - (* POpen *)
    destruct f.
    + inversion H; subst. apply SC_same; auto; cbn; intros; discriminate.
    + rewrite safe_excl in H. cbn [andb] in H. destruct (d (Tmp i)) eqn:E; cbn [is_some] in H.
      * inversion H; subst. apply SC_same; auto.
      * inversion H; subst. eapply SC_create; eauto.
  - (* PBody *)
    destruct f.
    + inversion H; subst. apply SC_same; auto. intros ct _. exact I.
    + inversion H; subst. eapply SC_append with (i := i).
      * reflexivity.
      * apply assoc_after_body.
      * reflexivity.
      * apply committed_after_body.
      * reflexivity.
      * intros ct [-> Hk]. rewrite firstn_S_nth by assumption. apply progress_after_body. lia.
  - (* PTail *)
    destruct f.
    + inversion H; subst. apply SC_same; auto. intros ct _. exact I.
    + inversion H; subst. eapply SC_append with (i := i).
      * reflexivity.
      * apply assoc_after_tail.
      * reflexivity.
      * apply committed_after_tail.
      * reflexivity.
      * intros ct [-> Hj]. rewrite <- app_assoc. rewrite firstn_S_nth by assumption.
        apply progress_after_tail. lia.
  - (* PCloseFd *)
    destruct (f || failed) eqn:Ebad.
    + inversion H; subst. apply SC_same; auto.
      * destruct (c_close_guard c); reflexivity.
      * intros j Hj. destruct (c_close_guard c); cbn in Hj |- *; congruence.
      * intros j Hj. left. destruct (c_close_guard c); cbn in Hj |- *; congruence.
      * intros ct _. destruct (c_close_guard c); exact I.
    + inversion H; subst. apply orb_false_iff in Ebad. destruct Ebad as [-> ->].
      apply SC_same; auto.
      * apply act_pc_committed.
      * intros j Hj. rewrite act_pc_assoc in Hj. exact Hj.
      * intros j Hj. left. rewrite act_pc_assoc. exact Hj.
      * intros ct Hp. destruct exc.
        -- rewrite safe_exc. exact I.
        -- cbn [progress] in Hp. destruct (c_on_ok c); cbn [act_pc progress]; auto.
  - (* PReplace *)
    destruct f.
    + inversion H; subst. apply SC_same; auto.
      * destruct (c_replace_guard c); reflexivity.
      * intros j Hj. destruct (c_replace_guard c); cbn in Hj |- *; congruence.
      * intros j Hj. left. destruct (c_replace_guard c); cbn in Hj |- *; congruence.
      * intros ct _. destruct (c_replace_guard c); exact I.
    + destruct (d (Tmp i)) eqn:E.
      * inversion H; subst. eapply SC_replace; eauto.
      * inversion H; subst. apply SC_same; auto.
        -- destruct (c_replace_guard c); reflexivity.
        -- intros j Hj. destruct (c_replace_guard c); cbn in Hj |- *; congruence.
        -- intros j Hj. right. cbn in Hj. inversion Hj; subst. exact E.
        -- intros ct _. destruct (c_replace_guard c); exact I.
  - (* PUnlink *)
    destruct f.
    + inversion H; subst. apply SC_same; auto.
    + destruct (d (Tmp i)) eqn:E.
      * inversion H; subst. eapply SC_unlink; eauto.
      * inversion H; subst. apply SC_same; auto.
        -- cbn. intros; discriminate.
        -- intros j Hj. right. cbn in Hj. inversion Hj; subst. exact E.
  - (* PDone *)
    inversion H; subst. apply SC_same; auto.
Qed.

(** * The two-writer invariant *)
Variable d0 : dir.

Definition Own (s : scen) (p : pc) (d : dir) : Prop :=
  forall i, assoc p = Some i -> d0 (Tmp i) = None /\ exists ct, d (Tmp i) = Some ct /\ progress s p ct.
Definition DestOk (s : scen) (p : pc) (d : dir) : Prop :=
  d (File (dest s)) = if committed p then Some (new s) else d0 (File (dest s)).
Definition Disj (pa pb : pc) : Prop := forall i, assoc pa = Some i -> assoc pb = Some i -> False.
Definition Frame (sa sb : scen) (pa pb : pc) (d : dir) : Prop :=
  forall n, n <> File (dest sa) -> n <> File (dest sb) ->
            (forall i, n = Tmp i -> assoc pa <> Some i /\ assoc pb <> Some i) -> d n = d0 n.

Lemma Disj_sym pa pb : Disj pa pb -> Disj pb pa.
Proof. unfold Disj. intros H i A B. eapply H; eauto. Qed.
Lemma Frame_sym sa sb pa pb d : Frame sa sb pa pb d -> Frame sb sa pb pa d.
Proof. unfold Frame. intros H n A B C. apply H; auto. intros i E. destruct (C i E). auto. Qed.

Lemma step_one sa sb pa pb d f pa' d' e :
  dest sa <> dest sb ->
  Own sa pa d -> Own sb pb d -> Disj pa pb -> DestOk sa pa d -> DestOk sb pb d -> Frame sa sb pa pb d ->
  wstep c sa pa d f = (pa', d', e) ->
  Own sa pa' d' /\ Own sb pb d' /\ Disj pa' pb /\ DestOk sa pa' d' /\ DestOk sb pb d' /\ Frame sa sb pa' pb d'.
Proof.
  intros Hne Oa Ob Dj Da Db Fr H. apply wstep_class in H.
  destruct H as [Hd Hc Has Hkeep Hpr | i Hp Hnone Hd Hp' | i tok Has Has' Hd Hc' Hc Hpr
                | i v Hp Hv Hd Hp' | i Hp Hd Hp'].
  - (* same directory *)
    subst d'. repeat split.
    + destruct (Oa i (Has i H)) as [A _]. exact A.
    + destruct (Oa i (Has i H)) as [_ [ct [B C]]]. exists ct. auto.
    + destruct (Ob i H) as [A _]. exact A.
    + destruct (Ob i H) as [_ B]. exact B.
    + intros i A B. exact (Dj i (Has i A) B).
    + unfold DestOk. rewrite Hc. exact Da.
    + exact Db.
    + intros n A B C. apply Fr; auto. intros i E. destruct (C i E) as [C1 C2]. split; [|exact C2].
      intros X. destruct (Hkeep i X) as [K|K]; [contradiction|].
      destruct (Oa i X) as [_ [ct [B' _]]]. congruence.
  - (* create tmp_i *)
    subst pa pa' d'.
    assert (Hb : assoc pb <> Some i).
    { intros X. destruct (Ob i X) as [_ [ct [B _]]]. congruence. }
    assert (H0 : d0 (Tmp i) = None).
    { rewrite <- Hnone. symmetry. apply Fr; try discriminate.
      intros j E. inversion E; subst. split; [discriminate | exact Hb]. }
    repeat split.
    + rewrite assoc_after_body in H. inversion H; subst. exact H0.
    + rewrite assoc_after_body in H. inversion H; subst. exists []. split; [apply upd_same|].
      apply (progress_after_body sa i0 0). lia.
    + destruct (Ob i0 H) as [A _]. exact A.
    + destruct (Ob i0 H) as [_ [ct [B C]]]. exists ct. split; [|exact C].
      rewrite upd_other; [exact B|]. intros E. inversion E; subst. contradiction.
    + intros j A B. rewrite assoc_after_body in A. inversion A; subst. contradiction.
    + unfold DestOk. rewrite committed_after_body. rewrite upd_other by discriminate. exact Da.
    + unfold DestOk. rewrite upd_other by discriminate. exact Db.
    + intros n A B C. destruct (name_eqb n (Tmp i)) eqn:En.
      * apply name_eqb_eq in En. subst n. destruct (C i eq_refl) as [C1 _].
        rewrite assoc_after_body in C1. contradiction.
      * assert (n <> Tmp i) by (intros X; subst; rewrite name_eqb_refl in En; discriminate).
        rewrite upd_other by assumption. apply Fr; auto.
        intros j E. split; [discriminate | exact (proj2 (C j E))].
  - (* append to own tmp_i *)
    destruct (Oa i Has) as [A0 [ct [Hct Hprog]]].
    rewrite (append_some _ _ _ _ Hct) in Hd. subst d'.
    repeat split.
    + rewrite Has' in H. inversion H; subst. exact A0.
    + rewrite Has' in H. inversion H; subst. exists (ct ++ [tok]). split; [apply upd_same | auto].
    + destruct (Ob i0 H) as [A _]. exact A.
    + destruct (Ob i0 H) as [_ [ct' [B C]]]. exists ct'. split; [|exact C].
      rewrite upd_other; [exact B|]. intros E. inversion E; subst. exact (Dj i Has H).
    + intros j A B. rewrite Has' in A. inversion A; subst. exact (Dj j Has B).
    + unfold DestOk. rewrite Hc'. rewrite upd_other by discriminate. unfold DestOk in Da. rewrite Hc in Da. exact Da.
    + unfold DestOk. rewrite upd_other by discriminate. exact Db.
    + intros n A B C. destruct (name_eqb n (Tmp i)) eqn:En.
      * apply name_eqb_eq in En. subst n. destruct (C i eq_refl) as [C1 _]. contradiction.
      * assert (n <> Tmp i) by (intros X; subst; rewrite name_eqb_refl in En; discriminate).
        rewrite upd_other by assumption. apply Fr; auto.
        intros j E. split; [|exact (proj2 (C j E))]. intros X. rewrite Has in X. inversion X; subst. contradiction.
  - (* replace tmp_i -> dest *)
    subst pa pa' d'.
    destruct (Oa i eq_refl) as [A0 [ct [Hct Hprog]]]. cbn [progress] in Hprog.
    assert (v = new sa) by congruence. subst v.
    repeat split.
    + cbn in H. discriminate.
    + cbn in H. discriminate.
    + destruct (Ob i0 H) as [A _]. exact A.
    + destruct (Ob i0 H) as [_ [ct' [B C]]]. exists ct'. split; [|exact C].
      rewrite upd_other. 2:{ intros E. inversion E; subst. exact (Dj i eq_refl H). }
      rewrite upd_other by discriminate. exact B.
    + intros j A B. cbn in A. discriminate.
    + unfold DestOk. cbn [committed]. rewrite upd_other by discriminate. apply upd_same.
    + unfold DestOk. rewrite upd_other by discriminate. rewrite upd_other by congruence. exact Db.
    + intros n A B C. destruct (name_eqb n (Tmp i)) eqn:En.
      * apply name_eqb_eq in En. subst n. rewrite upd_same. symmetry. exact A0.
      * assert (n <> Tmp i) by (intros X; subst; rewrite name_eqb_refl in En; discriminate).
        rewrite upd_other by assumption. rewrite upd_other by assumption. apply Fr; auto.
        intros j E. split; [|exact (proj2 (C j E))]. intros X. cbn in X. inversion X; subst. contradiction.
  - (* unlink tmp_i *)
    subst pa pa' d'.
    destruct (Oa i eq_refl) as [A0 _].
    repeat split.
    + cbn in H. discriminate.
    + cbn in H. discriminate.
    + destruct (Ob i0 H) as [A _]. exact A.
    + destruct (Ob i0 H) as [_ [ct' [B C]]]. exists ct'. split; [|exact C].
      rewrite upd_other; [exact B|]. intros E. inversion E; subst. exact (Dj i eq_refl H).
    + intros j A B. cbn in A. discriminate.
    + unfold DestOk. cbn [committed]. rewrite upd_other by discriminate. exact Da.
    + unfold DestOk. rewrite upd_other by discriminate. exact Db.
    + intros n A B C. destruct (name_eqb n (Tmp i)) eqn:En.
      * apply name_eqb_eq in En. subst n. rewrite upd_same. symmetry. exact A0.
      * assert (n <> Tmp i) by (intros X; subst; rewrite name_eqb_refl in En; discriminate).
        rewrite upd_other by assumption. apply Fr; auto.
        intros j E. split; [|exact (proj2 (C j E))]. intros X. cbn in X. inversion X; subst. contradiction.
Qed.
End Safe.

(** * Invariant of the interleaved system, for every schedule and every fault pattern *)
Section System.
Variable c : cfg.
Hypothesis Hsafe : cfg_safe c = true.
Variable d0 : dir.
Variables s1 s2 : scen.
Hypothesis Hdest : dest s1 <> dest s2.

Record Inv (st : sys) : Prop := {
  inv_own1 : Own d0 s1 (p1 st) (sd st);
  inv_own2 : Own d0 s2 (p2 st) (sd st);
  inv_disj : Disj (p1 st) (p2 st);
  inv_dest1 : DestOk d0 s1 (p1 st) (sd st);
  inv_dest2 : DestOk d0 s2 (p2 st) (sd st);
  inv_frame : Frame d0 s1 s2 (p1 st) (p2 st) (sd st)
}.

Lemma inv_step st wf : Inv st -> Inv (step2 c s1 s2 st wf).
Proof.
  intros [O1 O2 Dj D1 D2 Fr]. destruct wf as [who f]. unfold step2. destruct who.
  - destruct (wstep c s2 (p2 st) (sd st) f) as [[p' d'] e] eqn:E.
    destruct (step_one c Hsafe d0 s2 s1 (p2 st) (p1 st) (sd st) f p' d' e) as (A & B & C & D & F & G); auto.
    + apply Disj_sym. exact Dj.
    + apply Frame_sym. exact Fr.
    + constructor; cbn; auto. * apply Disj_sym. exact C. * apply Frame_sym. exact G.
  - destruct (wstep c s1 (p1 st) (sd st) f) as [[p' d'] e] eqn:E.
    destruct (step_one c Hsafe d0 s1 s2 (p1 st) (p2 st) (sd st) f p' d' e) as (A & B & C & D & F & G); auto.
    constructor; cbn; auto.
Qed.

Lemma inv_run sched : forall st, Inv st -> Inv (run2 c s1 s2 sched st).
Proof.
  unfold run2. induction sched as [|wf r IH]; intros st H; cbn [fold_left]; [exact H|].
  apply IH. apply inv_step. exact H.
Qed.

Lemma inv_init st :
  sd st = d0 -> assoc (p1 st) = None -> assoc (p2 st) = None ->
  committed (p1 st) = false -> committed (p2 st) = false -> Inv st.
Proof.
  intros Hd A1 A2 C1 C2. constructor.
  - intros i H. congruence.
  - intros i H. congruence.
  - intros i H. congruence.
  - unfold DestOk. rewrite C1, Hd. reflexivity.
  - unfold DestOk. rewrite C2, Hd. reflexivity.
  - intros n _ _ _. rewrite Hd. reflexivity.
Qed.

Lemma inv_start : Inv (start d0).
Proof. apply inv_init; reflexivity. Qed.
Lemma inv_start1 : Inv (start1 d0).
Proof. apply inv_init; reflexivity. Qed.

(** ** Writers that cannot commit any more *)
Definition doomed (p : pc) : bool :=
  match p with
  | PCloseFd _ true _ | PCloseFd _ _ true | PUnlink _ | PDone FNot _ => true
  | _ => false
  end.

Lemma doomed_not_committed p : doomed p = true -> committed p = false.
Proof. destruct p as [| | | | ? [] []| | |[] ?]; cbn; congruence. Qed.

Lemma doomed_step s p d f p' d' e :
  doomed p = true -> wstep c s p d f = (p', d', e) -> doomed p' = true.
Proof.
  intros Hd H. destruct p as [|i|i k|i j|i exc failed|i|i|r l]; cbn in Hd; try discriminate; cbn [wstep] in H.
  - destruct (f || failed) eqn:B.
    + inversion H; subst. destruct (c_close_guard c); reflexivity.
    + apply orb_false_iff in B. destruct B as [-> ->]. destruct exc; [|discriminate].
      inversion H; subst. rewrite (safe_exc c Hsafe). reflexivity.
  - destruct f; [inversion H; subst; reflexivity|].
    destruct (d (Tmp i)); inversion H; subst; reflexivity.
  - destruct r; [discriminate|]. inversion H; subst. reflexivity.
Qed.

Lemma fault_dooms s p d f p' d' o :
  wstep c s p d f = (p', d', Some (o, RFault)) -> doomed p' = true.
Proof.
  intros H. destruct p as [|i|i k|i j|i exc failed|i|i|r l]; cbn [wstep] in H.
  - destruct f; inversion H; subst; reflexivity.
  - destruct f; [inversion H; subst; reflexivity|].
    destruct (c_excl c && is_some (d (Tmp i))); inversion H.
  - destruct f; inversion H; subst; reflexivity.
  - destruct f; inversion H; subst; reflexivity.
  - destruct f; cbn [orb] in H.
    + inversion H; subst. destruct (c_close_guard c); reflexivity.
    + destruct failed; inversion H.
  - destruct f.
    + inversion H; subst. destruct (c_replace_guard c); reflexivity.
    + destruct (d (Tmp i)); inversion H.
  - destruct f; [inversion H; subst; reflexivity|]. destruct (d (Tmp i)); inversion H.
  - inversion H.
Qed.

Definition faulted (who : bool) (t : list (bool * event)) : Prop := exists o, In (who, (o, RFault)) t.

Lemma fault_doom_run sched : forall st,
  (faulted false (tr st) -> doomed (p1 st) = true) ->
  (faulted false (tr (run2 c s1 s2 sched st)) -> doomed (p1 (run2 c s1 s2 sched st)) = true).
Proof.
  unfold run2. induction sched as [|[who f] r IH]; intros st H; cbn [fold_left]; [exact H|].
  apply IH. unfold step2. destruct who.
  - destruct (wstep c s2 (p2 st) (sd st) f) as [[p' d'] e] eqn:E. cbn [tr p1].
    intros [o Ho]. apply H. exists o. destruct e as [e|]; [|exact Ho].
    apply in_app_or in Ho. destruct Ho as [Ho|Ho]; [exact Ho|]. cbn in Ho. destruct Ho as [Ho|[]]. inversion Ho.
  - destruct (wstep c s1 (p1 st) (sd st) f) as [[p' d'] e] eqn:E. cbn [tr p1].
    intros [o Ho]. destruct e as [e|].
    + apply in_app_or in Ho. destruct Ho as [Ho|Ho].
      * eapply doomed_step; [|exact E]. apply H. exists o. exact Ho.
      * cbn in Ho. destruct Ho as [Ho|[]]. inversion Ho; subst. eapply fault_dooms. exact E.
    + eapply doomed_step; [|exact E]. apply H. exists o. exact Ho.
Qed.

(** ** A body that raises after [r] raw writes never reaches the commit *)
Definition pre_raise (r : nat) (p : pc) : Prop :=
  match p with
  | PMkdir | POpen _ => True
  | PBody _ k => k < r
  | _ => doomed p = true
  end.

Lemma pre_raise_after_body s i k r :
  raise_at s = Some r -> r <= length (body s) -> k <= r -> pre_raise r (after_body s i k).
Proof.
  intros Hr Hle Hk. unfold after_body, raises_here. rewrite Hr.
  destruct (Nat.eqb r k) eqn:E; [reflexivity|]. apply Nat.eqb_neq in E.
  assert (k < length (body s)) as L by lia. apply Nat.ltb_lt in L. rewrite L. cbn. lia.
Qed.

Lemma pre_raise_step s r p d f p' d' e :
  raise_at s = Some r -> r <= length (body s) ->
  pre_raise r p -> wstep c s p d f = (p', d', e) -> pre_raise r p'.
Proof.
  intros Hr Hle Hp H.
  destruct p as [|i|i k|i j|i exc failed|i|i|rr l]; cbn [pre_raise] in Hp;
    try (pose proof (doomed_step _ _ _ _ _ _ _ Hp H) as D; destruct p'; cbn [pre_raise]; cbn in D; try discriminate; auto; fail).
  - cbn [wstep] in H. destruct f; inversion H; subst; reflexivity.
  - cbn [wstep] in H. destruct f; [inversion H; subst; reflexivity|].
    destruct (c_excl c && is_some (d (Tmp i))); inversion H; subst; [exact I|].
    apply pre_raise_after_body; auto. lia.
  - cbn [wstep] in H. destruct f; inversion H; subst; [reflexivity|].
    apply pre_raise_after_body; auto.
Qed.

Lemma pre_raise_not_committed r p : pre_raise r p -> committed p = false.
Proof. destruct p as [| | | | | | |[] ?]; cbn; auto; intros; try discriminate. Qed.

Lemma pre_raise_run r sched : raise_at s1 = Some r -> r <= length (body s1) -> forall st,
  pre_raise r (p1 st) -> pre_raise r (p1 (run2 c s1 s2 sched st)).
Proof.
  intros Hr Hle. unfold run2. induction sched as [|[who f] rest IH]; intros st H; cbn [fold_left]; [exact H|].
  apply IH. unfold step2. destruct who.
  - destruct (wstep c s2 (p2 st) (sd st) f) as [[p' d'] e]. exact H.
  - destruct (wstep c s1 (p1 st) (sd st) f) as [[p' d'] e] eqn:E. cbn [p1].
    eapply pre_raise_step; eauto.
Qed.

(** ** A temp file is left behind only by a failing unlink (needs the guards) *)
Hypothesis Hclean : cfg_clean c = true.

Lemma clean_close : c_close_guard c = true.
Proof. unfold cfg_clean in Hclean. destruct (c_close_guard c); [reflexivity | discriminate]. Qed.
Lemma clean_replace : c_replace_guard c = true.
Proof.
  unfold cfg_clean in Hclean. destruct (c_close_guard c); [|discriminate].
  destruct (c_replace_guard c); [reflexivity | discriminate].
Qed.
Lemma clean_ok : c_on_ok c = ACommit.
Proof.
  unfold cfg_clean in Hclean. apply andb_true_iff in Hclean. destruct Hclean as [_ H].
  destruct (c_on_ok c); [reflexivity | discriminate | discriminate].
Qed.

Lemma wstep_left s p d f r i d' e :
  wstep c s p d f = (PDone r (Some i), d', e) ->
  (p = PDone r (Some i) /\ e = None) \/ e = Some (EUnlink i, RFault).
Proof.
  intros H. destruct p as [|i0|i0 k|i0 j|i0 exc failed|i0|i0|rr l]; cbn [wstep] in H.
  - destruct f; inversion H.
  - destruct f; [inversion H|]. destruct (c_excl c && is_some (d (Tmp i0))); [inversion H|].
    exfalso. inversion H as [[A B C]]. pose proof (assoc_after_body s i0 0) as X. rewrite A in X.
    unfold after_body in A. destruct (raises_here s 0); [discriminate|].
    destruct (0 <? length (body s)); [discriminate|]. unfold after_tail in A.
    destruct (0 <? length (tail s)); discriminate.
  - destruct f; [inversion H|]. exfalso. inversion H as [[A B C]].
    unfold after_body in A. destruct (raises_here s (S k)); [discriminate|].
    destruct (S k <? length (body s)); [discriminate|]. unfold after_tail in A.
    destruct (0 <? length (tail s)); discriminate.
  - destruct f; [inversion H|]. exfalso. inversion H as [[A B C]].
    unfold after_tail in A. destruct (S j <? length (tail s)); discriminate.
  - rewrite clean_close in H. destruct (f || failed); [inversion H|].
    exfalso. destruct exc.
    + rewrite (safe_exc c Hsafe) in H. inversion H.
    + rewrite clean_ok in H. inversion H.
  - rewrite clean_replace in H. destruct f; [inversion H|]. destruct (d (Tmp i0)); inversion H.
  - destruct f; [inversion H; subst; right; reflexivity|]. destruct (d (Tmp i0)); inversion H.
  - inversion H; subst. left. auto.
Qed.

Definition LeftOk (who : bool) (p : pc) (t : list (bool * event)) : Prop :=
  forall r i, p = PDone r (Some i) -> In (who, (EUnlink i, RFault)) t.

Lemma left_run sched : forall st,
  LeftOk false (p1 st) (tr st) /\ LeftOk true (p2 st) (tr st) ->
  LeftOk false (p1 (run2 c s1 s2 sched st)) (tr (run2 c s1 s2 sched st)) /\
  LeftOk true (p2 (run2 c s1 s2 sched st)) (tr (run2 c s1 s2 sched st)).
Proof.
  unfold run2. induction sched as [|[who f] rest IH]; intros st [L1 L2]; cbn [fold_left]; [auto|].
  apply IH. unfold step2. destruct who.
  - destruct (wstep c s2 (p2 st) (sd st) f) as [[p' d'] e] eqn:E. cbn [p1 p2 tr]. split.
    + intros r i Hp. specialize (L1 r i Hp). destruct e; [apply in_or_app; left|]; exact L1.
    + intros r i Hp. subst p'. destruct (wstep_left _ _ _ _ _ _ _ _ E) as [[A B]|B]; subst e.
      * exact (L2 r i A).
      * apply in_or_app. right. left. reflexivity.
  - destruct (wstep c s1 (p1 st) (sd st) f) as [[p' d'] e] eqn:E. cbn [p1 p2 tr]. split.
    + intros r i Hp. subst p'. destruct (wstep_left _ _ _ _ _ _ _ _ E) as [[A B]|B]; subst e.
      * exact (L1 r i A).
      * apply in_or_app. right. left. reflexivity.
    + intros r i Hp. specialize (L2 r i Hp). destruct e; [apply in_or_app; left|]; exact L2.
Qed.
End System.
