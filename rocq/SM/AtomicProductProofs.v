(** Proofs about SM/AtomicProduct.v: the round-1 invariant [Inv d0 s1 s2], re-based at A's destination, survives the
    restart of A; hence, for every history of uses of A and every interleaving with B's single use:
    B's destination is old or B's complete new content, A and B never hold the same temp name, the temp file B holds
    exists with exactly the content B has written so far (no re-entry of A removes or rewrites it), and nothing else
    in the directory changes.  Flag machine first, then every protocol in the good part of the family. *)
From Coq Require Import List Bool Arith PeanoNat Lia.
From SV Require Import SM.AtomicWriter SM.AtomicWriterProofs SM.AtomicWriterThms SM.AtomicExit SM.AtomicExitProofs
  SM.AtomicProduct.
Import ListNotations.

Definition rebase (d0 : dir) (k : nat) (d : dir) : dir := upd d0 (File k) (d (File k)).

Lemma rebase_other d0 k d n : n <> File k -> rebase d0 k d n = d0 n.
Proof. intros H. unfold rebase. now apply upd_other. Qed.
Lemma rebase_same d0 k d : rebase d0 k d (File k) = d (File k).
Proof. unfold rebase. apply upd_same. Qed.

Lemma inv_restart d0 s1 s1' s2 st r :
  dest s1' = dest s1 -> dest s1 <> dest s2 ->
  Inv d0 s1 s2 st -> p1 st = PDone r None ->
  Inv (rebase d0 (dest s1) (sd st)) s1' s2 (restart st).
Proof.
  intros Hd Hne [O1 O2 Dj D1 D2 Fr] Hp. constructor; cbn [restart sd p1 p2].
  - intros i H. discriminate.
  - intros i H. destruct (O2 i H) as (A & ct & B & C). split; [|eauto].
    rewrite rebase_other; [exact A|discriminate].
  - intros i H. discriminate.
  - unfold DestOk. cbn. rewrite Hd. symmetry. apply rebase_same.
  - unfold DestOk in *. rewrite D2. rewrite rebase_other; [reflexivity|].
    intros E. injection E as E. now apply Hne.
  - intros n N1 N2 N3. rewrite Hd in N1. rewrite rebase_other by exact N1.
    apply Fr; auto. intros i Hi. rewrite Hp. cbn. split; [discriminate|]. exact (proj2 (N3 i Hi)).
Qed.

Section Product.
Variable c : cfg.
Hypothesis Hsafe : cfg_safe c = true.
Variable d0 : dir.
Variable k1 : nat.            (* the destination of the reused writer *)
Variable s2 : scen.
Hypothesis Hne : k1 <> dest s2.

(** What holds at every point: the round-1 invariant relative to a base that differs from [d0] at A's destination
    only. *)
Definition PInv (st : sys) : Prop :=
  exists base s1, dest s1 = k1 /\ Inv base s1 s2 st /\ forall n, n <> File k1 -> base n = d0 n.

Lemma pinv_run s1 sched st : dest s1 = k1 -> (exists base s, dest s = k1 /\ Inv base s s2 st /\ p1 st = PMkdir /\
                                                (forall n, n <> File k1 -> base n = d0 n)) ->
  exists base, Inv base s1 s2 (run2 c s1 s2 sched st) /\ forall n, n <> File k1 -> base n = d0 n.
Proof.
  intros Hd (base & s & Hs & [O1 O2 Dj D1 D2 Fr] & Hp & Hb). exists base. split; [|exact Hb].
  apply inv_run; [exact Hsafe|congruence|].
  (* at [mkdir] the scenario of A does not occur in the invariant except through its destination *)
  constructor; rewrite ?Hp in *.
  - intros i H. discriminate.
  - exact O2.
  - intros i H. discriminate.
  - unfold DestOk in *. cbn in *. now rewrite Hd, <- Hs.
  - exact D2.
  - intros n N1 N2 N3. apply Fr; auto; congruence.
Qed.

Lemma pinv_history h : (forall u, In u h -> dest (fst u) = k1) -> forall st,
  (exists base s, dest s = k1 /\ Inv base s s2 st /\ p1 st = PMkdir /\ (forall n, n <> File k1 -> base n = d0 n)) ->
  h <> [] -> PInv (prun c s2 h st).
Proof.
  induction h as [|[s1 sched] r IH]; intros Hh st Hst Hn; [congruence|].
  assert (Hd : dest s1 = k1) by (apply (Hh (s1, sched)); now left).
  destruct (pinv_run s1 sched st Hd Hst) as (base & HI & Hb).
  cbn [prun]. destruct r as [|u r'].
  - exists base, s1. auto.
  - destruct (clean_done (p1 (run2 c s1 s2 sched st))) eqn:Ec; [|exists base, s1; auto].
    apply IH; [intros v Hv; apply Hh; now right| |discriminate].
    destruct (p1 (run2 c s1 s2 sched st)) eqn:Ep; try discriminate. destruct left; try discriminate.
    exists (rebase base (dest s1) (sd (run2 c s1 s2 sched st))), s1. split; [exact Hd|]. split.
    + eapply inv_restart; eauto. congruence.
    + split; [reflexivity|]. intros n Hn'. rewrite rebase_other by congruence. now apply Hb.
Qed.

(** Every history of A (all uses to [k1]), B in flight, every schedule of every segment. *)
Theorem product_isolated h : h <> [] -> (forall u, In u h -> dest (fst u) = k1) ->
  let st := prun c s2 h (start d0) in
  (* B's destination: previous contents, or B's complete new contents once B's rename succeeded *)
  sd st (File (dest s2)) = (if committed (p2 st) then Some (new s2) else d0 (File (dest s2))) /\
  (* A and B never hold the same temp name *)
  (forall i, assoc (p1 st) = Some i -> assoc (p2 st) = Some i -> False) /\
  (* the temp file B holds did not exist before, exists, and holds what B has written so far *)
  (forall i, assoc (p2 st) = Some i -> d0 (Tmp i) = None /\ exists ct, sd st (Tmp i) = Some ct /\ progress s2 (p2 st) ct) /\
  (* nothing else changes *)
  (forall n, n <> File k1 -> n <> File (dest s2) ->
     (forall i, n = Tmp i -> assoc (p1 st) <> Some i /\ assoc (p2 st) <> Some i) -> sd st n = d0 n).
Proof.
  intros Hn Hh st.
  assert (Hst : exists base s, dest s = k1 /\ Inv base s s2 (start d0) /\ p1 (start d0) = PMkdir /\
                               (forall n, n <> File k1 -> base n = d0 n)).
  { exists d0, {| dest := k1; body := []; tail := []; raise_at := None |}.
    split; [reflexivity|]. split; [apply inv_start|]. split; [reflexivity|]. intros; reflexivity. }
  destruct (pinv_history h Hh (start d0) Hst Hn) as (base & s1 & Hd & [O1 O2 Dj D1 D2 Fr] & Hb).
  fold st in O1, O2, Dj, D1, D2, Fr. repeat split.
  - unfold DestOk in D2. rewrite D2. rewrite Hb; [reflexivity|]. intros E. injection E as E. now apply Hne.
  - exact Dj.
  - destruct (O2 i H) as (A & _). rewrite <- Hb; [exact A|discriminate].
  - destruct (O2 i H) as (_ & B). exact B.
  - intros n N1 N2 N3. rewrite <- Hb by exact N1. apply Fr; auto. congruence.
Qed.
End Product.

(** ** The same for every protocol in the good part of the family (tree machine) *)
Lemma Rsys_restart c a b : Rsys c a b -> Rsys c (restartt a) (restart b).
Proof. intros (Hd & Ht & H1 & H2). unfold Rsys; cbn. repeat split; auto. constructor. Qed.

Lemma R_clean_done c pt p : R c pt p -> clean_donet pt = clean_done p.
Proof. destruct 1; reflexivity. Qed.

Lemma prunt_sim c s2 h : forall a b, Rsys c a b -> Rsys c (prunt (proto_of_cfg c) s2 h a) (prun c s2 h b).
Proof.
  induction h as [|[s1 sched] r IH]; intros a b H; cbn [prunt prun]; [exact H|].
  pose proof (run2t_sim c s1 s2 sched a b H) as H'. destruct r as [|u r']; [exact H'|].
  destruct H' as (Hd & Ht & H1 & H2). rewrite (R_clean_done _ _ _ H1).
  destruct (clean_done (p1 (run2 c s1 s2 sched b))).
  - apply IH. apply Rsys_restart. unfold Rsys; auto.
  - unfold Rsys; auto.
Qed.

Lemma R_progress c s pt p ct : R c pt p -> progress s p ct -> progresst s pt ct.
Proof. destruct 1; cbn; auto. Qed.

Theorem proto_product_isolated x d0 k1 s2 h : proto_safe x = true -> k1 <> dest s2 -> h <> [] ->
  (forall u, In u h -> dest (fst u) = k1) ->
  let st := prunt x s2 h (startt d0) in
  sdt st (File (dest s2)) = (if committedt (q2 st) then Some (new s2) else d0 (File (dest s2))) /\
  (forall i, assoct (q1 st) = Some i -> assoct (q2 st) = Some i -> False) /\
  (forall i, assoct (q2 st) = Some i -> d0 (Tmp i) = None /\ exists ct, sdt st (Tmp i) = Some ct /\ progresst s2 (q2 st) ct) /\
  (forall n, n <> File k1 -> n <> File (dest s2) ->
     (forall i, n = Tmp i -> assoct (q1 st) <> Some i /\ assoct (q2 st) <> Some i) -> sdt st n = d0 n).
Proof.
  intros Hs Hne Hn Hh st. destruct (psafe_family x Hs) as [Hf Hc].
  pose proof (prunt_sim (derive_cfg x) s2 h _ _ (Rsys_start (derive_cfg x) d0)) as (Hd & _ & H1 & H2).
  rewrite <- (in_family_eq x Hf) in Hd, H1, H2. fold st in Hd, H1, H2.
  destruct (product_isolated (derive_cfg x) Hc d0 k1 s2 Hne h Hn Hh) as (A & B & C & D).
  rewrite Hd, (R_committed _ _ _ H2), (R_assoc _ _ _ H1), (R_assoc _ _ _ H2). repeat split; auto.
  - apply (C i H).
  - destruct (C i H) as (_ & ct & E & P). exists ct. split; [exact E|]. eapply R_progress; eauto.
Qed.

(** Not vacuous: the history that seeded c12_5 needs, in the model of today's code — A succeeds (tmp_1 renamed), B opens
    tmp_1 and writes, A is entered again while B is open (finds tmp_1 and the stale tmp_2 taken, uses tmp_3) and
    completes, B completes: both destinations hold their own writer's data. *)
Lemma product_example :
  let x := proto_of_cfg cfg_fixed in
  let sA := {| dest := 0; body := [1]; tail := []; raise_at := None |} in
  let sA2 := {| dest := 0; body := [2; 3]; tail := []; raise_at := None |} in
  let sB := {| dest := 1; body := [7; 8]; tail := []; raise_at := None |} in
  let h := [(sA, repeat (false, false) 5 ++ repeat (true, false) 3);
            (sA2, repeat (false, false) 8 ++ repeat (true, false) 3)] in
  let st := prunt x sB h (startt d_old) in
  committedt (q1 st) = true /\ committedt (q2 st) = true /\
  sdt st (File 0) = Some [2; 3] /\ sdt st (File 1) = Some [7; 8] /\ sdt st (Tmp 1) = None /\ sdt st (Tmp 2) = Some [777] /\
  In (false, (EOpen 1, RExist)) (trt st).
Proof. vm_compute. repeat split; auto 20. Qed.
