(** C16 — proofs about SM/LazyDbMulti.v: with several engine databases, looking classes up one at a time
    (EntityDef.engine_def, first database that knows the class) gives what FGD.engine_dbase() gives when — and, for
    classes defined differently in two databases, only when — the merge keeps the first definition. *)
From Coq Require Import List Arith Bool Lia.
From SV Require Import SM.LazyDb SM.LazyDbProofs SM.LazyDbMulti.
Import ListNotations.

(** * the merge loop *)
Section DictProofs.
Variables (K V : Type).
Variable eqb : K -> K -> bool.
Hypothesis eqb_spec : forall a b, eqb a b = true <-> a = b.
Local Notation dget := (dget K V eqb).
Local Notation merge_step := (merge_step K V eqb).
Local Notation merge := (merge K V eqb).

Lemma first_step_get c t : forall m,
  dget c (fold_left (merge_step FirstWins) t m) = match dget c m with Some v => Some v | None => dget c t end.
Proof.
  induction t as [|[k v] t IH]; intros m; cbn [fold_left LazyDbMulti.dget]; [destruct (dget c m); reflexivity|].
  rewrite IH. unfold LazyDbMulti.merge_step. cbn [fst]. destruct (dget k m) as [w|] eqn:Ek.
  - destruct (dget c m) as [x|] eqn:Ec; [reflexivity|]. destruct (eqb k c) eqn:E; [|reflexivity].
    apply eqb_spec in E. subst. congruence.
  - cbn [LazyDbMulti.dget]. destruct (eqb k c) eqn:E; [|reflexivity]. apply eqb_spec in E. subst. rewrite Ek. reflexivity.
Qed.

Lemma first_merge_get_gen c tables : forall m,
  dget c (fold_left (fun m t => fold_left (merge_step FirstWins) t m) tables m)
  = match dget c m with Some v => Some v | None => first_some (map (dget c) tables) end.
Proof.
  induction tables as [|t ts IH]; intros m; cbn [fold_left map first_some]; [destruct (dget c m); reflexivity|].
  rewrite IH, first_step_get. destruct (dget c m); [reflexivity|]. destruct (dget c t); reflexivity.
Qed.

(** keeping the first definition: the merged dictionary answers with the first table that has the key *)
Theorem first_merge_get c tables : dget c (merge FirstWins tables) = first_some (map (dget c) tables).
Proof. unfold LazyDbMulti.merge. rewrite first_merge_get_gen. reflexivity. Qed.

Lemma last_step_fold t : forall m, fold_left (merge_step LastWins) t m = rev t ++ m.
Proof.
  induction t as [|kv t IH]; intros m; cbn [fold_left rev]; [reflexivity|]. rewrite IH. unfold LazyDbMulti.merge_step.
  rewrite <- app_assoc. reflexivity.
Qed.

Lemma dget_notin c t : ~ In c (map fst t) -> dget c t = None.
Proof.
  induction t as [|[k v] t IH]; intros H; cbn [LazyDbMulti.dget]; [reflexivity|]. cbn [map fst In] in H.
  destruct (eqb k c) eqn:E; [apply eqb_spec in E; subst; exfalso; apply H; left; reflexivity|]. apply IH. intros X. apply H. right. exact X.
Qed.

Lemma dget_rev_app c t : NoDup (map fst t) -> forall m,
  dget c (rev t ++ m) = match dget c t with Some v => Some v | None => dget c m end.
Proof.
  induction t as [|[k v] t IH]; intros Hn m; cbn [rev app LazyDbMulti.dget]; [reflexivity|].
  cbn [map fst] in Hn. inversion Hn as [|? ? Hk Hn']. subst. rewrite <- app_assoc. cbn [app]. rewrite (IH Hn').
  cbn [LazyDbMulti.dget]. destruct (eqb k c) eqn:E; [|reflexivity]. apply eqb_spec in E. subst.
  rewrite (dget_notin c t Hk). reflexivity.
Qed.

Lemma last_merge_get_gen c tables : Forall (fun t => NoDup (map fst t)) tables -> forall m,
  dget c (fold_left (fun m t => fold_left (merge_step LastWins) t m) tables m)
  = match first_some (rev (map (dget c) tables)) with Some v => Some v | None => dget c m end.
Proof.
  induction tables as [|t ts IH]; intros Hn m; cbn [fold_left map rev first_some]; [reflexivity|].
  inversion Hn as [|? ? Ht Hts]. subst. rewrite (IH Hts), last_step_fold, (dget_rev_app c t Ht).
  assert (Hf : forall (l : list (option V)) x, first_some (l ++ [x]) = match first_some l with Some v => Some v | None => x end).
  { induction l as [|[y|] l IHl]; intros x; cbn [app first_some]; [destruct x; reflexivity|reflexivity|apply IHl]. }
  rewrite Hf. destruct (first_some (rev (map (dget c) ts))); reflexivity.
Qed.

(** overwriting (dict.update): the merged dictionary answers with the LAST table that has the key *)
Theorem last_merge_get c tables : Forall (fun t => NoDup (map fst t)) tables ->
  dget c (merge LastWins tables) = first_some (rev (map (dget c) tables)).
Proof.
  intros H. unfold LazyDbMulti.merge. rewrite (last_merge_get_gen c tables H). cbn [LazyDbMulti.dget].
  destruct (first_some (rev (map (dget c) tables))); reflexivity.
Qed.

(** a table built from a key list and a partial function *)
Definition table_of (F : K -> option V) (keys : list K) : list (K * V) :=
  flat_map (fun k => match F k with Some a => [(k, a)] | None => [] end) keys.
Lemma table_of_get F c keys :
  dget c (table_of F keys) = if existsb (fun k => eqb k c) keys then F c else None.
Proof.
  induction keys as [|k ks IH]; cbn [table_of flat_map existsb]; [reflexivity|]. fold (table_of F ks).
  destruct (F k) as [a|] eqn:Ek; cbn [app LazyDbMulti.dget].
  - destruct (eqb k c) eqn:E; cbn [orb]; [apply eqb_spec in E; subst; auto|exact IH].
  - rewrite IH. destruct (eqb k c) eqn:E; cbn [orb]; [|reflexivity]. apply eqb_spec in E. subst. rewrite Ek.
    destruct (existsb _ ks); reflexivity.
Qed.
Lemma table_of_keys F keys k : In k (map fst (table_of F keys)) -> In k keys.
Proof.
  induction keys as [|k0 ks IH]; cbn [table_of flat_map]; [auto|]. fold (table_of F ks). rewrite map_app, in_app_iff.
  intros [H|H]; [|right; apply IH, H]. destruct (F k0); cbn [map fst In] in H; [destruct H as [<-|[]]; left; reflexivity|destruct H].
Qed.
Lemma table_of_nodup F keys : NoDup keys -> NoDup (map fst (table_of F keys)).
Proof.
  induction keys as [|k ks IH]; intros Hn; cbn [table_of flat_map]; [constructor|]. fold (table_of F ks).
  inversion Hn as [|? ? Hk Hn']. subst. rewrite map_app. destruct (F k); cbn [map fst app]; [|apply IH, Hn'].
  constructor; [intros X; apply Hk; eapply table_of_keys, X|apply IH, Hn'].
Qed.
End DictProofs.

(** * several databases *)
Section MultiProofs.
Variables (name ent bytes : Type).
Variable name_eqb : name -> name -> bool.
Hypothesis name_eqb_spec : forall a b, name_eqb a b = true <-> a = b.
Variable decode : list name -> bytes -> list ent.
Hypothesis decode_len : forall cs data, length (decode cs data) = length cs.
Variable ent_bases : ent -> list name.
Variable is_empty : bytes -> bool.
Variable empty_bytes : bytes.
Hypothesis empty_is_empty : is_empty empty_bytes = true.
Variable via_get_ent : bool.
Hypothesis Hvia : via_get_ent = true.

Local Notation db := (db name ent bytes).
Local Notation file := (list (block name bytes)).
Local Notation answer := (answer ent).
Local Notation get_full := (get_full name ent bytes name_eqb decode ent_bases is_empty empty_bytes via_get_ent).
Local Notation full_spec := (full_spec name ent bytes name_eqb decode ent_bases).
Local Notation Top := (Top name ent bytes name_eqb decode ent_bases is_empty empty_bytes).
Local Notation engine_def := (engine_def name ent bytes name_eqb decode ent_bases is_empty empty_bytes via_get_ent).
Local Notation run_defs := (run_defs name ent bytes name_eqb decode ent_bases is_empty empty_bytes via_get_ent).
Local Notation loaded_entries := (loaded_entries name ent bytes name_eqb decode ent_bases is_empty empty_bytes via_get_ent).
Local Notation engine_dbase := (engine_dbase name ent bytes name_eqb decode ent_bases is_empty empty_bytes via_get_ent).
Local Notation engine_dbase_single := (engine_dbase_single name ent bytes name_eqb decode ent_bases is_empty empty_bytes via_get_ent).

(** a well-formed file: no class name twice, every block has data (as for one database) *)
Definition file_ok (B : file) : Prop := NoDup (flat_map fst B) /\ Forall (fun b => is_empty (snd b) = false) B.

(** what the list of files says about a class: the first file that defines it *)
Definition multi_spec (Bs : list file) (c : name) : option answer := first_some (map (fun B => full_spec B c) Bs).
(** ... and the last one *)
Definition multi_spec_last (Bs : list file) (c : name) : option answer := first_some (rev (map (fun B => full_spec B c) Bs)).

Definition Tops (f : nat) (Bs : list file) (ds : list db) : Prop := Forall2 (fun B d => file_ok B /\ Top B f d) Bs ds.

Lemma Tops_init f Bs : Forall file_ok Bs -> Forall (fun B => (length B <= f)%nat) Bs -> Tops f Bs (map (init name ent bytes) Bs).
Proof.
  induction Bs as [|B Bs IH]; intros Hk Hl; cbn [map]; [constructor|].
  pose proof (Forall_inv Hk). pose proof (Forall_inv_tail Hk). pose proof (Forall_inv Hl). pose proof (Forall_inv_tail Hl).
  constructor; [split; [assumption|apply Top_init; assumption]|apply IH; assumption].
Qed.

Theorem engine_def_correct f c : forall Bs ds, Tops f Bs ds ->
  fst (engine_def f ds c) = multi_spec Bs c /\ Tops f Bs (snd (engine_def f ds c)).
Proof.
  intros Bs ds H. induction H as [|B d Bs ds [[Hn He] Ht] Hr IH]; cbn [LazyDbMulti.engine_def]; [split; [reflexivity|constructor]|].
  destruct (get_full_correct name ent bytes name_eqb name_eqb_spec decode decode_len ent_bases is_empty empty_bytes empty_is_empty
              via_get_ent B Hn He Hvia f d c Ht) as [Ha Ht'].
  destruct (get_full f d c) as [x d'] eqn:E. cbn [fst snd] in Ha, Ht'. unfold multi_spec. cbn [map first_some]. rewrite <- Ha.
  destruct x as [a|].
  - cbn [fst snd]. split; [reflexivity|]. constructor; [split; [split|]; assumption|exact Hr].
  - destruct IH as [IH1 IH2]. destruct (engine_def f ds c) as [y r'] eqn:E2. cbn [fst snd] in *. split; [exact IH1|].
    constructor; [split; [split|]; assumption|exact IH2].
Qed.

Theorem run_defs_correct f Bs qs : forall ds, Tops f Bs ds ->
  fst (run_defs f ds qs) = map (multi_spec Bs) qs /\ Tops f Bs (snd (run_defs f ds qs)).
Proof.
  induction qs as [|c qs IH]; intros ds H; cbn [LazyDbMulti.run_defs map]; [auto|].
  destruct (engine_def_correct f c Bs ds H) as [Ha Ht]. destruct (engine_def f ds c) as [x ds'] eqn:E. cbn [fst snd] in Ha, Ht.
  destruct (IH ds' Ht) as [Hb Ht2]. destruct (run_defs f ds' qs) as [xs ds'']. cbn [fst snd] in *. rewrite Ha, Hb. auto.
Qed.

(** the `entities` dictionary of one completely loaded database is the file content *)
Lemma loaded_entries_get g B c : file_ok B -> (length B <= g)%nat ->
  dget name answer name_eqb c (loaded_entries g B) = full_spec B c.
Proof.
  intros [Hn He] Hl. unfold LazyDbMulti.loaded_entries.
  set (d := LazyDb.parse_all _ _ _ _ _ _ _ _ _ g _).
  assert (Ht : Top B g d).
  { apply (parse_all_top name ent bytes name_eqb name_eqb_spec decode decode_len ent_bases is_empty empty_bytes empty_is_empty
             via_get_ent B Hn He Hvia). apply Top_init; assumption. }
  assert (Hg : forall k, fst (get_full g d k) = full_spec B k).
  { intros k. apply (get_full_correct name ent bytes name_eqb name_eqb_spec decode decode_len ent_bases is_empty empty_bytes
                       empty_is_empty via_get_ent B Hn He Hvia g d k Ht). }
  rewrite (flat_map_ext _ (fun k => match full_spec B k with Some a => [(k, a)] | None => [] end)) by (intros k; rewrite Hg; reflexivity).
  change (flat_map _ (flat_map fst B)) with (table_of name answer (full_spec B) (flat_map fst B)).
  rewrite (table_of_get name answer name_eqb name_eqb_spec).
  destruct (existsb (fun k => name_eqb k c) (flat_map fst B)) eqn:Ex; [reflexivity|].
  unfold LazyDbProofs.full_spec, LazyDb.spec. rewrite (spec_none_gen name ent bytes name_eqb name_eqb_spec decode c B); [reflexivity|].
  intros b Hb Hin. assert (X : existsb (fun k => name_eqb k c) (flat_map fst B) = true); [|congruence].
  apply existsb_exists. exists c. split; [apply in_flat_map; exists b; auto|apply name_eqb_spec; reflexivity].
Qed.

Lemma loaded_entries_nodup g B : file_ok B -> (length B <= g)%nat -> NoDup (map fst (loaded_entries g B)).
Proof.
  intros [Hn He] Hl. unfold LazyDbMulti.loaded_entries. set (d := LazyDb.parse_all _ _ _ _ _ _ _ _ _ g _).
  apply (table_of_nodup name answer (fun k => fst (get_full g d k))). exact Hn.
Qed.

Lemma map_loaded_get g c Bs : Forall file_ok Bs -> Forall (fun B => (length B <= g)%nat) Bs ->
  map (dget name answer name_eqb c) (map (loaded_entries g) Bs) = map (fun B => full_spec B c) Bs.
Proof.
  induction Bs as [|B Bs IH]; intros Hk Hl; cbn [map]; [reflexivity|].
  pose proof (Forall_inv Hk). pose proof (Forall_inv_tail Hk). pose proof (Forall_inv Hl). pose proof (Forall_inv_tail Hl).
  rewrite loaded_entries_get by assumption. rewrite IH by assumption. reflexivity.
Qed.

(** FGD.engine_dbase() with the merge that keeps the first definition = the first file that defines the class *)
Theorem engine_dbase_first g Bs c : Forall file_ok Bs -> Forall (fun B => (length B <= g)%nat) Bs ->
  engine_dbase FirstWins g Bs c = multi_spec Bs c.
Proof.
  intros Hk Hl. unfold LazyDbMulti.engine_dbase. rewrite (first_merge_get name answer name_eqb name_eqb_spec).
  rewrite map_loaded_get by assumption. reflexivity.
Qed.

(** ... with the overwriting merge = the LAST file that defines it *)
Theorem engine_dbase_last g Bs c : Forall file_ok Bs -> Forall (fun B => (length B <= g)%nat) Bs ->
  engine_dbase LastWins g Bs c = multi_spec_last Bs c.
Proof.
  intros Hk Hl. unfold LazyDbMulti.engine_dbase. rewrite (last_merge_get name answer name_eqb name_eqb_spec).
  - rewrite map_loaded_get by assumption. reflexivity.
  - clear c. induction Bs as [|B Bs IH]; cbn [map]; constructor;
      pose proof (Forall_inv Hk); pose proof (Forall_inv_tail Hk); pose proof (Forall_inv Hl); pose proof (Forall_inv_tail Hl);
      [apply loaded_entries_nodup; assumption|apply IH; assumption].
Qed.

(** the shortcut for one database is the merge of one database (either mode) *)
Theorem engine_dbase_one mode g B c : file_ok B -> (length B <= g)%nat ->
  engine_dbase mode g [B] c = engine_dbase_single g B c.
Proof.
  intros Hk Hl. unfold LazyDbMulti.engine_dbase_single. rewrite loaded_entries_get by assumption. destruct mode.
  - rewrite engine_dbase_first by (constructor; [assumption|constructor]). unfold multi_spec. cbn [map first_some]. destruct (full_spec B c); reflexivity.
  - rewrite engine_dbase_last by (constructor; [assumption|constructor]). unfold multi_spec_last. cbn [map rev app first_some]. destruct (full_spec B c); reflexivity.
Qed.

(** One at a time, in any order, with any repetitions, on a fresh LIST of databases = the merged whole, if the merge
    keeps the first definition of a class *)
Theorem multi_lazy_equals_eager f g Bs qs :
  Forall file_ok Bs -> Forall (fun B => (length B <= f)%nat) Bs -> Forall (fun B => (length B <= g)%nat) Bs ->
  fst (run_defs f (map (init name ent bytes) Bs) qs) = map (engine_dbase FirstWins g Bs) qs.
Proof.
  intros Hk Hf Hg. destruct (run_defs_correct f Bs qs _ (Tops_init f Bs Hk Hf)) as [-> _]. apply map_ext. intros c.
  symmetry. apply engine_dbase_first; assumption.
Qed.

(** ... and if it overwrites, the two disagree on every class that two databases define differently: the look-up
    answers with the first, the merged whole with the last *)
Theorem multi_overwrite_differs f g Bs c :
  Forall file_ok Bs -> Forall (fun B => (length B <= f)%nat) Bs -> Forall (fun B => (length B <= g)%nat) Bs ->
  multi_spec Bs c <> multi_spec_last Bs c ->
  fst (run_defs f (map (init name ent bytes) Bs) [c]) <> [engine_dbase LastWins g Bs c].
Proof.
  intros Hk Hf Hg Hd. destruct (run_defs_correct f Bs [c] _ (Tops_init f Bs Hk Hf)) as [-> _]. cbn [map].
  rewrite engine_dbase_last by assumption. intros [= X]. exact (Hd X).
Qed.
End MultiProofs.
