(** C05 (b) — copy independence with aliasing: proofs over SM/FrozenCopy.v.  Axiom-free. *)
From Coq Require Import List String Bool Arith Lia.
From SV Require Import SM.FrozenOps SM.FrozenOpsProofs SM.FrozenCopy.
Import ListNotations.
Open Scope string_scope.

Section Copy.
  Variable V : Type.
  Variable table : list mut_event.
  Variable carve : mut_event -> bool.
  Variable results : list result_entry.
  Notation reg := (reg V).
  Notation step := (step V table).
  Notation run := (run V table).
  Notation may_write := (may_write V table).
  Notation cls_of := (cls_of V).
  Notation good_history := (good_history V table carve).

  Hypothesis TOK : table_ok table carve = true.
  Hypothesis ROK : copy_results_ok results = true.
  Hypothesis NOEV : no_copy_events table = true.

  (** a copy-like call writes no object at all *)
  Lemma copy_writes_nothing st o i : copylike (meth o) = true -> may_write st o i = false.
  Proof.
    intros Hc. unfold FrozenOps.may_write. apply not_true_is_false. intros H.
    apply existsb_exists in H. destruct H as [e [He H]]. apply andb_prop in H. destruct H as [Ha _].
    unfold no_copy_events in NOEV. rewrite forallb_forall in NOEV. specialize (NOEV e He).
    destruct e as [[[c m] og] w]. unfold applies in Ha. apply andb_prop in Ha. destruct Ha as [_ Hm].
    apply String.eqb_eq in Hm. cbn [fst snd] in NOEV. rewrite Hm, Hc in NOEV. discriminate.
  Qed.

  Lemma copy_step_keeps st o nv res i r : copylike (meth o) = true -> nth_error st i = Some r ->
    nth_error (step st (o, nv, res)) i = Some r.
  Proof.
    intros Hc Hn. apply (step_frame V table st (o, nv, res) i r Hn). cbn [fst]. apply copy_writes_nothing, Hc.
  Qed.

  (** the kind recorded for an existing copy-like method is Fresh, or Self on a frozen class *)
  Lemma copy_kind c m : copylike m = true -> has results c m = true ->
    kind_of results c m = RFresh \/ (kind_of results c m = RSelf /\ frozen_class c = true).
  Proof.
    intros Hc Hh. unfold kind_of. unfold has in Hh.
    destruct (find (fun e : result_entry => (fst (fst e) =? c) && (snd (fst e) =? m)) results) as [e|] eqn:F.
    - apply find_some in F. destruct F as [Hin Hm]. apply andb_prop in Hm. destruct Hm as [E1 E2].
      apply String.eqb_eq in E1, E2.
      unfold copy_results_ok in ROK. rewrite forallb_forall in ROK. specialize (ROK e Hin).
      destruct e as [[c' m'] k]. cbn [fst snd] in *. subst c' m'. unfold entry_ok in ROK. rewrite Hc in ROK.
      destruct k; try discriminate; auto.
    - exfalso. apply existsb_exists in Hh. destruct Hh as [e [Hin Hm]].
      pose proof (find_none _ _ F e Hin) as N. cbv beta in N. rewrite Hm in N. discriminate.
  Qed.

  Lemma step_app_length st x : List.length (step st x) = List.length st + List.length (snd x).
  Proof.
    destruct x as [[o nv] res]. unfold FrozenOps.step.
    rewrite app_length, map_length, combine_length, seq_length, Nat.min_id. reflexivity.
  Qed.

  (** THE COPY THEOREM.  [src] is an object of the heap, [m] a copy-like method that its class has.  The call
      writes nothing; its result [dst] is a new object or — only when the class is frozen — [src] itself.  Then,
      whatever public operations follow:
        (1) as long as no call has [src] as its receiver unless through the result (receiver = dst), the source keeps
            the value it had BEFORE the copy;
        (2) as long as no call has [dst] as its receiver unless through the source (receiver = src), the result keeps
            the value it had right after the copy.
      I.e. operating on the copy never changes the source and operating on the source never changes the copy. *)
  Theorem copy_independent_alias st src c v m nv newobj :
    nth_error st src = Some (c, v) -> copylike m = true -> has results c m = true ->
    let k := kind_of results c m in
    let o := {| meth := m; recv := src; args := [] |} in
    let st' := step st (o, nv, result_alloc k newobj) in
    let dst := result_obj k st src in
    (k = RFresh \/ (k = RSelf /\ frozen_class c = true)) /\
    nth_error st' src = Some (c, v) /\
    (k = RFresh -> nth_error st' dst = Some newobj /\ dst <> src) /\
    (forall h, good_history h st' -> Forall (fun x => recv (fst (fst x)) = dst \/ recv (fst (fst x)) <> src) h ->
       nth_error (run h st') src = Some (c, v)) /\
    (forall h r, good_history h st' -> nth_error st' dst = Some r ->
       Forall (fun x => recv (fst (fst x)) = src \/ recv (fst (fst x)) <> dst) h ->
       nth_error (run h st') dst = Some r).
  Proof.
    intros Hn Hc Hh k o st' dst.
    pose proof (copy_kind c m Hc Hh) as K. fold k in K.
    assert (Hsrc : nth_error st' src = Some (c, v)) by (apply copy_step_keeps; [exact Hc|exact Hn]).
    assert (Hlt : src < List.length st) by (apply nth_error_Some; rewrite Hn; discriminate).
    split; [exact K|]. split; [exact Hsrc|].
    destruct K as [KF | [KS Fz]].
    - (* a new object *)
      assert (Hd : dst = List.length st) by (unfold dst, result_obj; rewrite KF; reflexivity).
      assert (Hne : dst <> src) by lia.
      split.
      + intros _. split; [|exact Hne]. unfold st', FrozenOps.step, result_alloc. rewrite KF, Hd.
        rewrite nth_error_app2.
        -- rewrite map_length, combine_length, seq_length, Nat.min_id, Nat.sub_diag. reflexivity.
        -- rewrite map_length, combine_length, seq_length, Nat.min_id. apply Nat.le_refl.
      + split.
        * intros h G F. apply (non_receiver_stable V table carve TOK h st' src (c, v) G Hsrc).
          eapply Forall_impl; [|exact F]. cbv beta. intros x [E|E]; [rewrite E; exact Hne|exact E].
        * intros h r G Hr F. apply (non_receiver_stable V table carve TOK h st' dst r G Hr).
          eapply Forall_impl; [|exact F]. cbv beta. intros x [E|E]; [rewrite E; auto|exact E].
    - (* the receiver itself: only for a frozen class, whose objects never change *)
      assert (Hd : dst = src) by (unfold dst, result_obj; rewrite KS; reflexivity).
      split; [intros E; rewrite KS in E; discriminate|].
      split.
      + intros h G _. apply (frozen_registers_stable V table carve TOK h st' src (c, v) G Hsrc). exact Fz.
      + intros h r G Hr _. rewrite Hd in *. rewrite Hsrc in Hr. inversion Hr; subst r.
        apply (frozen_registers_stable V table carve TOK h st' src (c, v) G Hsrc). exact Fz.
  Qed.
End Copy.

(** The premise is necessary: if copy() of a mutable class returns the receiver (mutation "return self"),
    [copy_results_ok] fails and operating on the "copy" changes the source. *)
Definition bad_results_table : list result_entry := [("Angle", "copy", RSelf)].
Definition imul_table : list mut_event := [("Angle", "__imul__", Self, "store ._pitch")].
Theorem copy_alias_refuted :
  copy_results_ok bad_results_table = false /\
  let k := kind_of bad_results_table "Angle" "copy" in
  let st := [("Angle", 5)] in
  let st' := FrozenOps.step nat imul_table st ({| meth := "copy"; recv := 0; args := [] |}, fun _ => 0, result_alloc k ("Angle", 5)) in
  let dst := result_obj k st 0 in
  table_ok imul_table no_carve = true /\ dst = 0 /\
  nth_error (FrozenOps.run nat imul_table [({| meth := "__imul__"; recv := dst; args := [] |}, fun _ => 7, [])] st') 0 = Some ("Angle", 7).
Proof. split; [reflexivity|]. cbv zeta. split; [reflexivity|]. split; reflexivity. Qed.

Example copy_results_satisfiable :
  copy_results_ok [("Vec", "copy", RFresh); ("FrozenVec", "copy", RSelf); ("FrozenVec", "__new__", RArgFrozen); ("Vec", "norm", RFresh)] = true /\
  no_copy_events imul_table = true.
Proof. split; reflexivity. Qed.
