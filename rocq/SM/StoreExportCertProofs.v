(** C09 round 3 — soundness of the completeness certificate of StoreExportCert.v.
    Key lemmas: an unfolding cut at a smaller depth is the unfolding to that depth ([trunc_munfold]); an unfolding that
    does not change when unfolded one level deeper never changes again ([munfold_stable]); hence equality at one stable
    depth is equality at every depth ([mobs_eq_b_sound]). *)
From Coq Require Import List PArith ZArith Bool String FMapPositive Arith Lia.
From SV Require Import SM.Store SM.StoreProofs SM.StoreCert SM.StoreCertProofs SM.StoreCopy SM.StoreCopyProofs
  SM.StoreCopySrc SM.StoreCopySrcProofs SM.StoreCopyExport SM.StoreCopyExportProofs SM.StoreCopyWholeProofs
  SM.StoreRowCert SM.StoreRowCertProofs SM.StoreExportCert.
Import ListNotations.

Fixpoint tree_eqb_eq (a b : tree) {struct a} : tree_eqb a b = true -> a = b.
Proof.
  destruct a as [z| | |m ch], b as [z'| | |m' ch']; cbn; intros H; try discriminate; try reflexivity.
  - apply Z.eqb_eq in H. congruence.
  - apply andb_true_iff in H. destruct H as [Hm Hc]. apply Bool.eqb_prop in Hm. subst m'. f_equal.
    revert ch' Hc. induction ch as [|x r IHr]; intros [|y r'] Hc; try discriminate; [reflexivity|].
    apply andb_true_iff in Hc. destruct Hc as [H1 H2]. f_equal; [apply tree_eqb_eq; exact H1 | apply IHr; exact H2].
Qed.

Lemma mask_eqb_eq a : forall b, mask_eqb a b = true -> a = b.
Proof.
  induction a as [|x a IH]; intros [|y b]; cbn; intros H; try discriminate; [reflexivity|].
  apply andb_true_iff in H. destruct H as [H1 H2]. apply Bool.eqb_prop in H1. f_equal; auto.
Qed.

Section Depth.
  Variable mk : loc -> list bool.

  Lemma trunc_mask m : forall msk ts, map (trunc m) (mask_apply msk ts) = mask_apply msk (map (trunc m) ts).
  Proof.
    induction msk as [|b msk IH]; intros ts; [reflexivity|].
    destruct ts as [|t ts]; [destruct b; reflexivity|].
    destruct b; cbn [mask_apply map]; rewrite IH; [destruct m; reflexivity | reflexivity].
  Qed.

  Lemma trunc_munfold h : forall m n v, m <= n -> trunc m (munfold mk n h v) = munfold mk m h v.
  Proof.
    induction m as [|m IH]; intros n v Hle; destruct v as [z|l]; try (destruct n; reflexivity).
    - destruct n as [|n]; [reflexivity|]. cbn [munfold]. destruct (h l); reflexivity.
    - destruct n as [|n]; [lia|]. cbn [munfold]. destruct (h l) as [nd|]; [|reflexivity].
      cbn [trunc]. f_equal. rewrite trunc_mask. f_equal. rewrite map_map. apply map_ext. intros v. apply IH. lia.
  Qed.

  Lemma mask_pointwise (F G F' G' : val -> tree) : forall fs msk,
    mask_apply msk (map F fs) = mask_apply msk (map G fs) ->
    (forall v, In v fs -> F v = G v -> F' v = G' v) ->
    mask_apply msk (map F' fs) = mask_apply msk (map G' fs).
  Proof.
    induction fs as [|v fs IH]; intros msk Heq Hp; [destruct msk as [|[|] msk]; reflexivity|].
    destruct msk as [|[|] msk]; cbn [mask_apply map] in *.
    - injection Heq as H1 H2. f_equal; [apply Hp; [left; reflexivity|exact H1]|].
      apply (IH [] H2). intros w Hw. apply Hp. right. exact Hw.
    - injection Heq as H2. f_equal. apply (IH msk H2). intros w Hw. apply Hp. right. exact Hw.
    - injection Heq as H1 H2. f_equal; [apply Hp; [left; reflexivity|exact H1]|].
      apply (IH msk H2). intros w Hw. apply Hp. right. exact Hw.
  Qed.

  Lemma munfold_stable h : forall n v,
    munfold mk n h v = munfold mk (S n) h v -> forall k, munfold mk (n + k) h v = munfold mk n h v.
  Proof.
    induction n as [|n IH]; intros v Heq k; destruct v as [z|l]; try (destruct k; reflexivity).
    - cbn [munfold] in Heq. destruct (h l); discriminate.
    - cbn [plus]. cbn [munfold] in *. destruct (h l) as [nd|]; [|reflexivity].
      injection Heq as Hq. f_equal.
      apply (mask_pointwise (munfold mk n h) (munfold mk (S n) h) (munfold mk (n + k) h) (munfold mk n h) _ _ Hq).
      intros v _ Hv. apply IH. exact Hv.
  Qed.

  Theorem mobs_eq_b_sound N h h' v v' : mobs_eq_b mk N h h' v v' = true -> mobs_eq mk h h' v v'.
  Proof.
    unfold mobs_eq_b. rewrite !andb_true_iff. intros [[H1 H2] H3].
    apply tree_eqb_eq in H1. apply tree_eqb_eq in H2. apply tree_eqb_eq in H3. intros n.
    destruct (le_lt_dec n N) as [Hle|Hlt].
    - rewrite <- (trunc_munfold h' n N v' Hle), <- (trunc_munfold h n N v Hle). f_equal. exact H1.
    - replace n with (N + (n - N)) by lia.
      rewrite (munfold_stable h' N v' H3), (munfold_stable h N v H2). exact H1.
  Qed.
End Depth.

Section Rows.
  Variables (mk : loc -> list bool) (m' : fheap) (so : pset) (N : nat).
  Let h := hold m' so.
  Let h' := hof m'.

  Lemma how_complete_sound w v v' : how_complete_b mk m' so N w v v' = true -> how_complete mk w h h' v v'.
  Proof.
    destruct w; cbn [how_complete_b how_complete]; intros H; try exact I.
    - apply val_eqb_eq; exact H.
    - apply mobs_eq_b_sound in H. exact H.
    - destruct v as [z|c]; [apply val_eqb_eq; exact H|].
      destruct v' as [z'|c']; [discriminate|].
      destruct (hfind m' so c) as [nd|] eqn:Ec; [|discriminate].
      destruct (PositiveMap.find c' m') as [nd'|] eqn:Ec'; [|discriminate].
      rewrite !andb_true_iff in H. destruct H as [[Hm Hf] Hk].
      apply Bool.eqb_prop in Hm. apply vals_eqb_eq in Hf. apply mask_eqb_eq in Hk.
      exists c', nd. repeat split; auto.
      unfold h', hof. rewrite Ec'. destruct nd' as [mm ff]. cbn in *. subst. reflexivity.
    - apply val_eqb_eq; exact H.
  Qed.

  Lemma erows_ok_sound orig rows :
    forall vs', erows_ok_b mk m' so N orig rows vs' = true -> fields_rel_c mk h h' orig rows vs'.
  Proof.
    induction rows as [|[[mm w] j] rows IH]; intros [|v' vs']; cbn [erows_ok_b]; intros H; try discriminate; [constructor|].
    apply andb_true_iff in H. destruct H as [H1 H2]. constructor; [|apply IH; exact H2].
    intros Hmm. subst mm. destruct j as [i|]; [|discriminate]. destruct (nth_error orig i) as [v|] eqn:E; [|discriminate].
    exists i, v. repeat split; auto. apply how_complete_sound; exact H1.
  Qed.
End Rows.

(** Accepted certificate + the census obligation [copy_export_equal:<label>] ⟹ the real copy is observed equal to the
    real original under the export mask, at every depth. *)
Theorem export_cert_sound : forall l' old la lc masks N c s reads,
  export_cert_ok l' old la lc masks N c s reads = true ->
  copy_export_ok c s reads = true ->
  mobs_eq (mk_of (mk_masks masks)) (hold (mk_heap l') (mk_set old)) (hof (mk_heap l')) (VRef la) (VRef lc).
Proof.
  intros l' old la lc masks N c s reads H Hok. unfold export_cert_ok in H. cbv zeta in H.
  destruct (PositiveMap.find la (mk_heap l')) as [nd|] eqn:Ela; [|rewrite andb_false_r in H; discriminate].
  destruct (PositiveMap.find lc (mk_heap l')) as [nd'|] eqn:Elc; [|rewrite andb_false_r in H; discriminate].
  rewrite !andb_true_iff in H. destruct H as [[Hocl Hla] [[[[Hm Hma] Hmc] Hlen] Hr]].
  apply (copy_export_equal (mk_of (mk_masks masks)) c s reads _ _ la lc nd nd').
  - apply old_closed_sound; exact Hocl.
  - apply hold_extends.
  - unfold hold, hfind. rewrite Hla. exact Ela.
  - exact Elc.
  - apply Bool.eqb_prop in Hm. exact Hm.
  - apply mask_eqb_eq; exact Hma.
  - apply mask_eqb_eq; exact Hmc.
  - apply Nat.eqb_eq; exact Hlen.
  - exact Hok.
  - apply (erows_ok_sound _ _ _ N); exact Hr.
Qed.

(** What the certificate certifies: the completeness premises themselves. *)
Theorem export_cert_premises : forall l' old la lc masks N c s reads,
  export_cert_ok l' old la lc masks N c s reads = true ->
  let mk := mk_of (mk_masks masks) in let h' := hof (mk_heap l') in let h := hold (mk_heap l') (mk_set old) in
  exists nd nd', h la = Some nd /\ h' lc = Some nd' /\ nmut nd' = nmut nd /\
                 mk la = obs_mask c reads /\ mk lc = obs_mask c reads /\ List.length (nfields nd) = List.length c /\
                 fields_rel_c mk h h' (nfields nd) (eresolve c s reads) (nfields nd').
Proof.
  intros l' old la lc masks N c s reads H mk h' h. unfold export_cert_ok in H. cbv zeta in H.
  destruct (PositiveMap.find la (mk_heap l')) as [nd|] eqn:Ela; [|rewrite andb_false_r in H; discriminate].
  destruct (PositiveMap.find lc (mk_heap l')) as [nd'|] eqn:Elc; [|rewrite andb_false_r in H; discriminate].
  rewrite !andb_true_iff in H. destruct H as [[Hocl Hla] [[[[Hm Hma] Hmc] Hlen] Hr]].
  exists nd, nd'. repeat split.
  - unfold h, hold, hfind. rewrite Hla. exact Ela.
  - exact Elc.
  - apply Bool.eqb_prop in Hm. exact Hm.
  - apply mask_eqb_eq; exact Hma.
  - apply mask_eqb_eq; exact Hmc.
  - apply Nat.eqb_eq; exact Hlen.
  - apply (erows_ok_sound _ _ _ N); exact Hr.
Qed.

(** THE WHOLE PROPERTY FOR A REAL (original, copy) PAIR, inside the kernel: both certificates accepted on the same exported
    heap + the three census obligations of the class ⟹ the real copy exports like the real original; after every
    mutation history through the copy the original exports as before the copy was made; after every history through
    the original the copy exports as the original did when it was copied. *)
Theorem real_copy_complete_and_independent : forall l' old la lc SB masks N c s reads,
  row_cert_ok l' old la lc SB c s = true ->
  export_cert_ok l' old la lc masks N c s reads = true ->
  copy_fresh_mutables c = true -> copy_sources_match c s = true -> copy_export_ok c s reads = true ->
  let mk := mk_of (mk_masks masks) in let h' := hof (mk_heap l') in let h := hold (mk_heap l') (mk_set old) in
  mobs_eq mk h h' (VRef la) (VRef lc) /\
  (forall ms h'' R, steps (h', [lc]) ms (h'', R) -> forall n, munfold mk n h'' (VRef la) = munfold mk n h (VRef la)) /\
  (forall ms h'' R, steps (h', [la]) ms (h'', R) -> forall n, munfold mk n h'' (VRef lc) = munfold mk n h (VRef la)).
Proof.
  intros l' old la lc SB masks N c s reads Hrow Hexp Hf Hs Hx mk h' h.
  destruct (row_cert_premises _ _ _ _ _ _ _ Hrow) as (Hc & Hc' & He & nd & nd' & Hla & Hlc & Hlc' & Hk & Hr).
  destruct (export_cert_premises _ _ _ _ _ _ _ _ _ Hexp) as (nd0 & nd0' & Hla0 & Hlc0 & Hm & Hma & Hmc & Hlen & Hrc).
  assert (nd0 = nd) by congruence. assert (nd0' = nd') by congruence. subst nd0 nd0'.
  eapply (copy_complete_and_independent mk c s reads h h' la lc nd nd'); eauto.
Qed.

(** Not vacuous, and sensitive (id masked, number shared, vector copied; then the vector's value changed). *)
Definition xc_census : census := [("id"%string, KId, HNewId); ("a"%string, KImm, HShare); ("v"%string, KMut, HDeep)].
Definition xc_sources : srcmap := [("id"%string, []); ("a"%string, ["a"%string]); ("v"%string, ["v"%string])].
Definition xc_reads : list string := ["id"%string; "a"%string; "v"%string].

Example export_cert_accepts :
  export_cert_ok [(1, Node true [VAtom 10; VAtom 5; VRef 3]); (3, Node true [VAtom 255]);
                  (2, Node true [VAtom 11; VAtom 5; VRef 4]); (4, Node true [VAtom 255])]%positive
                 [1; 3]%positive 1%positive 2%positive
                 [(1%positive, obs_mask xc_census xc_reads); (2%positive, obs_mask xc_census xc_reads)]
                 4 xc_census xc_sources xc_reads = true.
Proof. vm_compute. reflexivity. Qed.

Example export_cert_rejects_changed_vector :
  export_cert_ok [(1, Node true [VAtom 10; VAtom 5; VRef 3]); (3, Node true [VAtom 255]);
                  (2, Node true [VAtom 11; VAtom 5; VRef 4]); (4, Node true [VAtom 128])]%positive
                 [1; 3]%positive 1%positive 2%positive
                 [(1%positive, obs_mask xc_census xc_reads); (2%positive, obs_mask xc_census xc_reads)]
                 4 xc_census xc_sources xc_reads = false.
Proof. vm_compute. reflexivity. Qed.

(** A depth that is too small for the graph is rejected (the unfolding has not stabilised), never wrongly accepted. *)
Example export_cert_rejects_unstable_depth :
  export_cert_ok [(1, Node true [VAtom 10; VAtom 5; VRef 3]); (3, Node true [VAtom 255]);
                  (2, Node true [VAtom 11; VAtom 5; VRef 4]); (4, Node true [VAtom 255])]%positive
                 [1; 3]%positive 1%positive 2%positive
                 [(1%positive, obs_mask xc_census xc_reads); (2%positive, obs_mask xc_census xc_reads)]
                 0 xc_census xc_sources xc_reads = false.
Proof. vm_compute. reflexivity. Qed.
