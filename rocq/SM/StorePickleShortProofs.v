(** C09, round 5 — proofs about the short form of a pickling pair (model: StorePickleShort.v). *)
From Coq Require Import List String Bool ZArith Lia.
From SV Require Import SM.StorePickleShort.
Import ListNotations.

Lemma lt_other_int : forall cs c, In c cs -> (c < other_int cs)%Z.
Proof.
  unfold other_int. induction cs as [|x cs IH]; intros c H; [destruct H|].
  cbn [map fold_right]. destruct H as [->|H].
  - lia.
  - specialize (IH c H). lia.
Qed.

Lemma other_int_not_in : forall cs, ~ In (other_int cs) cs.
Proof. intros cs H. apply lt_other_int in H. lia. Qed.

Lemma consts_has_zero : forall ts d, In 0%Z (consts_of ts d).
Proof. intros. unfold consts_of. apply in_or_app. right. apply in_or_app. right. left. reflexivity. Qed.

Lemma consts_has_default : forall ts z, In z (consts_of ts (DIntC z)).
Proof. intros. unfold consts_of. apply in_or_app. left. left. reflexivity. Qed.

Lemma consts_has_neq : forall ts d c, In (TNeqInt c) ts -> In c (consts_of ts d).
Proof.
  intros ts d c H. unfold consts_of. apply in_or_app. right. apply in_or_app. left.
  apply in_flat_map. exists (TNeqInt c). split; [exact H | left; reflexivity].
Qed.

(** an integer that is none of the constants of the row passes every test of the row *)
Lemma outside_int_passes : forall ts d w t, ~ In w (consts_of ts d) -> In t ts -> test_holds t (VInt w) = true.
Proof.
  intros ts d w t Hout Hin.
  assert (Hz : w <> 0%Z) by (intros ->; apply Hout, consts_has_zero).
  destruct t; cbn [test_holds truthy]; try reflexivity.
  - apply negb_true_iff, Z.eqb_neq, Hz.
  - apply negb_true_iff, Z.eqb_neq. intros ->. apply Hout. eapply consts_has_neq; eauto.
  - apply negb_true_iff, Z.eqb_neq, Hz.
  - apply negb_true_iff, Z.eqb_neq, Hz.
Qed.

Lemma all_fail_nonempty_outside : forall ts d w, ts <> [] -> ~ In w (consts_of ts d) -> all_fail ts (VInt w) = false.
Proof.
  intros ts d w Hne Hout. destruct ts as [|t ts]; [congruence|].
  unfold all_fail. cbn [forallb]. rewrite (outside_int_passes (t :: ts) d w t Hout (or_introl eq_refl)). reflexivity.
Qed.

(** MEANING of the obligation: an accepted row restores, for EVERY value of the field's type on which the field's own
    disjuncts of the long-form test all fail, a constant that exports like the value. *)
Theorem row_ok_sound : forall f ty ts d, row_ok (f, ty, ts, d) = true ->
  forall v, has_type ty v = true -> all_fail ts v = true -> export_equiv ty v (default_val d) = true.
Proof.
  intros f ty ts d H v Hty Hfail. unfold row_ok in H. apply andb_true_iff in H. destruct H as [Hd Hall].
  rewrite forallb_forall in Hall.
  assert (Hin : In v (classes_of ty ts d) -> export_equiv ty v (default_val d) = true).
  { intros Hi. specialize (Hall v Hi). rewrite Hfail in Hall. exact Hall. }
  destruct ty; destruct v; cbn [has_type] in Hty; try discriminate Hty;
    try (apply Hin; cbn [classes_of]; cbn [In]; tauto).
  (* TyInt, an arbitrary integer z *)
  cbn [classes_of] in Hin, Hall.
  destruct (in_dec Z.eq_dec z (consts_of ts d)) as [Hc|Hout].
  - apply Hin. right. apply in_map. exact Hc.
  - exfalso. destruct ts as [|t ts'] eqn:Ets.
    + (* no test at all: the representative outside the constants must equal the default — impossible *)
      pose proof (Hall (VInt (other_int (consts_of [] d))) (or_introl eq_refl)) as Ho.
      cbn [all_fail forallb implb] in Ho.
      destruct d; cbn [default_val export_equiv] in Ho; try discriminate Ho.
      apply Z.eqb_eq in Ho. apply (other_int_not_in (consts_of [] (DIntC z0))). rewrite Ho at 1. apply consts_has_default.
    + rewrite (all_fail_nonempty_outside (t :: ts') d z) in Hfail; [discriminate Hfail | congruence | exact Hout].
Qed.

Theorem short_ok_sound : forall rows, short_ok rows = true ->
  forall f ty ts d, In (f, ty, ts, d) rows ->
  forall v, has_type ty v = true -> all_fail ts v = true -> export_equiv ty v (default_val d) = true.
Proof.
  intros rows H f ty ts d Hin. unfold short_ok in H. rewrite forallb_forall in H.
  apply (row_ok_sound f ty ts d). apply H. exact Hin.
Qed.

(** The restored constant has the field's type. *)
Theorem short_ok_default_typed : forall rows, short_ok rows = true ->
  forall f ty ts d, In (f, ty, ts, d) rows -> has_type ty (default_val d) = true.
Proof.
  intros rows H f ty ts d Hin. unfold short_ok in H. rewrite forallb_forall in H.
  specialize (H _ Hin). unfold row_ok in H. apply andb_true_iff in H. exact (proj1 H).
Qed.

(** REFUTED shapes.  (a) the defect of round 4: a float tested by truthiness and restored as 0.0 — the value -0.0 takes the
    short form and does not export like 0.0.  (b) the repaired form is accepted.  (c) an int field that no disjunct reads:
    every value takes the short form, only the default itself survives.  (d) `times != 1` with the default -1. *)
Theorem short_truthy_float_refuted :
  row_ok ("delay"%string, TyFloat, [TTruthy], DFloatZero) = false /\
  has_type TyFloat VFloatNegZero = true /\ all_fail [TTruthy] VFloatNegZero = true /\
  export_equiv TyFloat VFloatNegZero (default_val DFloatZero) = false.
Proof. vm_compute. repeat split. Qed.

Theorem short_neq_zero_float_refuted : row_ok ("delay"%string, TyFloat, [TNeqZeroNum], DFloatZero) = false.
Proof. vm_compute. reflexivity. Qed.

Theorem short_fmt_float_accepted : row_ok ("delay"%string, TyFloat, [TFmtNotZero], DFloatZero) = true.
Proof. vm_compute. reflexivity. Qed.

Theorem short_untested_int_refuted :
  row_ok ("times"%string, TyInt, [], DIntC (-1)) = false /\ row_ok ("times"%string, TyInt, [TNeqInt 1], DIntC (-1)) = false /\
  row_ok ("times"%string, TyInt, [TNeqInt (-1)], DIntC (-1)) = true.
Proof. vm_compute. repeat split. Qed.

Theorem short_optstr_accepted_and_str_refuted :
  row_ok ("inst_in"%string, TyOptStr, [TTruthy], DNone) = true /\
  row_ok ("params"%string, TyStr, [TTruthy], DEmptyStr) = true /\
  row_ok ("params"%string, TyStr, [TTruthy], DNone) = false /\
  row_ok ("inst_in"%string, TyOptStr, [TNotNone], DEmptyStr) = true /\
  row_ok ("inst_in"%string, TyOptStr, [], DNone) = false.
Proof. vm_compute. repeat split. Qed.
