(** Proofs about SM/IndexClear.v: a step list that passes the two obligations is the hand model [clear]. *)
From stdpp Require Import gmap sets list.
From Coq Require Import NArith Lia.
From SV Require Import SM.IndexModel SM.IndexProofs SM.IndexShapes SM.IndexMaint SM.IndexClear.

Section clear.
  Variable fold : str → str.
  Hypothesis fold_cn : fold cn = cn.
  (** 'nodeid'.casefold() is neither 'classname' nor 'targetname' *)
  Hypothesis fold_nodeid : fold nodeid ≠ cn ∧ fold nodeid ≠ tn.

  Lemma split_clear l : l = before_clear l ++ from_clear l.
  Proof. induction l as [|s r IH]; [done|]. destruct s; simpl; by rewrite <- ?IH. Qed.

  Lemma with_keys_twice e l1 l2 st : with_keys e l2 (with_keys e l1 st) = with_keys e l2 st.
  Proof. unfold with_keys. simpl. by rewrite insert_insert. Qed.
  Lemma keys_of_with_keys e l st : keys_of (with_keys e l st) e = l.
  Proof. unfold keys_of, with_keys. simpl. by rewrite lookup_insert. Qed.

  Theorem clear_pg_ok l e st : clear_ok l = true → clear_pg fold l e st = clear fold e st.
  Proof.
    unfold clear_ok, clear_reindexes_before_emptying, clear_keeps_the_classname. rewrite andb_true_iff, orb_true_iff.
    rewrite !bool_decide_eq_true. intros [Hb Ha]. rewrite (split_clear l), Ha. unfold clear_pg, clear.
    set (c := if decide (e = spawn st) then ws else inull).
    assert (Htail : ∀ st2, csteps_run fold [CKeysClear; CStoreClass] c e st2 = (with_keys e [(cn, c)] st2, 0)).
    { intros st2. simpl. rewrite keys_of_with_keys. simpl. by rewrite with_keys_twice. }
    destruct Hb as [-> | ->]; simpl csteps_run at 1; cbn [app csteps_run cstep_run];
      destruct (set_item fold e cn c st) as [st1 er1]; destruct er1; try done;
      destruct (del_item fold e tn st1) as [st2 er2]; destruct er2; try done.
    - rewrite <- (Htail st2). reflexivity.
    - unfold del_item at 1. destruct fold_nodeid as [H1 H2].
      rewrite !decide_False by done.
      change (csteps_run fold [CKeysClear; CStoreClass] c e (with_keys e (kv_del fold (fold nodeid) (keys_of st2 e)) st2)
              = (with_keys e [(cn, c)] st2, 0)).
      rewrite Htail. by rewrite with_keys_twice.
  Qed.
End clear.

Lemma clear_today_ok : clear_ok clear_today = true ∧ clear_reindexes_before_emptying clear_forgets_targetname = false.
Proof. split; reflexivity. Qed.

(** Without `del self['targetname']` before the dict is emptied: the entity keeps its old name in by_target. *)
Lemma clear_forgets_targetname_refuted :
  clear_reindexes_before_emptying clear_forgets_targetname = false ∧ clear_keeps_the_classname clear_forgets_targetname = true ∧
  let st0 := run ascii_fold [CreateEnt [97]%N [(tn, [120]%N)]] init in
  let r := clear_pg ascii_fold clear_forgets_targetname 1 st0 in
  Inv ascii_fold st0 ∧ r.2 = 0 ∧ keys_of r.1 1 = [(cn, inull)] ∧ ¬ Inv ascii_fold r.1.
Proof.
  split; [reflexivity|]. split; [reflexivity|]. split; [by apply run_inv, init_inv|]. split; [vm_compute; reflexivity|].
  split; [vm_compute; reflexivity|].
  intros HI. pose proof (proj1 (inv_by_target ascii_fold _ (Some [120]%N) 1 HI)) as Hp.
  assert (H1 : 1 ∈ ix_get (by_target (clear_pg ascii_fold clear_forgets_targetname 1
                 (run ascii_fold [CreateEnt [97]%N [(tn, [120]%N)]] init)).1) (Some [120]%N)).
  { apply elem_of_elements.
    match goal with |- _ ∈ ?l => replace l with [1] by (vm_compute; reflexivity) end. apply elem_of_list_here. }
  destruct (Hp H1) as [_ Ht]. revert Ht.
  match goal with |- ?t = _ → _ => replace t with (@None str) by (vm_compute; reflexivity) end. done.
Qed.
