(** C19, round 5 — proofs about histories of walks and lookups (model: SM/FsState.v). *)
From Coq Require Import List NArith Bool Arith Lia.
From SV Require Import SM.FsChain SM.FsChainProofs SM.FsState SM.FsChainProperty SM.FsChainPropertyProofs.
Import ListNotations.

Section WalkHistoryProofs.
  Variable F : Type.
  Variable scan : str -> list F.
  Variable keyf : str -> str.
  Hypothesis scan_respects_key : forall a b, keyf a = keyf b -> scan a = scan b.

  (** every memo entry is the complete listing of the folders with that key *)
  Definition memo_complete (m : memo F) : Prop :=
    forall folder l, memo_get F m (keyf folder) = Some l -> l = scan folder.

  Lemma memo_complete_nil : memo_complete [].
  Proof. intros folder l H. discriminate H. Qed.

  Lemma memo_complete_cons m folder :
    memo_complete m -> memo_complete ((keyf folder, scan folder) :: m).
  Proof.
    intros Hm f l. cbn [memo_get].
    destruct (eqb_str_spec (keyf f) (keyf folder)) as [E|E].
    - intros [= <-]. symmetry. apply scan_respects_key. exact E.
    - apply Hm.
  Qed.

  Lemma walk_step_keeps_complete d m folder k :
    d <> WalkMemoWhileYielding -> memo_complete m -> memo_complete (snd (walk_step F scan keyf d m folder k)).
  Proof.
    intros Hd Hm. destruct d; [exact Hm | congruence |].
    cbn [walk_step]. destruct (memo_get F m (keyf folder)); cbn [snd]; [exact Hm|].
    destruct (ran_to_end F k (scan folder)); [apply memo_complete_cons|]; exact Hm.
  Qed.

  Lemma run_walks_keeps_complete d h : forall m,
    d <> WalkMemoWhileYielding -> memo_complete m -> memo_complete (run_walks F scan keyf d m h).
  Proof.
    induction h as [|[folder k] h IH]; intros m Hd Hm; cbn [run_walks]; [exact Hm|].
    apply IH; [exact Hd|]. apply walk_step_keeps_complete; assumption.
  Qed.

  (** Whatever walks went before - complete ones, ones given up after any number of items, of any folders - a
      complete walk lists the folder's complete listing: for code that stores nothing and for code that stores the
      listing only after the scan has finished. *)
  Theorem walk_history_irrelevant d h folder :
    d <> WalkMemoWhileYielding -> walk_after F scan keyf d h folder = scan folder.
  Proof.
    intros Hd. unfold walk_after.
    pose proof (run_walks_keeps_complete d h [] Hd memo_complete_nil) as Hm.
    destruct d; [reflexivity | congruence |].
    cbn [walk_step]. destruct (memo_get F _ (keyf folder)) as [l|] eqn:E; cbn [fst consume]; [|reflexivity].
    apply Hm. exact E.
  Qed.

  (** ... and the consumer of any walk in such a history receives a prefix of the complete listing. *)
  Theorem walk_history_every_walk_is_a_prefix d h folder k :
    d <> WalkMemoWhileYielding ->
    fst (walk_step F scan keyf d (run_walks F scan keyf d [] h) folder k) = consume F k (scan folder).
  Proof.
    intros Hd.
    pose proof (run_walks_keeps_complete d h [] Hd memo_complete_nil) as Hm.
    destruct d; [reflexivity | congruence |].
    cbn [walk_step]. destruct (memo_get F _ (keyf folder)) as [l|] eqn:E; cbn [fst]; [|reflexivity].
    rewrite (Hm _ _ E). reflexivity.
  Qed.
End WalkHistoryProofs.

(** The memo that is filled while the generator yields: one walk given up after the first item, and the complete walk
    of the same folder lists one file of two. *)
Lemma walk_memo_while_yielding_refuted :
  exists (scan : str -> list N) (h : list (str * option nat)) (folder : str),
    (forall a b : str, a = b -> scan a = scan b)
    /\ walk_after N scan (fun s => s) WalkMemoWhileYielding h folder <> scan folder
    /\ walk_after N scan (fun s => s) WalkMemoWhileYielding h folder = [1%N].
Proof.
  exists (fun _ => [1%N; 2%N]), [([], Some 1%nat)], []. split; [intros; reflexivity|].
  split; [vm_compute; discriminate | vm_compute; reflexivity].
Qed.

(** The census decides the discipline: no stores = stateless; a store with a [yield] still to come = the refuted one. *)
Lemma discipline_of_clean stores : no_stores stores = true -> discipline_of stores = WalkStateless.
Proof. destruct stores; [reflexivity | discriminate]. Qed.
Lemma discipline_of_before_yield stores :
  existsb is_before_yield stores = true -> discipline_of stores = WalkMemoWhileYielding.
Proof. destruct stores as [|p r]; [discriminate|]. intros H. unfold discipline_of. rewrite H. reflexivity. Qed.

(** For the backends of the model: on an object whose walk methods store nothing, after any history of walks the
    complete walk of a folder is [walk b fs folder] - what the one-call theorems (walks_exact) speak about. *)
Theorem backend_walk_history c b fs h folder :
  walk_keeps_no_state c = true ->
  walk_after file (walk b fs) (fun s => s) (discipline_of (cs_walk c)) h folder = walk b fs folder.
Proof.
  intros Hc. apply walk_history_irrelevant.
  - intros a a' ->. reflexivity.
  - unfold walk_keeps_no_state in Hc. rewrite (discipline_of_clean _ Hc). discriminate.
Qed.

(** ** chain lookups *)
Lemma run_chain_stateless_members h : forall pm ms,
  snd (run_chain LookupStateless pm ms h) = members_after ms h.
Proof.
  induction h as [|[q|f|f] h IH]; intros pm ms; cbn [run_chain members_after]; [reflexivity| apply IH ..].
Qed.

(** Lookups that store nothing: after any history of lookups, add_sys calls and direct edits of [systems], a lookup
    is [chain_get] over the members then mounted (so the priority theorems apply to them). *)
Theorem chain_lookup_history_irrelevant ms h q :
  chain_lookup_after LookupStateless ms h q = chain_get (members_after ms h) q.
Proof.
  unfold chain_lookup_after. cbn [chain_lookup_step fst]. rewrite run_chain_stateless_members. reflexivity.
Qed.

Theorem chain_lookup_history c ms h q :
  lookups_keep_no_state c = true ->
  chain_lookup_after (lookup_discipline_of (cs_lookup c)) ms h q = chain_get (members_after ms h) q.
Proof.
  unfold lookups_keep_no_state. destruct (cs_lookup c); [|discriminate]. intros _.
  apply chain_lookup_history_irrelevant.
Qed.

(** Remembered positions: three members, the name is in the second and the third; it is looked up, the first member is
    removed with [systems.pop(0)], it is looked up again: the remembered index now points at the third member. *)
Definition fileA : file := ([120%N], [1%N]).
Definition fileB : file := ([120%N], [2%N]).
Definition has_x (f : file) : member :=
  {| m_lookup := fun q => if eqb_str q [120%N] then Some f else None; m_walk := fun _ => []; m_prefix := [] |}.
Definition empty_member : member := {| m_lookup := fun _ => None; m_walk := fun _ => []; m_prefix := [] |}.

Lemma chain_position_memo_refuted :
  let ms := [empty_member; has_x fileA; has_x fileB] in
  let h := [CLookup [120%N]; CEdit (@tl member)] in
  chain_lookup_after LookupRemembersPosition ms h [120%N] = Some fileB
  /\ chain_get (members_after ms h) [120%N] = Some fileA
  /\ chain_lookup_after LookupStateless ms h [120%N] = Some fileA.
Proof. vm_compute. repeat split. Qed.

(** With add_sys in place of the direct edit the remembered positions are reset and the answer is right: the fault
    needs the edit of the public list. *)
Lemma chain_position_memo_add_sys_resets :
  let ms := [empty_member; has_x fileA; has_x fileB] in
  let h := [CLookup [120%N]; CAddSys (@tl member)] in
  chain_lookup_after LookupRemembersPosition ms h [120%N] = chain_get (members_after ms h) [120%N].
Proof. vm_compute. reflexivity. Qed.

(** ** the census as a hypothesis of the whole property *)
Lemma histories_irrelevant_for_clean_census c : state_ok c = true -> histories_irrelevant c.
Proof.
  unfold state_ok. cbn [forallb app backend_censuses]. intros H.
  repeat (apply andb_prop in H; destruct H as [? H]).
  split.
  - intros cen Hin scan h folder.
    assert (Hc : walk_keeps_no_state cen = true).
    { cbn [backend_censuses In] in Hin.
      destruct Hin as [<-|[<-|[<-|[<-|[]]]]];
        match goal with Hx : census_clean _ = true |- walk_keeps_no_state ?c = true =>
          match type of Hx with census_clean c = true => apply andb_prop in Hx; exact (proj1 Hx) end end. }
    apply walk_history_irrelevant.
    + intros a a' ->. reflexivity.
    + unfold walk_keeps_no_state in Hc. rewrite (discipline_of_clean _ Hc). discriminate.
  - intros ms h q. apply chain_lookup_history.
    match goal with Hx : census_clean (sc_chain c) = true |- _ => apply andb_prop in Hx; exact (proj2 Hx) end.
Qed.

Definition clean_census : fs_census := {| cs_walk := []; cs_lookup := [] |}.
Definition witness_census : state_census :=
  {| sc_chain := clean_census; sc_virtual := clean_census; sc_raw := clean_census; sc_zip := clean_census;
     sc_vpk := clean_census; sc_helpers := clean_census; sc_vpk_reader := clean_census |}.
Lemma state_ok_satisfiable : state_ok witness_census = true.
Proof. reflexivity. Qed.

(** The property over programs: the recognisers of the code shapes and the empty census together. *)
Theorem property_holds_over_histories s c :
  source_ok s = true -> state_ok c = true -> property_holds s /\ histories_irrelevant c.
Proof.
  intros Hs Hc. split; [apply property_holds_for_every_ok_source; exact Hs | apply histories_irrelevant_for_clean_census; exact Hc].
Qed.
