(** Proofs about SM/C17Cache.v: the cached pattern of an EntityFixup is always the pattern of its present key set. *)
From Coq Require Import List Bool.
From SV Require Import SM.C17Cache.
Import ListNotations.

Section Proofs.
  Variables Keys Pat : Type.
  Variable compile : Keys -> Pat.
  Notation pc_tbl := (pc_tbl Keys Pat).
  Notation pc_coherent := (pc_coherent Keys Pat compile).
  Notation pc_step := (pc_step Keys Pat).
  Notation pc_lookup := (pc_lookup Keys Pat compile).
  Notation pc_run := (pc_run Keys Pat compile).

  Lemma fresh_coherent : forall k, pc_coherent (pc_fresh Keys Pat k).
  Proof. intro k. exact I. Qed.

  Lemma step_coherent : forall sh f t, shape_ok sh = true -> pc_coherent t -> pc_coherent (pc_step sh f t).
  Proof.
    intros [|r|same cp] f t Hok Hc; cbn [pc_step shape_ok] in *.
    - exact Hc.
    - subst r. exact I.
    - destruct cp; [|exact I]. cbn in Hok. subst same. exact Hc.
  Qed.

  Lemma lookup_coherent : forall t, pc_coherent t -> pc_coherent (snd (pc_lookup t)) /\ pc_keys _ _ (snd (pc_lookup t)) = pc_keys _ _ t.
  Proof.
    intros t Hc. unfold C17Cache.pc_lookup. destruct (pc_cache Keys Pat t) eqn:E; cbn; [split; [exact Hc | reflexivity]|].
    split; reflexivity.
  Qed.

  (** What `substitute` scans with is the pattern of the keys defined now. *)
  Lemma lookup_current : forall t, pc_coherent t -> fst (pc_lookup t) = compile (pc_keys _ _ t).
  Proof.
    intros t Hc. unfold C17Cache.pc_lookup, C17Cache.pc_coherent in *. destruct (pc_cache Keys Pat t); [exact Hc | reflexivity].
  Qed.

  Theorem history_coherent : forall h t, forallb (pc_action_ok Keys) h = true -> pc_coherent t -> pc_coherent (pc_run h t).
  Proof.
    induction h as [|[sh f|] r IH]; cbn [forallb C17Cache.pc_run pc_action_ok]; intros t Hok Hc; [exact Hc| |].
    - apply andb_true_iff in Hok as [Hs Hr]. apply IH; [exact Hr|]. apply step_coherent; assumption.
    - apply IH; [exact Hok|]. apply lookup_coherent. exact Hc.
  Qed.

  (** Whatever methods were called before, in whatever order, with substitutions in between: the next substitution
      uses the pattern of the present key set - `substitute` is a function of the current table (SM/C17Subst.v). *)
  Theorem substitute_uses_current_keys : forall h k, forallb (pc_action_ok Keys) h = true ->
    fst (pc_lookup (pc_run h (pc_fresh Keys Pat k))) = compile (pc_keys _ _ (pc_run h (pc_fresh Keys Pat k))).
  Proof. intros h k Hok. apply lookup_current. apply history_coherent; [exact Hok | apply fresh_coherent]. Qed.
End Proofs.

(** *** The hypothesis is needed: a method that adds a key without resetting the cache leaves a stale pattern. *)
Definition demo_history (resets : bool) : list (pc_action (list nat)) :=
  [ALookup _; AStep _ (SChange resets) (cons 1); ALookup _].

Lemma stale_cache_refuted :
  shape_ok (SChange false) = false /\
  fst (pc_lookup _ _ (fun k => k) (pc_run _ _ (fun k => k) (demo_history false) (pc_fresh _ _ []))) = [] /\
  pc_keys _ _ (pc_run _ _ (fun k => k) (demo_history false) (pc_fresh _ _ [])) = [1] /\
  fst (pc_lookup _ _ (fun k => k) (pc_run _ _ (fun k => k) (demo_history true) (pc_fresh _ _ []))) = [1].
Proof. repeat split; reflexivity. Qed.

(** a copy that takes the cache along but builds a different key set *)
Lemma copy_with_foreign_cache_refuted :
  shape_ok (SCopy false true) = false /\ shape_ok (SCopy true true) = true /\ shape_ok (SCopy false false) = true /\
  fst (pc_lookup _ _ (fun k : list nat => k)
        (pc_run _ _ (fun k => k) [ALookup _; AStep _ (SCopy false true) (cons 2)] (pc_fresh _ _ []))) = [].
Proof. repeat split; reflexivity. Qed.
