(** Stores of lump writers into lumps that no view owns (round 3; FACEIDS).

    [_write_faces_common] (the writer of the views faces, hdr_faces and orig_faces) stores, besides the lumps of its
    view, the FACEIDS lump: a lump that is in no [ParsedLump.to_clear], which the faces reader reads raw and which the
    property wants back byte-identical.  In [LazyLumps.save_step] a writer can only store lumps its view owns; here it
    additionally performs [wside v p : list (lump * data)].

    Result, for every order-consistent graph, every ok shape and every access sequence (looks that raise included):
    if every such store, on the value the reader parsed from this file, goes to an unowned lump and puts there exactly
    what the file holds ([side_ok]; for FACEIDS: the hammer ids the reader took from the lump serialise to the lump),
    then saving with side stores is saving without them, lump for lump and view for view ([side_save_equiv]), hence
    lossless under the hypotheses of the main theorem ([side_save_lossless]).  States are compared pointwise
    ([seqv]): a store of the value a lump already holds changes the function [raw] only intensionally, and no
    extensionality axiom is used; [getf_ext] / [save_step_ext] show that looks and save steps respect [seqv].

    Closed counterexamples: a writer that fabricates ids for a file whose FACEIDS lump is empty (the defect repaired
    by fix b7b21cf) or pads a short lump (fix 81886b6) violates [side_ok] and changes the lump. *)
From Coq Require Import List Arith Bool Lia.
From SV Require Import SM.LazyLumps SM.LazyLumpsProofs.
Import ListNotations.

Section Side.
  Variables D P : Type.
  Variable empty : D.
  Variable rd : nat -> list D -> option P.
  Variable wr : nat -> P -> list D.
  Variable wside : nat -> P -> list (nat * D).     (* stores of the writer of view v into lumps outside its view *)
  Variable g : graph.
  Variable sh : shape.

  Notation nviews := (nviews g).
  Notation decl := (decl g).
  Notation own := (own g).
  Notation state := (state D P).
  Notation look_all := (look_all D P).
  Notation getf := (getf D P empty rd g sh).
  Notation get := (get D P empty rd g sh).
  Notation run := (run D P empty rd g sh).
  Notation clear_lumps := (clear_lumps D P empty).
  Notation set_cache := (set_cache D P).
  Notation pre_clear := (pre_clear D P empty g sh).
  Notation parse_input := (parse_input D P g).
  Notation save_step := (save_step D P empty rd wr g sh).
  Notation save := (save D P empty rd wr g sh).
  Notation own_data := (own_data D P g).

  Fixpoint side_store (ss : list (nat * D)) (r : nat -> D) : nat -> D :=
    match ss with [] => r | (l, d) :: ss' => side_store ss' (upd r l d) end.

  (** One iteration of the loop of BSP.save with a writer that also stores lumps outside its view. *)
  Definition save_step_s (acc : bool * state) (v : nat) : bool * state :=
    if fst acc then
      let s := snd acc in
      match cache s v with
      | None => acc
      | Some p =>
          let s1 := set_cache v None s in
          let r := look_all get (v_wdeps (decl v)) s1 in
          if fst r then
            let s2 := snd r in
            let p' := if mem v (v_wdeps (decl v)) then match cache s2 v with Some q => q | None => p end else p in
            (true, mkS (side_store (wside v p') (store_sel D (v_wstore (decl v)) (own v) (wr v p') (raw s2))) (cache s2))
          else r
      end
    else acc.
  Definition save_s (s : state) : bool * state := fold_left save_step_s (save_todo D P g sh s) (true, s).

  (** Pointwise equality of states. *)
  Definition seqv (s s' : state) : Prop := (forall l, raw s l = raw s' l) /\ (forall v, cache s v = cache s' v).

  Lemma seqv_refl : forall s, seqv s s.
  Proof. intros s. split; reflexivity. Qed.

  Lemma clear_lumps_ext : forall ls s s', seqv s s' -> seqv (clear_lumps ls s) (clear_lumps ls s').
  Proof.
    intros ls s s' [Hr Hc]. split; cbn [raw cache LazyLumps.clear_lumps]; [|exact Hc].
    intros l. destruct (mem l ls); [reflexivity | apply Hr].
  Qed.

  Lemma set_cache_ext : forall v o s s', seqv s s' -> seqv (set_cache v o s) (set_cache v o s').
  Proof.
    intros v o s s' [Hr Hc]. split; cbn [raw cache LazyLumps.set_cache]; [exact Hr|].
    intros w. unfold upd. destruct (Nat.eqb w v); [reflexivity | apply Hc].
  Qed.

  Lemma look_all_ext : forall (look : nat -> state -> bool * state) ds,
    (forall d s s', seqv s s' -> fst (look d s) = fst (look d s') /\ seqv (snd (look d s)) (snd (look d s'))) ->
    forall s s', seqv s s' ->
    fst (look_all look ds s) = fst (look_all look ds s') /\ seqv (snd (look_all look ds s)) (snd (look_all look ds s')).
  Proof.
    intros look ds H. induction ds as [|d r IH]; intros s s' Hs; cbn [LazyLumps.look_all].
    - split; [reflexivity | exact Hs].
    - destruct (H d s s' Hs) as [Hf Hq]. destruct (look d s) as [b q], (look d s') as [b' q']. cbn [fst snd] in *. subst b'.
      destruct b; [apply IH; exact Hq | split; [reflexivity | exact Hq]].
  Qed.

  (** Looking at a view respects pointwise equality. *)
  Lemma getf_ext : forall f v s s', seqv s s' ->
    fst (getf f v s) = fst (getf f v s') /\ seqv (snd (getf f v s)) (snd (getf f v s')).
  Proof.
    induction f as [|f IH]; intros v s s' Hs; cbn [getf LazyLumps.getf].
    - split; [reflexivity | exact Hs].
    - destruct (v <? nviews); [|split; [reflexivity | exact Hs]].
      destruct Hs as [Hr Hc]. rewrite (Hc v). destruct (cache s' v); [split; [reflexivity | split; assumption]|].
      assert (Hpre : seqv (pre_clear v s) (pre_clear v s')).
      { unfold LazyLumps.pre_clear. destruct (sh_early_main sh || sh_early_extra sh); [apply clear_lumps_ext|]; split; assumption. }
      destruct (look_all_ext (getf f) (v_rdeps (decl v)) (fun d a b => IH d a b) _ _ Hpre) as [Hf Hq].
      destruct (look_all (getf f) (v_rdeps (decl v)) (pre_clear v s)) as [b q].
      destruct (look_all (getf f) (v_rdeps (decl v)) (pre_clear v s')) as [b' q']. cbn [fst snd] in *. subst b'.
      destruct b; [|split; [reflexivity | exact Hq]].
      assert (Hin : parse_input s q v = parse_input s' q' v).
      { unfold LazyLumps.parse_input. destruct (own v) as [|m ex]; [reflexivity|]. f_equal; [apply Hr|].
        apply map_ext. intros l. apply (proj1 Hq). }
      rewrite Hin. destruct (rd v (parse_input s' q' v)); cbn [fst snd]; (split; [reflexivity|]); [|exact Hq].
      apply clear_lumps_ext, set_cache_ext, Hq.
  Qed.

  Lemma get_ext : forall v s s', seqv s s' -> fst (get v s) = fst (get v s') /\ seqv (snd (get v s)) (snd (get v s')).
  Proof. intros v s s' Hs. unfold LazyLumps.get. now apply getf_ext. Qed.

  Lemma store_sel_ext : forall ws ls ds (r r' : nat -> D), (forall l, r l = r' l) ->
    forall l, store_sel D ws ls ds r l = store_sel D ws ls ds r' l.
  Proof.
    intros ws. induction ls as [|a ls IH]; intros ds r r' H l; destruct ds as [|d ds]; cbn [store_sel]; try apply H.
    apply IH. intros x. destruct (mem a ws); [|apply H]. unfold upd. destruct (Nat.eqb x a); [reflexivity | apply H].
  Qed.

  (** A store of the value the lump already holds changes nothing. *)
  Lemma side_store_noop : forall ss (r : nat -> D), (forall l d, In (l, d) ss -> r l = d) -> forall x, side_store ss r x = r x.
  Proof.
    induction ss as [|[l d] ss IH]; intros r H x; cbn [side_store]; [reflexivity|].
    assert (Hl : r l = d) by (apply H; now left).
    rewrite IH.
    - unfold upd. destruct (Nat.eqb x l) eqn:E; [apply Nat.eqb_eq in E; subst x; now rewrite Hl | reflexivity].
    - intros l' d' Hin. unfold upd. destruct (Nat.eqb l' l) eqn:E.
      + apply Nat.eqb_eq in E. subst l'. rewrite <- Hl. apply H. now right.
      + apply H. now right.
  Qed.

  Section Consistent.
    Hypothesis OC : order_consistent g = true.
    Hypothesis SH : shape_ok sh = true.
    Variable s0 : state.
    Hypothesis Hlen : wr_len_ok D P rd wr g s0.

    (** On the value parsed from the file, every store outside the view goes to a lump that no view owns and puts
        there what the file holds. *)
    Definition side_ok : Prop :=
      forall v p, v < nviews -> rd v (own_data s0 v) = Some p ->
      forall l d, In (l, d) (wside v p) -> ~ owned g l /\ d = raw s0 l.
    Hypothesis Hside : side_ok.

    Notation Inv := (Inv D P rd wr g s0 (fun _ => True)).

    Lemma save_step_s_sim : forall k acc acc', k < nviews -> fst acc = fst acc' -> seqv (snd acc) (snd acc') ->
      (fst acc' = true -> Inv k k (snd acc')) ->
      fst (save_step_s acc k) = fst (save_step acc' k) /\ seqv (snd (save_step_s acc k)) (snd (save_step acc' k)).
    Proof.
      intros k [b s] [b' s'] Hk Hb Hs HI. cbn [fst snd] in Hb, Hs, HI. subst b'.
      pose proof (save_step_inv D P empty rd wr g sh OC SH s0 (fun _ => True) (closed_all g) Hlen k (b, s') Hk HI) as [H1 _].
      cbv zeta in H1. unfold save_step_s. unfold LazyLumps.save_step in H1 |- *. cbn [fst snd] in H1 |- *.
      destruct b; [|split; [reflexivity | exact Hs]].
      destruct (HI eq_refl) as (_ & _ & Hc & _).
      rewrite (proj2 Hs k). destruct (cache s' k) as [p|] eqn:Ec; [|split; [reflexivity | exact Hs]].
      assert (Hpk : rd k (own_data s0 k) = Some p).
      { destruct (Hc k (le_n k) Hk) as [[Hn _]|(_ & _ & Hp)]; [congruence|]. unfold pv in Hp. congruence. }
      assert (Hself : mem k (v_wdeps (decl k)) = false).
      { apply mem_false. intros Hin. destruct (deps_gt g OC k k Hk (in_or_app _ _ _ (or_intror Hin))). lia. }
      rewrite Hself in H1 |- *.
      destruct (look_all_ext get (v_wdeps (decl k)) get_ext _ _ (set_cache_ext k None s s' Hs)) as [Hf Hq].
      destruct (look_all get (v_wdeps (decl k)) (set_cache k None s)) as [b2 s2].
      destruct (look_all get (v_wdeps (decl k)) (set_cache k None s')) as [b2' s2']. cbn [fst snd] in *. subst b2'.
      destruct b2; cbn [fst snd] in *; [|split; [reflexivity | exact Hq]].
      split; [reflexivity|]. split; cbn [raw cache]; [|exact (proj2 Hq)].
      destruct (H1 eq_refl) as (_ & _ & _ & Hd). cbn [raw] in Hd.
      intros x. rewrite side_store_noop; [apply store_sel_ext, (proj1 Hq)|].
      intros l d Hin. destruct (Hside k p Hk Hpk l d Hin) as [Hun ->].
      rewrite (store_sel_ext _ _ _ _ _ (proj1 Hq)). apply Hd. exact Hun.
    Qed.

    Lemma save_steps_s_sim : forall m k acc acc', k + m = nviews -> fst acc = fst acc' -> seqv (snd acc) (snd acc') ->
      (fst acc' = true -> Inv k k (snd acc')) ->
      fst (fold_left save_step_s (seq k m) acc) = fst (fold_left save_step (seq k m) acc') /\
      seqv (snd (fold_left save_step_s (seq k m) acc)) (snd (fold_left save_step (seq k m) acc')).
    Proof.
      induction m as [|m IH]; intros k acc acc' Hkm Hb Hs HI; cbn [seq fold_left]; [split; assumption|].
      destruct (save_step_s_sim k acc acc' ltac:(lia) Hb Hs HI) as [Hb1 Hs1].
      pose proof (save_step_inv D P empty rd wr g sh OC SH s0 (fun _ => True) (closed_all g) Hlen k acc' ltac:(lia) HI) as [H1 _].
      cbv zeta in H1. apply IH; [lia | exact Hb1 | exact Hs1 | exact H1].
    Qed.

    (** Saving with side stores is saving without them. *)
    Theorem side_save_equiv : fresh D P s0 -> forall accs,
      fst (save_s (run accs s0)) = fst (save (run accs s0)) /\ seqv (snd (save_s (run accs s0))) (snd (save (run accs s0))).
    Proof.
      intros Hf accs. unfold save_s, LazyLumps.save. rewrite (save_todo_std D P g sh SH).
      apply save_steps_s_sim; [lia | reflexivity | apply seqv_refl|]. intros _. cbn [snd].
      exact (inv_run_all D P empty rd wr g sh OC SH s0 accs Hf).
    Qed.

    (** Hence it is lossless under the hypotheses of the main theorem. *)
    Theorem side_save_lossless : fresh D P s0 -> codec_ok D P rd wr g s0 -> forall accs,
      let r := save_s (run accs s0) in
      (fst r = true -> fresh D P (snd r) /\ same_content D P rd g (snd r) s0) /\
      (writers_can_look D P rd g s0 -> fst r = true).
    Proof.
      intros Hf Hcodec accs. cbv zeta. destruct (side_save_equiv Hf accs) as [Eb [Er Ec]].
      destruct (save_lossless D P empty rd wr g sh OC SH s0 accs Hf Hlen Hcodec) as [A B]. cbv zeta in A, B.
      rewrite Eb. split; [|exact B]. intros Ht. destruct (A Ht) as [Afr [Av Au]]. split; [|split].
      - intros v. rewrite Ec. apply Afr.
      - intros v Hv. rewrite <- (Av v Hv). f_equal. unfold LazyLumps.own_data. apply map_ext. intros l. apply Er.
      - intros l Hl. rewrite Er. apply Au, Hl.
    Qed.
  End Consistent.
End Side.

(** ---------------------------------------------------------------------- closed instances (FACEIDS)
    View 0 (faces) owns lump 2; lump 5 (FACEIDS) is owned by nobody.  The parsed value is the list of face records;
    the ids the writer stores are derived from it by [ids]. *)
Definition sx_rd (v : nat) (ds : list (list nat)) : option (list nat) := match ds with [m] => Some m | _ => None end.
Definition sx_wr (v : nat) (p : list nat) : list (list nat) := [p].
Definition g_side : graph := [ mkV [2] [] [] [2] ].
Definition sx_file (ids : list nat) : state (list nat) (list nat) :=
  mkS (fun l => if Nat.eqb l 2 then [7; 8] else if Nat.eqb l 5 then ids else []) (fun _ => None).
(* a writer that always writes one id per face, 0 where the reader found none (before fixes b7b21cf / 81886b6) *)
Definition sx_pad (have : list nat) (v : nat) (p : list nat) : list (nat * list nat) :=
  [(5, have ++ repeat 0 (length p - length have))].
(* today's writer: the ids as read, nothing invented; no store at all when there are none *)
Definition sx_asread (have : list nat) (v : nat) (p : list nat) : list (nat * list nat) :=
  match have with [] => [] | _ => [(5, have)] end.
Notation sx_save ws s := (save_s (list nat) (list nat) [] sx_rd sx_wr ws g_side std_shape s).
Notation sx_run accs s := (run (list nat) (list nat) [] sx_rd g_side std_shape accs s).

Example side_store_hyps_satisfiable :
  let s0 := sx_file [100] in
  order_consistent g_side = true /\ fresh (list nat) (list nat) s0 /\
  wr_len_ok (list nat) (list nat) sx_rd sx_wr g_side s0 /\ codec_ok (list nat) (list nat) sx_rd sx_wr g_side s0 /\
  side_ok (list nat) (list nat) sx_rd (sx_asread [100]) g_side s0 /\
  raw (snd (sx_save (sx_asread [100]) (sx_run [0] s0))) 5 = [100] /\
  raw (snd (sx_save (sx_asread [100]) (sx_run [0] s0))) 2 = [7; 8].
Proof.
  cbv zeta. split; [reflexivity|]. split; [intros v; reflexivity|]. split; [|split; [|split; [|split; reflexivity]]].
  - intros v p Hv Hr. destruct v as [|v]; [|cbn in Hv; lia]. vm_compute in Hr. injection Hr as <-. reflexivity.
  - intros v p Hv Hr. destruct v as [|v]; [|cbn in Hv; lia]. vm_compute in Hr. injection Hr as <-. reflexivity.
  - intros v p Hv Hr l d Hin. destruct v as [|v]; [|cbn in Hv; lia]. cbn in Hin. destruct Hin as [E|[]]. injection E as <- <-.
    split; [|reflexivity]. intros (w & Hw & Hl). destruct w as [|w]; [|cbn in Hw; lia].
    cbn in Hl. destruct Hl as [E|[]]. discriminate.
Qed.

(** Ids fabricated for an empty FACEIDS lump (fix b7b21cf) and a short lump padded with zeros (fix 81886b6): the
    lump without a view changes although every condition on the graph holds; what fails is [side_ok]. *)
Example side_store_fabricated_refuted :
  raw (snd (sx_save (sx_pad []) (sx_run [0] (sx_file [])))) 5 = [0; 0] /\
  raw (snd (sx_save (sx_pad [100]) (sx_run [0] (sx_file [100])))) 5 = [100; 0] /\
  raw (snd (sx_save (sx_asread []) (sx_run [0] (sx_file [])))) 5 = [] /\
  ~ side_ok (list nat) (list nat) sx_rd (sx_pad [100]) g_side (sx_file [100]).
Proof.
  split; [reflexivity|]. split; [reflexivity|]. split; [reflexivity|]. intros H.
  destruct (H 0 [7; 8] ltac:(cbn; lia) eq_refl 5 [100; 0] (or_introl eq_refl)) as [_ E]. discriminate.
Qed.
