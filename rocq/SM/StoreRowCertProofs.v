(** C09 round 3 — soundness of the census-row certificate of StoreRowCert.v: an accepted exported heap satisfies every
    premise of [census_src_copy_independent] (closed heaps, extension, kinds of the original's fields, and the relation
    of every field of the copy to its source field as the census row says), hence the conclusion of the census theorem
    holds for that real object graph. *)
From Coq Require Import List PArith ZArith Bool String FMapPositive.
From SV Require Import SM.Store SM.StoreProofs SM.StoreCert SM.StoreCertProofs SM.StoreCopy SM.StoreCopyProofs
  SM.StoreCopySrc SM.StoreCopySrcProofs SM.StoreRowCert.
Import ListNotations.

Lemma val_eqb_eq a b : val_eqb a b = true -> a = b.
Proof.
  destruct a, b; cbn; intros H; try discriminate.
  - apply Z.eqb_eq in H. congruence.
  - apply Pos.eqb_eq in H. congruence.
Qed.

Lemma vals_eqb_eq a : forall b, vals_eqb a b = true -> a = b.
Proof.
  induction a as [|x a IH]; intros [|y b]; cbn; intros H; try discriminate; [reflexivity|].
  apply andb_true_iff in H. destruct H as [H1 H2]. f_equal; [apply val_eqb_eq; assumption | apply IH; assumption].
Qed.

Section Cert.
  Variables (m' : fheap) (so : pset).
  Let h := hold m' so.
  Let h' := hof m'.

  Lemma hold_extends : extends h h'.
  Proof. intros l nd H. unfold h, hold, hfind in H. destruct (smem l so); [exact H|discriminate]. Qed.

  Lemma flat_reach r nd l : h r = Some nd -> forallb is_atom (nfields nd) = true -> reach h r l -> l = r.
  Proof.
    intros Hr Hat Hl. induction Hl as [|l0 nd0 l1 Hl0 IH Hn Hin]; [reflexivity|].
    subst l0. rewrite Hr in Hn. inversion Hn; subst nd0.
    rewrite forallb_forall in Hat. specialize (Hat _ Hin). discriminate.
  Qed.

  Lemma flat_imm_no_mut v : flat_imm m' so v = true -> no_mut h v.
  Proof.
    destruct v as [z|r]; cbn [flat_imm]; intros H l Hl; [destruct Hl|]. cbn in Hl.
    destruct (hfind m' so r) as [nd|] eqn:E; [|discriminate].
    apply andb_true_iff in H. destruct H as [Hm Hat].
    assert (l = r) by (eapply flat_reach; eauto). subst l.
    intros (nd1 & E1 & Hm1). unfold h, hold in E1. rewrite E in E1. inversion E1; subst nd1.
    rewrite Hm1 in Hm. discriminate.
  Qed.

  Lemma kind_ok_sound k v : kind_ok_b m' so k v = true -> kind_sem k h v.
  Proof.
    destruct k as [| | | |[|]]; cbn [kind_ok_b kind_sem]; intros H; try exact I; try (apply flat_imm_no_mut; exact H).
    destruct v as [z|c]; [exact I|]. intros nd el Hc Hin. unfold h, hold in Hc. rewrite Hc in H.
    rewrite forallb_forall in H. apply flat_imm_no_mut. exact (H _ Hin).
  Qed.

  Lemma kinds_ok_sound c : forall vs, kinds_ok_b m' so c vs = true -> kinds_rel h c vs.
  Proof.
    induction c as [|[[f k] w] c IH]; intros [|v vs]; cbn [kinds_ok_b]; intros H; try discriminate; [constructor|].
    apply andb_true_iff in H. destruct H as [H1 H2].
    constructor; [apply kind_ok_sound; exact H1 | apply IH; exact H2].
  Qed.

  Variable SB : list loc.
  Hypothesis Hnew : new_set_ok m' so SB (mk_set SB) = true.

  Lemma in_sb_new_mut v' : val_in (mk_set SB) v' = true -> new_mut h h' v'.
  Proof.
    pose proof Hnew as Hn. unfold new_set_ok in Hn. apply andb_true_iff in Hn. destruct Hn as [Hcl Hall].
    destruct v' as [z|r]; intros Hin l Hl Hm; [destruct Hl|]. cbn in Hin, Hl.
    pose proof (closed_set_reach m' SB r Hcl Hin l Hl) as HlS.
    rewrite forallb_forall in Hall. specialize (Hall l (smem_mk_set _ _ HlS)).
    destruct Hm as (nd & Hnd & Hmut). unfold mutb in Hall. unfold h', hof in Hnd. rewrite Hnd, Hmut in Hall. cbn in Hall.
    unfold h, hold, hfind. destruct (smem l so); [discriminate|reflexivity].
  Qed.

  Lemma how_ok_sound w v v' : how_ok_b m' so (mk_set SB) w v v' = true -> how_sem w h h' v v'.
  Proof.
    destruct w; cbn [how_ok_b how_sem]; intros H.
    - apply val_eqb_eq; exact H.
    - apply in_sb_new_mut; exact H.
    - destruct v as [z|c]; [apply val_eqb_eq; exact H|].
      destruct v' as [z'|c']; [discriminate|].
      destruct (hfind m' so c) as [nd|] eqn:Ec; [|discriminate].
      destruct (PositiveMap.find c' m') as [nd'|] eqn:Ec'; [|discriminate].
      apply andb_true_iff in H. destruct H as [Hn Heq]. apply vals_eqb_eq in Heq.
      exists c', nd, (nmut nd'). repeat split.
      + unfold h, hold, hfind. apply negb_true_iff in Hn. rewrite Hn. reflexivity.
      + exact Ec.
      + unfold h', hof. rewrite Ec'. destruct nd' as [mm ff]. cbn in *. subst ff. reflexivity.
    - apply in_sb_new_mut; exact H.
    - apply val_eqb_eq; exact H.
    - destruct v' as [z|r]; [exists z; reflexivity|discriminate].
  Qed.

  Lemma how_src_ok_sound orig w j v' :
    how_src_ok_b m' so (mk_set SB) orig w j v' = true -> how_src_sem h h' orig w j v'.
  Proof.
    unfold how_src_ok_b, how_src_sem. destruct (needs_source w).
    - destruct j as [i|]; [|discriminate]. destruct (nth_error orig i) as [v|] eqn:E; [|discriminate].
      intros H. exists i, v. repeat split; auto. apply how_ok_sound; exact H.
    - apply how_ok_sound.
  Qed.

  Lemma rows_ok_sound orig rows :
    forall vs', rows_ok_b m' so (mk_set SB) orig rows vs' = true -> fields_rel_src h h' orig rows vs'.
  Proof.
    induction rows as [|[[k w] j] rows IH]; intros [|v' vs']; cbn [rows_ok_b]; intros H; try discriminate; [constructor|].
    apply andb_true_iff in H. destruct H as [H1 H2].
    constructor; [apply how_src_ok_sound; exact H1 | apply IH; exact H2].
  Qed.
End Cert.

Lemma old_closed_sound l' so : old_closed_b (mk_heap l') so l' = true -> closed (hold (mk_heap l') so).
Proof.
  intros H x nd x' Hx Hin. unfold hold, hfind in Hx. destruct (smem x so) eqn:Ex; [|discriminate].
  unfold old_closed_b in H. rewrite forallb_forall in H. specialize (H (x, nd) (find_mk_heap _ _ _ Hx)).
  cbn [fst snd] in H. rewrite Ex in H. cbn [negb orb] in H. rewrite forallb_forall in H. specialize (H _ Hin).
  cbn in H. apply andb_true_iff in H. destruct H as [H1 H2].
  unfold alloc, hold, hfind. rewrite H1. rewrite PositiveMap.mem_find in H2.
  destruct (PositiveMap.find x' (mk_heap l')); [discriminate|discriminate].
Qed.

(** Accepted certificate + the two census obligations ⟹ the conclusion of the census theorem for this real heap. *)
Theorem row_cert_sound : forall l' old la lc SB c s,
  row_cert_ok l' old la lc SB c s = true ->
  copy_fresh_mutables c = true -> copy_sources_match c s = true ->
  let h' := hof (mk_heap l') in
  (forall ms h'' R, steps (h', [lc]) ms (h'', R) -> forall n, unfold n h'' (VRef la) = unfold n h' (VRef la)) /\
  (forall ms h'' R, steps (h', [la]) ms (h'', R) -> forall n, unfold n h'' (VRef lc) = unfold n h' (VRef lc)).
Proof.
  intros l' old la lc SB c s H Hf Hs h'. unfold row_cert_ok in H. cbv zeta in H.
  destruct (PositiveMap.find la (mk_heap l')) as [nd|] eqn:Ela; [|rewrite andb_false_r in H; discriminate].
  destruct (PositiveMap.find lc (mk_heap l')) as [nd'|] eqn:Elc; [|rewrite andb_false_r in H; discriminate].
  repeat rewrite andb_true_iff in H. destruct H as [[[[[Hcl Hocl] Hla] Hlc] Hnew] [Hk Hr]].
  apply (census_src_copy_independent c s (hold (mk_heap l') (mk_set old)) h' la lc nd nd'); auto.
  - apply old_closed_sound; exact Hocl.
  - apply heap_closed_sound; exact Hcl.
  - apply hold_extends.
  - unfold hold, hfind. rewrite Hla. exact Ela.
  - unfold hold, hfind. apply negb_true_iff in Hlc. rewrite Hlc. reflexivity.
  - apply kinds_ok_sound; exact Hk.
  - apply (rows_ok_sound (mk_heap l') (mk_set old) SB Hnew); exact Hr.
Qed.

(** ... and, more basically, the premises themselves (what the certificate certifies). *)
Theorem row_cert_premises : forall l' old la lc SB c s,
  row_cert_ok l' old la lc SB c s = true ->
  let h' := hof (mk_heap l') in let h := hold (mk_heap l') (mk_set old) in
  closed h /\ closed h' /\ extends h h' /\
  exists nd nd', h la = Some nd /\ h lc = None /\ h' lc = Some nd' /\
                 kinds_rel h c (nfields nd) /\ fields_rel_src h h' (nfields nd) (resolve c s) (nfields nd').
Proof.
  intros l' old la lc SB c s H h' h. unfold row_cert_ok in H. cbv zeta in H.
  destruct (PositiveMap.find la (mk_heap l')) as [nd|] eqn:Ela; [|rewrite andb_false_r in H; discriminate].
  destruct (PositiveMap.find lc (mk_heap l')) as [nd'|] eqn:Elc; [|rewrite andb_false_r in H; discriminate].
  repeat rewrite andb_true_iff in H. destruct H as [[[[[Hcl Hocl] Hla] Hlc] Hnew] [Hk Hr]].
  split; [apply old_closed_sound; exact Hocl|]. split; [apply heap_closed_sound; exact Hcl|].
  split; [apply hold_extends|]. exists nd, nd'. repeat split.
  - unfold h, hold, hfind. rewrite Hla. exact Ela.
  - unfold h, hold, hfind. apply negb_true_iff in Hlc. rewrite Hlc. reflexivity.
  - exact Elc.
  - apply kinds_ok_sound; exact Hk.
  - apply (rows_ok_sound (mk_heap l') (mk_set old) SB Hnew); exact Hr.
Qed.

(** Not vacuous, and sensitive: a two-field object (a number shared, a vector copied) is accepted; the same copy
    sharing the vector is rejected; so is a copy whose number differs. *)
Definition rc_census : census := [("a"%string, KImm, HShare); ("v"%string, KMut, HDeep)].
Definition rc_sources : srcmap := [("a"%string, ["a"%string]); ("v"%string, ["v"%string])].

Example row_cert_accepts :
  row_cert_ok [(1, Node true [VAtom 5; VRef 3]); (3, Node true [VAtom 255]);
               (2, Node true [VAtom 5; VRef 4]); (4, Node true [VAtom 255])]%positive
              [1; 3]%positive 1%positive 2%positive [2; 4]%positive rc_census rc_sources = true.
Proof. vm_compute. reflexivity. Qed.

Example row_cert_rejects_shared :
  row_cert_ok [(1, Node true [VAtom 5; VRef 3]); (3, Node true [VAtom 255]); (2, Node true [VAtom 5; VRef 3])]%positive
              [1; 3]%positive 1%positive 2%positive [2; 3]%positive rc_census rc_sources = false.
Proof. vm_compute. reflexivity. Qed.

Example row_cert_rejects_changed_value :
  row_cert_ok [(1, Node true [VAtom 5; VRef 3]); (3, Node true [VAtom 255]);
               (2, Node true [VAtom 6; VRef 4]); (4, Node true [VAtom 255])]%positive
              [1; 3]%positive 1%positive 2%positive [2; 4]%positive rc_census rc_sources = false.
Proof. vm_compute. reflexivity. Qed.
