(** C09 round 2 — Keyvalues.__add__/__iadd__: WHICH object each branch appends — the operand's child itself
    or a fresh copy of it ([cp]).  The flags come from Gen/CopyCensus_gen.v ([kv_add_single_copied], ...):
    true iff the appended argument is [x.copy()] (or the public method called copies its argument at every
    site).  Proofs in KvAddFreshProofs.v. *)
From Coq Require Import List Bool.
From SV Require Import SM.KvAdd.
Import ListNotations.

Section KvAddFresh.
  Context {A : Type}.
  Variable cp : A -> A.      (* Keyvalues.copy of one child: a new object *)

  (** What is appended in the branch taken. *)
  Definition kv_added (copied_single copied_iter single : bool) (other : list A) : list A :=
    if (if single then copied_single else copied_iter) then map cp other else other.

  Definition kv_add_ids (r_single r_iter ret : recv) (cs ci single : bool) (self other : list A) : list A * list A :=
    kv_add r_single r_iter ret single self (kv_added cs ci single other).

  Definition kv_iadd_ids (r_single r_iter : recv) (cs ci single : bool) (self other : list A) : list A :=
    kv_iadd r_single r_iter single self (kv_added cs ci single other).
End KvAddFresh.
