(** Final statements about the AtomicWriter model, derived from the invariants of AtomicWriterProofs.v. *)
From Coq Require Import List Bool Arith PeanoNat Lia.
From SV Require Import SM.AtomicWriter SM.AtomicWriterProofs.
Import ListNotations.

Lemma cfg_ok_safe c : cfg_ok c = true -> cfg_safe c = true.
Proof. unfold cfg_ok. intros H. apply andb_true_iff in H. tauto. Qed.
Lemma cfg_ok_clean c : cfg_ok c = true -> cfg_clean c = true.
Proof. unfold cfg_ok. intros H. apply andb_true_iff in H. tauto. Qed.

Section Thms.
Variable c : cfg.
Variable d0 : dir.
Variables s1 s2 : scen.
Hypothesis Hdest : dest s1 <> dest s2.

(** At every point of every schedule (a crash is "the rest of the schedule never runs"), whatever faults were
    injected, each destination holds its old content until its writer's replace has succeeded and the complete
    new content afterwards. *)
Lemma crash_atomic : cfg_safe c = true -> forall sched,
  let st := run2 c s1 s2 sched (start d0) in
  sd st (File (dest s1)) = (if committed (p1 st) then Some (new s1) else d0 (File (dest s1))) /\
  sd st (File (dest s2)) = (if committed (p2 st) then Some (new s2) else d0 (File (dest s2))).
Proof.
  intros Hs sched st. pose proof (inv_run c Hs d0 s1 s2 Hdest sched _ (inv_start d0 s1 s2)) as I.
  split; [exact (inv_dest1 _ _ _ _ I) | exact (inv_dest2 _ _ _ _ I)].
Qed.

Lemma fault_keeps_old : cfg_safe c = true -> forall sched,
  let st := run2 c s1 s2 sched (start d0) in
  faulted false (tr st) -> committed (p1 st) = false /\ sd st (File (dest s1)) = d0 (File (dest s1)).
Proof.
  intros Hs sched st Hf.
  assert (D : doomed (p1 st) = true).
  { apply (fault_doom_run c Hs s1 s2 sched (start d0)); [|exact Hf]. intros [o []]. }
  pose proof (doomed_not_committed _ D) as NC. split; [exact NC|].
  destruct (crash_atomic Hs sched) as [A _]. fold st in A. rewrite NC in A. exact A.
Qed.

Lemma body_exception_keeps_old : cfg_safe c = true -> forall r sched,
  raise_at s1 = Some r -> r <= length (body s1) ->
  let st := run2 c s1 s2 sched (start d0) in
  committed (p1 st) = false /\ sd st (File (dest s1)) = d0 (File (dest s1)).
Proof.
  intros Hs r sched Hr Hle st.
  assert (P : pre_raise r (p1 st)) by (apply (pre_raise_run c Hs s1 s2 Hdest r sched Hr Hle (start d0)); exact I).
  pose proof (pre_raise_not_committed _ _ P) as NC. split; [exact NC|].
  destruct (crash_atomic Hs sched) as [A _]. fold st in A. rewrite NC in A. exact A.
Qed.

(** A finished writer has left no temp file behind unless its own unlink raised; all temp names that are not held by
    the other writer are then exactly as they were before. *)
Lemma no_temp_after_handled_failure : cfg_ok c = true -> forall sched,
  let st := run2 c s1 s2 sched (start d0) in
  finished (p1 st) = true ->
  (forall i, ~ In (false, (EUnlink i, RFault)) (tr st)) ->
  assoc (p1 st) = None /\ forall i, assoc (p2 st) <> Some i -> sd st (Tmp i) = d0 (Tmp i).
Proof.
  intros Hok sched st Hfin Hnf.
  pose proof (cfg_ok_safe _ Hok) as Hs. pose proof (cfg_ok_clean _ Hok) as Hc.
  destruct (left_run c Hs s1 s2 Hc sched (start d0)) as [L1 _].
  { split; intros r i H; discriminate. }
  fold st in L1.
  assert (A : assoc (p1 st) = None).
  { destruct (p1 st) as [| | | | | | |r [i|]] eqn:E; cbn in Hfin; try discriminate; [|reflexivity].
    exfalso. exact (Hnf i (L1 r i eq_refl)). }
  split; [exact A|]. intros i Hi.
  pose proof (inv_run c Hs d0 s1 s2 Hdest sched _ (inv_start d0 s1 s2)) as I. fold st in I.
  apply (inv_frame _ _ _ _ I); try discriminate.
  intros j E. inversion E; subst. split; [congruence | exact Hi].
Qed.

(** Isolation of two concurrent writers. *)
Lemma two_writers_isolated : cfg_safe c = true -> forall sched,
  let st := run2 c s1 s2 sched (start d0) in
  (forall i, assoc (p1 st) = Some i -> assoc (p2 st) = Some i -> False) /\
  (forall i, assoc (p1 st) = Some i \/ assoc (p2 st) = Some i -> d0 (Tmp i) = None /\ sd st (Tmp i) <> None) /\
  (forall i, p1 st = PReplace i -> sd st (Tmp i) = Some (new s1)) /\
  (forall i, p2 st = PReplace i -> sd st (Tmp i) = Some (new s2)) /\
  (forall n, n <> File (dest s1) -> n <> File (dest s2) -> d0 n <> None -> sd st n = d0 n).
Proof.
  intros Hs sched st.
  pose proof (inv_run c Hs d0 s1 s2 Hdest sched _ (inv_start d0 s1 s2)) as I. fold st in I.
  destruct I as [O1 O2 Dj D1 D2 Fr]. repeat split.
  - exact Dj.
  - destruct H as [H|H]; [destruct (O1 i H) | destruct (O2 i H)]; assumption.
  - destruct H as [H|H]; [destruct (O1 i H) as [_ [ct [A _]]] | destruct (O2 i H) as [_ [ct [A _]]]]; congruence.
  - intros i H. destruct (O1 i) as [_ [ct [A B]]]; [rewrite H; reflexivity|]. rewrite H in B. cbn in B. congruence.
  - intros i H. destruct (O2 i) as [_ [ct [A B]]]; [rewrite H; reflexivity|]. rewrite H in B. cbn in B. congruence.
  - intros n A B Hn. apply Fr; auto. intros i E. subst n. split; intros X.
    + destruct (O1 i X). contradiction.
    + destruct (O2 i X). contradiction.
Qed.
End Thms.

(** * One writer alone *)
Section Alone.
Variable c : cfg.
Variable d0 : dir.
Variable s : scen.

Lemma other_dest : dest s <> dest (other s).
Proof. cbn. lia. Qed.

Lemma alone_p2 faults : p2 (alone c s faults d0) = PDone FNot None.
Proof.
  unfold alone, run2.
  assert (G : forall l st, p2 st = PDone FNot None ->
              p2 (fold_left (step2 c s (other s)) (map (fun f => (false, f)) l) st) = PDone FNot None).
  { induction l as [|f l IH]; intros st H; cbn [map fold_left]; [exact H|]. apply IH.
    unfold step2. destruct (wstep c s (p1 st) (sd st) f) as [[p' d'] e]. exact H. }
  apply G. reflexivity.
Qed.

Lemma alone_inv : cfg_safe c = true -> forall faults, Inv d0 s (other s) (alone c s faults d0).
Proof. intros Hs faults. apply inv_run; auto using other_dest. apply inv_start1. Qed.

Lemma alone_crash_atomic : cfg_safe c = true -> forall faults,
  let st := alone c s faults d0 in
  sd st (File (dest s)) = (if committed (p1 st) then Some (new s) else d0 (File (dest s))).
Proof. intros Hs faults st. exact (inv_dest1 _ _ _ _ (alone_inv Hs faults)). Qed.

Lemma alone_untouched : cfg_safe c = true -> forall faults n,
  let st := alone c s faults d0 in
  n <> File (dest s) -> (forall i, n = Tmp i -> assoc (p1 st) <> Some i) -> sd st n = d0 n.
Proof.
  intros Hs faults n st Hn Ht. pose proof (alone_inv Hs faults) as I. fold st in I.
  destruct (name_eqb n (File (dest (other s)))) eqn:E.
  - apply name_eqb_eq in E. subst n. pose proof (inv_dest2 _ _ _ _ I) as D. unfold DestOk in D.
    fold st in D. unfold st in D. rewrite alone_p2 in D. exact D.
  - apply (inv_frame _ _ _ _ I); auto.
    + intros X. subst n. rewrite name_eqb_refl in E. discriminate.
    + intros i Ei. split; [auto|]. unfold st. rewrite alone_p2. discriminate.
Qed.

Lemma alone_fault_keeps_old : cfg_safe c = true -> forall faults,
  let st := alone c s faults d0 in
  faulted false (tr st) -> committed (p1 st) = false /\ sd st (File (dest s)) = d0 (File (dest s)).
Proof.
  intros Hs faults st Hf.
  assert (D : doomed (p1 st) = true).
  { apply (fault_doom_run c Hs s (other s) _ (start1 d0)); [|exact Hf]. intros [o []]. }
  pose proof (doomed_not_committed _ D) as NC. split; [exact NC|].
  pose proof (alone_crash_atomic Hs faults) as A. cbv zeta in A. fold st in A. rewrite NC in A. exact A.
Qed.

Lemma alone_left : cfg_ok c = true -> forall faults,
  let st := alone c s faults d0 in
  finished (p1 st) = true -> (forall i, ~ In (false, (EUnlink i, RFault)) (tr st)) -> assoc (p1 st) = None.
Proof.
  intros Hok faults st Hfin Hnf.
  pose proof (cfg_ok_safe _ Hok) as Hs. pose proof (cfg_ok_clean _ Hok) as Hc.
  destruct (left_run c Hs s (other s) Hc (map (fun f => (false, f)) faults) (start1 d0)) as [L1 _].
  { split; intros r i H; discriminate. }
  change (run2 c s (other s) (map (fun f => (false, f)) faults) (start1 d0)) with st in L1.
  destruct (p1 st) as [| | | | | | |r [i|]] eqn:E; cbn in Hfin; try discriminate; [|reflexivity].
  exfalso. exact (Hnf i (L1 r i eq_refl)).
Qed.

(** The caller's body raises after [r] raw writes, no OSError anywhere (or any, except in the final unlink):
    destination unchanged, every temp name as before, everything else as before. *)
Lemma alone_body_exception_cleans : cfg_ok c = true -> forall r faults,
  raise_at s = Some r -> r <= length (body s) ->
  let st := alone c s faults d0 in
  sd st (File (dest s)) = d0 (File (dest s)) /\
  (finished (p1 st) = true -> (forall i, ~ In (false, (EUnlink i, RFault)) (tr st)) -> forall n, sd st n = d0 n).
Proof.
  intros Hok r faults Hr Hle st. pose proof (cfg_ok_safe _ Hok) as Hs.
  assert (P : pre_raise r (p1 st)).
  { apply (pre_raise_run c Hs s (other s) other_dest r _ Hr Hle (start1 d0)). exact I. }
  pose proof (pre_raise_not_committed _ _ P) as NC.
  pose proof (alone_crash_atomic Hs faults) as A. cbv zeta in A. fold st in A. rewrite NC in A.
  split; [exact A|]. intros Hfin Hnf n.
  pose proof (alone_left Hok faults Hfin Hnf) as L. cbv zeta in L. fold st in L.
  destruct (name_eqb n (File (dest s))) eqn:E.
  - apply name_eqb_eq in E. subst n. exact A.
  - apply (alone_untouched Hs faults).
    + intros X. subst n. rewrite name_eqb_refl in E. discriminate.
    + intros i _. fold st. rewrite L. discriminate.
Qed.

(** Any handled failure (or success): no temp name differs from before. *)
Lemma alone_no_temp_left : cfg_ok c = true -> forall faults,
  let st := alone c s faults d0 in
  finished (p1 st) = true -> (forall i, ~ In (false, (EUnlink i, RFault)) (tr st)) ->
  forall i, sd st (Tmp i) = d0 (Tmp i).
Proof.
  intros Hok faults st Hfin Hnf i. pose proof (cfg_ok_safe _ Hok) as Hs.
  pose proof (alone_left Hok faults Hfin Hnf) as L. cbv zeta in L. fold st in L.
  apply (alone_untouched Hs faults); [discriminate|]. intros j _. fold st. rewrite L. discriminate.
Qed.
End Alone.

(** * Witnesses: the hypotheses are needed, and the statements are not vacuous *)
Definition d_old : dir := dir_of [(File 0, [100]); (File 1, [101]); (Tmp 2, [777])].
Definition sc_a : scen := {| dest := 0; body := [1; 2]; tail := [3]; raise_at := None |}.
Definition sc_b : scen := {| dest := 1; body := [7]; tail := []; raise_at := None |}.
Definition sc_raise : scen := {| dest := 0; body := [1; 2]; tail := [3]; raise_at := Some 1 |}.

(** Happy path on the repaired configuration: commits the complete content, no temp file. *)
Lemma happy_path_commits :
  let st := alone cfg_fixed sc_a (repeat false 7) d_old in
  p1 st = PDone FCommitted None /\ sd st (File 0) = Some [1; 2; 3] /\ sd st (Tmp 1) = None /\ sd st (Tmp 2) = Some [777].
Proof. vm_compute. auto. Qed.

(** The pinned tree (no cleanup around close/replace): an OSError from close, or from replace, leaves tmp_1. *)
Lemma pinned_close_fault_leaves_temp :
  let st := alone cfg_pinned sc_a [false; false; false; false; false; true] d_old in
  p1 st = PDone FNot (Some 1) /\ sd st (Tmp 1) = Some [1; 2; 3] /\ sd st (File 0) = Some [100].
Proof. vm_compute. auto. Qed.
Lemma pinned_flush_fault_leaves_temp :
  let st := alone cfg_pinned sc_a [false; false; false; false; true; false] d_old in
  p1 st = PDone FNot (Some 1) /\ sd st (Tmp 1) = Some [1; 2] /\ sd st (File 0) = Some [100].
Proof. vm_compute. auto. Qed.
Lemma pinned_replace_fault_leaves_temp :
  let st := alone cfg_pinned sc_a [false; false; false; false; false; false; true] d_old in
  p1 st = PDone FNot (Some 1) /\ sd st (Tmp 1) = Some [1; 2; 3] /\ sd st (File 0) = Some [100].
Proof. vm_compute. auto. Qed.
(** ... and the same faults on the repaired configuration are cleaned up. *)
Lemma fixed_close_fault_cleans :
  let st := alone cfg_fixed sc_a [false; false; false; false; false; true; false] d_old in
  p1 st = PDone FNot None /\ sd st (Tmp 1) = None /\ sd st (File 0) = Some [100].
Proof. vm_compute. auto. Qed.
Lemma body_exception_example :
  let st := alone cfg_fixed sc_raise (repeat false 6) d_old in
  p1 st = PDone FNot None /\ sd st (Tmp 1) = None /\ sd st (File 0) = Some [100].
Proof. vm_compute. auto. Qed.

(** Without the exclusive open a second writer truncates the first one's temp file and the first destination
    receives foreign data. *)
Definition cfg_nonexcl : cfg :=
  {| c_excl := false; c_close_guard := true; c_replace_guard := true; c_on_ok := ACommit; c_on_exc := ADiscard |}.
Definition sc_a1 : scen := {| dest := 0; body := [1]; tail := []; raise_at := None |}.
Lemma nonexclusive_open_clobbers :
  let st := run2 cfg_nonexcl sc_a1 sc_b
              [(false, false); (false, false); (false, false); (true, false); (true, false); (true, false);
               (false, false); (false, false)] (start d_old) in
  committed (p1 st) = true /\ sd st (File 0) = Some [7] /\ new sc_a1 = [1].
Proof. vm_compute. auto. Qed.

(** Committing when the body raised publishes a partial file. *)
Definition cfg_commit_on_exc : cfg :=
  {| c_excl := true; c_close_guard := true; c_replace_guard := true; c_on_ok := ACommit; c_on_exc := ACommit |}.
Lemma commit_on_exception_publishes_partial :
  let st := alone cfg_commit_on_exc sc_raise (repeat false 6) d_old in
  sd st (File 0) = Some [1] /\ new sc_raise = [1; 2; 3].
Proof. vm_compute. auto. Qed.

(** The only way to leave a temp file on the repaired configuration: the cleanup unlink itself raises. *)
Lemma unlink_fault_leaves_temp :
  let st := alone cfg_fixed sc_raise [false; false; false; false; true] d_old in
  p1 st = PDone FNot (Some 1) /\ sd st (Tmp 1) = Some [1] /\ sd st (File 0) = Some [100].
Proof. vm_compute. auto. Qed.

Lemma cfg_fixed_ok : cfg_ok cfg_fixed = true.
Proof. reflexivity. Qed.
Lemma cfg_pinned_not_clean : cfg_clean cfg_pinned = false /\ cfg_safe cfg_pinned = true.
Proof. split; reflexivity. Qed.
