(** C05 (b) — objects whose slots hold the same values compare equal: "a copy is equal to its source" for ==. *)
From Coq Require Import QArith Qabs List String Bool.
From SV Require Import SM.FrozenOps SM.FrozenHash SM.FrozenHashProofs SM.FrozenEq.
Import ListNotations.

Lemma cmp_refl_eval c a b : cmp_refl c = true -> a == b -> cmp_eval c a b = true.
Proof.
  intros Hc Hab. destruct c as [s t| |]; simpl in *; try discriminate.
  - assert (E : Qabs (a - b) == 0).
    { rewrite Hab. setoid_replace (b - b) with 0 by ring. reflexivity. }
    destruct s; unfold Qlt_bool in *.
    + rewrite <- Hc. f_equal. apply eq_true_iff_eq. rewrite !Qle_bool_iff. rewrite E. reflexivity.
    + rewrite <- Hc. apply eq_true_iff_eq. rewrite !Qle_bool_iff. rewrite E. reflexivity.
  - apply Qeq_bool_iff. exact Hab.
Qed.

(** For every table that passes [eq_table_ok]: two objects of one family whose slots hold the same (finite) values
    compare equal - whatever the tolerance is, as long as it accepts a difference of zero. *)
Theorem eq_same_value rows : eq_table_ok rows = true ->
  forall fam l, In (fam, l) rows -> forall a b : string -> Q,
  (forall s, In s (family_slots fam) -> a s == b s) -> eq_eval l a b = true.
Proof.
  unfold eq_table_ok. intros H fam l Hin a b Hs.
  apply andb_prop in H. destruct H as [H _]. rewrite forallb_forall in H. specialize (H _ Hin).
  unfold eq_row_ok in H; simpl in H. apply andb_prop in H. destruct H as [H Hsub2]. apply andb_prop in H. destruct H as [Hr _].
  unfold eq_eval. rewrite forallb_forall in *. intros [s c] Hsc. simpl.
  apply cmp_refl_eval; [exact (Hr _ Hsc)|]. apply Hs.
  eapply subset_in; [exact Hsub2|]. apply in_map_iff. exists (s, c). split; auto.
Qed.

(** == looks at every slot of the family *)
Theorem eq_reads_every_slot rows : eq_table_ok rows = true ->
  forall fam l, In (fam, l) rows -> forall s, In s (family_slots fam) -> In s (map fst l).
Proof.
  unfold eq_table_ok. intros H fam l Hin s Hs.
  apply andb_prop in H. destruct H as [H _]. rewrite forallb_forall in H. specialize (H _ Hin).
  unfold eq_row_ok in H; simpl in H. apply andb_prop in H. destruct H as [H _]. apply andb_prop in H. destruct H as [_ Hsub].
  eapply subset_in; eauto.
Qed.

(** a strict test against a tolerance of zero (or less) rejects even identical values *)
Theorem eq_strict_zero_refuted :
  let rows := [("AngleBase"%string, [("_pitch"%string, CTol true 0); ("_yaw"%string, CTol false (1 # 1000000)); ("_roll"%string, CTol false (1 # 1000000))])] in
  eq_table_ok rows = false /\ bad_eq_rows rows = ["AngleBase"%string] /\
  eq_eval (snd (hd ("", []) rows)) (fun _ => 90 # 1) (fun _ => 90 # 1) = false.
Proof. repeat split. Qed.

Example eq_table_satisfiable :
  eq_table_ok [("VecBase"%string, [("_x"%string, CTol true (1 # 1000000)); ("_y"%string, CTol true (1 # 1000000)); ("_z"%string, CTol true (1 # 1000000))]);
               ("AngleBase"%string, [("_pitch"%string, CTol false (1 # 1000000)); ("_yaw"%string, CTol false (1 # 1000000)); ("_roll"%string, CTol false (1 # 1000000))]);
               ("MatrixBase"%string, map (fun s => (s, CExact)) (family_slots "MatrixBase"))] = true.
Proof. reflexivity. Qed.
