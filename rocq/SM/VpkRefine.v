(** Whole-history refinement: for every sequence of operations the state machine SM/Vpk.v ([step]/[run], the model of
    srctools.vpk) is observationally equal to the specification map ([sstep]/[srun]): same result code at every
    operation, same set of names, every file reads back the bytes last written and verifies.
    Invariant + induction over the operation list; all placements, every dir_limit, every preload cap.

    CRC-32 is a [Section] variable.  FileInfo.write skips a write whose checksum equals the stored one, so the theorem
    carries the explicit premise that the data values of the history (and the empty string, the content of a new file)
    have no CRC collision among them ([collision_free]). *)
From Coq Require Import List NArith Bool Lia Permutation.
From SV Require Import Fmt.VpkDir Fmt.VpkDirProofs SM.Vpk SM.VpkProofs.
Import ListNotations.
Open Scope N_scope.

(** what the proof needs of a configuration (Props/C13.v [vcfg_ok] unfolds to this) *)
Definition vcfg_okb (cf : vcfg) : bool :=
  dcfg_ok (v_dc cf) && (v_max_pre cf <=? 65535) && v_chk_idx cf && v_chk_name cf.

Lemma vcfg_okb_inv cf : vcfg_okb cf = true -> dcfg_ok (v_dc cf) = true /\ v_chk_idx cf = true /\ v_chk_name cf = true.
Proof.
  unfold vcfg_okb. intros H. apply andb_prop in H as [H H3]. apply andb_prop in H as [H H2]. apply andb_prop in H as [H H1]. auto.
Qed.

(** the data values of a history, and the content of a freshly created file *)
Definition op_data (o : op) : list bytes :=
  match o with OAdd _ d _ => [d] | OWrite _ d _ => [d] | _ => [] end.
Definition datas (ops : list op) : list bytes := [] :: flat_map op_data ops.
Definition collision_free (crc : bytes -> N) (ops : list op) : Prop :=
  forall d1 d2, In d1 (datas ops) -> In d2 (datas ops) -> crc d1 = crc d2 -> d1 = d2.
(** executable version, for examples and for checking the premise on concrete histories *)
Definition collision_freeb (crc : bytes -> N) (ops : list op) : bool :=
  forallb (fun d1 => forallb (fun d2 => negb (crc d1 =? crc d2) || bytes_eqb d1 d2) (datas ops)) (datas ops).
Lemma collision_freeb_sound crc ops : collision_freeb crc ops = true -> collision_free crc ops.
Proof.
  unfold collision_freeb, collision_free. intros H d1 d2 H1 H2 Hc.
  rewrite forallb_forall in H. specialize (H _ H1). rewrite forallb_forall in H. specialize (H _ H2).
  apply orb_prop in H as [H|H].
  - apply negb_true_iff, N.eqb_neq in H. contradiction.
  - now apply bytes_eqb_eq.
Qed.

(** ---- slices of append-only containers ---- *)
Lemma slice_app_inb (b t : bytes) off n : off + n <= len b -> slice (b ++ t) off n = slice b off n.
Proof.
  unfold slice, len. intros H.
  rewrite skipn_app. replace (N.to_nat off - length b)%nat with 0%nat by lia. cbn [skipn].
  rewrite firstn_app. rewrite skipn_length.
  replace (N.to_nat n - (length b - N.to_nat off))%nat with 0%nat by lia. cbn [firstn]. apply app_nil_r.
Qed.

(** contents of a file given the archives and the footer block (= [read_info]) *)
Definition cont (ar : list (N * bytes)) (ft : bytes) (i : info) : bytes :=
  match iidx i with None => ft | Some x => arch_get x ar end.
Definition rd (ar : list (N * bytes)) (ft : bytes) (i : info) : bytes :=
  ipre i ++ (if ilen i =? 0 then [] else slice (cont ar ft i) (ioff i) (ilen i)).
Lemma read_info_rd st i : read_info st i = rd (archs st) (foot st) i.
Proof. reflexivity. Qed.
(** the part stored outside the tree lies inside its container *)
Definition inb (ar : list (N * bytes)) (ft : bytes) (i : info) : Prop :=
  ilen i <> 0 -> ioff i + ilen i <= len (cont ar ft i).

(** archives and footer only grow at the end *)
Definition aext (ar ar' : list (N * bytes)) : Prop := forall x, exists t, arch_get x ar' = arch_get x ar ++ t.
Definition fext (ft ft' : bytes) : Prop := exists t, ft' = ft ++ t.
Lemma aext_refl ar : aext ar ar.
Proof. intros x. exists []. now rewrite app_nil_r. Qed.
Lemma fext_refl ft : fext ft ft.
Proof. exists []. now rewrite app_nil_r. Qed.
Lemma aext_app x t ar : aext ar (arch_app x t ar).
Proof.
  intros y. destruct (N.eq_dec y x) as [->|Hn].
  - exists t. apply arch_get_app_same.
  - exists []. rewrite app_nil_r. now apply arch_get_app_other.
Qed.

Lemma cont_ext ar ft ar' ft' i : aext ar ar' -> fext ft ft' -> exists t, cont ar' ft' i = cont ar ft i ++ t.
Proof. intros Ha Hf. unfold cont. destruct (iidx i) as [x|]; [apply Ha|apply Hf]. Qed.
Lemma rd_ext ar ft ar' ft' i : aext ar ar' -> fext ft ft' -> inb ar ft i -> rd ar' ft' i = rd ar ft i /\ inb ar' ft' i.
Proof.
  intros Ha Hf Hi. destruct (cont_ext ar ft ar' ft' i Ha Hf) as [t Ht]. unfold rd, inb in *. rewrite Ht. split.
  - destruct (N.eqb_spec (ilen i) 0) as [|Hn]; [reflexivity|]. rewrite slice_app_inb by auto. reflexivity.
  - intros Hn. specialize (Hi Hn). rewrite len_app. lia.
Qed.

Section refine.
  Variable crc : bytes -> N.
  Variable cf : vcfg.
  Hypothesis Hcf : vcfg_okb cf = true.
  (** the data values that occur; no two of them collide under [crc] *)
  Variable D : bytes -> Prop.
  Hypothesis D_nil : D [].
  Hypothesis D_inj : forall d1 d2, D d1 -> D d2 -> crc d1 = crc d2 -> d1 = d2.

  Let Hdc : dcfg_ok (v_dc cf) = true := proj1 (vcfg_okb_inv cf Hcf).
  Let Hci : v_chk_idx cf = true := proj1 (proj2 (vcfg_okb_inv cf Hcf)).
  Let Hcn : v_chk_name cf = true := proj2 (proj2 (vcfg_okb_inv cf Hcf)).

  (** one entry stands for one value of the map *)
  Definition ent_rel (ar : list (N * bytes)) (ft : bytes) (k : key) (i : info) (d : bytes) : Prop :=
    rd ar ft i = d /\ icrc i = crc d /\ inb ar ft i /\ D d /\ entry_wf (v_dc cf) (k, i).
  (** a table stands for a map *)
  Definition rel (ar : list (N * bytes)) (ft : bytes) (tb : list (key * info)) (m : list (key * bytes)) : Prop :=
    NoDup (map fst tb) /\ NoDup (map fst m) /\
    forall k, match alookup k tb, alookup k m with
              | Some i, Some d => ent_rel ar ft k i d
              | None, None => True
              | _, _ => False
              end.
  (** the invariant: same mode; the table stands for the current map; the bytes of the directory file on disk decode
      to a table that stands for the saved map (read against the archives as they are now). *)
  Definition inv (st : vstate) (s : spec) : Prop :=
    md st = smd s /\ rel (archs st) (foot st) (tbl st) (cur s) /\
    match saved s with
    | None => dec_file (v_dc cf) (disk st) = None
    | Some c => exists es f, dec_file (v_dc cf) (disk st) = Some (es, f) /\ rel (archs st) f (load_table es) c
    end.

  Ltac split6 := split; [|split; [|split; [|split; [|split]]]].
  Ltac split_ent := unfold ent_rel, entry_wf; cbn [fst snd]; split; [|split; [|split; [|split; [|split]]]].

  Lemma ent_rel_ext ar ft ar' ft' k i d : aext ar ar' -> fext ft ft' -> ent_rel ar ft k i d -> ent_rel ar' ft' k i d.
  Proof.
    intros Ha Hf (Hr & Hc & Hi & Hd & Hw). destruct (rd_ext _ _ _ _ i Ha Hf Hi) as [E Hi'].
    unfold ent_rel. rewrite E. auto.
  Qed.
  Lemma rel_ext ar ft ar' ft' tb m : aext ar ar' -> fext ft ft' -> rel ar ft tb m -> rel ar' ft' tb m.
  Proof.
    intros Ha Hf (H1 & H2 & H). split; [exact H1|]. split; [exact H2|]. intros k. specialize (H k).
    destruct (alookup k tb), (alookup k m); try exact H. eapply ent_rel_ext; eassumption.
  Qed.
  Lemma rel_wf ar ft tb m : rel ar ft tb m -> Forall (entry_wf (v_dc cf)) tb.
  Proof.
    intros (H1 & _ & H). apply Forall_forall. intros [k i] Hin. specialize (H k).
    rewrite (In_alookup _ _ _ H1 Hin) in H. destruct (alookup k m); [|contradiction]. apply H.
  Qed.
  Lemma rel_lookup ar ft tb m k : rel ar ft tb m ->
    (alookup k tb = None /\ alookup k m = None) \/ (exists i d, alookup k tb = Some i /\ alookup k m = Some d /\ ent_rel ar ft k i d).
  Proof.
    intros (_ & _ & H). specialize (H k). destruct (alookup k tb) as [i|], (alookup k m) as [d|]; try contradiction; eauto 8.
  Qed.

  (** replacing / inserting one entry on both sides *)
  Lemma rel_aset ar ft tb m k i d : rel ar ft tb m -> ent_rel ar ft k i d -> rel ar ft (aset k i tb) (aset k d m).
  Proof.
    intros (H1 & H2 & H) He. split; [now apply aset_keys|]. split; [now apply aset_keys|].
    intros k'. rewrite !alookup_aset. destruct (key_eqb k' k) eqn:E.
    - apply key_eqb_eq in E. now subst.
    - apply H.
  Qed.
  Lemma rel_adel ar ft tb m k : rel ar ft tb m -> rel ar ft (adel k tb) (adel k m).
  Proof.
    intros (H1 & H2 & H). split; [now apply adel_keys|]. split; [now apply adel_keys|].
    intros k'. rewrite !alookup_adel. destruct (key_eqb k' k); [exact I|apply H].
  Qed.
  Lemma rel_nil ar ft : rel ar ft [] [].
  Proof. split; [constructor|]. split; [constructor|]. intros k. exact I. Qed.

  (** a new, empty file *)
  Lemma ent_rel_empty ar ft k : key_ok k = true -> ent_rel ar ft k (empty_info crc) [].
  Proof.
    intros Hk. split_ent; [reflexivity|reflexivity| |exact D_nil|exact Hk|].
    - intros Hn. now contradiction Hn.
    - intros x Hx. discriminate.
  Qed.

  (** ---- FileInfo.write ---- *)
  Lemma idx_accepted ix : idx_rejected cf ix = false -> v_is_dir cf = true -> idx_ok cf ix = true.
  Proof. unfold idx_rejected. rewrite Hci. intros H Hd. rewrite Hd in H. cbn in H. now apply negb_false_iff in H. Qed.

  (** The written entry stands for the data; everything stored before is still where it was. *)
  Lemma write_info_rel st i d ix k :
    (crc d =? icrc i) = false -> D d -> key_ok k = true -> idx_rejected cf ix = false ->
    forall st' i', write_info crc cf st i d ix = (st', i') ->
    aext (archs st) (archs st') /\ fext (foot st) (foot st') /\ tbl st' = tbl st /\ md st' = md st /\ disk st' = disk st
    /\ ent_rel (archs st') (foot st') k i' d.
  Proof.
    intros Hc Hd Hk Hix st' i'. unfold write_info. rewrite Hc.
    destruct (split_rule cf) as [lim force] eqn:Esr.
    pose proof (firstn_skipn (N.to_nat lim) d) as Hfs.
    destruct (skipn (N.to_nat lim) d) as [|t0 tail] eqn:Et.
    - intros [= <- <-]. split6; auto using aext_refl, fext_refl.
      split_ent; [|reflexivity| |exact Hd|exact Hk|].
      + unfold rd. cbn [ipre ilen N.eqb]. exact Hfs.
      + intros Hn. now contradiction Hn.
      + intros x Hx. discriminate.
    - destruct (if force then None else ix) as [x|] eqn:Eix.
      + intros [= <- <-]. cbn [archs foot tbl md disk]. split6; auto using aext_app, fext_refl.
        split_ent; [|reflexivity| |exact Hd|exact Hk|].
        * unfold rd, cont. cbn [ipre ilen iidx ioff]. rewrite len_cons_nz, arch_get_app_same, slice_end. exact Hfs.
        * unfold inb, cont. cbn [ilen iidx ioff]. intros _. rewrite arch_get_app_same, len_app. lia.
        * cbn [snd iidx]. intros y [= <-]. destruct force; [discriminate|]. subst ix.
          unfold split_rule in Esr. destruct (v_is_dir cf) eqn:Edir; [|destruct (v_limit cf); discriminate].
          pose proof (idx_accepted _ Hix Edir) as Hok. cbn [idx_ok] in Hok. apply N.ltb_lt in Hok. lia.
      + intros [= <- <-]. cbn [archs foot tbl md disk]. split6; auto using aext_refl. { now exists (t0 :: tail). }
        split_ent; [|reflexivity| |exact Hd|exact Hk|].
        * unfold rd, cont. cbn [ipre ilen iidx ioff]. rewrite len_cons_nz, slice_end. exact Hfs.
        * unfold inb, cont. cbn [ilen iidx ioff]. intros _. rewrite len_app. lia.
        * intros y Hy. discriminate.
  Qed.

  (** [do_write] on an entry that stands for [d0] (or on the fresh empty entry, [d0 = []]) *)
  Lemma do_write_inv st s k i d0 d ix :
    inv st s -> D d -> key_ok k = true -> idx_rejected cf ix = false ->
    ent_rel (archs st) (foot st) k i d0 ->
    inv (do_write crc cf st k i d ix) (with_cur s (aset k d (cur s))).
  Proof.
    intros (Hm & Hr & Hs) Hd Hk Hix He. unfold do_write.
    destruct (write_info crc cf st i d ix) as [st' i'] eqn:Ew.
    destruct (crc d =? icrc i) eqn:Hc.
    - (* same checksum: nothing is written; by collision freedom the data is the old data *)
      unfold write_info in Ew. rewrite Hc in Ew. injection Ew as <- <-.
      apply N.eqb_eq in Hc. destruct He as (Hr0 & Hc0 & Hi0 & Hd0 & Hw0).
      assert (d = d0) as -> by (apply D_inj; auto; congruence).
      split; [exact Hm|]. split.
      + cbn [archs foot tbl with_tbl cur with_cur]. apply rel_aset; [exact Hr|]. unfold ent_rel. auto.
      + cbn [saved with_cur archs disk with_tbl]. exact Hs.
    - destruct (write_info_rel st i d ix k Hc Hd Hk Hix _ _ Ew) as (Ha & Hf & Ht & Hmd & Hdk & He').
      split; [cbn [md with_tbl smd with_cur]; congruence|]. split.
      + cbn [archs foot tbl with_tbl cur with_cur]. rewrite Ht. apply rel_aset; [|exact He'].
        eapply rel_ext; eassumption.
      + cbn [saved with_cur archs disk with_tbl]. rewrite Hdk. destruct (saved s) as [c|]; [|exact Hs].
        destruct Hs as (es & f & E & Hrel). exists es, f. split; [exact E|].
        eapply rel_ext; [exact Ha|apply fext_refl|exact Hrel].
  Qed.

  Lemma name_accepted k : name_rejected cf k = false -> key_ok k = true.
  Proof. unfold name_rejected. rewrite Hcn. cbn. now intros H%negb_false_iff. Qed.
  Lemma ent_rel_key ar ft k i d : ent_rel ar ft k i d -> key_ok k = true.
  Proof. intros (_ & _ & _ & _ & Hw & _). exact Hw. Qed.

  (** ---- write_dirfile: the bytes on disk decode to a table that stands for the current map ---- *)
  Lemma ent_rel_norm ar ft k i d : ent_rel ar ft k i d -> ent_rel ar ft k (norm_info i) d.
  Proof.
    intros (Hr & Hc & Hi & Hd & Hk & Hx). cbn [fst snd] in Hk, Hx.
    split_ent; [|exact Hc| |exact Hd|exact Hk|exact Hx]; unfold rd, inb, cont, norm_info in *; cbn [ipre ilen iidx ioff icrc] in *.
    - destruct (ilen i =? 0); exact Hr.
    - intros Hn. destruct (N.eqb_spec (ilen i) 0); [contradiction|auto].
  Qed.

  Lemma save_inv st s b :
    inv st s -> enc_file (v_dc cf) (tree_of (tbl st)) (foot st) = Some b ->
    exists es, dec_file (v_dc cf) b = Some (es, foot st) /\ rel (archs st) (foot st) (load_table es) (cur s).
  Proof.
    intros (Hm & Hr & Hs) Eb. pose proof Hr as (Hnd & Hnd2 & Hl).
    pose proof (rel_wf _ _ _ _ Hr) as Hwf.
    pose proof (dirtree_roundtrip (v_dc cf) Hdc _ _ _ (tree_of_wf _ _ Hwf) Eb) as Hd.
    exists (nmap (flat_tree (tree_of (tbl st)))). split; [exact Hd|].
    assert (Permutation (nmap (flat_tree (tree_of (tbl st)))) (nmap (tbl st))) as Hp by (apply Permutation_map, tree_of_perm).
    assert (NoDup (map fst (nmap (flat_tree (tree_of (tbl st)))))) as Hnd'.
    { rewrite nmap_keys. eapply Permutation_NoDup; [apply Permutation_sym, Permutation_map, tree_of_perm|exact Hnd]. }
    split; [apply load_keys; constructor|]. split; [exact Hnd2|].
    intros k. unfold load_table. rewrite load_lookup by exact Hnd'. cbn [alookup].
    rewrite (alookup_perm _ _ Hp Hnd' k), alookup_nmap. specialize (Hl k).
    destruct (alookup k (tbl st)) as [i|]; cbn [option_map]; destruct (alookup k (cur s)); try exact Hl.
    now apply ent_rel_norm.
  Qed.

  (** ---- one operation preserves the invariant and returns the specification's result code ---- *)
  Definition op_D (o : op) : Prop := Forall D (op_data o).

  Lemma step_refines st s o st' c :
    inv st s -> op_D o -> step crc cf st o = Some (st', c) ->
    c = snd (sstep cf s o) /\ inv st' (fst (sstep cf s o)).
  Proof.
    intros Hinv Ho. pose proof Hinv as (Hm & Hr & Hs). destruct o as [k|k d ix|k d ix|k| |m]; cbn [step sstep].
    - (* new_file *)
      rewrite <- Hm. destruct (negb (writable (md st))); [intros [= <- <-]; auto|].
      destruct (name_rejected cf k) eqn:En; [intros [= <- <-]; auto|].
      destruct (rel_lookup _ _ _ _ k Hr) as [[E1 E2]|(i & d0 & E1 & E2 & He)]; rewrite E1, E2; intros [= <- <-]; [|auto].
      cbn [fst snd]. split; [reflexivity|]. split; [exact Hm|]. split.
      + cbn [archs foot tbl with_tbl cur with_cur]. apply rel_aset; [exact Hr|]. apply ent_rel_empty, name_accepted, En.
      + exact Hs.
    - (* add_file *)
      assert (D d) as Hd by (inversion Ho; assumption).
      rewrite <- Hm. destruct (negb (writable (md st))); [intros [= <- <-]; auto|].
      destruct (idx_rejected cf ix) eqn:Ei; [intros [= <- <-]; auto|].
      destruct (name_rejected cf k) eqn:En; [intros [= <- <-]; auto|].
      destruct (rel_lookup _ _ _ _ k Hr) as [[E1 E2]|(i & d0 & E1 & E2 & He)]; rewrite E1, E2; intros [= <- <-]; [|auto].
      cbn [fst snd]. split; [reflexivity|].
      apply do_write_inv with (d0 := []); auto using name_accepted. apply ent_rel_empty, name_accepted, En.
    - (* FileInfo.write *)
      assert (D d) as Hd by (inversion Ho; assumption).
      destruct (rel_lookup _ _ _ _ k Hr) as [[E1 E2]|(i & d0 & E1 & E2 & He)]; rewrite E1, E2; [intros [= <- <-]; auto|].
      rewrite <- Hm. destruct (negb (writable (md st))); [intros [= <- <-]; auto|].
      destruct (idx_rejected cf ix) eqn:Ei; intros [= <- <-]; [auto|].
      cbn [fst snd]. split; [reflexivity|].
      apply do_write_inv with (d0 := d0); auto. eapply ent_rel_key, He.
    - (* del *)
      rewrite <- Hm. destruct (negb (writable (md st))); [intros [= <- <-]; auto|].
      destruct (rel_lookup _ _ _ _ k Hr) as [[E1 E2]|(i & d0 & E1 & E2 & He)]; rewrite E1, E2; intros [= <- <-]; [auto|].
      cbn [fst snd]. split; [reflexivity|]. split; [exact Hm|]. split; [|exact Hs].
      cbn [archs foot tbl with_tbl cur with_cur]. now apply rel_adel.
    - (* write_dirfile *)
      rewrite <- Hm. destruct (negb (writable (md st))); [intros [= <- <-]; auto|].
      destruct (enc_file (v_dc cf) (tree_of (tbl st)) (foot st)) as [b|] eqn:Eb; [|discriminate].
      intros [= <- <-]. cbn [fst snd]. split; [reflexivity|]. split; [reflexivity|]. split; [exact Hr|].
      cbn [saved disk archs]. destruct (save_inv st s b Hinv Eb) as (es & Hd & Hrel). eauto.
    - (* reopen *)
      destruct m.
      + (* 'r' *)
        destruct (saved s) as [c0|] eqn:Esv.
        * destruct Hs as (es & f & E & Hrel). rewrite E. intros [= <- <-]. cbn [fst snd]. split; [reflexivity|].
          split; [reflexivity|]. split; [exact Hrel|]. cbn [saved disk archs]. eauto.
        * rewrite Hs. intros [= <- <-]. cbn [fst snd]. split; [reflexivity|]. exact Hinv.
      + (* 'w' *)
        intros [= <- <-]. cbn [fst snd]. split; [reflexivity|]. split; [reflexivity|]. split; [apply rel_nil|].
        cbn [saved disk]. reflexivity.
      + (* 'a' *)
        destruct (saved s) as [c0|] eqn:Esv.
        * destruct Hs as (es & f & E & Hrel). rewrite E. intros [= <- <-]. cbn [fst snd]. split; [reflexivity|].
          split; [reflexivity|]. split; [exact Hrel|]. cbn [saved disk archs]. eauto.
        * rewrite Hs. intros [= <- <-]. cbn [fst snd]. split; [reflexivity|]. exact Hinv.
  Qed.

  (** ---- every history ---- *)
  Lemma run_refines ops : forall st s st' cs,
    inv st s -> Forall op_D ops -> run crc cf st ops = Some (st', cs) ->
    cs = snd (srun cf s ops) /\ inv st' (fst (srun cf s ops)).
  Proof.
    induction ops as [|o ops IH]; intros st s st' cs Hinv Hops; cbn [run srun].
    - intros [= <- <-]. auto.
    - inversion Hops as [|? ? Ho Hops']; subst.
      destruct (step crc cf st o) as [[st1 c]|] eqn:Es; [|discriminate].
      destruct (run crc cf st1 ops) as [[st2 cs']|] eqn:Er; [|discriminate]. intros [= <- <-].
      destruct (step_refines _ _ _ _ _ Hinv Ho Es) as [Hc Hinv1].
      destruct (sstep cf s o) as [s1 c1] eqn:Ess. cbn [fst snd] in Hc, Hinv1.
      destruct (IH _ _ _ _ Hinv1 Hops' Er) as [Hcs Hinv2].
      destruct (srun cf s1 ops) as [s2 cs2]. cbn [fst snd] in *. subst. auto.
  Qed.

  Lemma inv_init : inv (init) sinit.
  Proof. split; [reflexivity|]. split; [apply rel_nil|]. reflexivity. Qed.

  (** what the invariant says about observations *)
  Lemma inv_observe st s : inv st s ->
    md st = smd s /\ Permutation (map fst (tbl st)) (map fst (cur s)) /\
    forall k, match alookup k (tbl st), alookup k (cur s) with
              | Some i, Some d => read_info st i = d /\ verify_info crc st i = true
              | None, None => True
              | _, _ => False
              end.
  Proof.
    intros (Hm & (H1 & H2 & Hl) & _). split; [exact Hm|]. split.
    - apply NoDup_Permutation; [exact H1|exact H2|]. intros k. specialize (Hl k).
      split; intros Hin.
      + destruct (alookup k (cur s)) eqn:E; [apply alookup_In in E; apply (in_map fst) in E; exact E|].
        destruct (alookup k (tbl st)) eqn:E'; [contradiction|]. apply alookup_None in E'. contradiction.
      + destruct (alookup k (tbl st)) eqn:E; [apply alookup_In in E; apply (in_map fst) in E; exact E|].
        destruct (alookup k (cur s)) eqn:E'; [contradiction|]. apply alookup_None in E'. contradiction.
    - intros k. specialize (Hl k). destruct (alookup k (tbl st)) as [i|], (alookup k (cur s)) as [d|]; try exact Hl.
      destruct Hl as (Hr & Hc & _). rewrite read_info_rd. split; [exact Hr|].
      unfold verify_info. rewrite read_info_rd, Hr, Hc. apply N.eqb_refl.
  Qed.
End refine.

(** The refinement theorem.  For every configuration that validates archive indexes and names, every sequence of
    new_file / add_file / FileInfo.write / del / write_dirfile / reopen('r'|'w'|'a') starting from a fresh archive on which
    no write_dirfile raises struct.error ([run] is not [None]) and whose data values do not collide under the checksum:
    every operation returns the result code of the specification map; afterwards the archive is in the same mode, lists
    exactly the names of the map, and every file reads back exactly the map's bytes and verifies. *)
Theorem vpk_refines_map crc cf : vcfg_okb cf = true -> forall ops st codes,
  collision_free crc ops ->
  run crc cf init ops = Some (st, codes) ->
  let '(s, scodes) := srun cf sinit ops in
  codes = scodes /\ md st = smd s /\ Permutation (map fst (tbl st)) (map fst (cur s)) /\
  forall k, match alookup k (tbl st), alookup k (cur s) with
            | Some i, Some d => read_info st i = d /\ verify_info crc st i = true
            | None, None => True
            | _, _ => False
            end.
Proof.
  intros Hcf ops st codes Hfree Hrun.
  set (D := fun d => In d (datas ops)).
  assert (D []) as D_nil by (left; reflexivity).
  assert (Forall (op_D D) ops) as Hops.
  { apply Forall_forall. intros o Ho. unfold op_D. apply Forall_forall. intros d Hd. right.
    apply in_flat_map. eauto. }
  destruct (run_refines crc cf Hcf D D_nil Hfree ops _ _ _ _ (inv_init crc cf D) Hops Hrun) as [Hc Hinv].
  destruct (srun cf sinit ops) as [s scodes]. cbn [fst snd] in *.
  split; [exact Hc|]. exact (inv_observe crc cf D _ _ Hinv).
Qed.

(** ---- the property's own observation point: any history, then write_dirfile, then reopen for reading or appending ---- *)
Lemma srun_app cf a : forall s b,
  srun cf s (a ++ b) = let '(s1, c1) := srun cf s a in let '(s2, c2) := srun cf s1 b in (s2, c1 ++ c2).
Proof.
  induction a as [|o a IH]; intros s b; cbn [srun app].
  - destruct (srun cf s b). reflexivity.
  - destruct (sstep cf s o) as [s' c]. rewrite IH. destruct (srun cf s' a) as [s1 c1]. destruct (srun cf s1 b) as [s2 c2]. reflexivity.
Qed.
Lemma datas_save_reopen ops m : datas (ops ++ [OSave; OReopen m]) = datas ops.
Proof. unfold datas. rewrite flat_map_app. cbn [flat_map op_data app]. now rewrite app_nil_r. Qed.

(** After any history that leaves the archive writable, [write_dirfile] and reopening in 'r' or 'a' mode both succeed in the
    specification, and the reopened archive lists exactly the files of the map as it was before the save, each reading
    back the bytes last written to it and verifying. *)
Theorem vpk_history_save_reopen crc cf : vcfg_okb cf = true -> forall ops m st codes,
  m <> MW -> collision_free crc ops ->
  run crc cf init (ops ++ [OSave; OReopen m]) = Some (st, codes) ->
  let '(s0, c0) := srun cf sinit ops in
  writable (smd s0) = true ->
  codes = c0 ++ [rOk; rOk] /\ md st = m /\ Permutation (map fst (tbl st)) (map fst (cur s0)) /\
  forall k, match alookup k (tbl st), alookup k (cur s0) with
            | Some i, Some d => read_info st i = d /\ verify_info crc st i = true
            | None, None => True
            | _, _ => False
            end.
Proof.
  intros Hcf ops m st codes Hm Hfree Hrun.
  assert (collision_free crc (ops ++ [OSave; OReopen m])) as Hfree'
    by (unfold collision_free; rewrite datas_save_reopen; exact Hfree).
  pose proof (vpk_refines_map crc cf Hcf _ _ _ Hfree' Hrun) as H.
  rewrite srun_app in H. destruct (srun cf sinit ops) as [s0 c0]. intros Hw.
  cbn [srun sstep] in H. rewrite Hw in H. cbn [negb saved] in H.
  destruct m; [|contradiction|]; cbn [cur smd] in H; exact H.
Qed.

(** Non-vacuity: the example history of VpkProofs.v (all four placements, an overwrite, save, reopen) satisfies the premises
    with the real CRC-32. *)
Lemma refines_example :
  vcfg_okb ex_cfg = true /\ collision_freeb crc32 ex_ops = true
  /\ match run crc32 ex_cfg init ex_ops with Some _ => true | None => false end = true.
Proof. vm_compute. repeat split; reflexivity. Qed.
