(** C19 — composition: every (path, File) that the de-duplicated chain walk lists is what the chain's lookup returns
    for that path (so it is the File of the first member that has the name).  Built on the per-backend theorems
    (walk_exact, entries_spec, lookup_spec), the prefix theorems (drop_segs) and the de-duplication lemmas. *)
From Coq Require Import List NArith Bool Lia.
From SV Require Import SM.FsChain SM.FsChainProofs SM.FsChainRel.
Import ListNotations.
Open Scope N_scope.

(** * strings *)
Lemma rstrip_snoc s : rstrip_slash (s ++ [SL]) = rstrip_slash s.
Proof. unfold rstrip_slash. rewrite rev_app_distr. reflexivity. Qed.

Lemma rstrip_noslash s : is_prefix [SL] (rev s) = false -> rstrip_slash s = s.
Proof.
  unfold rstrip_slash. intros H. destruct (rev s) as [|x r] eqn:E.
  - rewrite <- (rev_involutive s), E. reflexivity.
  - cbn [is_prefix] in H. rewrite andb_true_r in H. cbn [drop_while]. rewrite N.eqb_sym, H.
    rewrite <- E. apply rev_involutive.
Qed.

Lemma clean_nonempty s : clean s = true -> s <> [].
Proof. intros H ->. discriminate. Qed.

Lemma clean_no_lead_slash s : clean s = true -> is_prefix [SL] s = false.
Proof.
  unfold clean. destruct s as [|x r]; [reflexivity|]. cbn [split_on is_prefix]. rewrite andb_true_r.
  destruct (N.eqb_spec x SL) as [->|Hn].
  - cbn. discriminate.
  - intros _. apply N.eqb_neq. congruence.
Qed.

Lemma clean_app a b : clean (a ++ SL :: b) = clean a && clean b.
Proof. unfold clean. rewrite split_app_sep, forallb_app. reflexivity. Qed.

Lemma normpath_cons s :
  s <> [] ->
  normpath s = match repeat SL (initial_slashes s)
                     ++ join_with SL (rev (fold_left (np_step (negb (Nat.eqb (initial_slashes s) 0))) (split_on SL s) [])) with
               | [] => S_DOT
               | r => r
               end.
Proof. destruct s; [congruence|reflexivity]. Qed.

Lemma normpath_trailing C : clean C = true -> normpath (C ++ [SL]) = C.
Proof.
  intros H. pose proof (clean_no_lead_slash C H) as Hl. pose proof (clean_nonempty C H) as Hne.
  assert (Hi : initial_slashes (C ++ [SL]) = 0%nat).
  { unfold initial_slashes. destruct C as [|x r]; [congruence|]. cbn [app is_prefix] in *.
    rewrite andb_true_r in Hl. rewrite Hl. reflexivity. }
  rewrite normpath_cons by (intros E; apply app_eq_nil in E as [_ E]; discriminate).
  rewrite Hi. cbn [Nat.eqb negb repeat app].
  rewrite split_app_sep. cbn [split_on].
  rewrite fold_left_app. unfold clean in H. rewrite (np_fold_good _ (split_on SL C)) by exact H. cbn [fold_left].
  unfold np_step at 1. cbn [eqb_str orb]. rewrite app_nil_r, rev_involutive, join_split.
  destruct C; [congruence|reflexivity].
Qed.

Lemma gch_dot c : (gch c =? DOT) = (c =? DOT).
Proof.
  unfold gch, slashc, foldc, BS, SL, DOT.
  destruct (N.eqb_spec c 92) as [->|H1]; [reflexivity|].
  destruct ((65 <=? c) && (c <=? 90)) eqn:E; [|reflexivity].
  apply andb_true_iff in E as [E1 E2]. apply N.leb_le in E1, E2.
  destruct (N.eqb_spec (c + 32) 46), (N.eqb_spec c 46); try lia; reflexivity.
Qed.

Lemma nkey_not_dot C : clean C = true -> eqb_str (nkey C) S_DOT = false.
Proof.
  intros H. destruct (eqb_str (nkey C) S_DOT) eqn:E; [|reflexivity]. exfalso.
  apply eqb_str_eq in E. rewrite nkey_map in E. unfold S_DOT in E.
  destruct C as [|c [|c' r]]; try discriminate. cbn [map] in E. injection E as E.
  pose proof (gch_dot c) as G. rewrite E in G. cbn in G. symmetry in G. apply N.eqb_eq in G. subst c.
  discriminate.
Qed.

Lemma nkey_rev_noslash C : clean C = true -> slash C = C -> is_prefix [SL] (rev (nkey C)) = false.
Proof.
  intros H Hs. pose proof (is_prefix_sl_rev_clean C H) as Hr.
  unfold nkey. rewrite Hs. unfold fold. rewrite <- map_rev.
  destruct (rev C) as [|x r]; [reflexivity|]. cbn [map is_prefix] in *. rewrite andb_true_r in *.
  rewrite N.eqb_sym, foldc_sl, N.eqb_sym. exact Hr.
Qed.

(** * the folder a member is asked to walk *)
Lemma folder_ops_nonorm_rstrip l : folder_ops_ok l = true -> uses_norm l = false -> has_rstrip l = true.
Proof.
  unfold folder_ops_ok. intros H Hu. rewrite Hu in H. rewrite <- (has_rstrip_after_norm l).
  destruct (split_sf (after_norm l)) as [a t] eqn:E. apply split_sf_spec in E as [E Hsf]. rewrite E, (has_rstrip_sf a t Hsf).
  apply andb_true_iff in H as [_ Ht]. repeat (destruct t as [|[] t]; try discriminate); reflexivity.
Qed.

Lemma folder_key_clean b C :
  folder_ops_ok (b_wfolder b) = true ->
  clean C = true -> slash C = C -> folder_key b C = nkey C /\ folder_key b (C ++ [SL]) = nkey C.
Proof.
  intros Hfo H Hs. pose proof (folder_ops_nonorm_rstrip (b_wfolder b) Hfo) as Hrs. unfold folder_key, uses_norm in *.
  assert (Hs' : slash (C ++ [SL]) = C ++ [SL]) by (unfold slash in *; rewrite map_app, Hs; reflexivity).
  assert (Hk : nkey (C ++ [SL]) = nkey C ++ [SL]) by (rewrite nkey_app; reflexivity).
  pose proof (rstrip_noslash _ (nkey_rev_noslash C H Hs)) as Hr.
  destruct (norm_kind (b_wfolder b)); [rewrite (Hrs eq_refl)|destruct (has_rstrip (b_wfolder b))..];
    cbn [prenorm]; rewrite ?Hs, ?Hs', ?(clean_normpath C H), ?(normpath_trailing C H),
    ?Hk, ?rstrip_snoc, ?(nkey_not_dot C H), ?Hr; split; reflexivity.
Qed.

(** * one member *)
(** A prefix is empty or a clean relative path (with either slash). *)
Definition okp (p : str) : Prop := p = [] \/ (clean p = true /\ clean (slash p) = true).
Definition sound_member (m : member) : Prop :=
  exists b fs p, m = member_of b fs p /\ walk_ok b = true /\ backend_keys_ok b = true /\ clean_fs fs = true /\ okp p.

(** the folded name [K] lies under prefix [p], with [R] the part below the prefix *)
Definition under (p K R : str) : Prop := (p = [] /\ K = R) \/ (p <> [] /\ K = nkey p ++ SL :: R).
(** the folder key of "prefix joined with folder" *)
Definition gkey (p folder : str) : str :=
  match p, folder with
  | [], _ => nkey folder
  | _ :: _, [] => nkey p
  | _ :: _, _ :: _ => nkey p ++ SL :: nkey folder
  end.

Lemma nkey_nil_inv s : nkey s = [] -> s = [].
Proof. rewrite nkey_map. destruct s; [reflexivity|discriminate]. Qed.

Lemma slash_app_sep a b : slash a ++ SL :: slash b = slash (a ++ SL :: b).
Proof. unfold slash. rewrite map_app. reflexivity. Qed.

Lemma nkey_sep a b : nkey (a ++ SL :: b) = nkey a ++ SL :: nkey b.
Proof. rewrite nkey_app. reflexivity. Qed.

Lemma member_folder_key b p folder :
  folder_ops_ok (b_wfolder b) = true ->
  okp p -> okp folder -> folder_key b (full_name p folder) = gkey p folder.
Proof.
  intros Hfo [->|[Hp Hsp]] [->|[Hf Hsf]].
  - rewrite chain_no_prefix. apply folder_key_empty.
  - rewrite chain_no_prefix. cbn [gkey]. rewrite <- (nkey_slash folder).
    apply (folder_key_clean b (slash folder) Hfo Hsf (slash_idem folder)).
  - rewrite (chain_prefix_relative p [] Hp eq_refl). change (SL :: slash []) with [SL].
    pose proof (clean_nonempty p Hp). destruct p as [|x p']; [congruence|]. cbn [gkey].
    rewrite <- (nkey_slash (x :: p')). apply (folder_key_clean b (slash (x :: p')) Hfo Hsp (slash_idem _)).
  - rewrite (chain_prefix_relative p folder Hp (clean_no_lead_slash folder Hf)).
    pose proof (clean_nonempty p Hp). pose proof (clean_nonempty folder Hf).
    destruct p as [|x p']; [congruence|]. destruct folder as [|y f']; [congruence|]. cbn [gkey].
    rewrite <- (nkey_slash (x :: p')), <- (nkey_slash (y :: f')), <- nkey_sep.
    apply (folder_key_clean b (slash (x :: p') ++ SL :: slash (y :: f')) Hfo).
    + rewrite clean_app, Hsp, Hsf. reflexivity.
    + rewrite slash_app_sep. apply slash_idem.
Qed.

Lemma gkey_iff p folder K :
  okp p -> (path_prefix (gkey p folder) K <-> exists R, under p K R /\ path_prefix (nkey folder) R).
Proof.
  unfold path_prefix, under. intros Hp. destruct p as [|x p'].
  - cbn [gkey]. split.
    + intros H. exists K. split; [left; split; reflexivity|exact H].
    + intros [R [[[_ ->]|[Hn _]] H]]; [exact H|congruence].
  - assert (Hnk : nkey (x :: p') <> []) by (intros E; apply nkey_nil_inv in E; discriminate).
    destruct folder as [|y f']; cbn [gkey].
    + split.
      * intros [E|[r ->]]; [congruence|]. exists r. split; [right; split; [discriminate|reflexivity]|left; reflexivity].
      * intros [R [[[E _]|[_ ->]] _]]; [discriminate|]. right. exists R. reflexivity.
    + split.
      * intros [E|[r ->]]; [destruct (nkey (x :: p')); discriminate|].
        exists (nkey (y :: f') ++ SL :: r). split.
        -- right. split; [discriminate|]. rewrite <- app_assoc. reflexivity.
        -- right. exists r. reflexivity.
      * intros [R [[[E1 _]|[_ ->]] [E2|[r ->]]]]; try discriminate.
        right. exists r. rewrite <- app_assoc. reflexivity.
Qed.

(** What a sound member lists for "prefix joined with folder". *)
Lemma walk_member b fs p folder e :
  walk_ok b = true -> clean_fs fs = true -> okp p -> okp folder ->
  (In e (walk b fs (full_name p folder)) <->
   In e (entries b fs) /\ exists R, under p (nkey (fst e)) R /\ path_prefix (nkey folder) R).
Proof.
  intros Hw Hc Hp Hf. rewrite (walk_exact b fs _ e Hw Hc), (member_folder_key b p folder (walk_ok_folder b Hw) Hp Hf), (gkey_iff p folder _ Hp).
  reflexivity.
Qed.

(** The listed (prefix-relative) name of a stored file under the prefix: a literal suffix of the stored name. *)
Lemma drop_segs_suffix orig p :
  clean_name orig = true -> clean (slash p) = true ->
  is_prefix (nkey p ++ [SL]) (nkey orig) = true ->
  exists A, orig = A ++ SL :: drop_segs orig p /\ nkey A = nkey p.
Proof.
  intros Ho Hp Hpre. apply is_prefix_spec in Hpre as [r Hr]. rewrite <- app_assoc in Hr. cbn [app] in Hr.
  pose proof (clean_name_slash _ Ho) as Hso.
  unfold clean_name in Ho. apply andb_true_iff in Ho as [_ Hnb].
  rewrite (nkey_map orig), (nkey_map p) in Hr.
  apply map_eq_app in Hr as [A [B [-> [HA HB]]]].
  apply map_eq_cons in HB as [c [rest [-> [Hc Hrest]]]].
  rewrite forallb_app in Hnb. apply andb_true_iff in Hnb as [HnA HnB]. cbn [forallb] in HnB.
  apply andb_true_iff in HnB as [Hcb _]. apply negb_true_iff in Hcb.
  assert (c = SL) as ->.
  { pose proof (gch_sl c Hcb) as H. rewrite Hc in H. cbn in H. symmetry in H. apply N.eqb_eq in H. exact H. }
  exists A. split; [|rewrite !nkey_map; exact HA]. f_equal. f_equal.
  unfold drop_segs. rewrite Hso, (clean_nonempty_segs _ Hp), split_app_sep.
  assert (Hlen : length (split_on SL (slash p)) = length (split_on SL A)).
  { rewrite !len_split. f_equal.
    rewrite <- (cnt_fold (slash p)). change (fold (slash p)) with (nkey p). rewrite nkey_map, <- HA.
    apply cnt_map. intros x Hx. apply gch_sl. rewrite forallb_forall in HnA. apply negb_true_iff. apply HnA. exact Hx. }
  rewrite Hlen, skipn_length_app, join_split. reflexivity.
Qed.

Lemma drop_segs_nil orig : clean_name orig = true -> drop_segs orig [] = orig.
Proof. intros H. unfold drop_segs. cbn. rewrite join_split. apply clean_name_slash. exact H. Qed.

(** The listed name [r] of a stored file lying under the prefix: clean, its key is the part below the prefix. *)
Lemma listed_name orig p R :
  clean_name orig = true -> okp p -> under p (nkey orig) R ->
  clean_name (drop_segs orig p) = true /\ nkey (drop_segs orig p) = R.
Proof.
  intros Ho [->|[Hp Hsp]] [[Hpe HK]|[Hpn HK]]; try congruence.
  - rewrite (drop_segs_nil orig Ho). split; [exact Ho|exact HK].
  - exfalso. subst p. discriminate.
  - destruct (drop_segs_suffix orig p Ho Hsp) as [A [HA HnA]].
    { apply is_prefix_spec. exists R. rewrite HK, <- app_assoc. reflexivity. }
    split.
    + unfold clean_name in *. apply andb_true_iff in Ho as [Hc Hb]. rewrite HA in Hc, Hb.
      rewrite clean_app in Hc. apply andb_true_iff in Hc as [_ Hc]. rewrite forallb_app in Hb.
      apply andb_true_iff in Hb as [_ Hb]. cbn [forallb] in Hb. apply andb_true_iff in Hb as [_ Hb].
      rewrite Hc, Hb. reflexivity.
    + rewrite HA, nkey_sep, HnA in HK at 1. apply app_inv_head in HK. injection HK as HK. exact HK.
Qed.

(** The name a member is asked for, for a clean listed name [r]. *)
Lemma full_name_listed p r :
  okp p -> clean_name r = true ->
  stable (full_name p r) /\ (forall K, under p K (nkey r) -> nkey (full_name p r) = K).
Proof.
  intros Hp Hr. pose proof (clean_name_slash r Hr) as Hsr.
  assert (Hcr : clean r = true) by (unfold clean_name in Hr; apply andb_true_iff in Hr as [H _]; exact H).
  destruct Hp as [->|[Hp Hsp]].
  - rewrite chain_no_prefix, Hsr. split.
    + split; [apply clean_normpath; exact Hcr|rewrite Hsr; apply clean_normpath; exact Hcr].
    + intros K [[_ ->]|[Hn _]]; [reflexivity|congruence].
  - rewrite (chain_prefix_relative p r Hp (clean_no_lead_slash r Hcr)), Hsr.
    assert (Hc : clean (slash p ++ SL :: r) = true) by (rewrite clean_app, Hsp, Hcr; reflexivity).
    assert (Hs : slash (slash p ++ SL :: r) = slash p ++ SL :: r).
    { rewrite <- Hsr at 1. rewrite slash_app_sep, slash_idem, <- slash_app_sep, Hsr. reflexivity. }
    split.
    + split; [apply clean_normpath; exact Hc|rewrite Hs; apply clean_normpath; exact Hc].
    + intros K [[Hpe _]|[_ ->]]; [subst p; discriminate|]. rewrite nkey_sep, nkey_slash. reflexivity.
Qed.

(** Asking a sound member for a listed name: the specification's file for any name with that key. *)
Lemma asks_member b fs p r :
  backend_keys_ok b = true -> clean_fs fs = true -> okp p -> clean_name r = true ->
  asks r (member_of b fs p) = spec_lookup fs (full_name p r).
Proof.
  intros Hk Hc Hp Hr. unfold asks. cbn [member_of m_lookup m_prefix].
  apply backend_keys_ok_inv in Hk as [Hs [Hg _]].
  apply lookup_spec; try assumption. apply (full_name_listed p r Hp Hr).
Qed.

(** * the de-duplicated walk *)
Lemma dedup_inv keyf seen l x :
  In x (dedup_by keyf seen l) ->
  exists l1 l2, l = l1 ++ x :: l2 /\ (forall y, In y l1 -> keyf (fst y) <> keyf (fst x)) /\ ~ In (keyf (fst x)) seen.
Proof.
  revert seen. induction l as [|y l IH]; intros seen; cbn [dedup_by]; [intros []|].
  destruct (existsb (eqb_str (keyf (fst y))) seen) eqn:E.
  - intros H. destruct (IH _ H) as [l1 [l2 [-> [H1 H2]]]]. exists (y :: l1), l2. repeat split; [|exact H2].
    intros z [<-|Hz]; [|apply H1; exact Hz]. apply existsb_eqb_In in E. intros Heq. apply H2. rewrite <- Heq. exact E.
  - intros [<-|H].
    + exists [], l. repeat split; [intros z []|]. intros Hin. apply existsb_eqb_In in Hin. congruence.
    + destruct (IH _ H) as [l1 [l2 [-> [H1 H2]]]]. exists (y :: l1), l2. repeat split.
      * intros z [<-|Hz]; [|apply H1; exact Hz]. intros Heq. apply H2. left. exact Heq.
      * intros Hin. apply H2. right. exact Hin.
Qed.

Lemma flat_map_split {A B} (f : A -> list B) ms l1 x l2 :
  flat_map f ms = l1 ++ x :: l2 ->
  exists pre m post a b, ms = pre ++ m :: post /\ f m = a ++ x :: b /\ l1 = flat_map f pre ++ a.
Proof.
  revert l1. induction ms as [|m ms IH]; intros l1 H; cbn [flat_map] in H.
  - destruct l1; discriminate.
  - apply app_eq_app in H as [l [[H1 H2]|[H1 H2]]].
    + (* f m = l1 ++ l, x :: l2 = l ++ flat_map f ms *)
      destruct l as [|z l].
      * cbn [app] in H2. rewrite app_nil_r in H1. symmetry in H2.
        destruct (IH [] H2) as [pre [m' [post [a [b [-> [Hf Hl]]]]]]].
        exists (m :: pre), m', post, a, b. repeat split; [exact Hf|].
        cbn [flat_map]. rewrite <- app_assoc, <- Hl, app_nil_r. symmetry. exact H1.
      * cbn [app] in H2. injection H2 as <- H2. exists [], m, ms, l1, l. repeat split. exact H1.
    + (* l1 = f m ++ l, flat_map f ms = l ++ x :: l2 *)
      destruct (IH l H2) as [pre [m' [post [a [b [-> [Hf Hl]]]]]]].
      exists (m :: pre), m', post, a, b. repeat split; [exact Hf|].
      cbn [flat_map]. rewrite H1, Hl, app_assoc. reflexivity.
Qed.

Definition dedup_ops_ok (l : list sop) : bool := forallb is_sf l && has_fold l.
Lemma dedup_key l s : dedup_ops_ok l = true -> clean_name s = true -> apply_ops l s = nkey s.
Proof.
  unfold dedup_ops_ok. intros H Hs. apply andb_true_iff in H as [H Hf]. rewrite (apply_sf l H). unfold sem_sf, nkey.
  rewrite Hf. destruct (has_slash l); rewrite ?(clean_name_slash s Hs); reflexivity.
Qed.

(** Every entry of the de-duplicated chain walk is what the chain's lookup returns for the listed path: the listed
    File of a name is the File of the first member that has it, and it can be looked up under the listed name. *)
Theorem chain_walk_lookup_closed dops ms folder x :
  dedup_ops_ok dops = true -> Forall sound_member ms -> okp folder ->
  In x (chain_walk RelDropSegs dops ms folder) ->
  chain_get ms (fst x) = Some (snd x).
Proof.
  intros Hd Hms Hfo Hin. unfold chain_walk in Hin.
  apply dedup_inv in Hin as [l1 [l2 [Hrep [Hfirst _]]]].
  unfold chain_walk_repeat in Hrep. apply flat_map_split in Hrep as [pre [m [post [a [b0 [-> [Hm Hl1]]]]]]].
  apply Forall_app in Hms as [Hpre Hmpost]. inversion Hmpost as [|? ? Hsm _]; subst.
  destruct Hsm as [b [fs [p [-> [Hw [Hk [Hc Hp]]]]]]]. cbn [member_of m_walk m_prefix] in Hm.
  assert (Hx : In x (map (fun f => (rel_name RelDropSegs (fst f) p, f)) (walk b fs (full_name p folder)))).
  { rewrite Hm. apply in_or_app. right. left. reflexivity. }
  apply in_map_iff in Hx as [e [<- He]]. cbn [fst snd rel_name].
  apply (walk_member b fs p folder e Hw Hc Hp Hfo) in He as [Hent [R [Hun HR]]].
  assert (Hes : spec_lookup fs (fst e) = Some e).
  { apply backend_keys_ok_inv in Hk as [Hs _]. apply (entries_spec b fs e Hs Hc). exact Hent. }
  pose proof (spec_lookup_sound _ _ _ Hes) as [Hefs _].
  pose proof (clean_fs_In _ _ Hc Hefs) as Hcle.
  destruct (listed_name (fst e) p R Hcle Hp Hun) as [Hclr HkR].
  set (r := drop_segs (fst e) p) in *.
  apply chain_first_match. exists pre, (member_of b fs p), post. split; [reflexivity|]. split.
  - (* the member that listed it serves it *)
    rewrite (asks_member b fs p r Hk Hc Hp Hclr). transitivity (spec_lookup fs (fst e)); [|exact Hes].
    apply spec_lookup_variant.
    apply (full_name_listed p r Hp Hclr). rewrite HkR. exact Hun.
  - (* no earlier member has the name: its entry would have been listed before, with the same key *)
    apply Forall_forall. intros m' Hm'. rewrite Forall_forall in Hpre.
    destruct (Hpre m' Hm') as [b' [fs' [p' [-> [Hw' [Hk' [Hc' Hp']]]]]]].
    rewrite (asks_member b' fs' p' r Hk' Hc' Hp' Hclr).
    destruct (spec_lookup fs' (full_name p' r)) as [g|] eqn:Eg; [exfalso|reflexivity].
    pose proof (spec_lookup_sound _ _ _ Eg) as [Hgfs Hgk].
    pose proof (clean_fs_In _ _ Hc' Hgfs) as Hclg.
    assert (Hung : under p' (nkey (fst g)) (nkey r)).
    { destruct Hp' as [->|[Hp'c Hsp']].
      - left. split; [reflexivity|]. rewrite Hgk. apply (full_name_listed [] r (or_introl eq_refl) Hclr).
        left. split; reflexivity.
      - right. split; [apply clean_nonempty; exact Hp'c|]. rewrite Hgk.
        apply (full_name_listed p' r (or_intror (conj Hp'c Hsp')) Hclr).
        right. split; [apply clean_nonempty; exact Hp'c|reflexivity]. }
    assert (Hgent : In g (entries b' fs')).
    { apply backend_keys_ok_inv in Hk' as [Hs' _]. apply (entries_spec b' fs' g Hs' Hc').
      transitivity (spec_lookup fs' (full_name p' r)); [|exact Eg]. apply spec_lookup_variant. exact Hgk. }
    assert (Hgw : In g (walk b' fs' (full_name p' folder))).
    { apply (walk_member b' fs' p' folder g Hw' Hc' Hp' Hfo). split; [exact Hgent|].
      exists (nkey r). split; [exact Hung|]. rewrite HkR. exact HR. }
    destruct (listed_name (fst g) p' (nkey r) Hclg Hp' Hung) as [Hclr' Hkr'].
    apply (Hfirst (drop_segs (fst g) p', g)).
    + apply in_or_app. left. apply in_flat_map. exists (member_of b' fs' p'). split; [exact Hm'|].
      cbn [member_of m_walk m_prefix rel_name]. apply in_map_iff. exists g. split; [reflexivity|exact Hgw].
    + change (apply_ops dops (drop_segs (fst g) p') = apply_ops dops r).
      rewrite (dedup_key dops _ Hd Hclr'), (dedup_key dops r Hd Hclr). exact Hkr'.
Qed.

(** Consequences: the listed File is a stored file of the member that the lookup finds first, and two sound chains
    over the same members in the same order list the same File for a name as the lookup serves. *)
Corollary chain_walk_first_member dops ms folder x :
  dedup_ops_ok dops = true -> Forall sound_member ms -> okp folder ->
  In x (chain_walk RelDropSegs dops ms folder) ->
  exists pre m post, ms = pre ++ m :: post /\ asks (fst x) m = Some (snd x) /\ Forall (fun m' => asks (fst x) m' = None) pre.
Proof. intros Hd Hms Hfo Hin. apply chain_first_match. apply (chain_walk_lookup_closed dops ms folder x Hd Hms Hfo Hin). Qed.

Example compose_premises_satisfiable :
  okp [] /\ okp [109; 97; 116] /\ okp [77; 92; 120] /\ dedup_ops_ok [OFold] = true.
Proof. repeat split; try (left; reflexivity); right; split; reflexivity. Qed.
