(** C19, round 4 — the property as one statement.

    [source_cfg] collects everything the translator reads off filesys.py / vpk.py; [source_ok] is the conjunction of the
    named boolean recognisers (each of them is also a separate instance obligation of the check, so that a failure
    points at one site).  [property_holds]: the three sentences of the property, for every configuration that passes. *)
From Coq Require Import List NArith Bool.
From SV Require Import SM.FsChain SM.FsChainProofs SM.FsChainRel SM.FsChainRaw SM.FsChainCompose SM.FsChainForms
     SM.FsChainFormsProofs SM.FsChainWhole SM.FsChainWholeProofs SM.FsChainRead SM.FsChainReadProofs SM.FsChainAdd
     SM.FsChainAddProofs SM.FsChainWalkGen SM.FsChainNoise SM.FsChainNoiseRaw.
Import ListNotations.
Open Scope N_scope.

Record source_cfg := {
  s_backends : list backend;            (* VirtualFileSystem, ZipFileSystem, VPKFileSystem *)
  s_contents : list cexpr;              (* what VPKFileSystem.open_bin / open_str read *)
  s_reader : rexpr;                     (* FileInfo.read() *)
  s_raw_get : list sop; s_raw_exists : list sop; s_raw_open : list sop; s_raw_walk : list sop;   (* RawFileSystem *)
  s_raw_rel : raw_rel;
  s_guard : add_guard; s_prio : ins_action; s_plain : ins_action;      (* FileSystemChain.add_sys *)
  s_exists : exists_mode;               (* FileSystemChain._file_exists *)
  s_dedup : dedup_mode; s_rel : relmode; s_dedup_ops : list sop        (* walk_folder / walk_folder_repeat *)
}.

Definition backend_today (b : backend) : bool := backend_keys_norm b && walk_ok b && walk_norm b.
Definition source_ok (s : source_cfg) : bool :=
  forallb backend_today (s_backends s)
  && forallb (cexpr_whole false) (s_contents s) && rexpr_whole None false (s_reader s)
  && raw_ops_ok (s_raw_get s) && raw_ops_ok (s_raw_exists s) && raw_ops_ok (s_raw_open s) && raw_ops_ok (s_raw_walk s)
  && raw_rel_ok (s_raw_rel s)
  && guard_ok (s_guard s) && actions_ok (s_prio s) (s_plain s)
  && exists_mode_ok (s_exists s)
  && match s_dedup s with DedupSkip => true | DedupOverwrite => false end
  && match s_rel s with RelDropSegs => true | RelPath => false end
  && dedup_ops_ok (s_dedup_ops s).

(** members of a chain built from the configuration *)
Definition cfg_kmember (s : source_cfg) (m : kmember) : Prop :=
  In (k_b m) (s_backends s) /\ clean_fs (k_fs m) = true /\
  match k_store m with None => True | Some (c, _, _) => In c (s_contents s) end.
Definition cfg_member (s : source_cfg) (f f0 : str) (m : member) : Prop :=
  (exists b fs p p0, In b (s_backends s) /\ m = member_of b fs p /\ clean_fs fs = true /\ okp p0 /\ spells p p0 /\ okp f0 /\ spells f f0)
  \/ (exists fs p p0, m = raw_member_of (s_raw_rel s) (s_raw_walk s) fs p /\ clean_fs fs = true
                      /\ NoDup (map (fun e => nkey (fst e)) fs) /\ okp p0 /\ spells p p0 /\ okp f0 /\ spells f f0
                      /\ folder_exact fs p0 f0).

(** Sentence 1: given the same files, the in-memory, zip and VPK filesystems - and the directory for exact-case names -
    agree on which names exist and return the same bytes, letter case, slash kind and redundant segments insignificant. *)
Definition backends_agree (s : source_cfg) : Prop :=
  forall b1 b2 fs q, In b1 (s_backends s) -> In b2 (s_backends s) -> clean_fs fs = true ->
    lookup b1 fs q = spec_lookup fs (normpath (slash q))
    /\ lookup b1 fs q = lookup b2 fs q /\ exists_ b1 fs q = exists_ b2 fs q /\ open_ b1 fs q = open_ b2 fs q
    /\ exists_ b1 fs q = is_some (lookup b1 fs q)
    /\ (forall c limit in_dir before after, In c (s_contents s) ->
          open_bytes c limit in_dir b1 fs q = option_map snd (open_ b2 fs q)
          /\ forall data, ceval_r (s_reader s) c (rfile_of before after limit in_dir data) = data)
    /\ (forall e, NoDup (map (fun e => nkey (fst e)) fs) -> In e fs -> normpath (slash q) = fst e ->
          raw_lookup_ops (s_raw_get s) fs q = Some e /\ raw_lookup_ops (s_raw_exists s) fs q = Some e
          /\ raw_lookup_ops (s_raw_open s) fs q = Some e /\ lookup b1 fs q = Some e).

(** Sentence 2: walking a folder lists exactly the files inside it (the empty folder: all), every listed name can be
    looked up and yields that file. *)
Definition walks_exact (s : source_cfg) : Prop :=
  forall b fs folder, In b (s_backends s) -> clean_fs fs = true ->
    (forall e, In e (walk b fs folder) <-> spec_lookup fs (fst e) = Some e /\ path_prefix (folder_key b folder) (nkey (fst e)))
    /\ (forall e, In e (walk b fs []) <-> spec_lookup fs (fst e) = Some e)
    /\ (forall e, In e (walk b fs folder) -> lookup b fs (fst e) = Some e)
    /\ NoDup (map (fun e => nkey (fst e)) (walk b fs folder))
    /\ (forall e, NoDup (map (fun e => nkey (fst e)) fs) ->
          (In e (raw_walk_rel (s_raw_rel s) (s_raw_walk s) fs folder) <-> In e fs /\ path_prefix (raw_folder (s_raw_walk s) folder) (fst e))
          /\ (In e (raw_walk_rel (s_raw_rel s) (s_raw_walk s) fs folder) -> raw_lookup_ops (s_raw_get s) fs (fst e) = Some e)).

(** Sentence 3: a chain returns, for every name, the content of the first member (in priority order, whatever the
    sequence of add_sys calls) that has it, addressing subfolder-restricted members relative to their subfolder; its
    de-duplicated walk lists each name once, with the file the lookup returns. *)
Definition chains_honour_priority (s : source_cfg) : Prop :=
  (forall same (h : list (bool * kmember)) q, Forall (cfg_kmember s) (map snd h) ->
     let ms := build_chain (s_guard s) same (s_prio s) (s_plain s) h in
     let sp := map k_spec (priority_order h) in
     ms = priority_order h
     /\ chain_get (map k_member ms) q = chain_spec sp q
     /\ chain_open (map k_member ms) q = chain_spec sp q
     /\ chain_exists (s_exists s) (map k_xmember ms) q = is_some (chain_spec sp q)
     /\ chain_read ms q = option_map snd (chain_spec sp q))
  /\ (forall ms f f0, Forall (cfg_member s f f0) ms ->
        let res := chain_walk_mode (s_dedup s) (s_rel s) (s_dedup_ops s) ms f in
        NoDup (map (fun x => apply_ops (s_dedup_ops s) (fst x)) res)
        /\ forall x, In x res -> chain_get ms (fst x) = Some (snd x)).

Definition property_holds (s : source_cfg) : Prop := backends_agree s /\ walks_exact s /\ chains_honour_priority s.
