(** Nested objects over several maps (round 3): Entity ⊃ Solid ⊃ Side.

    SM/IdWorld.v is one ID kind at a time.  Here the three kinds that nest are one world: a *top-level object*
    is a point entity, a brush entity (with its solids, each with its faces) or a world brush, and one event on a
    top-level object is the whole bundle of constructor / copy / remove / re-add / destructor calls the
    implementation makes for it, each in the stream of its kind and in the implementation's order:
    - [TCreateEnt m d sds]     for every solid its faces, then the solid, then [Entity(map, ent_id=d, solids=..)];
    - [TCreateBrush m (d,fds)] the faces, then [Solid(map, id=d, sides=..)];
    - [TCopy t m d explicit]   [tops[t].copy(des_id=d, vmf_file=maps[m] if explicit else None)]: for every solid
                               the copies of its faces ([Side.copy] asks for the source face's own ID when a map is
                               passed, for a fresh one otherwise), then the copy of the solid (desired ID [d] for a
                               world brush, fresh for the solids of an entity), the entity last (desired ID [d]);
    - [TRemove t], [TReAdd t]  [.remove()] / [add_ent] / [add_brush]: every part leaves / re-enters the map;
    - [TDestroy t]             the last reference of a removed object is dropped: the destructor of every part runs;
    - [TCreateSpawn m]         the worldspawn entity made by [VMF()]: an entity that is not in the map's entity list;
    - [THide t b]              [obj.hidden = b] (or [vis_shown = not b]) on a top-level object;
    - [TCollapse s m keep]     [instancing.collapse_one(maps[m], inst, InstanceFile(maps[s]), visgroup=keep)]: every
                               world brush in [maps[s].brushes] that is not hidden, in list order, then every entity
                               in [maps[s].entities] (hidden ones only when visgroups are kept), in list order, is
                               copied into map [m] ([copy(vmf_file=maps[m], keep_vis=keep)], fresh desired ID) and
                               added to it.  Which objects those are is decided here, from the model's own lists:
                               [torder] is the order in which the listed top-level objects were (last) added to
                               their maps.  A copy inherits the hidden flag when visibility is kept ([copy()] keeps
                               it by default).
    - [TParse m doc]           (round 4) [VMF.parse] of a document into the new map [m], as the PROGRAM [prog] that
                               translate/c08_sites.py reads off the body of [VMF.parse] on every run: the steps, in
                               source order, that touch entity / brush / face IDs.  [PPlaceholder]: the [VMF()]
                               constructor makes a placeholder worldspawn (fresh entity ID).  [PWorld]: the world
                               block is parsed ([Entity.parse(.., _worldspawn=True)]): every world brush in file
                               order (faces, then the brush; hidden ones flagged), then the worldspawn entity with
                               the ID the block asks for.  [PDropPlaceholder]: [map.spawn] is re-bound, the last
                               reference to the placeholder goes and its destructor runs AT THAT MOMENT (CPython
                               reference counting) -- before the entity blocks are parsed, so the ID it held is free
                               again for them.  [PEntities]: the entity blocks in file order (their brushes and faces
                               first, hidden ones flagged).  [PReleasePlaceholder]: an explicit release of the
                               placeholder's ID by [parse] itself (no such step in the pinned tree: the destructor
                               releases it; with both, the ID is released twice and whoever took it in between
                               shares it with the next object).
    The state is the three single-kind worlds of SM/IdWorld.v plus, for every top-level object, the indexes of its
    parts in those worlds.  Parameters: the release / copy flags of the three kinds (read from the source).
    Executable definitions only; proofs are in SM/IdNestProofs.v. *)
From stdpp Require Import gmap sets list.
From Coq Require Import ZArith.
From SV Require Import SM.IdMan SM.IdWorld.
Open Scope Z_scope.

Record ttop := { tt_ent : option nat; tt_solids : list (nat * list nat); tt_home : nat; tt_listed : bool; tt_hidden : bool }.
Record tworld := { tE : wworld; tS : wworld; tF : wworld; ttops : list ttop; torder : list nat }.
Definition tw0 : tworld := {| tE := ww0; tS := ww0; tF := ww0; ttops := []; torder := [] |}.

(** A parsed document, as far as entity / brush / face IDs go: the desired ID of the world block, the world brushes
    (hidden?, (desired ID, desired face IDs)) in file order, the entity blocks (hidden?, (desired ID, brushes)). *)
Record pdoc := { pd_world : Z; pd_brushes : list (bool * (Z * list Z)); pd_ents : list (bool * (Z * list (Z * list Z))) }.
(** The steps of [VMF.parse] (generated from the source as [Gen.IdSites_gen.parse_program], see [TParse] above). *)
Inductive pstep := PPlaceholder | PWorld | PDropPlaceholder | PEntities | PReleasePlaceholder.
Definition pstep_ok (p : pstep) : bool := match p with PReleasePlaceholder => false | _ => true end.
(** [parse] itself releases no ID: releases are left to the destructors. *)
Definition prog_ok (prog : list pstep) : bool := forallb pstep_ok prog.

Inductive tev :=
| TCreateEnt (m : nat) (d : Z) (sds : list (Z * list Z))
| TCreateBrush (m : nat) (sd : Z * list Z)
| TCopy (t : nat) (m : nat) (d : Z) (explicit : bool)
| TRemove (t : nat)
| TReAdd (t : nat)
| TDestroy (t : nat)
| TCreateSpawn (m : nat)
| THide (t : nat) (b : bool)
| TCollapse (s : nat) (m : nat) (keep : bool)
| TParse (m : nat) (doc : pdoc).

(** Index the next object of a world gets. *)
Definition nobj (w : wworld) : nat := length (wobjs w).

(** Constructor calls for a list of solids in map [m]: (solid events, face events, indexes of the new parts), when
    the next solid / face get the indexes [nS] / [nF]. *)
Fixpoint new_solids (m : nat) (sds : list (Z * list Z)) (nS nF : nat) : list wev * list wev * list (nat * list nat) :=
  match sds with
  | [] => ([], [], [])
  | (d, fds) :: r =>
      let '(evS, evF, parts) := new_solids m r (S nS) (nF + length fds)%nat in
      (WCreate m d :: evS, (WCreate m <$> fds) ++ evF, (nS, seq nF (length fds)) :: parts)
  end.

(** copy() calls for the solids [src] of one top-level object; [wF] is the face world before the copy (the desired
    ID of a face copy is the source face's ID when a map is passed explicitly). *)
Fixpoint copy_solids (wF : wworld) (m : nat) (explicit : bool) (ds : Z) (src : list (nat * list nat)) (nS nF : nat)
    : list wev * list wev * list (nat * list nat) :=
  match src with
  | [] => ([], [], [])
  | (si, fis) :: r =>
      let '(evS, evF, parts) := copy_solids wF m explicit ds r (S nS) (nF + length fis)%nat in
      (WCopy si m ds :: evS,
       ((λ fi, WCopy fi m (if explicit then default (-1) (wid <$> wobjs wF !! fi) else -1)) <$> fis) ++ evF,
       (nS, seq nF (length fis)) :: parts)
  end.

Definition tset_listed (t : ttop) (b : bool) : ttop :=
  {| tt_ent := tt_ent t; tt_solids := tt_solids t; tt_home := tt_home t; tt_listed := b; tt_hidden := tt_hidden t |}.
Definition tset_hidden (t : ttop) (b : bool) : ttop :=
  {| tt_ent := tt_ent t; tt_solids := tt_solids t; tt_home := tt_home t; tt_listed := tt_listed t; tt_hidden := b |}.

(** The listed top-level objects of map [s] that are world brushes ([ents = false]) / entities ([ents = true]), in the
    order of the map's list. *)
Definition tsel (w : tworld) (s : nat) (ents : bool) (t : nat) : bool :=
  match ttops w !! t with
  | Some top => Nat.eqb (tt_home top) s && tt_listed top && Bool.eqb (bool_decide (is_Some (tt_ent top))) ents
  | None => false
  end.
Definition tlisted_of (w : tworld) (s : nat) (ents : bool) : list nat :=
  filter (λ t, tsel w s ents t = true) (torder w).
Definition thidden (w : tworld) (t : nat) : bool :=
  match ttops w !! t with Some top => tt_hidden top | None => false end.
(** What collapse_one copies out of map [s]: the visible listed brushes, then the listed entities (all of them when
    visgroups are kept, the visible ones otherwise). *)
Definition tcollapse_sources (w : tworld) (s : nat) (keep : bool) : list nat :=
  filter (λ t, thidden w t = false) (tlisted_of w s false) ++
  filter (λ t, keep || negb (thidden w t) = true) (tlisted_of w s true).

(** The manager that issued the ID of object [k] forgets it; the object lives on (what an explicit
    [<map>.ent_id.discard(obj.id)] outside a destructor does). *)
Definition wrelease (k : nat) (w : wworld) : wworld :=
  match wobjs w !! k with
  | Some o => {| wmans := <[wowner o := discard (wid o) (man_of w (wowner o))]> (wmans w); wobjs := wobjs w |}
  | None => w
  end.

Section nest.
  Variables rorE rorS rorF ctdE ctdS ctdF : bool.
  Variable prog : list pstep.

  Definition tapply (w : tworld) (eE eS eF : list wev) (tops : list ttop) (order : list nat) : tworld :=
    {| tE := wrun_from rorE ctdE (tE w) eE; tS := wrun_from rorS ctdS (tS w) eS;
       tF := wrun_from rorF ctdF (tF w) eF; ttops := tops; torder := order |}.

  (** The same single event on every part of a top-level object. *)
  Definition tparts (mk : nat → wev) (w : tworld) (top : ttop) (tops : list ttop) (order : list nat) : tworld :=
    tapply w (from_option (λ e, [mk e]) [] (tt_ent top)) (mk <$> (tt_solids top).*1)
           (mk <$> concat (tt_solids top).*2) tops order.

  (** A new top-level object is listed in its map, at the end of the list. *)
  Definition tnew (w : tworld) (top : ttop) : list ttop * list nat :=
    (ttops w ++ [top], if tt_listed top then torder w ++ [length (ttops w)] else torder w).

  Definition tcreate (w : tworld) (m : nat) (ent : option Z) (sds : list (Z * list Z)) (listed : bool) : tworld :=
    let '(eS, eF, parts) := new_solids m sds (nobj (tS w)) (nobj (tF w)) in
    let '(tops, order) := tnew w {| tt_ent := (λ _, nobj (tE w)) <$> ent; tt_solids := parts; tt_home := m; tt_listed := listed;
                                    tt_hidden := false |} in
    tapply w (from_option (λ d, [WCreate m d]) [] ent) eS eF tops order.

  Definition tcopy (w : tworld) (t m : nat) (d : Z) (explicit keep : bool) : tworld :=
    match ttops w !! t with
    | Some top =>
        let ds := match tt_ent top with Some _ => -1 | None => d end in
        let '(eS, eF, parts) := copy_solids (tF w) m explicit ds (tt_solids top) (nobj (tS w)) (nobj (tF w)) in
        let '(tops, order) := tnew w {| tt_ent := (λ _, nobj (tE w)) <$> tt_ent top; tt_solids := parts;
                                        tt_home := m; tt_listed := true; tt_hidden := keep && tt_hidden top |} in
        tapply w (from_option (λ e, [WCopy e m d]) [] (tt_ent top)) eS eF tops order
    | None => w
    end.

  Definition thide (w : tworld) (t : nat) (b : bool) : tworld :=
    match ttops w !! t with
    | Some top => tapply w [] [] [] (<[t := tset_hidden top b]> (ttops w)) (torder w)
    | None => w
    end.
  (** Constructor bundle, then the hidden flag of the new top-level object. *)
  Definition tcreate_h (w : tworld) (m : nat) (ent : option Z) (sds : list (Z * list Z)) (listed hidden : bool) : tworld :=
    let w' := tcreate w m ent sds listed in if hidden then thide w' (length (ttops w)) true else w'.
  Definition tdestroy (w : tworld) (t : nat) : tworld :=
    match ttops w !! t with
    | Some top => if tt_listed top then w else tparts WDestroy w top (ttops w) (torder w)
    | None => w
    end.
  Definition trelease (w : tworld) (t : nat) : tworld :=
    match ttops w !! t with
    | Some top => match tt_ent top with
                  | Some e => {| tE := wrelease e (tE w); tS := tS w; tF := tF w; ttops := ttops w; torder := torder w |}
                  | None => w
                  end
    | None => w
    end.

  (** One step of [VMF.parse]; the second component is the placeholder worldspawn while the map still refers to it. *)
  Definition pstep_run (m : nat) (d : pdoc) (st : tworld * option nat) (p : pstep) : tworld * option nat :=
    let w := st.1 in
    match p with
    | PPlaceholder => (tcreate w m (Some (-1)) [] false, Some (length (ttops w)))
    | PWorld =>
        (tcreate (fold_left (λ w (b : bool * (Z * list Z)), tcreate_h w m None [b.2] true b.1) (pd_brushes d) w)
                 m (Some (pd_world d)) [] false, st.2)
    | PDropPlaceholder => match st.2 with Some t => (tdestroy w t, None) | None => st end
    | PEntities =>
        (fold_left (λ w (e : bool * (Z * list (Z * list Z))), tcreate_h w m (Some e.2.1) e.2.2 true e.1) (pd_ents d) w, st.2)
    | PReleasePlaceholder => match st.2 with Some t => (trelease w t, st.2) | None => st end
    end.
  Definition tparse (w : tworld) (m : nat) (d : pdoc) : tworld := (fold_left (pstep_run m d) prog (w, None)).1.

  Definition tstep (w : tworld) (e : tev) : tworld :=
    match e with
    | TCreateEnt m d sds => tcreate w m (Some d) sds true
    | TCreateBrush m sd => tcreate w m None [sd] true
    | TCreateSpawn m => tcreate w m (Some (-1)) [] false
    | TCopy t m d explicit => tcopy w t m d explicit true
    | THide t b => thide w t b
    | TParse m d => tparse w m d
    | TRemove t =>
        match ttops w !! t with
        | Some top => if tt_listed top
                      then tparts WRemove w top (<[t := tset_listed top false]> (ttops w)) (filter (λ x, x ≠ t) (torder w))
                      else w
        | None => w
        end
    | TReAdd t =>
        match ttops w !! t with
        | Some top => if tt_listed top then w
                      else tparts WReAdd w top (<[t := tset_listed top true]> (ttops w)) (torder w ++ [t])
        | None => w
        end
    | TDestroy t => tdestroy w t
    | TCollapse s m keep =>
        if decide (s = m) then w
        else fold_left (λ w t, tcopy w t m (-1) true keep) (tcollapse_sources w s keep) w
    end.

  Definition trun (es : list tev) : tworld := fold_left tstep es tw0.
End nest.
