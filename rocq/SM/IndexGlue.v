(** Source-shaped models for property C07, round 4: the glue around the index-maintaining functions, as written —
    read off vmf.py by translate/c07_index_glue.py on every run (Gen/IndexGlue_gen.v):

    - [VMF.__init__] (the statements that create the indexes, the entity list and the worldspawn), the worldspawn
      replacement and the entity loop of [VMF.parse], and [VMF.create_ent], as straight-line statement lists
      ([gstmt]) over the map state with one local (the entity the function constructs);
    - the constructor [Entity.__init__] (how the key dict is created and filled) and [Entity.copy] (which keys and
      which map the copy is constructed with) as shapes;
    - [Entity.pop] as a lookup-loop shape;
    - [Entity.make_unique] as a shape: which name is looked up where (folded or not), whether the entity takes itself
      out of the name index before searching, how the candidate numbers are counted.

    Executable definitions only; proofs are in IndexGlueProofs.v. *)
From stdpp Require Import gmap sets list.
From Coq Require Import NArith.
From SV Require Import SM.IndexModel SM.IndexShapes.

(** ** VMF-level glue *)
Inductive gref := GRSpawn            (* <map>.spawn, evaluated where it stands *)
                | GRLoc.             (* the local bound to the entity this function constructed *)
Inductive gtk := GTNone              (* None *)
               | GTCur (r : gref).   (* r['targetname'].casefold() or None *)
Inductive gksrc := GKNone            (* Entity(map) *)
                 | GKArg             (* Entity(map, keys=<argument>) / Entity.parse(map, <block>) *)
                 | GKArgClass.       (* kargs['classname'] = classname; Entity(map, keys=kargs) *)
Inductive gstmt :=
| GFreshClass | GFreshTarget         (* <map>.by_class / by_target = defaultdict(CopySet) *)
| GFreshEnts                         (* <map>.entities = [] *)
| GNewEnt (src : gksrc)              (* local = Entity(...) *)
| GAssignSpawn                       (* <map>.spawn = local *)
| GSetItem (r : gref) (k v : str)    (* r['<k>'] = '<v>' *)
| GRemClass (k : str) (r : gref)     (* _remove_copyset(<map>.by_class, '<k>', r) *)
| GRemTarget (k : gtk) (r : gref)    (* _remove_copyset(<map>.by_target, k, r) *)
| GAddTarget (k : gtk) (r : gref)    (* <map>.by_target[k].add(r) *)
| GAddEnt (r : gref).                (* <map>.add_ent(r) *)

Global Instance gref_eq_dec : EqDecision gref. Proof. solve_decision. Defined.
Global Instance gtk_eq_dec : EqDecision gtk. Proof. solve_decision. Defined.
Global Instance gksrc_eq_dec : EqDecision gksrc. Proof. solve_decision. Defined.
Global Instance gstmt_eq_dec : EqDecision gstmt. Proof. solve_decision. Defined.

(** the state before anything is assigned *)
Definition blank : mstate := MS ∅ 0 [] 0 ∅ ∅.

(** ** Entity-level shapes *)
Inductive ei_how := EISetItemLoop    (* for k, v in keys.items(): self[k] = v *)
                  | EIDirect         (* the key dict is filled directly (update / dict(keys)) *)
                  | EINone.
Record einit_shape := EI {
  ei_fresh_dict : bool;              (* self._keys is a new empty dict before the keys go in *)
  ei_map_first : bool;               (* self.map is assigned before the first store through self[...] *)
  ei_store : ei_how;
}.
Record copy_shape := CP {
  cp_own_keys : bool;                (* keys=self._keys *)
  cp_map_arg_or_own : bool;          (* vmf_file=vmf_file or self.map *)
  cp_through_init : bool;            (* the copy is constructed by Entity(...) *)
}.
Inductive pop_del := PDelStored      (* del self[k] for the stored key k *)
                   | PDelCaller      (* del self[key] for the (folded) key asked for *)
                   | PKeysPop.       (* self._keys.pop(k): the indexes are not told *)
Record pop_shape := PS { ps_fold_stored : bool; ps_key_folded : bool; ps_del : pop_del }.

Record mu_shape := MU {
  mu_fold_unique : bool;             (* by_target[orig_name.casefold()] == {self} *)
  mu_unique_is_self_only : bool;     (* ... compared with {self} (not: merely non-empty) *)
  mu_clears_first : bool;            (* self['targetname'] = '' before the search (named entity) *)
  mu_unnamed_prefix : bool;          (* the unnamed entity searches from the prefix argument *)
  mu_strips : bool;                  (* base_name = orig_name.rstrip('0123456789') *)
  mu_fold_base : bool;               (* by_target[base_name.casefold()] *)
  mu_start : N;                      (* i = <start> *)
  mu_step : N;                       (* i += <step> *)
  mu_fold_cand : bool;               (* by_target[name.casefold()] *)
  mu_cand_is_base_plus_number : bool;  (* name = base_name + str(i) *)
  mu_stores_through_setitem : bool;  (* the name found (and the free base name) is stored with self['targetname'] = ... *)
}.

Section glue.
  Variable fold : str → str.

  Record genv := GE { g_keys : kvs; g_cls : str }.
  Definition g_ref (r : gref) (loc : nat) (st : mstate) : nat := match r with GRSpawn => spawn st | GRLoc => loc end.
  Definition g_tk (k : gtk) (loc : nat) (st : mstate) : option str :=
    match k with GTNone => None | GTCur r => tgt_of fold st (g_ref r loc st) end.
  Definition g_src (s : gksrc) (env : genv) : kvs :=
    match s with GKNone => [] | GKArg => g_keys env | GKArgClass => dset cn (g_cls env) (g_keys env) end.

  Definition g_step (s : gstmt) (env : genv) (loc : nat) (st : mstate) : mstate * nat :=
    match s with
    | GFreshClass => (MS (objs st) (nobj st) (ents st) (spawn st) ∅ (by_target st), loc)
    | GFreshTarget => (MS (objs st) (nobj st) (ents st) (spawn st) (by_class st) ∅, loc)
    | GFreshEnts => (with_ents [] st, loc)
    | GNewEnt src => (new_ent fold (g_src src env) st, nobj st)
    | GAssignSpawn => (MS (objs st) (nobj st) (ents st) loc (by_class st) (by_target st), loc)
    | GSetItem r k v => ((set_item fold (g_ref r loc st) k v st).1, loc)
    | GRemClass k r => (upd_class (ix_remove k (g_ref r loc st)) st, loc)
    | GRemTarget k r => (upd_target (ix_remove (g_tk k loc st) (g_ref r loc st)) st, loc)
    | GAddTarget k r => (upd_target (ix_add (g_tk k loc st) (g_ref r loc st)) st, loc)
    | GAddEnt r => (add_ent fold (g_ref r loc st) st, loc)
    end.
  Fixpoint g_steps (l : list gstmt) (env : genv) (loc : nat) (st : mstate) : mstate :=
    match l with
    | [] => st
    | s :: r => let '(st1, loc1) := g_step s env loc st in g_steps r env loc1 st1
    end.
  Definition g_run (l : list gstmt) (env : genv) (st : mstate) : mstate := g_steps l env 0 st.
  Definition env0 : genv := GE [] [].

  (** *** VMF.__init__: obligations *)
  Definition is_fresh (s : gstmt) : bool :=
    match s with GFreshClass | GFreshTarget | GFreshEnts => true | _ => false end.
  Fixpoint g_prefix (l : list gstmt) : list gstmt :=
    match l with s :: r => if is_fresh s then s :: g_prefix r else [] | [] => [] end.
  Fixpoint g_rest (l : list gstmt) : list gstmt :=
    match l with s :: r => if is_fresh s then g_rest r else l | [] => [] end.
  Definition has (s : gstmt) (l : list gstmt) : bool := bool_decide (s ∈ l).
  (** the indexes and the entity list exist (and are empty) before the worldspawn is made *)
  Definition vmf_init_containers_first (l : list gstmt) : bool :=
    has GFreshClass (g_prefix l) && has GFreshTarget (g_prefix l) && has GFreshEnts (g_prefix l).
  (** then: a new entity without keys becomes the spawn, is classed 'worldspawn' through __setitem__ (which files it
      in by_class), and is filed under no name *)
  Definition vmf_init_spawn_ok (l : list gstmt) : bool :=
    match g_rest l with
    | [GNewEnt GKNone; GAssignSpawn; GSetItem _ k v; GAddTarget GTNone _] => bool_decide (k = cn) && bool_decide (v = ws)
    | [GNewEnt GKNone; GAssignSpawn; GAddTarget GTNone _; GSetItem _ k v] => bool_decide (k = cn) && bool_decide (v = ws)
    | _ => false
    end.
  Definition vmf_init_ok (l : list gstmt) : bool := vmf_init_containers_first l && vmf_init_spawn_ok l.

  (** *** VMF.parse, the worldspawn replacement: the parsed world block becomes an entity, the placeholder leaves both
      indexes *before* the spawn is replaced, the new spawn is classed through __setitem__ and then filed under its
      current name *)
  Definition is_rem_class_old (s : gstmt) : bool :=
    match s with GRemClass k GRSpawn => bool_decide (k = ws) | _ => false end.
  Definition is_rem_target_old (s : gstmt) : bool :=
    match s with GRemTarget GTNone GRSpawn => true | _ => false end.
  Definition parse_drops_the_placeholder (l : list gstmt) : bool :=
    match l with
    | GNewEnt GKArg :: a :: b :: GAssignSpawn :: _ =>
        (is_rem_class_old a && is_rem_target_old b) || (is_rem_target_old a && is_rem_class_old b)
    | _ => false
    end.
  Definition parse_files_the_new_spawn (l : list gstmt) : bool :=
    match l with
    | [_; _; _; GAssignSpawn; GSetItem _ k v; GAddTarget (GTCur _) _] => bool_decide (k = cn) && bool_decide (v = ws)
    | [_; _; _; GAssignSpawn; GAddTarget (GTCur _) _; GSetItem _ k v] => bool_decide (k = cn) && bool_decide (v = ws)
    | _ => false
    end.
  Definition parse_spawn_ok (l : list gstmt) : bool := parse_drops_the_placeholder l && parse_files_the_new_spawn l.
  (** the entity loop: every entity block is parsed into an entity and added through add_ent *)
  Definition parse_ent_ok (l : list gstmt) : bool := bool_decide (l = [GNewEnt GKArg; GAddEnt GRLoc]).
  (** VMF.create_ent *)
  Definition create_ent_ok (l : list gstmt) : bool := bool_decide (l = [GNewEnt GKArgClass; GAddEnt GRLoc]).

  Definition vmf_init_today : list gstmt :=
    [GFreshTarget; GFreshClass; GFreshEnts; GNewEnt GKNone; GAssignSpawn; GSetItem GRSpawn cn ws; GAddTarget GTNone GRSpawn].
  Definition parse_spawn_today : list gstmt :=
    [GNewEnt GKArg; GRemClass ws GRSpawn; GRemTarget GTNone GRSpawn; GAssignSpawn; GSetItem GRLoc cn ws;
     GAddTarget (GTCur GRLoc) GRLoc].
  Definition glue_ent_today : list gstmt := [GNewEnt GKArg; GAddEnt GRLoc].
  Definition create_ent_today : list gstmt := [GNewEnt GKArgClass; GAddEnt GRLoc].
  (** faulty shapes: the constructor forgets to file the spawn under no name; parse replaces the spawn before it takes
      the placeholder out (so the *new* spawn is discarded from sets it is not in and the placeholder stays) *)
  Definition vmf_init_forgets_target : list gstmt :=
    [GFreshTarget; GFreshClass; GFreshEnts; GNewEnt GKNone; GAssignSpawn; GSetItem GRSpawn cn ws].
  Definition parse_spawn_assign_first : list gstmt :=
    [GNewEnt GKArg; GAssignSpawn; GRemClass ws GRSpawn; GRemTarget GTNone GRSpawn; GSetItem GRLoc cn ws;
     GAddTarget (GTCur GRLoc) GRLoc].

  (** VMF.parse as written: constructor, worldspawn replacement, entity loop *)
  Definition parse_pg (pi ps pe : list gstmt) (spawn_keys : kvs) (ent_keys : list kvs) : mstate :=
    foldl (λ st l, g_run pe (GE l []) st) (g_run ps (GE spawn_keys []) (g_run pi env0 blank)) ent_keys.

  (** *** Entity.__init__ / Entity.copy *)
  Definition new_ent_sh (sh : einit_shape) (l : kvs) (st : mstate) : mstate :=
    match ei_store sh with
    | EISetItemLoop => (update fold (nobj st) l (new_obj st)).1
    | EIDirect => with_keys (nobj st) l (new_obj st)
    | EINone => new_obj st
    end.
  Definition einit_ok (sh : einit_shape) : bool :=
    ei_fresh_dict sh && ei_map_first sh && match ei_store sh with EISetItemLoop => true | _ => false end.
  Definition copy_ok (sh : copy_shape) : bool := cp_own_keys sh && cp_map_arg_or_own sh && cp_through_init sh.
  Definition einit_today : einit_shape := EI true true EISetItemLoop.
  Definition einit_direct : einit_shape := EI true true EIDirect.
  Definition copy_today : copy_shape := CP true true true.

  (** *** Entity.pop *)
  Definition pop_item_sh (sh : pop_shape) (e : nat) (key : str) (st : mstate) : mstate * nat :=
    let kf := if ps_key_folded sh then fold key else key in
    let l := keys_of st e in
    match first_match (λ k, bool_decide ((if ps_fold_stored sh then fold k else k) = kf)) l with
    | Some k0 => match ps_del sh with
                 | PDelStored => del_item fold e k0 st
                 | PDelCaller => del_item fold e kf st
                 | PKeysPop => (with_keys e (kv_del fold (fold k0) l) st, 0)
                 end
    | None => (st, 0)
    end.
  Definition pop_lookup_is_case_insensitive (sh : pop_shape) : bool := ps_fold_stored sh && ps_key_folded sh.
  Definition pop_deletes_through_delitem (sh : pop_shape) : bool :=
    match ps_del sh with PKeysPop => false | _ => true end.
  Definition pop_ok (sh : pop_shape) : bool := pop_lookup_is_case_insensitive sh && pop_deletes_through_delitem sh.
  Definition pop_today : pop_shape := PS true true PDelStored.
  Definition pop_direct : pop_shape := PS true true PKeysPop.

  (** *** Entity.make_unique *)
  Definition pk (b : bool) (s : str) : option str := Some (if b then fold s else s).
  Fixpoint free_name_sh (fc : bool) (step : N) (fuel : nat) (i : N) (base : str) (bt : gmap (option str) (gset nat)) : option str :=
    match fuel with
    | O => None
    | S f => let name := base ++ dec i in
             if decide (ix_get bt (pk fc name) = ∅) then Some name else free_name_sh fc step f (i + step)%N base bt
    end.
  Definition make_unique_sh (sh : mu_shape) (e : nat) (prefix : str) (st : mstate) : mstate * nat :=
    let orig := default [] (kv_find fold tn (keys_of st e)) in
    let alone := if mu_unique_is_self_only sh then bool_decide (ix_get (by_target st) (pk (mu_fold_unique sh) orig) = {[e]})
                 else bool_decide (ix_get (by_target st) (pk (mu_fold_unique sh) orig) ≠ ∅) in
    if bool_decide (orig ≠ []) && alone then (st, 0)
    else
      let '(st1, er1) := if decide (orig = []) then (st, 0)
                         else if mu_clears_first sh then set_item fold e tn [] st else (st, 0) in
      let from := if decide (orig = []) then (if mu_unnamed_prefix sh then prefix else []) else orig in
      let base := if mu_strips sh then rstrip_digits from else from in
      if decide (ix_get (by_target st1) (pk (mu_fold_base sh) base) = ∅) then set_item fold e tn base st1
      else match free_name_sh (mu_fold_cand sh) (mu_step sh) (S (size (by_target st1))) (mu_start sh) base (by_target st1) with
           | Some name => set_item fold e tn name st1
           | None => (st1, 9)
           end.
  Definition mu_unique_test_ok (sh : mu_shape) : bool := mu_fold_unique sh && mu_unique_is_self_only sh.
  Definition mu_clears_ok (sh : mu_shape) : bool := mu_clears_first sh && mu_unnamed_prefix sh.
  Definition mu_base_ok (sh : mu_shape) : bool := mu_strips sh && mu_fold_base sh.
  Definition mu_loop_ok (sh : mu_shape) : bool :=
    bool_decide (mu_start sh = 1%N) && bool_decide (mu_step sh = 1%N) && mu_fold_cand sh && mu_cand_is_base_plus_number sh.
  Definition mu_ok (sh : mu_shape) : bool :=
    mu_unique_test_ok sh && mu_clears_ok sh && mu_base_ok sh && mu_loop_ok sh && mu_stores_through_setitem sh.
  Definition mu_today : mu_shape := MU true true true true true true 1 1 true true true.
  (** the candidate looked up with its own spelling: a name that is taken in another letter case is handed out again *)
  Definition mu_unfolded_cand : mu_shape := MU true true true true true true 1 1 false true true.
End glue.
