(** Obligations on the source census Gen/IndexSites_gen.v (regenerated from /repo/src/srctools/*.py on every run):
    every function that writes Entity._keys or updates by_class/by_target is one of the operations modelled in
    SM/IndexModel.v, every index update uses a folded key of the right form, and every [.add(self)] inside an
    Entity method is guarded by a membership test. Booleans only; the check closes them by vm_compute. *)
From Coq Require Import List String Bool.
From SV Require Import Gen.IndexSites_gen.
Import ListNotations.
Open Scope string_scope.

Definition mem (s : string) (l : list string) : bool := existsb (String.eqb s) l.

(** the functions whose effect on [_keys] is modelled by set_item / del_item / clear / new_obj *)
Definition modelled_key_writers : list string :=
  ["Entity.__init__"; "Entity.__setitem__"; "Entity.__delitem__"; "Entity.clear"].
(** the functions whose index updates are modelled (init, add_ent(s), remove_ent, replace_spawn, set_item, del_item) *)
Definition modelled_index_writers : list string :=
  ["VMF.__init__"; "VMF.add_ent"; "VMF.add_ents"; "VMF.remove_ent"; "VMF.parse";
   "Entity.__setitem__"; "Entity.__delitem__"].

Definition all_key_writers_modelled : bool :=
  forallb (fun w : string * string => mem (fst w) modelled_key_writers) key_writers.

(** the only places where a [_keys] dict may leave its Entity: the deprecated [Entity.keys] property (stated
    assumption: callers do not write through it) and [Entity.copy], which hands it to the constructor (which only
    iterates [keys.items()] and stores through __setitem__) *)
Definition known_key_escapes : list (string * string) :=
  [("Entity.keys", "return"); ("Entity.copy", "arg:Entity")].
Definition all_key_escapes_known : bool :=
  forallb (fun w : string * string =>
             existsb (fun k : string * string => String.eqb (fst w) (fst k) && String.eqb (snd w) (snd k)) known_key_escapes)
          key_escapes.
(** VMF.entities is mutated, and VMF.spawn assigned, only by modelled functions *)
Definition modelled_entity_list_writers : list string :=
  ["VMF.__init__"; "VMF.add_ent"; "VMF.add_ents"; "VMF.remove_ent"].
Definition all_entity_list_writers_modelled : bool :=
  forallb (fun w : string * string => mem (fst w) modelled_entity_list_writers) entity_list_writers.
Definition modelled_spawn_writers : list string := ["VMF.__init__"; "VMF.parse"].
Definition all_spawn_writers_modelled : bool :=
  forallb (fun w : string * string => mem (fst w) modelled_spawn_writers) spawn_writers.

(** where the folded value of an index update comes from: the classname for by_class and the targetname for
    by_target, read through Entity.__getitem__ (case-insensitive) from the very entity that is filed; in
    Entity.__setitem__ the previous value for the removal and the new value for the addition; in an Entity
    method the update sits in the branch about that keyvalue and files [self] *)
Definition key_source_ok (s : string * string * bool * keysrc * string * string) : bool :=
  let '(fn, ix, add, src, ent, br) := s in
  let want := if String.eqb ix "by_class" then "classname" else "targetname" in
  (match src with
   | SGet k e => String.eqb k want && String.eqb e ent
   | SOrig => String.eqb fn "Entity.__setitem__" && negb add
   | SNew => String.eqb fn "Entity.__setitem__" && add
   | SLitKey => true
   | SOther => false
   end)
  && (if String.prefix "Entity." fn then String.eqb br want && String.eqb ent "self" else true).
Definition key_sources_ok_in (f : string) : bool :=
  forallb (fun s : string * string * bool * keysrc * string * string =>
             let '(fn, _, _, _, _, _) := s in negb (String.eqb fn f) || key_source_ok s) index_key_sources.

Definition site_fn (s : string * string * bool * keyclass * bool) : string := fst (fst (fst (fst s))).
Definition site_ix (s : string * string * bool * keyclass * bool) : string := snd (fst (fst (fst s))).
Definition site_add (s : string * string * bool * keyclass * bool) : bool := snd (fst (fst s)).
Definition site_key (s : string * string * bool * keyclass * bool) : keyclass := snd (fst s).
Definition site_guarded (s : string * string * bool * keyclass * bool) : bool := snd s.

Definition all_index_writers_modelled : bool :=
  forallb (fun s => mem (site_fn s) modelled_index_writers) index_sites.

(** by_class keys: [x.casefold()] or the literal 'worldspawn'; by_target keys: [x.casefold() or None] or None *)
Definition key_ok (ix : string) (k : keyclass) : bool :=
  match k with
  | KRaw => false
  | KFolded => String.eqb ix "by_class"
  | KLit s => String.eqb ix "by_class" && String.eqb s "worldspawn"
  | KFoldedOrNone => String.eqb ix "by_target"
  | KNone => String.eqb ix "by_target"
  end.
Definition keys_folded_in (fn : string) : bool :=
  forallb (fun s => negb (String.eqb (site_fn s) fn) || key_ok (site_ix s) (site_key s)) index_sites.
Definition all_index_keys_folded : bool := forallb (fun s => key_ok (site_ix s) (site_key s)) index_sites.
Definition entity_adds_guarded : bool := forallb site_guarded index_sites.
(** every modelled index writer still has at least one site, or hands the work to another modelled writer of
    its class that has one ([add_ents] calling [self.add_ent] per item); a vanished site means the model is stale *)
Definition has_site (f : string) : bool := existsb (fun s => String.eqb (site_fn s) f) index_sites.
Definition every_modelled_writer_seen : bool :=
  forallb (fun f => has_site f
                    || existsb (fun c : string * string =>
                                  String.eqb (fst c) f && mem (snd c) modelled_index_writers && has_site (snd c))
                               index_writer_calls)
          modelled_index_writers.
(** removal precedes nothing else to check syntactically; balance: functions that re-key an entity both remove and add *)
Definition rekeys_balanced (fn ix : string) : bool :=
  existsb (fun s => String.eqb (site_fn s) fn && String.eqb (site_ix s) ix && site_add s) index_sites
  && existsb (fun s => String.eqb (site_fn s) fn && String.eqb (site_ix s) ix && negb (site_add s)) index_sites.
