(** Two writers to the SAME destination (outside the wording of the property, which speaks of different files; proved
    because BSP tools may be started twice on one map): at every point of every schedule and fault pattern the
    destination holds the previous contents (while nobody has committed) or the COMPLETE contents of a writer that has
    committed — never chunks of both; temp names are never shared; everything else in the directory is untouched.
    The proof re-runs the step lemma of AtomicWriterProofs.v with the per-writer destination invariant replaced by a
    joint one. *)
From Coq Require Import List Bool Arith PeanoNat Lia.
From SV Require Import SM.AtomicWriter SM.AtomicWriterProofs SM.AtomicWriterThms SM.AtomicExit SM.AtomicExitProofs.
Import ListNotations.

Section Same.
Variable c : cfg.
Hypothesis Hsafe : cfg_safe c = true.
Variable d0 : dir.

Definition DestSame (sa sb : scen) (pa pb : pc) (d : dir) : Prop :=
  (committed pa = false /\ committed pb = false /\ d (File (dest sa)) = d0 (File (dest sa))) \/
  (committed pa = true /\ d (File (dest sa)) = Some (new sa)) \/
  (committed pb = true /\ d (File (dest sa)) = Some (new sb)).

Lemma DestSame_sym sa sb pa pb d : dest sa = dest sb -> DestSame sa sb pa pb d -> DestSame sb sa pb pa d.
Proof.
  unfold DestSame. intros E. rewrite <- E. intros [(A & B & C)|[(A & B)|(A & B)]]; auto.
Qed.

Lemma step_same sa sb pa pb d f pa' d' e :
  Own d0 sa pa d -> Own d0 sb pb d -> Disj pa pb -> DestSame sa sb pa pb d -> Frame d0 sa sb pa pb d ->
  wstep c sa pa d f = (pa', d', e) ->
  Own d0 sa pa' d' /\ Own d0 sb pb d' /\ Disj pa' pb /\ DestSame sa sb pa' pb d' /\ Frame d0 sa sb pa' pb d'.
Proof.
  intros Oa Ob Dj Ds Fr H. apply (wstep_class c Hsafe) in H.
  destruct H as [Hd Hc Has Hkeep Hpr | i Hp Hnone Hd Hp' | i tok Has Has' Hd Hc' Hc Hpr
                | i v Hp Hv Hd Hp' | i Hp Hd Hp'].
  - (* same directory *)
    subst d'. repeat split.
    + destruct (Oa i (Has i H)) as [A _]. exact A.
    + destruct (Oa i (Has i H)) as [_ [ct [B C]]]. exists ct. auto.
    + destruct (Ob i H) as [A _]. exact A.
    + destruct (Ob i H) as [_ B]. exact B.
    + intros i A B. exact (Dj i (Has i A) B).
    + unfold DestSame in *. rewrite Hc. exact Ds.
    + intros n A B C. apply Fr; auto. intros i E. destruct (C i E) as [C1 C2]. split; [|exact C2].
      intros X. destruct (Hkeep i X) as [K|K]; [contradiction|].
      destruct (Oa i X) as [_ [ct [B' _]]]. congruence.
  - (* create tmp_i *)
    subst pa pa' d'.
    assert (Hb : assoc pb <> Some i).
    { intros X. destruct (Ob i X) as [_ [ct [B _]]]. congruence. }
    assert (H0 : d0 (Tmp i) = None).
    { rewrite <- Hnone. symmetry. apply Fr; try discriminate.
      intros j E. inversion E; subst. split; [discriminate | exact Hb]. }
    repeat split.
    + rewrite assoc_after_body in H. inversion H; subst. exact H0.
    + rewrite assoc_after_body in H. inversion H; subst. exists []. split; [apply upd_same|].
      apply (progress_after_body sa i0 0). lia.
    + destruct (Ob i0 H) as [A _]. exact A.
    + destruct (Ob i0 H) as [_ [ct [B C]]]. exists ct. split; [|exact C].
      rewrite upd_other; [exact B|]. intros E. inversion E; subst. contradiction.
    + intros j A B. rewrite assoc_after_body in A. inversion A; subst. contradiction.
    + unfold DestSame in *. rewrite committed_after_body. cbn [committed] in Ds. rewrite upd_other by discriminate.
      exact Ds.
    + intros n A B C. destruct (name_eqb n (Tmp i)) eqn:En.
      * apply name_eqb_eq in En. subst n. destruct (C i eq_refl) as [C1 _].
        rewrite assoc_after_body in C1. contradiction.
      * assert (n <> Tmp i) by (intros X; subst; rewrite name_eqb_refl in En; discriminate).
        rewrite upd_other by assumption. apply Fr; auto.
        intros j E. split; [discriminate | exact (proj2 (C j E))].
  - (* append to own tmp_i *)
    destruct (Oa i Has) as [A0 [ct [Hct Hprog]]].
    rewrite (append_some _ _ _ _ Hct) in Hd. subst d'.
    repeat split.
    + rewrite Has' in H. inversion H; subst. exact A0.
    + rewrite Has' in H. inversion H; subst. exists (ct ++ [tok]). split; [apply upd_same | auto].
    + destruct (Ob i0 H) as [A _]. exact A.
    + destruct (Ob i0 H) as [_ [ct' [B C]]]. exists ct'. split; [|exact C].
      rewrite upd_other; [exact B|]. intros E. inversion E; subst. exact (Dj i Has H).
    + intros j A B. rewrite Has' in A. inversion A; subst. exact (Dj j Has B).
    + unfold DestSame in *. rewrite Hc'. rewrite Hc in Ds. rewrite upd_other by discriminate. exact Ds.
    + intros n A B C. destruct (name_eqb n (Tmp i)) eqn:En.
      * apply name_eqb_eq in En. subst n. destruct (C i eq_refl) as [C1 _]. contradiction.
      * assert (n <> Tmp i) by (intros X; subst; rewrite name_eqb_refl in En; discriminate).
        rewrite upd_other by assumption. apply Fr; auto.
        intros j E. split; [|exact (proj2 (C j E))]. intros X. rewrite Has in X. inversion X; subst. contradiction.
  - (* replace tmp_i -> dest *)
    subst pa pa' d'.
    destruct (Oa i eq_refl) as [A0 [ct [Hct Hprog]]]. cbn [progress] in Hprog.
    assert (v = new sa) by congruence. subst v.
    repeat split.
    + cbn in H. discriminate.
    + cbn in H. discriminate.
    + destruct (Ob i0 H) as [A _]. exact A.
    + destruct (Ob i0 H) as [_ [ct' [B C]]]. exists ct'. split; [|exact C].
      rewrite upd_other. 2:{ intros E. inversion E; subst. exact (Dj i eq_refl H). }
      rewrite upd_other by discriminate. exact B.
    + intros j A B. cbn in A. discriminate.
    + unfold DestSame. right. left. split; [reflexivity|]. rewrite upd_other by discriminate. apply upd_same.
    + intros n A B C. destruct (name_eqb n (Tmp i)) eqn:En.
      * apply name_eqb_eq in En. subst n. rewrite upd_same. symmetry. exact A0.
      * assert (n <> Tmp i) by (intros X; subst; rewrite name_eqb_refl in En; discriminate).
        rewrite upd_other by assumption. rewrite upd_other by assumption. apply Fr; auto.
        intros j E. split; [|exact (proj2 (C j E))]. intros X. cbn in X. inversion X; subst. contradiction.
  - (* unlink tmp_i *)
    subst pa pa' d'.
    destruct (Oa i eq_refl) as [A0 _].
    repeat split.
    + cbn in H. discriminate.
    + cbn in H. discriminate.
    + destruct (Ob i0 H) as [A _]. exact A.
    + destruct (Ob i0 H) as [_ [ct' [B C]]]. exists ct'. split; [|exact C].
      rewrite upd_other; [exact B|]. intros E. inversion E; subst. exact (Dj i eq_refl H).
    + intros j A B. cbn in A. discriminate.
    + unfold DestSame in *. cbn [committed] in *. rewrite upd_other by discriminate. exact Ds.
    + intros n A B C. destruct (name_eqb n (Tmp i)) eqn:En.
      * apply name_eqb_eq in En. subst n. rewrite upd_same. symmetry. exact A0.
      * assert (n <> Tmp i) by (intros X; subst; rewrite name_eqb_refl in En; discriminate).
        rewrite upd_other by assumption. apply Fr; auto.
        intros j E. split; [|exact (proj2 (C j E))]. intros X. cbn in X. inversion X; subst. contradiction.
Qed.

Variables s1 s2 : scen.
Hypothesis Hdest : dest s1 = dest s2.

Record InvS (st : sys) : Prop := {
  is_own1 : Own d0 s1 (p1 st) (sd st);
  is_own2 : Own d0 s2 (p2 st) (sd st);
  is_disj : Disj (p1 st) (p2 st);
  is_dest : DestSame s1 s2 (p1 st) (p2 st) (sd st);
  is_frame : Frame d0 s1 s2 (p1 st) (p2 st) (sd st)
}.

Lemma invS_step st wf : InvS st -> InvS (step2 c s1 s2 st wf).
Proof.
  intros [O1 O2 Dj Ds Fr]. destruct wf as [who f]. unfold step2. destruct who.
  - destruct (wstep c s2 (p2 st) (sd st) f) as [[p' d'] e] eqn:E.
    destruct (step_same s2 s1 (p2 st) (p1 st) (sd st) f p' d' e) as (A & B & C & D & G); auto.
    + apply Disj_sym. exact Dj.
    + apply DestSame_sym; auto.
    + apply Frame_sym. exact Fr.
    + constructor; cbn; auto.
      * apply Disj_sym. exact C.
      * apply DestSame_sym; auto.
      * apply Frame_sym. exact G.
  - destruct (wstep c s1 (p1 st) (sd st) f) as [[p' d'] e] eqn:E.
    destruct (step_same s1 s2 (p1 st) (p2 st) (sd st) f p' d' e) as (A & B & C & D & G); auto.
    constructor; cbn; auto.
Qed.

Lemma invS_run sched : forall st, InvS st -> InvS (run2 c s1 s2 sched st).
Proof.
  unfold run2. induction sched as [|wf r IH]; intros st H; cbn [fold_left]; [exact H|].
  apply IH. apply invS_step. exact H.
Qed.

Lemma invS_start : InvS (start d0).
Proof.
  constructor; cbn; try (intros i H; discriminate).
  - left. auto.
  - intros n _ _ _. reflexivity.
Qed.

Theorem same_dest_no_mixture : forall sched,
  let st := run2 c s1 s2 sched (start d0) in
  ((committed (p1 st) = false /\ committed (p2 st) = false /\ sd st (File (dest s1)) = d0 (File (dest s1))) \/
   (committed (p1 st) = true /\ sd st (File (dest s1)) = Some (new s1)) \/
   (committed (p2 st) = true /\ sd st (File (dest s1)) = Some (new s2))) /\
  (forall i, assoc (p1 st) = Some i -> assoc (p2 st) = Some i -> False) /\
  (forall n, n <> File (dest s1) -> d0 n <> None -> sd st n = d0 n).
Proof.
  intros sched st. destruct (invS_run sched (start d0) invS_start) as [O1 O2 Dj Ds Fr]. fold st in O1, O2, Dj, Ds, Fr.
  split; [exact Ds|]. split; [exact Dj|].
  intros n Hn Hex. apply Fr; auto; [congruence|].
  intros i ->. split; intros X.
  - destruct (O1 i X) as [A _]. congruence.
  - destruct (O2 i X) as [A _]. congruence.
Qed.

(** A writer that got an OSError anywhere never commits: the shared destination then holds the previous contents
    or the complete contents of the other writer. *)
Theorem same_dest_fault_never_commits : forall sched,
  let st := run2 c s1 s2 sched (start d0) in
  faulted false (tr st) ->
  committed (p1 st) = false /\
  (sd st (File (dest s1)) = d0 (File (dest s1)) \/
   (committed (p2 st) = true /\ sd st (File (dest s1)) = Some (new s2))).
Proof.
  intros sched st Hf.
  assert (Hc : committed (p1 st) = false).
  { apply doomed_not_committed. apply (fault_doom_run c Hsafe s1 s2 sched (start d0)); [|exact Hf].
    cbn. intros [o []]. }
  split; [exact Hc|].
  destruct (same_dest_no_mixture sched) as (Ds & _). fold st in Ds.
  destruct Ds as [(A & B & C)|[(A & B)|(A & B)]]; auto. congruence.
Qed.
End Same.

(** For every generated protocol in the family. *)
Theorem proto_same_dest_no_mixture x d0 s1 s2 : dest s1 = dest s2 -> proto_safe x = true -> forall sched,
  let st := run2t x s1 s2 sched (startt d0) in
  ((committedt (q1 st) = false /\ committedt (q2 st) = false /\ sdt st (File (dest s1)) = d0 (File (dest s1))) \/
   (committedt (q1 st) = true /\ sdt st (File (dest s1)) = Some (new s1)) \/
   (committedt (q2 st) = true /\ sdt st (File (dest s1)) = Some (new s2))) /\
  (forall i, assoct (q1 st) = Some i -> assoct (q2 st) = Some i -> False) /\
  (forall n, n <> File (dest s1) -> d0 n <> None -> sdt st n = d0 n).
Proof.
  intros Hd H sched st. destruct (psafe_family x H) as [Hf Hs].
  destruct (run2t_refines x Hf d0 s1 s2 sched) as (Hdir & _ & H1 & H2). fold st in Hdir, H1, H2.
  rewrite Hdir, (R_committed _ _ _ H1), (R_committed _ _ _ H2), (R_assoc _ _ _ H1), (R_assoc _ _ _ H2).
  exact (same_dest_no_mixture (derive_cfg x) Hs d0 s1 s2 Hd sched).
Qed.

Theorem proto_same_dest_fault_never_commits x d0 s1 s2 : dest s1 = dest s2 -> proto_safe x = true -> forall sched,
  let st := run2t x s1 s2 sched (startt d0) in
  faulted false (trt st) ->
  committedt (q1 st) = false /\
  (sdt st (File (dest s1)) = d0 (File (dest s1)) \/
   (committedt (q2 st) = true /\ sdt st (File (dest s1)) = Some (new s2))).
Proof.
  intros Hd H sched st. destruct (psafe_family x H) as [Hf Hs].
  destruct (run2t_refines x Hf d0 s1 s2 sched) as (Hdir & Ht & H1 & H2). fold st in Hdir, Ht, H1, H2.
  rewrite Hdir, Ht, (R_committed _ _ _ H1), (R_committed _ _ _ H2).
  exact (same_dest_fault_never_commits (derive_cfg x) Hs d0 s1 s2 Hd sched).
Qed.

(** Both orders of the two renames occur: the last rename wins, each time with a complete content. *)
Example same_dest_last_rename_wins :
  let sb := {| dest := 0; body := [7]; tail := []; raise_at := None |} in
  let seq w := repeat (w, false) 6 in
  sd (run2 cfg_fixed sc_a1 sb (seq false ++ seq true) (start d_old)) (File 0) = Some [7] /\
  sd (run2 cfg_fixed sc_a1 sb (seq true ++ seq false) (start d_old)) (File 0) = Some [1].
Proof. vm_compute. auto. Qed.
