(** C17 — process-global state must not influence the result of a collapse.

    instancing.py keeps module-level mutable objects (today: the set [_UNKNOWN_KV] that de-duplicates log messages,
    and the logger).  "Collapsing the same file any number of times, in any order and at any placement, gives results
    that differ only by that placement" is false as soon as such an object takes part in a decision about the result:
    the first collapse of a process would differ from the second one.

    translate/c17_formulas.py turns every function of instancing.py that mentions a module-level mutable object into a
    control-flow skeleton [skel] ([g_process_state_functions] in Gen/C17Formulas_gen.v): every statement is one of the
    constructors below, the test of an `if` is [TGlobal] exactly when it reads such an object.  The semantics is
    parametric in what the statements do ([sem]): a program state [St] (the maps, the instance, the locals - the
    result), the process-global state [G], arbitrary effects, conditions, loop counts and exception behaviour.
    The theorem (SM/C17GlobalProofs.v): if every decision on [G] guards only logging and updates of [G] itself
    ([gates_ok]), the program state and the control outcome after the function are the same for every initial [G]. *)
From Coq Require Import List Bool Arith.
Import ListNotations.

Inductive jump := JContinue | JBreak | JReturn | JRaise.

Inductive test :=
| TOther (i : nat)         (* a condition on the program state *)
| TGlobal (i : nat).       (* a condition that reads a module-level mutable object *)

Inductive skel :=
| KNil
| KSeq (a b : skel)
| KEff (i : nat)           (* any statement / expression evaluation acting on the program state; it may raise *)
| KTainted (i : nat)       (* a statement that reads a module-level mutable object outside the test of an `if` *)
| KLog                     (* LOGGER.<level>(...) / warnings.warn(...) as a statement *)
| KUpd (i : nat)           (* update of the module-level object itself: G.add(..), G.clear(), G[k] = .. *)
| KJump (k : jump)         (* continue / break / bare return / raise; `return v` is KEff (the value handed to the caller) then KJump JReturn *)
| KIf (t : test) (a b : skel)
| KLoop (i : nat) (body : skel)            (* for-loop: the iteration count is fixed by the program state at entry *)
| KTry (body handler els : skel)           (* handler = the except clauses as an if-chain ending in a re-raise *)
| KCall (callee : skel).                   (* call of a function of the module that itself mentions a module-level mutable
                                              object (the arguments are evaluated before: KEff): the callee's skeleton, inlined *)

Inductive status := Normal | Jumped (k : jump).

Section Semantics.
  Variables St G : Type.

  Record sem := {
    eff : nat -> St -> St * bool;            (* true: the statement raises *)
    teff : nat -> St -> G -> St * bool;      (* a tainted statement may do anything with G *)
    cond : nat -> St -> bool;
    gcond : nat -> St -> G -> bool;
    gupd : nat -> St -> G -> G;
    count : nat -> St -> nat;
    next : nat -> St -> St }.

  Variable m : sem.

  Definition outcome := (St * G * status)%type.

  Fixpoint iter (n : nat) (f : St -> G -> outcome) (s : St) (g : G) : outcome :=
    match n with
    | 0 => (s, g, Normal)
    | S n' =>
        match f s g with
        | (s1, g1, Normal) | (s1, g1, Jumped JContinue) => iter n' f s1 g1
        | (s1, g1, Jumped JBreak) => (s1, g1, Normal)
        | r => r
        end
    end.

  Fixpoint run (p : skel) (s : St) (g : G) : outcome :=
    match p with
    | KNil | KLog => (s, g, Normal)
    | KSeq a b =>
        match run a s g with
        | (s1, g1, Normal) => run b s1 g1
        | r => r
        end
    | KEff i => let (s1, raised) := eff m i s in (s1, g, if raised then Jumped JRaise else Normal)
    | KTainted i => let (s1, raised) := teff m i s g in (s1, g, if raised then Jumped JRaise else Normal)
    | KUpd i => (s, gupd m i s g, Normal)
    | KJump k => (s, g, Jumped k)
    | KIf (TOther i) a b => if cond m i s then run a s g else run b s g
    | KIf (TGlobal i) a b => if gcond m i s g then run a s g else run b s g
    | KLoop i body => iter (count m i s) (fun s' g' => run body (next m i s') g') s g
    | KTry body handler els =>
        match run body s g with
        | (s1, g1, Normal) => run els s1 g1
        | (s1, g1, Jumped JRaise) => run handler s1 g1
        | r => r
        end
    | KCall c =>
        (* `return` ends the callee, an exception propagates; continue / break cannot leave a function body *)
        match run c s g with
        | (s1, g1, Jumped JRaise) => (s1, g1, Jumped JRaise)
        | (s1, g1, _) => (s1, g1, Normal)
        end
    end.

  (** What a caller can observe of the program: its state and how control left it - not [G]. *)
  Definition result (r : outcome) : St * status := (fst (fst r), snd r).

  (** A history of calls in one process (collapse_one, collapse_one, reset_keyvalue_warnings, collapse_one ...):
      [G] is threaded through, the program state too. *)
  Fixpoint run_many (ps : list skel) (s : St) (g : G) : St * G :=
    match ps with
    | [] => (s, g)
    | p :: r => match run p s g with (s1, g1, _) => run_many r s1 g1 end
    end.
End Semantics.

(** Only logging and updates of the global object (and decisions between such); [ret]: a bare `return` is allowed
    (the body of a helper such as `def _warn_once(..): if k in SEEN: return; log; SEEN.add(k)`). *)
Fixpoint quiet_gen (ret : bool) (p : skel) : bool :=
  match p with
  | KNil | KLog | KUpd _ => true
  | KJump JReturn => ret
  | KSeq a b | KIf _ a b => quiet_gen ret a && quiet_gen ret b
  | KCall c => quiet_gen true c
  | _ => false
  end.
Definition quiet := quiet_gen false.

(** Every decision on process-global state guards quiet code only; nothing else reads it. *)
Fixpoint gates_ok (p : skel) : bool :=
  match p with
  | KNil | KEff _ | KLog | KUpd _ | KJump _ => true
  | KTainted _ => false
  | KSeq a b => gates_ok a && gates_ok b
  | KIf (TOther _) a b => gates_ok a && gates_ok b
  | KIf (TGlobal _) a b => quiet a && quiet b
  | KLoop _ b => gates_ok b
  | KTry a b c => gates_ok a && gates_ok b && gates_ok c
  | KCall c => gates_ok c || quiet_gen true c     (* `if k in SEEN: return` is fine in a helper that only logs *)
  end.

(** A function of the module, seen from its callers. *)
Definition fn_ok (body : skel) : bool := gates_ok (KCall body).

(** Census helpers for the evidence: how many decisions read the global state. *)
Fixpoint global_tests (p : skel) : nat :=
  match p with
  | KSeq a b => global_tests a + global_tests b
  | KIf (TGlobal _) a b => 1 + global_tests a + global_tests b
  | KIf (TOther _) a b => global_tests a + global_tests b
  | KLoop _ b => global_tests b
  | KTry a b c => global_tests a + global_tests b + global_tests c
  | KCall c => global_tests c
  | _ => 0
  end.
