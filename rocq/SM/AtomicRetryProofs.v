(** Proofs about SM/AtomicRetry.v.

    1. [outcome_inv]: for ANY protocol with [proto_outcome_ok], a finished writer let its [with] statement return
       normally exactly when its rename succeeded — after every schedule of two writers.
    2. Stutter simulation: every run of a protocol [x] is, up to the refused renames / unlinks that are tried again,
       a run of [collapse_proto x] (same directory; program counters related by [apc]; every event of the collapsed
       run is an event of the run).  Hence the theorems of AtomicExitProofs.v hold for [x] when [collapse_proto x] is
       in the good part of the family ([retry_safe] / [retry_ok]).
    3. The family with a retried rename: good when exhausting the attempts takes the failure path (cleanup unlink,
       then raise), and for each other continuation a computed run shows the stray temp file or the swallowed failure,
       for every number of attempts. *)
From Coq Require Import List Bool Arith PeanoNat Lia.
From SV Require Import SM.AtomicWriter SM.AtomicWriterProofs SM.AtomicWriterThms SM.AtomicExit SM.AtomicExitProofs
  SM.AtomicReuse SM.AtomicRetry.
Import ListNotations.

(** ** 1. returned normally <-> committed *)
Definition outcome_pc (p : pct) : Prop :=
  match p with
  | TExit _ t _ _ repl => outcome_ok t repl = true
  | TDone r _ b => b = negb (match r with FCommitted => true | FNot => false end)
  | _ => True
  end.

Lemma outcome_settle i t f g repl : outcome_ok t repl = true -> outcome_pc (settle i t f g repl).
Proof.
  destruct t; cbn; intros H; auto.
  - apply eqb_prop in H. subst. now destruct repl.
  - now destruct repl.
Qed.

Section Outcome.
Variable x : xproto.
Hypothesis Hx : proto_outcome_ok x = true.

Lemma Hx_ok : outcome_ok (x_ok x) false = true.
Proof. unfold proto_outcome_ok in Hx. now apply andb_prop in Hx. Qed.
Lemma Hx_exc : outcome_ok (x_exc x) false = true.
Proof. unfold proto_outcome_ok in Hx. now apply andb_prop in Hx. Qed.

Lemma outcome_after_tail s i j : outcome_pc (aftert_tail x s i j).
Proof. unfold aftert_tail. destruct (j <? length (tail s)); cbn; auto. apply outcome_settle, Hx_ok. Qed.
Lemma outcome_after_body s i k : outcome_pc (aftert_body x s i k).
Proof.
  unfold aftert_body. destruct (raises_here s k); [apply outcome_settle, Hx_exc|].
  destruct (k <? length (body s)); cbn; auto using outcome_after_tail.
Qed.

Lemma outcome_step s p d f : outcome_pc p -> outcome_pc (fst (fst (wstept x s p d f))).
Proof.
  intros H. destruct p; cbn [wstept].
  - destruct f; cbn; auto.
  - destruct f; cbn; auto. destruct (x_excl x && is_some (d (Tmp i))); cbn; auto using outcome_after_body.
  - destruct f; cbn; auto using outcome_after_body. apply outcome_settle, Hx_exc.
  - destruct f; cbn; auto using outcome_after_tail. apply outcome_settle, Hx_ok.
  - cbn [outcome_pc] in H. destruct t; cbn [fst].
    + now apply outcome_settle.
    + now apply outcome_settle.
    + cbn [outcome_ok] in H. apply andb_prop in H as [H1 H2]. destruct (f || failed); now apply outcome_settle.
    + cbn [outcome_ok] in H. apply andb_prop in H as [H12 H3]. apply andb_prop in H12 as [H1 H2].
      destruct f; cbn [fst]; [now apply outcome_settle|].
      destruct (d (Tmp i)); cbn [fst]; now apply outcome_settle.
    + cbn [outcome_ok] in H. apply andb_prop in H as [H12 H3]. apply andb_prop in H12 as [H1 H2].
      destruct f; cbn [fst]; [now apply outcome_settle|].
      destruct (d (Tmp i)); cbn [fst]; now apply outcome_settle.
  - cbn. exact H.
Qed.

Lemma outcome_step2_1 s1 s2 st wf : outcome_pc (q1 st) -> outcome_pc (q1 (step2t x s1 s2 st wf)).
Proof.
  intros H1. destruct wf as [who f]. unfold step2t. destruct who.
  - destruct (wstept x s2 (q2 st) (sdt st) f) as [[p' d'] e]. exact H1.
  - pose proof (outcome_step s1 (q1 st) (sdt st) f H1) as H.
    destruct (wstept x s1 (q1 st) (sdt st) f) as [[p' d'] e]. exact H.
Qed.
Lemma outcome_step2_2 s1 s2 st wf : outcome_pc (q2 st) -> outcome_pc (q2 (step2t x s1 s2 st wf)).
Proof.
  intros H2. destruct wf as [who f]. unfold step2t. destruct who.
  - pose proof (outcome_step s2 (q2 st) (sdt st) f H2) as H.
    destruct (wstept x s2 (q2 st) (sdt st) f) as [[p' d'] e]. exact H.
  - destruct (wstept x s1 (q1 st) (sdt st) f) as [[p' d'] e]. exact H2.
Qed.

Lemma outcome_run_1 s1 s2 sched : forall st, outcome_pc (q1 st) -> outcome_pc (q1 (run2t x s1 s2 sched st)).
Proof. induction sched as [|wf sched IH]; intros st H; cbn; auto. apply IH. now apply outcome_step2_1. Qed.
Lemma outcome_run_2 s1 s2 sched : forall st, outcome_pc (q2 st) -> outcome_pc (q2 (run2t x s1 s2 sched st)).
Proof. induction sched as [|wf sched IH]; intros st H; cbn; auto. apply IH. now apply outcome_step2_2. Qed.

(** Every finished writer of every schedule: the [with] statement raised iff no rename succeeded. *)
Theorem outcome_inv d0 s1 s2 sched :
  let st := run2t x s1 s2 sched (startt d0) in
  (forall r l b, q1 st = TDone r l b -> b = negb (committedt (q1 st))) /\
  (forall r l b, q2 st = TDone r l b -> b = negb (committedt (q2 st))).
Proof.
  intros st. pose proof (outcome_run_1 s1 s2 sched (startt d0) I) as H1.
  pose proof (outcome_run_2 s1 s2 sched (startt d0) I) as H2. fold st in H1, H2.
  split; intros r l b E; rewrite E in *; cbn in *; destruct r; auto.
Qed.

Theorem outcome_inv_alone d0 s faults :
  let st := alonet x s faults d0 in
  forall r l b, q1 st = TDone r l b -> b = negb (committedt (q1 st)).
Proof.
  intros st. unfold alonet in st.
  pose proof (outcome_run_1 s (other s) (map (fun f => (false, f)) faults) (start1t d0) I) as H1.
  fold st in H1. intros r l b E. rewrite E in *. cbn in *. destruct r; auto.
Qed.
End Outcome.

(** ** 2. Stutter simulation between a protocol and its collapse *)
Definition is_op (t : xtree) : bool := match t with XReplace _ _ _ | XUnlink _ _ _ => true | _ => false end.
(** [gone] is dead at a rename / unlink node (each of the three results overwrites it). *)
Definition ng (p : pct) : pct :=
  match p with TExit i t f g r => TExit i t f (if is_op t then false else g) r | _ => p end.
Definition apc (p : pct) : pct :=
  match p with TExit i t f g r => TExit i (collapse t) f (if is_op t then false else g) r | _ => p end.

Definition root (t : xtree) : nat :=
  match t with XDone _ => 0 | XBad => 1 | XClose _ _ => 2 | XReplace _ _ _ => 3 | XUnlink _ _ _ => 4 end.
Lemma root_collapse t : root (collapse t) = root t.
Proof.
  destruct t; cbn [collapse]; try reflexivity.
  - destruct (collapse t2); try reflexivity. destruct (_ && _); reflexivity.
  - destruct (collapse t2); try reflexivity. destruct (_ && _); reflexivity.
Qed.
Lemma is_op_collapse t : is_op (collapse t) = is_op t.
Proof. pose proof (root_collapse t) as H. destruct t; destruct (collapse _); cbn in *; congruence. Qed.

Lemma collapse_replace a b c :
  (exists fl2, collapse (XReplace a b c) = XReplace (collapse a) fl2 (collapse c) /\
               collapse b = XReplace (collapse a) fl2 (collapse c) /\ exists b1 b2 b3, b = XReplace b1 b2 b3) \/
  collapse (XReplace a b c) = XReplace (collapse a) (collapse b) (collapse c).
Proof.
  cbn [collapse]. destruct (collapse b) eqn:Eb; auto.
  destruct (xtree_eqb x1 (collapse a) && xtree_eqb x3 (collapse c)) eqn:E; auto.
  apply andb_prop in E as [E1 E2]. apply xtree_eqb_eq in E1, E2. subst. left. exists x2. repeat split.
  pose proof (root_collapse b) as R. rewrite Eb in R. destruct b; cbn in R; try discriminate. eauto.
Qed.
Lemma collapse_unlink a b c :
  (exists fl2, collapse (XUnlink a b c) = XUnlink (collapse a) fl2 (collapse c) /\
               collapse b = XUnlink (collapse a) fl2 (collapse c) /\ exists b1 b2 b3, b = XUnlink b1 b2 b3) \/
  collapse (XUnlink a b c) = XUnlink (collapse a) (collapse b) (collapse c).
Proof.
  cbn [collapse]. destruct (collapse b) eqn:Eb; auto.
  destruct (xtree_eqb x1 (collapse a) && xtree_eqb x3 (collapse c)) eqn:E; auto.
  apply andb_prop in E as [E1 E2]. apply xtree_eqb_eq in E1, E2. subst. left. exists x2. repeat split.
  pose proof (root_collapse b) as R. rewrite Eb in R. destruct b; cbn in R; try discriminate. eauto.
Qed.

Lemma ng_settle i t f g r : ng (settle i (collapse t) f g r) = apc (settle i t f g r).
Proof.
  destruct t; try reflexivity.
  - destruct (collapse_replace t1 t2 t3) as [(fl2 & E1 & _)|E1]; cbn [settle apc is_op]; rewrite E1; reflexivity.
  - destruct (collapse_unlink t1 t2 t3) as [(fl2 & E1 & _)|E1]; cbn [settle apc is_op]; rewrite E1; reflexivity.
Qed.

Lemma ng_non_exit pa p : ng pa = p -> (forall i t f g r, p <> TExit i t f g r) -> pa = p.
Proof. destruct pa; cbn; intros E H; auto. subst. exfalso. eapply H. reflexivity. Qed.

Lemma ng_after_tail x s i j : ng (aftert_tail (collapse_proto x) s i j) = apc (aftert_tail x s i j).
Proof. unfold aftert_tail. destruct (j <? length (tail s)); [reflexivity|]. apply ng_settle. Qed.
Lemma ng_after_body x s i k : ng (aftert_body (collapse_proto x) s i k) = apc (aftert_body x s i k).
Proof.
  unfold aftert_body. destruct (raises_here s k); [apply ng_settle|].
  destruct (k <? length (body s)); [reflexivity|apply ng_after_tail].
Qed.

(** the step of the collapsed protocol does not depend on the dead flag *)
Lemma wstept_ng x s pa d f : wstept x s pa d f = wstept x s (ng pa) d f.
Proof. destruct pa; try reflexivity. destruct t; reflexivity. Qed.

Lemma wstept_collapse x s p pa d f : ng pa = apc p ->
  forall p' d' e, wstept x s p d f = (p', d', e) ->
  (d' = d /\ ng pa = apc p' /\ exists ev, e = Some ev) \/
  (exists pa', wstept (collapse_proto x) s pa d f = (pa', d', e) /\ ng pa' = apc p').
Proof.
  intros Hpa p' d' e Hs.
  rewrite (wstept_ng (collapse_proto x) s pa d f), Hpa. clear Hpa pa.
  destruct (wstept (collapse_proto x) s (apc p) d f) as [[pa2 da2] ea2] eqn:Ea.
  destruct p; cbn [apc] in Ea.
  - right. cbn [wstept] in Hs, Ea. destruct f; inversion Hs; inversion Ea; subst; eexists; split; reflexivity.
  - right. cbn [wstept] in Hs, Ea. cbn [collapse_proto x_excl] in Ea. destruct f.
    + inversion Hs; inversion Ea; subst; eexists; split; reflexivity.
    + destruct (x_excl x && is_some (d (Tmp i))); inversion Hs; inversion Ea; subst; eexists; split; try reflexivity.
      apply ng_after_body.
  - right. cbn [wstept] in Hs, Ea. cbn [collapse_proto x_exc] in Ea.
    destruct f; inversion Hs; inversion Ea; subst; eexists; split; try reflexivity.
    + apply ng_settle.
    + apply ng_after_body.
  - right. cbn [wstept] in Hs, Ea. cbn [collapse_proto x_ok] in Ea.
    destruct f; inversion Hs; inversion Ea; subst; eexists; split; try reflexivity.
    + apply ng_settle.
    + apply ng_after_tail.
  - destruct t.
    + right. cbn in Hs, Ea. inversion Hs; inversion Ea; subst. eexists; split; reflexivity.
    + right. cbn in Hs, Ea. inversion Hs; inversion Ea; subst. eexists; split; reflexivity.
    + right. cbn [collapse is_op wstept] in Hs, Ea.
      inversion Hs; inversion Ea; subst. eexists; split; [reflexivity|].
      destruct (f || failed); apply ng_settle.
    + cbn [is_op] in Ea. cbn [wstept] in Hs.
      destruct (collapse_replace t1 t2 t3) as [(fl2 & E1 & E2 & (b1 & b2 & b3 & Eb))|E1]; rewrite E1 in Ea; cbn [wstept] in Ea.
      * destruct f.
        -- left. inversion Hs; subst p' d' e. split; [reflexivity|]. split; [|eauto].
           rewrite Eb. cbn [settle apc is_op]. rewrite <- Eb, E1, E2. reflexivity.
        -- right. destruct (d (Tmp i)); inversion Hs; inversion Ea; subst; eexists; split; try reflexivity; apply ng_settle.
      * right. destruct f; [|destruct (d (Tmp i))]; inversion Hs; inversion Ea; subst; eexists; split; try reflexivity;
          apply ng_settle.
    + cbn [is_op] in Ea. cbn [wstept] in Hs.
      destruct (collapse_unlink t1 t2 t3) as [(fl2 & E1 & E2 & (b1 & b2 & b3 & Eb))|E1]; rewrite E1 in Ea; cbn [wstept] in Ea.
      * destruct f.
        -- left. inversion Hs; subst p' d' e. split; [reflexivity|]. split; [|eauto].
           rewrite Eb. cbn [settle apc is_op]. rewrite <- Eb, E1, E2. reflexivity.
        -- right. destruct (d (Tmp i)); inversion Hs; inversion Ea; subst; eexists; split; try reflexivity; apply ng_settle.
      * right. destruct f; [|destruct (d (Tmp i))]; inversion Hs; inversion Ea; subst; eexists; split; try reflexivity;
          apply ng_settle.
  - right. cbn in Hs, Ea. inversion Hs; inversion Ea; subst. eexists; split; reflexivity.
Qed.

(** Related systems: same directory, program counters related, every event of the collapsed run happened in the run. *)
Definition Rc (c a : syst) : Prop :=
  sdt a = sdt c /\ ng (q1 a) = apc (q1 c) /\ ng (q2 a) = apc (q2 c) /\ incl (trt a) (trt c).

Lemma incl_snoc {A} (l m : list A) e : incl l m -> incl (l ++ [e]) (m ++ [e]).
Proof. intros H y Hy. apply in_app_or in Hy as [Hy|Hy]; apply in_or_app; auto. Qed.
Lemma incl_snoc_r {A} (l m : list A) e : incl l m -> incl l (m ++ [e]).
Proof. intros H y Hy. apply in_or_app; auto. Qed.

Lemma step2t_collapse x s1 s2 c a wf : Rc c a ->
  Rc (step2t x s1 s2 c wf) a \/ Rc (step2t x s1 s2 c wf) (step2t (collapse_proto x) s1 s2 a wf).
Proof.
  intros (Hd & H1 & H2 & Ht). destruct wf as [who f]. unfold step2t. rewrite Hd. destruct who.
  - destruct (wstept x s2 (q2 c) (sdt c) f) as [[p' d'] e] eqn:E.
    destruct (wstept_collapse x s2 _ _ _ f H2 _ _ _ E) as [(-> & Hp & (ev & ->))|(pa' & Ea & Hp)].
    + left. unfold Rc; cbn. auto using incl_snoc_r.
    + right. rewrite Ea. unfold Rc; cbn. repeat split; auto. destruct e; auto using incl_snoc.
  - destruct (wstept x s1 (q1 c) (sdt c) f) as [[p' d'] e] eqn:E.
    destruct (wstept_collapse x s1 _ _ _ f H1 _ _ _ E) as [(-> & Hp & (ev & ->))|(pa' & Ea & Hp)].
    + left. unfold Rc; cbn. auto using incl_snoc_r.
    + right. rewrite Ea. unfold Rc; cbn. repeat split; auto. destruct e; auto using incl_snoc.
Qed.

Lemma run2t_collapse x s1 s2 sched : forall c a, Rc c a ->
  exists sched', Rc (run2t x s1 s2 sched c) (run2t (collapse_proto x) s1 s2 sched' a).
Proof.
  induction sched as [|wf sched IH]; intros c a H.
  - exists []. exact H.
  - cbn [run2t fold_left]. destruct (step2t_collapse x s1 s2 c a wf H) as [H'|H'].
    + exact (IH _ _ H').
    + destruct (IH _ _ H') as (sched' & Hs). exists (wf :: sched'). exact Hs.
Qed.

Lemma Rc_start d0 : Rc (startt d0) (startt d0).
Proof. unfold Rc; cbn. auto using incl_refl. Qed.
Lemma Rc_start1 d0 : Rc (start1t d0) (start1t d0).
Proof. unfold Rc; cbn. auto using incl_refl. Qed.

(** a single writer: the collapsed run is again a run of one writer alone *)
Lemma run2t_collapse_alone x s o faults : forall c a, Rc c a ->
  exists faults', Rc (run2t x s o (map (fun f => (false, f)) faults) c)
                     (run2t (collapse_proto x) s o (map (fun f => (false, f)) faults') a).
Proof.
  induction faults as [|f faults IH]; intros c a H.
  - exists []. exact H.
  - cbn [map run2t fold_left]. destruct (step2t_collapse x s o c a (false, f) H) as [H'|H'].
    + exact (IH _ _ H').
    + destruct (IH _ _ H') as (faults' & Hs). exists (f :: faults'). exact Hs.
Qed.

Lemma rel_done pa p : ng pa = apc p -> (forall r l b, p = TDone r l b <-> pa = TDone r l b).
Proof.
  intros H r l b. destruct p, pa; cbn in H; try discriminate; split; intros E; try discriminate; congruence.
Qed.
Lemma rel_committed pa p : ng pa = apc p -> committedt pa = committedt p.
Proof. destruct p, pa; cbn; intros H; try discriminate; try reflexivity. now inversion H. Qed.
Lemma rel_finished pa p : ng pa = apc p -> finishedt pa = finishedt p.
Proof. destruct p, pa; cbn; intros H; try discriminate; reflexivity. Qed.
Lemma rel_assoc pa p : ng pa = apc p -> assoct pa = assoct p.
Proof. destruct p, pa; cbn; intros H; try discriminate; try reflexivity; now inversion H. Qed.
Lemma rel_about_to_replace pa p i : ng pa = apc p -> about_to_replace p i -> about_to_replace pa i.
Proof.
  intros H (ok & fl & ne & fd & g & r & ->). cbn [apc] in H.
  destruct (collapse_replace ok fl ne) as [(fl2 & E1 & _)|E1]; rewrite E1 in H;
    destruct pa; cbn in H; try discriminate; inversion H; subst; unfold about_to_replace; eauto 10.
Qed.

(** ** The property for every protocol whose collapse is in the good part of the family *)
Section RetryTransfer.
Variable x : xproto.
Variables (d0 : dir) (s1 s2 : scen).
Hypothesis Hdest : dest s1 <> dest s2.

Theorem retry_crash_atomic : retry_safe x = true -> forall sched,
  let st := run2t x s1 s2 sched (startt d0) in
  sdt st (File (dest s1)) = (if committedt (q1 st) then Some (new s1) else d0 (File (dest s1))) /\
  sdt st (File (dest s2)) = (if committedt (q2 st) then Some (new s2) else d0 (File (dest s2))).
Proof.
  intros H sched st. destruct (run2t_collapse x s1 s2 sched _ _ (Rc_start d0)) as (sched' & Hd & H1 & H2 & _).
  fold st in Hd, H1, H2. rewrite <- Hd, <- (rel_committed _ _ H1), <- (rel_committed _ _ H2).
  exact (proto_crash_atomic (collapse_proto x) d0 s1 s2 Hdest H sched').
Qed.

Theorem retry_body_exception_keeps_old : retry_safe x = true -> forall r sched,
  raise_at s1 = Some r -> r <= length (body s1) ->
  let st := run2t x s1 s2 sched (startt d0) in
  committedt (q1 st) = false /\ sdt st (File (dest s1)) = d0 (File (dest s1)).
Proof.
  intros H r sched Hr Hle st. destruct (run2t_collapse x s1 s2 sched _ _ (Rc_start d0)) as (sched' & Hd & H1 & H2 & _).
  fold st in Hd, H1, H2. rewrite <- Hd, <- (rel_committed _ _ H1).
  exact (proto_body_exception_keeps_old (collapse_proto x) d0 s1 s2 Hdest H r sched' Hr Hle).
Qed.

Theorem retry_no_temp_after_handled_failure : retry_ok x = true -> forall sched,
  let st := run2t x s1 s2 sched (startt d0) in
  finishedt (q1 st) = true -> (forall i, ~ In (false, (EUnlink i, RFault)) (trt st)) ->
  assoct (q1 st) = None /\ forall i, assoct (q2 st) <> Some i -> sdt st (Tmp i) = d0 (Tmp i).
Proof.
  intros H sched st Hf Hu. destruct (run2t_collapse x s1 s2 sched _ _ (Rc_start d0)) as (sched' & Hd & H1 & H2 & Ht).
  fold st in Hd, H1, H2, Ht. rewrite <- Hd, <- (rel_assoc _ _ H1), <- (rel_assoc _ _ H2).
  apply (proto_no_temp_after_handled_failure (collapse_proto x) d0 s1 s2 Hdest H sched').
  - now rewrite (rel_finished _ _ H1).
  - intros i Hi. apply (Hu i). now apply Ht.
Qed.

Theorem retry_two_writers_isolated : retry_safe x = true -> forall sched,
  let st := run2t x s1 s2 sched (startt d0) in
  (forall i, assoct (q1 st) = Some i -> assoct (q2 st) = Some i -> False) /\
  (forall i, assoct (q1 st) = Some i \/ assoct (q2 st) = Some i -> d0 (Tmp i) = None /\ sdt st (Tmp i) <> None) /\
  (forall i, about_to_replace (q1 st) i -> sdt st (Tmp i) = Some (new s1)) /\
  (forall i, about_to_replace (q2 st) i -> sdt st (Tmp i) = Some (new s2)) /\
  (forall n, n <> File (dest s1) -> n <> File (dest s2) -> d0 n <> None -> sdt st n = d0 n).
Proof.
  intros H sched st. destruct (run2t_collapse x s1 s2 sched _ _ (Rc_start d0)) as (sched' & Hd & H1 & H2 & _).
  fold st in Hd, H1, H2.
  destruct (proto_two_writers_isolated (collapse_proto x) d0 s1 s2 Hdest H sched') as (A & B & C & D & E).
  rewrite <- Hd, <- (rel_assoc _ _ H1), <- (rel_assoc _ _ H2). repeat split; auto.
  - apply (B i); auto.
  - apply (B i); auto.
  - intros i Hi. apply C. eapply rel_about_to_replace; eauto.
  - intros i Hi. apply D. eapply rel_about_to_replace; eauto.
Qed.

(** The [with] statement of a finished writer raised: its destination holds the previous contents.  (With retries
    "any refused operation => never commits" is no longer true, and not wanted: a rename that is refused once and
    accepted at the next attempt commits.  What the property asks is this.) *)
Theorem retry_failure_keeps_old : retry_safe x = true -> proto_outcome_ok x = true -> forall sched,
  let st := run2t x s1 s2 sched (startt d0) in
  forall r l, q1 st = TDone r l true -> committedt (q1 st) = false /\ sdt st (File (dest s1)) = d0 (File (dest s1)).
Proof.
  intros H Ho sched st r l E. destruct (outcome_inv x Ho d0 s1 s2 sched) as [O1 _]. fold st in O1.
  specialize (O1 r l true E). destruct (committedt (q1 st)) eqn:Ec; [discriminate|]. split; auto.
  destruct (retry_crash_atomic H sched) as [A _]. fold st in A. now rewrite Ec in A.
Qed.
End RetryTransfer.

Lemma retry_ok_safe x : retry_ok x = true -> retry_safe x = true.
Proof.
  unfold retry_ok, retry_safe, proto_ok, proto_safe. intros H. apply andb_prop in H as [Hf Hc]. rewrite Hf. cbn.
  unfold cfg_ok in Hc. now apply andb_prop in Hc.
Qed.

(** The whole property in one statement, hypotheses visible: two writers to different files of one directory, every
    schedule (= every kill point, every pattern of refused operations, every interleaving), an exit protocol with or
    without retries whose collapse is in the good part of the family and which returns normally only after a rename. *)
Theorem whole_property x d0 s1 s2 : dest s1 <> dest s2 -> retry_ok x = true -> proto_outcome_ok x = true ->
  forall sched, let st := run2t x s1 s2 sched (startt d0) in
  (* old or complete new, new exactly when the rename has succeeded *)
  (sdt st (File (dest s1)) = (if committedt (q1 st) then Some (new s1) else d0 (File (dest s1))) /\
   sdt st (File (dest s2)) = (if committedt (q2 st) then Some (new s2) else d0 (File (dest s2)))) /\
  (* the write failed (the with statement raised) exactly when nothing was committed: previous contents remain *)
  (forall r l b, q1 st = TDone r l b ->
     b = negb (committedt (q1 st)) /\ (b = true -> sdt st (File (dest s1)) = d0 (File (dest s1)))) /\
  (* abandoned by the body: never committed *)
  (forall r, raise_at s1 = Some r -> r <= length (body s1) -> committedt (q1 st) = false) /\
  (* no temp file left by a handled failure (the carve-out: the cleanup unlink itself was refused) *)
  (finishedt (q1 st) = true -> (forall i, ~ In (false, (EUnlink i, RFault)) (trt st)) ->
   assoct (q1 st) = None /\ forall i, assoct (q2 st) <> Some i -> sdt st (Tmp i) = d0 (Tmp i)) /\
  (* concurrent writers never share or clobber temp files, and touch nothing that existed before *)
  ((forall i, assoct (q1 st) = Some i -> assoct (q2 st) = Some i -> False) /\
   (forall i, assoct (q1 st) = Some i \/ assoct (q2 st) = Some i -> d0 (Tmp i) = None /\ sdt st (Tmp i) <> None) /\
   (forall i, about_to_replace (q1 st) i -> sdt st (Tmp i) = Some (new s1)) /\
   (forall i, about_to_replace (q2 st) i -> sdt st (Tmp i) = Some (new s2)) /\
   (forall n, n <> File (dest s1) -> n <> File (dest s2) -> d0 n <> None -> sdt st n = d0 n)).
Proof.
  intros Hd Hok Ho sched st. pose proof (retry_ok_safe x Hok) as Hs.
  pose proof (retry_crash_atomic x d0 s1 s2 Hd Hs sched) as A. fold st in A.
  split; [exact A|]. split.
  - intros r l b E. destruct (outcome_inv x Ho d0 s1 s2 sched) as [O1 _]. fold st in O1.
    pose proof (O1 r l b E) as Eb. split; [exact Eb|]. intros ->.
    destruct A as [A1 _]. cbn zeta in A1. destruct (committedt (q1 st)); [discriminate|]. exact A1.
  - split; [intros r Hr Hle; exact (proj1 (retry_body_exception_keeps_old x d0 s1 s2 Hd Hs r sched Hr Hle))|].
    split; [exact (retry_no_temp_after_handled_failure x d0 s1 s2 Hd Hok sched)|].
    exact (retry_two_writers_isolated x d0 s1 s2 Hd Hs sched).
Qed.

Section RetryAlone.
Variable x : xproto.
Variables (d0 : dir) (s : scen).

(** One writer alone, any faults, with retries: a finished use is a good use. *)
Theorem retry_good_use : retry_ok x = true -> proto_outcome_ok x = true -> forall faults,
  good_use d0 s (alonet x s faults d0).
Proof.
  intros H Ho faults. unfold good_use. set (st := alonet x s faults d0).
  destruct (run2t_collapse_alone x s (other s) faults _ _ (Rc_start1 d0)) as (faults' & Hd & H1 & H2 & Ht).
  fold (alonet x s faults d0) in Hd, H1, H2, Ht. fold st in Hd, H1, H2, Ht.
  fold (alonet (collapse_proto x) s faults' d0) in Hd, H1, H2, Ht.
  assert (Hs : proto_safe (collapse_proto x) = true).
  { unfold retry_ok, proto_ok in H. unfold proto_safe. apply andb_prop in H as [Hf Hc]. rewrite Hf. cbn.
    unfold cfg_ok in Hc. now apply andb_prop in Hc. }
  repeat split.
  - rewrite <- Hd, <- (rel_committed _ _ H1). exact (proto_alone_crash_atomic (collapse_proto x) d0 s Hs faults').
  - exact (outcome_inv_alone x Ho d0 s faults).
  - intros Hf Hu i. rewrite <- Hd.
    apply (proto_alone_no_temp_left (collapse_proto x) d0 s H faults').
    + now rewrite (rel_finished _ _ H1).
    + intros j Hj. apply (Hu j). now apply Ht.
Qed.
End RetryAlone.

(** ** 3. The family with a retried rename *)
Lemma collapse_leaf_unlink r : collapse (unlink_tree r) = unlink_tree r.
Proof. reflexivity. Qed.
Lemma collapse_after_fail g : collapse (after_fail g) = after_fail g.
Proof. destruct g; reflexivity. Qed.

(** a chain of attempts collapses to one attempt (when what follows the last refusal is not itself the same rename) *)
Lemma collapse_retry_tree n ok fl ne :
  collapse ok = ok -> collapse fl = fl -> collapse ne = ne -> root fl <> 3 ->
  collapse (retry_tree n ok fl ne) = XReplace ok fl ne.
Proof.
  intros Ho Hf He Hr. induction n as [|n IH]; cbn [retry_tree collapse].
  - rewrite Ho, Hf, He. destruct fl; try reflexivity. now cbn in Hr.
  - rewrite IH, Ho, He, !xtree_eqb_refl. reflexivity.
Qed.

Lemma retry_proto_collapses c n : c_replace_guard c = true -> c_on_ok c = ACommit ->
  collapse_proto (retry_proto c n (unlink_tree true)) = proto_of_cfg c.
Proof.
  destruct c as [e cg rg ok ex]. cbn [c_replace_guard c_on_ok]. intros -> ->.
  unfold collapse_proto, retry_proto, proto_of_cfg. cbn [x_excl x_ok x_exc c_excl c_replace_guard c_close_guard]. f_equal.
  - unfold close_tree. cbn [c_on_ok c_close_guard collapse act_tree]. unfold replace_tree. cbn [c_replace_guard].
    rewrite collapse_after_fail.
    rewrite collapse_retry_tree; try reflexivity. cbn. discriminate.
  - destruct ex, cg; reflexivity.
Qed.

Lemma cfg_ok_facts c : cfg_ok c = true -> c_replace_guard c = true /\ c_on_ok c = ACommit.
Proof.
  destruct c as [e cg rg ok ex]. unfold cfg_ok, cfg_safe, cfg_clean. cbn.
  destruct e, cg, rg, ok, ex; cbn; intros H; try discriminate; auto.
Qed.

Lemma retry_proto_outcome c n : cfg_ok c = true -> proto_outcome_ok (retry_proto c n (unlink_tree true)) = true.
Proof.
  intros H. destruct c as [e cg rg ok ex]. unfold cfg_ok, cfg_safe, cfg_clean in H. cbn in H.
  destruct e, cg, rg, ok, ex; try discriminate; unfold proto_outcome_ok, retry_proto; cbn [x_ok x_exc c_replace_guard c_close_guard c_excl];
    (apply andb_true_intro; split; [|reflexivity]); cbn [outcome_ok after_fail unlink_tree];
    (induction n as [|n IH]; [reflexivity|]); cbn [retry_tree outcome_ok] in *;
    repeat (apply andb_prop in IH as [IH ?]); rewrite ?andb_true_r in *; cbn in *; auto.
Qed.

(** Exhausting the attempts takes the failure path: every single use is good, whatever the number of attempts. *)
Theorem retry_family_good c n d0 s faults : cfg_ok c = true ->
  good_use d0 s (alonet (retry_proto c n (unlink_tree true)) s faults d0).
Proof.
  intros H. destruct (cfg_ok_facts c H) as [Hg Hc]. apply retry_good_use.
  - unfold retry_ok. rewrite (retry_proto_collapses c n Hg Hc). unfold proto_ok. rewrite family_complete. cbn.
    assert (E : derive_cfg (proto_of_cfg c) = c).
    { destruct c as [e cg rg ok ex]. cbn in Hg, Hc. subst. destruct e, cg, ex; reflexivity. }
    now rewrite E.
  - now apply retry_proto_outcome.
Qed.

(** one writer alone as a fold over its own program counter (the other writer of [alonet] never moves) *)
Definition astep (x : xproto) (s : scen) (st : pct * dir * list (bool * event)) (f : bool) :=
  let '(p, d, tr) := st in
  let '(p', d', e) := wstept x s p d f in
  (p', d', match e with Some e => tr ++ [(false, e)] | None => tr end).

Lemma alonet_fold x s faults d0 :
  let st := alonet x s faults d0 in
  (q1 st, sdt st, trt st) = fold_left (astep x s) faults (TMkdir, d0, []).
Proof.
  unfold alonet.
  assert (G : forall st, let st' := run2t x s (other s) (map (fun f => (false, f)) faults) st in
              (q1 st', sdt st', trt st') = fold_left (astep x s) faults (q1 st, sdt st, trt st)).
  { unfold run2t. induction faults as [|f faults IH]; intros st; cbn [map fold_left]; [reflexivity|].
    specialize (IH (step2t x s (other s) st (false, f))). cbn zeta in IH |- *. rewrite IH.
    f_equal. unfold step2t, astep. destruct (wstept x s (q1 st) (sdt st) f) as [[p' d'] e]. reflexivity. }
  exact (G (start1t d0)).
Qed.

(** All attempts refused. *)
Lemma retry_all_refused x s n ok fl ne i failed g repl d tr :
  fold_left (astep x s) (repeat true (S n)) (TExit i (retry_tree n ok fl ne) failed g repl, d, tr)
  = (settle i fl failed false repl, d, tr ++ repeat (false, (EReplace i (dest s), RFault)) (S n)).
Proof.
  revert g tr. induction n as [|m IH]; intros g tr.
  - reflexivity.
  - change (repeat true (S (S m))) with (true :: repeat true (S m)). cbn [fold_left].
    assert (E : astep x s (TExit i (retry_tree (S m) ok fl ne) failed g repl, d, tr) true
                = (TExit i (retry_tree m ok fl ne) failed false repl, d, tr ++ [(false, (EReplace i (dest s), RFault))])).
    { cbn [retry_tree astep wstept]. destruct m; reflexivity. }
    rewrite E, IH. rewrite <- app_assoc. reflexivity.
Qed.

(** The three other continuations, for EVERY number of attempts: the scenario [sc_a] (three raw writes), every
    operation accepted until the rename, which is refused at every attempt; [more] = what happens afterwards. *)
Definition refused_run (n : nat) (exh : xtree) (more : list bool) : syst :=
  alonet (retry_proto cfg_fixed n exh) sc_a (repeat false 6 ++ repeat true (S n) ++ more) d_old.

Definition d_written : dir :=
  upd (upd (upd (upd d_old (Tmp 1) (Some [])) (Tmp 1) (Some [1])) (Tmp 1) (Some [1; 2])) (Tmp 1) (Some [1; 2; 3]).

Lemma refused_run_state n exh more :
  let st := refused_run n exh more in
  (q1 st, sdt st, trt st) =
  fold_left (astep (retry_proto cfg_fixed n exh) sc_a) more
    (settle 1 exh false false false, d_written,
     [(false, (EMkdir, ROk)); (false, (EOpen 1, ROk)); (false, (EWrite 1 1, ROk)); (false, (EWrite 1 2, ROk));
      (false, (EWrite 1 3, ROk)); (false, (EClose 1, ROk))] ++ repeat (false, (EReplace 1 0, RFault)) (S n)).
Proof.
  intros st. unfold st, refused_run. rewrite alonet_fold, !fold_left_app.
  replace (fold_left _ (repeat false 6) (TMkdir, d_old, []))
    with (TExit 1 (retry_tree n (XDone false) exh (after_fail true)) false false false, d_written,
          [(false, (EMkdir, ROk)); (false, (EOpen 1, ROk)); (false, (EWrite 1 1, ROk)); (false, (EWrite 1 2, ROk));
           (false, (EWrite 1 3, ROk)); (false, (EClose 1, ROk))]).
  - now rewrite retry_all_refused.
  - cbn. destruct n; reflexivity.
Qed.

(** Falls out of the loop as if the rename had succeeded (seeded c12_6): the [with] statement returns normally, the
    destination keeps the previous contents, the complete new data sits in a stray tmp_1. *)
Theorem retry_swallowed_exhaustion_refuted n :
  let st := refused_run n (XDone false) [] in
  q1 st = TDone FNot (Some 1) false /\ sdt st (File 0) = Some [100] /\ sdt st (Tmp 1) = Some [1; 2; 3] /\
  ~ good_use d_old sc_a st.
Proof.
  intros st. pose proof (refused_run_state n (XDone false) []) as E. fold st in E. cbn [fold_left settle] in E.
  injection E as E1 E2 E3. split; [exact E1|]. split; [now rewrite E2|]. split; [now rewrite E2|].
  intros (_ & G & _). specialize (G _ _ _ E1). rewrite E1 in G. discriminate.
Qed.

(** Raises, but without the cleanup: a temp file is left behind by a handled failure. *)
Theorem retry_exhaustion_without_cleanup_refuted n :
  let st := refused_run n (XDone true) [] in
  q1 st = TDone FNot (Some 1) true /\ sdt st (File 0) = Some [100] /\ sdt st (Tmp 1) = Some [1; 2; 3] /\
  ~ good_use d_old sc_a st.
Proof.
  intros st. pose proof (refused_run_state n (XDone true) []) as E. fold st in E. cbn [fold_left settle] in E.
  injection E as E1 E2 E3. split; [exact E1|]. split; [now rewrite E2|]. split; [now rewrite E2|].
  intros (_ & _ & G).
  assert (X : sdt st (Tmp 1) = d_old (Tmp 1)).
  { apply G; [now rewrite E1|]. intros i Hi. rewrite E3 in Hi.
    repeat (destruct Hi as [Hi|Hi]; [discriminate|]). apply repeat_spec in Hi. discriminate. }
  rewrite E2 in X. discriminate.
Qed.

(** Cleans up but then returns normally: the failure is swallowed (the caller is told the save succeeded while the
    destination keeps the previous contents). *)
Theorem retry_exhaustion_swallowed_after_cleanup_refuted n :
  let st := refused_run n (unlink_tree false) [false] in
  q1 st = TDone FNot None false /\ sdt st (File 0) = Some [100] /\ sdt st (Tmp 1) = None /\
  ~ good_use d_old sc_a st.
Proof.
  intros st. pose proof (refused_run_state n (unlink_tree false) [false]) as E. fold st in E. clearbody st.
  change (fold_left _ [false] _) with
    (TDone FNot None false, upd d_written (Tmp 1) None,
     ([(false, (EMkdir, ROk)); (false, (EOpen 1, ROk)); (false, (EWrite 1 1, ROk)); (false, (EWrite 1 2, ROk));
       (false, (EWrite 1 3, ROk)); (false, (EClose 1, ROk))] ++ repeat (false, (EReplace 1 0, RFault)) (S n))
     ++ [(false, (EUnlink 1, ROk))]) in E.
  injection E as E1 E2 E3. split; [exact E1|]. split; [now rewrite E2|]. split; [now rewrite E2|].
  intros (_ & G & _). specialize (G _ _ _ E1). rewrite E1 in G. discriminate.
Qed.

Lemma cfg_ok_is_fixed c : cfg_ok c = true -> c = cfg_fixed.
Proof.
  destruct c as [e cg rg ok ex]. unfold cfg_ok, cfg_safe, cfg_clean. cbn.
  destruct e, cg, rg, ok, ex; cbn; intros H; try discriminate; reflexivity.
Qed.

(** "A protocol with retries is good iff exhausting the retries takes the failure path": for the family with a retried
    rename, every number of attempts, and every continuation of the four shapes [exh_shape] (nothing more / the cleanup
    unlink, each ending with or without an exception): every single use under every fault pattern is a good use
    exactly when the continuation is "unlink the temp file, then raise". *)
Theorem retry_good_iff_exhaustion_fails c n exh : cfg_ok c = true -> exh_shape exh ->
  ((forall d0 s faults, good_use d0 s (alonet (retry_proto c n exh) s faults d0)) <-> exh = unlink_tree true).
Proof.
  intros Hc Hs. split.
  - intros G. rewrite (cfg_ok_is_fixed c Hc) in G. destruct Hs as [[]|[]]; auto; exfalso.
    + destruct (retry_exhaustion_without_cleanup_refuted n) as (_ & _ & _ & B). apply B, G.
    + destruct (retry_swallowed_exhaustion_refuted n) as (_ & _ & _ & B). apply B, G.
    + destruct (retry_exhaustion_swallowed_after_cleanup_refuted n) as (_ & _ & _ & B). apply B, G.
  - intros ->. intros d0 s faults. now apply retry_family_good.
Qed.

(** ** Example objects: the kernel computes the trees of the retry loop from the program *)
Lemma obj_retry_good_ok :
  all_classes 8 obj_retry_good (fun o => retry_ok (obj_proto o) && proto_outcome_ok (obj_proto o) && reuse_indep o) = true /\
  x_ok (class_proto obj_retry_good (RSub 0)) =
    XClose (retry_tree 2 (XDone false) (unlink_tree true) (unlink_tree true)) (unlink_tree true) /\
  x_ok (class_proto obj_retry_good RGeneric) = x_ok (proto_of_cfg cfg_fixed) /\
  proto_ok (class_proto obj_retry_good (RSub 0)) = false.
Proof. vm_compute. auto. Qed.

(** The loop without [else: raise] (seeded c12_6): for PermissionError the trees are those of
    [retry_proto cfg_fixed 2 (XDone false)], every named obligation that speaks about failure paths is false, and
    the run of [retry_swallowed_exhaustion_refuted] is a run of this object; for every other class nothing is wrong
    (which is why a generic injected OSError did not find it). *)
Lemma obj_retry_swallow_refuted :
  class_proto obj_retry_swallow (RSub 0) = retry_proto cfg_fixed 2 (XDone false) /\
  retry_ok (class_proto obj_retry_swallow (RSub 0)) = false /\
  proto_outcome_ok (class_proto obj_retry_swallow (RSub 0)) = false /\
  cleans (x_ok (class_proto obj_retry_swallow (RSub 0))) false = false /\
  propagates (x_ok (class_proto obj_retry_swallow (RSub 0))) false = false /\
  retry_ok (class_proto obj_retry_swallow RGeneric) = true /\
  retry_ok (class_proto obj_retry_swallow RKbd) = true /\
  retry_ok (class_proto obj_retry_swallow (RSub 1)) = true.
Proof. vm_compute. auto 10. Qed.

(** The entry prologue: today's is inert in every state without an open handle; the one keyed on the temp name (seeded
    c12_5) is not — after any finished use the attribute still names tmp_N, which the next entry unlinks. *)
Lemma entry_prologue_examples :
  entry_inert obj_fixed prologue_fixed = true /\ entry_inert obj_fixed prologue_stale_name = false /\
  exec prologue_stale_name None (env_of (o_attrs obj_fixed) [Some VNone; Some VTName; Some VDest] false) inert_k
    = XUnlink (XDone false) (XDone true) (XDone false).
Proof. vm_compute. auto. Qed.
