(** C18 — proofs about SM/PathNorm.v: segment algebra, normpath leaves no '..' in absolute paths,
    every guard accepted by [raise_sound] implies containment. *)
From Coq Require Import List NArith Bool Lia.
From SV Require Import SM.PathNorm.
Import ListNotations.
Open Scope N_scope.

(** ---------------------------------------------------------------- basics *)
Lemma is_sep_true c : is_sep c = true -> c = sep.
Proof. unfold is_sep. apply N.eqb_eq. Qed.

Lemma str_eqb_eq a b : str_eqb a b = true <-> a = b.
Proof.
  revert b. induction a as [|x a IH]; intros [|y b]; cbn [str_eqb]; split; intro H; try easy.
  - apply andb_true_iff in H as [H1 H2]. apply N.eqb_eq in H1. apply IH in H2. congruence.
  - inversion H; subst. apply andb_true_iff. split; [apply N.eqb_refl | now apply IH].
Qed.

Lemma str_eqb_refl a : str_eqb a a = true.
Proof. now apply str_eqb_eq. Qed.

Lemma split_nonnil s : split s <> [].
Proof. destruct s as [|c r]; cbn [split]; [easy|]. destruct (is_sep c); [easy|]. destruct (split r); easy. Qed.

Lemma split_app_sep u v : split (u ++ sep :: v) = split u ++ split v.
Proof.
  induction u as [|c u IH]; cbn [app split].
  - unfold is_sep at 1. rewrite N.eqb_refl. reflexivity.
  - destruct (is_sep c).
    + now rewrite IH.
    + rewrite IH. destruct (split u) as [|h t] eqn:E; [now apply split_nonnil in E|]. reflexivity.
Qed.

Lemma segs_app_sep u v : segs (u ++ sep :: v) = segs u ++ segs v.
Proof. unfold segs. now rewrite split_app_sep, filter_app. Qed.

Lemma segs_nil : segs [] = [].
Proof. reflexivity. Qed.

Lemma segs_sep_cons v : segs (sep :: v) = segs v.
Proof. change (sep :: v) with ([] ++ sep :: v). now rewrite segs_app_sep. Qed.

Lemma segs_snoc_sep u : segs (u ++ [sep]) = segs u.
Proof. rewrite segs_app_sep, segs_nil. apply app_nil_r. Qed.

Lemma segs_repeat_sep n v : segs (repeat sep n ++ v) = segs v.
Proof. induction n as [|n IH]; cbn [repeat app]; [easy|]. now rewrite segs_sep_cons. Qed.

(** strings made only of separators have no segments *)
Lemma segs_all_sep t : Forall (fun c => is_sep c = true) t -> segs t = [].
Proof.
  induction 1 as [|c t Hc _ IH]; [easy|]. apply is_sep_true in Hc. subst. now rewrite segs_sep_cons.
Qed.

Lemma segs_app_all_sep u t : Forall (fun c => is_sep c = true) t -> segs (u ++ t) = segs u.
Proof.
  intros H. destruct H as [|c t Hc Ht]; [now rewrite app_nil_r|].
  apply is_sep_true in Hc. subst. rewrite segs_app_sep, (segs_all_sep t Ht). apply app_nil_r.
Qed.

(** ---------------------------------------------------------------- separator-free components *)
Definition sep_free (c : str) : Prop := Forall (fun x => is_sep x = false) c.
Definition valid (c : str) : Prop := sep_free c /\ skip c = false.

Lemma split_sep_free s : Forall sep_free (split s).
Proof.
  induction s as [|c r IH]; cbn [split].
  - repeat constructor.
  - destruct (is_sep c) eqn:E.
    + constructor; [constructor | exact IH].
    + destruct (split r) as [|h t]; [repeat constructor; exact E|].
      inversion IH; subst. constructor; [constructor; assumption | assumption].
Qed.

Lemma split_of_sep_free c : sep_free c -> split c = [c].
Proof.
  induction 1 as [|x c Hx _ IH]; cbn [split]; [easy|]. now rewrite Hx, IH.
Qed.

Lemma segs_valid_all p : Forall valid (segs p).
Proof.
  unfold segs. apply Forall_forall. intros c Hc. apply filter_In in Hc as [Hin Hs].
  split.
  - pose proof (split_sep_free p) as H. rewrite Forall_forall in H. now apply H.
  - now apply negb_true_iff in Hs.
Qed.

Lemma segs_single c : valid c -> segs c = [c].
Proof. intros [Hf Hs]. unfold segs. rewrite (split_of_sep_free c Hf). cbn [filter]. now rewrite Hs. Qed.

Lemma segs_join l : Forall valid l -> segs (join l) = l.
Proof.
  induction 1 as [|c l Hc Hl IH]; [easy|].
  cbn [join]. destruct l as [|d l']; [now apply segs_single|].
  rewrite segs_app_sep, IH, (segs_single c Hc). reflexivity.
Qed.

(** ---------------------------------------------------------------- prefixes and suffixes *)
Lemma prefixb_app pre s : prefixb pre s = true -> exists rest, s = pre ++ rest.
Proof.
  revert s. induction pre as [|x pre IH]; intros s H; [now exists s|].
  destruct s as [|y s]; [easy|]. cbn [prefixb] in H. apply andb_true_iff in H as [H1 H2].
  apply N.eqb_eq in H1. subst. destruct (IH _ H2) as [r ->]. now exists r.
Qed.

Lemma ends_sep_inv s : ends_sep s = true -> exists u, s = u ++ [sep].
Proof.
  induction s as [|c r IH]; [easy|]. cbn [ends_sep]. destruct r as [|d r'].
  - intros H. apply is_sep_true in H. subst. now exists [].
  - intros H. destruct (IH H) as [u Hu]. exists (c :: u). now rewrite Hu.
Qed.

Lemma ends_sep_snoc u : ends_sep (u ++ [sep]) = true.
Proof.
  induction u as [|c u IH]; [reflexivity|]. cbn [app ends_sep].
  destruct (u ++ [sep]) eqn:E; [now destruct u|]. exact IH.
Qed.

(** If [y] ends with a separator and is a string prefix of [x], then y's segments are a prefix of x's. *)
Lemma prefix_ending_sep_segs y x :
  ends_sep y = true -> prefixb y x = true -> seg_prefix (segs y) (segs x).
Proof.
  intros He Hp. destruct (ends_sep_inv _ He) as [u ->]. destruct (prefixb_app _ _ Hp) as [rest ->].
  exists (segs rest). rewrite segs_snoc_sep, <- app_assoc. cbn [app]. apply segs_app_sep.
Qed.

Lemma rstrip_decomp s : exists t, s = rstrip_sep s ++ t /\ Forall (fun c => is_sep c = true) t.
Proof.
  induction s as [|c r (t & Hr & Ht)]; [now exists []|].
  cbn [rstrip_sep]. destruct (rstrip_sep r) as [|d r'] eqn:E.
  - cbn [app] in Hr. subst r. destruct (is_sep c) eqn:Ec.
    + exists (c :: t). split; [reflexivity | now constructor].
    + exists t. now split.
  - exists t. split; [|exact Ht]. rewrite Hr at 1. reflexivity.
Qed.

Lemma segs_rstrip s : segs (rstrip_sep s) = segs s.
Proof.
  destruct (rstrip_decomp s) as (t & Hs & Ht). rewrite Hs at 2. now rewrite segs_app_all_sep.
Qed.

(** ---------------------------------------------------------------- longest common prefix *)
Lemma lcp_prefix_l a b : seg_prefix (lcp a b) a.
Proof.
  revert b. induction a as [|x a IH]; intros b; [now exists []|].
  destruct b as [|y b]; cbn [lcp]; [now exists (x :: a)|].
  destruct (str_eqb x y); [|now exists (x :: a)].
  destruct (IH b) as [r Hr]. exists r. cbn [app]. now rewrite <- Hr.
Qed.

Lemma lcp_prefix_r a b : seg_prefix (lcp a b) b.
Proof.
  revert b. induction a as [|x a IH]; intros b; [now exists b|].
  destruct b as [|y b]; cbn [lcp]; [now exists []|].
  destruct (str_eqb x y) eqn:E; [|now exists (y :: b)].
  apply str_eqb_eq in E. subst. destruct (IH b) as [r Hr]. exists r. cbn [app]. now rewrite <- Hr.
Qed.

Lemma lcp_valid a b : Forall valid a -> Forall valid (lcp a b).
Proof.
  intros H. revert b. induction H as [|x a Hx _ IH]; intros b; [constructor|].
  destruct b as [|y b]; cbn [lcp]; [constructor|]. destruct (str_eqb x y); [|constructor].
  constructor; [exact Hx | apply IH].
Qed.

Lemma segs_commonpath2 a b : segs (commonpath2 a b) = lcp (segs a) (segs b).
Proof.
  unfold commonpath2. assert (H : Forall valid (lcp (segs a) (segs b))) by (apply lcp_valid, segs_valid_all).
  destruct (is_abs a); cbn [app]; [rewrite segs_sep_cons|]; now apply segs_join.
Qed.

(** ---------------------------------------------------------------- normpath *)
Lemma norm_step_inv c acc :
  sep_free c ->
  Forall (fun d => valid d /\ is_dotdot d = false) acc ->
  Forall (fun d => valid d /\ is_dotdot d = false) (norm_step true acc c).
Proof.
  intros Hc Hacc. unfold norm_step. destruct (skip c) eqn:Es; [exact Hacc|].
  destruct (is_dotdot c) eqn:Ed.
  - destruct acc as [|t r]; [constructor|]. inversion Hacc as [|? ? [_ Ht] Hr]; subst.
    rewrite Ht. exact Hr.
  - constructor; [|exact Hacc]. repeat split; assumption.
Qed.

Lemma fold_norm_inv cs acc :
  Forall sep_free cs ->
  Forall (fun d => valid d /\ is_dotdot d = false) acc ->
  Forall (fun d => valid d /\ is_dotdot d = false) (fold_left (norm_step true) cs acc).
Proof.
  intros H. revert acc. induction H as [|c cs Hc _ IH]; intros acc Hacc; cbn [fold_left]; [exact Hacc|].
  apply IH. now apply norm_step_inv.
Qed.

Lemma norm_comps_abs p :
  Forall (fun d => valid d /\ is_dotdot d = false) (norm_comps true (split p)).
Proof.
  unfold norm_comps. apply Forall_rev. apply fold_norm_inv; [apply split_sep_free | constructor].
Qed.

Lemma lead_slashes_abs p : is_abs p = true -> (1 <= lead_slashes p)%nat.
Proof.
  destruct p as [|a r1]; [easy|]. cbn [is_abs starts_sep lead_slashes]. intros ->.
  destruct r1 as [|b r2]; [lia|]. destruct (is_sep b); [|lia].
  destruct r2 as [|c r3]; [lia|]. destruct (is_sep c); lia.
Qed.

(** Shape of normpath on an absolute path: 1 or 2 slashes, then the joined, fully resolved components. *)
Lemma normpath_abs_shape p : is_abs p = true ->
  exists n comps, (1 <= n)%nat /\ normpath p = repeat sep n ++ join comps
                  /\ Forall (fun d => valid d /\ is_dotdot d = false) comps.
Proof.
  intros Ha. pose proof (lead_slashes_abs p Ha) as Hn.
  destruct p as [|a r]; [easy|]. unfold normpath.
  set (n := lead_slashes (a :: r)) in *. exists n, (norm_comps true (split (a :: r))).
  assert (Hlt : Nat.ltb 0 n = true) by (apply PeanoNat.Nat.ltb_lt; lia). rewrite Hlt.
  split; [exact Hn|]. split; [|apply norm_comps_abs].
  destruct n as [|n']; [lia|]. reflexivity.
Qed.

Lemma normpath_abs_is_abs p : is_abs p = true -> is_abs (normpath p) = true.
Proof.
  intros Ha. destruct (normpath_abs_shape p Ha) as (n & comps & Hn & -> & _).
  destruct n; [lia|]. reflexivity.
Qed.

Lemma normpath_abs_segs p : is_abs p = true ->
  Forall (fun d => valid d /\ is_dotdot d = false) (segs (normpath p)).
Proof.
  intros Ha. destruct (normpath_abs_shape p Ha) as (n & comps & _ & -> & Hc).
  rewrite segs_repeat_sep, segs_join; [exact Hc|].
  eapply Forall_impl; [|exact Hc]. now intros d [Hv _].
Qed.

Lemma normpath_abs_no_dotdot p : is_abs p = true -> no_dotdot (segs (normpath p)).
Proof.
  intros Ha. eapply Forall_impl; [|apply (normpath_abs_segs p Ha)]. now intros d [_ H].
Qed.

Lemma pjoin_abs a b : is_abs a = true -> is_abs (pjoin a b) = true.
Proof.
  intros Ha. unfold pjoin. destruct (starts_sep b) eqn:Eb; [exact Eb|].
  destruct a as [|c a']; [easy|]. destruct (ends_sep (c :: a')); exact Ha.
Qed.

Lemma abspath_arg_abs cwd p : is_abs cwd = true -> is_abs (if is_abs p then p else pjoin cwd p) = true.
Proof. intros Hc. destruct (is_abs p) eqn:E; [exact E | now apply pjoin_abs]. Qed.

Lemma abspath_is_abs cwd p : is_abs cwd = true -> is_abs (abspath cwd p) = true.
Proof. intros Hc. unfold abspath. now apply normpath_abs_is_abs, abspath_arg_abs. Qed.

Lemma abspath_no_dotdot cwd p : is_abs cwd = true -> no_dotdot (segs (abspath cwd p)).
Proof. intros Hc. unfold abspath. now apply normpath_abs_no_dotdot, abspath_arg_abs. Qed.

(** ---------------------------------------------------------------- semantic content of the recognisers *)
Lemma is_SAbs_eq x : is_SAbs x = true -> x = SAbs.
Proof. now destruct x. Qed.
Lemma is_SRoot_eq x : is_SRoot x = true -> x = SRoot.
Proof. now destruct x. Qed.
Lemma is_sep_lit_eq x : is_sep_lit x = true -> x = SLit [sep].
Proof. destruct x; try easy. cbn. intros H. apply str_eqb_eq in H. now subst. Qed.
Lemma is_empty_lit_eq x : is_empty_lit x = true -> x = SLit [].
Proof. destruct x as [| |s| | | | | | | | | | | |]; try easy. now destruct s. Qed.

Lemma abs_like_segs e x : abs_like x = true -> segs (seval e x) = segs (e_abs e).
Proof.
  destruct x; try easy. cbn [abs_like]. intros H. apply andb_true_iff in H as [H1 H2].
  apply is_SAbs_eq in H1. apply is_sep_lit_eq in H2. subst. cbn [seval]. apply segs_snoc_sep.
Qed.

Lemma is_dot_lit_eq x : is_dot_lit x = true -> x = SLit [dotc].
Proof. destruct x; try easy. cbn. intros H. apply str_eqb_eq in H. now subst. Qed.

Lemma root_like_segs e x : root_like x = true -> segs (seval e x) = segs (e_root e).
Proof.
  induction x as [| | | | a IHa | | | | | | | |c IHc d IHd a IHa b IHb| |]; try easy; cbn [root_like]; intros H.
  - cbn [seval]. rewrite segs_rstrip. now apply IHa.
  - apply andb_true_iff in H as [H Hb]. apply andb_true_iff in H as [H Ha]. apply andb_true_iff in H as [Hc Hd].
    apply is_dot_lit_eq in Hd. apply is_empty_lit_eq in Ha. subst. cbn [seval].
    destruct (str_eqb (seval e c) [dotc]) eqn:E.
    + apply str_eqb_eq in E. rewrite <- (IHc Hc), E. reflexivity.
    + now apply IHb.
Qed.

(** what a recognised prefix expression evaluates to: a string ending in a separator with the root's segments, or the
    empty string when the root has no segments at all (the root directory itself) *)
Lemma root_sep_like_sem e y : is_abs (e_root e) = true -> root_sep_like y = true ->
  (ends_sep (seval e y) = true /\ segs (seval e y) = segs (e_root e)) \/
  (seval e y = [] /\ segs (e_root e) = []).
Proof.
  intros Hr. destruct y as [| | |r s| |r s| |c a b| | | | | |g a b |]; try easy; cbn [root_sep_like]; intros H.
  - left. apply andb_true_iff in H as [H1 H2]. apply is_sep_lit_eq in H2. subst. cbn [seval].
    split; [apply ends_sep_snoc|]. rewrite segs_snoc_sep. now apply root_like_segs.
  - left. apply andb_true_iff in H as [H1 H2]. apply is_SRoot_eq in H1. apply is_empty_lit_eq in H2. subst.
    cbn [seval]. unfold pjoin. cbn [starts_sep].
    destruct (e_root e) as [|c0 r0] eqn:E; [easy|].
    destruct (ends_sep (c0 :: r0)) eqn:Ee.
    + rewrite app_nil_r. now split.
    + split; [apply ends_sep_snoc | apply segs_snoc_sep].
  - left. apply andb_true_iff in H as [H12 H3]. apply andb_true_iff in H12 as [H1 H2].
    apply is_SRoot_eq in H1, H2. subst. destruct b as [| | |r s| | | | | | | | | | |]; try easy.
    apply andb_true_iff in H3 as [H3 H4]. apply is_SRoot_eq in H3. apply is_sep_lit_eq in H4. subst.
    cbn [seval]. destruct (ends_sep (e_root e)) eqn:Ee.
    + now split.
    + split; [apply ends_sep_snoc | apply segs_snoc_sep].
  - apply andb_true_iff in H as [H12 H3]. apply andb_true_iff in H12 as [H1 H2].
    apply is_empty_lit_eq in H2. subst. destruct b as [| | |r s| | | | | | | | | | |]; try easy.
    apply andb_true_iff in H3 as [H3 H4]. apply is_sep_lit_eq in H4. subst.
    pose proof (root_like_segs e g H1) as Hg. cbn [seval].
    destruct (seval e g) as [|c0 g0] eqn:Eg.
    + right. split; [reflexivity|]. now rewrite <- Hg.
    + left. split; [apply ends_sep_snoc|]. rewrite segs_snoc_sep. now apply root_like_segs.
Qed.

Lemma seg_prefix_refl_eq a b : a = b -> seg_prefix a b.
Proof. intros ->. exists []. now rewrite app_nil_r. Qed.

Lemma is_common_abs_root_sem e x : is_common_abs_root x = true ->
  seg_prefix (segs (seval e x)) (segs (e_abs e)).
Proof.
  destruct x as [| | | | | |a b| | | | | | | |]; try easy. cbn [is_common_abs_root]. intros H.
  cbn [seval]. rewrite segs_commonpath2.
  apply orb_true_iff in H as [H|H]; apply andb_true_iff in H as [H1 H2].
  - apply is_SAbs_eq in H1. subst. cbn [seval]. apply lcp_prefix_l.
  - apply is_SAbs_eq in H2. subst. cbn [seval]. apply lcp_prefix_r.
Qed.

Lemma eq_inside_sem e a b : eq_inside a b = true -> str_eqb (seval e a) (seval e b) = true ->
  seg_prefix (segs (e_root e)) (segs (e_abs e)).
Proof.
  intros H Heq. apply str_eqb_eq in Heq. unfold eq_inside in H.
  repeat (apply orb_true_iff in H as [H|H]); apply andb_true_iff in H as [H1 H2].
  - apply is_SAbs_eq in H1. apply is_SRoot_eq in H2. subst. cbn [seval] in Heq.
    apply seg_prefix_refl_eq. now rewrite Heq.
  - apply is_SRoot_eq in H1. apply is_SAbs_eq in H2. subst. cbn [seval] in Heq.
    apply seg_prefix_refl_eq. now rewrite Heq.
  - apply is_SRoot_eq in H2. subst. cbn [seval] in Heq. rewrite <- Heq.
    now apply is_common_abs_root_sem.
  - apply is_SRoot_eq in H1. subst. cbn [seval] in Heq. rewrite Heq.
    now apply is_common_abs_root_sem.
Qed.

(** Main semantic lemma about the recogniser. *)
Lemma ok_when_sem e : e_con e = true -> is_abs (e_root e) = true ->
  forall g pol, ok_when pol g = true -> geval e g = pol -> seg_prefix (segs (e_root e)) (segs (e_abs e)).
Proof.
  intros Hc Hr. induction g as [| | |a b|a b|a b|g IH|g IHg h IHh|g IHg h IHh]; intros pol Hok Hev;
    cbn [ok_when geval] in *.
  - rewrite Hc in Hev. subst. easy.
  - subst. easy.
  - subst. easy.
  - apply andb_true_iff in Hok as [Hp Hi]. subst pol. now apply (eq_inside_sem e a b).
  - apply andb_true_iff in Hok as [Hpa Hb]. apply andb_true_iff in Hpa as [Hp Ha]. subst pol.
    destruct (root_sep_like_sem e b Hr Hb) as [[He Hs]|[_ Hs]].
    + pose proof (prefix_ending_sep_segs _ _ He Hev) as Hpre.
      now rewrite Hs, (abs_like_segs e a Ha) in Hpre.
    + rewrite Hs. now exists (segs (e_abs e)).
  - easy.
  - apply (IH (negb pol)); [exact Hok|]. rewrite <- Hev. now rewrite negb_involutive.
  - destruct pol.
    + apply andb_true_iff in Hev as [E1 E2]. apply orb_true_iff in Hok as [H|H].
      * now apply (IHg true). * now apply (IHh true).
    + apply andb_true_iff in Hok as [H1 H2]. apply andb_false_iff in Hev as [E|E].
      * now apply (IHg false). * now apply (IHh false).
  - destruct pol.
    + apply andb_true_iff in Hok as [H1 H2]. apply orb_true_iff in Hev as [E|E].
      * now apply (IHg true). * now apply (IHh true).
    + apply orb_false_iff in Hev as [E1 E2]. apply orb_true_iff in Hok as [H|H].
      * now apply (IHg false). * now apply (IHh false).
Qed.

(** ---------------------------------------------------------------- the containment theorem *)
Theorem segprefix_guard_sound :
  forall raise_if cwd root_arg path a,
    raise_sound raise_if = true -> is_abs cwd = true ->
    resolve raise_if true cwd root_arg path = Ok a ->
    inside (abspath cwd root_arg) a.
Proof.
  intros g cwd root_arg path a Hs Hc Hres. unfold resolve in Hres.
  unfold raise_sound in Hs. apply andb_true_iff in Hs as [_ Hs].
  set (root := abspath cwd root_arg) in *. set (a0 := abspath cwd (pjoin root path)) in *.
  destruct (geval {| e_abs := a0; e_root := root; e_con := true |} g) eqn:Eg; [easy|].
  inversion Hres; subst a. clear Hres.
  assert (Hroot : is_abs root = true) by now apply abspath_is_abs.
  repeat split.
  - now apply abspath_is_abs.
  - exact (ok_when_sem {| e_abs := a0; e_root := root; e_con := true |} eq_refl Hroot g false Hs Eg).
  - now apply abspath_no_dotdot.
Qed.

(** Whatever the guard, the resolved path is absolute and normalised (so segment containment is meaningful). *)
Theorem resolve_normalised :
  forall raise_if con cwd root_arg path a, is_abs cwd = true ->
    resolve raise_if con cwd root_arg path = Ok a -> is_abs a = true /\ no_dotdot (segs a).
Proof.
  intros g con cwd root_arg path a Hc Hres. unfold resolve in Hres.
  destruct (geval _ g); [easy|]. inversion Hres; subst.
  split; [now apply abspath_is_abs | now apply abspath_no_dotdot].
Qed.

(** Boolean containment test used by the refutation and by the correspondence. *)
Lemma seg_prefixb_spec r a : seg_prefixb r a = true <-> seg_prefix r a.
Proof.
  revert a. induction r as [|x r IH]; intros a; cbn [seg_prefixb].
  - split; [now exists a | easy].
  - destruct a as [|y a].
    + split; [easy | intros [rest H]; easy].
    + split.
      * intros H. apply andb_true_iff in H as [H1 H2]. apply str_eqb_eq in H1. subst.
        apply IH in H2 as [rest ->]. now exists rest.
      * intros [rest H]. inversion H; subst. apply andb_true_iff. split; [apply str_eqb_refl|].
        apply IH. now exists rest.
Qed.

(** ---------------------------------------------------------------- guard forms: sound ones, and today's *)
From Coq Require Import String.
Open Scope string_scope.
Definition sepl : sx := SLit [sep].
(** [self.constrain_path and not abs_path.startswith(self.path)] — the pinned tree *)
Definition guard_strprefix : gx := GAnd GConstrain (GNot (GStarts SAbs SRoot)).
(** [self.constrain_path and abs_path != self.path and not abs_path.startswith(self.path.rstrip(os.sep) + os.sep)] *)
Definition guard_rstrip_sep : gx :=
  GAnd GConstrain (GAnd (GNot (GEq SAbs SRoot)) (GNot (GStarts SAbs (SCat (SRStrip SRoot) sepl)))).
(** [self.constrain_path and not (abs_path == self.path or abs_path.startswith(self.path + os.sep))] *)
Definition guard_eq_or_sep : gx :=
  GAnd GConstrain (GNot (GOr (GEq SAbs SRoot) (GStarts SAbs (SCat SRoot sepl)))).
(** [self.constrain_path and os.path.commonpath([abs_path, self.path]) != self.path] *)
Definition guard_commonpath : gx := GAnd GConstrain (GNot (GEq (SCommon SAbs SRoot) SRoot)).
(** [self.constrain_path and not (abs_path + os.sep).startswith(os.path.join(self.path, ''))] *)
Definition guard_join_empty : gx :=
  GAnd GConstrain (GNot (GStarts (SCat SAbs sepl) (SJoin SRoot (SLit [])))).

(** [self.constrain_path and os.path.commonprefix([abs_path, self.path]) != self.path] — character-wise, unsound *)
Definition guard_commonprefix : gx := GAnd GConstrain (GNot (GEq (SCommonPrefix SAbs SRoot) SRoot)).

Lemma sound_forms_recognised :
  raise_sound guard_rstrip_sep = true /\ raise_sound guard_eq_or_sep = true /\
  raise_sound guard_commonpath = true /\ raise_sound guard_join_empty = true /\
  raise_sound guard_strprefix = false.
Proof. vm_compute. repeat split. Qed.

(** The plain string-prefix guard admits a sibling directory whose name extends the root's name. *)
Theorem strprefix_guard_refuted :
  exists cwd root_arg path a,
    is_abs cwd = true /\ resolve guard_strprefix true cwd root_arg path = Ok a /\
    ~ seg_prefix (segs (abspath cwd root_arg)) (segs a).
Proof.
  exists (s2l "/w"), (s2l "/t/root"), (s2l "../root_evil/secret.txt"), (s2l "/t/root_evil/secret.txt").
  split; [reflexivity|]. split; [vm_compute; reflexivity|].
  intros H. apply seg_prefixb_spec in H. vm_compute in H. discriminate.
Qed.

(** os.path.commonprefix compares characters, not components: it is not accepted, and it does let a sibling whose
    name extends the root's name through. *)
Theorem commonprefix_guard_refuted :
  raise_sound guard_commonprefix = false /\
  exists cwd root_arg path a,
    is_abs cwd = true /\ resolve guard_commonprefix true cwd root_arg path = Ok a /\
    ~ seg_prefix (segs (abspath cwd root_arg)) (segs a).
Proof.
  split; [reflexivity|].
  exists (s2l "/w"), (s2l "/t/root"), (s2l "../root_evil/secret.txt"), (s2l "/t/root_evil/secret.txt").
  split; [reflexivity|]. split; [vm_compute; reflexivity|].
  intros H. apply seg_prefixb_spec in H. vm_compute in H. discriminate.
Qed.

(** Round 5 (seeded c18_8): the containment test made on NORMALISED NAMES instead of on the absolute strings, through
    the helpers the case-insensitive virtual file systems use:
      root = _norm_name(self.path); name = _norm_name(abs_path)
      raise unless name == root or name.startswith(_folder_prefix(root))
    with _norm_name(x) = normpath(x.replace('\\','/')).replace('\\','/').casefold() and
    _folder_prefix(f) = (g + '/' if g else '') for g = ('' if f == '.' else f).rstrip('/').
    The comparison is component-wise, but on case-folded strings, while the path handed to the OS is the unfolded one:
    on a case-sensitive disk a sibling that differs from the root (or from an ancestor of it) only in case is outside
    and is let through. *)
Definition norm_name (x : sx) : sx := SFold (SUnbs (SNorm (SUnbs x))).
Definition folder_prefix (f : sx) : sx :=
  let g := SRStrip (SIfEq f (SLit [dotc]) (SLit []) f) in SIfEmpty g (SLit []) (SCat g sepl).
Definition guard_casefold : gx :=
  GAnd GConstrain (GAnd (GNot (GEq (norm_name SAbs) (norm_name SRoot)))
                        (GNot (GStarts (norm_name SAbs) (folder_prefix (norm_name SRoot))))).
(** the same test on the strings themselves (what the helpers compute when nothing is folded) is the sound form *)
Definition guard_folder_prefix_unfolded : gx :=
  GAnd GConstrain (GAnd (GNot (GEq SAbs SRoot)) (GNot (GStarts SAbs (folder_prefix SRoot)))).

Theorem casefold_guard_refuted :
  raise_sound guard_casefold = false /\
  raise_sound guard_folder_prefix_unfolded = true /\
  (exists cwd root_arg path a,
    is_abs cwd = true /\ resolve guard_casefold true cwd root_arg path = Ok a /\
    ~ seg_prefix (segs (abspath cwd root_arg)) (segs a)) /\
  (* an ancestor that differs in case only, reached by an absolute name *)
  resolve guard_casefold true (s2l "/w") (s2l "/t/Content/maps") (s2l "/t/content/maps/secret.txt")
    = Ok (s2l "/t/content/maps/secret.txt") /\
  (* what the fault keeps refusing: other siblings, the sibling whose name extends the root's, the parent *)
  resolve guard_casefold true (s2l "/w") (s2l "/t/Maps") (s2l "../other/x") = Escape /\
  resolve guard_casefold true (s2l "/w") (s2l "/t/Maps") (s2l "../Maps_backup/x") = Escape /\
  resolve guard_casefold true (s2l "/w") (s2l "/t/Maps") (s2l "..") = Escape /\
  resolve guard_casefold true (s2l "/w") (s2l "/t/Maps") (s2l "sub/x.txt") = Ok (s2l "/t/Maps/sub/x.txt") /\
  (* the unfolded comparison refuses the case variants *)
  resolve guard_folder_prefix_unfolded true (s2l "/w") (s2l "/t/Maps") (s2l "../maps/secret.txt") = Escape /\
  resolve guard_folder_prefix_unfolded true (s2l "/w") (s2l "/t/Maps") (s2l "..\MAPS\secret.txt")
    = Ok (s2l "/t/Maps/..\MAPS\secret.txt").
Proof.
  split; [reflexivity|]. split; [reflexivity|]. split.
  - exists (s2l "/w"), (s2l "/t/Maps"), (s2l "../maps/secret.txt"), (s2l "/t/maps/secret.txt").
    split; [reflexivity|]. split; [vm_compute; reflexivity|].
    intros H. apply seg_prefixb_spec in H. vm_compute in H. discriminate.
  - vm_compute. repeat split.
Qed.

(** Round 5: a transformation the guard language has no meaning for is written down as [SOpaque name x] and never
    accepted, wherever it stands — also where the recogniser [ok_when] would not have looked (second example). *)
Definition guard_strip_eq : gx :=
  GAnd GConstrain (GAnd (GNot (GEq (SOpaque (s2l "strip") SAbs) SRoot))
                        (GNot (GStarts SAbs (SCat (SRStrip SRoot) sepl)))).
Theorem opaque_never_accepted :
  (forall g, raise_sound g = true -> gx_plain g = true /\ ok_when false g = true) /\
  raise_sound guard_strip_eq = false /\
  (let g := GNot (GAnd (GEq SAbs SRoot) (GEq (SOpaque (s2l "realpath") SAbs) SRoot)) in
   ok_when false g = true /\ raise_sound g = false).
Proof.
  split; [|split; [reflexivity|split; reflexivity]].
  intros g H. unfold raise_sound in H. now apply andb_true_iff in H.
Qed.

(** Non-vacuity: the sound forms do serve files inside the root (and the root itself). *)
Lemma sound_forms_serve_inside :
  resolve guard_rstrip_sep true (s2l "/w") (s2l "/t/root/") (s2l "sub/../in.txt") = Ok (s2l "/t/root/in.txt") /\
  resolve guard_rstrip_sep true (s2l "/w") (s2l "/") (s2l "etc/x") = Ok (s2l "/etc/x") /\
  resolve guard_rstrip_sep true (s2l "/w") (s2l "t/root") (s2l "") = Ok (s2l "/w/t/root") /\
  resolve guard_commonpath true (s2l "/w") (s2l "/t/root") (s2l "/t/root/a\..\b") = Ok (s2l "/t/root/a\..\b") /\
  resolve guard_rstrip_sep true (s2l "/w") (s2l "/t/root") (s2l "../root_evil/secret.txt") = Escape /\
  resolve guard_rstrip_sep true (s2l "/w") (s2l "/t/root") (s2l "/t/root_evil/secret.txt") = Escape /\
  resolve guard_rstrip_sep true (s2l "/w") (s2l "/t/root") (s2l "..") = Escape.
Proof. vm_compute. repeat split. Qed.

(** ---------------------------------------------------------------- unify_path *)
Close Scope string_scope.
Open Scope list_scope.
Definition dd : str := [dotc; dotc].
Definition dd_only_last (l : list str) : Prop := forall l1 l2, l = l1 ++ dd :: l2 -> l2 = [].

Lemma is_dotdot_eq c : is_dotdot c = true <-> c = dd.
Proof. apply str_eqb_eq. Qed.

Lemma split_cons2 r : forall h d t, split r = h :: d :: t -> exists v, r = h ++ sep :: v.
Proof.
  induction r as [|c r IH]; intros h d t H; [discriminate|].
  cbn [split] in H. destruct (is_sep c) eqn:Ec.
  - apply is_sep_true in Ec. subst. inversion H; subst. now exists r.
  - destruct (split r) as [|h' t'] eqn:Er; [discriminate|]. inversion H; subst.
    destruct (IH h' d t eq_refl) as [v ->]. now exists v.
Qed.

(** In a string without the substring "../", a '..' component can only be the last one. *)
Lemma no_parent_ref_split s : has_parent_ref s = false -> dd_only_last (split s).
Proof.
  induction s as [|c r IH]; intros H l1 l2 E.
  - cbn [split] in E. destruct l1 as [|x l1]; [discriminate|]. inversion E. now destruct l1.
  - cbn [has_parent_ref] in H. apply orb_false_iff in H as [H1 H2]. cbn [split] in E.
    destruct (is_sep c) eqn:Ec.
    + destruct l1 as [|x l1]; [discriminate|]. inversion E; subst. now apply (IH H2 l1 l2).
    + destruct (split r) as [|h t] eqn:Er; [now apply split_nonnil in Er|].
      destruct l1 as [|x l1].
      * cbn [app] in E. inversion E; subst. destruct l2 as [|d t']; [reflexivity|]. exfalso.
        destruct (split_cons2 r _ _ _ Er) as [v Hv]. subst r. cbn in H1. discriminate.
      * cbn [app] in E. inversion E; subst. apply (IH H2 (h :: l1) l2). reflexivity.
Qed.

Lemma filter_mid {A} (f : A -> bool) l : forall a x b, filter f l = a ++ x :: b ->
  exists a' b', l = a' ++ x :: b' /\ filter f b' = b.
Proof.
  induction l as [|y l IH]; intros a x b H; [now destruct a|].
  cbn [filter] in H. destruct (f y) eqn:Ey.
  - destruct a as [|z a].
    + cbn [app] in H. inversion H; subst. now exists [], l.
    + cbn [app] in H. inversion H; subst. destruct (IH _ _ _ H2) as (a' & b' & -> & Hb).
      now exists (z :: a'), b'.
  - destruct (IH _ _ _ H) as (a' & b' & -> & Hb). now exists (y :: a'), b'.
Qed.

Lemma dd_only_last_filter f l : dd_only_last l -> dd_only_last (filter f l).
Proof.
  intros H l1 l2 E. destruct (filter_mid f l _ _ _ E) as (a' & b' & Hl & Hb).
  rewrite (H _ _ Hl) in Hb. now subst.
Qed.

Lemma dd_only_last_tl c r : dd_only_last (c :: r) -> dd_only_last r.
Proof. intros H l1 l2 E. apply (H (c :: l1) l2). now rewrite E. Qed.

Lemma stays_below_S l : forall d, dd_only_last l -> stays_below (S d) l = true.
Proof.
  induction l as [|c r IH]; intros d H; [reflexivity|]. cbn [stays_below].
  destruct (is_dotdot c) eqn:Ec.
  - apply is_dotdot_eq in Ec. subst. rewrite (H [] r eq_refl). reflexivity.
  - apply IH. now apply dd_only_last_tl in H.
Qed.

Lemma stays_below_0 l : dd_only_last l -> stays_below 0 l = true \/ l = [dd].
Proof.
  destruct l as [|c r]; intros H; [now left|]. cbn [stays_below].
  destruct (is_dotdot c) eqn:Ec.
  - apply is_dotdot_eq in Ec. subst. rewrite (H [] r eq_refl). now right.
  - left. apply stays_below_S. now apply dd_only_last_tl in H.
Qed.

Lemma lstrip_decomp s : exists t, s = t ++ lstrip_sep s /\ Forall (fun c => is_sep c = true) t.
Proof.
  induction s as [|c r (t & Hr & Ht)]; [now exists []|]. cbn [lstrip_sep].
  destruct (is_sep c) eqn:Ec.
  - exists (c :: t). split; [cbn [app]; now rewrite <- Hr | now constructor].
  - now exists [].
Qed.

Lemma segs_lstrip s : segs (lstrip_sep s) = segs s.
Proof.
  destruct (lstrip_decomp s) as (t & Hs & Ht). rewrite Hs at 2. clear Hs.
  induction Ht as [|c t Hc _ IH]; [reflexivity|]. apply is_sep_true in Hc. subst.
  cbn [app]. now rewrite segs_sep_cons.
Qed.

(** unify_path: an accepted pack path never steps above the directory it is relative to, except for the
    bare '..' (which names the parent directory itself; recorded as an observation in docs/C18.md). *)
Theorem unify_path_no_parent p r : unify_path p = Some r ->
  stays_below 0 (segs r) = true \/ segs r = [dd].
Proof.
  unfold unify_path. destruct (has_parent_ref (unbackslash (normpath p))) eqn:E; [discriminate|].
  intros H. inversion H; subst. rewrite segs_lstrip. apply stays_below_0.
  unfold segs. apply dd_only_last_filter. now apply no_parent_ref_split.
Qed.

(** The carved-out corner is real: unify_path("..") = ".." . *)
Lemma unify_path_bare_parent : unify_path dd = Some dd.
Proof. reflexivity. Qed.

(** ---------------------------------------------------------------- what "never steps above" means *)
(** [stays_below d l]: starting [d] levels below a base directory, following [l] never leaves the base: the walk
    ends in the base or below it, whatever the base is. *)
Lemma stays_below_follow l : forall d (pre base : list str),
  stays_below d l = true -> List.length pre = d ->
  exists extra, follow (pre ++ base) l = Some (extra ++ base).
Proof.
  induction l as [|c r IH]; intros d pre base H Hl; cbn [stays_below follow] in *.
  - now exists pre.
  - destruct (is_dotdot c).
    + destruct d as [|d']; [discriminate|]. destruct pre as [|x pre']; [discriminate|].
      cbn [app]. apply (IH d' pre' base H). now inversion Hl.
    + apply (IH (S d) (c :: pre) base H). cbn [List.length]. now rewrite Hl.
Qed.

(** unify_path, semantically: an accepted pack path followed from ANY base directory ends in that directory or
    below it and never leaves it on the way -- except the bare '..' corner, which is exactly the parent. *)
Theorem unify_path_follows_below_base p r : unify_path p = Some r ->
  (forall base : list str, exists extra, follow base (segs r) = Some (extra ++ base))
  \/ (segs r = [dd] /\ forall b base, follow (b :: base) (segs r) = Some base).
Proof.
  intros H. destruct (unify_path_no_parent p r H) as [Hs|Hc].
  - left. intros base. exact (stays_below_follow (segs r) 0 [] base Hs eq_refl).
  - right. split; [exact Hc|]. intros b base. rewrite Hc. reflexivity.
Qed.

(** '..' can only be the LAST segment of an accepted pack path (stronger than the depth statement). *)
Theorem unify_path_dotdot_only_last p r : unify_path p = Some r -> dd_only_last (segs r).
Proof.
  unfold unify_path. destruct (has_parent_ref (unbackslash (normpath p))) eqn:E; [discriminate|].
  intros H. inversion H; subst. rewrite segs_lstrip.
  unfold segs. apply dd_only_last_filter. now apply no_parent_ref_split.
Qed.

(** The two cases of [unify_path_no_parent] exclude each other, and both occur. *)
Lemma unify_path_corner_exclusive l : l = [dd] -> stays_below 0 l = false.
Proof. intros ->. reflexivity. Qed.

Lemma unify_path_cases_occur :
  unify_path (s2l "a\..") = Some (s2l "a/..") /\
  stays_below 0 (segs (s2l "a/..")) = true /\ unify_path (s2l "a\..\b") = None /\
  unify_path (s2l ".\..") = Some (s2l "./..") /\ segs (s2l "./..") = [dd] /\
  unify_path (s2l "..\..") = None /\ unify_path (s2l "a/../../b") = None.
Proof. vm_compute. repeat split. Qed.
