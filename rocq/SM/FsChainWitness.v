(** C19 — concrete configurations (the forms translated from the pinned tree, the repaired forms) and the
    kernel-computed witnesses that refute the unsound forms. *)
From Coq Require Import List NArith Bool Permutation.
From SV Require Import SM.FsChain SM.FsChainProofs.
Import ListNotations.
Open Scope N_scope.

Definition pinned_virtual : backend := {|
  b_store := [ONorm; OSlash; OFold]; b_get := [ONorm; OSlash; OFold]; b_exists := [ONorm; OSlash; OFold];
  b_open := [ONorm; OSlash; OFold]; b_wsrc := WDict; b_wfolder := [ONorm; OSlash; OFold]; b_wsubj := SOrig; b_wsubj_ops := [] |}.
Definition pinned_zip : backend := {|
  b_store := [OFold]; b_get := [OSlash; OFold]; b_exists := [OSlash; OFold]; b_open := [OSlash; OFold];
  b_wsrc := WDict; b_wfolder := [OSlash; OFold]; b_wsubj := SKey; b_wsubj_ops := [] |}.
Definition pinned_vpk : backend := {|
  b_store := [OSlash; OFold]; b_get := [OFold; OSlash]; b_exists := [OFold; OSlash]; b_open := [OFold; OSlash];
  b_wsrc := WDict; b_wfolder := [OSlash]; b_wsubj := SDir; b_wsubj_ops := [] |}.

Definition s_mat : str := [109; 97; 116].                                (* "mat" *)
Definition s_materials_x : str := [109; 97; 116; 101; 114; 105; 97; 108; 115; 47; 120].   (* "materials/x" *)
Definition s_Mat_x : str := [77; 97; 116; 47; 120].                       (* "Mat/x" *)

Definition fixed_virtual : backend := {|
  b_store := [OSlash; ONorm; OSlash; OFold]; b_get := [OSlash; ONorm; OSlash; OFold];
  b_exists := [OSlash; ONorm; OSlash; OFold]; b_open := [OSlash; ONorm; OSlash; OFold];
  b_wsrc := WDict; b_wfolder := [OSlash; ONorm; OSlash; OFold; ODotEmpty; ORStrip; OAddSlash]; b_wsubj := SKey; b_wsubj_ops := [] |}.
Definition fixed_zip : backend := {|
  b_store := [OFold]; b_get := [OSlash; OSlash; ONorm; OSlash; OFold]; b_exists := [OSlash; ONorm; OSlash; OFold];
  b_open := [OSlash; OSlash; ONorm; OSlash; OFold];
  b_wsrc := WDict; b_wfolder := [OSlash; ONorm; OSlash; OFold; ODotEmpty; ORStrip; OAddSlash]; b_wsubj := SKey; b_wsubj_ops := [] |}.
(** the repaired forms of round 1 (Virtual normalising on '/' only, Zip without normpath) stay sound for walks *)
Definition round1_virtual : backend := {|
  b_store := [ONorm; OSlash; OFold]; b_get := [ONorm; OSlash; OFold]; b_exists := [ONorm; OSlash; OFold];
  b_open := [ONorm; OSlash; OFold];
  b_wsrc := WDict; b_wfolder := [ONorm; OSlash; OFold; ODotEmpty; ORStrip; OAddSlash]; b_wsubj := SKey; b_wsubj_ops := [] |}.
Definition round1_zip : backend := {|
  b_store := [OFold]; b_get := [OSlash; OFold]; b_exists := [OSlash; OFold]; b_open := [OSlash; OFold];
  b_wsrc := WDict; b_wfolder := [OSlash; OFold; ORStrip; OAddSlash]; b_wsubj := SKey; b_wsubj_ops := [] |}.

Lemma order_matters_for_case_duplicates : exists fs fs' q,
  Permutation fs fs' /\ clean_fs fs = true /\ spec_lookup fs q <> spec_lookup fs' q.
Proof.
  exists [([97], [1]); ([65], [2])], [([65], [2]); ([97], [1])], [97].
  split; [apply perm_swap|]. split; [reflexivity|]. vm_compute. discriminate.
Qed.

Lemma walk_plain_prefix_refuted :
  forall b, In b [pinned_virtual; pinned_zip; pinned_vpk] ->
  folder_plain_prefix b = true
  /\ In (s_materials_x, []) (walk b [(s_materials_x, [])] s_mat)
  /\ ~ path_prefix s_mat (nkey s_materials_x).
Proof.
  assert (N : ~ path_prefix s_mat (nkey s_materials_x)).
  { intros [H|[r H]]; [discriminate|]. vm_compute in H. discriminate. }
  intros b [<-|[<-|[<-|[]]]]; (split; [reflexivity|]); (split; [vm_compute; left; reflexivity|exact N]).
Qed.

Lemma walk_virtual_root_refuted :
  folder_root_is_dot pinned_virtual = true /\ walk pinned_virtual [(s_materials_x, [])] [] = [].
Proof. split; reflexivity. Qed.

Lemma walk_case_sensitive_refuted :
  forall b, In b [pinned_virtual; pinned_vpk] ->
  walk b [(s_Mat_x, [])] s_mat = [] /\ lookup b [(s_Mat_x, [])] (s_mat ++ [47; 120]) = Some (s_Mat_x, []).
Proof. intros b [<-|[<-|[]]]; split; reflexivity. Qed.

Lemma premises_satisfiable :
  walk_ok fixed_virtual = true /\ backend_keys_ok fixed_virtual = true
  /\ walk_ok fixed_zip = true /\ backend_keys_ok fixed_zip = true
  /\ clean_fs [(s_materials_x, [1]); (s_Mat_x, [2])] = true
  /\ walk fixed_virtual [(s_materials_x, [1]); (s_Mat_x, [2])] s_mat = [(s_Mat_x, [2])]
  /\ walk fixed_zip [(s_materials_x, [1]); (s_Mat_x, [2])] [] = [(s_materials_x, [1]); (s_Mat_x, [2])].
Proof. repeat split; reflexivity. Qed.

Lemma round1_forms_ok :
  walk_ok round1_virtual = true /\ backend_keys_ok round1_virtual = true
  /\ walk_ok round1_zip = true /\ backend_keys_ok round1_zip = true
  /\ backend_keys_norm round1_virtual = false /\ backend_keys_norm round1_zip = false
  /\ backend_keys_norm fixed_virtual = true /\ backend_keys_norm fixed_zip = true.
Proof. repeat split; reflexivity. Qed.

Lemma lookup_unnormalised_refuted :
  let fs := [([120], [1])] in
  lookup pinned_virtual fs [46; 47; 120] = Some ([120], [1]) /\ lookup pinned_zip fs [46; 47; 120] = None
  /\ lookup pinned_vpk fs [46; 47; 120] = None /\ lookup pinned_virtual fs [46; 92; 120] = None
  /\ backend_keys_norm pinned_virtual = false /\ backend_keys_norm pinned_zip = false
  /\ backend_keys_norm fixed_virtual = true /\ lookup fixed_virtual fs [46; 92; 120] = Some ([120], [1]).
Proof. repeat split; reflexivity. Qed.

Lemma chain_relpath_case_refuted :
  let m := member_of fixed_zip [([109; 97; 116; 47; 120], [])] [77; 97; 116] in
  map fst (chain_walk_repeat RelPath [m] []) = [[46; 46; 47; 109; 97; 116; 47; 120]]
  /\ map fst (chain_walk_repeat RelDropSegs [m] []) = [[120]].
Proof. split; reflexivity. Qed.


(** ** round 2: shapes of [walk_folder] that the translator recognises but that are unsound *)

(** VPKFileSystem.walk_folder looping over [self.vpk.fileinfos(folder=folder.rstrip('/'))] and then testing the
    case-folded file name: the container compares its directory names as stored. *)
Definition prefilter_vpk : backend := {|
  b_store := [OSlash; OFold]; b_get := [OFold; OSlash]; b_exists := [OFold; OSlash]; b_open := [OFold; OSlash];
  b_wsrc := WCont (Some [OSlash; OFold; ORStrip; OAddSlash; ORStrip]);
  b_wfolder := [OSlash; OFold; ORStrip; OAddSlash]; b_wsubj := SOrig; b_wsubj_ops := [OFold] |}.
(** ... and looping over the container itself (no pre-filter): every stored file is visited, also those the folded
    dictionary dropped. *)
Definition container_vpk : backend := {|
  b_store := [OSlash; OFold]; b_get := [OFold; OSlash]; b_exists := [OFold; OSlash]; b_open := [OFold; OSlash];
  b_wsrc := WCont None;
  b_wfolder := [OSlash; OFold; ORStrip; OAddSlash]; b_wsubj := SOrig; b_wsubj_ops := [OFold] |}.

Lemma walk_prefilter_case_refuted :
  prefilter_case_sensitive prefilter_vpk = true /\ walk_ok prefilter_vpk = false
  /\ walk prefilter_vpk [(s_Mat_x, [])] s_mat = []
  /\ lookup prefilter_vpk [(s_Mat_x, [])] (s_mat ++ [47; 120]) = Some (s_Mat_x, [])
  /\ walk prefilter_vpk [(s_Mat_x, [])] [] = [(s_Mat_x, [])].
Proof. repeat split; reflexivity. Qed.

Lemma walk_container_duplicates_refuted :
  walk_ok container_vpk = false
  /\ walk container_vpk [(s_Mat_x, [1]); (s_mat ++ [47; 120], [2])] s_mat = [(s_Mat_x, [1]); (s_mat ++ [47; 120], [2])]
  /\ lookup container_vpk [(s_Mat_x, [1]); (s_mat ++ [47; 120], [2])] s_Mat_x = Some (s_mat ++ [47; 120], [2]).
Proof. repeat split; reflexivity. Qed.

(** De-duplication by unconditional dict store: the name is listed once, at the position of the first member, but with
    the File of the last one - which is not what the chain's lookup returns. *)
Lemma chain_walk_overwrite_refuted :
  let m1 := member_of fixed_zip [([120], [1])] [] in
  let m2 := member_of fixed_zip [([120], [2])] [] in
  chain_walk_mode DedupOverwrite RelDropSegs [OFold] [m1; m2] [] = [([120], ([120], [2]))]
  /\ chain_get [m1; m2] [120] = Some ([120], [1])
  /\ chain_walk_mode DedupSkip RelDropSegs [OFold] [m1; m2] [] = [([120], ([120], [1]))].
Proof. repeat split; reflexivity. Qed.

(** Today's [add_sys] (priority: insert(0, ...), otherwise append) is [add_sys 0]; with the branches swapped a
    priority member is consulted last. *)
Lemma add_sys2_today priority m ms : add_sys2 (InsertAt 0) Append priority m ms = add_sys 0 priority m ms.
Proof. destruct priority; reflexivity. Qed.
Lemma add_sys2_swapped_refuted :
  let m1 := member_of fixed_zip [([120], [1])] [] in
  let m2 := member_of fixed_zip [([120], [2])] [] in
  chain_get (add_sys2 Append (InsertAt 0) true m2 [m1]) [120] = Some ([120], [1])
  /\ chain_get (add_sys2 (InsertAt 0) Append true m2 [m1]) [120] = Some ([120], [2]).
Proof. split; reflexivity. Qed.
