(** Readers that change, in place, objects of a view they look at (round 3; hidden mutations).

    [_lmp_read_bmodels] takes the "model" key out of the brush entities of the CACHED [ents] view (the brush model is
    reachable through [bsp.bmodels[ent]] instead); [_lmp_write_bmodels] looks at [ents] again and puts the keys back
    before it serialises; [bmodels] precedes [ents] in the rebuild order, so the entity lump is written with the keys.
    In [LazyLumps.getf] a look leaves the cached values of the views the reader looked at unchanged.  Here:

    - [mdeps v]: the views whose cached value the reader of [v] changes ([mut v d]), once its own parse has succeeded;
    - the writer of [v], after it looked at its dependencies, undoes the change ([unmut v d]) and then serialises;
    - [early = true] models a reader that changes the objects BEFORE it can still raise (the defect repaired by fix
      477021c): the change stays although nothing is cached for [v].

    Result ([mut_save_equiv], [mut_save_lossless]): if [early = false], every mutated view is looked at by both the
    reader and the writer of the mutating view ([mdeps v] within [v_rdeps] and [v_wdeps]), no two views change the
    same view, and [unmut v d (mut v d p) = p] for the values [p] parsed from this file, then for every order-consistent graph, every ok shape and all access
    sequences (looks that raise included) saving in the mutating machine completes exactly when it does in the plain
    one and leaves the same lumps and the same (empty) cache — so it is lossless under the hypotheses of the main
    theorem.  The proof is a simulation: the mutating state is the plain state with [mut w x] applied to the cached value
    of [x] for the (unique) cached — or, during its writer, just popped — view [w] that mutates [x] ([R]); [C] says the
    views a cached view mutates are cached too.

    Closed counterexamples: [early = true] (a look that raises leaves the change behind: the entity lump is written
    without the keys), and a writer that does not undo the change. *)
From Coq Require Import List Arith Bool Lia.
From SV Require Import SM.LazyLumps SM.LazyLumpsProofs SM.LazyLumpsCond SM.LazyLumpsSide.
Import ListNotations.

Section Mut.
  Variables D P : Type.
  Variable empty : D.
  Variable rd : nat -> list D -> option P.
  Variable wr : nat -> P -> list D.
  Variable g : graph.
  Variable sh : shape.
  Variable mdeps : nat -> list nat.               (* views whose cached value the reader of v changes in place *)
  Variable mut unmut : nat -> nat -> P -> P.       (* the change made by the reader of v to the value of d / undone by its writer *)
  Variable early : bool.                           (* the change is made before the reader's last statement that can raise *)

  Notation nviews := (nviews g).
  Notation decl := (decl g).
  Notation own := (own g).
  Notation state := (state D P).
  Notation look_all := (look_all D P).
  Notation getf := (getf D P empty rd g sh).
  Notation get := (get D P empty rd g sh).
  Notation run := (run D P empty rd g sh).
  Notation clear_lumps := (clear_lumps D P empty).
  Notation set_cache := (set_cache D P).
  Notation pre_clear := (pre_clear D P empty g sh).
  Notation parse_input := (parse_input D P g).
  Notation save_step := (save_step D P empty rd wr g sh).
  Notation save := (save D P empty rd wr g sh).

  Definition app_cache (f : nat -> nat -> P -> P) (v : nat) (s : state) : state :=
    mkS (raw s) (fun x => if mem x (mdeps v) then option_map (f v x) (cache s x) else cache s x).

  (** ParsedLump.__get__ with a reader that changes cached values of the views it looked at. *)
  Fixpoint getf_m (fuel : nat) (v : nat) (s : state) : bool * state :=
    match fuel with
    | 0 => (false, s)
    | S f =>
        if v <? nviews then
          match cache s v with
          | Some _ => (true, s)
          | None =>
              let r := look_all (getf_m f) (v_rdeps (decl v)) (pre_clear v s) in
              if fst r then
                let q := if early then app_cache mut v (snd r) else snd r in
                match rd v (parse_input s (snd r) v) with
                | Some p => (true, (if early then (fun x => x) else app_cache mut v) (clear_lumps (own v) (set_cache v (Some p) q)))
                | None => (false, q)
                end
              else r
          end
        else (false, s)
    end.
  Definition get_m : nat -> state -> bool * state := getf_m nviews.
  Definition run_m (accs : list nat) (s : state) : state := fold_left (fun s v => snd (get_m v s)) accs s.

  (** One iteration of the loop of BSP.save: the writer looks at its dependencies, undoes its reader's changes, serialises. *)
  Definition save_step_m (acc : bool * state) (v : nat) : bool * state :=
    if fst acc then
      let s := snd acc in
      match cache s v with
      | None => acc
      | Some p =>
          let s1 := set_cache v None s in
          let r := look_all get_m (v_wdeps (decl v)) s1 in
          if fst r then
            let s2 := app_cache unmut v (snd r) in
            let p' := if mem v (v_wdeps (decl v)) then match cache s2 v with Some q => q | None => p end else p in
            (true, mkS (store_sel D (v_wstore (decl v)) (own v) (wr v p') (raw s2)) (cache s2))
          else r
      end
    else acc.
  Definition save_m (s : state) : bool * state := fold_left save_step_m (save_todo D P g sh s) (true, s).

  (** ---------------------------------------------------------------- facts about the plain machine *)
  Lemma getf_mono : forall x f v (s : state), cache s x <> None -> cache (snd (getf f v s)) x <> None.
  Proof.
    intros x. induction f as [|f IH]; intros v s Hs; cbn [getf LazyLumps.getf]; [exact Hs|].
    destruct (v <? nviews); [|exact Hs]. destruct (cache s v); [exact Hs|].
    assert (Hpre : cache (pre_clear v s) x <> None).
    { unfold LazyLumps.pre_clear. destruct (sh_early_main sh || sh_early_extra sh); exact Hs. }
    pose proof (look_all_pres D P (fun s' => cache s' x <> None) (getf f) (v_rdeps (decl v)) (fun d s' _ => IH d s') _ Hpre) as H1.
    destruct (look_all (getf f) (v_rdeps (decl v)) (pre_clear v s)) as [b q]. cbn [fst snd] in *.
    destruct b; [|exact H1]. destruct (rd v _); cbn [fst snd]; [|exact H1].
    cbn [cache LazyLumps.clear_lumps LazyLumps.set_cache]. unfold upd. destruct (Nat.eqb x v); [discriminate | exact H1].
  Qed.

  Lemma getf_caches : forall f v (s : state), fst (getf f v s) = true -> cache (snd (getf f v s)) v <> None.
  Proof.
    intros [|f] v s; cbn [getf LazyLumps.getf]; [discriminate|].
    destruct (v <? nviews); [|discriminate]. destruct (cache s v) eqn:E; [intros _; cbn [snd]; congruence|].
    destruct (look_all (getf f) (v_rdeps (decl v)) (pre_clear v s)) as [b q]. cbn [fst snd].
    destruct b; [|discriminate]. destruct (rd v _); cbn [fst snd]; [intros _|discriminate].
    cbn [cache LazyLumps.clear_lumps LazyLumps.set_cache]. unfold upd. rewrite Nat.eqb_refl. discriminate.
  Qed.

  Lemma look_all_all_cached : forall f ds (s : state), fst (look_all (getf f) ds s) = true ->
    forall d, In d ds -> cache (snd (look_all (getf f) ds s)) d <> None.
  Proof.
    intros f. induction ds as [|a ds IH]; intros s Ht d Hd; [destruct Hd|]. cbn [LazyLumps.look_all] in *.
    pose proof (getf_caches f a s) as Hc. destruct (getf f a s) as [b q]. cbn [fst snd] in *.
    destruct b; [|discriminate]. destruct Hd as [<-|Hd]; [|exact (IH q Ht d Hd)].
    apply (look_all_pres D P (fun s' => cache s' a <> None) (getf f) ds); [|exact (Hc eq_refl)].
    intros d' s' _ Hs'. now apply getf_mono.
  Qed.

  Definition cached (s : state) (w : nat) : Prop := cache s w <> None.
  (** The views whose changes are in force: the cached ones and the one whose writer is running. *)
  Definition mutr (e : option nat) (s : state) (w : nat) : Prop := cached s w \/ e = Some w.
  Definition R (e : option nat) (s' s : state) : Prop :=
    (forall l, raw s' l = raw s l) /\
    (forall x, match cache s x with
               | None => cache s' x = None
               | Some p => cache s' x <> None /\
                           (forall w, mutr e s w -> In x (mdeps w) -> cache s' x = Some (mut w x p)) /\
                           ((forall w, mutr e s w -> ~ In x (mdeps w)) -> cache s' x = Some p)
               end).
  Definition C (e : option nat) (s : state) : Prop := forall w d, mutr e s w -> In d (mdeps w) -> cached s d.

  Lemma look_all_sim : forall e (look' look : nat -> state -> bool * state) ds,
    (forall d a b, In d ds -> R e a b -> C e b ->
       fst (look' d a) = fst (look d b) /\ R e (snd (look' d a)) (snd (look d b)) /\ C e (snd (look d b))) ->
    forall a b, R e a b -> C e b ->
    fst (look_all look' ds a) = fst (look_all look ds b) /\ R e (snd (look_all look' ds a)) (snd (look_all look ds b)) /\
    C e (snd (look_all look ds b)).
  Proof.
    intros e look' look. induction ds as [|d ds IH]; intros H a b HR HC; cbn [LazyLumps.look_all].
    - split; [reflexivity | split; assumption].
    - destruct (H d a b (or_introl eq_refl) HR HC) as (Hf & HR1 & HC1).
      destruct (look' d a) as [x a1], (look d b) as [y b1]. cbn [fst snd] in *. subst x.
      destruct y; [|split; [reflexivity | split; assumption]].
      apply IH; [|assumption|assumption]. intros d' a' b' Hd'. apply H. now right.
  Qed.

  Section Consistent.
    Hypothesis OC : order_consistent g = true.
    Hypothesis SH : shape_ok sh = true.
    Hypothesis Hearly : early = false.
    Hypothesis Hsub : forall v d, In d (mdeps v) -> In d (v_rdeps (decl v)) /\ In d (v_wdeps (decl v)).
    Hypothesis Huniq : forall v w x, In x (mdeps v) -> In x (mdeps w) -> v = w.
    Variable s0 : state.
    (* on the values parsed from this file the writer's undo restores what the reader changed *)
    Hypothesis Hundo : forall v d p, In d (mdeps v) -> d < nviews -> rd d (own_data D P g s0 d) = Some p ->
      unmut v d (mut v d p) = p.
    Hypothesis Hlen : wr_len_ok D P rd wr g s0.
    Notation Inv := (Inv D P rd wr g s0 (fun _ => True)).

    Lemma mdeps_gt : forall w d, In d (mdeps w) -> w < d.
    Proof.
      intros w d Hin. destruct (Hsub w d Hin) as [Hr _]. destruct (Nat.lt_ge_cases w nviews) as [Hw|Hw].
      - destruct (deps_gt g OC w d Hw (in_or_app _ _ _ (or_introl Hr))). lia.
      - unfold LazyLumps.decl in Hr. rewrite nth_overflow in Hr by exact Hw. destruct Hr.
    Qed.

    Lemma look_all_below : forall w f ds (s : state), (forall d, In d ds -> w < d) ->
      cache (snd (look_all (getf f) ds s)) w = cache s w.
    Proof.
      intros w f ds s H. apply (look_all_pres D P (fun s' => cache s' w = cache s w) (getf f) ds); [|reflexivity].
      intros d s' Hd Hs'. rewrite (getf_cache_below D P empty rd g sh OC w f d s' (H d Hd)). exact Hs'.
    Qed.

    (** The step "cache the parsed value, clear the lumps, change the looked-at views". *)
    Lemma cache_step_sim : forall e v p (q' q : state), v < nviews -> (forall k, e = Some k -> k < v) ->
      R e q' q -> C e q -> cache q v = None -> (forall d, In d (v_rdeps (decl v)) -> cache q d <> None) ->
      R e (app_cache mut v (clear_lumps (own v) (set_cache v (Some p) q'))) (clear_lumps (own v) (set_cache v (Some p) q)) /\
      C e (clear_lumps (own v) (set_cache v (Some p) q)).
    Proof.
      intros e v p q' q Hv He [Hr Hc] HC Hqv Hall.
      assert (Hvm : ~ In v (mdeps v)) by (intros H; pose proof (mdeps_gt v v H); lia).
      assert (Hnew : forall w, mutr e (clear_lumps (own v) (set_cache v (Some p) q)) w <-> (w = v \/ mutr e q w)).
      { intros w. unfold mutr, cached. cbn [cache LazyLumps.clear_lumps LazyLumps.set_cache]. unfold upd.
        destruct (Nat.eqb w v) eqn:E.
        - apply Nat.eqb_eq in E. subst. split; [auto | intros _; left; discriminate].
        - apply Nat.eqb_neq in E. split; [intros [H|H]; right; [left | right]; assumption|].
          intros [H|[H|H]]; [contradiction | left; assumption | right; assumption]. }
      split.
      - split.
        + intros l. cbn [raw app_cache LazyLumps.clear_lumps LazyLumps.set_cache]. destruct (mem l (own v)); [reflexivity | apply Hr].
        + intros x. cbn [cache app_cache LazyLumps.clear_lumps LazyLumps.set_cache]. unfold upd.
          destruct (Nat.eqb x v) eqn:Exv.
          * apply Nat.eqb_eq in Exv. subst x.
            assert (Hm : mem v (mdeps v) = false) by (apply mem_false; exact Hvm). rewrite Hm.
            split; [discriminate|]. split; [|reflexivity].
            intros w Hw Hin. exfalso. apply Hnew in Hw. destruct Hw as [->|Hw]; [exact (Hvm Hin)|]. exact (HC w v Hw Hin Hqv).
          * pose proof (Hc x) as Hx. destruct (cache q x) as [px|] eqn:Eqx.
            2:{ rewrite Hx. destruct (mem x (mdeps v)); reflexivity. }
            destruct Hx as (Hne & Ha & Hb).
            destruct (mem x (mdeps v)) eqn:Em.
            -- apply mem_In in Em.
               assert (Hq'x : cache q' x = Some px).
               { apply Hb. intros w Hw Hin. pose proof (Huniq _ _ _ Hin Em). subst w.
                 destruct Hw as [Hw|Hw]; [exact (Hw Hqv) | specialize (He v Hw); lia]. }
               rewrite Hq'x. cbn [option_map]. split; [discriminate|]. split.
               ++ intros w Hw Hin. rewrite (Huniq _ _ _ Hin Em). reflexivity.
               ++ intros Hno. exfalso. apply (Hno v); [apply Hnew; now left | exact Em].
            -- apply mem_false in Em. split; [exact Hne|]. split.
               ++ intros w Hw Hin. apply Hnew in Hw. destruct Hw as [->|Hw]; [contradiction|]. exact (Ha w Hw Hin).
               ++ intros Hno. apply Hb. intros w Hw. apply Hno. apply Hnew. now right.
      - intros w d Hw Hin. apply Hnew in Hw. unfold cached. cbn [cache LazyLumps.clear_lumps LazyLumps.set_cache]. unfold upd.
        destruct (Nat.eqb d v) eqn:E; [discriminate|].
        destruct Hw as [->|Hw]; [apply Hall; apply (Hsub v d Hin) | exact (HC w d Hw Hin)].
    Qed.

    (** Looking at a view in the two machines. *)
    Lemma getf_m_sim : forall e f v (s' s : state), (forall k, e = Some k -> k < v) -> R e s' s -> C e s ->
      fst (getf_m f v s') = fst (getf f v s) /\ R e (snd (getf_m f v s')) (snd (getf f v s)) /\ C e (snd (getf f v s)).
    Proof.
      intros e. induction f as [|f IH]; intros v s' s He HR HC; cbn [getf_m getf LazyLumps.getf].
      - split; [reflexivity | split; assumption].
      - destruct (v <? nviews) eqn:Ev; [|split; [reflexivity | split; assumption]].
        apply Nat.ltb_lt in Ev. pose proof (proj2 HR v) as Hv.
        destruct (cache s v) as [pv|] eqn:Ecv.
        + destruct Hv as (Hne & _). destruct (cache s' v); [|contradiction]. split; [reflexivity | split; assumption].
        + rewrite Hv. rewrite !(pre_clear_id D P empty g sh SH). rewrite Hearly.
          assert (Hdeps : forall d, In d (v_rdeps (decl v)) -> v < d).
          { intros d Hd. destruct (deps_gt g OC v d Ev (in_or_app _ _ _ (or_introl Hd))). lia. }
          destruct (look_all_sim e (getf_m f) (getf f) (v_rdeps (decl v))
                      (fun d a b Hd => IH d a b (fun k Hk => Nat.lt_trans _ _ _ (He k Hk) (Hdeps d Hd))) s' s HR HC) as (Hf & HRq & HCq).
          pose proof (look_all_below v f (v_rdeps (decl v)) s Hdeps) as Hbelow.
          pose proof (look_all_all_cached f (v_rdeps (decl v)) s) as Hall.
          destruct (look_all (getf_m f) (v_rdeps (decl v)) s') as [b' q'].
          destruct (look_all (getf f) (v_rdeps (decl v)) s) as [b q]. cbn [fst snd] in *. subst b'.
          destruct b; [|split; [reflexivity | split; assumption]].
          assert (Hin : parse_input s' q' v = parse_input s q v).
          { unfold LazyLumps.parse_input. destruct (own v) as [|m ex]; [reflexivity|]. f_equal; [apply (proj1 HR)|].
            apply map_ext. intros l. apply (proj1 HRq). }
          rewrite Hin. destruct (rd v (parse_input s q v)) as [p|]; cbn [fst snd]; [|split; [reflexivity | split; assumption]].
          split; [reflexivity|]. apply cache_step_sim; try assumption.
          * congruence.
          * exact (Hall eq_refl).
    Qed.

    Lemma run_m_sim : forall accs (s' s : state), R None s' s -> C None s ->
      R None (run_m accs s') (run accs s) /\ C None (run accs s).
    Proof.
      induction accs as [|v accs IH]; intros s' s HR HC; cbn [run_m LazyLumps.run fold_left]; [split; assumption|].
      destruct (getf_m_sim None nviews v s' s ltac:(discriminate) HR HC) as (_ & HR1 & HC1).
      exact (IH _ _ HR1 HC1).
    Qed.

    (** One iteration of the save loop in the two machines; views below [k] have been saved. *)
    Lemma save_step_m_sim : forall k (acc' acc : bool * state), k < nviews -> fst acc' = fst acc ->
      (fst acc = true -> R None (snd acc') (snd acc) /\ C None (snd acc) /\ (forall w, w < k -> cache (snd acc) w = None) /\
                         Inv k k (snd acc)) ->
      fst (save_step_m acc' k) = fst (save_step acc k) /\
      (fst (save_step acc k) = true ->
       R None (snd (save_step_m acc' k)) (snd (save_step acc k)) /\ C None (snd (save_step acc k)) /\
       (forall w, w < S k -> cache (snd (save_step acc k)) w = None) /\ Inv (S k) (S k) (snd (save_step acc k))).
    Proof.
      intros k [b' s'] [b s] Hk Hb H. cbn [fst snd] in Hb, H. subst b'.
      assert (HInvS : fst (save_step (b, s) k) = true -> Inv (S k) (S k) (snd (save_step (b, s) k))).
      { intros Ht. destruct b; [|discriminate Ht]. destruct (H eq_refl) as (_ & _ & _ & HI).
        exact (proj1 (save_step_inv D P empty rd wr g sh OC SH s0 (fun _ => True) (closed_all g) Hlen k (true, s) Hk (fun _ => HI)) Ht). }
      assert (HFold : forall st, save_step (b, s) k = (true, st) -> Inv (S k) (S k) st).
      { intros st E. rewrite E in HInvS. exact (HInvS eq_refl). }
      clear HInvS. unfold LazyLumps.save_step in HFold. cbn [fst snd] in HFold.
      unfold save_step_m, LazyLumps.save_step. cbn [fst snd].
      destruct b; [|split; [reflexivity | discriminate]].
      destruct (H eq_refl) as (HR & HC & Hlow & _).
      pose proof (proj2 HR k) as Hkx.
      destruct (cache s k) as [p|] eqn:Ec.
      2:{ rewrite Hkx. cbn [fst snd]. split; [reflexivity|]. intros _. split; [exact HR|]. split; [exact HC|].
          split; [|exact (HFold s eq_refl)].
          intros w Hw. destruct (Nat.eq_dec w k) as [->|Hne]; [exact Ec | apply Hlow; lia]. }
      destruct Hkx as (_ & _ & Hb').
      assert (Ek' : cache s' k = Some p).
      { apply Hb'. intros w [Hw|Hw] Hin; [|discriminate]. apply Hw. apply Hlow. exact (mdeps_gt w k Hin). }
      rewrite Ek'.
      assert (Hself : mem k (v_wdeps (decl k)) = false).
      { apply mem_false. intros Hin. destruct (deps_gt g OC k k Hk (in_or_app _ _ _ (or_intror Hin))). lia. }
      rewrite Hself in HFold |- *.
      assert (Hwd : forall d, In d (v_wdeps (decl k)) -> k < d).
      { intros d Hd. destruct (deps_gt g OC k d Hk (in_or_app _ _ _ (or_intror Hd))). lia. }
      (* the window: k is popped, its changes are still in force *)
      assert (Hm1 : forall w, mutr (Some k) (set_cache k None s) w <-> mutr None s w).
      { intros w. unfold mutr, cached. cbn [cache LazyLumps.set_cache]. unfold upd. destruct (Nat.eqb w k) eqn:E.
        - apply Nat.eqb_eq in E. subst w. split; [intros _; left; congruence | intros _; now right].
        - apply Nat.eqb_neq in E. split; [intros [Hw|Hw]; [now left | congruence] | intros [Hw|Hw]; [now left | discriminate]]. }
      assert (HR1 : R (Some k) (set_cache k None s') (set_cache k None s)).
      { split; [exact (proj1 HR)|]. intros x. cbn [cache LazyLumps.set_cache]. unfold upd.
        destruct (Nat.eqb x k); [reflexivity|]. pose proof (proj2 HR x) as Hx. destruct (cache s x); [|exact Hx].
        destruct Hx as (Hne & Ha & Hbb). split; [exact Hne|]. split.
        - intros w Hw. apply Ha. apply Hm1. exact Hw.
        - intros Hno. apply Hbb. intros w Hw. apply Hno. apply Hm1. exact Hw. }
      assert (HC1 : C (Some k) (set_cache k None s)).
      { intros w d Hw Hin. apply Hm1 in Hw. pose proof (HC w d Hw Hin) as Hd. unfold cached in *.
        cbn [cache LazyLumps.set_cache]. unfold upd. destruct (Nat.eqb d k) eqn:E; [|exact Hd].
        apply Nat.eqb_eq in E. subst d. exfalso. destruct Hw as [Hw|Hw]; [|discriminate].
        apply Hw. apply Hlow. exact (mdeps_gt w k Hin). }
      destruct (look_all_sim (Some k) get_m get (v_wdeps (decl k))
                  (fun d a b Hd => getf_m_sim (Some k) nviews d a b (fun k0 Hk0 => ltac:(injection Hk0 as <-; exact (Hwd d Hd))))
                  _ _ HR1 HC1) as (Hf & HRq & HCq).
      pose proof (fun w (Hw : w <= k) => look_all_below w nviews (v_wdeps (decl k)) (set_cache k None s)
                                            (fun d Hd => Nat.le_lt_trans _ _ _ Hw (Hwd d Hd))) as Hbelow.
      fold get in Hbelow.
      destruct (look_all get_m (v_wdeps (decl k)) (set_cache k None s')) as [b2' q'].
      destruct (look_all get (v_wdeps (decl k)) (set_cache k None s)) as [b2 q]. cbn [fst snd] in *. subst b2'.
      destruct b2; cbn [fst snd] in *; [|split; [reflexivity | discriminate]].
      split; [reflexivity|]. intros _.
      specialize (HFold _ eq_refl).
      assert (Hpx : forall x px, In x (mdeps k) -> cache q x = Some px -> x < nviews /\ rd x (own_data D P g s0 x) = Some px).
      { intros x px Hin Hq. destruct (Hsub k x Hin) as [Hrx _].
        destruct (deps_gt g OC k x Hk (in_or_app _ _ _ (or_introl Hrx))) as [Hkx Hxn]. split; [exact Hxn|].
        destruct HFold as (_ & _ & Hc3 & _). cbn [cache] in Hc3.
        destruct (Hc3 x ltac:(lia) Hxn) as [[Hn _]|(_ & _ & Hp)]; [congruence|]. unfold pv in Hp. congruence. }
      assert (Hqk : cache q k = None).
      { rewrite (Hbelow k (le_n k)). cbn [cache LazyLumps.set_cache]. unfold upd. now rewrite Nat.eqb_refl. }
      split; [|split].
      - split.
        + intros l. cbn [raw app_cache]. apply store_sel_ext. exact (proj1 HRq).
        + intros x. cbn [cache app_cache]. pose proof (proj2 HRq x) as Hx. destruct (cache q x) as [px|] eqn:Eqx.
          2:{ rewrite Hx. destruct (mem x (mdeps k)); reflexivity. }
          destruct Hx as (Hne & Ha & Hbb). destruct (mem x (mdeps k)) eqn:Em.
          * apply mem_In in Em. rewrite (Ha k (or_intror eq_refl) Em). cbn [option_map].
            destruct (Hpx x px Em Eqx) as [Hxn Hrx]. rewrite (Hundo k x px Em Hxn Hrx).
            split; [discriminate|]. split; [|reflexivity].
            intros w [Hw|Hw] Hin; [|discriminate]. exfalso. rewrite (Huniq _ _ _ Hin Em) in Hw. exact (Hw Hqk).
          * apply mem_false in Em. split; [exact Hne|]. split.
            -- intros w [Hw|Hw] Hin; [|discriminate]. apply Ha; [now left | exact Hin].
            -- intros Hno. apply Hbb. intros w [Hw|Hw]; [apply Hno; now left | injection Hw as <-; exact Em].
      - intros w d [Hw|Hw] Hin; [|discriminate]. exact (HCq w d (or_introl Hw) Hin).
      - split; [|exact HFold].
        intros w Hw. cbn [cache]. rewrite (Hbelow w ltac:(lia)). cbn [cache LazyLumps.set_cache]. unfold upd.
        destruct (Nat.eqb w k) eqn:E; [reflexivity|]. apply Nat.eqb_neq in E. apply Hlow. lia.
    Qed.

    Lemma save_steps_m_sim : forall m k (acc' acc : bool * state), k + m = nviews -> fst acc' = fst acc ->
      (fst acc = true -> R None (snd acc') (snd acc) /\ C None (snd acc) /\ (forall w, w < k -> cache (snd acc) w = None) /\
                         Inv k k (snd acc)) ->
      fst (fold_left save_step_m (seq k m) acc') = fst (fold_left save_step (seq k m) acc) /\
      (fst (fold_left save_step (seq k m) acc) = true ->
       R None (snd (fold_left save_step_m (seq k m) acc')) (snd (fold_left save_step (seq k m) acc))).
    Proof.
      induction m as [|m IH]; intros k acc' acc Hkm Hb H; cbn [seq fold_left].
      - split; [exact Hb|]. intros Ht. exact (proj1 (H Ht)).
      - destruct (save_step_m_sim k acc' acc ltac:(lia) Hb H) as [Hb1 H1].
        apply IH; [lia | exact Hb1 | exact H1].
    Qed.

    Hypothesis Hf : fresh D P s0.

    (** Saving in the mutating machine completes exactly when it does in the plain one, with the same lumps and cache. *)
    Theorem mut_save_equiv : forall accs,
      fst (save_m (run_m accs s0)) = fst (save (run accs s0)) /\
      (fst (save (run accs s0)) = true -> R None (snd (save_m (run_m accs s0))) (snd (save (run accs s0)))).
    Proof.
      intros accs. unfold save_m, LazyLumps.save. rewrite !(save_todo_std D P g sh SH).
      assert (HR0 : R None s0 s0).
      { split; [reflexivity|]. intros x. rewrite (Hf x). reflexivity. }
      assert (HC0 : C None s0).
      { intros w d [Hw|Hw]; [|discriminate]. exfalso. apply Hw. apply Hf. }
      destruct (run_m_sim accs s0 s0 HR0 HC0) as [HR HC].
      apply save_steps_m_sim; [lia | reflexivity|]. cbn [fst snd]. intros _. split; [exact HR|]. split; [exact HC|].
      split; [intros w Hw; lia|]. exact (inv_run_all D P empty rd wr g sh OC SH s0 accs Hf).
    Qed.

    (** Hence lossless under the hypotheses of the main theorem. *)
    Theorem mut_save_lossless : codec_ok D P rd wr g s0 -> forall accs,
      let r := save_m (run_m accs s0) in
      (fst r = true -> fresh D P (snd r) /\ same_content D P rd g (snd r) s0) /\
      (writers_can_look D P rd g s0 -> fst r = true).
    Proof.
      intros Hcodec accs. cbv zeta. destruct (mut_save_equiv accs) as [Eb HRf].
      destruct (save_lossless D P empty rd wr g sh OC SH s0 accs Hf Hlen Hcodec) as [A B]. cbv zeta in A, B.
      rewrite Eb. split; [|exact B]. intros Ht. destruct (A Ht) as [Afr [Av Au]]. destruct (HRf Ht) as [Er Ec].
      split; [|split].
      - intros v. pose proof (Ec v) as H. rewrite (Afr v) in H. exact H.
      - intros v Hv. rewrite <- (Av v Hv). f_equal. unfold LazyLumps.own_data. apply map_ext. intros l. apply Er.
      - intros l Hl. rewrite Er. apply Au, Hl.
    Qed.
  End Consistent.
End Mut.

(** ---------------------------------------------------------------------- closed instances (bmodels / ents)
    View 0 (bmodels) owns lump 0, looks at view 1 (ents, lump 1) when read and when written, and changes its value:
    the reader drops the first item (the "model" key), the writer puts 9 back in front. *)
Definition mx_rd (bad0 : bool) (v : nat) (ds : list (list nat)) : option (list nat) :=
  match ds with [m] => if (Nat.eqb v 0 && bad0)%bool then None else Some m | _ => None end.
Definition mx_wr (v : nat) (p : list nat) : list (list nat) := [p].
Definition g_mut : graph := [ mkV [0] [1] [1] [0]; mkV [1] [] [] [1] ].
Definition mx_mdeps (v : nat) : list nat := match v with 0 => [1] | _ => [] end.
Definition mx_mut (v d : nat) (p : list nat) : list nat := tl p.
Definition mx_unmut (v d : nat) (p : list nat) : list nat := 9 :: p.
Definition mx_file : state (list nat) (list nat) := mkS (fun l => if Nat.eqb l 0 then [5] else if Nat.eqb l 1 then [9; 7] else []) (fun _ => None).
Notation mx_save bad un early s := (save_m (list nat) (list nat) [] (mx_rd bad) mx_wr g_mut std_shape mx_mdeps mx_mut un early s).
Notation mx_run bad early accs s := (run_m (list nat) (list nat) [] (mx_rd bad) g_mut std_shape mx_mdeps mx_mut early accs s).

(** The hypotheses hold on the values of this file ([unmut (mut p) = p] for the entity list [9; 7]), and the history
    "look at bmodels, then at ents, save" is lossless although the user saw the entities without the key. *)
Example mut_example_lossless :
  order_consistent g_mut = true /\
  (forall v d, In d (mx_mdeps v) -> In d (v_rdeps (decl g_mut v)) /\ In d (v_wdeps (decl g_mut v))) /\
  (forall v w x, In x (mx_mdeps v) -> In x (mx_mdeps w) -> v = w) /\
  (forall v d p, In d (mx_mdeps v) -> d < nviews g_mut -> mx_rd false d (own_data (list nat) (list nat) g_mut mx_file d) = Some p ->
     mx_unmut v d (mx_mut v d p) = p) /\
  cache (mx_run false false [0; 1] mx_file) 1 = Some [7] /\
  fst (mx_save false mx_unmut false (mx_run false false [0; 1] mx_file)) = true /\
  raw (snd (mx_save false mx_unmut false (mx_run false false [0; 1] mx_file))) 1 = [9; 7] /\
  raw (snd (mx_save false mx_unmut false (mx_run false false [0; 1] mx_file))) 0 = [5].
Proof.
  split; [reflexivity|]. split; [|split; [|split; [|repeat split; reflexivity]]].
  - intros v d H. destruct v as [|v]; [|destruct H]. destruct H as [<-|[]]. split; left; reflexivity.
  - intros v w x Hv Hw. destruct v as [|v]; [|destruct Hv]. destruct w as [|w]; [reflexivity | destruct Hw].
  - intros v d p H _ Hr. destruct v as [|v]; [|destruct H]. destruct H as [<-|[]]. vm_compute in Hr. injection Hr as <-. reflexivity.
Qed.

(** [early = true] (fix 477021c): the reader of view 0 raises on this file after it changed the entities; nothing is
    cached for view 0, so its writer never runs, and the entity lump is written without the key.  With
    [early = false] the same history is lossless. *)
Example mut_before_raise_refuted :
  fst (get_m (list nat) (list nat) [] (mx_rd true) g_mut std_shape mx_mdeps mx_mut true 0 mx_file) = false /\
  cache (mx_run true true [0] mx_file) 0 = None /\ cache (mx_run true true [0] mx_file) 1 = Some [7] /\
  fst (mx_save true mx_unmut true (mx_run true true [0] mx_file)) = true /\
  raw (snd (mx_save true mx_unmut true (mx_run true true [0] mx_file))) 1 = [7] /\
  raw (snd (mx_save true mx_unmut false (mx_run true false [0] mx_file))) 1 = [9; 7].
Proof. repeat split; reflexivity. Qed.

(** A writer that does not undo its reader's change loses the key. *)
Example mut_not_undone_refuted :
  raw (snd (mx_save false (fun _ _ p => p) false (mx_run false false [0] mx_file))) 1 = [7].
Proof. reflexivity. Qed.
