(** C19, round 4 — subfolder prefixes and folder arguments that are *not* clean: "d/", "./d", "d/.", "d//e", either slash.

    A spelling [p] *spells* the clean path [p0] when it is relative, has no ".." segment and its segments, the empty and
    "." ones dropped, are the segments of [p0] (either slash).  For backends of today's form (every query function and
    the folder argument of the walk go through normpath after the slash conversion) a member mounted under [p] and walked
    as [f] behaves exactly like the member mounted under [p0] and walked as [f0]: it is asked for names with the same
    normal form, lists the same files, and the chain drops the same number of segments from a listed path.  Hence the
    composition theorems hold for such prefixes and folders as well. *)
From Coq Require Import List NArith Bool Lia.
From SV Require Import SM.FsChain SM.FsChainProofs SM.FsChainRel SM.FsChainCompose SM.FsChainNorm SM.FsChainWalkGen.
Import ListNotations.
Open Scope N_scope.

Definition segs_of (s : str) : list str := split_on SL (slash s).
(** relative (also after the slash conversion) and without ".." *)
Definition plain (s : str) : bool := negb (is_prefix [SL] (slash s)) && no_dotdot (segs_of s).
Definition spells (p p0 : str) : Prop :=
  plain p = true /\ plain p0 = true /\ denoise (segs_of p) = denoise (segs_of p0).

Lemma nosl_split s : forallb nosl (split_on SL s) = true.
Proof.
  induction s as [|x r IH]; [reflexivity|]. cbn [split_on]. destruct (N.eqb_spec x SL) as [->|Hn].
  - cbn [forallb nosl]. exact IH.
  - apply N.eqb_neq in Hn. destruct (split_on SL r) as [|h t].
    + cbn. rewrite Hn. reflexivity.
    + change (forallb nosl ((x :: h) :: t)) with (negb (x =? SL) && nosl h && forallb nosl t).
      change (forallb nosl (h :: t)) with (nosl h && forallb nosl t) in IH. rewrite Hn. exact IH.
Qed.

Lemma split_nonnil s : split_on SL s <> [].
Proof. destruct s as [|x r]; [discriminate|]. cbn [split_on]. destruct (x =? SL); [discriminate|]. destruct (split_on SL r); discriminate. Qed.

(** normpath of a relative path without "..": its segments without the empty and "." ones ("." when none is left) *)
Lemma normpath_denoise s :
  is_prefix [SL] s = false -> no_dotdot (split_on SL s) = true ->
  normpath s = match denoise (split_on SL s) with [] => S_DOT | l => join_with SL l end.
Proof.
  intros Hlead Hdd. destruct s as [|x r]; [reflexivity|].
  rewrite (normpath_cons (x :: r)) by discriminate.
  assert (Hi : initial_slashes (x :: r) = 0%nat).
  { unfold initial_slashes. cbn [is_prefix] in *. rewrite andb_true_r in Hlead. rewrite Hlead. reflexivity. }
  rewrite Hi. cbn [Nat.eqb negb repeat app]. rewrite (np_fold_noise _ _ _ Hdd), app_nil_r, rev_involutive.
  destruct (denoise (split_on SL (x :: r))) as [|a l] eqn:E; [reflexivity|].
  destruct (join_with SL (a :: l)) as [|y t] eqn:Ej; [|reflexivity].
  exfalso. assert (Hin : In a (denoise (split_on SL (x :: r)))) by (rewrite E; left; reflexivity).
  unfold denoise in Hin. apply filter_In in Hin as [_ Hn].
  destruct l as [|b l'].
  - cbn in Ej. subst a. discriminate.
  - change (join_with SL (a :: b :: l')) with (a ++ SL :: join_with SL (b :: l')) in Ej.
    apply app_eq_nil in Ej as [_ Ej]. discriminate.
Qed.

Lemma plain_inv s : plain s = true -> is_prefix [SL] (slash s) = false /\ no_dotdot (segs_of s) = true.
Proof. unfold plain. intros H. apply andb_true_iff in H as [H1 H2]. apply negb_true_iff in H1. split; assumption. Qed.

(** spellings of one path have one normal form *)
Lemma spells_normpath p p0 : spells p p0 -> normpath (slash p) = normpath (slash p0).
Proof.
  intros [Hp [Hp0 He]]. apply plain_inv in Hp as [H1 H2]. apply plain_inv in Hp0 as [H3 H4].
  rewrite (normpath_denoise _ H1 H2), (normpath_denoise _ H3 H4). unfold segs_of in He. rewrite He. reflexivity.
Qed.

Lemma nonempty_denoise s : nonempty_segs s = denoise (split_on SL s).
Proof.
  unfold nonempty_segs, denoise. apply filter_ext. intros c. unfold is_noise. rewrite negb_orb. reflexivity.
Qed.

(** ... and the chain drops the same number of segments for them *)
Lemma spells_drop_segs p p0 x : spells p p0 -> drop_segs x p = drop_segs x p0.
Proof.
  intros [_ [_ He]]. unfold drop_segs. rewrite !nonempty_denoise. unfold segs_of in He. rewrite He. reflexivity.
Qed.

(** * os.path.join of two plain spellings *)
Lemma denoise_app a b : denoise (a ++ b) = denoise a ++ denoise b.
Proof. unfold denoise. apply filter_app. Qed.
Lemma no_dotdot_app a b : no_dotdot (a ++ b) = no_dotdot a && no_dotdot b.
Proof. unfold no_dotdot. apply forallb_app. Qed.

Lemma slash_lead s : is_prefix [SL] (slash s) = false -> is_prefix [SL] s = false.
Proof.
  destruct s as [|x r]; [reflexivity|]. cbn [slash map is_prefix]. rewrite !andb_true_r. unfold slashc.
  destruct (N.eqb_spec x BS) as [->|Hn]; [discriminate|]. intros H. exact H.
Qed.

Lemma ends_slash p : is_prefix [SL] (rev p) = true -> exists p', p = p' ++ [SL].
Proof.
  intros H. apply is_prefix_spec in H as [r Hr]. exists (rev r).
  rewrite <- (rev_involutive p), Hr. cbn [app rev]. reflexivity.
Qed.

(** the segments of "p joined with q", noise dropped: those of p followed by those of q *)
Lemma pjoin_segs p q :
  plain p = true -> plain q = true ->
  plain (pjoin p q) = true /\ denoise (segs_of (pjoin p q)) = denoise (segs_of p) ++ denoise (segs_of q).
Proof.
  intros Hp Hq. destruct (plain_inv _ Hp) as [Hp1 Hp2]. destruct (plain_inv _ Hq) as [Hq1 Hq2].
  unfold pjoin. rewrite (slash_lead _ Hq1).
  destruct p as [|x p']; [split; [exact Hq|reflexivity]|].
  destruct (is_prefix [SL] (rev (x :: p'))) eqn:E.
  - apply ends_slash in E as [p'' E]. rewrite E in *. clear E.
    assert (Es : slash (p'' ++ [SL]) = slash p'' ++ [SL]) by (unfold slash; rewrite map_app; reflexivity).
    assert (Ej : slash ((p'' ++ [SL]) ++ q) = slash p'' ++ SL :: slash q).
    { rewrite <- app_assoc. unfold slash. rewrite map_app. reflexivity. }
    unfold segs_of in *. rewrite Es in Hp1, Hp2. change (slash p'' ++ [SL]) with (slash p'' ++ SL :: []) in Hp2.
    rewrite split_app_sep in Hp2. rewrite no_dotdot_app in Hp2. apply andb_true_iff in Hp2 as [Hp2 _].
    split.
    + unfold plain, segs_of. rewrite Ej, split_app_sep, no_dotdot_app, Hp2, Hq2.
      destruct (slash p'') as [|y t] eqn:Ey.
      * cbn [app] in Hp1. cbn in Hp1. discriminate.
      * cbn [app is_prefix] in *. rewrite andb_true_r in *. rewrite Hp1. reflexivity.
    + rewrite Ej, Es. change (slash p'' ++ [SL]) with (slash p'' ++ SL :: []).
      rewrite !split_app_sep, !denoise_app. cbn [split_on denoise filter is_noise eqb_str orb negb]. rewrite app_nil_r. reflexivity.
  - assert (Ej : slash ((x :: p') ++ SL :: q) = slash (x :: p') ++ SL :: slash q) by (unfold slash; rewrite map_app; reflexivity).
    split.
    + unfold plain, segs_of in *. rewrite Ej, split_app_sep, no_dotdot_app, Hp2, Hq2.
      cbn [slash map app is_prefix] in *. rewrite andb_true_r in *. rewrite Hp1. reflexivity.
    + unfold segs_of. rewrite Ej, split_app_sep, denoise_app. reflexivity.
Qed.

(** the name a member is asked for has the same normal form under both spellings of its prefix *)
Lemma spells_full_name p p0 q q0 :
  spells p p0 -> spells q q0 ->
  normpath (slash (full_name p q)) = normpath (slash (full_name p0 q0)).
Proof.
  intros [Hp [Hp0 Hpe]] [Hq [Hq0 Hqe]].
  destruct (pjoin_segs p q Hp Hq) as [H1 E1]. destruct (pjoin_segs p0 q0 Hp0 Hq0) as [H2 E2].
  unfold full_name. rewrite !slash_idem. apply spells_normpath. split; [exact H1|]. split; [exact H2|].
  rewrite E1, E2, Hpe, Hqe. reflexivity.
Qed.

(** * backends of today's form only see the normal form *)
Definition walk_norm (b : backend) : bool := is_slashnorm (b_wfolder b).

Lemma walk_normal_form b fs f f' :
  walk_ok b = true -> walk_norm b = true -> normpath (slash f) = normpath (slash f') -> walk b fs f = walk b fs f'.
Proof.
  intros Hw Hn E. unfold walk. rewrite !(walk_ok_src b fs _ Hw).
  rewrite (apply_ops_norm (b_wfolder b) f), (apply_ops_norm (b_wfolder b) f').
  unfold walk_norm, is_slashnorm in Hn. destruct (norm_kind (b_wfolder b)); try discriminate.
  cbn [prenorm]. rewrite E. reflexivity.
Qed.

Lemma lookup_normal_form b fs q q' :
  backend_keys_norm b = true -> clean_fs fs = true -> normpath (slash q) = normpath (slash q') -> lookup b fs q = lookup b fs q'.
Proof.
  intros Hb Hc E. destruct (lookup_agree_all b b fs q Hb Hb Hc) as [_ [_ [_ [_ [H _]]]]].
  destruct (lookup_agree_all b b fs q' Hb Hb Hc) as [_ [_ [_ [_ [H' _]]]]]. rewrite H, H', E. reflexivity.
Qed.

Lemma spells_refl s : plain s = true -> spells s s.
Proof. intros H. repeat split; assumption. Qed.

Lemma clean_name_plain r : clean_name r = true -> plain r = true.
Proof.
  intros H. pose proof (clean_name_slash r H) as Hs. unfold clean_name in H. apply andb_true_iff in H as [Hc _].
  unfold plain, segs_of. rewrite Hs, (clean_no_lead_slash r Hc). cbn [negb andb].
  unfold clean in Hc. unfold no_dotdot. rewrite forallb_forall in *. intros c Hin. specialize (Hc c Hin).
  unfold good_seg in Hc. apply andb_true_iff in Hc as [_ Hc]. exact Hc.
Qed.

(** * a member under a spelt prefix, walked with a spelt folder *)
(** [p] spells the empty or clean prefix [p0], [f] the empty or clean folder [f0] *)
Definition noisy_member (f f0 : str) (m : member) : Prop :=
  exists b fs p p0, m = member_of b fs p /\ walk_ok b = true /\ walk_norm b = true /\ backend_keys_norm b = true
                    /\ clean_fs fs = true /\ okp p0 /\ spells p p0 /\ okp f0 /\ spells f f0.

Lemma backend_keys_norm_ok b : backend_keys_norm b = true -> backend_keys_ok b = true.
Proof. unfold backend_keys_norm. intros H. do 3 (apply andb_true_iff in H as [H _]). exact H. Qed.

Lemma noisy_member_walk_ok m f f0 : noisy_member f f0 m -> walk_member_ok_at (nkey f0) f m.
Proof.
  intros [b [fs [p [p0 [-> [Hw [Hn [Hk [Hc [Hp0 [Hsp [Hf0 Hsf]]]]]]]]]]]].
  assert (H0 : walk_member_ok f0 (member_of b fs p0)).
  { apply sound_member_walk_ok; [|exact Hf0]. exists b, fs, p0. repeat split; try assumption. apply backend_keys_norm_ok. exact Hk. }
  destruct H0 as [HA HB]. unfold walk_member_ok_at, lists_sound, lists_complete, lists_sound_at, lists_complete_at, asks in *.
  cbn [member_of m_walk m_lookup m_prefix] in *.
  assert (Ew : walk b fs (full_name p f) = walk b fs (full_name p0 f0)).
  { apply walk_normal_form; [exact Hw|exact Hn|]. apply spells_full_name; assumption. }
  assert (El : forall r, clean_name r = true -> lookup b fs (full_name p r) = lookup b fs (full_name p0 r)).
  { intros r Hr. apply lookup_normal_form; [exact Hk|exact Hc|]. apply spells_full_name; [exact Hsp|].
    apply spells_refl. apply clean_name_plain. exact Hr. }
  split.
  - intros e He. rewrite Ew in He. rewrite (spells_drop_segs p p0 _ Hsp).
    destruct (HA e He) as [H1 [H2 H3]]. split; [exact H1|]. split; [exact H2|]. rewrite (El _ H1). exact H3.
  - intros r g Hr Hin Hg. rewrite (El r Hr) in Hg. rewrite Ew, (spells_drop_segs p p0 _ Hsp). apply (HB r g Hr Hin Hg).
Qed.

(** The composition for prefixes and folders in any such spelling. *)
Theorem chain_walk_lookup_closed_noisy dops ms f f0 x :
  dedup_ops_ok dops = true -> Forall (noisy_member f f0) ms ->
  In x (chain_walk RelDropSegs dops ms f) ->
  chain_get ms (fst x) = Some (snd x).
Proof.
  intros Hd Hms. apply (chain_walk_lookup_closed_at (nkey f0)); [exact Hd|].
  eapply Forall_impl; [|exact Hms]. intros m. apply noisy_member_walk_ok.
Qed.

(** Examples of spellings: "./d", "d/", "d/.", "d\\.\\e//" ... *)
Example spells_examples :
  spells [46; 47; 100] [100] /\ spells [100; 47] [100] /\ spells [100; 47; 46] [100]
  /\ spells [100; 92; 46; 92; 101; 47; 47] [100; 47; 101] /\ spells [46] [] /\ spells [46; 47] [] /\ spells [] []
  /\ ~ spells [100; 47; 46; 46] [].
Proof.
  repeat split; try reflexivity. intros [H _]. discriminate.
Qed.

(** ... also with directory members in the chain (for them the folder must be spelt cleanly and be exact). *)
Definition any_member (f f0 : str) (m : member) : Prop :=
  noisy_member f f0 m \/ (f = f0 /\ okp f0 /\ raw_sound_member f0 m).
Theorem chain_walk_lookup_closed_all dops ms f f0 x :
  dedup_ops_ok dops = true -> Forall (any_member f f0) ms ->
  In x (chain_walk RelDropSegs dops ms f) ->
  chain_get ms (fst x) = Some (snd x).
Proof.
  intros Hd Hms. apply (chain_walk_lookup_closed_at (nkey f0)); [exact Hd|].
  eapply Forall_impl; [|exact Hms]. intros m [H|[-> [Hf H]]]; [apply noisy_member_walk_ok; exact H|].
  apply (raw_member_walk_ok m f0 H Hf).
Qed.

(** The premises are satisfiable: a zip mounted under "s/." in front of an unrestricted one, walked as "./" . *)
Example noisy_premises_satisfiable :
  Forall (noisy_member [46; 47] [])
         [member_of SM.FsChainWitness.fixed_zip [([115; 47; 121], [9])] [115; 47; 46]; member_of SM.FsChainWitness.fixed_zip [([120], [1])] []]
  /\ map fst (chain_walk RelDropSegs [OFold]
         [member_of SM.FsChainWitness.fixed_zip [([115; 47; 121], [9])] [115; 47; 46]; member_of SM.FsChainWitness.fixed_zip [([120], [1])] []] [46; 47])
     = [[121]; [120]].
Proof.
  split; [|vm_compute; reflexivity].
  constructor; [|constructor; [|constructor]].
  - exists SM.FsChainWitness.fixed_zip, [([115; 47; 121], [9])], [115; 47; 46], [115].
    repeat split; try reflexivity; try (left; reflexivity); right; split; reflexivity.
  - exists SM.FsChainWitness.fixed_zip, [([120], [1])], [], [].
    repeat split; try reflexivity; left; reflexivity.
Qed.
