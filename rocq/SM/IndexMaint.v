(** Source-shaped models for property C07, round 3: the *index maintenance* part of [Entity.__setitem__] (everything
    after the lookup loop: the [if key_fold == 'classname' ... elif key_fold == 'targetname' ...] chain with the
    worldspawn guard and its error path) and [VMF.add_ents] over an iterable argument that may be one-shot
    (generator, map object, iterator).  Both are read off vmf.py by translate/c07_index_shapes.py on every run
    ([gen_setitem_maint], [gen_add_ents] in Gen/IndexShapes_gen.v).

    Executable definitions only; proofs are in IndexMaintProofs.v. *)
From stdpp Require Import gmap sets list.
From Coq Require Import NArith.
From SV Require Import SM.IndexModel SM.IndexShapes.

(** * 1. The maintenance part of Entity.__setitem__ as a program *)
(** the value folded into an index key: the previous value [(orig_val or '').casefold()], the new value
    [str_val.casefold()], or a literal ([by_target] keys are [<this> or None]) *)
Inductive mkey := MKOrig | MKNew | MKLit (s : str).
Inductive mexn := EKey | EValue | EOther.
Definition exn_code (x : mexn) : nat := match x with EKey => 1 | EValue => 2 | EOther => 9 end.
Inductive mcond :=
| MCKeyIs (s : str)          (* key_fold == '<s>' *)
| MCInEnts                   (* self in self.map.entities *)
| MCIsSpawn                  (* self is self.map.spawn *)
| MCNewIs (s : str)          (* str_val.casefold() == '<s>' *)
| MCNot (c : mcond) | MCOr (a b : mcond) | MCAnd (a b : mcond)
| MCCached (attr : str).     (* self.<attr>: a flag kept on the entity object (round 5).  The model has no such state:
                                the facts never decide it ([cond_abs] = None), so a program passes a path obligation only
                                if both branches under it execute the same actions; [cond_eval] gives it an arbitrary
                                value that no theorem about passing programs depends on *)
Inductive mact :=
| ARemClass (k : mkey)       (* _remove_copyset(self.map.by_class, <k>, self) *)
| AAddClass (k : mkey)       (* self.map.by_class[<k>].add(self) *)
| ARemTarget (k : mkey)      (* _remove_copyset(self.map.by_target, <k> or None, self) *)
| AAddTarget (k : mkey)      (* self.map.by_target[<k> or None].add(self) *)
| ASelfSet (k v : str)       (* self['<k>'] = '<v>': the whole of __setitem__ again *)
| AStoreKey (v : str)        (* self._keys[key] = '<v>': a direct store under the spelling just used *)
| AStoreKeyOrig (dflt : str) (* self._keys[key] = orig_val or '<dflt>': the previous value is put back directly (round 4) *)
| ARaise (x : mexn).
Inductive mprog := MSkip | MSeq (a b : mprog) | MIf (c : mcond) (a b : mprog) | MAct (a : mact).

Global Instance mkey_eq_dec : EqDecision mkey.
Proof. solve_decision. Defined.
Global Instance mexn_eq_dec : EqDecision mexn.
Proof. solve_decision. Defined.
Global Instance mact_eq_dec : EqDecision mact.
Proof. solve_decision. Defined.

(** 'nodeid' (its processing is property C08; here it is only a key that is neither of the two indexed ones) *)
Definition nodeid : str := [110;111;100;101;105;100]%N.

Section maint.
  Variable fold : str → str.

  Definition mkey_val (k : mkey) (orig v : str) : str :=
    match k with MKOrig => fold orig | MKNew => fold v | MKLit s => s end.

  Fixpoint cond_eval (c : mcond) (e : nat) (key v : str) (st : mstate) : bool :=
    match c with
    | MCKeyIs s => bool_decide (fold key = s)
    | MCInEnts => bool_decide (e ∈ ents st)
    | MCIsSpawn => bool_decide (e = spawn st)
    | MCNewIs s => bool_decide (fold v = s)
    | MCNot c => negb (cond_eval c e key v st)
    | MCOr a b => cond_eval a e key v st || cond_eval b e key v st
    | MCAnd a b => cond_eval a e key v st && cond_eval b e key v st
    | MCCached _ => false
    end.

  (** [rec e k v st]: what [self[k] = v] does (the function itself, one level down) *)
  Definition act_run (rec : nat → str → str → mstate → mstate * nat) (a : mact)
      (e : nat) (key v orig : str) (st : mstate) : mstate * nat :=
    match a with
    | ARemClass k => (upd_class (ix_remove (mkey_val k orig v) e) st, 0)
    | AAddClass k => (upd_class (ix_add (mkey_val k orig v) e) st, 0)
    | ARemTarget k => (upd_target (ix_remove (or_none (mkey_val k orig v)) e) st, 0)
    | AAddTarget k => (upd_target (ix_add (or_none (mkey_val k orig v)) e) st, 0)
    | ASelfSet k' v' => rec e k' v' st
    | AStoreKey v' => (with_keys e (kv_set fold key v' (keys_of st e)) st, 0)
    | AStoreKeyOrig d => (with_keys e (kv_set fold key (if decide (orig = []) then d else orig) (keys_of st e)) st, 0)
    | ARaise x => (st, exn_code x)
    end.

  (** the program, statement by statement; a non-zero error code stops it (an exception propagates) *)
  Fixpoint m_run (rec : nat → str → str → mstate → mstate * nat) (p : mprog)
      (e : nat) (key v orig : str) (st : mstate) : mstate * nat :=
    match p with
    | MSkip => (st, 0)
    | MSeq a b => let '(st1, er) := m_run rec a e key v orig st in
                  match er with 0 => m_run rec b e key v orig st1 | _ => (st1, er) end
    | MIf c a b => if cond_eval c e key v st then m_run rec a e key v orig st else m_run rec b e key v orig st
    | MAct a => act_run rec a e key v orig st
    end.

  (** a straight-line list of actions (what one path through the program executes) *)
  Fixpoint acts_run (rec : nat → str → str → mstate → mstate * nat) (l : list mact)
      (e : nat) (key v orig : str) (st : mstate) : mstate * nat :=
    match l with
    | [] => (st, 0)
    | a :: r => let '(st1, er) := act_run rec a e key v orig st in
                match er with 0 => acts_run rec r e key v orig st1 | _ => (st1, er) end
    end.

  (** Entity.__setitem__ as written: the lookup loop of shape [sh] (SM/IndexShapes.v), then the maintenance
      program [p]; [self[k] = v] inside [p] runs the same function with one unit of depth less (depth 0: error
      code 9, shown unreachable for programs that pass the obligations). *)
  Fixpoint set_item_pg (sh : setitem_shape) (p : mprog) (depth : nat)
      (e : nat) (key v : str) (st : mstate) : mstate * nat :=
    match depth with
    | O => (st, 9)
    | S d =>
        let '(o, l') := setitem_prefix fold sh key v (keys_of st e) in
        m_run (set_item_pg sh p d) p e key v (default [] o) (with_keys e l' st)
    end.

  (** ** The obligation: which actions each path executes *)
  (** the facts the conditions of the program test: which keyvalue, is the entity in the entity list, is it the
      worldspawn, is the new value 'worldspawn' *)
  Inductive kcls := KCn | KTn | KOther.
  Record mfacts := MF { f_key : kcls; f_in_ents : bool; f_is_spawn : bool; f_new_ws : bool }.

  Definition facts_of (e : nat) (key v : str) (st : mstate) : mfacts :=
    MF (if decide (fold key = cn) then KCn else if decide (fold key = tn) then KTn else KOther)
       (bool_decide (e ∈ ents st)) (bool_decide (e = spawn st)) (bool_decide (fold v = ws)).

  (** three-valued: [None] = these facts do not decide the condition *)
  Fixpoint cond_abs (c : mcond) (f : mfacts) : option bool :=
    match c with
    | MCKeyIs s =>
        if decide (s = cn) then Some (match f_key f with KCn => true | _ => false end)
        else if decide (s = tn) then Some (match f_key f with KTn => true | _ => false end)
        else match f_key f with KOther => None | _ => Some false end
    | MCInEnts => Some (f_in_ents f)
    | MCIsSpawn => Some (f_is_spawn f)
    | MCNewIs s => if decide (s = ws) then Some (f_new_ws f) else None
    | MCNot c => negb <$> cond_abs c f
    | MCOr a b => match cond_abs a f, cond_abs b f with Some x, Some y => Some (x || y) | _, _ => None end
    | MCAnd a b => match cond_abs a f, cond_abs b f with Some x, Some y => Some (x && y) | _, _ => None end
    | MCCached _ => None
    end.

  (** state census (round 5): the program decides everything from its arguments, the entity list and the spawn — it
      reads no flag cached on the entity object (seeded fault c07_7: [self._in_map], set by add_ent only) *)
  Fixpoint cond_stateless (c : mcond) : bool :=
    match c with
    | MCCached _ => false
    | MCNot c => cond_stateless c
    | MCOr a b | MCAnd a b => cond_stateless a && cond_stateless b
    | _ => true
    end.
  Fixpoint prog_stateless (p : mprog) : bool :=
    match p with
    | MSkip | MAct _ => true
    | MSeq a b => prog_stateless a && prog_stateless b
    | MIf c a b => cond_stateless c && prog_stateless a && prog_stateless b
    end.

  (** the actions on the path these facts select; a condition the facts do not decide is accepted only when both
      branches execute the same actions *)
  Fixpoint m_flat (p : mprog) (f : mfacts) : option (list mact) :=
    match p with
    | MSkip => Some []
    | MAct a => Some [a]
    | MSeq a b => match m_flat a f, m_flat b f with Some la, Some lb => Some (la ++ lb) | _, _ => None end
    | MIf c a b =>
        match cond_abs c f with
        | Some true => m_flat a f
        | Some false => m_flat b f
        | None => match m_flat a f, m_flat b f with
                  | Some la, Some lb => if decide (la = lb) then Some la else None
                  | _, _ => None
                  end
        end
    end.

  (** nothing runs after a [raise] *)
  Fixpoint trunc_raise (l : list mact) : list mact :=
    match l with
    | [] => []
    | ARaise x :: _ => [ARaise x]
    | a :: r => a :: trunc_raise r
    end.

  (** what today's code executes, path by path *)
  Definition acts_today (f : mfacts) : list mact :=
    match f_key f with
    | KCn => ARemClass MKOrig ::
             (if f_in_ents f then [AAddClass MKNew]
              else if f_is_spawn f then
                     (if f_new_ws f then [AAddClass (MKLit ws)] else [ASelfSet cn ws; ARaise EValue])
                   else [])
    | KTn => ARemTarget MKOrig :: (if f_is_spawn f || f_in_ents f then [AAddTarget MKNew] else [])
    | KOther => []
    end.

  Definition path_ok (p : mprog) (f : mfacts) : bool :=
    match m_flat p f with Some l => bool_decide (trunc_raise l = acts_today f) | None => false end.

  Definition bools : list bool := [false; true].
  Definition facts_with (k : kcls) : list mfacts :=
    i ← bools; s ← bools; w ← bools; [MF k i s w].
  Definition is_guard_error (f : mfacts) : bool :=
    match f_key f with KCn => negb (f_in_ents f) && f_is_spawn f && negb (f_new_ws f) | _ => false end.

  (** the named obligations *)
  Definition maint_classname_ok (p : mprog) : bool :=
    forallb (λ f, is_guard_error f || path_ok p f) (facts_with KCn).
  Definition maint_guard_error_ok (p : mprog) : bool :=
    forallb (λ f, negb (is_guard_error f) || path_ok p f) (facts_with KCn).
  Definition maint_targetname_ok (p : mprog) : bool := forallb (path_ok p) (facts_with KTn).
  Definition maint_other_ok (p : mprog) : bool := forallb (path_ok p) (facts_with KOther).
  Definition maint_ok (p : mprog) : bool :=
    maint_classname_ok p && maint_guard_error_ok p && maint_targetname_ok p && maint_other_ok p.

  (** today's maintenance program, and the one of seeded fault c07_3 (the rejected re-class of the worldspawn is
      reverted with a direct store, the index entry removed before is not put back) *)
  Definition maint_today : mprog :=
    MIf (MCKeyIs cn)
      (MSeq (MAct (ARemClass MKOrig))
         (MIf MCInEnts (MAct (AAddClass MKNew))
            (MIf MCIsSpawn
               (MSeq (MIf (MCNot (MCNewIs ws)) (MSeq (MAct (ASelfSet cn ws)) (MAct (ARaise EValue))) MSkip)
                     (MAct (AAddClass (MKLit ws))))
               MSkip)))
      (MIf (MCKeyIs tn)
         (MSeq (MAct (ARemTarget MKOrig)) (MIf (MCOr MCIsSpawn MCInEnts) (MAct (AAddTarget MKNew)) MSkip))
         (MIf (MCKeyIs nodeid) MSkip MSkip)).
  Definition maint_direct_revert : mprog :=
    MIf (MCKeyIs cn)
      (MSeq (MAct (ARemClass MKOrig))
         (MIf MCInEnts (MAct (AAddClass MKNew))
            (MIf MCIsSpawn
               (MSeq (MIf (MCNot (MCNewIs ws)) (MSeq (MAct (AStoreKey ws)) (MAct (ARaise EValue))) MSkip)
                     (MAct (AAddClass (MKLit ws))))
               MSkip)))
      (MIf (MCKeyIs tn)
         (MSeq (MAct (ARemTarget MKOrig)) (MIf (MCOr MCIsSpawn MCInEnts) (MAct (AAddTarget MKNew)) MSkip))
         MSkip).
  (** the program of seeded fault c07_7: membership is read from a flag on the entity instead of scanning the list *)
  Definition in_map_attr : str := [95;105;110;95;109;97;112]%N.
  Definition maint_cached_flag : mprog :=
    MIf (MCKeyIs cn)
      (MSeq (MAct (ARemClass MKOrig))
         (MIf (MCCached in_map_attr) (MAct (AAddClass MKNew))
            (MIf MCIsSpawn
               (MSeq (MIf (MCNot (MCNewIs ws)) (MSeq (MAct (ASelfSet cn ws)) (MAct (ARaise EValue))) MSkip)
                     (MAct (AAddClass (MKLit ws))))
               MSkip)))
      (MIf (MCKeyIs tn)
         (MSeq (MAct (ARemTarget MKOrig)) (MIf (MCOr MCIsSpawn (MCCached in_map_attr)) (MAct (AAddTarget MKNew)) MSkip))
         (MIf (MCKeyIs nodeid) MSkip MSkip)).
End maint.

(** * 2. VMF.add_ents over an iterable *)
(** what the loop body does with one item *)
Inductive pkind := PAppend | PClass | PTarget.
(** the argument as passed (possibly a one-shot iterator), or the local list made by [list(ents)] *)
Inductive aesrc := SArg | SMat.
Inductive aestmt :=
| AEMaterialise                           (* <local> = list(<argument>) *)
| AELoop (s : aesrc) (body : list pkind). (* for item in <s>: <body>;  entities.extend(<s>) = AELoop s [PAppend] *)
Definition aeprog := list aestmt.

Definition pkind_eqb (a b : pkind) : bool :=
  match a, b with PAppend, PAppend | PClass, PClass | PTarget, PTarget => true | _, _ => false end.

Section add_ents.
  Variable fold : str → str.

  (** one elementary effect on one entity; entities outside the modelled domain (the worldspawn object, objects
      that do not exist) are skipped, exactly as in [add_ent] of SM/IndexModel.v *)
  Definition atom (ke : pkind * nat) (st : mstate) : mstate :=
    let e := ke.2 in
    if decide (e = spawn st ∨ nobj st ≤ e) then st else
    match ke.1 with
    | PAppend => with_ents (ents st ++ [e]) st
    | PClass => upd_class (ix_add (cls_of_keys fold (keys_of st e)) e) st
    | PTarget => upd_target (ix_add (tgt_of_keys fold (keys_of st e)) e) st
    end.

  Definition loop_ops (body : list pkind) (got : list nat) : list (pkind * nat) :=
    e ← got; k ← body; [(k, e)].

  (** the elementary effects in execution order.  [es]: what the argument yields the first time it is iterated;
      [oneshot]: it yields nothing when iterated again; [consumed]: it has been iterated; [loc]: the local list *)
  Fixpoint ae_ops (p : aeprog) (es : list nat) (oneshot consumed : bool) (loc : list nat) : list (pkind * nat) :=
    match p with
    | [] => []
    | AEMaterialise :: r => ae_ops r es oneshot true (if oneshot && consumed then [] else es)
    | AELoop SArg body :: r =>
        loop_ops body (if oneshot && consumed then [] else es) ++ ae_ops r es oneshot true loc
    | AELoop SMat body :: r => loop_ops body loc ++ ae_ops r es oneshot consumed loc
    end.

  Definition ae_run (p : aeprog) (es : list nat) (oneshot : bool) (st : mstate) : mstate :=
    foldl (λ s ke, atom ke s) st (ae_ops p es oneshot false []).

  (** symbolic run: which kinds of effect are applied to the full list of entities, with multiplicity *)
  Fixpoint ae_sym (p : aeprog) (oneshot consumed locfull : bool) : list pkind :=
    match p with
    | [] => []
    | AEMaterialise :: r => ae_sym r oneshot true (negb (oneshot && consumed))
    | AELoop SArg body :: r => (if oneshot && consumed then [] else body) ++ ae_sym r oneshot true locfull
    | AELoop SMat body :: r => (if locfull then body else []) ++ ae_sym r oneshot consumed locfull
    end.
  Definition count_kind (k : pkind) (l : list pkind) : nat := length (List.filter (pkind_eqb k) l).
  Definition once_each (l : list pkind) : bool :=
    Nat.eqb (count_kind PAppend l) 1 && Nat.eqb (count_kind PClass l) 1 && Nat.eqb (count_kind PTarget l) 1.
  (** the named obligations: every entity is listed once and indexed once in both indexes — for an argument that
      can be iterated again (list, tuple) and for one that cannot (generator, map object, iterator) *)
  Definition ae_ok_reiterable (p : aeprog) : bool := once_each (ae_sym p false false false).
  Definition ae_ok_oneshot (p : aeprog) : bool := once_each (ae_sym p true false false).
  Definition ae_ok (p : aeprog) : bool := ae_ok_reiterable p && ae_ok_oneshot p.

  (** today's add_ents, and seeded fault c07_4 / mutation M12 (the argument is iterated twice) *)
  Definition add_ents_today : aeprog := [AEMaterialise; AELoop SMat [PAppend]; AELoop SMat [PClass; PTarget]].
  Definition add_ents_twice : aeprog := [AELoop SArg [PAppend]; AELoop SArg [PClass; PTarget]].
End add_ents.
