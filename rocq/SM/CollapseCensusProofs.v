(** C09 round 2 — collapse_one as an in-place operator on the target with the template as a read-only operand: a run
    in which no store is tagged [CTemplate] and no stored value is tagged [CTemplate] is a mutation history through
    the target root and the objects built during the call, so by the frame theorem a template that shares no mutable
    object with the target beforehand is observed unchanged afterwards — at every depth, for every such run. *)
From Coq Require Import List PArith ZArith Bool String.
From SV Require Import SM.Store SM.StoreProofs SM.OpPurity SM.OpPurityProofs SM.CollapseCensus.
Import ListNotations.

Lemma croots_clean tgt tmpl F o : is_template o = false -> incl (croots tgt tmpl F o) (F ++ [tgt]).
Proof.
  intros H r Hr. apply in_or_app. destruct o; try discriminate; cbn in Hr; auto; destruct Hr.
Qed.

Lemma held_clean tgt tmpl h F vs vos :
  Forall2 (fun v vo => val_held h (croots tgt tmpl F vo) v) vs vos ->
  forallb (fun o => negb (is_template o)) vos = true ->
  forall v, In v vs -> val_held h (F ++ [tgt]) v.
Proof.
  induction 1 as [|v vo vs vos Hv Hr IH]; intros Hc x Hx; [destruct Hx|].
  cbn in Hc. apply andb_true_iff in Hc. destruct Hc as [Hc1 Hc2]. destruct Hx as [<-|Hx].
  - eapply val_held_incl; [|exact Hv]. apply croots_clean. apply negb_true_iff. exact Hc1.
  - apply IH; assumption.
Qed.

Lemma crun_steps tgt tmpl : forall s tr s',
  crun tgt tmpl s tr s' -> forallb event_clean tr = true ->
  steps (fst s, snd s ++ [tgt]) (map (fun e : cevent => fst (fst e)) tr) (fst s', snd s' ++ [tgt]).
Proof.
  intros s tr s' Hr. induction Hr as [s|s m s1 ms s2 Hst Hr IH]; intros Hc; [constructor|].
  cbn in Hc. apply andb_true_iff in Hc. destruct Hc as [Hm Hc]. unfold event_clean in Hm.
  apply andb_true_iff in Hm. destruct Hm as [Hm1 Hm2].
  cbn [map]. eapply steps_cons; [|apply IH; exact Hc].
  inversion Hst as [h F l nd vos Hl Hv|h F l vs nd o vos Hre Hl Hmut Hv]; subst; cbn [fst snd] in *.
  - change ((l :: F) ++ [tgt]) with (l :: (F ++ [tgt])). apply step_alloc; [exact Hl|].
    eapply held_clean; eauto.
  - eapply step_store; eauto.
    + eapply reachR_incl; [|exact Hre]. apply croots_clean. apply negb_true_iff. exact Hm1.
    + eapply held_clean; eauto.
Qed.

(** TEMPLATE FRAME. *)
Theorem collapse_template_frame tgt tmpl h tr h' F' :
  closed h -> alloc h tgt -> alloc h tmpl -> sep h tmpl [tgt] ->
  crun tgt tmpl (h, []) tr (h', F') -> forallb event_clean tr = true ->
  forall n, unfold n h' (VRef tmpl) = unfold n h (VRef tmpl).
Proof.
  intros Hc Ht Hm Hsep Hr Hcl n.
  pose proof (crun_steps tgt tmpl _ _ _ Hr Hcl) as Hs. cbn [fst snd app] in Hs.
  eapply frame_observation; eauto. intros r [<-|[]]. exact Ht.
Qed.

(** From the census: every event's tags occur at a census site, and the census has no template site. *)
Theorem census_collapse_template_frame (W E : list (string * corigin)) tgt tmpl h tr h' F' :
  collapse_never_writes_template W = true -> collapse_only_copies_enter E = true ->
  (forall e, In e tr -> (exists s, In (s, snd (fst e)) W) /\ forall vo, In vo (snd e) -> exists s, In (s, vo) E) ->
  closed h -> alloc h tgt -> alloc h tmpl -> sep h tmpl [tgt] ->
  crun tgt tmpl (h, []) tr (h', F') ->
  forall n, unfold n h' (VRef tmpl) = unfold n h (VRef tmpl).
Proof.
  intros HW HE Hsites Hc Ht Hm Hsep Hr. apply (collapse_template_frame tgt tmpl h tr h' F' Hc Ht Hm Hsep Hr).
  apply forallb_forall. intros e He. destruct (Hsites e He) as [(s & Hs) Hv].
  unfold event_clean. apply andb_true_iff. split.
  - unfold collapse_never_writes_template in HW. rewrite forallb_forall in HW. exact (HW _ Hs).
  - apply forallb_forall. intros vo Hvo. destruct (Hv vo Hvo) as (s' & Hs').
    unfold collapse_only_copies_enter in HE. rewrite forallb_forall in HE. exact (HE _ Hs').
Qed.

(** What the census rejects really changes the template: localise() applied to the template brush itself. *)
Definition cl_h : heap := fun l => match l with
  | 1%positive => Some (Node true [VAtom 0%Z]) | 2%positive => Some (Node true [VAtom 64%Z]) | _ => None end.

Theorem collapse_template_write_observable :
  collapse_never_writes_template [("old_brush.localise(...)"%string, CTemplate)] = false /\
  exists h', crun 1%positive 2%positive (cl_h, []) [(MStore 2%positive [VAtom 128%Z], CTemplate, [CScalar])] (h', []) /\
             unfold 1 h' (VRef 2%positive) <> unfold 1 cl_h (VRef 2%positive).
Proof.
  split; [reflexivity|]. eexists. split.
  - eapply cr_cons; [|apply cr_nil]. eapply cs_store with (nd := Node true [VAtom 64%Z]); try reflexivity.
    + exists 2%positive. split; [left; reflexivity|constructor].
    + constructor; [exact I|constructor].
  - cbv. discriminate.
Qed.

(** ... and so does a template object that ENTERS the target (shared afterwards, then edited through the target). *)
Theorem collapse_template_enter_observable :
  collapse_only_copies_enter [("old_brush -> vmf.add_brush"%string, CTemplate)] = false /\
  exists h1 h2,
    crun 1%positive 2%positive (cl_h, []) [(MStore 1%positive [VRef 2%positive], CTarget, [CTemplate])] (h1, []) /\
    steps (h1, [1%positive]) [MStore 2%positive [VAtom 128%Z]] (h2, [1%positive]) /\
    unfold 1 h2 (VRef 2%positive) <> unfold 1 cl_h (VRef 2%positive).
Proof.
  split; [reflexivity|]. eexists. eexists. split; [|split].
  - eapply cr_cons; [|apply cr_nil]. eapply cs_store with (nd := Node true [VAtom 0%Z]); try reflexivity.
    + exists 1%positive. split; [left; reflexivity|constructor].
    + constructor; [|constructor]. exists 2%positive. split; [left; reflexivity|constructor].
  - eapply steps_cons; [|apply steps_nil].
    eapply step_store with (nd := Node true [VAtom 64%Z]); try reflexivity.
    + exists 1%positive. split; [left; reflexivity|].
      eapply reach_step; [constructor|reflexivity|left; reflexivity].
    + intros v [<-|[]]. exact I.
  - cbv. discriminate.
Qed.
