(** How often VMF.search yields an entity (round 4).  The set semantics of SM/IndexShapes.v ([sp_run]) says which
    entities a search program returns; this file counts, for the same programs, how many times an entity is yielded
    ([sp_count]: a set is iterated once per `yield from`, every member once — CopySet iteration without mutation, see
    c07_copyset_iteration_total), and shows: for every program that passes the shape obligations and the new
    obligations [exact_once] / [star_once], an entity is yielded once for a matching name plus once for a matching
    class — so at most twice, and twice exactly when its name and its class both equal the query. *)
From stdpp Require Import gmap sets list.
From Coq Require Import NArith Lia.
From SV Require Import SM.IndexModel SM.IndexProofs SM.IndexSearchProofs SM.IndexShapes SM.IndexShapeProofs.

Definition b2n (b : bool) : nat := if b then 1 else 0.

Section count.
  Variable fold : str → str.

  Definition scan_test (p : str → bool) (folded : bool) (e : nat) (kv : option str * gset nat) : bool :=
    match kv.1 with Some k => p (if folded then fold k else k) && bool_decide (e ∈ kv.2) | None => false end.
  Definition scan_count (p : str → bool) (folded : bool) (e : nat) (st : mstate) : nat :=
    length (List.filter (scan_test p folded e) (map_to_list (by_target st))).

  Fixpoint sp_count (p : sprog) (nm : str) (e : nat) (st : mstate) : nat * mstate :=
    match p with
    | PSkip => (0, st)
    | PSeq a b => let '(n1, st1) := sp_count a nm e st in
                  let '(n2, st2) := sp_count b nm e st1 in (n1 + n2, st2)
    | PIf c a b => if (match c with CInTarget => has_target nm st | CInClass => has_class nm st
                                  | CNeTarget => ne_target nm st | CNeClass => ne_class nm st end)
                   then sp_count a nm e st else sp_count b nm e st
    | PYieldTarget => (b2n (bool_decide (e ∈ ix_get (by_target st) (Some nm))), upd_target (probe (Some nm)) st)
    | PYieldClass => (b2n (bool_decide (e ∈ ix_get (by_class st) nm)), upd_class (probe nm) st)
    | PScanTarget t f =>
        (scan_count (match t with TEq => λ k, bool_decide (k = nm) | TPrefix => is_prefix nm end) f e st, st)
    | PYieldGetTarget => (b2n (bool_decide (e ∈ ix_get (by_target st) (Some nm))), st)
    | PYieldGetClass => (b2n (bool_decide (e ∈ ix_get (by_class st) nm)), st)
    end.
  Definition search_count (sh : search_shape) (name : str) (e : nat) (st : mstate) : nat :=
    if sh_empty_returns sh && bool_decide (name = []) then 0 else
    let nm := if sh_folds sh then fold name else name in
    if ends_star nm then (sp_count (sh_star sh) (if sh_star_strips sh then removelast nm else nm) e st).1
    else (sp_count (sh_exact sh) nm e st).1.

  (** symbolic multiplicities: how many times each of the three parts is yielded, per presence facts *)
  Fixpoint sp_mult (net nec : bool) (p : sprog) (bt bc : bool) : nat * nat * nat * bool * bool :=
    match p with
    | PSkip => (0, 0, 0, bt, bc)
    | PSeq a b => let '(t1, c1, p1, bt1, bc1) := sp_mult net nec a bt bc in
                  let '(t2, c2, p2, bt2, bc2) := sp_mult net nec b bt1 bc1 in
                  (t1 + t2, c1 + c2, p1 + p2, bt2, bc2)
    | PIf CInTarget a b => if bt then sp_mult net nec a bt bc else sp_mult net nec b bt bc
    | PIf CInClass a b => if bc then sp_mult net nec a bt bc else sp_mult net nec b bt bc
    | PIf CNeTarget a b => if net then sp_mult net nec a bt bc else sp_mult net nec b bt bc
    | PIf CNeClass a b => if nec then sp_mult net nec a bt bc else sp_mult net nec b bt bc
    | PYieldTarget => (1, 0, 0, true, bc)
    | PYieldClass => (0, 1, 0, bt, true)
    | PScanTarget TEq _ => (1, 0, 0, bt, bc)
    | PScanTarget TPrefix _ => (0, 0, 1, bt, bc)
    | PYieldGetTarget => (1, 0, 0, bt, bc)
    | PYieldGetClass => (0, 1, 0, bt, bc)
    end.
  (** the new obligations: no part is yielded twice *)
  Definition exact_once (p : sprog) : bool :=
    forallb (λ f : bool * bool * bool * bool,
               let '(bt, bc, net, nec) := f in
               let '(t, c, pp, _, _) := sp_mult net nec p bt bc in
               Nat.leb t 1 && Nat.leb c 1 && Nat.eqb pp 0) flag_cases.
  Definition star_once (p : sprog) : bool :=
    forallb (λ f : bool * bool * bool * bool,
               let '(bt, bc, net, nec) := f in
               let '(t, c, pp, _, _) := sp_mult net nec p bt bc in
               Nat.eqb t 0 && Nat.eqb c 0 && Nat.leb pp 1) flag_cases.
  Definition search_once_ok (sh : search_shape) : bool := star_once (sh_star sh) && exact_once (sh_exact sh).

  Lemma ltb_add a b : Nat.ltb 0 (a + b) = Nat.ltb 0 a || Nat.ltb 0 b.
  Proof. by destruct a, b. Qed.
  Lemma sp_mult_sym net nec p : ∀ bt bc, let '(t, c, pp, bt', bc') := sp_mult net nec p bt bc in
    sp_sym net nec p bt bc = (Nat.ltb 0 t, Nat.ltb 0 c, Nat.ltb 0 pp, bt', bc').
  Proof.
    induction p as [|a IHa b IHb|cd a IHa b IHb| | |tst f| |]; intros bt bc; simpl; try done.
    - specialize (IHa bt bc). destruct (sp_mult net nec a bt bc) as [[[[t1 c1] p1] bt1] bc1]. rewrite IHa.
      specialize (IHb bt1 bc1). destruct (sp_mult net nec b bt1 bc1) as [[[[t2 c2] p2] bt2] bc2]. rewrite IHb.
      by rewrite !ltb_add.
    - destruct cd; [destruct bt|destruct bc|destruct net|destruct nec]; (apply IHa || apply IHb).
    - by destruct tst.
  Qed.

  Hypothesis fold_idem : ∀ s, fold (fold s) = fold s.

  (** at most one entry of the name index passes the scan test for a given entity: it sits under one key only *)
  Lemma filter_length_le1 {A} (Q : A → bool) (l : list A) :
    NoDup l → (∀ x y, x ∈ l → y ∈ l → Q x = true → Q y = true → x = y) → length (List.filter Q l) ≤ 1.
  Proof.
    induction 1 as [|x l Hx Hnd IH]; intros Hu; simpl; [lia|].
    destruct (Q x) eqn:Ex.
    - simpl. assert (List.filter Q l = []) as ->; [|simpl; lia].
      destruct (List.filter Q l) as [|y r] eqn:E; [done|]. exfalso.
      assert (Hy : List.In y (List.filter Q l)) by (rewrite E; by left). apply filter_In in Hy as [Hy1 Hy2].
      apply elem_of_list_In in Hy1. apply Hx. rewrite (Hu x y); [done|left|by right|done|done].
    - apply IH. intros a b Ha Hb. apply Hu; by right.
  Qed.

  Lemma scan_count_named p f e st : Inv fold st →
    scan_count p f e st = b2n (bool_decide (e ∈ named fold p f st)).
  Proof.
    intros HI. unfold scan_count.
    assert (Hle : length (List.filter (scan_test p f e) (map_to_list (by_target st))) ≤ 1).
    { apply filter_length_le1; [apply NoDup_map_to_list|].
      intros [k1 X1] [k2 X2] H1 H2 Q1 Q2. apply elem_of_map_to_list in H1, H2.
      unfold scan_test in Q1, Q2. simpl in *. destruct k1 as [k1|], k2 as [k2|]; try done.
      apply andb_true_iff in Q1 as [_ E1%bool_decide_eq_true], Q2 as [_ E2%bool_decide_eq_true].
      assert (e ∈ ix_get (by_target st) (Some k1)) as G1 by (unfold ix_get; by rewrite H1).
      assert (e ∈ ix_get (by_target st) (Some k2)) as G2 by (unfold ix_get; by rewrite H2).
      apply (inv_by_target fold) in G1 as [_ G1]; [|done]. apply (inv_by_target fold) in G2 as [_ G2]; [|done].
      assert (k1 = k2) as -> by congruence. congruence. }
    case_bool_decide as Hin.
    - unfold named in Hin. apply elem_of_union_list in Hin as (X & HX & He).
      apply elem_of_list_In, in_map_iff in HX as ([ko X'] & <- & Hin). apply filter_In in Hin as [Hin Hp].
      assert (List.In (ko, X') (List.filter (scan_test p f e) (map_to_list (by_target st)))) as Hf.
      { apply filter_In. split; [done|]. unfold scan_test. simpl in *. destruct ko; [|done]. rewrite Hp. simpl.
        by apply bool_decide_eq_true. }
      destruct (List.filter _ _) as [|? [|? ?]]; simpl in *; [done|done|lia].
    - destruct (List.filter _ _) as [|[ko X] r] eqn:E; [done|]. exfalso. apply Hin.
      assert (List.In (ko, X) (List.filter (scan_test p f e) (map_to_list (by_target st)))) as Hf by (rewrite E; by left).
      apply filter_In in Hf as [Hf1 Hf2]. unfold scan_test in Hf2. simpl in Hf2. destruct ko as [k|]; [|done].
      apply andb_true_iff in Hf2 as [Hp He%bool_decide_eq_true].
      unfold named. apply elem_of_union_list. exists X. split; [|done].
      apply elem_of_list_In, in_map_iff. exists (Some k, X). split; [done|]. apply filter_In. by split.
  Qed.

  Definition bT nm e st := bool_decide (e ∈ ix_get (by_target st) (Some nm)).
  Definition bC nm e st := bool_decide (e ∈ ix_get (by_class st) nm).
  Definition bP nm e st := bool_decide (e ∈ named fold (is_prefix nm) true st).

  Lemma bT_equiv nm e st st' : ix_equiv st st' → bT nm e st' = bT nm e st.
  Proof. intros (_&_&_&_&_&Ht). unfold bT. by rewrite Ht. Qed.
  Lemma bC_equiv nm e st st' : ix_equiv st st' → bC nm e st' = bC nm e st.
  Proof. intros (_&_&_&_&Hc&_). unfold bC. by rewrite Hc. Qed.
  Lemma bP_equiv nm e st st' : Inv fold st → ix_equiv st st' → bP nm e st' = bP nm e st.
  Proof.
    intros HI Heq. unfold bP. apply bool_decide_ext.
    rewrite !(named_spec' fold fold_idem) by (done || by eapply ix_equiv_inv).
    by rewrite (ix_equiv_present st st'), (ix_equiv_tgt fold st st').
  Qed.

  Lemma named_eq_bT nm f e st : Inv fold st →
    bool_decide (e ∈ named fold (λ k, bool_decide (k = nm)) f st) = bT nm e st.
  Proof.
    intros HI. unfold bT. apply bool_decide_ext. rewrite (named_spec' fold fold_idem) by done.
    rewrite (inv_by_target fold) by done. split.
    - intros (Hp & k & Hk & ->%bool_decide_eq_true). done.
    - intros [Hp Hk]. split; [done|]. exists nm. split; [done|]. by apply bool_decide_eq_true.
  Qed.
  Lemma named_prefix_fold nm f e st : Inv fold st →
    bool_decide (e ∈ named fold (is_prefix nm) f st) = bP nm e st.
  Proof. intros HI. unfold bP. apply bool_decide_ext. by rewrite !(named_spec' fold fold_idem). Qed.

  Lemma sp_count_sem p : ∀ nm e st t c pp bt' bc' n st', Inv fold st →
    sp_mult (ne_target nm st) (ne_class nm st) p (has_target nm st) (has_class nm st) = (t, c, pp, bt', bc') →
    sp_count p nm e st = (n, st') →
    ix_equiv st st' ∧ has_target nm st' = bt' ∧ has_class nm st' = bc' ∧
    n = t * b2n (bT nm e st) + c * b2n (bC nm e st) + pp * b2n (bP nm e st).
  Proof.
    induction p as [|a IHa b IHb|cd a IHa b IHb| | |tst f| |]; intros nm e st t c pp bt' bc' n st' HI Hsym Hrun; simpl in *.
    - simplify_eq. split; [apply ix_equiv_refl|]. done.
    - destruct (sp_mult _ _ a _ _) as [[[[t1 c1] p1] bt1] bc1] eqn:Ea.
      destruct (sp_count a nm e st) as [n1 st1] eqn:Ra.
      destruct (IHa _ _ _ _ _ _ _ _ _ _ HI Ea Ra) as (Heq1 & Hbt1 & Hbc1 & Hn1).
      rewrite <- Hbt1, <- Hbc1, <- (ne_target_equiv nm st st1 Heq1), <- (ne_class_equiv nm st st1 Heq1) in Hsym.
      destruct (sp_mult _ _ b _ _) as [[[[t2 c2] p2] bt2] bc2] eqn:Eb.
      destruct (sp_count b nm e st1) as [n2 st2] eqn:Rb.
      assert (HI1 : Inv fold st1) by (by eapply ix_equiv_inv).
      destruct (IHb _ _ _ _ _ _ _ _ _ _ HI1 Eb Rb) as (Heq2 & Hbt2 & Hbc2 & Hn2).
      simplify_eq. split; [by eapply ix_equiv_trans|]. split; [done|]. split; [done|].
      rewrite (bT_equiv nm e st st1 Heq1), (bC_equiv nm e st st1 Heq1), (bP_equiv nm e st st1 HI Heq1). lia.
    - destruct cd.
      + destruct (has_target nm st) eqn:E; [eapply IHa|eapply IHb]; eauto; by rewrite E.
      + destruct (has_class nm st) eqn:E; [eapply IHa|eapply IHb]; eauto; by rewrite E.
      + destruct (ne_target nm st) eqn:E; [eapply IHa|eapply IHb]; eauto; by rewrite E.
      + destruct (ne_class nm st) eqn:E; [eapply IHa|eapply IHb]; eauto; by rewrite E.
    - simplify_eq. split.
      { repeat split; try done. intros k. simpl. apply ix_get_probe. }
      split; [apply has_target_probe|]. split; [done|]. unfold bT. lia.
    - simplify_eq. split.
      { repeat split; try done. intros k. simpl. apply ix_get_probe. }
      split; [done|]. split; [apply has_class_probe|]. unfold bC. lia.
    - destruct tst; simplify_eq; (split; [apply ix_equiv_refl|]); (split; [done|]); (split; [done|]);
        rewrite scan_count_named by done.
      + rewrite named_eq_bT by done. lia.
      + rewrite named_prefix_fold by done. lia.
    - simplify_eq. split; [apply ix_equiv_refl|]. split; [done|]. split; [done|]. unfold bT. lia.
    - simplify_eq. split; [apply ix_equiv_refl|]. split; [done|]. split; [done|]. unfold bC. lia.
  Qed.

  (** a set without members holds nothing *)
  Lemma absent_bT nm e st : ne_target nm st = false → bT nm e st = false.
  Proof.
    unfold ne_target, bT. intros H%bool_decide_eq_false. apply bool_decide_eq_false.
    intros He. apply H. intros E. rewrite E in He. set_solver.
  Qed.
  Lemma absent_bC nm e st : ne_class nm st = false → bC nm e st = false.
  Proof.
    unfold ne_class, bC. intros H%bool_decide_eq_false. apply bool_decide_eq_false.
    intros He. apply H. intros E. rewrite E in He. set_solver.
  Qed.

  Lemma flag_case_In nm st : List.In (has_target nm st, has_class nm st, ne_target nm st, ne_class nm st) flag_cases.
  Proof. apply elem_of_list_In, flag_case_st. Qed.

  (** VMF.search as written: how often an entity is yielded *)
  Theorem search_count_spec sh name e st : search_shape_ok sh = true → search_once_ok sh = true → Inv fold st →
    search_count sh name e st =
      if bool_decide (name = []) then 0
      else if ends_star (fold name) then b2n (bP (removelast (fold name)) e st)
      else b2n (bT (fold name) e st) + b2n (bC (fold name) e st).
  Proof.
    unfold search_shape_ok, search_once_ok. rewrite !andb_true_iff.
    intros ((((He & Hf) & Hs) & Hstar) & Hex) [Hso Heo] HI. unfold search_count. rewrite He, Hf, Hs. simpl.
    case_bool_decide as Hn; [done|]. destruct (ends_star (fold name)) eqn:Hst.
    - set (nm := removelast (fold name)).
      destruct (sp_mult (ne_target nm st) (ne_class nm st) (sh_star sh) (has_target nm st) (has_class nm st)) as [[[[t c] pp] bt'] bc'] eqn:Es.
      destruct (sp_count (sh_star sh) nm e st) as [n st'] eqn:Er.
      destruct (sp_count_sem _ _ _ _ _ _ _ _ _ _ _ HI Es Er) as (_ & _ & _ & ->). simpl.
      pose proof (sp_mult_sym (ne_target nm st) (ne_class nm st) (sh_star sh) (has_target nm st) (has_class nm st)) as Hsym. rewrite Es in Hsym.
      unfold star_ok in Hstar. rewrite forallb_forall in Hstar. specialize (Hstar _ (flag_case_In nm st)).
      simpl in Hstar. rewrite Hsym in Hstar. apply andb_true_iff in Hstar as [Hp _]. apply Nat.ltb_lt in Hp.
      unfold star_once in Hso. rewrite forallb_forall in Hso. specialize (Hso _ (flag_case_In nm st)).
      simpl in Hso. rewrite Es in Hso. apply andb_true_iff in Hso as [Hso Hp1]. apply andb_true_iff in Hso as [Ht0 Hc0].
      apply Nat.eqb_eq in Ht0, Hc0. apply Nat.leb_le in Hp1. subst. assert (pp = 1) as -> by lia. lia.
    - set (nm := fold name).
      destruct (sp_mult (ne_target nm st) (ne_class nm st) (sh_exact sh) (has_target nm st) (has_class nm st)) as [[[[t c] pp] bt'] bc'] eqn:Es.
      destruct (sp_count (sh_exact sh) nm e st) as [n st'] eqn:Er.
      destruct (sp_count_sem _ _ _ _ _ _ _ _ _ _ _ HI Es Er) as (_ & _ & _ & ->). simpl.
      pose proof (sp_mult_sym (ne_target nm st) (ne_class nm st) (sh_exact sh) (has_target nm st) (has_class nm st)) as Hsym. rewrite Es in Hsym.
      unfold exact_ok in Hex. rewrite forallb_forall in Hex. specialize (Hex _ (flag_case_In nm st)).
      simpl in Hex. rewrite Hsym in Hex. apply andb_true_iff in Hex as [Hex Hc]. apply andb_true_iff in Hex as [Hpp Ht].
      unfold exact_once in Heo. rewrite forallb_forall in Heo. specialize (Heo _ (flag_case_In nm st)).
      simpl in Heo. rewrite Es in Heo. apply andb_true_iff in Heo as [Heo Hp0]. apply andb_true_iff in Heo as [Ht1 Hc1].
      apply Nat.eqb_eq in Hp0. apply Nat.leb_le in Ht1, Hc1. subst pp.
      assert (t * b2n (bT nm e st) = b2n (bT nm e st)) as ->.
      { destruct (ne_target nm st) eqn:E.
        - simpl in Ht. apply Nat.ltb_lt in Ht. assert (t = 1) as -> by lia. lia.
        - rewrite (absent_bT _ _ _ E). simpl. lia. }
      assert (c * b2n (bC nm e st) = b2n (bC nm e st)) as ->.
      { destruct (ne_class nm st) eqn:E.
        - simpl in Hc. apply Nat.ltb_lt in Hc. assert (c = 1) as -> by lia. lia.
        - rewrite (absent_bC _ _ _ E). simpl. lia. }
      lia.
  Qed.

  Corollary search_count_le2 sh name e st : search_shape_ok sh = true → search_once_ok sh = true → Inv fold st →
    search_count sh name e st ≤ 2.
  Proof.
    intros H1 H2 HI. rewrite (search_count_spec sh name e st H1 H2 HI).
    case_bool_decide; [lia|]. destruct (ends_star _); [destruct (bP _ _ _)|destruct (bT _ _ _), (bC _ _ _)]; simpl; lia.
  Qed.
End count.

Lemma search_today_once : search_once_ok search_shape_today = true.
Proof. reflexivity. Qed.
(** a program that yields the class set twice passes the (set-level) shape obligations but not [exact_once]; an entity
    whose name and class both equal the query is yielded twice by today's program — and three times by that one *)
Definition search_shape_class_twice : search_shape :=
  SearchShape true true true (PScanTarget TPrefix true)
    (PSeq (PScanTarget TEq true) (PIf CInClass (PSeq PYieldClass PYieldClass) PSkip)).
Lemma search_count_examples :
  search_shape_ok search_shape_class_twice = true ∧ search_once_ok search_shape_class_twice = false ∧
  let st := run ascii_fold [CreateEnt [97]%N [(tn, [65]%N)]] init in
  search_count ascii_fold search_shape_today [97]%N 1 st = 2 ∧ search_count ascii_fold search_shape_class_twice [97]%N 1 st = 3.
Proof. repeat split; vm_compute; reflexivity. Qed.
