(** Round 3: the statements about the single ID kinds put together — one map seen through all its ID kinds. *)
From stdpp Require Import gmap sets list.
From Coq Require Import ZArith.
From SV Require Import SM.IdMan SM.IdLife SM.IdLifeProofs SM.IdFixupHist SM.IdFixupHistProofs SM.IdWorld SM.IdWorldProofs
  SM.IdNest SM.IdNestProofs SM.IdNode SM.IdNodeProofs SM.IdNodeMaps SM.IdNodeMapsProofs SM.IdCtor SM.IdCtorProofs.
Open Scope Z_scope.

Definition uniq_pos (l : list Z) : Prop := NoDup l ∧ ∀ i, i ∈ l → 0 < i.

(** For every history of the nested world (entities, brushes, faces), of brush groups, of visgroups, of node
    entities over several maps, and of the fixup table of any one entity: in every map [m] the IDs of each kind
    are pairwise distinct and positive, and so are the replaceNN indexes. *)
Theorem all_kinds_unique (hn : list tev) (hg hv : list wev) (hm : list mev) (fl : list (Z * Z)) (fo : list fxop)
    (ra rd : bool) (m : nat) (prog : list pstep) :
  prog_ok prog = true →
  let wn := trun false false false true true true prog hn in
  uniq_pos (live_ids_in m (tE wn)) ∧ uniq_pos (live_ids_in m (tS wn)) ∧ uniq_pos (live_ids_in m (tF wn)) ∧
  uniq_pos (live_ids_in m (wrun false true hg)) ∧ uniq_pos (live_ids_in m (wrun false true hv)) ∧
  uniq_pos (nids (nents (mmap (mrun ra false rd true hm) m))) ∧
  FxInv (fx_hist true true fl fo).
Proof.
  intros Hp wn. destruct (trun_unique prog hn m Hp) as (HE & HS & HF).
  split; [exact HE|]. split; [exact HS|]. split; [exact HF|].
  split; [exact (world_live_ids_nodup_pos hg m)|]. split; [exact (world_live_ids_nodup_pos hv m)|].
  split; [exact (node_maps_ids_nodup_pos ra rd hm m)|]. exact (fx_hist_inv fl fo).
Qed.

(** Round 5: ... and for every class whose constructor step list passes [ctor_ok], after every history of constructor calls that
    complete or raise at any point where they can raise, and of destructor calls of complete and half-built objects. *)
Definition ctors_ok (classes : list (list cstep * bool * bool)) : bool :=
  forallb (λ c : list cstep * bool * bool, ctor_ok c.1.1 c.1.2 c.2) classes.
Theorem all_kinds_unique_r5 (hn : list tev) (hg hv : list wev) (hm : list mev) (fl : list (Z * Z)) (fo : list fxop)
    (ra rd : bool) (m : nat) (prog : list pstep) (classes : list (list cstep * bool * bool)) :
  prog_ok prog = true → ctors_ok classes = true →
  let wn := trun false false false true true true prog hn in
  (uniq_pos (live_ids_in m (tE wn)) ∧ uniq_pos (live_ids_in m (tS wn)) ∧ uniq_pos (live_ids_in m (tF wn)) ∧
   uniq_pos (live_ids_in m (wrun false true hg)) ∧ uniq_pos (live_ids_in m (wrun false true hv)) ∧
   uniq_pos (nids (nents (mmap (mrun ra false rd true hm) m))) ∧
   FxInv (fx_hist true true fl fo)) ∧
  ∀ c hc, c ∈ classes → uniq_pos (klive (krun c.1.1 c.1.2 c.2 false hc)).
Proof.
  intros Hp Hc wn. split; [exact (all_kinds_unique hn hg hv hm fl fo ra rd m prog Hp)|].
  intros c hc Hin. unfold ctors_ok in Hc. rewrite forallb_forall in Hc.
  assert (Hok : ctor_ok c.1.1 c.1.2 c.2 = true) by (apply Hc; by apply elem_of_list_In).
  destruct (failed_ctor_unique c.1.2 c.2 c.1.1 hc Hok) as (H1 & H2 & _). split; done.
Qed.
