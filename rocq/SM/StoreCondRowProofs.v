(** C09, round 4 — proofs about SM/StoreCondRow.v. *)
From Coq Require Import List PArith ZArith Bool String Arith.
From SV Require Import SM.Store SM.StoreProofs SM.StoreCopy SM.StoreCondRow.
Import ListNotations.

(** The joined row is fresh exactly when both branch rows are: recording the weaker branch loses nothing and hides
    nothing, for every kind of field. *)
Lemma join_fresh : forall k a b, how_carries a = true -> how_carries b = true ->
  field_fresh k (how_join a b) = field_fresh k a && field_fresh k b.
Proof.
  intros k a b Ha Hb.
  destruct a; try discriminate; destruct b; try discriminate; destruct k as [| | | |[|]]; reflexivity.
Qed.

(** ... hence: accepted row => whichever branch an input takes, the row that describes THAT input is fresh. *)
Lemma join_fresh_sound : forall k a b, how_carries a = true -> how_carries b = true ->
  field_fresh k (how_join a b) = true -> forall t : bool, field_fresh k (if t then a else b) = true.
Proof.
  intros k a b Ha Hb H t. rewrite (join_fresh k a b Ha Hb) in H. apply andb_true_iff in H. destruct H, t; assumption.
Qed.

(** ... and: rejected row => some input (some value of the test) takes a branch whose row is not fresh. *)
Lemma join_fresh_complete : forall k a b, how_carries a = true -> how_carries b = true ->
  field_fresh k (how_join a b) = false -> exists t : bool, field_fresh k (if t then a else b) = false.
Proof.
  intros k a b Ha Hb H. rewrite (join_fresh k a b Ha Hb) in H. apply andb_false_iff in H.
  destruct H; [exists true | exists false]; assumption.
Qed.

(** The joined row still carries the value (completeness is not affected by the choice). *)
Lemma join_carries : forall a b, how_carries a = true -> how_carries b = true ->
  how_carries (how_join a b) = true /\ field_covered (how_join a b) = true.
Proof. intros a b Ha Hb. destruct a; try discriminate; destruct b; try discriminate; split; reflexivity. Qed.

(** `copies if x else x` on a mutable container field: deep in one branch, shared in the other — rejected. *)
Lemma cond_share_rejected :
  how_join HDeep HShare = HShare /\ field_fresh (KCont true) (how_join HDeep HShare) = false /\
  field_fresh (KCont false) (how_join HShallow HShare) = false /\ field_fresh KMut (how_join HDeep HShare) = false /\
  (* for an immutable field the same shape is harmless *)
  field_fresh KImm (how_join HDeep HShare) = true.
Proof. repeat split; reflexivity. Qed.

(** SHARED WHEN EMPTY.  The copy shares the original's list only because the list is empty.
    (1) Nothing is visible: original and copy are observed equal at every depth.
    (2) The premise of the frame theorem fails.
    (3) Filling the list through the copy (one store) changes what the original exports. *)
Lemma shared_when_empty :
  (forall n, unfold n empty_shared_heap (VRef 2%positive) = unfold n empty_shared_heap (VRef 1%positive)) /\
  ~ sep empty_shared_heap 1%positive [2%positive] /\
  exists h', steps (empty_shared_heap, [2%positive]) [MStore 3%positive [VAtom 7%Z]] (h', [2%positive]) /\
             unfold 2 h' (VRef 1%positive) <> unfold 2 empty_shared_heap (VRef 1%positive).
Proof.
  split; [|split].
  - intros [|[|n]]; reflexivity.
  - intros H. apply (H 3%positive).
    + eapply reach_step; [constructor|reflexivity|right; left; reflexivity].
    + exists 2%positive. split; [left; reflexivity|].
      eapply reach_step; [constructor|reflexivity|right; left; reflexivity].
    + eexists. split; reflexivity.
  - eexists. split.
    + eapply steps_cons; [|apply steps_nil].
      eapply (step_store empty_shared_heap [2%positive] 3%positive [VAtom 7%Z] (Node true [])).
      * exists 2%positive. split; [left; reflexivity|].
        eapply reach_step; [constructor| reflexivity | right; left; reflexivity].
      * reflexivity.
      * reflexivity.
      * intros v [<-|[]]. exact I.
    + cbv. discriminate.
Qed.

Lemma how_eqb_eq : forall a b, how_eqb a b = true -> a = b.
Proof. destruct a, b; simpl; intro H; try discriminate; reflexivity. Qed.

Lemma row_how_in : forall c f w, row_how c f = Some w -> exists k, In (f, k, w) c.
Proof.
  induction c as [|[[n k] w0] r IH]; simpl; intros f w H; [discriminate|].
  destruct (String.eqb n f) eqn:E.
  - injection H as <-. apply String.eqb_eq in E. subst. exists k. left. reflexivity.
  - destruct (IH _ _ H) as [k' Hk]. exists k'. right. exact Hk.
Qed.

(** What the instance obligation [conditional_rows_are_joins] means: every conditional row the translator found is,
    in the generated census, the join of its two branch rows; so if that census passes [copy_fresh_mutables] the row
    describing the branch an input really takes is fresh too, whatever the test says for that input. *)
Theorem cond_rows_ok_spec : forall allc rows, cond_rows_ok allc rows = true ->
  forall lab f a b, In (lab, f, a, b) rows ->
  exists c k, clookup lab allc = Some c /\ In (f, k, how_join a b) c /\
              (field_fresh k (how_join a b) = true -> forall t : bool, field_fresh k (if t then a else b) = true).
Proof.
  intros allc rows H lab f a b HI.
  unfold cond_rows_ok in H. rewrite forallb_forall in H. specialize (H _ HI). simpl in H.
  apply andb_true_iff in H. destruct H as [H H3]. apply andb_true_iff in H. destruct H as [Ha Hb].
  destruct (clookup lab allc) as [c|] eqn:E; [|discriminate].
  destruct (row_how c f) as [w|] eqn:E2; [|discriminate].
  apply how_eqb_eq in H3. subst w.
  destruct (row_how_in _ _ _ E2) as [k Hk].
  exists c, k. split; [reflexivity|]. split; [exact Hk|].
  intros Hf t. exact (join_fresh_sound k a b Ha Hb Hf t).
Qed.

(** Not vacuous / sensitive: the census of seeded fault c09_6 (Keyvalues.copy with `value and isinstance(value, list)`). *)
Definition cr_census : census := [("_real_name"%string, KImm, HShare); ("_value"%string, KCont true, HShare)].
Definition cr_census_claims_deep : census := [("_real_name"%string, KImm, HShare); ("_value"%string, KCont true, HDeep)].
Lemma cond_rows_example :
  cond_rows_ok [("Keyvalues"%string, cr_census)] [("Keyvalues"%string, "_value"%string, HDeep, HShare)] = true /\
  copy_fresh_mutables cr_census = false /\
  (* a census that records the better branch for a conditional field is rejected *)
  cond_rows_ok [("Keyvalues"%string, cr_census_claims_deep)] [("Keyvalues"%string, "_value"%string, HDeep, HShare)] = false.
Proof. repeat split; reflexivity. Qed.

(** A guarded post-construction store carries every value iff the guard fails only on the default. *)
Lemma guarded_store_complete_iff : forall A (g : A -> bool) (d : A),
  (forall v, guarded_store g d v = v) <-> (forall v, g v = false -> v = d).
Proof.
  intros A g d. unfold guarded_store. split.
  - intros H v Hg. specialize (H v). rewrite Hg in H. symmetry. exact H.
  - intros H v. destruct (g v) eqn:E; [reflexivity|]. symmetry. apply H. exact E.
Qed.

(** [if self.f is not None:] with default None carries every value ... *)
Lemma is_not_none_guard_complete : forall v : optlist, guarded_store g_is_not_none None v = v.
Proof. intros [l|]; reflexivity. Qed.

(** ... [if self.f:] loses exactly the EMPTY list (the copy gets None: `point_data { numpts 0 }` disappears). *)
Lemma truthy_guard_loses_empty :
  guarded_store g_truthy None (Some []) <> Some [] /\
  forall v : optlist, v <> Some [] -> guarded_store g_truthy None v = v.
Proof.
  split; [discriminate|]. intros [[|z l]|] H; try reflexivity. exfalso. apply H. reflexivity.
Qed.
