(** C16 — model of srctools._engine_db.EngineDB: the bundled entity database is a list of blocks, each
    holding the class names it defines and the raw bytes of their definitions.  Blocks are decoded on
    demand (get_ent -> _parse_block), a decoded block is replaced by an empty one, entities that name
    bases (aliases) have them looked up recursively; get_fgd decodes everything.

    Decoding is a parameter: a function of the block's class names and bytes (and of the immutable shared
    string table, which is part of the function).  Fuel bounds the depth of the recursive base lookups;
    [oof] records whether it ever ran out (LazyDbProofs.parse_block_fuel: it does not when the fuel
    exceeds the number of undecoded blocks). *)
From Coq Require Import List Arith Bool.
Import ListNotations.

Section LazyDb.
Variables (name ent bytes : Type).
Variable name_eqb : name -> name -> bool.
Variable decode : list name -> bytes -> list ent.
Variable ent_bases : ent -> list name.      (* base names stored in a definition (empty except for aliases) *)
Variable is_empty : bytes -> bool.          (* `if not data: return` *)
Variable empty_bytes : bytes.
(** how _parse_block turns the stored base names into definitions: [true] = `self.get_ent(base)` (decodes the
    base's block on demand), [false] = a look-up in `self.ent_map` that only succeeds for entries that are
    already decoded (read from the source by translate/c16_fgd.py: [lazy_via_get_ent]) *)
Variable via_get_ent : bool.

Definition block : Type := (list name * bytes)%type.
Inductive slot := Parsed (e : ent) | InBlock (i : nat).
(** [rbases]: for every decoded definition with stored base names, what each name was replaced by when its
    block was decoded (`ent.bases = [...]`): [Some e] = the definition object of the base, [None] = left as a name *)
Record db := mkdb { emap : list (name * slot); unparsed : list block; oof : bool;
                    rbases : list (name * list (option ent)) }.

Fixpoint lookup (c : name) (m : list (name * slot)) : option slot :=
  match m with [] => None | (k, v) :: r => if name_eqb k c then Some v else lookup c r end.

Fixpoint set_nth {A} (i : nat) (x : A) (l : list A) : list A :=
  match l with
  | [] => []
  | y :: r => match i with O => x :: r | S j => y :: set_nth j x r end
  end.

(** EngineDB.get_ent, with the block parser as a parameter (so that the recursion is on the fuel only).
    None = KeyError / the assertion `isinstance(entity, EntityDef)` fails. *)
Definition get_ent_with (pb : db -> nat -> db) (d : db) (c : name) : option ent * db :=
  match lookup c (emap d) with
  | Some (Parsed e) => (Some e, d)
  | Some (InBlock i) =>
      let d' := pb d i in
      (match lookup c (emap d') with Some (Parsed e) => Some e | _ => None end, d')
  | None => (None, d)
  end.

Definition peek (d : db) (c : name) : option ent :=
  match lookup c (emap d) with Some (Parsed e) => Some e | _ => None end.
Definition add_rec (d : db) (x : name * list (option ent)) : db :=
  mkdb (emap d) (unparsed d) (oof d) (x :: rbases d).

(** the list comprehension over `ent.bases` *)
Fixpoint resolve_list (pb : db -> nat -> db) (d : db) (bs : list name) : list (option ent) * db :=
  match bs with
  | [] => ([], d)
  | b :: r => let '(x, d1) := if via_get_ent then get_ent_with pb d b else (peek d b, d) in
              let '(xs, d2) := resolve_list pb d1 r in (x :: xs, d2)
  end.
(** one round of `for ent in apply_bases:` (`if ent.bases: apply_bases.append(ent)`) *)
Definition resolve_ent (pb : db -> nat -> db) (d : db) (ce : name * ent) : db :=
  match ent_bases (snd ce) with
  | [] => d
  | bs => let '(rb, d') := resolve_list pb d bs in add_rec d' (fst ce, rb)
  end.

(** EngineDB._parse_block *)
Fixpoint parse_block (fuel : nat) (d : db) (i : nat) : db :=
  match nth_error (unparsed d) i with
  | None => d
  | Some (classes, data) =>
      if is_empty data then d
      else match fuel with
           | O => mkdb (emap d) (unparsed d) true (rbases d)
           | S f =>
               let ents := decode classes data in
               let d1 := mkdb (combine classes (map Parsed ents) ++ emap d)
                              (set_nth i ([], empty_bytes) (unparsed d)) (oof d) (rbases d) in
               fold_left (resolve_ent (parse_block f)) (combine classes ents) d1
           end
  end.

Definition get_ent (fuel : nat) (d : db) (c : name) : option ent * db := get_ent_with (parse_block fuel) d c.

(** a sequence of engine_def() queries on one database *)
Fixpoint run_queries (fuel : nat) (d : db) (qs : list name) : list (option ent) * db :=
  match qs with
  | [] => ([], d)
  | c :: r => let '(x, d') := get_ent fuel d c in let '(xs, d'') := run_queries fuel d' r in (x :: xs, d'')
  end.

(** the same, observing also what the bases of the answer were replaced by *)
Fixpoint rassoc (c : name) (l : list (name * list (option ent))) : option (list (option ent)) :=
  match l with [] => None | (k, v) :: r => if name_eqb k c then Some v else rassoc c r end.
Definition rb_of (d : db) (c : name) : list (option ent) := match rassoc c (rbases d) with Some rb => rb | None => [] end.
Definition get_full (fuel : nat) (d : db) (c : name) : option (ent * list (option ent)) * db :=
  let '(x, d') := get_ent fuel d c in (option_map (fun e => (e, rb_of d' c)) x, d').
Fixpoint run_full (fuel : nat) (d : db) (qs : list name) : list (option (ent * list (option ent))) * db :=
  match qs with
  | [] => ([], d)
  | c :: r => let '(x, d') := get_full fuel d c in let '(xs, d'') := run_full fuel d' r in (x :: xs, d'')
  end.

(** EngineDB.get_fgd: decode every block that still has data *)
Definition parse_all (fuel : nat) (d : db) : db :=
  fold_left (fun d' i => parse_block fuel d' i) (seq 0 (length (unparsed d))) d.

(** unserialise(): every class name points at its block *)
Fixpoint init_map (i : nat) (bs : list block) : list (name * slot) :=
  match bs with
  | [] => []
  | (cs, _) :: r => map (fun c => (c, InBlock i)) cs ++ init_map (S i) r
  end.
Definition init (bs : list block) : db := mkdb (init_map 0 bs) bs false [].

(** what the file says: the definition of a class is the entry at its position in its block *)
Fixpoint assoc (c : name) (l : list (name * ent)) : option ent :=
  match l with [] => None | (k, v) :: r => if name_eqb k c then Some v else assoc c r end.
Definition all_defs (bs : list block) : list (name * ent) :=
  flat_map (fun b => combine (fst b) (decode (fst b) (snd b))) bs.
Definition spec (bs : list block) (c : name) : option ent := assoc c (all_defs bs).

Definition is_parsed (d : db) (c : name) : bool :=
  match lookup c (emap d) with Some (Parsed _) => true | _ => false end.
Definition cnt (d : db) : nat := length (filter (fun b => negb (is_empty (snd b))) (unparsed d)).
Definition parsed_blocks (d : db) : list nat :=
  filter (fun i => match nth_error (unparsed d) i with Some (_, data) => is_empty data | None => false end)
         (seq 0 (length (unparsed d))).
End LazyDb.
