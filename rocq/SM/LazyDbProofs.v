(** C16 — proofs about SM/LazyDb.v: looking entities up one at a time, in any order, gives what decoding
    the whole database gives. *)
From Coq Require Import List Arith Bool Lia.
From SV Require Import SM.LazyDb.
Import ListNotations.

Section Proofs.
Variables (name ent bytes : Type).
Variable name_eqb : name -> name -> bool.
Hypothesis name_eqb_spec : forall a b, name_eqb a b = true <-> a = b.
Variable decode : list name -> bytes -> list ent.
(** one definition is decoded per class name of the block *)
Hypothesis decode_len : forall cs data, length (decode cs data) = length cs.
Variable ent_bases : ent -> list name.
Variable is_empty : bytes -> bool.
Variable empty_bytes : bytes.
Hypothesis empty_is_empty : is_empty empty_bytes = true.
Variable via_get_ent : bool.
(** the file: no class name occurs twice, every block has data *)
Variable B : list (block name bytes).
Hypothesis B_nodup : NoDup (flat_map fst B).
Hypothesis B_nonempty : Forall (fun b => is_empty (snd b) = false) B.

Local Notation db := (db name ent bytes).
Local Notation lookup := (lookup name ent name_eqb).
Local Notation assoc := (assoc name ent name_eqb).
Local Notation parse_block := (parse_block name ent bytes name_eqb decode ent_bases is_empty empty_bytes via_get_ent).
Local Notation get_ent_with := (get_ent_with name ent bytes name_eqb).
Local Notation get_ent := (get_ent name ent bytes name_eqb decode ent_bases is_empty empty_bytes via_get_ent).
Local Notation run_queries := (run_queries name ent bytes name_eqb decode ent_bases is_empty empty_bytes via_get_ent).
Local Notation parse_all := (parse_all name ent bytes name_eqb decode ent_bases is_empty empty_bytes via_get_ent).
Local Notation spec := (spec name ent bytes name_eqb decode B).
Local Notation is_parsed := (is_parsed name ent bytes name_eqb).
Local Notation Parsed := (Parsed ent).
Local Notation InBlock := (InBlock ent).

Lemma eqb_refl c : name_eqb c c = true.
Proof. apply name_eqb_spec. reflexivity. Qed.
Lemma eqb_false a b : a <> b -> name_eqb a b = false.
Proof. intros H. destruct (name_eqb a b) eqn:E; [apply name_eqb_spec in E; contradiction|reflexivity]. Qed.

(** * Association lists *)
Lemma lookup_app c a b : lookup c (a ++ b) = match lookup c a with Some s => Some s | None => lookup c b end.
Proof. induction a as [|[k v] r IH]; cbn [LazyDb.lookup app]; [reflexivity|]. destruct (name_eqb k c); auto. Qed.
Lemma assoc_app c a b : assoc c (a ++ b) = match assoc c a with Some s => Some s | None => assoc c b end.
Proof. induction a as [|[k v] r IH]; cbn [LazyDb.assoc app]; [reflexivity|]. destruct (name_eqb k c); auto. Qed.

Lemma lookup_combine_parsed c cs : forall es,
  lookup c (combine cs (map Parsed es)) = option_map Parsed (assoc c (combine cs es)).
Proof.
  induction cs as [|k cs IH]; intros [|e es]; cbn [combine map LazyDb.lookup LazyDb.assoc option_map]; try reflexivity.
  destruct (name_eqb k c); [reflexivity|apply IH].
Qed.
Lemma assoc_combine_In c cs : forall es e, assoc c (combine cs es) = Some e -> In c cs.
Proof.
  induction cs as [|k cs IH]; intros [|x es] e; cbn [combine LazyDb.assoc]; try discriminate.
  destruct (name_eqb k c) eqn:E; [apply name_eqb_spec in E; left; exact E|right; eapply IH; eauto].
Qed.
Lemma assoc_combine_some c cs : forall es, In c cs -> length es = length cs -> exists e, assoc c (combine cs es) = Some e.
Proof.
  induction cs as [|k cs IH]; intros [|x es] Hin Hlen; cbn [length] in Hlen; try discriminate; [destruct Hin|].
  cbn [combine LazyDb.assoc]. destruct (name_eqb k c) eqn:E; [eauto|].
  destruct Hin as [->|Hin]; [rewrite eqb_refl in E; discriminate|]. apply IH; [exact Hin|lia].
Qed.
Lemma assoc_combine_notin c cs : forall es, ~ In c cs -> assoc c (combine cs es) = None.
Proof.
  intros es H. destruct (assoc c (combine cs es)) eqn:E; [|reflexivity]. exfalso. eapply H, assoc_combine_In; eauto.
Qed.

Lemma NoDup_app_r {A} (a b : list A) : NoDup (a ++ b) -> NoDup b.
Proof. induction a as [|x a IH]; cbn [app]; [auto|]. intros H. inversion H; auto. Qed.

Lemma spec_none_gen c (bs : list (block name bytes)) :
  (forall b, In b bs -> ~ In c (fst b)) -> assoc c (all_defs name ent bytes decode bs) = None.
Proof.
  induction bs as [|b bs IH]; intros H; cbn [all_defs flat_map]; [reflexivity|].
  rewrite assoc_app, assoc_combine_notin by (apply H; left; reflexivity). apply IH. intros; apply H; right; assumption.
Qed.
Lemma spec_block_gen c e (bs : list (block name bytes)) : NoDup (flat_map fst bs) -> forall i cs data,
  nth_error bs i = Some (cs, data) -> assoc c (combine cs (decode cs data)) = Some e ->
  assoc c (all_defs name ent bytes decode bs) = Some e.
Proof.
  induction bs as [|b bs IH]; intros Hnd [|i] cs data Hi He; cbn [nth_error] in Hi; try discriminate.
  - injection Hi as ->. cbn [all_defs flat_map fst snd]. rewrite assoc_app, He. reflexivity.
  - cbn [flat_map] in Hnd. cbn [all_defs flat_map]. rewrite assoc_app.
    assert (Hc : In c (flat_map fst bs)).
    { apply in_flat_map. exists (cs, data). split; [eapply nth_error_In; eauto|eapply assoc_combine_In; eauto]. }
    rewrite assoc_combine_notin.
    + apply NoDup_app_r in Hnd. eapply IH; eauto.
    + intros Hin. clear -Hnd Hin Hc. induction (fst b) as [|x l IHl]; [destruct Hin|].
      cbn [app] in Hnd. inversion Hnd as [|? ? Hx Hnd']; subst. destruct Hin as [->|Hin].
      * apply Hx, in_or_app. right. exact Hc.
      * apply IHl; assumption.
Qed.

(** * The invariant *)
Record Inv (d : db) : Prop := {
  inv_len : length (unparsed _ _ _ d) = length B;
  inv_blocks : forall i, nth_error (unparsed _ _ _ d) i = nth_error B i
                         \/ nth_error (unparsed _ _ _ d) i = Some ([], empty_bytes);
  inv_map : forall c, match lookup c (emap _ _ _ d) with
                      | Some (LazyDb.Parsed _ e) => spec c = Some e
                      | Some (LazyDb.InBlock _ i) =>
                          exists cs data, nth_error B i = Some (cs, data) /\ In c cs
                                          /\ nth_error (unparsed _ _ _ d) i = Some (cs, data)
                      | None => spec c = None
                      end }.

Lemma lookup_map_inblock c i cs :
  lookup c (map (fun c => (c, InBlock i)) cs) = if existsb (fun k => name_eqb k c) cs then Some (InBlock i) else None.
Proof. induction cs as [|k cs IH]; cbn [map LazyDb.lookup existsb]; [reflexivity|]. destruct (name_eqb k c); auto. Qed.
Lemma existsb_name c cs : existsb (fun k => name_eqb k c) cs = true <-> In c cs.
Proof.
  rewrite existsb_exists. split; [intros [k [Hk E]]; apply name_eqb_spec in E; subst; exact Hk|].
  intros H. exists c. split; [exact H|apply eqb_refl].
Qed.

Lemma init_map_spec c : forall (bs : list (block name bytes)) k,
  match lookup c (init_map name ent bytes k bs) with
  | Some (LazyDb.Parsed _ _) => False
  | Some (LazyDb.InBlock _ i) => exists j cs data, i = (k + j)%nat /\ nth_error bs j = Some (cs, data) /\ In c cs
  | None => forall b, In b bs -> ~ In c (fst b)
  end.
Proof.
  induction bs as [|[cs data] bs IH]; intros k; cbn [init_map LazyDb.lookup]; [intros b []|].
  rewrite lookup_app, lookup_map_inblock. destruct (existsb (fun k0 => name_eqb k0 c) cs) eqn:E.
  - apply existsb_name in E. exists 0%nat, cs, data. repeat split; [lia|exact E].
  - specialize (IH (S k)). destruct (lookup c (init_map name ent bytes (S k) bs)) as [[e|i]|].
    + exact IH.
    + destruct IH as [j [cs' [data' [-> [Hj Hc]]]]]. exists (S j), cs', data'. repeat split; [lia|exact Hj|exact Hc].
    + intros b [<-|Hb]; [cbn [fst]; intros Hin; apply existsb_name in Hin; congruence|apply IH, Hb].
Qed.

Lemma Inv_init : Inv (init name ent bytes B).
Proof.
  constructor; cbn [init unparsed emap]; [reflexivity|auto|].
  intros c. pose proof (init_map_spec c B 0) as H.
  destruct (lookup c (init_map name ent bytes 0 B)) as [[e|i]|].
  - destruct H.
  - destruct H as [j [cs [data [-> [Hj Hc]]]]]. cbn [Nat.add]. eauto.
  - apply spec_none_gen, H.
Qed.

Lemma Inv_oof d b r : Inv d -> Inv (mkdb _ _ _ (emap _ _ _ d) (unparsed _ _ _ d) b r).
Proof. intros [H1 H2 H3]. constructor; cbn [emap unparsed]; assumption. Qed.
Lemma Inv_add_rec d x : Inv d -> Inv (add_rec _ _ _ d x).
Proof. apply Inv_oof. Qed.

Lemma set_nth_length {A} i (x : A) l : length (set_nth i x l) = length l.
Proof. revert i. induction l as [|y r IH]; intros [|i]; cbn [set_nth length]; auto. Qed.
Lemma set_nth_same {A} i (x : A) l : (i < length l)%nat -> nth_error (set_nth i x l) i = Some x.
Proof. revert i. induction l as [|y r IH]; intros [|i] H; cbn [set_nth length nth_error] in *; try lia; auto. apply IH. lia. Qed.
Lemma set_nth_other {A} i j (x : A) l : i <> j -> nth_error (set_nth i x l) j = nth_error l j.
Proof. revert i j. induction l as [|y r IH]; intros [|i] [|j] H; cbn [set_nth nth_error]; try congruence; auto. Qed.

Lemma get_ent_with_mono (P : db -> Prop) pb d c : (forall d i, P d -> P (pb d i)) -> P d -> P (snd (get_ent_with pb d c)).
Proof. intros Hpb Hd. unfold LazyDb.get_ent_with. destruct (lookup c (emap _ _ _ d)) as [[e|i]|]; cbn [snd]; auto. Qed.
Lemma fold_mono {X} (P : db -> Prop) (f : db -> X -> db) l : (forall d b, P d -> P (f d b)) -> forall d, P d -> P (fold_left f l d).
Proof. intros Hf. induction l as [|b l IH]; intros d Hd; cbn [fold_left]; auto. Qed.
Local Notation resolve_list := (resolve_list name ent bytes name_eqb via_get_ent).
Local Notation resolve_ent := (resolve_ent name ent bytes name_eqb ent_bases via_get_ent).
Lemma resolve_list_mono (P : db -> Prop) pb : (forall d i, P d -> P (pb d i)) ->
  forall bs d, P d -> P (snd (resolve_list pb d bs)).
Proof.
  intros Hpb. induction bs as [|b bs IH]; intros d Hd; cbn [LazyDb.resolve_list snd]; [exact Hd|].
  assert (H1 : P (snd (if via_get_ent then get_ent_with pb d b else (peek _ _ _ name_eqb d b, d)))).
  { destruct via_get_ent; [apply get_ent_with_mono; assumption|exact Hd]. }
  destruct (if via_get_ent then get_ent_with pb d b else (peek _ _ _ name_eqb d b, d)) as [x d1]. cbn [snd] in H1.
  specialize (IH d1 H1). destruct (resolve_list pb d1 bs) as [xs d2]. exact IH.
Qed.
(** a property kept by decoding blocks and by recording a resolution is kept by one round of the bases loop *)
Lemma resolve_ent_mono (P : db -> Prop) pb d ce : (forall d i, P d -> P (pb d i)) ->
  (forall d x, P d -> P (add_rec _ _ _ d x)) -> P d -> P (resolve_ent pb d ce).
Proof.
  intros Hpb Hr Hd. unfold LazyDb.resolve_ent. destruct (ent_bases (snd ce)) as [|b bs]; [exact Hd|].
  pose proof (resolve_list_mono P pb Hpb (b :: bs) d Hd) as H. destruct (resolve_list pb d (b :: bs)) as [rb d'].
  apply Hr, H.
Qed.

Lemma parse_block_inv f : forall d i, Inv d -> Inv (parse_block f d i).
Proof.
  induction f as [|f IH]; intros d i Hd; cbn [LazyDb.parse_block].
  - destruct (nth_error (unparsed _ _ _ d) i) as [[cs data]|]; [|exact Hd].
    destruct (is_empty data); [exact Hd|apply Inv_oof, Hd].
  - destruct (nth_error (unparsed _ _ _ d) i) as [[cs data]|] eqn:Ei; [|exact Hd].
    destruct (is_empty data) eqn:Ee; [exact Hd|].
    apply (fold_mono Inv); [intros d' b Hd'; apply resolve_ent_mono; [exact IH|apply Inv_add_rec|exact Hd']|].
    (* the state right after the block's entries have been stored *)
    assert (HB : nth_error B i = Some (cs, data)).
    { destruct (inv_blocks d Hd i) as [H|H]; rewrite Ei in H; [symmetry; exact H|].
      injection H as -> ->. congruence. }
    assert (Hi : (i < length (unparsed _ _ _ d))%nat) by (apply nth_error_Some; congruence).
    constructor; cbn [emap unparsed].
    + rewrite set_nth_length. apply (inv_len d Hd).
    + intros j. destruct (Nat.eq_dec i j) as [<-|Hij]; [right; apply set_nth_same, Hi|].
      rewrite set_nth_other by exact Hij. apply (inv_blocks d Hd).
    + intros c. rewrite lookup_app, lookup_combine_parsed.
      destruct (assoc c (combine cs (decode cs data))) as [e|] eqn:Ea; cbn [option_map].
      * eapply spec_block_gen; eauto.
      * pose proof (inv_map d Hd c) as Hc. destruct (lookup c (emap _ _ _ d)) as [[e|j]|]; [exact Hc| |exact Hc].
        destruct Hc as [cs' [data' [Hj [Hin Hu]]]]. exists cs', data'. repeat split; [exact Hj|exact Hin|].
        destruct (Nat.eq_dec i j) as [<-|Hij]; [|rewrite set_nth_other by exact Hij; exact Hu].
        exfalso. rewrite HB in Hj. injection Hj as <- <-.
        destruct (assoc_combine_some c cs (decode cs data) Hin (decode_len cs data)) as [e He]. congruence.
Qed.

(** * Entries, once decoded, stay decoded; blocks, once emptied, stay empty *)
Definition marked (d : db) (i : nat) : Prop := nth_error (unparsed _ _ _ d) i = Some ([], empty_bytes).

Lemma parse_block_parsed_mono c f : forall d i, is_parsed d c = true -> is_parsed (parse_block f d i) c = true.
Proof.
  induction f as [|f IH]; intros d i Hd; cbn [LazyDb.parse_block].
  - destruct (nth_error (unparsed _ _ _ d) i) as [[cs data]|]; [|exact Hd]. destruct (is_empty data); exact Hd.
  - destruct (nth_error (unparsed _ _ _ d) i) as [[cs data]|]; [|exact Hd]. destruct (is_empty data); [exact Hd|].
    apply (fold_mono (fun d => is_parsed d c = true)).
    + intros d' b Hd'. apply (resolve_ent_mono (fun d => is_parsed d c = true)); [exact IH|intros ? ? H; exact H|exact Hd'].
    + unfold LazyDb.is_parsed in *. cbn [emap]. rewrite lookup_app, lookup_combine_parsed.
      destruct (assoc c (combine cs (decode cs data))); cbn [option_map]; [reflexivity|exact Hd].
Qed.

Lemma parse_block_marked_mono j f : forall d i, marked d j -> marked (parse_block f d i) j.
Proof.
  induction f as [|f IH]; intros d i Hd; cbn [LazyDb.parse_block].
  - destruct (nth_error (unparsed _ _ _ d) i) as [[cs data]|]; [|exact Hd]. destruct (is_empty data); exact Hd.
  - destruct (nth_error (unparsed _ _ _ d) i) as [[cs data]|] eqn:Ei; [|exact Hd]. destruct (is_empty data); [exact Hd|].
    apply (fold_mono (fun d => marked d j)).
    + intros d' b Hd'. apply (resolve_ent_mono (fun d => marked d j)); [exact IH|intros ? ? H; exact H|exact Hd'].
    + unfold marked in *. cbn [unparsed]. destruct (Nat.eq_dec i j) as [<-|Hij].
      * apply set_nth_same. apply nth_error_Some. congruence.
      * rewrite set_nth_other by exact Hij. exact Hd.
Qed.

Lemma parse_block_marks f d i : Inv d -> (i < length B)%nat -> marked (parse_block (S f) d i) i.
Proof.
  intros Hd Hi. cbn [LazyDb.parse_block].
  destruct (nth_error (unparsed _ _ _ d) i) as [[cs data]|] eqn:Ei.
  - destruct (is_empty data) eqn:Ee.
    + destruct (inv_blocks d Hd i) as [H|H]; [|exact H]. exfalso. rewrite Ei in H. symmetry in H.
      pose proof (nth_error_In _ _ H) as Hin. rewrite Forall_forall in B_nonempty.
      specialize (B_nonempty _ Hin). cbn [snd] in B_nonempty. congruence.
    + apply (fold_mono (fun d => marked d i)).
      * intros d' b Hd'. apply (resolve_ent_mono (fun d => marked d i)); [apply parse_block_marked_mono|intros ? ? H; exact H|exact Hd'].
      * unfold marked. cbn [unparsed]. apply set_nth_same. apply nth_error_Some. congruence.
  - exfalso. apply nth_error_None in Ei. rewrite (inv_len d Hd) in Ei. lia.
Qed.

(** * Results *)
Theorem get_ent_correct f d c : Inv d ->
  fst (get_ent (S f) d c) = spec c /\ Inv (snd (get_ent (S f) d c)).
Proof.
  intros Hd. split; [|apply (get_ent_with_mono Inv); [intros; apply parse_block_inv; assumption|exact Hd]].
  unfold LazyDb.get_ent, LazyDb.get_ent_with. pose proof (inv_map d Hd c) as Hc.
  destruct (lookup c (emap _ _ _ d)) as [[e|i]|] eqn:El; cbn [fst]; [symmetry; exact Hc| |symmetry; exact Hc].
  destruct Hc as [cs [data [HB [Hin Hu]]]].
  assert (He : is_empty data = false).
  { pose proof (nth_error_In _ _ HB) as HinB. rewrite Forall_forall in B_nonempty. apply (B_nonempty _ HinB). }
  set (d' := parse_block (S f) d i).
  assert (Hp : is_parsed d' c = true).
  { unfold d'. cbn [LazyDb.parse_block]. rewrite Hu, He.
    apply (fold_mono (fun d => is_parsed d c = true)).
    - intros d0 b Hd0. apply (resolve_ent_mono (fun d => is_parsed d c = true)); [apply parse_block_parsed_mono|intros ? ? H; exact H|exact Hd0].
    - unfold LazyDb.is_parsed. cbn [emap]. rewrite lookup_app, lookup_combine_parsed.
      destruct (assoc_combine_some c cs (decode cs data) Hin (decode_len cs data)) as [e ->]. reflexivity. }
  pose proof (parse_block_inv (S f) d i Hd) as Hd'. fold d' in Hd'. pose proof (inv_map d' Hd' c) as Hc'.
  unfold LazyDb.is_parsed in Hp. destruct (lookup c (emap _ _ _ d')) as [[e|j]|]; try discriminate. symmetry. exact Hc'.
Qed.

Theorem run_queries_correct f qs : forall d, Inv d ->
  fst (run_queries (S f) d qs) = map (fun c => spec c) qs /\ Inv (snd (run_queries (S f) d qs)).
Proof.
  induction qs as [|c qs IH]; intros d Hd; cbn [LazyDb.run_queries map]; [auto|].
  destruct (get_ent_correct f d c Hd) as [Hv Hi]. destruct (get_ent (S f) d c) as [x d'] eqn:E. cbn [fst snd] in *.
  destruct (IH d' Hi) as [Hv' Hi']. destruct (run_queries (S f) d' qs) as [xs d'']. cbn [fst snd] in *.
  subst. auto.
Qed.

Lemma parse_all_fold f l : forall d, Inv d -> (forall i, In i l -> (i < length B)%nat) ->
  let d' := fold_left (fun d' i => parse_block (S f) d' i) l d in
  Inv d' /\ (forall i, marked d i \/ In i l -> marked d' i).
Proof.
  induction l as [|j l IH]; intros d Hd Hl; cbn [fold_left].
  - split; [exact Hd|]. intros i [H|[]]. exact H.
  - destruct (IH (parse_block (S f) d j) (parse_block_inv _ _ _ Hd) (fun i H => Hl i (or_intror H))) as [H1 H2].
    split; [exact H1|]. intros i [H|[<-|H]]; apply H2.
    + left. apply parse_block_marked_mono, H.
    + left. apply parse_block_marks; [exact Hd|apply Hl; left; reflexivity].
    + right. exact H.
Qed.

(** what loading the whole database yields for a class *)
Definition eager (f : nat) (c : name) : option ent :=
  match lookup c (emap _ _ _ (parse_all (S f) (init name ent bytes B))) with
  | Some (LazyDb.Parsed _ e) => Some e
  | _ => None
  end.

Theorem eager_correct f c : eager f c = spec c.
Proof.
  unfold eager, LazyDb.parse_all. cbn [init unparsed].
  destruct (parse_all_fold f (seq 0 (length B)) (init name ent bytes B) Inv_init) as [Hinv Hmark].
  { intros i Hi. apply in_seq in Hi. lia. }
  cbn zeta in Hinv, Hmark. set (d' := fold_left _ _ _) in *.
  pose proof (inv_map d' Hinv c) as Hc. destruct (lookup c (emap _ _ _ d')) as [[e|i]|]; [symmetry; exact Hc| |symmetry; exact Hc].
  exfalso. destruct Hc as [cs [data [HB [Hin Hu]]]].
  assert (Hi : (i < length B)%nat) by (apply nth_error_Some; congruence).
  assert (Hm : marked d' i) by (apply Hmark; right; apply in_seq; lia).
  unfold marked in Hm. rewrite Hu in Hm. injection Hm as -> ->.
  pose proof (nth_error_In _ _ HB) as HinB. rewrite Forall_forall in B_nonempty. specialize (B_nonempty _ HinB).
  cbn [snd] in B_nonempty. congruence.
Qed.

(** Looking classes up one at a time, in any order and with any repetitions, on a fresh database gives
    exactly the definitions that loading the whole database gives. *)
Theorem lazy_equals_eager f g qs :
  fst (run_queries (S f) (init name ent bytes B) qs) = map (eager g) qs.
Proof.
  destruct (run_queries_correct f qs _ Inv_init) as [-> _]. apply map_ext. intros c. symmetry. apply eager_correct.
Qed.

(** * The recursion of the base lookups is bounded by the number of undecoded blocks *)
Local Notation cnt := (cnt name ent bytes is_empty).
Definition cntl (l : list (block name bytes)) : nat := length (filter (fun b => negb (is_empty (snd b))) l).

Lemma cntl_set_nth l : forall i b, nth_error l i = Some b -> is_empty (snd b) = false ->
  (cntl (set_nth i ([], empty_bytes) l) + 1 = cntl l)%nat.
Proof.
  unfold cntl. induction l as [|y r IH]; intros [|i] b Hi Hb; cbn [nth_error] in Hi; try discriminate.
  - injection Hi as ->. cbn [set_nth filter snd]. rewrite empty_is_empty, Hb. cbn [negb length]. lia.
  - cbn [set_nth filter]. destruct (negb (is_empty (snd y))); cbn [length]; rewrite <- (IH i b Hi Hb); lia.
Qed.

Lemma filter_len_le {A} (f : A -> bool) l : (length (filter f l) <= length l)%nat.
Proof. induction l as [|x l IH]; cbn [filter length]; [lia|]. destruct (f x); cbn [length]; lia. Qed.

Definition within (n : nat) (d : db) : Prop := (cnt d <= n)%nat /\ oof _ _ _ d = false.

Lemma parse_block_fuel f : forall d i, within f d -> within (cnt d) (parse_block f d i).
Proof.
  induction f as [|f IH]; intros d i [Hc Ho]; cbn [LazyDb.parse_block].
  - destruct (nth_error (unparsed _ _ _ d) i) as [[cs data]|] eqn:Ei; [|split; [lia|exact Ho]].
    destruct (is_empty data) eqn:Ee; [split; [lia|exact Ho]|].
    exfalso. pose proof (cntl_set_nth _ i (cs, data) Ei Ee) as H. unfold LazyDb.cnt in Hc. unfold cntl in H. lia.
  - destruct (nth_error (unparsed _ _ _ d) i) as [[cs data]|] eqn:Ei; [|split; [lia|exact Ho]].
    destruct (is_empty data) eqn:Ee; [split; [lia|exact Ho]|].
    pose proof (cntl_set_nth _ i (cs, data) Ei Ee) as H.
    set (d1 := mkdb _ _ _ _ _ _ _).
    assert (H1 : (cnt d1 + 1 = cnt d)%nat) by exact H.
    assert (W : within (cnt d1) (fold_left (resolve_ent (parse_block f)) (combine cs (decode cs data)) d1)).
    { apply (fold_mono (within (cnt d1))); [|split; [lia|exact Ho]].
      intros d' b Hd'. apply (resolve_ent_mono (within (cnt d1))); [|intros ? ? H0; exact H0|exact Hd'].
      intros d0 j [Hc0 Ho0]. destruct (IH d0 j) as [Hc1 Ho1]; [split; [lia|exact Ho0]|]. split; [lia|exact Ho1]. }
    destruct W as [Wc Wo]. split; [lia|exact Wo].
Qed.

Theorem run_queries_fuel f qs : forall d, within f d -> within f (snd (run_queries f d qs)).
Proof.
  induction qs as [|c qs IH]; intros d Hd; cbn [LazyDb.run_queries]; [exact Hd|].
  destruct (get_ent f d c) as [x d'] eqn:E.
  assert (Hd' : within f d').
  { replace d' with (snd (get_ent f d c)) by (rewrite E; reflexivity). unfold LazyDb.get_ent.
    apply (get_ent_with_mono (within f)); [|exact Hd].
    intros d0 j Hd0. destruct (parse_block_fuel f d0 j Hd0) as [H1 H2]. destruct Hd0 as [H3 _]. split; [lia|exact H2]. }
  specialize (IH d' Hd'). destruct (run_queries f d' qs) as [xs d'']. exact IH.
Qed.

(** with as much fuel as there are blocks, no sequence of queries ever exhausts it: a block is marked
    as decoded before its bases are looked up, so the nesting depth is at most the number of blocks *)
Theorem base_lookups_terminate f qs : (length B <= f)%nat ->
  oof _ _ _ (snd (run_queries f (init name ent bytes B) qs)) = false.
Proof.
  intros H. apply (run_queries_fuel f qs). split; [|reflexivity].
  unfold LazyDb.cnt. cbn [init unparsed]. etransitivity; [apply filter_len_le|exact H].
Qed.


(** * What the stored base names are replaced by (`ent.bases = [...]` in _parse_block) *)
Local Notation rassoc := (rassoc name ent name_eqb).
Local Notation get_full := (get_full name ent bytes name_eqb decode ent_bases is_empty empty_bytes via_get_ent).
Local Notation run_full := (run_full name ent bytes name_eqb decode ent_bases is_empty empty_bytes via_get_ent).
Local Notation add_rec := (add_rec name ent bytes).

(** what the file says, including the definitions of the bases *)
Definition full_spec (c : name) : option (ent * list (option ent)) :=
  option_map (fun e => (e, map (fun b => spec b) (ent_bases e))) (spec c).

Definition oof_set (d : db) : Prop := oof _ _ _ d = true.
Lemma parse_block_oof_mono f : forall d i, oof_set d -> oof_set (parse_block f d i).
Proof.
  induction f as [|f IH]; intros d i Hd; cbn [LazyDb.parse_block].
  - destruct (nth_error (unparsed _ _ _ d) i) as [[cs data]|]; [|exact Hd]. destruct (is_empty data); [exact Hd|reflexivity].
  - destruct (nth_error (unparsed _ _ _ d) i) as [[cs data]|]; [|exact Hd]. destruct (is_empty data); [exact Hd|].
    apply (fold_mono oof_set); [|exact Hd].
    intros d' b Hd'. apply (resolve_ent_mono oof_set); [exact IH|intros ? ? H; exact H|exact Hd'].
Qed.
Lemma oof_back (d d' : db) : (oof_set d -> oof_set d') -> oof _ _ _ d' = false -> oof _ _ _ d = false.
Proof. unfold oof_set. intros H H'. destruct (oof _ _ _ d); [rewrite H in H' by reflexivity; discriminate|reflexivity]. Qed.

(** a look-up that did not run out of fuel returns what the file says *)
Lemma get_ent_with_answer f d b : Inv d ->
  oof _ _ _ (snd (get_ent_with (parse_block f) d b)) = false -> fst (get_ent_with (parse_block f) d b) = spec b.
Proof.
  intros Hd Ho. destruct f as [|f]; [|apply (get_ent_correct f d b Hd)].
  unfold LazyDb.get_ent_with in *. pose proof (inv_map d Hd b) as Hb.
  destruct (lookup b (emap _ _ _ d)) as [[e|i]|]; cbn [fst snd] in *; [symmetry; exact Hb| |symmetry; exact Hb].
  exfalso. destruct Hb as [cs [data [HB [Hin Hu]]]]. cbn [LazyDb.parse_block] in Ho. rewrite Hu in Ho.
  pose proof (nth_error_In _ _ HB) as HinB. rewrite Forall_forall in B_nonempty. specialize (B_nonempty _ HinB).
  cbn [snd] in B_nonempty. rewrite B_nonempty in Ho. cbn [oof] in Ho. discriminate.
Qed.

(** soundness of the records: while the fuel has not run out, every record is what the file says *)
Definition RSound (d : db) : Prop := oof _ _ _ d = false ->
  forall c rb, rassoc c (rbases _ _ _ d) = Some rb -> exists e, spec c = Some e /\ rb = map (fun b => spec b) (ent_bases e).
Definition IR (d : db) : Prop := Inv d /\ RSound d.

Lemma if_via {X} (x y : X) : via_get_ent = true -> (if via_get_ent then x else y) = x.
Proof. intros H. rewrite H. reflexivity. Qed.

Lemma resolve_list_sound f (Hf : forall d i, IR d -> IR (parse_block f d i)) (Hv : via_get_ent = true) :
  forall bs d, IR d ->
  IR (snd (resolve_list (parse_block f) d bs))
  /\ (oof _ _ _ (snd (resolve_list (parse_block f) d bs)) = false ->
      fst (resolve_list (parse_block f) d bs) = map (fun b => spec b) bs).
Proof.
  induction bs as [|b bs IH]; intros d Hd; cbn [LazyDb.resolve_list fst snd map]; [auto|].
  rewrite (if_via _ _ Hv).
  pose proof (get_ent_with_mono IR (parse_block f) d b Hf Hd) as H1.
  pose proof (get_ent_with_answer f d b (proj1 Hd)) as H2.
  destruct (get_ent_with (parse_block f) d b) as [x d1]. cbn [fst snd] in H1, H2.
  destruct (IH d1 H1) as [H3 H4].
  pose proof (resolve_list_mono oof_set (parse_block f) (parse_block_oof_mono f) bs d1) as Hm.
  destruct (resolve_list (parse_block f) d1 bs) as [xs d2]. cbn [fst snd] in *.
  split; [exact H3|]. intros Ho. rewrite H4 by exact Ho. rewrite H2; [reflexivity|]. eapply oof_back; eauto.
Qed.

Lemma assoc_combine_nodup c e cs : forall es, NoDup cs -> In (c, e) (combine cs es) -> assoc c (combine cs es) = Some e.
Proof.
  induction cs as [|k cs IH]; intros [|x es] Hnd Hin; cbn [combine] in *; try destruct Hin.
  - injection H as -> ->. cbn [LazyDb.assoc]. rewrite eqb_refl. reflexivity.
  - inversion Hnd as [|? ? Hk Hnd']; subst. cbn [LazyDb.assoc]. rewrite eqb_false; [apply IH; assumption|].
    intros ->. apply Hk. eapply in_combine_l; eauto.
Qed.
Lemma B_block_nodup i cs data : nth_error B i = Some (cs, data) -> NoDup cs.
Proof.
  intros H. clear -H B_nodup. revert i H. induction B as [|b bs IH]; intros [|i] H; cbn [nth_error] in H; try discriminate.
  - injection H as ->. cbn [flat_map fst] in B_nodup. clear IH. induction cs as [|x l IHl]; [constructor|].
    cbn [app] in B_nodup. inversion B_nodup as [|? ? Hx Hn]; subst. constructor; [|apply IHl; exact Hn].
    intros Hin. apply Hx, in_or_app. left. exact Hin.
  - cbn [flat_map] in B_nodup. apply NoDup_app_r in B_nodup. eapply IH; eauto.
Qed.
Lemma block_entry_spec i cs data c e : nth_error B i = Some (cs, data) -> In (c, e) (combine cs (decode cs data)) -> spec c = Some e.
Proof.
  intros HB Hin. eapply spec_block_gen; [exact B_nodup|exact HB|]. apply assoc_combine_nodup; [eapply B_block_nodup; eauto|exact Hin].
Qed.

Lemma rassoc_cons c k v l : rassoc c ((k, v) :: l) = if name_eqb k c then Some v else rassoc c l.
Proof. reflexivity. Qed.

Lemma resolve_ent_sound f (Hf : forall d i, IR d -> IR (parse_block f d i)) (Hv : via_get_ent = true) d c e :
  spec c = Some e -> IR d -> IR (resolve_ent (parse_block f) d (c, e)).
Proof.
  intros Hc Hd. unfold LazyDb.resolve_ent. cbn [fst snd]. destruct (ent_bases e) as [|b bs] eqn:Eb; [exact Hd|].
  destruct (resolve_list_sound f Hf Hv (b :: bs) d Hd) as [[H1 H2] H3].
  destruct (resolve_list (parse_block f) d (b :: bs)) as [rb d']. cbn [fst snd] in *.
  split; [apply Inv_add_rec, H1|]. intros Ho c' rb'. cbn [LazyDb.add_rec rbases oof] in *. rewrite rassoc_cons.
  destruct (name_eqb c c') eqn:E; [|apply H2, Ho].
  apply name_eqb_spec in E. subst c'. intros [= <-]. exists e. split; [exact Hc|]. rewrite Eb. apply H3, Ho.
Qed.

Lemma Inv_store d i cs data : Inv d -> nth_error (unparsed _ _ _ d) i = Some (cs, data) -> is_empty data = false ->
  nth_error B i = Some (cs, data)
  /\ Inv (mkdb _ _ _ (combine cs (map Parsed (decode cs data)) ++ emap _ _ _ d)
               (set_nth i ([], empty_bytes) (unparsed _ _ _ d)) (oof _ _ _ d) (rbases _ _ _ d)).
Proof.
  intros Hd Ei Ee.
  assert (HB : nth_error B i = Some (cs, data)).
  { destruct (inv_blocks d Hd i) as [H|H]; rewrite Ei in H; [symmetry; exact H|]. injection H as -> ->. congruence. }
  split; [exact HB|].
  assert (Hi : (i < length (unparsed _ _ _ d))%nat) by (apply nth_error_Some; congruence).
  constructor; cbn [emap unparsed].
  + rewrite set_nth_length. apply (inv_len d Hd).
  + intros j. destruct (Nat.eq_dec i j) as [<-|Hij]; [right; apply set_nth_same, Hi|].
    rewrite set_nth_other by exact Hij. apply (inv_blocks d Hd).
  + intros c. rewrite lookup_app, lookup_combine_parsed.
    destruct (assoc c (combine cs (decode cs data))) as [e|] eqn:Ea; cbn [option_map].
    * eapply spec_block_gen; eauto.
    * pose proof (inv_map d Hd c) as Hc. destruct (lookup c (emap _ _ _ d)) as [[e|j]|]; [exact Hc| |exact Hc].
      destruct Hc as [cs' [data' [Hj [Hin Hu]]]]. exists cs', data'. repeat split; [exact Hj|exact Hin|].
      destruct (Nat.eq_dec i j) as [<-|Hij]; [|rewrite set_nth_other by exact Hij; exact Hu].
      exfalso. rewrite HB in Hj. injection Hj as <- <-.
      destruct (assoc_combine_some c cs (decode cs data) Hin (decode_len cs data)) as [e He]. congruence.
Qed.

Lemma fold_resolve_sound f (Hf : forall d i, IR d -> IR (parse_block f d i)) (Hv : via_get_ent = true) l :
  (forall c e, In (c, e) l -> spec c = Some e) -> forall d, IR d -> IR (fold_left (resolve_ent (parse_block f)) l d).
Proof.
  induction l as [|[c e] l IH]; intros Hl d Hd; cbn [fold_left]; [exact Hd|].
  apply IH; [intros; apply Hl; right; assumption|]. apply resolve_ent_sound; auto. apply Hl. left. reflexivity.
Qed.

Lemma parse_block_sound (Hv : via_get_ent = true) f : forall d i, IR d -> IR (parse_block f d i).
Proof.
  induction f as [|f IH]; intros d i Hd; cbn [LazyDb.parse_block].
  - destruct (nth_error (unparsed _ _ _ d) i) as [[cs data]|]; [|exact Hd].
    destruct (is_empty data); [exact Hd|]. split; [apply Inv_oof, Hd|]. intros Ho. discriminate.
  - destruct (nth_error (unparsed _ _ _ d) i) as [[cs data]|] eqn:Ei; [|exact Hd].
    destruct (is_empty data) eqn:Ee; [exact Hd|].
    destruct (Inv_store d i cs data (proj1 Hd) Ei Ee) as [HB Hd1].
    apply (fold_resolve_sound f IH Hv).
    + intros c e Hin. eapply block_entry_spec; eauto.
    + split; [exact Hd1|]. exact (proj2 Hd).
Qed.

(** completeness of the records: every decoded definition with stored bases that is not in a block whose
    bases loop is still running ([pend]) has a record *)
Definition has_rec (d : db) (c : name) : Prop := rassoc c (rbases _ _ _ d) <> None.
Definition Complete (pend : name -> bool) (d : db) : Prop :=
  forall c e, pend c = false -> lookup c (emap _ _ _ d) = Some (Parsed e) -> ent_bases e <> [] -> has_rec d c.

Lemma has_rec_add d x c : has_rec d c -> has_rec (add_rec d x) c.
Proof.
  unfold has_rec. destruct x as [k v]. cbn [LazyDb.add_rec rbases]. rewrite rassoc_cons. destruct (name_eqb k c); [discriminate|auto].
Qed.
Lemma parse_block_rec_mono c f : forall d i, has_rec d c -> has_rec (parse_block f d i) c.
Proof.
  induction f as [|f IH]; intros d i Hd; cbn [LazyDb.parse_block].
  - destruct (nth_error (unparsed _ _ _ d) i) as [[cs data]|]; [|exact Hd]. destruct (is_empty data); exact Hd.
  - destruct (nth_error (unparsed _ _ _ d) i) as [[cs data]|]; [|exact Hd]. destruct (is_empty data); [exact Hd|].
    apply (fold_mono (fun d => has_rec d c)); [|exact Hd].
    intros d' b Hd'. apply (resolve_ent_mono (fun d => has_rec d c)); [exact IH|intros; apply has_rec_add; assumption|exact Hd'].
Qed.

Definition IC (pend : name -> bool) (d : db) : Prop := Inv d /\ Complete pend d.
Lemma Complete_add pend d x : Complete pend d -> Complete pend (add_rec d x).
Proof. intros H c e Hp Hl Hb. apply has_rec_add. exact (H c e Hp Hl Hb). Qed.

Lemma resolve_ent_records f c e d : ent_bases e <> [] -> has_rec (resolve_ent (parse_block f) d (c, e)) c.
Proof.
  intros Hb. unfold LazyDb.resolve_ent. cbn [fst snd]. destruct (ent_bases e) as [|b bs]; [congruence|].
  destruct (resolve_list (parse_block f) d (b :: bs)) as [rb d']. unfold has_rec. cbn [LazyDb.add_rec rbases].
  rewrite rassoc_cons, eqb_refl. discriminate.
Qed.
Lemma fold_resolve_records f l : forall d c e, In (c, e) l -> ent_bases e <> [] ->
  has_rec (fold_left (resolve_ent (parse_block f)) l d) c.
Proof.
  induction l as [|[k x] l IH]; intros d c e Hin Hb; cbn [fold_left]; [destruct Hin|].
  destruct Hin as [[= -> ->]|Hin]; [|eapply IH; eauto].
  apply (fold_mono (fun d => has_rec d c)); [|apply resolve_ent_records, Hb].
  intros d' b Hd'. apply (resolve_ent_mono (fun d => has_rec d c)); [apply parse_block_rec_mono|intros; apply has_rec_add; assumption|exact Hd'].
Qed.

Lemma parse_block_complete f : forall pend d i, IC pend d -> IC pend (parse_block f d i).
Proof.
  induction f as [|f IH]; intros pend d i Hd; cbn [LazyDb.parse_block].
  - destruct (nth_error (unparsed _ _ _ d) i) as [[cs data]|]; [|exact Hd].
    destruct (is_empty data); [exact Hd|]. split; [apply Inv_oof, Hd|exact (proj2 Hd)].
  - destruct (nth_error (unparsed _ _ _ d) i) as [[cs data]|] eqn:Ei; [|exact Hd].
    destruct (is_empty data) eqn:Ee; [exact Hd|].
    destruct (Inv_store d i cs data (proj1 Hd) Ei Ee) as [HB Hd1].
    set (d1 := mkdb _ _ _ _ _ _ _) in *.
    set (pend' := fun c => pend c || existsb (fun k => name_eqb k c) cs).
    assert (H1 : IC pend' d1).
    { split; [exact Hd1|]. intros c e Hp Hl Hb. unfold pend' in Hp. apply orb_false_elim in Hp. destruct Hp as [Hp Hn].
      unfold d1 in Hl. cbn [emap] in Hl. rewrite lookup_app, lookup_combine_parsed in Hl.
      destruct (assoc c (combine cs (decode cs data))) as [e0|] eqn:Ea; cbn [option_map] in Hl.
      - exfalso. apply assoc_combine_In in Ea. apply existsb_name in Ea. congruence.
      - exact (proj2 Hd c e Hp Hl Hb). }
    assert (H2 : IC pend' (fold_left (resolve_ent (parse_block f)) (combine cs (decode cs data)) d1)).
    { apply (fold_mono (IC pend')); [|exact H1]. intros d' b Hd'.
      apply (resolve_ent_mono (IC pend')); [apply IH| |exact Hd'].
      intros d0 x [Ha Hb]. split; [apply Inv_add_rec, Ha|apply Complete_add, Hb]. }
    split; [exact (proj1 H2)|]. intros c e Hp Hl Hb.
    destruct (existsb (fun k => name_eqb k c) cs) eqn:Ex.
    + apply existsb_name in Ex.
      destruct (assoc_combine_some c cs (decode cs data) Ex (decode_len cs data)) as [e0 He0].
      assert (Hs : spec c = Some e0) by (eapply spec_block_gen; eauto).
      pose proof (inv_map _ (proj1 H2) c) as Hm. rewrite Hl in Hm. rewrite Hs in Hm. injection Hm as <-.
      eapply fold_resolve_records; [|exact Hb].
      clear -He0 name_eqb_spec. revert He0. generalize (decode cs data) as es. induction cs as [|k cs IHc]; intros [|x es] H; cbn [combine LazyDb.assoc] in *; try discriminate.
      destruct (name_eqb k c) eqn:E; [apply name_eqb_spec in E; injection H as ->; subst; left; reflexivity|right; apply IHc, H].
    + apply (proj2 H2 c e); [unfold pend'; rewrite Hp, Ex; reflexivity|exact Hl|exact Hb].
Qed.

(** * Top level: the answers including the bases *)
Record Top (f : nat) (d : db) : Prop := {
  top_inv : Inv d; top_sound : RSound d; top_complete : Complete (fun _ => false) d; top_fuel : within f d }.

Lemma Top_init f : (length B <= f)%nat -> Top f (init name ent bytes B).
Proof.
  intros H. constructor; [apply Inv_init| | |].
  - intros _ c rb. cbn [init rbases LazyDb.rassoc]. discriminate.
  - intros c e _ Hl. exfalso. pose proof (init_map_spec c B 0) as Hs. cbn [init emap] in Hl. rewrite Hl in Hs. exact Hs.
  - split; [|reflexivity]. unfold LazyDb.cnt. cbn [init unparsed]. etransitivity; [apply filter_len_le|exact H].
Qed.

Lemma parse_block_top (Hv : via_get_ent = true) f d i : Top f d -> Top f (parse_block f d i).
Proof.
  intros [H1 H2 H3 H4]. constructor.
  - apply parse_block_inv, H1.
  - apply (parse_block_sound Hv f d i (conj H1 H2)).
  - apply (parse_block_complete f _ d i (conj H1 H3)).
  - destruct (parse_block_fuel f d i H4) as [Ha Hb]. destruct H4 as [Hc _]. split; [lia|exact Hb].
Qed.

Theorem get_full_correct (Hv : via_get_ent = true) f d c : Top f d ->
  fst (get_full f d c) = full_spec c /\ Top f (snd (get_full f d c)).
Proof.
  intros Hd. unfold LazyDb.get_full.
  assert (Ht : Top f (snd (get_ent f d c))).
  { unfold LazyDb.get_ent. apply (get_ent_with_mono (Top f)); [intros; apply parse_block_top; assumption|exact Hd]. }
  pose proof (get_ent_with_answer f d c (top_inv _ _ Hd)) as Ha. fold (get_ent f d c) in Ha.
  assert (Hl : forall e, fst (get_ent f d c) = Some e -> lookup c (emap _ _ _ (snd (get_ent f d c))) = Some (Parsed e)).
  { intros e. unfold LazyDb.get_ent, LazyDb.get_ent_with. destruct (lookup c (emap _ _ _ d)) as [[e0|i]|] eqn:El; cbn [fst snd]; try discriminate.
    - intros [= ->]. exact El.
    - destruct (lookup c (emap _ _ _ (parse_block f d i))) as [[e1|j]|]; try discriminate. intros [= ->]. reflexivity. }
  destruct (get_ent f d c) as [x d'] eqn:E. cbn [fst snd] in *. split; [|exact Ht].
  destruct Ht as [T1 T2 T3 [_ T4]]. rewrite Ha by exact T4. unfold full_spec.
  destruct (spec c) as [e|] eqn:Es; cbn [option_map]; [|reflexivity].
  specialize (Hl e (eq_trans (Ha T4) eq_refl)). unfold LazyDb.rb_of.
  destruct (rassoc c (rbases _ _ _ d')) as [rb|] eqn:Er.
  - destruct (T2 T4 c rb Er) as [e' [He' ->]]. congruence.
  - destruct (ent_bases e) as [|b bs] eqn:Eb; [reflexivity|]. exfalso.
    apply (T3 c e eq_refl Hl); [rewrite Eb; discriminate|exact Er].
Qed.

Theorem run_full_correct (Hv : via_get_ent = true) f qs : forall d, Top f d ->
  fst (run_full f d qs) = map full_spec qs /\ Top f (snd (run_full f d qs)).
Proof.
  induction qs as [|c qs IH]; intros d Hd; cbn [LazyDb.run_full map]; [auto|].
  destruct (get_full_correct Hv f d c Hd) as [Hv1 Hi]. destruct (get_full f d c) as [x d'] eqn:E. cbn [fst snd] in *.
  destruct (IH d' Hi) as [Hv' Hi']. destruct (run_full f d' qs) as [xs d'']. cbn [fst snd] in *.
  subst. auto.
Qed.

Lemma parse_all_top (Hv : via_get_ent = true) f d : Top f d -> Top f (parse_all f d).
Proof.
  unfold LazyDb.parse_all. generalize (seq 0 (length (unparsed _ _ _ d))) as l. intros l. revert d.
  induction l as [|i l IH]; intros d Hd; cbn [fold_left]; [exact Hd|]. apply IH, parse_block_top; assumption.
Qed.

(** the definition of a class, with its bases, in the completely loaded database *)
Definition eager_full (f : nat) (c : name) : option (ent * list (option ent)) :=
  fst (get_full f (parse_all f (init name ent bytes B)) c).

Theorem eager_full_correct (Hv : via_get_ent = true) f c : (length B <= f)%nat -> eager_full f c = full_spec c.
Proof. intros H. unfold eager_full. apply (get_full_correct Hv). apply parse_all_top; [exact Hv|]. apply Top_init, H. Qed.

(** One at a time in any order = the whole database, including what every stored base name was replaced by:
    every base is the definition object of that class (alias chains across blocks included). *)
Theorem lazy_full_equals_eager (Hv : via_get_ent = true) f g qs : (length B <= f)%nat -> (length B <= g)%nat ->
  fst (run_full f (init name ent bytes B) qs) = map (eager_full g) qs.
Proof.
  intros Hf Hg. destruct (run_full_correct Hv f qs _ (Top_init f Hf)) as [-> _]. apply map_ext. intros c. symmetry.
  apply eager_full_correct; assumption.
Qed.

(** if every stored base name is a class of the file, no base of any answer is left as a name *)
Theorem lazy_bases_all_resolved (Hv : via_get_ent = true) f qs : (length B <= f)%nat ->
  (forall c e b, spec c = Some e -> In b (ent_bases e) -> spec b <> None) ->
  Forall (fun a => match a with Some (e, rb) => length rb = length (ent_bases e) /\ Forall (fun x => x <> None) rb | None => True end)
         (fst (run_full f (init name ent bytes B) qs)).
Proof.
  intros Hf Hk. destruct (run_full_correct Hv f qs _ (Top_init f Hf)) as [-> _]. apply Forall_forall. intros a Ha.
  apply in_map_iff in Ha. destruct Ha as [c [<- _]]. unfold full_spec. destruct (spec c) as [e|] eqn:Es; cbn [option_map]; [|exact I].
  split; [apply map_length|]. apply Forall_forall. intros x Hx. apply in_map_iff in Hx. destruct Hx as [b [<- Hb]]. eapply Hk; eauto.
Qed.

End Proofs.
