(** C16 — proofs about SM/LazyDb.v: looking entities up one at a time, in any order, gives what decoding
    the whole database gives. *)
From Coq Require Import List Arith Bool Lia.
From SV Require Import SM.LazyDb.
Import ListNotations.

Section Proofs.
Variables (name ent bytes : Type).
Variable name_eqb : name -> name -> bool.
Hypothesis name_eqb_spec : forall a b, name_eqb a b = true <-> a = b.
Variable decode : list name -> bytes -> list ent.
(** one definition is decoded per class name of the block *)
Hypothesis decode_len : forall cs data, length (decode cs data) = length cs.
Variable ent_bases : ent -> list name.
Variable is_empty : bytes -> bool.
Variable empty_bytes : bytes.
Hypothesis empty_is_empty : is_empty empty_bytes = true.
(** the file: no class name occurs twice, every block has data *)
Variable B : list (block name bytes).
Hypothesis B_nodup : NoDup (flat_map fst B).
Hypothesis B_nonempty : Forall (fun b => is_empty (snd b) = false) B.

Local Notation db := (db name ent bytes).
Local Notation lookup := (lookup name ent name_eqb).
Local Notation assoc := (assoc name ent name_eqb).
Local Notation parse_block := (parse_block name ent bytes name_eqb decode ent_bases is_empty empty_bytes).
Local Notation get_ent_with := (get_ent_with name ent bytes name_eqb).
Local Notation get_ent := (get_ent name ent bytes name_eqb decode ent_bases is_empty empty_bytes).
Local Notation run_queries := (run_queries name ent bytes name_eqb decode ent_bases is_empty empty_bytes).
Local Notation parse_all := (parse_all name ent bytes name_eqb decode ent_bases is_empty empty_bytes).
Local Notation spec := (spec name ent bytes name_eqb decode B).
Local Notation is_parsed := (is_parsed name ent bytes name_eqb).
Local Notation Parsed := (Parsed ent).
Local Notation InBlock := (InBlock ent).

Lemma eqb_refl c : name_eqb c c = true.
Proof. apply name_eqb_spec. reflexivity. Qed.
Lemma eqb_false a b : a <> b -> name_eqb a b = false.
Proof. intros H. destruct (name_eqb a b) eqn:E; [apply name_eqb_spec in E; contradiction|reflexivity]. Qed.

(** * Association lists *)
Lemma lookup_app c a b : lookup c (a ++ b) = match lookup c a with Some s => Some s | None => lookup c b end.
Proof. induction a as [|[k v] r IH]; cbn [LazyDb.lookup app]; [reflexivity|]. destruct (name_eqb k c); auto. Qed.
Lemma assoc_app c a b : assoc c (a ++ b) = match assoc c a with Some s => Some s | None => assoc c b end.
Proof. induction a as [|[k v] r IH]; cbn [LazyDb.assoc app]; [reflexivity|]. destruct (name_eqb k c); auto. Qed.

Lemma lookup_combine_parsed c cs : forall es,
  lookup c (combine cs (map Parsed es)) = option_map Parsed (assoc c (combine cs es)).
Proof.
  induction cs as [|k cs IH]; intros [|e es]; cbn [combine map LazyDb.lookup LazyDb.assoc option_map]; try reflexivity.
  destruct (name_eqb k c); [reflexivity|apply IH].
Qed.
Lemma assoc_combine_In c cs : forall es e, assoc c (combine cs es) = Some e -> In c cs.
Proof.
  induction cs as [|k cs IH]; intros [|x es] e; cbn [combine LazyDb.assoc]; try discriminate.
  destruct (name_eqb k c) eqn:E; [apply name_eqb_spec in E; left; exact E|right; eapply IH; eauto].
Qed.
Lemma assoc_combine_some c cs : forall es, In c cs -> length es = length cs -> exists e, assoc c (combine cs es) = Some e.
Proof.
  induction cs as [|k cs IH]; intros [|x es] Hin Hlen; cbn [length] in Hlen; try discriminate; [destruct Hin|].
  cbn [combine LazyDb.assoc]. destruct (name_eqb k c) eqn:E; [eauto|].
  destruct Hin as [->|Hin]; [rewrite eqb_refl in E; discriminate|]. apply IH; [exact Hin|lia].
Qed.
Lemma assoc_combine_notin c cs : forall es, ~ In c cs -> assoc c (combine cs es) = None.
Proof.
  intros es H. destruct (assoc c (combine cs es)) eqn:E; [|reflexivity]. exfalso. eapply H, assoc_combine_In; eauto.
Qed.

Lemma NoDup_app_r {A} (a b : list A) : NoDup (a ++ b) -> NoDup b.
Proof. induction a as [|x a IH]; cbn [app]; [auto|]. intros H. inversion H; auto. Qed.

Lemma spec_none_gen c (bs : list (block name bytes)) :
  (forall b, In b bs -> ~ In c (fst b)) -> assoc c (all_defs name ent bytes decode bs) = None.
Proof.
  induction bs as [|b bs IH]; intros H; cbn [all_defs flat_map]; [reflexivity|].
  rewrite assoc_app, assoc_combine_notin by (apply H; left; reflexivity). apply IH. intros; apply H; right; assumption.
Qed.
Lemma spec_block_gen c e (bs : list (block name bytes)) : NoDup (flat_map fst bs) -> forall i cs data,
  nth_error bs i = Some (cs, data) -> assoc c (combine cs (decode cs data)) = Some e ->
  assoc c (all_defs name ent bytes decode bs) = Some e.
Proof.
  induction bs as [|b bs IH]; intros Hnd [|i] cs data Hi He; cbn [nth_error] in Hi; try discriminate.
  - injection Hi as ->. cbn [all_defs flat_map fst snd]. rewrite assoc_app, He. reflexivity.
  - cbn [flat_map] in Hnd. cbn [all_defs flat_map]. rewrite assoc_app.
    assert (Hc : In c (flat_map fst bs)).
    { apply in_flat_map. exists (cs, data). split; [eapply nth_error_In; eauto|eapply assoc_combine_In; eauto]. }
    rewrite assoc_combine_notin.
    + apply NoDup_app_r in Hnd. eapply IH; eauto.
    + intros Hin. clear -Hnd Hin Hc. induction (fst b) as [|x l IHl]; [destruct Hin|].
      cbn [app] in Hnd. inversion Hnd as [|? ? Hx Hnd']; subst. destruct Hin as [->|Hin].
      * apply Hx, in_or_app. right. exact Hc.
      * apply IHl; assumption.
Qed.

(** * The invariant *)
Record Inv (d : db) : Prop := {
  inv_len : length (unparsed _ _ _ d) = length B;
  inv_blocks : forall i, nth_error (unparsed _ _ _ d) i = nth_error B i
                         \/ nth_error (unparsed _ _ _ d) i = Some ([], empty_bytes);
  inv_map : forall c, match lookup c (emap _ _ _ d) with
                      | Some (LazyDb.Parsed _ e) => spec c = Some e
                      | Some (LazyDb.InBlock _ i) =>
                          exists cs data, nth_error B i = Some (cs, data) /\ In c cs
                                          /\ nth_error (unparsed _ _ _ d) i = Some (cs, data)
                      | None => spec c = None
                      end }.

Lemma lookup_map_inblock c i cs :
  lookup c (map (fun c => (c, InBlock i)) cs) = if existsb (fun k => name_eqb k c) cs then Some (InBlock i) else None.
Proof. induction cs as [|k cs IH]; cbn [map LazyDb.lookup existsb]; [reflexivity|]. destruct (name_eqb k c); auto. Qed.
Lemma existsb_name c cs : existsb (fun k => name_eqb k c) cs = true <-> In c cs.
Proof.
  rewrite existsb_exists. split; [intros [k [Hk E]]; apply name_eqb_spec in E; subst; exact Hk|].
  intros H. exists c. split; [exact H|apply eqb_refl].
Qed.

Lemma init_map_spec c : forall (bs : list (block name bytes)) k,
  match lookup c (init_map name ent bytes k bs) with
  | Some (LazyDb.Parsed _ _) => False
  | Some (LazyDb.InBlock _ i) => exists j cs data, i = (k + j)%nat /\ nth_error bs j = Some (cs, data) /\ In c cs
  | None => forall b, In b bs -> ~ In c (fst b)
  end.
Proof.
  induction bs as [|[cs data] bs IH]; intros k; cbn [init_map LazyDb.lookup]; [intros b []|].
  rewrite lookup_app, lookup_map_inblock. destruct (existsb (fun k0 => name_eqb k0 c) cs) eqn:E.
  - apply existsb_name in E. exists 0%nat, cs, data. repeat split; [lia|exact E].
  - specialize (IH (S k)). destruct (lookup c (init_map name ent bytes (S k) bs)) as [[e|i]|].
    + exact IH.
    + destruct IH as [j [cs' [data' [-> [Hj Hc]]]]]. exists (S j), cs', data'. repeat split; [lia|exact Hj|exact Hc].
    + intros b [<-|Hb]; [cbn [fst]; intros Hin; apply existsb_name in Hin; congruence|apply IH, Hb].
Qed.

Lemma Inv_init : Inv (init name ent bytes B).
Proof.
  constructor; cbn [init unparsed emap]; [reflexivity|auto|].
  intros c. pose proof (init_map_spec c B 0) as H.
  destruct (lookup c (init_map name ent bytes 0 B)) as [[e|i]|].
  - destruct H.
  - destruct H as [j [cs [data [-> [Hj Hc]]]]]. cbn [Nat.add]. eauto.
  - apply spec_none_gen, H.
Qed.

Lemma Inv_oof d b : Inv d -> Inv (mkdb _ _ _ (emap _ _ _ d) (unparsed _ _ _ d) b).
Proof. intros [H1 H2 H3]. constructor; cbn [emap unparsed]; assumption. Qed.

Lemma set_nth_length {A} i (x : A) l : length (set_nth i x l) = length l.
Proof. revert i. induction l as [|y r IH]; intros [|i]; cbn [set_nth length]; auto. Qed.
Lemma set_nth_same {A} i (x : A) l : (i < length l)%nat -> nth_error (set_nth i x l) i = Some x.
Proof. revert i. induction l as [|y r IH]; intros [|i] H; cbn [set_nth length nth_error] in *; try lia; auto. apply IH. lia. Qed.
Lemma set_nth_other {A} i j (x : A) l : i <> j -> nth_error (set_nth i x l) j = nth_error l j.
Proof. revert i j. induction l as [|y r IH]; intros [|i] [|j] H; cbn [set_nth nth_error]; try congruence; auto. Qed.

Lemma get_ent_with_inv pb d c : (forall d i, Inv d -> Inv (pb d i)) -> Inv d -> Inv (snd (get_ent_with pb d c)).
Proof.
  intros Hpb Hd. unfold LazyDb.get_ent_with. destruct (lookup c (emap _ _ _ d)) as [[e|i]|]; cbn [snd]; auto.
Qed.
Lemma fold_inv (f : db -> name -> db) l : (forall d b, Inv d -> Inv (f d b)) -> forall d, Inv d -> Inv (fold_left f l d).
Proof. intros Hf. induction l as [|b l IH]; intros d Hd; cbn [fold_left]; auto. Qed.

Lemma parse_block_inv f : forall d i, Inv d -> Inv (parse_block f d i).
Proof.
  induction f as [|f IH]; intros d i Hd; cbn [LazyDb.parse_block].
  - destruct (nth_error (unparsed _ _ _ d) i) as [[cs data]|]; [|exact Hd].
    destruct (is_empty data); [exact Hd|apply Inv_oof, Hd].
  - destruct (nth_error (unparsed _ _ _ d) i) as [[cs data]|] eqn:Ei; [|exact Hd].
    destruct (is_empty data) eqn:Ee; [exact Hd|].
    apply fold_inv; [intros d' b Hd'; apply get_ent_with_inv; [exact IH|exact Hd']|].
    (* the state right after the block's entries have been stored *)
    assert (HB : nth_error B i = Some (cs, data)).
    { destruct (inv_blocks d Hd i) as [H|H]; rewrite Ei in H; [symmetry; exact H|].
      injection H as -> ->. congruence. }
    assert (Hi : (i < length (unparsed _ _ _ d))%nat) by (apply nth_error_Some; congruence).
    constructor; cbn [emap unparsed].
    + rewrite set_nth_length. apply (inv_len d Hd).
    + intros j. destruct (Nat.eq_dec i j) as [<-|Hij]; [right; apply set_nth_same, Hi|].
      rewrite set_nth_other by exact Hij. apply (inv_blocks d Hd).
    + intros c. rewrite lookup_app, lookup_combine_parsed.
      destruct (assoc c (combine cs (decode cs data))) as [e|] eqn:Ea; cbn [option_map].
      * eapply spec_block_gen; eauto.
      * pose proof (inv_map d Hd c) as Hc. destruct (lookup c (emap _ _ _ d)) as [[e|j]|]; [exact Hc| |exact Hc].
        destruct Hc as [cs' [data' [Hj [Hin Hu]]]]. exists cs', data'. repeat split; [exact Hj|exact Hin|].
        destruct (Nat.eq_dec i j) as [<-|Hij]; [|rewrite set_nth_other by exact Hij; exact Hu].
        exfalso. rewrite HB in Hj. injection Hj as <- <-.
        destruct (assoc_combine_some c cs (decode cs data) Hin (decode_len cs data)) as [e He]. congruence.
Qed.

(** * Entries, once decoded, stay decoded; blocks, once emptied, stay empty *)
Definition marked (d : db) (i : nat) : Prop := nth_error (unparsed _ _ _ d) i = Some ([], empty_bytes).

Lemma get_ent_with_mono (P : db -> Prop) pb d c : (forall d i, P d -> P (pb d i)) -> P d -> P (snd (get_ent_with pb d c)).
Proof. intros Hpb Hd. unfold LazyDb.get_ent_with. destruct (lookup c (emap _ _ _ d)) as [[e|i]|]; cbn [snd]; auto. Qed.
Lemma fold_mono (P : db -> Prop) (f : db -> name -> db) l : (forall d b, P d -> P (f d b)) -> forall d, P d -> P (fold_left f l d).
Proof. intros Hf. induction l as [|b l IH]; intros d Hd; cbn [fold_left]; auto. Qed.

Lemma parse_block_parsed_mono c f : forall d i, is_parsed d c = true -> is_parsed (parse_block f d i) c = true.
Proof.
  induction f as [|f IH]; intros d i Hd; cbn [LazyDb.parse_block].
  - destruct (nth_error (unparsed _ _ _ d) i) as [[cs data]|]; [|exact Hd]. destruct (is_empty data); exact Hd.
  - destruct (nth_error (unparsed _ _ _ d) i) as [[cs data]|]; [|exact Hd]. destruct (is_empty data); [exact Hd|].
    apply (fold_mono (fun d => is_parsed d c = true)).
    + intros d' b Hd'. apply (get_ent_with_mono (fun d => is_parsed d c = true)); [exact IH|exact Hd'].
    + unfold LazyDb.is_parsed in *. cbn [emap]. rewrite lookup_app, lookup_combine_parsed.
      destruct (assoc c (combine cs (decode cs data))); cbn [option_map]; [reflexivity|exact Hd].
Qed.

Lemma parse_block_marked_mono j f : forall d i, marked d j -> marked (parse_block f d i) j.
Proof.
  induction f as [|f IH]; intros d i Hd; cbn [LazyDb.parse_block].
  - destruct (nth_error (unparsed _ _ _ d) i) as [[cs data]|]; [|exact Hd]. destruct (is_empty data); exact Hd.
  - destruct (nth_error (unparsed _ _ _ d) i) as [[cs data]|] eqn:Ei; [|exact Hd]. destruct (is_empty data); [exact Hd|].
    apply (fold_mono (fun d => marked d j)).
    + intros d' b Hd'. apply (get_ent_with_mono (fun d => marked d j)); [exact IH|exact Hd'].
    + unfold marked in *. cbn [unparsed]. destruct (Nat.eq_dec i j) as [<-|Hij].
      * apply set_nth_same. apply nth_error_Some. congruence.
      * rewrite set_nth_other by exact Hij. exact Hd.
Qed.

Lemma parse_block_marks f d i : Inv d -> (i < length B)%nat -> marked (parse_block (S f) d i) i.
Proof.
  intros Hd Hi. cbn [LazyDb.parse_block].
  destruct (nth_error (unparsed _ _ _ d) i) as [[cs data]|] eqn:Ei.
  - destruct (is_empty data) eqn:Ee.
    + destruct (inv_blocks d Hd i) as [H|H]; [|exact H]. exfalso. rewrite Ei in H. symmetry in H.
      pose proof (nth_error_In _ _ H) as Hin. rewrite Forall_forall in B_nonempty.
      specialize (B_nonempty _ Hin). cbn [snd] in B_nonempty. congruence.
    + apply (fold_mono (fun d => marked d i)).
      * intros d' b Hd'. apply (get_ent_with_mono (fun d => marked d i)); [apply parse_block_marked_mono|exact Hd'].
      * unfold marked. cbn [unparsed]. apply set_nth_same. apply nth_error_Some. congruence.
  - exfalso. apply nth_error_None in Ei. rewrite (inv_len d Hd) in Ei. lia.
Qed.

(** * Results *)
Theorem get_ent_correct f d c : Inv d ->
  fst (get_ent (S f) d c) = spec c /\ Inv (snd (get_ent (S f) d c)).
Proof.
  intros Hd. split; [|apply get_ent_with_inv; [intros; apply parse_block_inv; assumption|exact Hd]].
  unfold LazyDb.get_ent, LazyDb.get_ent_with. pose proof (inv_map d Hd c) as Hc.
  destruct (lookup c (emap _ _ _ d)) as [[e|i]|] eqn:El; cbn [fst]; [symmetry; exact Hc| |symmetry; exact Hc].
  destruct Hc as [cs [data [HB [Hin Hu]]]].
  assert (He : is_empty data = false).
  { pose proof (nth_error_In _ _ HB) as HinB. rewrite Forall_forall in B_nonempty. apply (B_nonempty _ HinB). }
  set (d' := parse_block (S f) d i).
  assert (Hp : is_parsed d' c = true).
  { unfold d'. cbn [LazyDb.parse_block]. rewrite Hu, He.
    apply (fold_mono (fun d => is_parsed d c = true)).
    - intros d0 b Hd0. apply (get_ent_with_mono (fun d => is_parsed d c = true)); [apply parse_block_parsed_mono|exact Hd0].
    - unfold LazyDb.is_parsed. cbn [emap]. rewrite lookup_app, lookup_combine_parsed.
      destruct (assoc_combine_some c cs (decode cs data) Hin (decode_len cs data)) as [e ->]. reflexivity. }
  pose proof (parse_block_inv (S f) d i Hd) as Hd'. fold d' in Hd'. pose proof (inv_map d' Hd' c) as Hc'.
  unfold LazyDb.is_parsed in Hp. destruct (lookup c (emap _ _ _ d')) as [[e|j]|]; try discriminate. symmetry. exact Hc'.
Qed.

Theorem run_queries_correct f qs : forall d, Inv d ->
  fst (run_queries (S f) d qs) = map (fun c => spec c) qs /\ Inv (snd (run_queries (S f) d qs)).
Proof.
  induction qs as [|c qs IH]; intros d Hd; cbn [LazyDb.run_queries map]; [auto|].
  destruct (get_ent_correct f d c Hd) as [Hv Hi]. destruct (get_ent (S f) d c) as [x d'] eqn:E. cbn [fst snd] in *.
  destruct (IH d' Hi) as [Hv' Hi']. destruct (run_queries (S f) d' qs) as [xs d'']. cbn [fst snd] in *.
  subst. auto.
Qed.

Lemma parse_all_fold f l : forall d, Inv d -> (forall i, In i l -> (i < length B)%nat) ->
  let d' := fold_left (fun d' i => parse_block (S f) d' i) l d in
  Inv d' /\ (forall i, marked d i \/ In i l -> marked d' i).
Proof.
  induction l as [|j l IH]; intros d Hd Hl; cbn [fold_left].
  - split; [exact Hd|]. intros i [H|[]]. exact H.
  - destruct (IH (parse_block (S f) d j) (parse_block_inv _ _ _ Hd) (fun i H => Hl i (or_intror H))) as [H1 H2].
    split; [exact H1|]. intros i [H|[<-|H]]; apply H2.
    + left. apply parse_block_marked_mono, H.
    + left. apply parse_block_marks; [exact Hd|apply Hl; left; reflexivity].
    + right. exact H.
Qed.

(** what loading the whole database yields for a class *)
Definition eager (f : nat) (c : name) : option ent :=
  match lookup c (emap _ _ _ (parse_all (S f) (init name ent bytes B))) with
  | Some (LazyDb.Parsed _ e) => Some e
  | _ => None
  end.

Theorem eager_correct f c : eager f c = spec c.
Proof.
  unfold eager, LazyDb.parse_all. cbn [init unparsed].
  destruct (parse_all_fold f (seq 0 (length B)) (init name ent bytes B) Inv_init) as [Hinv Hmark].
  { intros i Hi. apply in_seq in Hi. lia. }
  cbn zeta in Hinv, Hmark. set (d' := fold_left _ _ _) in *.
  pose proof (inv_map d' Hinv c) as Hc. destruct (lookup c (emap _ _ _ d')) as [[e|i]|]; [symmetry; exact Hc| |symmetry; exact Hc].
  exfalso. destruct Hc as [cs [data [HB [Hin Hu]]]].
  assert (Hi : (i < length B)%nat) by (apply nth_error_Some; congruence).
  assert (Hm : marked d' i) by (apply Hmark; right; apply in_seq; lia).
  unfold marked in Hm. rewrite Hu in Hm. injection Hm as -> ->.
  pose proof (nth_error_In _ _ HB) as HinB. rewrite Forall_forall in B_nonempty. specialize (B_nonempty _ HinB).
  cbn [snd] in B_nonempty. congruence.
Qed.

(** Looking classes up one at a time, in any order and with any repetitions, on a fresh database gives
    exactly the definitions that loading the whole database gives. *)
Theorem lazy_equals_eager f g qs :
  fst (run_queries (S f) (init name ent bytes B) qs) = map (eager g) qs.
Proof.
  destruct (run_queries_correct f qs _ Inv_init) as [-> _]. apply map_ext. intros c. symmetry. apply eager_correct.
Qed.

(** * The recursion of the base lookups is bounded by the number of undecoded blocks *)
Local Notation cnt := (cnt name ent bytes is_empty).
Definition cntl (l : list (block name bytes)) : nat := length (filter (fun b => negb (is_empty (snd b))) l).

Lemma cntl_set_nth l : forall i b, nth_error l i = Some b -> is_empty (snd b) = false ->
  (cntl (set_nth i ([], empty_bytes) l) + 1 = cntl l)%nat.
Proof.
  unfold cntl. induction l as [|y r IH]; intros [|i] b Hi Hb; cbn [nth_error] in Hi; try discriminate.
  - injection Hi as ->. cbn [set_nth filter snd]. rewrite empty_is_empty, Hb. cbn [negb length]. lia.
  - cbn [set_nth filter]. destruct (negb (is_empty (snd y))); cbn [length]; rewrite <- (IH i b Hi Hb); lia.
Qed.

Lemma filter_len_le {A} (f : A -> bool) l : (length (filter f l) <= length l)%nat.
Proof. induction l as [|x l IH]; cbn [filter length]; [lia|]. destruct (f x); cbn [length]; lia. Qed.

Definition within (n : nat) (d : db) : Prop := (cnt d <= n)%nat /\ oof _ _ _ d = false.

Lemma parse_block_fuel f : forall d i, within f d -> within (cnt d) (parse_block f d i).
Proof.
  induction f as [|f IH]; intros d i [Hc Ho]; cbn [LazyDb.parse_block].
  - destruct (nth_error (unparsed _ _ _ d) i) as [[cs data]|] eqn:Ei; [|split; [lia|exact Ho]].
    destruct (is_empty data) eqn:Ee; [split; [lia|exact Ho]|].
    exfalso. pose proof (cntl_set_nth _ i (cs, data) Ei Ee) as H. unfold LazyDb.cnt in Hc. unfold cntl in H. lia.
  - destruct (nth_error (unparsed _ _ _ d) i) as [[cs data]|] eqn:Ei; [|split; [lia|exact Ho]].
    destruct (is_empty data) eqn:Ee; [split; [lia|exact Ho]|].
    pose proof (cntl_set_nth _ i (cs, data) Ei Ee) as H.
    set (d1 := mkdb _ _ _ _ _ _).
    assert (H1 : (cnt d1 + 1 = cnt d)%nat) by exact H.
    assert (W : within (cnt d1) (fold_left (fun d' b => snd (get_ent_with (parse_block f) d' b))
                                   (flat_map ent_bases (decode cs data)) d1)).
    { apply (fold_mono (within (cnt d1))); [|split; [lia|exact Ho]].
      intros d' b Hd'. apply (get_ent_with_mono (within (cnt d1))); [|exact Hd'].
      intros d0 j [Hc0 Ho0]. destruct (IH d0 j) as [Hc1 Ho1]; [split; [lia|exact Ho0]|]. split; [lia|exact Ho1]. }
    destruct W as [Wc Wo]. split; [lia|exact Wo].
Qed.

Theorem run_queries_fuel f qs : forall d, within f d -> within f (snd (run_queries f d qs)).
Proof.
  induction qs as [|c qs IH]; intros d Hd; cbn [LazyDb.run_queries]; [exact Hd|].
  destruct (get_ent f d c) as [x d'] eqn:E.
  assert (Hd' : within f d').
  { replace d' with (snd (get_ent f d c)) by (rewrite E; reflexivity). unfold LazyDb.get_ent.
    apply (get_ent_with_mono (within f)); [|exact Hd].
    intros d0 j Hd0. destruct (parse_block_fuel f d0 j Hd0) as [H1 H2]. destruct Hd0 as [H3 _]. split; [lia|exact H2]. }
  specialize (IH d' Hd'). destruct (run_queries f d' qs) as [xs d'']. exact IH.
Qed.

(** with as much fuel as there are blocks, no sequence of queries ever exhausts it: a block is marked
    as decoded before its bases are looked up, so the nesting depth is at most the number of blocks *)
Theorem base_lookups_terminate f qs : (length B <= f)%nat ->
  oof _ _ _ (snd (run_queries f (init name ent bytes B) qs)) = false.
Proof.
  intros H. apply (run_queries_fuel f qs). split; [|reflexivity].
  unfold LazyDb.cnt. cbn [init unparsed]. etransitivity; [apply filter_len_le|exact H].
Qed.

End Proofs.
