(** C19, round 5 — what walks and lookups leave behind.

    The theorems of the earlier rounds describe one call: a walk lists [walk b fs folder], a lookup answers
    [chain_get ms q].  That describes a *history* of calls only if no call stores anything that a later call reads.
    The translator translate/c19_state.py takes a census of every store a walk / lookup method of filesys.py (and of
    the VPK reader it calls) makes into an attribute of [self], a class attribute, a module-level container or a mutable
    default argument, and where that store stands relative to the [yield]s of a generator.  This file gives the census a
    meaning: a walk generator with a per-folder memo, consumed completely or given up after k items; chain lookups that
    remember the member index a name was found at, between edits of the public [systems] list. *)
From Coq Require Import List NArith Bool Arith.
From SV Require Import SM.FsChain.
Import ListNotations.

(** ** the census *)
(** Where a store stands in its function: in a plain function, in a generator with a [yield] still to come (the
    consumer may never resume the generator: what was stored so far stays), or after the last [yield]. *)
Inductive store_pos := StorePlain | StoreBeforeYield | StoreAfterLastYield.

(** One class: the stores of its walk methods (walk_folder, walk_folder_repeat, __iter__) and of its lookup methods
    (__getitem__, __contains__, _get_file, _file_exists, open_bin, open_str and the helpers they call). *)
Record fs_census := { cs_walk : list store_pos; cs_lookup : list store_pos }.

Definition no_stores (l : list store_pos) : bool := match l with [] => true | _ :: _ => false end.
Definition walk_keeps_no_state (c : fs_census) : bool := no_stores (cs_walk c).
Definition lookups_keep_no_state (c : fs_census) : bool := no_stores (cs_lookup c).
Definition census_clean (c : fs_census) : bool := walk_keeps_no_state c && lookups_keep_no_state c.

(** ** a walk generator and its consumers *)
Inductive walk_discipline :=
| WalkStateless              (* nothing is stored *)
| WalkMemoWhileYielding      (* a per-folder list is registered first and filled as the files are yielded *)
| WalkMemoAfterScan.         (* the per-folder list is stored once the generator has run to its end *)

Definition is_before_yield (p : store_pos) : bool := match p with StoreBeforeYield => true | _ => false end.
(** The discipline a census stands for (one representative of each class of code). *)
Definition discipline_of (stores : list store_pos) : walk_discipline :=
  match stores with
  | [] => WalkStateless
  | _ :: _ => if existsb is_before_yield stores then WalkMemoWhileYielding else WalkMemoAfterScan
  end.

Section WalkHistory.
  Variable F : Type.
  (** the complete listing of a folder: a function of the tables the constructor built (never changed afterwards) *)
  Variable scan : str -> list F.
  (** the memo key (the normalised folder) *)
  Variable keyf : str -> str.

  Definition memo := list (str * list F).
  Fixpoint memo_get (m : memo) (k : str) : option (list F) :=
    match m with
    | [] => None
    | (k', v) :: r => if eqb_str k k' then Some v else memo_get r k
    end.

  (** A consumer: [None] exhausts the generator, [Some n] asks for n items and then drops it
      ([break], [any()], [next(iter(fs))], an exception in the loop body, [close()], [throw()]). *)
  Definition consume (k : option nat) (l : list F) : list F :=
    match k with None => l | Some n => firstn n l end.
  (** The generator's code after the last [yield] runs only if the consumer asks for one more item than there are. *)
  Definition ran_to_end (k : option nat) (l : list F) : bool :=
    match k with None => true | Some n => Nat.ltb (length l) n end.

  (** One walk: what the consumer receives, what stays behind. *)
  Definition walk_step (d : walk_discipline) (m : memo) (folder : str) (k : option nat) : list F * memo :=
    match d with
    | WalkStateless => (consume k (scan folder), m)
    | WalkMemoWhileYielding =>
      match memo_get m (keyf folder) with
      | Some l => (consume k l, m)
      | None =>
        match k with
        | Some O => ([], m)                 (* never started: the body has not run *)
        | _ => (consume k (scan folder), (keyf folder, consume k (scan folder)) :: m)
        end
      end
    | WalkMemoAfterScan =>
      match memo_get m (keyf folder) with
      | Some l => (consume k l, m)
      | None => (consume k (scan folder),
                 if ran_to_end k (scan folder) then (keyf folder, scan folder) :: m else m)
      end
    end.

  (** A history of walks, one after the other (each generator is dropped before the next walk starts). *)
  Fixpoint run_walks (d : walk_discipline) (m : memo) (h : list (str * option nat)) : memo :=
    match h with
    | [] => m
    | (folder, k) :: r => run_walks d (snd (walk_step d m folder k)) r
    end.

  (** What a complete walk lists on an object with that history behind it. *)
  Definition walk_after (d : walk_discipline) (h : list (str * option nat)) (folder : str) : list F :=
    fst (walk_step d (run_walks d [] h) folder None).
End WalkHistory.

(** ** chain lookups between edits of [systems] *)
Inductive lookup_discipline :=
| LookupStateless
| LookupRemembersPosition.   (* the index of the member a key was found in is kept and the next search starts there *)

Definition lookup_discipline_of (stores : list store_pos) : lookup_discipline :=
  match stores with [] => LookupStateless | _ :: _ => LookupRemembersPosition end.

Definition pos_memo := list (str * nat).
Fixpoint pos_get (m : pos_memo) (k : str) : option nat :=
  match m with
  | [] => None
  | (k', v) :: r => if eqb_str k k' then Some v else pos_get r k
  end.
Fixpoint pos_del (m : pos_memo) (k : str) : pos_memo :=
  match m with
  | [] => []
  | (k', v) :: r => if eqb_str k k' then pos_del r k else (k', v) :: pos_del r k
  end.

(** [chain_get] that also says in which member the name was found. *)
Fixpoint chain_get_idx (ms : list member) (q : str) (i : nat) : option (file * nat) :=
  match ms with
  | [] => None
  | m :: r => match m_lookup m (full_name (m_prefix m) q) with
              | Some f => Some (f, i)
              | None => chain_get_idx r q (S i)
              end
  end.

Definition chain_lookup_step (d : lookup_discipline) (pm : pos_memo) (ms : list member) (q : str)
  : option file * pos_memo :=
  match d with
  | LookupStateless => (chain_get ms q, pm)
  | LookupRemembersPosition =>
    let key := fold (normpath (slash q)) in
    let start := match pos_get pm key with Some n => n | None => O end in
    match chain_get_idx (skipn start ms) q start with
    | Some (f, i) => (Some f, (key, i) :: pos_del pm key)
    | None =>
      match start with
      | O => (None, pm)
      | S _ => match chain_get_idx ms q O with     (* stale position: search everything *)
               | Some (f, i) => (Some f, (key, i) :: pos_del pm key)
               | None => (None, pos_del pm key)
               end
      end
    end
  end.

(** What a program does with a chain: look a name up, call add_sys (which may reset what lookups remembered), or edit
    the public list [systems] itself (packlist: [systems.pop(0)]). *)
Inductive chain_op :=
| CLookup (q : str)
| CAddSys (f : list member -> list member)
| CEdit (f : list member -> list member).

Fixpoint run_chain (d : lookup_discipline) (pm : pos_memo) (ms : list member) (h : list chain_op) : pos_memo * list member :=
  match h with
  | [] => (pm, ms)
  | CLookup q :: r => run_chain d (snd (chain_lookup_step d pm ms q)) ms r
  | CAddSys f :: r => run_chain d [] (f ms) r
  | CEdit f :: r => run_chain d pm (f ms) r
  end.

Definition chain_lookup_after (d : lookup_discipline) (ms : list member) (h : list chain_op) (q : str) : option file :=
  let st := run_chain d [] ms h in
  fst (chain_lookup_step d (fst st) (snd st) q).

(** The members mounted after the history (what the stateless theorems speak about). *)
Fixpoint members_after (ms : list member) (h : list chain_op) : list member :=
  match h with
  | [] => ms
  | CLookup _ :: r => members_after ms r
  | CAddSys f :: r => members_after (f ms) r
  | CEdit f :: r => members_after (f ms) r
  end.

(** ** the whole census (Gen/FsState_gen.v defines one [fs_census] per class) *)
Record state_census := {
  sc_chain : fs_census; sc_virtual : fs_census; sc_raw : fs_census; sc_zip : fs_census; sc_vpk : fs_census;
  sc_helpers : fs_census;        (* module-level functions of filesys.py, File *)
  sc_vpk_reader : fs_census      (* vpk.py: FileInfo.read / filename, VPK.__iter__ / fileinfos / ... *)
}.
Definition backend_censuses (c : state_census) : list fs_census := [sc_virtual c; sc_raw c; sc_zip c; sc_vpk c].
Definition state_ok (c : state_census) : bool :=
  forallb census_clean (sc_chain c :: backend_censuses c ++ [sc_helpers c; sc_vpk_reader c]).

(** What the one-call theorems need in order to speak about programs: on every backend, after any history of walks
    (complete or given up after any number of items) a complete walk lists what the one-call model lists - whatever that
    listing function is -, and after any history of lookups, add_sys calls and edits of [systems] a lookup of the chain
    is [chain_get] over the members then mounted. *)
Definition histories_irrelevant (c : state_census) : Prop :=
  (forall cen, In cen (backend_censuses c) ->
     forall (scan : str -> list file) h folder,
       walk_after file scan (fun s => s) (discipline_of (cs_walk cen)) h folder = scan folder)
  /\ (forall ms h q,
        chain_lookup_after (lookup_discipline_of (cs_lookup (sc_chain c))) ms h q = chain_get (members_after ms h) q).
