(** The machine over the generated objects answers as the hand-written machine does (SM/VpkGenMachine.v). *)
From Coq Require Import List NArith Bool Permutation.
From SV Require Import Fmt.VpkDir Fmt.VpkDirProofs Fmt.VpkDirV2 SM.Vpk SM.VpkProofs SM.VpkRefine SM.VpkPlace SM.VpkPlaceProofs SM.VpkPlaceTable SM.VpkPlaceTableProofs
  Fmt.VpkDirProg Fmt.VpkDirProgProofs Fmt.VpkDirRead Fmt.VpkDirReadProofs SM.VpkGenMachine.
Import ListNotations.
Open Scope N_scope.

Lemma dec_file_v_1 c bs v es f : dec_file_v c bs = Some (v, es, f) -> v = 1 -> dec_file c bs = Some (es, f).
Proof.
  unfold dec_file_v, dec_file. destruct (rd32 bs) as [[sig r1]|]; [|discriminate].
  destruct (rd32 r1) as [[ver r2]|]; [|discriminate]. destruct (rd32 r2) as [[tlen r3]|]; [|discriminate].
  destruct (sig =? c_sig c); cbn [negb andb]; [|discriminate].
  destruct (ver =? 1).
  - destruct (dec_exts c (S (length r3)) (len r3) tlen r3) as [[es' f']|]; cbn [tag]; [|discriminate]. intros H _. now inversion H.
  - destruct (ver =? 2); [|discriminate].
    destruct (rd32 r3) as [[h1 r4]|]; [|discriminate]. destruct (rd32 r4) as [[h2 r5]|]; [|discriminate].
    destruct (rd32 r5) as [[h3 r6]|]; [|discriminate]. destruct (rd32 r6) as [[h4 r7]|]; [|discriminate].
    destruct (dec_exts c (S (length r7)) (len r7) tlen r7) as [[es' f']|]; cbn [tag]; [|discriminate].
    intros H Hv. inversion H; subst. discriminate.
Qed.

Lemma dec_file_v_none c bs : dec_file_v c bs = None -> dec_file c bs = None.
Proof.
  unfold dec_file_v, dec_file. destruct (rd32 bs) as [[sig r1]|]; [|reflexivity].
  destruct (rd32 r1) as [[ver r2]|]; [|reflexivity]. destruct (rd32 r2) as [[tlen r3]|]; [|reflexivity].
  destruct (sig =? c_sig c); cbn [negb andb]; [|reflexivity].
  destruct (ver =? 1); [|reflexivity].
  destruct (dec_exts c (S (length r3)) (len r3) tlen r3) as [[es' f']|]; cbn [tag]; [discriminate|reflexivity].
Qed.

Section gm.
  Variable pt : list prow.
  Variable wp : wprog.
  Variable rp : rprog.
  Variable crc : bytes -> N.
  Variable cf : vcfg.
  Hypothesis Hpt : place_table_ok pt = true.
  Hypothesis Hwp : wprog_ok wp = true.
  Hypothesis Hrp : rprog_ok rp = true.

  Lemma gdo_write_is st k i d ix : gdo_write pt crc cf st k i d ix = Some (do_write crc cf st k i d ix).
  Proof.
    unfold gdo_write, do_write. rewrite (write_info_t_is_write_info pt Hpt).
    destruct (write_info crc cf st i d ix) as [st' i']. reflexivity.
  Qed.

  (** One operation: an answer of the generated machine is the answer of the hand-written machine. *)
  Lemma gstep_sound st o r : gstep pt wp rp crc cf st o = Some r -> step crc cf st o = Some r.
  Proof.
    destruct o as [k|k d ix|k d ix|k| |m]; cbn [gstep step]; try (intros H; exact H).
    - destruct (negb (writable (md st))); [intros H; exact H|].
      destruct (idx_rejected cf ix); [intros H; exact H|]. destruct (name_rejected cf k); [intros H; exact H|].
      destruct (alookup k (tbl st)); [intros H; exact H|]. rewrite gdo_write_is. intros H; exact H.
    - destruct (alookup k (tbl st)) as [i|]; [|intros H; exact H].
      destruct (negb (writable (md st))); [intros H; exact H|]. destruct (idx_rejected cf ix); [intros H; exact H|].
      rewrite gdo_write_is. intros H; exact H.
    - destruct (negb (writable (md st))); [intros H; exact H|].
      rewrite (wprog_ok_is_enc_file wp Hwp). intros H; exact H.
    - destruct m; [|intros H; exact H|].
      + rewrite (rprog_ok_is_dec_file_v rp Hrp).
        destruct (dec_file_v (v_dc cf) (disk st)) as [[[v es] f]|] eqn:E.
        * destruct (v =? 1) eqn:Ev; [|discriminate]. apply N.eqb_eq in Ev.
          rewrite (dec_file_v_1 _ _ _ _ _ E Ev). intros H; exact H.
        * rewrite (dec_file_v_none _ _ E). intros H; exact H.
      + rewrite (rprog_ok_is_dec_file_v rp Hrp).
        destruct (dec_file_v (v_dc cf) (disk st)) as [[[v es] f]|] eqn:E.
        * destruct (v =? 1) eqn:Ev; [|discriminate]. apply N.eqb_eq in Ev.
          rewrite (dec_file_v_1 _ _ _ _ _ E Ev). intros H; exact H.
        * rewrite (dec_file_v_none _ _ E). intros H; exact H.
  Qed.

  Lemma grun_sound ops : forall st r, grun pt wp rp crc cf st ops = Some r -> run crc cf st ops = Some r.
  Proof.
    induction ops as [|o ops IH]; intros st r; cbn [grun run]; [intros H; exact H|].
    destruct (gstep pt wp rp crc cf st o) as [[st' c]|] eqn:E; [|discriminate].
    rewrite (gstep_sound _ _ _ E).
    destruct (grun pt wp rp crc cf st' ops) as [[st'' cs]|] eqn:E2; [|discriminate].
    rewrite (IH _ _ E2). intros H; exact H.
  Qed.
End gm.

(** The property's observation point for the machine assembled from the generated objects. *)
Theorem generated_machine_history pt rt wp rp crc cf :
  place_table_ok pt = true -> read_table_ok rt = true -> wprog_ok wp = true -> rprog_ok rp = true -> vcfg_okb cf = true ->
  forall ops m st codes, m <> MW -> collision_free crc ops ->
  grun pt wp rp crc cf init (ops ++ [OSave; OReopen m]) = Some (st, codes) ->
  let '(s0, c0) := srun cf sinit ops in
  writable (smd s0) = true ->
  codes = c0 ++ [rOk; rOk] /\ md st = m /\ Permutation (map fst (tbl st)) (map fst (cur s0)) /\
  forall k, match alookup k (tbl st), alookup k (cur s0) with
            | Some i, Some d => read_info_t rt st i = Some d /\ verify_info_t rt crc st i = Some true
            | None, None => True
            | _, _ => False
            end.
Proof.
  intros Hpt Hrt Hwp Hrp Hcf ops m st codes Hm Hfree Hrun.
  apply (grun_sound pt wp rp crc cf Hpt Hwp Hrp) in Hrun.
  pose proof (vpk_history_save_reopen crc cf Hcf ops m st codes Hm Hfree Hrun) as P.
  destruct (srun cf sinit ops) as [s0 c0]. intros Hw. destruct (P Hw) as (P1 & P2 & P3 & P4). repeat split; try assumption.
  intros k. specialize (P4 k). destruct (alookup k (tbl st)) as [i|], (alookup k (cur s0)) as [d|]; try exact P4.
  destruct P4 as [Pr Pv]. destruct (read_info_t_is_read_info rt Hrt crc st i) as [R V]. rewrite R, V, Pr, Pv. split; reflexivity.
Qed.

(** Non-vacuity: the generated machine runs the example history (all four placements, an overwrite, save, reopen) with the real CRC-32
    and the pinned objects, and ends where the hand-written machine ends. *)
Lemma generated_machine_example :
  match grun table_pinned wprog_pinned rprog_pinned crc32 ex_cfg init ex_ops, run crc32 ex_cfg init ex_ops with
  | Some (s1, c1), Some (s2, c2) => (if list_eq_dec N.eq_dec c1 c2 then true else false) && Nat.eqb (length (tbl s1)) (length (tbl s2)) && negb (Nat.eqb (length (tbl s1)) 0)
  | _, _ => false
  end = true.
Proof. vm_compute. reflexivity. Qed.
