(** C09 round 3 — the WHOLE property for one copy method, composed from the three strands:
      independence (census with sources + heap frame theorem over all mutation histories),
      completeness  (census against the export reads: masked unfolding equal at every depth),
    into one statement about the observation the property speaks of (the export: [munfold mk]):
      (1) at copy time the copy exports like the original;
      (2) after EVERY mutation history performed through the copy, the original still exports as it did before the
          copy was made;
      (3) after EVERY mutation history performed through the original, the copy still exports like the original did
          when it was copied.
    No new definitions: everything is stated over SM/Store.v, StoreCopy.v, StoreCopySrc.v, StoreCopyExport.v. *)
From Coq Require Import List PArith ZArith Bool String.
From SV Require Import SM.Store SM.StoreProofs SM.StoreCopy SM.StoreCopyProofs SM.StoreCopySrc SM.StoreCopySrcProofs
  SM.StoreCopyExport SM.StoreCopyExportProofs.
Import ListNotations.

(** Masked observations agree when the heaps agree below the observed object (the masked twin of [unfold_agree]). *)
Lemma munfold_agree (mk : loc -> list bool) h h' a :
  (forall x, reach h a x -> h' x = h x) ->
  forall n l, reach h a l -> munfold mk n h' (VRef l) = munfold mk n h (VRef l).
Proof.
  intros Hag. induction n as [|n IH]; intros l Hl; [reflexivity|].
  cbn [munfold]. rewrite (Hag l Hl). destruct (h l) as [nd|] eqn:E; [|reflexivity].
  f_equal. f_equal. apply map_ext_in. intros v Hin. destruct v as [z|l'].
  - destruct n; reflexivity.
  - apply IH. eapply reach_step; eauto.
Qed.

(** The frame theorem for the masked observation. *)
Theorem frame_masked_observation (mk : loc -> list bool) : forall ms h R h' R' a,
  closed h -> alloc h a -> roots_alloc h R -> sep h a R -> steps (h, R) ms (h', R') ->
  forall n, munfold mk n h' (VRef a) = munfold mk n h (VRef a).
Proof.
  intros ms h R h' R' a Hc Ha HR Hsep Hs n.
  destruct (frame_steps _ _ _ _ _ _ Hc Ha HR Hsep Hs) as (Hag & _).
  apply (munfold_agree mk h h' a Hag). constructor.
Qed.

(** An old object exports in the extended heap as it did before. *)
Lemma extends_masked_observation (mk : loc -> list bool) h h' a :
  closed h -> extends h h' -> alloc h a -> forall n, munfold mk n h' (VRef a) = munfold mk n h (VRef a).
Proof.
  intros Hc He Ha n. apply (munfold_agree mk h h' a); [|constructor].
  intros x Hx. eapply extends_agree; eauto.
Qed.

Theorem copy_complete_and_independent :
  forall (mk : loc -> list bool) (c : census) (s : srcmap) (reads : list string) h h' la lc nd nd',
  closed h -> closed h' -> extends h h' -> h la = Some nd -> h lc = None -> h' lc = Some nd' ->
  nmut nd' = nmut nd -> mk la = obs_mask c reads -> mk lc = obs_mask c reads ->
  List.length (nfields nd) = List.length c ->
  copy_fresh_mutables c = true -> copy_sources_match c s = true -> copy_export_ok c s reads = true ->
  kinds_rel h c (nfields nd) ->
  fields_rel_src h h' (nfields nd) (resolve c s) (nfields nd') ->
  fields_rel_c mk h h' (nfields nd) (eresolve c s reads) (nfields nd') ->
  mobs_eq mk h h' (VRef la) (VRef lc) /\
  (forall ms h'' R, steps (h', [lc]) ms (h'', R) -> forall n, munfold mk n h'' (VRef la) = munfold mk n h (VRef la)) /\
  (forall ms h'' R, steps (h', [la]) ms (h'', R) -> forall n, munfold mk n h'' (VRef lc) = munfold mk n h (VRef la)).
Proof.
  intros mk c s reads h h' la lc nd nd' Hc Hc' He Hla Hlc Hlc' Hm Hmka Hmkc Hlen Hf Hs Hx Hk Hr Hrc.
  assert (Ha : alloc h la) by (unfold alloc; congruence).
  assert (Ha' : alloc h' la) by (unfold alloc; rewrite (He _ _ Hla); discriminate).
  assert (Hcc : alloc h' lc) by (unfold alloc; congruence).
  assert (Hrel : fields_rel h h' (ck c) (nfields nd) (nfields nd')) by (eapply sources_fields_rel; eauto).
  assert (Hsep : sep h' la [lc]).
  { apply (copy_sep h h' la lc Hc He Ha). exact (census_copy_new_mut c h h' la lc nd nd' Hc He Hla Hlc Hlc' Hf Hrel). }
  assert (Heq : mobs_eq mk h h' (VRef la) (VRef lc)).
  { eapply copy_export_equal; eauto. }
  split; [exact Heq|]. split; intros ms h'' R Hst n.
  - rewrite (frame_masked_observation mk ms h' [lc] h'' R la Hc' Ha') ; auto.
    + apply extends_masked_observation; auto.
    + intros r [<-|[]]. exact Hcc.
  - rewrite (frame_masked_observation mk ms h' [la] h'' R lc Hc' Hcc); auto using sep_sym.
    intros r [<-|[]]. exact Ha'.
Qed.

(** The hypotheses are satisfiable (the 3-field example of StoreCopyExportProofs: id / blend / alpha). *)
Example copy_complete_and_independent_applies :
  let h := ex_h in let h' := ex_h' 7%Z in
  mobs_eq ex_mk h h' (VRef 1%positive) (VRef 2%positive) /\
  (forall ms h'' R, steps (h', [2%positive]) ms (h'', R) ->
     forall n, munfold ex_mk n h'' (VRef 1%positive) = munfold ex_mk n h (VRef 1%positive)) /\
  (forall ms h'' R, steps (h', [1%positive]) ms (h'', R) ->
     forall n, munfold ex_mk n h'' (VRef 2%positive) = munfold ex_mk n h (VRef 1%positive)).
Proof.
  cbv zeta.
  eapply (copy_complete_and_independent ex_mk ex_census ex_src_good ex_reads ex_h (ex_h' 7%Z) 1%positive 2%positive); try reflexivity.
  - intros l nd0 l' Hl. destruct l as [l|l|]; try discriminate. cbn in Hl. inversion Hl; subst. cbn. intros [H|[H|[H|[]]]]; discriminate.
  - intros l nd0 l' Hl. destruct l as [[l|l|]|[l|l|]|]; try discriminate; cbn in Hl; inversion Hl; subst; cbn;
      intros [H|[H|[H|[]]]]; discriminate.
  - intros l nd0. destruct l as [l|l|]; try discriminate. auto.
  - repeat constructor; intros l Hl; destruct Hl.
  - cbn. constructor; [cbn; exists 11%Z; reflexivity|].
    constructor; [cbn; exists 1%nat, (VAtom 5%Z); auto|].
    constructor; [cbn; exists 2%nat, (VAtom 7%Z); auto|]. constructor.
  - cbn. constructor; [intros; discriminate|]. constructor; [intros _; exists 1%nat, (VAtom 5%Z); cbn; auto|].
    constructor; [intros _; exists 2%nat, (VAtom 7%Z); cbn; auto|]. constructor.
Qed.

(** Independence is not implied by completeness: a copy that SHARES a mutable field exports equally at copy time
    (the census passes [copy_export_ok]) and fails (2) after one store through the copy. *)
Definition sh_census : census := [("color"%string, KMut, HShare)].
Definition sh_src : srcmap := [("color"%string, ["color"%string])].
Definition sh_reads : list string := ["color"%string].
Definition sh_mk : loc -> list bool := fun l => match l with 3%positive => [] | _ => obs_mask sh_census sh_reads end.
Definition sh_h : heap := fun l => match l with
  | 1%positive => Some (Node true [VRef 3%positive]) | 3%positive => Some (Node true [VAtom 255%Z]) | _ => None end.
Definition sh_h' : heap := fun l => match l with
  | 1%positive => Some (Node true [VRef 3%positive]) | 2%positive => Some (Node true [VRef 3%positive])
  | 3%positive => Some (Node true [VAtom 255%Z]) | _ => None end.

Theorem complete_but_shared_refuted :
  copy_export_ok sh_census sh_src sh_reads = true /\ copy_sources_match sh_census sh_src = true /\
  copy_fresh_mutables sh_census = false /\
  mobs_eq sh_mk sh_h sh_h' (VRef 1%positive) (VRef 2%positive) /\
  exists h'', steps (sh_h', [2%positive]) [MStore 3%positive [VAtom 0%Z]] (h'', [2%positive]) /\
              munfold sh_mk 2 h'' (VRef 1%positive) <> munfold sh_mk 2 sh_h (VRef 1%positive).
Proof.
  split; [reflexivity|]. split; [reflexivity|]. split; [reflexivity|]. split.
  - intros n. destruct n as [|[|n]]; try reflexivity. cbn. destruct n; reflexivity.
  - eexists. split.
    + econstructor; [|constructor].
      eapply (step_store sh_h' [2%positive] 3%positive [VAtom 0%Z] (Node true [VAtom 255%Z])); try reflexivity.
      * exists 2%positive. split; [left; reflexivity|].
        eapply (reach_step sh_h' 2%positive 2%positive (Node true [VRef 3%positive]) 3%positive); [constructor|reflexivity|left; reflexivity].
      * intros v [<-|[]]. exact I.
    + cbv. discriminate.
Qed.
