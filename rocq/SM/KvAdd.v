(** C09 — model of Keyvalues.__add__ / __iadd__ (keyvalues.py:1108) over the receiver census: which object
    each [._value.append] site appends to, and which object is returned.  Children lists are abstract. *)
From Coq Require Import List Bool.
Import ListNotations.

(** Receiver of an append / returned object: the deep copy made at the top of __add__, or self. *)
Inductive recv := RCopy | RSelf.

Section KvAdd.
  Context {A : Type}.

  (** State after the call: (children of self, children of the returned object).
      [single]: the deprecated branch (other is one non-root Keyvalues) vs the iterable branch. *)
  Definition kv_add (r_single r_iter ret : recv) (single : bool) (self other : list A) : list A * list A :=
    let r := if single then r_single else r_iter in
    let self' := match r with RSelf => self ++ other | RCopy => self end in
    let copy' := match r with RCopy => self ++ other | RSelf => self end in
    (self', match ret with RCopy => copy' | RSelf => self' end).

  (** __iadd__ returns self and must append to self. *)
  Definition kv_iadd (r_single r_iter : recv) (single : bool) (self other : list A) : list A :=
    match (if single then r_single else r_iter) with RSelf => self ++ other | RCopy => self end.
End KvAdd.

Definition recv_is_copy (r : recv) : bool := match r with RCopy => true | RSelf => false end.
