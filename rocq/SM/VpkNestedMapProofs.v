(** Proofs for SM/VpkNestedMap.v: the nested dicts with the translated insertion and clean-up are a finite map. *)
From Coq Require Import List NArith Bool.
From SV Require Import Fmt.VpkDir SM.Vpk SM.VpkProofs SM.VpkNested SM.VpkNestedProofs SM.VpkNestedMap.
Import ListNotations.
Open Scope N_scope.

Lemma bytes_eqb_refl a : bytes_eqb a a = true.
Proof. now apply bytes_eqb_eq. Qed.
Lemma bytes_eqb_trans_false a b c : bytes_eqb a b = true -> bytes_eqb c b = bytes_eqb c a.
Proof. intros H. apply bytes_eqb_eq in H. now subst. Qed.

Section b.
  Context {V : Type}.
  Lemma bget_bset k' k (v : V) l : bget k' (bset k v l) = if bytes_eqb k' k then Some v else bget k' l.
  Proof.
    induction l as [|[k0 v0] l IH]; cbn [bset bget].
    - reflexivity.
    - destruct (bytes_eqb k k0) eqn:E.
      + cbn [bget]. rewrite (bytes_eqb_trans_false _ _ k' E). destruct (bytes_eqb k' k); reflexivity.
      + cbn [bget]. rewrite IH. destruct (bytes_eqb k' k0) eqn:E0; [|reflexivity].
        destruct (bytes_eqb k' k) eqn:E1; [|reflexivity].
        apply bytes_eqb_eq in E0, E1. subst. rewrite bytes_eqb_refl in E. discriminate.
  Qed.
  Lemma bget_filter k' k (l : list (bytes * V)) :
    bget k' (filter (fun d => negb (bytes_eqb (fst d) k)) l) = if bytes_eqb k' k then None else bget k' l.
  Proof.
    induction l as [|[k0 v0] l IH]; cbn [filter bget fst].
    - now destruct (bytes_eqb k' k).
    - destruct (bytes_eqb k0 k) eqn:E; cbn [negb].
      + rewrite IH. destruct (bytes_eqb k' k) eqn:E1; [reflexivity|].
        destruct (bytes_eqb k' k0) eqn:E0; [|reflexivity]. apply bytes_eqb_eq in E0, E. subst. rewrite bytes_eqb_refl in E1. discriminate.
      + cbn [bget]. rewrite IH. destruct (bytes_eqb k' k0) eqn:E0; [|reflexivity].
        destruct (bytes_eqb k' k) eqn:E1; [|reflexivity]. apply bytes_eqb_eq in E0, E1. subst. rewrite bytes_eqb_refl in E. discriminate.
  Qed.
  (** mapping a function over the values that only changes the entries with key [k] *)
  Lemma bget_map k' k (f : bytes * V -> bytes * V) (l : list (bytes * V)) :
    (forall e, fst (f e) = fst e) ->
    bget k' (map (fun e => if bytes_eqb (fst e) k then f e else e) l) =
    if bytes_eqb k' k then option_map (fun v => snd (f (k', v))) (bget k' l) else bget k' l.
  Proof.
    intros Hf. induction l as [|[k0 v0] l IH]; cbn [map bget fst].
    - now destruct (bytes_eqb k' k).
    - destruct (bytes_eqb k0 k) eqn:E.
      + pose proof (Hf (k0, v0)) as Hk. destruct (f (k0, v0)) as [k1 v1] eqn:Ef. cbn [fst] in Hk. subst k1. cbn [bget].
        destruct (bytes_eqb k' k0) eqn:E0.
        * apply bytes_eqb_eq in E0. subst k0. rewrite E. cbn [option_map]. rewrite Ef. reflexivity.
        * exact IH.
      + cbn [bget]. destruct (bytes_eqb k' k0) eqn:E0; [|exact IH].
        apply bytes_eqb_eq in E0. subst k0. rewrite E. reflexivity.
  Qed.
End b.

Lemma key_eqb_split x' p' n' x p n : key_eqb (x', p', n') (x, p, n) = bytes_eqb x' x && bytes_eqb p' p && bytes_eqb n' n.
Proof. reflexivity. Qed.

(** ---- law 1: the empty archive has no file ---- *)
Lemma nlookup_nil k : nlookup [] k = None.
Proof. destruct k as [[x p] n]. reflexivity. Qed.

(** ---- law 2: lookup after insert ---- *)
Lemma goc_ok_step {V} g k (l : list (bytes * list V)) : goc_ok g = true ->
  goc_step g k l = Some (match bget k l with Some v => v | None => [] end, true).
Proof.
  unfold goc_ok, goc_step. destruct (g_present g), (g_absent g); try discriminate. intros _. now destruct (bget k l).
Qed.

Theorem nlookup_nins g1 g2 : goc_ok g1 = true -> goc_ok g2 = true -> forall t k i,
  exists t', nins g1 g2 t k i = Some t' /\ forall k', nlookup t' k' = if key_eqb k' k then Some i else nlookup t k'.
Proof.
  intros H1 H2 t [[x p] n] i. unfold nins. rewrite (goc_ok_step g1 x t H1), (goc_ok_step g2 p _ H2).
  eexists. split; [reflexivity|]. intros [[x' p'] n']. rewrite key_eqb_split. unfold nlookup.
  rewrite bget_bset. destruct (bytes_eqb x' x) eqn:Ex; cbn [andb]; [|reflexivity].
  apply bytes_eqb_eq in Ex. subst x'.
  rewrite bget_bset. destruct (bytes_eqb p' p) eqn:Ep; cbn [andb].
  - apply bytes_eqb_eq in Ep. subst p'. rewrite bget_bset. destruct (bytes_eqb n' n); [reflexivity|].
    destruct (bget x t) as [ds|]; [|reflexivity]. destruct (bget p ds); reflexivity.
  - destruct (bget x t) as [ds|]; reflexivity.
Qed.

(** ---- law 3: lookup after delete ---- *)
Lemma nlookup_rm_name x p n t k' :
  nlookup (rm_name x p n t) k' = if key_eqb k' (x, p, n) then None else nlookup t k'.
Proof.
  destruct k' as [[x' p'] n']. rewrite key_eqb_split. unfold nlookup, rm_name.
  rewrite (bget_map x' x (fun e => (fst e, map (fun d => if bytes_eqb (fst d) p
                                           then (fst d, filter (fun f => negb (bytes_eqb (fst f) n)) (snd d)) else d) (snd e)))) by reflexivity.
  destruct (bytes_eqb x' x) eqn:Ex; cbn [andb]; [|reflexivity].
  destruct (bget x' t) as [ds|]; cbn [option_map snd]; [|now destruct (bytes_eqb p' p && bytes_eqb n' n)].
  rewrite (bget_map p' p (fun d => (fst d, filter (fun f => negb (bytes_eqb (fst f) n)) (snd d)))) by reflexivity.
  destruct (bytes_eqb p' p) eqn:Ep; cbn [andb]; [|reflexivity].
  destruct (bget p' ds) as [fs|]; cbn [option_map snd]; [|now destruct (bytes_eqb n' n)].
  apply bget_filter.
Qed.

Lemma files_empty_bget x p t ds fs : files_empty x p t = true -> bget x t = Some ds -> bget p ds = Some fs -> fs = [].
Proof.
  unfold files_empty. induction t as [|[x0 ds0] t IH]; cbn [forallb bget fst snd]; [discriminate|].
  intros H. apply andb_prop in H as [He Ht]. rewrite (bytes_eqb_sym x x0). destruct (bytes_eqb x0 x); [|now apply IH].
  intros [= <-]. clear IH Ht. induction ds0 as [|[p0 fs0] ds0 IH]; cbn [forallb bget fst snd] in *; [discriminate|].
  apply andb_prop in He as [Hd Hs]. rewrite (bytes_eqb_sym p p0). destruct (bytes_eqb p0 p); [|now apply IH].
  intros [= <-]. now destruct fs0.
Qed.

Lemma nlookup_pop_folder x p t k' : files_empty x p t = true -> nlookup (pop_folder x p t) k' = nlookup t k'.
Proof.
  intros He. destruct k' as [[x' p'] n']. unfold nlookup, pop_folder.
  rewrite (bget_map x' x (fun e => (fst e, filter (fun d => negb (bytes_eqb (fst d) p)) (snd e)))) by reflexivity.
  destruct (bytes_eqb x' x) eqn:Ex; [|reflexivity]. apply bytes_eqb_eq in Ex. subst x'.
  destruct (bget x t) as [ds|] eqn:Et; cbn [option_map snd]; [|reflexivity].
  rewrite bget_filter. destruct (bytes_eqb p' p) eqn:Ep; [|reflexivity]. apply bytes_eqb_eq in Ep. subst p'.
  destruct (bget p ds) as [fs|] eqn:Ed; [|reflexivity]. now rewrite (files_empty_bget x p t ds fs He Et Ed).
Qed.

Lemma others_none_bget x p t ds p' fs : others_none x p t = true -> bget x t = Some ds -> bget p' ds = Some fs -> bytes_eqb p' p = true.
Proof.
  unfold others_none. induction t as [|[x0 ds0] t IH]; cbn [forallb bget fst snd]; [discriminate|].
  intros H. apply andb_prop in H as [He Ht]. rewrite (bytes_eqb_sym x x0). destruct (bytes_eqb x0 x); [|now apply IH].
  intros [= <-]. clear IH Ht. induction ds0 as [|[p0 fs0] ds0 IH]; cbn [forallb bget fst snd] in *; [discriminate|].
  apply andb_prop in He as [Hd Hs]. destruct (bytes_eqb p' p0) eqn:E; [|now apply IH].
  intros _. apply bytes_eqb_eq in E. now subst.
Qed.

Lemma nlookup_pop_ext x p t k' : files_empty x p t = true -> others_none x p t = true -> nlookup (pop_ext x t) k' = nlookup t k'.
Proof.
  intros He Ho. destruct k' as [[x' p'] n']. unfold nlookup, pop_ext. rewrite bget_filter.
  destruct (bytes_eqb x' x) eqn:Ex; [|reflexivity]. apply bytes_eqb_eq in Ex. subst x'.
  destruct (bget x t) as [ds|] eqn:Et; [|reflexivity].
  destruct (bget p' ds) as [fs|] eqn:Ed; [|reflexivity].
  pose proof (others_none_bget x p t ds p' fs Ho Et Ed) as Ep. apply bytes_eqb_eq in Ep. subst p'.
  now rewrite (files_empty_bget x p t ds fs He Et Ed).
Qed.

Lemma nmem_nlookup_none t k : nmem t k = false -> nlookup t k = None.
Proof.
  destruct k as [[x p] n]. unfold nmem, nlookup. intros H.
  destruct (bget x t) as [ds|] eqn:Et; [|reflexivity]. destruct (bget p ds) as [fs|] eqn:Ed; [|reflexivity].
  destruct (bget n fs) as [i|] eqn:Ef; [|reflexivity]. exfalso.
  assert (forall {V} k (l : list (bytes * V)) v, bget k l = Some v -> exists e, In e l /\ bytes_eqb (fst e) k = true /\ snd e = v) as Hin.
  { intros V k l. induction l as [|[k0 v0] l IH]; cbn [bget]; [discriminate|]. intros v.
    destruct (bytes_eqb k k0) eqn:E.
    - intros [= <-]. exists (k0, v0). split; [now left|]. split; [now rewrite bytes_eqb_sym|reflexivity].
    - intros Hb. destruct (IH v Hb) as (e & Hi & He). exists e. split; [now right|exact He]. }
  destruct (Hin _ _ _ _ Et) as (e & Hie & Hke & Hve). destruct (Hin _ _ _ _ Ed) as (d & Hid & Hkd & Hvd).
  destruct (Hin _ _ _ _ Ef) as (f & Hif & Hkf & _). subst.
  assert (existsb (fun e => bytes_eqb (fst e) x &&
            existsb (fun d => bytes_eqb (fst d) p && existsb (fun f => bytes_eqb (fst f) n) (snd d)) (snd e)) t = true) as Ht.
  { apply existsb_exists. exists e. split; [exact Hie|]. rewrite Hke. cbn [andb].
    apply existsb_exists. exists d. split; [exact Hid|]. rewrite Hkd. cbn [andb].
    apply existsb_exists. exists f. split; [exact Hif|exact Hkf]. }
  rewrite Ht in H. discriminate.
Qed.

Theorem nlookup_ndel prog : prog_safe prog = true -> forall t k,
  match ndel prog t k with
  | Some t' => forall k', nlookup t' k' = if key_eqb k' k then None else nlookup t k'
  | None => nlookup t k = None
  end.
Proof.
  intros Hs t [[x p] n]. unfold ndel. destruct (nmem t (x, p, n)) eqn:Hm; [|now apply nmem_nlookup_none].
  pose proof (prog_safe_at prog (files_empty x p (rm_name x p n t)) (others_none x p (rm_name x p n t)) Hs) as Hat.
  unfold safe_at in Hat.
  destruct (outcome prog _ _ false false) as [[fp ep]|]; [|discriminate].
  apply andb_prop in Hat as [Hfp Hep]. intros k'. rewrite <- nlookup_rm_name.
  destruct ep.
  - cbn [implb] in Hep. apply andb_prop in Hep as [Hfe Ho].
    destruct fp.
    + rewrite pop_ext_pop_folder. now apply nlookup_pop_ext with (p := p).
    + now apply nlookup_pop_ext with (p := p).
  - destruct fp; [|reflexivity]. cbn [implb] in Hfp. now apply nlookup_pop_folder.
Qed.

(** ---- refutations ---- *)
Definition ex_t2 : tree := [([116], [([97], [([120], ex_info)]); ([98], [([121], ex_info)])])].
Example goc_refuted :
  goc_ok goc_pinned = true /\ goc_ok goc_always_new = false /\ goc_ok goc_forgets_store = false
  (* a fresh dict for the extension on every new_file: adding c/z.t loses a/x.t *)
  /\ option_map (fun t => nlookup t ([116], [97], [120])) (nins goc_always_new goc_pinned ex_t2 ([116], [99], [122]) ex_info) = Some None
  /\ option_map (fun t => nlookup t ([116], [97], [120])) (nins goc_pinned goc_pinned ex_t2 ([116], [99], [122]) ex_info) = Some (Some ex_info)
  (* the new folder dict is not stored: the file just added is not there *)
  /\ option_map (fun t => nlookup t ([116], [99], [122])) (nins goc_pinned goc_forgets_store ex_t2 ([116], [99], [122]) ex_info) = Some None.
Proof. vm_compute. repeat split; reflexivity. Qed.
