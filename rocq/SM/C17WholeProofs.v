(** Proofs about SM/C17Whole.v: the four hypotheses of the composition theorem (SM/C17ComposeProofs.v), derived. *)
From Coq Require Import List Bool String Reals Permutation.
From SV Require Import SM.Store SM.StoreProofs SM.StoreCopy SM.StoreCopyProofs SM.C17Frame SM.C17FrameProofs
                       SM.C17Global SM.C17GlobalProofs SM.C17Compose SM.C17Whole Rot.C17Base.
Import ListNotations.

(** *** Placement: identity laws of the arithmetic give equivariance of whole results. *)
Lemma place_item_ident : forall D ar, arith_identity ar -> forall it : item D, place_item D ar ident_placement it = it.
Proof.
  intros D ar (Hp & Hd & Ha & Ho) [v|v|u|r|d]; unfold ident_placement; cbn [place_item fst snd];
    rewrite ?Hp, ?Hd, ?Ha, ?Ho; reflexivity.
Qed.

Lemma transform_ident : forall D ar, arith_identity ar -> forall r : added D, transform D ar ident_placement r = r.
Proof.
  intros D ar H [st l]. unfold transform. cbn [fst snd]. f_equal.
  induction l as [|x l IH]; cbn [map]; [reflexivity|]. rewrite place_item_ident by exact H. f_equal. exact IH.
Qed.

Section Proofs.
  Variable all : list (string * census).
  Variable copied : list string.
  Hypothesis fresh : copied_classes_fresh all copied = true.

  (** *** Template intact: a disciplined statement is a (sequence of) step(s) of [collapses]; C09's census theorem gives
      the premise of [col_copy], the frame theorem does the rest. *)
  Lemma closure_class_fresh : forall cls l n c, In cls copied -> copy_closure cls = Some l -> In n l ->
    lookup_census all n = Some c -> copy_fresh_mutables c = true.
  Proof.
    intros cls l n c Hc Hl Hn Hlook. unfold copied_classes_fresh in fresh. rewrite forallb_forall in fresh.
    specialize (fresh _ Hc). rewrite Hl in fresh. rewrite forallb_forall in fresh. specialize (fresh _ Hn).
    unfold class_fresh in fresh. rewrite Hlook in fresh. exact fresh.
  Qed.

  Lemma disciplined_frame : forall a h R h' R', disciplined all copied h R h' R' -> wf_hr a h R ->
    (forall n, unfold n h' (VRef a) = unfold n h (VRef a)) /\ wf_hr a h' R'.
  Proof.
    intros a h R h' R' H.
    induction H as [h R | h R ms h1 R1 h2 R2 Hs _ IH
                    | h R h1 cls l n c la lc nd nd' h2 R2 Hcls Hl Hn Hlook Hc1 He Hla Hlc Hlc1 Hf _ IH];
      intros (Hc & Ha & HR & Hsep).
    - split; [reflexivity | split; [|split; [|split]]; assumption].
    - assert (C : collapses h R h1 R1) by (eapply col_work; [exact Hs | apply col_done]).
      destruct (template_intact_any_number_of_collapses a h R h1 R1 C Hc Ha HR Hsep) as (Hu & Hsep1 & Hc1 & Ha1 & HR1).
      destruct (IH (conj Hc1 (conj Ha1 (conj HR1 Hsep1)))) as (Hu2 & W). split; [|exact W].
      intros k. rewrite Hu2. apply Hu.
    - assert (Hfr : copy_fresh_mutables c = true) by exact (closure_class_fresh cls l n c Hcls Hl Hn Hlook).
      assert (Hnew : new_mut h h1 (VRef lc))
        by exact (census_copy_new_mut c h h1 la lc nd nd' Hc He Hla Hlc Hlc1 Hfr Hf).
      assert (Hal : alloc h1 lc) by (unfold alloc; rewrite Hlc1; discriminate).
      assert (C : collapses h R h1 (lc :: R)) by (eapply col_copy; [exact Hc1 | exact He | exact Hal | exact Hnew | apply col_done]).
      destruct (template_intact_any_number_of_collapses a h R h1 (lc :: R) C Hc Ha HR Hsep) as (Hu & Hsep1 & Hc1' & Ha1 & HR1).
      destruct (IH (conj Hc1' (conj Ha1 (conj HR1 Hsep1)))) as (Hu2 & W). split; [|exact W].
      intros k. rewrite Hu2. apply Hu.
  Qed.

  Variables X G : Type.
  Variable a : loc.
  Variable m : sem (pstate X) G.
  Hypothesis resp : respects all copied X G a m.

  Notation pstate := (pstate X).
  Notation wf := (wf X a).
  Notation alike := (alike X a).
  Notation run := (run pstate G m).

  (** two program states that hold the same values, both well separated from a template of value [o] *)
  Definition sim (o : nat -> tree) (s s' : pstate) : Prop :=
    wf s /\ wf s' /\ p_x X s = p_x X s' /\ tmpl_is a o (p_heap X s) /\ tmpl_is a o (p_heap X s').

  Lemma sim_alike : forall o s s', sim o s s' -> alike s s'.
  Proof. intros o s s' (_ & _ & E & H1 & H2). split; [exact E|]. intros n. rewrite H1, H2. reflexivity. Qed.

  (** a primitive step keeps [sim] *)
  Lemma sim_step : forall o s s' s1 s1', sim o s s' -> dis all copied X s s1 -> dis all copied X s' s1' ->
    p_x X s1 = p_x X s1' -> sim o s1 s1'.
  Proof.
    intros o s s' s1 s1' (W & W' & _ & H1 & H2) Hd Hd' E.
    destruct (disciplined_frame a _ _ _ _ Hd W) as (Hu & W1).
    destruct (disciplined_frame a _ _ _ _ Hd' W') as (Hu' & W1').
    split; [exact W1|]. split; [exact W1'|]. split; [exact E|]. split.
    - intros n. rewrite Hu. apply H1.
    - intros n. rewrite Hu'. apply H2.
  Qed.

  Definition sim_out (o : nat -> tree) (r r' : outcome pstate G) : Prop :=
    sim o (fst (fst r)) (fst (fst r')) /\ snd (fst r) = snd (fst r') /\ snd r = snd r'.

  Lemma sim_out_same : forall o s s' g t, sim o s s' -> sim_out o (s, g, t) (s', g, t).
  Proof. intros. split; [assumption | split; reflexivity]. Qed.

  Lemma iter_sim : forall o n (f : pstate -> G -> outcome pstate G),
    (forall s s' g, sim o s s' -> sim_out o (f s g) (f s' g)) ->
    forall s s' g, sim o s s' -> sim_out o (iter pstate G n f s g) (iter pstate G n f s' g).
  Proof.
    induction n; intros f Hf s s' g Hs; cbn [iter].
    - apply sim_out_same; exact Hs.
    - pose proof (Hf s s' g Hs) as E.
      destruct (f s g) as [[s1 g1] t1], (f s' g) as [[s2 g2] t2].
      destruct E as (E1 & E2 & E3). cbn [fst snd] in E1, E2, E3. subst g2 t2.
      destruct t1 as [|[]]; try (apply IHn; assumption); apply sim_out_same; exact E1.
  Qed.

  (** *** Reads the template by value: two runs from alike states stay alike, statement by statement, and both keep
      the template's value (so the second half of the statement is "template intact" for a whole run). *)
  Lemma run_sim : forall o p s s' g, sim o s s' -> sim_out o (run p s g) (run p s' g).
  Proof.
    intros o p. induction p; intros s s' g Hs; cbn [C17Global.run].
    - (* KNil *) apply sim_out_same; exact Hs.
    - (* KSeq *)
      pose proof (IHp1 s s' g Hs) as E.
      destruct (run p1 s g) as [[s1 g1] t1], (run p1 s' g) as [[s2 g2] t2].
      destruct E as (E1 & E2 & E3). cbn [fst snd] in E1, E2, E3. subst g2 t2.
      destruct t1; [apply IHp2; assumption | apply sim_out_same; exact E1].
    - (* KEff *)
      pose proof (sim_alike _ _ _ Hs) as Al.
      destruct (r_eff_val _ _ _ _ _ _ resp i s s' Al) as (Ex & Er).
      pose proof (r_eff_dis _ _ _ _ _ _ resp i s (proj1 Hs)) as D1.
      pose proof (r_eff_dis _ _ _ _ _ _ resp i s' (proj1 (proj2 Hs))) as D2.
      destruct (eff pstate G m i s) as [s1 b1], (eff pstate G m i s') as [s2 b2]. cbn [fst snd] in *. subst b2.
      apply sim_out_same. apply (sim_step o s s' s1 s2 Hs D1 D2 Ex).
    - (* KTainted *)
      pose proof (sim_alike _ _ _ Hs) as Al.
      destruct (r_teff_val _ _ _ _ _ _ resp i s s' g Al) as (Ex & Er).
      pose proof (r_teff_dis _ _ _ _ _ _ resp i s g (proj1 Hs)) as D1.
      pose proof (r_teff_dis _ _ _ _ _ _ resp i s' g (proj1 (proj2 Hs))) as D2.
      destruct (teff pstate G m i s g) as [s1 b1], (teff pstate G m i s' g) as [s2 b2]. cbn [fst snd] in *. subst b2.
      apply sim_out_same. apply (sim_step o s s' s1 s2 Hs D1 D2 Ex).
    - (* KLog *) apply sim_out_same; exact Hs.
    - (* KUpd *)
      rewrite (r_gupd_val _ _ _ _ _ _ resp i s s' g (sim_alike _ _ _ Hs)). apply sim_out_same; exact Hs.
    - (* KJump *) apply sim_out_same; exact Hs.
    - (* KIf *)
      pose proof (sim_alike _ _ _ Hs) as Al. destruct t.
      + rewrite <- (r_cond_val _ _ _ _ _ _ resp i s s' Al). destruct (cond pstate G m i s); [apply IHp1 | apply IHp2]; assumption.
      + rewrite <- (r_gcond_val _ _ _ _ _ _ resp i s s' g Al). destruct (gcond pstate G m i s g); [apply IHp1 | apply IHp2]; assumption.
    - (* KLoop *)
      rewrite <- (r_count_val _ _ _ _ _ _ resp i s s' (sim_alike _ _ _ Hs)).
      apply iter_sim; [|exact Hs].
      intros s0 s0' g0 H0. apply IHp.
      pose proof (sim_alike _ _ _ H0) as Al.
      apply (sim_step o s0 s0' _ _ H0).
      + exact (r_next_dis _ _ _ _ _ _ resp i s0 (proj1 H0)).
      + exact (r_next_dis _ _ _ _ _ _ resp i s0' (proj1 (proj2 H0))).
      + exact (r_next_val _ _ _ _ _ _ resp i s0 s0' Al).
    - (* KTry *)
      pose proof (IHp1 s s' g Hs) as E.
      destruct (run p1 s g) as [[s1 g1] t1], (run p1 s' g) as [[s2 g2] t2].
      destruct E as (E1 & E2 & E3). cbn [fst snd] in E1, E2, E3. subst g2 t2.
      destruct t1 as [|[]]; try (apply IHp3; assumption); try (apply IHp2; assumption);
        apply sim_out_same; exact E1.
    - (* KCall *)
      pose proof (IHp s s' g Hs) as E.
      destruct (run p s g) as [[s1 g1] t1], (run p s' g) as [[s2 g2] t2].
      destruct E as (E1 & E2 & E3). cbn [fst snd] in E1, E2, E3. subst g2 t2.
      destruct t1 as [|[]]; apply sim_out_same; exact E1.
  Qed.

  (** *** The whole property. *)
  Variables A D : Type.
  Variable ar : arith.
  Hypothesis ar_id : arith_identity ar.
  Variable body : skel.
  Hypothesis body_ok : fn_ok body = true.
  Variable enter : A -> X.
  Variable content : X -> list (item D).

  Notation collapse := (collapse X G m A D ar body enter content).
  Notation start := (start X A enter).
  Notation wf_T := (wf_T a).
  Notation T := C17Whole.T.
  Definition same_T (t t' : T) : Prop := forall n, unfold n (fst t) (VRef a) = unfold n (fst t') (VRef a).

  Lemma start_sim : forall t t' a0, wf_T t -> wf_T t' -> same_T t t' ->
    sim (fun n => unfold n (fst t') (VRef a)) (start t a0) (start t' a0).
  Proof.
    intros t t' a0 W W' S. unfold sim, C17Whole.start, C17Whole.wf. cbn [p_heap p_roots p_x].
    split; [exact W|]. split; [exact W'|]. split; [reflexivity|]. split; [exact S | intros n; reflexivity].
  Qed.

  (** (1) the result depends on the template only through its value, (3) not on the process state,
      (4) on the placement only through [transform] *)
  Lemma collapse_out : forall t t0 g g0 p a0, wf_T t -> wf_T t0 -> same_T t t0 ->
    c_out _ _ _ (collapse t g p a0) = transform D ar p (c_out _ _ _ (collapse t0 g0 ident_placement a0)).
  Proof.
    intros t t0 g g0 p a0 W W0 S. unfold C17Whole.collapse.
    pose proof (call_noninterference pstate G m body body_ok (start t a0) g g0) as NI.
    pose proof (run_sim _ (KCall body) _ _ g0 (start_sim t t0 a0 W W0 S)) as SI.
    destruct (run (KCall body) (start t a0) g) as [[s1 g1] t1].
    destruct (run (KCall body) (start t a0) g0) as [[s2 g2] t2].
    destruct (run (KCall body) (start t0 a0) g0) as [[s3 g3] t3].
    apply result_eq in NI. cbn [fst snd] in NI. destruct NI as [-> ->].
    destruct SI as (SI & _ & E). cbn [fst snd] in SI, E. subst t3.
    destruct SI as (_ & _ & Ex & _). unfold c_out. cbn [fst snd]. rewrite <- Ex.
    rewrite (transform_ident D ar ar_id). reflexivity.
  Qed.

  (** (2) the template is intact after a collapse, and the process is again in a state from which the next one starts *)
  Lemma collapse_tmpl : forall t g p a0, wf_T t ->
    wf_T (c_tmpl _ _ _ (collapse t g p a0)) /\ same_T (c_tmpl _ _ _ (collapse t g p a0)) t.
  Proof.
    intros t g p a0 W. unfold C17Whole.collapse.
    pose proof (run_sim _ (KCall body) _ _ g (start_sim t t a0 W W (fun n => eq_refl))) as SI.
    destruct (run (KCall body) (start t a0) g) as [[s1 g1] t1].
    destruct SI as ((W1 & _ & _ & H1 & _) & _). cbn [fst snd] in W1, H1.
    unfold c_tmpl. cbn [fst snd]. split; [exact W1 | exact H1].
  Qed.

  Notation c_history := (c_history T G placement A (added D) collapse).
  Notation as_if_first := (as_if_first T G placement A (added D) collapse ident_placement (transform D ar)).

  Lemma whole_history_from : forall cs t t0 g g0, wf_T t -> wf_T t0 -> same_T t t0 ->
    c_history cs t g = map (as_if_first t0 g0) cs.
  Proof.
    induction cs as [|[p a0] r IH]; intros t t0 g g0 W W0 S; cbn [C17Compose.c_history map]; [reflexivity|].
    f_equal.
    - unfold C17Compose.as_if_first. cbn [fst snd]. apply collapse_out; assumption.
    - destruct (collapse_tmpl t g p a0 W) as (W1 & S1). apply IH; [exact W1 | exact W0|].
      intros n. rewrite (S1 n). apply S.
  Qed.

  (** Every result of any history of collapses of one template in one process - how control left collapse_one and what
      was added to the map - is what that call alone gives on the untouched template in a new process (any process
      state [g0]) at the identity placement, moved to its own placement. *)
  Theorem whole_each_collapse_as_if_first : forall cs t g g0, wf_T t -> c_history cs t g = map (as_if_first t g0) cs.
  Proof. intros. apply whole_history_from; try assumption. intros n. reflexivity. Qed.

  Corollary whole_order_independent : forall cs cs' t g, wf_T t -> Permutation.Permutation cs cs' ->
    Permutation.Permutation (c_history cs t g) (c_history cs' t g).
  Proof.
    intros cs cs' t g W Hp. rewrite (whole_each_collapse_as_if_first cs t g g W), (whole_each_collapse_as_if_first cs' t g g W).
    apply Permutation.Permutation_map. exact Hp.
  Qed.

  (** the template's value after the whole history is what it was *)
  Fixpoint final_T (cs : list (placement * A)) (t : T) (g : G) : T :=
    match cs with
    | [] => t
    | (p, a0) :: r => let x := collapse t g p a0 in final_T r (c_tmpl _ _ _ x) (c_glob _ _ _ x)
    end.

  Theorem whole_template_intact : forall cs t g, wf_T t -> wf_T (final_T cs t g) /\ same_T (final_T cs t g) t.
  Proof.
    induction cs as [|[p a0] r IH]; intros t g W; cbn [final_T]; [split; [exact W | intros n; reflexivity]|].
    destruct (collapse_tmpl t g p a0 W) as (W1 & S1).
    destruct (IH _ (c_glob _ _ _ (collapse t g p a0)) W1) as (W2 & S2). split; [exact W2|].
    intros n. rewrite (S2 n). apply S1.
  Qed.
End Proofs.

(** *** The hypotheses are satisfiable together, by a machine that really copies: the template is a field-less mutable
    object at location 1; statement 0 builds a census copy of it at the next free location (when the heap allows it)
    and records a point and a datum; the skeleton is today's shape `if key not in SEEN: log; SEEN.add(key)` followed
    by the statement.  Two collapses at two placements leave two copies and the template. *)
Definition ex_all : list (string * census) :=
  [("Solid", []); ("Side", []); ("DispVertex_in_Side", []); ("UVAxis", [])]%string.
Definition ex_copied : list string := ["Solid"%string].
Definition ex_X := (positive * list (item nat))%type.        (* next free location, content so far *)
Definition ex_a : loc := 1%positive.
Definition ex_items : list (item nat) := [IPoint nat (V 1 2 3); IData nat 7%nat].

Definition ex_copy (s : pstate ex_X) : pstate ex_X :=
  let c := fst (p_x _ s) in
  let x' := (Pos.succ c, app (snd (p_x _ s)) ex_items) in
  match p_heap _ s c, p_heap _ s ex_a with
  | None, Some (Node _ []) =>
      {| p_heap := upd (p_heap _ s) c (Node true []); p_roots := c :: p_roots _ s; p_x := x' |}
  | _, _ => {| p_heap := p_heap _ s; p_roots := p_roots _ s; p_x := x' |}
  end.

Definition ex_sem : sem (pstate ex_X) bool := {|
  eff := fun _ s => (ex_copy s, false);
  teff := fun _ s _ => (s, false);
  cond := fun _ _ => true;
  gcond := fun _ _ g => g;
  gupd := fun _ _ _ => true;
  count := fun _ _ => 1%nat;
  next := fun _ s => s |}.

Definition ex_body : skel := KSeq (KIf (TGlobal 0%nat) KNil (KSeq KLog (KUpd 0%nat))) (KEff 1%nat).
Definition ex_arith : arith := {|
  ar_point := fun v o _ => vadd v o; ar_dir := fun v _ => v; ar_axis := fun u _ _ => u; ar_orient := fun r _ => r |}.
Definition ex_t0 : T := (fun l => if Pos.eqb l 1 then Some (Node true []) else None, []).
Definition ex_enter (n : positive) : ex_X := (n, []).
Definition ex_content (x : ex_X) : list (item nat) := snd x.

Lemma ex_copy_dis : forall s, wf ex_X ex_a s -> dis ex_all ex_copied ex_X s (ex_copy s).
Proof.
  intros s (Hc & _). unfold dis, ex_copy.
  destruct (p_heap _ s (fst (p_x _ s))) as [?|] eqn:Ec; cbn [p_heap p_roots]; [apply dis_done|].
  destruct (p_heap _ s ex_a) as [[mu [|? ?]]|] eqn:Ea; cbn [p_heap p_roots]; try apply dis_done.
  eapply (dis_copy ex_all ex_copied (p_heap _ s) (p_roots _ s) (upd (p_heap _ s) (fst (p_x _ s)) (Node true [])) "Solid"%string _ "Solid"%string [] ex_a (fst (p_x _ s))
            (Node mu []) (Node true [])).
  - left; reflexivity.
  - reflexivity.
  - left; reflexivity.
  - reflexivity.
  - intros l nd l' E I. unfold upd in E. destruct (Pos.eqb l (fst (p_x _ s))).
    + injection E as <-. destruct I.
    + unfold alloc, upd. destruct (Pos.eqb l' (fst (p_x _ s))); [discriminate | exact (Hc l nd l' E I)].
  - intros l nd E. unfold upd. destruct (Pos.eqb l (fst (p_x _ s))) eqn:El; [|exact E].
    apply Pos.eqb_eq in El. subst l. rewrite Ec in E. discriminate.
  - exact Ea.
  - exact Ec.
  - unfold upd. rewrite Pos.eqb_refl. reflexivity.
  - constructor.
  - apply dis_done.
Qed.

Lemma ex_respects : respects ex_all ex_copied ex_X bool ex_a ex_sem.
Proof.
  constructor; cbn [eff teff next cond gcond gupd count ex_sem fst snd]; intros; try reflexivity; try apply dis_done.
  - apply ex_copy_dis; assumption.
  - destruct H as (E & _). split; [|reflexivity]. unfold ex_copy. rewrite E.
    destruct (p_heap _ s _) as [?|], (p_heap _ s' _) as [?|];
      repeat match goal with |- context [match ?h ex_a with _ => _ end] => destruct (h ex_a) as [[? [|? ?]]|] end;
      reflexivity.
  - destruct H as (E & _). split; [exact E | reflexivity].
  - destruct H as (E & _). exact E.
Qed.

Lemma ex_arith_identity : arith_identity ex_arith.
Proof.
  repeat split; intros; cbn [ar_point ar_dir ar_axis ar_orient ex_arith]; try reflexivity.
  destruct v; unfold vadd, vzero; cbn; f_equal; apply Rplus_0_r.
Qed.

Lemma ex_wf : wf_T ex_a ex_t0.
Proof.
  unfold wf_T, wf_hr, ex_t0. cbn [fst snd]. split; [|split; [|split]].
  - intros l nd l' E I. destruct (Pos.eqb l 1); [|discriminate]. injection E as <-. destruct I.
  - unfold alloc, ex_a. cbn. discriminate.
  - intros r [].
  - intros l _ (r & [] & _).
Qed.

Example whole_hypotheses_satisfiable :
  respects ex_all ex_copied ex_X bool ex_a ex_sem /\ copied_classes_fresh ex_all ex_copied = true /\
  fn_ok ex_body = true /\ arith_identity ex_arith /\ wf_T ex_a ex_t0 /\
  (* two collapses in one process: two copies are held afterwards, the template is still the field-less object *)
  (let t2 := final_T ex_X bool ex_sem positive nat ex_arith ex_body ex_enter ex_content
               [((V 10 0 0, mid), 2%positive); ((V 0 20 0, mid), 3%positive)] ex_t0 false in
   snd t2 = [3%positive; 2%positive] /\ fst t2 1%positive = Some (Node true [])) /\
  (* and the first result is the recorded content moved to its placement *)
  (forall g, c_out _ _ _ (collapse ex_X bool ex_sem positive nat ex_arith ex_body ex_enter ex_content ex_t0 g (V 10 0 0, mid) 2%positive)
             = (Normal, [IPoint nat (vadd (V 1 2 3) (V 10 0 0)); IData nat 7%nat])).
Proof.
  split; [exact ex_respects|]. split; [reflexivity|]. split; [reflexivity|]. split; [exact ex_arith_identity|].
  split; [exact ex_wf|]. split; [split; reflexivity|]. intros []; reflexivity.
Qed.
