From stdpp Require Import list.
From Coq Require Import ZArith Lia.
From SV Require Import SM.IdLife SM.IdLifeProofs SM.IdFixupHist.
Open Scope Z_scope.

Lemma fx_empty_inv : FxInv [].
Proof. split; [constructor|]. intros i Hi. inversion Hi. Qed.

Lemma fx_step_inv f o : FxInv f → FxInv (fx_step true true f o).
Proof.
  intros H. destruct o as [v|v| | |]; simpl.
  - by apply fx_set_inv.
  - by apply fx_del_inv.
  - apply fx_empty_inv.
  - apply fx_init_inv.
  - done.
Qed.

(** After the constructor on ANY list and EVERY sequence of operations, the replaceNN indexes of one entity are
    pairwise distinct and positive. *)
Theorem fx_hist_inv l ops : FxInv (fx_hist true true l ops).
Proof.
  unfold fx_hist. generalize (fx_init_inv l). generalize (fx_init true true l).
  induction ops as [|o ops IH]; intros f H; simpl; [done|]. apply IH. by apply fx_step_inv.
Qed.

(** The variables of a table stay distinct as well (one index per variable, one variable per index). *)
Definition FxVars (f : fixups) : Prop := NoDup (f.*1).

Lemma fx_set_vars v f : FxVars f → FxVars (fx_set v f).
Proof.
  unfold FxVars, fx_set. intros H. destruct (decide _) as [|Hn]; [done|].
  rewrite fmap_app. simpl. apply NoDup_app. split; [done|]. split; [|apply NoDup_singleton].
  intros x Hx Hx'. apply elem_of_list_singleton in Hx' as ->. done.
Qed.

Lemma fx_filter_vars (P : Z * Z → Prop) `{∀ p, Decision (P p)} f : FxVars f → FxVars (filter P f).
Proof. unfold FxVars. intros H'. eapply my_sublist_NoDup; [|exact H']. apply fmap_sublist, my_sublist_filter. Qed.

(** Rebuilding a table from its own values (Entity.copy) keeps every variable's index: when the indexes are
    distinct and positive and the variables distinct, the constructor accepts every value as it is. *)
Lemma fx_init_pass_id l : ∀ seen f extra,
  NoDup (l.*2) → (∀ i, i ∈ l.*2 → 0 < i ∧ i ∉ seen) → NoDup (l.*1) → (∀ v, v ∈ l.*1 → v ∉ f.*1) →
  fx_init_pass true true l seen f extra = (f ++ l, extra).
Proof.
  induction l as [|[v i] r IH]; intros seen f extra Hnd Hok Hv Hf; cbn [fx_init_pass].
  - by rewrite app_nil_r.
  - rewrite fmap_cons in Hnd, Hv, Hok, Hf. cbn [fst snd] in *.
    apply NoDup_cons in Hnd as [Hir Hnd]. apply NoDup_cons in Hv as [Hvr Hv].
    destruct (Hok i) as [Hpos Hns]; [left|].
    assert (Hacc : accept true i seen = true).
    { unfold accept. apply andb_true_iff. split; by apply bool_decide_eq_true. }
    rewrite Hacc.
    assert (Hall : ∀ p, p ∈ f → p.1 ≠ v).
    { intros p Hp Heq. apply (Hf v); [left|]. rewrite <- Heq. apply elem_of_list_fmap. eauto. }
    assert (Hfil : ∀ g : list (Z * Z), (∀ p, p ∈ g → p.1 ≠ v) → filter (λ p : Z * Z, p.1 ≠ v) g = g).
    { clear. induction g as [|p g IHg]; intros Hall; [done|].
      rewrite filter_cons_True by (apply Hall; left). f_equal. apply IHg. intros q Hq. apply Hall. by right. }
    unfold fixups in *. rewrite (Hfil f Hall).
    rewrite (IH (i :: seen) (f ++ [(v, i)]) extra); [by rewrite <- app_assoc| done | | done |].
    + intros j Hj. destruct (Hok j) as [? ?]; [by right|]. split; [done|].
      intros Hx. apply elem_of_cons in Hx as [->|Hx]; done.
    + intros w Hw Hx. rewrite fmap_app in Hx. apply elem_of_app in Hx as [Hx|Hx].
      * apply (Hf w); [by right|done].
      * simpl in Hx. apply elem_of_list_singleton in Hx as ->. done.
Qed.

Theorem fx_rebuild_id f : FxInv f → FxVars f → fx_init true true f = f.
Proof.
  intros [Hnd Hpos] Hv. unfold fx_init.
  rewrite (fx_init_pass_id f [] [] []); [done|done| |done|].
  - intros i Hi. split; [by apply Hpos|]. intros Hx. inversion Hx.
  - intros v _ Hx. inversion Hx.
Qed.

(** Without the positivity test or without the deferral the history theorem fails at the first step. *)
Theorem fx_hist_refuted_without_positive_test : (fx_hist false true [(7, 0)] [FSet 8; FRebuild]).*2 = [0; 1].
Proof. vm_compute. reflexivity. Qed.
Theorem fx_hist_refuted_without_deferral :
  (fx_hist true false [(10, 1); (11, 1); (12, 2)] [FDel 10; FSet 13]).*2 = [2; 2; 1].
Proof. vm_compute. reflexivity. Qed.
