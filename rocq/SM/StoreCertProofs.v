(** C09 — soundness of the certificate checker of StoreCert.v: an accepted export satisfies every premise
    of the frame theorem, hence copy and original are independent under all mutation histories. *)
From Coq Require Import List PArith ZArith Bool FMapPositive.
From SV Require Import SM.Store SM.StoreProofs SM.StoreCert.
Import ListNotations.

Lemma smem_mk_set x l : smem x (mk_set l) = true -> In x l.
Proof.
  unfold smem. induction l as [|y l IH]; cbn [mk_set fold_right].
  - rewrite PositiveMap.mem_find, PositiveMap.gempty. discriminate.
  - destruct (Pos.eq_dec x y) as [->|Hne]; [left; reflexivity|].
    rewrite PositiveMap.mem_find, PositiveMap.gso by assumption.
    rewrite <- PositiveMap.mem_find. right. auto.
Qed.

Lemma find_mk_heap x nd l : PositiveMap.find x (mk_heap l) = Some nd -> In (x, nd) l.
Proof.
  induction l as [|[k v] l IH]; cbn [mk_heap fold_right fst snd].
  - rewrite PositiveMap.gempty. discriminate.
  - destruct (Pos.eq_dec x k) as [->|Hne].
    + rewrite PositiveMap.gss. intros H. inversion H. left. reflexivity.
    + rewrite PositiveMap.gso by assumption. right. auto.
Qed.

(** A closed set that contains [a] contains everything reachable from [a]. *)
Lemma closed_set_reach m S a :
  closed_set m S (mk_set S) = true -> smem a (mk_set S) = true ->
  forall l, reach (hof m) a l -> smem l (mk_set S) = true.
Proof.
  intros Hc Ha l Hr. induction Hr; [assumption|].
  unfold closed_set in Hc. rewrite forallb_forall in Hc.
  specialize (Hc l (smem_mk_set _ _ IHHr)). unfold hof in H. rewrite H in Hc.
  rewrite forallb_forall in Hc. exact (Hc (VRef l') H0).
Qed.

Lemma closed_set_alloc m S x :
  closed_set m S (mk_set S) = true -> smem x (mk_set S) = true -> alloc (hof m) x.
Proof.
  intros Hc Hx. unfold closed_set in Hc. rewrite forallb_forall in Hc.
  specialize (Hc x (smem_mk_set _ _ Hx)). unfold alloc, hof.
  destruct (PositiveMap.find x m); [discriminate|discriminate].
Qed.

Lemma cert_ok_sound m a b SA SB :
  cert_ok m a b SA SB = true ->
  alloc (hof m) a /\ alloc (hof m) b /\ sep (hof m) a [b].
Proof.
  unfold cert_ok. rewrite !andb_true_iff. intros [[[[Ha Hb] HcA] HcB] Hd].
  split; [exact (closed_set_alloc m SA a HcA Ha)|]. split; [exact (closed_set_alloc m SB b HcB Hb)|].
  intros l Hla (r & [<-|[]] & Hlb) (nd & Hnd & Hm).
  pose proof (closed_set_reach _ _ _ HcA Ha l Hla) as HlA.
  pose proof (closed_set_reach _ _ _ HcB Hb l Hlb) as HlB.
  rewrite forallb_forall in Hd. specialize (Hd l (smem_mk_set _ _ HlA)).
  unfold mutb in Hd. unfold hof in Hnd. rewrite Hnd, HlB, Hm in Hd. discriminate.
Qed.

Lemma heap_closed_sound l : heap_closed_b (mk_heap l) l = true -> closed (hof (mk_heap l)).
Proof.
  unfold heap_closed_b. rewrite forallb_forall. intros H x nd x' Hx Hin.
  specialize (H (x, nd) (find_mk_heap _ _ _ Hx)). cbn [snd] in H.
  rewrite forallb_forall in H. specialize (H (VRef x') Hin). cbn in H.
  unfold alloc, hof. rewrite PositiveMap.mem_find in H.
  destruct (PositiveMap.find x' (mk_heap l)); [discriminate|discriminate].
Qed.

(** Accepted export ⟹ for EVERY mutation history through the copy [b], the original [a] is observed
    unchanged at every depth; and the same with the roles exchanged. *)
Theorem export_ok_independent : forall l a b SA SB,
  export_ok l a b SA SB = true ->
  let h := hof (mk_heap l) in
  (forall ms h' R', steps (h, [b]) ms (h', R') -> forall n, unfold n h' (VRef a) = unfold n h (VRef a)) /\
  (forall ms h' R', steps (h, [a]) ms (h', R') -> forall n, unfold n h' (VRef b) = unfold n h (VRef b)).
Proof.
  intros l a b SA SB H h. unfold export_ok in H. rewrite andb_true_iff in H. destruct H as [Hcl Hcert].
  apply heap_closed_sound in Hcl. apply cert_ok_sound in Hcert. destruct Hcert as (Ha & Hb & Hsep).
  split; intros ms h' R' Hs n.
  - eapply frame_observation; eauto. intros r [<-|[]]. exact Hb.
  - eapply frame_observation; eauto using sep_sym. intros r [<-|[]]. exact Ha.
Qed.

(** The checker is not vacuous: it accepts a two-object heap that shares an immutable node and
    rejects one that shares a mutable node. *)
Example export_ok_accepts :
  export_ok [(1, Node true [VRef 3; VRef 5]); (2, Node true [VRef 4; VRef 5]); (3, Node true [VAtom 1]);
             (4, Node true [VAtom 1]); (5, Node false [VAtom 7])]%positive 1%positive 2%positive [1;3;5]%positive [2;4;5]%positive = true.
Proof. vm_compute. reflexivity. Qed.

Example export_ok_rejects :
  export_ok [(1, Node true [VRef 3]); (2, Node true [VRef 3]); (3, Node true [VAtom 1])]%positive
            1%positive 2%positive [1;3]%positive [2;3]%positive = false.
Proof. vm_compute. reflexivity. Qed.
