(** C05 (a) — range theorems for the executable model of Python's [x % 360.0] (Num/Mod360.v). *)
From Coq Require Import ZArith Reals Lia Lra Bool.
From Flocq Require Import Core BinarySingleNaN.
From SV Require Import Num.Mod360.
Open Scope R_scope.

Notation fexp64 := (FLT_exp (-1074) 53).
Notation rnd := (round radix2 fexp64 ZnearestE).

Lemma fmt_dyadic m e : (Z.abs m < 2 ^ 53)%Z -> (-1074 <= e)%Z ->
  generic_format radix2 fexp64 (F2R (Float radix2 m e)).
Proof.
  intros Hm He. apply generic_format_FLT. exists (Float radix2 m e); simpl; auto.
Qed.

Lemma fmt_360 : generic_format radix2 fexp64 360.
Proof.
  replace 360 with (F2R (Float radix2 360 0)) by (unfold F2R; simpl; lra).
  apply fmt_dyadic; lia.
Qed.

Lemma bpow1024_big : 360 < bpow radix2 1024.
Proof.
  apply Rlt_le_trans with (bpow radix2 9).
  - simpl. lra.
  - apply bpow_le. lia.
Qed.

(** [norm] is exact on dyadics that fit and are small. *)
Lemma norm_exact m e : (Z.abs m < 2 ^ 53)%Z -> (-1074 <= e)%Z ->
  Rabs (F2R (Float radix2 m e)) <= 360 ->
  B2R (norm m e) = F2R (Float radix2 m e) /\ is_finite (norm m e) = true.
Proof.
  intros Hm He Hs.
  generalize (binary_normalize_correct 53 1024 Hprec53 Hemax1024 mode_NE m e false).
  cbv zeta. fold (norm m e).
  change (SpecFloat.fexp 53 1024) with fexp64.
  change (round_mode mode_NE) with ZnearestE.
  rewrite (round_generic radix2 fexp64 ZnearestE _ (fmt_dyadic m e Hm He)).
  rewrite Rlt_bool_true.
  - intros (H1 & H2 & _). auto.
  - eapply Rle_lt_trans; [exact Hs | exact bpow1024_big].
Qed.

Lemma f360_spec : B2R f360 = 360 /\ is_finite f360 = true.
Proof.
  destruct (norm_exact 360 0) as [H1 H2]; try lia.
  - unfold F2R; simpl. rewrite Rabs_pos_eq; lra.
  - split; auto. fold f360 in H1. rewrite H1. unfold F2R; simpl; lra.
Qed.

(** bounds carried by a finite binary64 record *)
Lemma bounded_facts m e : SpecFloat.bounded 53 1024 m e = true -> (Z.pos m < 2 ^ 53)%Z /\ (-1074 <= e)%Z.
Proof.
  intros H. apply andb_prop in H. destruct H as [H _].
  apply Zeq_bool_eq in H. unfold SpecFloat.fexp, SpecFloat.emin in H.
  rewrite Digits.Zpos_digits2_pos in H.
  split; [|lia].
  assert (Hd : (Digits.Zdigits radix2 (Z.pos m) <= 53)%Z) by lia.
  apply (Digits.Zpower_gt_Zdigits radix2) in Hd. simpl Z.abs in Hd. exact Hd.
Qed.

(** the integer remainder is a dyadic in [0, 360) that fits a binary64 mantissa *)
Lemma rem360_facts mx e : (0 < mx < 2 ^ 53)%Z -> (-1074 <= e)%Z ->
  let '(rm, re) := rem360 mx e in
  (0 <= rm < 2 ^ 53)%Z /\ (-1074 <= re)%Z /\ 0 <= F2R (Float radix2 rm re) < 360.
Proof.
  intros Hm He. unfold rem360. destruct (0 <=? e)%Z eqn:E.
  - pose proof (Z.mod_pos_bound (mx * 2 ^ e) 360 ltac:(lia)) as Hb.
    split; [lia|]. split; [lia|].
    unfold F2R; simpl. rewrite Rmult_1_r. split.
    + apply IZR_le; lia.
    + apply IZR_lt; lia.
  - apply Z.leb_gt in E.
    assert (Hp : (0 < 2 ^ (- e))%Z) by (apply Z.pow_pos_nonneg; lia).
    pose proof (Z.mod_pos_bound mx (360 * 2 ^ (- e)) ltac:(lia)) as Hb.
    assert (Hle : (mx mod (360 * 2 ^ (- e)) <= mx)%Z) by (apply Z.mod_le; lia).
    split; [lia|]. split; [lia|].
    unfold F2R; cbn [Fnum Fexp].
    assert (Hbp : 0 < bpow radix2 e) by apply bpow_gt_0.
    split.
    + apply Rmult_le_pos; [apply IZR_le; lia | lra].
    + assert (IZR (mx mod (360 * 2 ^ (- e))) < 360 * bpow radix2 (- e)).
      { replace (360 * bpow radix2 (- e)) with (IZR (360 * 2 ^ (- e))).
        - apply IZR_lt; lia.
        - rewrite mult_IZR. f_equal. rewrite (IZR_Zpower radix2); auto; lia. }
      replace 360 with (360 * bpow radix2 (- e) * bpow radix2 e).
      * apply Rmult_lt_compat_r; auto.
      * rewrite Rmult_assoc, <- bpow_plus. replace (- e + e)%Z with 0%Z by lia. simpl; lra.
Qed.

(** What [fmod360] returns on a finite argument: finite, |.| < 360, never with the opposite sign. *)
Lemma fmod360_spec x : is_finite x = true ->
  is_finite (fmod360 x) = true /\ Rabs (B2R (fmod360 x)) < 360 /\
  (Bsign x = false -> 0 <= B2R (fmod360 x)) /\ (Bsign x = true -> B2R (fmod360 x) <= 0).
Proof.
  destruct x as [s|s| |s m e Hb]; try discriminate; intros _.
  - simpl. rewrite Rabs_R0. repeat split; try lra.
  - destruct (bounded_facts m e Hb) as [Hm He].
    pose proof (rem360_facts (Z.pos m) e ltac:(lia) He) as Hr.
    unfold fmod360. destruct (rem360 (Z.pos m) e) as [rm re].
    destruct Hr as (Hrm & Hre & Hv).
    destruct (rm =? 0)%Z eqn:Ez.
    + simpl. rewrite Rabs_R0. repeat split; try lra.
    + set (sm := if s then (- rm)%Z else rm).
      assert (Habs : (Z.abs sm < 2 ^ 53)%Z) by (unfold sm; destruct s; lia).
      assert (HF : F2R (Float radix2 sm re) = if s then - F2R (Float radix2 rm re) else F2R (Float radix2 rm re)).
      { unfold sm; destruct s; auto. rewrite <- F2R_Zopp. reflexivity. }
      destruct (norm_exact sm re Habs Hre) as [H1 H2].
      { rewrite HF. destruct s; [rewrite Rabs_Ropp|]; rewrite Rabs_pos_eq; lra. }
      rewrite H1, HF. split; auto.
      destruct s; simpl Bsign; repeat split; intros; try discriminate;
        try rewrite Rabs_Ropp; try rewrite Rabs_pos_eq; lra.
Qed.

Lemma is_neg_R x : is_neg x = true -> B2R x < 0.
Proof.
  destruct x as [s|s| |[|] m e Hb]; try discriminate. intros _.
  simpl. apply F2R_lt_0. simpl. lia.
Qed.

Lemma not_neg_R x : is_finite x = true -> is_neg x = false -> 0 <= B2R x.
Proof.
  destruct x as [s|s| |[|] m e Hb]; try discriminate; intros _ _; simpl; try lra.
  apply F2R_ge_0. simpl. lia.
Qed.

Lemma is_zero_R x : is_zero x = true -> B2R x = 0.
Proof. destruct x; try discriminate; auto. Qed.

Lemma not_zero_R x : is_finite x = true -> is_zero x = false -> B2R x <> 0.
Proof.
  destruct x as [s|s| |s m e Hb]; try discriminate; intros _ _. simpl.
  apply F2R_neq_0. simpl. destruct s; simpl; lia.
Qed.

(** the sign-adjusting rounded addition stays inside [0, 360] — and can reach 360 *)
Lemma adjust_range m : -360 < m < 0 -> 0 <= rnd (m + 360) <= 360.
Proof.
  intros Hm. split.
  - rewrite <- (round_0 radix2 fexp64 ZnearestE). apply round_le; try typeclasses eauto. lra.
  - rewrite <- (round_generic radix2 fexp64 ZnearestE 360 fmt_360) at 2.
    apply round_le; try typeclasses eauto. lra.
Qed.

(** One application of Python's [% 360.0]: finite, in the CLOSED interval [0, 360]. *)
Lemma pymod360_closed x : is_finite x = true ->
  is_finite (pymod360 x) = true /\ 0 <= B2R (pymod360 x) <= 360 /\
  (Bsign x = false -> B2R (pymod360 x) < 360).
Proof.
  intros Hx. destruct (fmod360_spec x Hx) as (Hf & Ha & Hp & Hn).
  unfold pymod360. destruct (is_zero (fmod360 x)) eqn:Ez.
  - simpl. repeat split; try lra.
  - destruct (is_neg (fmod360 x)) eqn:En.
    + pose proof (is_neg_R _ En) as Hlt.
      assert (Hr : -360 < B2R (fmod360 x) < 0).
      { split; auto. apply Rabs_def2 in Ha. lra. }
      destruct f360_spec as [H360 F360].
      generalize (Bplus_correct 53 1024 Hprec53 Hemax1024 mode_NE (fmod360 x) f360 Hf F360).
      change (SpecFloat.fexp 53 1024) with fexp64.
      change (round_mode mode_NE) with ZnearestE.
      rewrite H360. pose proof (adjust_range _ Hr) as Hadj.
      rewrite Rlt_bool_true.
      * intros (H1 & H2 & _). rewrite H1. repeat split; try lra; auto.
        intros Hs. specialize (Hp Hs). lra.
      * rewrite Rabs_pos_eq by lra. eapply Rle_lt_trans; [apply Hadj | exact bpow1024_big].
    + pose proof (not_neg_R _ Hf En) as Hge.
      rewrite Rabs_pos_eq in Ha by auto. repeat split; auto; lra.
Qed.

Lemma Bsign_nonneg x : is_finite x = true -> 0 <= B2R x -> is_zero x = false -> Bsign x = false.
Proof.
  destruct x as [s|s| |[|] m e Hb]; try discriminate; auto. intros _ H _. exfalso.
  simpl in H. assert (F2R (Float radix2 (Z.neg m) e) < 0) by (apply F2R_lt_0; simpl; lia). lra.
Qed.

(** fmod360 of exactly 360 is a zero: the case that the second [%] repairs *)
Lemma pymod360_of_zero x : is_zero x = true -> pymod360 x = B754_zero false.
Proof. destruct x; try discriminate; auto. Qed.

(** The double application is in the HALF-OPEN interval [0, 360). *)
Theorem norm360_range x : is_finite x = true ->
  is_finite (double360 x) = true /\ 0 <= B2R (double360 x) < 360.
Proof.
  intros Hx. unfold double360.
  destruct (pymod360_closed x Hx) as (Hf & [H0 H360] & _).
  set (y := pymod360 x) in *.
  destruct (is_zero y) eqn:Ez.
  - rewrite (pymod360_of_zero y Ez). simpl. split; auto; lra.
  - pose proof (Bsign_nonneg y Hf H0 Ez) as Hs.
    destruct (pymod360_closed y Hf) as (Hf2 & [Ha Hb] & Hc).
    split; [exact Hf2|]. split; [exact Ha | exact (Hc Hs)].
Qed.

(** The hypothesis of the theorem is satisfiable, and the conclusion is not trivially about 0. *)
Example norm360_example : show (double360 (mk false 1451 (-1))) = (0, 6192449487634432, -50)%Z.
Proof. vm_compute. reflexivity. Qed.

Lemma show_B2R (x y : b64) : show x = show y -> B2R x = B2R y.
Proof.
  destruct x as [[|]|[|]| |[|] m e Hb], y as [[|]|[|]| |[|] m' e' Hb']; simpl; intros E;
    try reflexivity; try discriminate; inversion E; subst; reflexivity.
Qed.

(** A single application is NOT enough: -1e-14 % 360.0 is exactly 360.0. *)
Theorem single_mod_refuted : exists x, is_finite x = true /\ B2R (single360 x) = 360.
Proof.
  exists tiny_neg. split; [vm_compute; reflexivity|].
  destruct f360_spec as [H360 _]. rewrite <- H360.
  apply show_B2R. vm_compute. reflexivity.
Qed.
