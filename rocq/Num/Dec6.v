(** C05 (c) — exact model of srctools.math.format_float on dyadic rationals.

      result = f'{x+0.0:.6f}'                      (C printf "%.6f": correctly rounded, ties to even)
      if '.' in result: result = result.rstrip('0').rstrip('.')
      [return '0' if result == '-0' else result]   (present or not: read from the source, [neg_zero_fix])

    A double is given exactly as (neg, m, e) with value (-1)^neg · m · 2^e  (m : N, e : Z).
    Only definitions here; proofs in Dec6Proofs.v. *)
From Coq Require Import ZArith NArith List Bool.
Import ListNotations.
Open Scope N_scope.

(** shape of the pipeline, regenerated from math.py by translate/c05_sites.py *)
Record fmt_cfg := { adds_zero : bool;        (* formats x+0.0 rather than x *)
                    places : N;              (* default number of places (6) *)
                    strips : bool;           (* rstrip('0') then rstrip('.') when a '.' is present *)
                    neg_zero_fix : bool }.   (* maps the result '-0' to '0' *)

Record dyadic := { dneg : bool; dm : N; de : Z }.

(** n = round-half-even(m·2^e·10^6), as printf does for the magnitude *)
Definition num_den (x : dyadic) : N * N :=
  if (0 <=? de x)%Z then (dm x * 2 ^ Z.to_N (de x) * 1000000, 1)
  else (dm x * 1000000, 2 ^ Z.to_N (- de x)).

Definition round_half_even (num den : N) : N :=
  let q := num / den in
  let r := num mod den in
  match (2 * r) ?= den with
  | Lt => q
  | Gt => q + 1
  | Eq => if N.even q then q else q + 1
  end.

Definition scaled6 (x : dyadic) : N := let '(num, den) := num_den x in round_half_even num den.

(** decimal digits of the integer part, most significant first, "0" for zero *)
Fixpoint digs (fuel : nat) (q : N) (acc : list N) : list N :=
  match fuel with
  | O => acc
  | S f => if q <? 10 then q :: acc else digs f (q / 10) (q mod 10 :: acc)
  end.
Definition to_digits (q : N) : list N := digs (S (N.to_nat (N.size q))) q [].

(** exactly k digits of f (mod 10^k), most significant first *)
Fixpoint fixed (k : nat) (f : N) : list N :=
  match k with
  | O => []
  | S k' => (f / 10 ^ N.of_nat k') mod 10 :: fixed k' f
  end.

(** str.rstrip('0') on a digit list *)
Fixpoint rstrip0 (l : list N) : list N :=
  match l with
  | [] => []
  | d :: r => match rstrip0 r with
              | [] => if d =? 0 then [] else [d]
              | r' => d :: r'
              end
  end.

(** The structured result: sign character present?, integer digits, fraction digits. *)
Record parts := { pneg : bool; pint : list N; pfrac : list N }.

Definition is_zero_parts (p : parts) : bool :=
  match pint p, pfrac p with [0], [] => true | _, _ => false end.

Definition fmt_parts (c : fmt_cfg) (x : dyadic) : parts :=
  let neg := if adds_zero c then dneg x && negb (dm x =? 0) else dneg x in
  let n := scaled6 x in
  let ip := to_digits (n / 1000000) in
  let fp := fixed 6 (n mod 1000000) in
  let fp := if strips c then rstrip0 fp else fp in
  let p := {| pneg := neg; pint := ip; pfrac := fp |} in
  if neg_zero_fix c && neg && is_zero_parts p then {| pneg := false; pint := ip; pfrac := fp |} else p.

(** rendering: code points *)
Definition ch (d : N) : N := 48 + d.
Definition render (p : parts) : list N :=
  (if pneg p then [45] else []) ++ map ch (pint p) ++
  (match pfrac p with [] => [] | fp => 46 :: map ch fp end).

Definition format6 (c : fmt_cfg) (x : dyadic) : list N := render (fmt_parts c x).

(** ---- the property, as predicates on the structured result ---- *)

(** integer value of a digit list; value of a fraction digit list scaled by 10^w *)
Definition intval (l : list N) : N := fold_left (fun a d => a * 10 + d) l 0.
Fixpoint fracval (w : nat) (l : list N) : N :=
  match l, w with
  | d :: r, S w' => d * 10 ^ N.of_nat w' + fracval w' r
  | _, _ => 0
  end.
(** 10^6 · |value of the printed text| *)
Definition scaled_value (p : parts) : N := intval (pint p) * 1000000 + fracval 6 (pfrac p).

Definition all_digits (l : list N) : bool := forallb (fun d => d <? 10) l.
Definition no_leading_zero (l : list N) : bool :=
  match l with [] => false | [ _ ] => true | d :: _ => negb (d =? 0) end.
Definition no_trailing_zero (l : list N) : bool :=
  match rev l with [] => true | d :: _ => negb (d =? 0) end.

(** plain decimal, at most 6 places, canonical (no trailing zeros, no bare '.'), never "-0" *)
Definition shape_ok (p : parts) : bool :=
  all_digits (pint p) && all_digits (pfrac p) && no_leading_zero (pint p) &&
  (length (pfrac p) <=? 6)%nat && no_trailing_zero (pfrac p) &&
  negb (pneg p && is_zero_parts p).

(** an independent recogniser of the text grammar  -?[0-9]+(\.[0-9]{1,6})?  that is not "-0":
    used to state the shape on the rendered STRING as well *)
Definition is_digit (c : N) : bool := (48 <=? c) && (c <=? 57).
Fixpoint span_digits (s : list N) : list N * list N :=
  match s with
  | c :: r => if is_digit c then let '(a, b) := span_digits r in (c :: a, b) else ([], s)
  | [] => ([], [])
  end.
Definition nonempty (l : list N) : bool := match l with [] => false | _ => true end.
Definition plain_decimal (s : list N) : bool :=
  let body := match s with c :: r => if c =? 45 then r else s | [] => s end in
  let '(ip, rest) := span_digits body in
  nonempty ip &&
  match rest with
  | [] => true
  | c :: fr => (c =? 46) &&
               let '(fp, rest') := span_digits fr in
               nonempty fp && (length fp <=? 6)%nat && negb (nonempty rest')
  end &&
  negb (match s with [a; b] => (a =? 45) && (b =? 48) | _ => false end).

(** the two configurations of interest *)
Definition cfg_pinned : fmt_cfg := {| adds_zero := true; places := 6; strips := true; neg_zero_fix := false |}.
Definition cfg_fixed (az : bool) : fmt_cfg := {| adds_zero := az; places := 6; strips := true; neg_zero_fix := true |}.
Definition cfg_ok (c : fmt_cfg) : bool := (places c =? 6) && strips c && neg_zero_fix c.
(** the pipeline without the '-0' repair is still right everywhere except on the carved-out inputs:
    negative values whose magnitude rounds to 0 at six places (|x| <= 5e-7), printed as "-0"
    (known defect #3 of the pinned tree; the repository's own test suite pins that output) *)
Definition cfg_base_ok (c : fmt_cfg) : bool := (places c =? 6) && strips c.
Definition sign_flag (c : fmt_cfg) (x : dyadic) : bool :=
  if adds_zero c then dneg x && negb (dm x =? 0) else dneg x.
Definition carved (c : fmt_cfg) (x : dyadic) : bool :=
  negb (neg_zero_fix c) && sign_flag c x && (scaled6 x =? 0).
