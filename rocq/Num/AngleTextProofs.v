(** C05 (a)+(c) composed — str(angle) -> parse_vec_str -> float() -> the constructor's [% 360.0 % 360.0]:
    every component of an angle that satisfies the range invariant comes back as a double in [0, 360) that is within
    5e-7 + ulp/2 of the original ON THE CIRCLE (a component such as 359.9999997 prints as "360", is read back as
    360.0 and stored as 0.0: the distance is measured modulo 360).

    New arithmetic fact needed for that: Python's [% 360.0] is EXACT subtraction of 360 on [360, 720) (C fmod is
    exact; no sign adjustment happens for a positive operand).

    Uses Flocq's real-number rounding (float() = round to nearest even, Num/VecTextFloat.v), hence the classical
    axioms of Coq's Reals - the same four as the other range theorems. *)
From Coq Require Import ZArith NArith Reals Lia Lra Bool List.
From Flocq Require Import Core BinarySingleNaN.
From SV Require Import Num.Mod360 Num.Mod360Proofs Num.Mod360Id Num.AngleSites Num.Dec6 Num.Dec6Proofs
                       Num.VecText Num.VecTextProofs Num.VecTextFloat Num.AngleText.
Import ListNotations.
Open Scope R_scope.

(** ------------------------------------------------------------------ [% 360.0] on [360, 720) *)

Lemma rem360_sub mx e : (0 < mx < 2 ^ 53)%Z -> (-1074 <= e)%Z ->
  360 <= F2R (Float radix2 mx e) < 720 ->
  let '(rm, re) := rem360 mx e in F2R (Float radix2 rm re) = F2R (Float radix2 mx e) - 360.
Proof.
  intros Hm He [Hlo Hhi]. unfold rem360. destruct (0 <=? e)%Z eqn:E.
  - apply Z.leb_le in E.
    assert (Hv : F2R (Float radix2 mx e) = IZR (mx * 2 ^ e)).
    { unfold F2R; cbn [Fnum Fexp]. rewrite mult_IZR, (IZR_Zpower radix2) by lia. reflexivity. }
    rewrite Hv in *. apply le_IZR in Hlo. apply lt_IZR in Hhi.
    set (n := (mx * 2 ^ e)%Z) in *.
    assert (Hn : (n mod 360 = n - 360)%Z).
    { replace n with ((n - 360) + 1 * 360)%Z at 1 by lia. rewrite Z_mod_plus_full, Z.mod_small; lia. }
    rewrite Hn. unfold F2R; cbn [Fnum Fexp]. rewrite minus_IZR. simpl. lra.
  - apply Z.leb_gt in E.
    assert (Hp : (0 < 2 ^ (- e))%Z) by (apply Z.pow_pos_nonneg; lia).
    set (K := (360 * 2 ^ (- e))%Z).
    assert (HK : IZR K * bpow radix2 e = 360).
    { unfold K. rewrite mult_IZR, (IZR_Zpower radix2) by lia. rewrite Rmult_assoc, <- bpow_plus.
      replace (- e + e)%Z with 0%Z by lia. simpl; lra. }
    assert (Hb : 0 < bpow radix2 e) by apply bpow_gt_0.
    unfold F2R in Hlo, Hhi; cbn [Fnum Fexp] in Hlo, Hhi.
    assert (H1 : (K <= mx)%Z).
    { apply le_IZR. apply Rmult_le_reg_r with (bpow radix2 e); [exact Hb|]. rewrite HK. exact Hlo. }
    assert (H2 : (mx < 2 * K)%Z).
    { apply lt_IZR. apply Rmult_lt_reg_r with (bpow radix2 e); [exact Hb|]. rewrite mult_IZR, Rmult_assoc, HK. lra. }
    assert (Hn : (mx mod K = mx - K)%Z).
    { replace mx with ((mx - K) + 1 * K)%Z at 1 by lia. rewrite Z_mod_plus_full, Z.mod_small; lia. }
    fold K. rewrite Hn. unfold F2R; cbn [Fnum Fexp]. rewrite minus_IZR, Rmult_minus_distr_r, HK. reflexivity.
Qed.

Lemma fmod360_sub x : is_finite x = true -> 360 <= B2R x < 720 ->
  B2R (fmod360 x) = B2R x - 360 /\ is_neg (fmod360 x) = false /\ is_finite (fmod360 x) = true.
Proof.
  destruct x as [s|s| |s m e Hb]; try discriminate; intros _ Hr.
  - simpl in Hr. lra.
  - destruct (bounded_facts m e Hb) as [Hm He].
    destruct s.
    + exfalso. simpl in Hr. assert (F2R (Float radix2 (Z.neg m) e) < 0) by (apply F2R_lt_0; simpl; lia). lra.
    + simpl B2R in *. pose proof (rem360_sub (Z.pos m) e ltac:(lia) He Hr) as Hid.
      pose proof (rem360_facts (Z.pos m) e ltac:(lia) He) as Hf.
      unfold fmod360. destruct (rem360 (Z.pos m) e) as [rm re]. destruct Hf as (Hrm & Hre & Hv).
      destruct (rm =? 0)%Z eqn:Ez.
      * apply Z.eqb_eq in Ez. subst rm. simpl. split; [|auto]. rewrite <- Hid. unfold F2R; simpl. lra.
      * destruct (norm_exact rm re) as [H1 H2]; try lia.
        { rewrite Rabs_pos_eq; lra. }
        split; [rewrite H1; exact Hid|]. split; [|exact H2].
        destruct (is_neg (norm rm re)) eqn:En; [|reflexivity].
        exfalso. apply is_neg_R in En. rewrite H1 in En. lra.
Qed.

(** one application of Python's % 360.0 on a finite value in [360, 720): exactly 360 less *)
Theorem pymod360_sub x : is_finite x = true -> 360 <= B2R x < 720 ->
  B2R (pymod360 x) = B2R x - 360 /\ is_finite (pymod360 x) = true.
Proof.
  intros Hx Hr. destruct (fmod360_sub x Hx Hr) as (Hv & Hn & Hf).
  unfold pymod360. destruct (is_zero (fmod360 x)) eqn:Ez.
  - apply is_zero_R in Ez. simpl. split; [lra|reflexivity].
  - rewrite Hn. auto.
Qed.

Theorem double360_sub x : is_finite x = true -> 360 <= B2R x < 720 ->
  B2R (double360 x) = B2R x - 360 /\ is_finite (double360 x) = true.
Proof.
  intros Hx Hr. destruct (pymod360_sub x Hx Hr) as [H1 F1]. unfold double360.
  destruct (pymod360_id (pymod360 x) F1) as [H2 F2]; [rewrite H1; lra|].
  split; [rewrite H2; exact H1|exact F2].
Qed.

(** ------------------------------------------------------------------ the two views of one double *)

Lemma dy_of_R x : is_finite x = true -> dy_R (dy_of x) = B2R x.
Proof.
  destruct x as [s|s| |s m e Hb]; try discriminate; intros _.
  - unfold dy_R; simpl. ring.
  - unfold dy_R, dy_of; cbn [dneg dm de]. unfold B2R, F2R; cbn [Fnum Fexp].
    destruct s; unfold sgnR; cbn [cond_Zopp Z.of_N Z.opp].
    + change (Z.neg m) with (- Z.pos m)%Z. rewrite opp_IZR. ring.
    + ring.
Qed.

(** a slot in range is never negative: its dyadic has no sign or is a zero *)
Lemma in_range_sign x : in_range x -> dneg (dy_of x) = false \/ dm (dy_of x) = 0%N.
Proof.
  intros [Fx Rx]. destruct x as [s|s| |s m e Hb]; try discriminate; [right; reflexivity|]. left.
  destruct s; [|reflexivity]. exfalso. simpl in Rx.
  assert (F2R (Float radix2 (Z.neg m) e) < 0) by (apply F2R_lt_0; simpl; lia). lra.
Qed.

(** ------------------------------------------------------------------ the sign of the decoded field *)

Lemma scaled6_dm0 x : dm x = 0%N -> scaled6 x = 0%N.
Proof.
  intros Hm. unfold scaled6, num_den. rewrite Hm. destruct (0 <=? de x)%Z; cbn [N.mul]; [reflexivity|].
  assert (0 < 2 ^ Z.to_N (- de x))%N by (apply N.neq_0_lt_0, N.pow_nonzero; lia).
  unfold round_half_even. rewrite N.div_0_l, N.mod_0_l by lia.
  destruct (N.compare_spec (2 * 0) (2 ^ Z.to_N (- de x))); try reflexivity; lia.
Qed.

(** the field printed for a number that is not negative decodes to a decimal that is not negative (the carved-out
    "-0" decodes to 0) *)
Lemma parse_format6_nonneg c x : dneg x = false \/ dm x = 0%N ->
  exists d, parse_decimal (format6 c x) = Some d /\ within_5e7 d x /\ 0 <= dec_R d.
Proof.
  intros Hs. destruct (fmt_parts_wf c x) as (Hi & Hf & Hne & Hl).
  destruct (parse_format6 c x) as (d & Hp & Hw).
  pose proof (parse_render _ Hi Hf Hne) as Hp'. unfold format6 in Hp. rewrite Hp' in Hp. inversion Hp; subst d.
  exists (dec_of_parts (fmt_parts c x)). split; [exact Hp'|]. split; [exact Hw|].
  unfold dec_of_parts, dec_R.
  assert (P10 : 0 < IZR (10 ^ Z.of_nat (length (pfrac (fmt_parts c x))))) by (apply IZR_lt, Z.pow_pos_nonneg; lia).
  destruct (N.eq_dec (scaled6 x) 0) as [Ez|En].
  - (* the printed value is zero: numerator 0 *)
    pose proof (dec_of_parts_scaled _ Hl) as S. rewrite format6_value, Ez in S.
    apply N.eq_mul_0 in S. destruct S as [S|S].
    + rewrite S. simpl. unfold Rdiv. rewrite Rmult_0_r, Rmult_0_l. lra.
    + exfalso. revert S. apply N.pow_nonzero. lia.
  - destruct (fmt_parts_sign c x) as [Hsg|Ez]; [|contradiction].
    destruct Hs as [Hn|Hm0]; [|exfalso; apply En, scaled6_dm0, Hm0].
    rewrite Hsg, Hn. unfold sgnR, Rdiv. rewrite Rmult_1_l.
    apply Rmult_le_pos; [apply IZR_le; lia|left; apply Rinv_0_lt_compat, P10].
Qed.

(** ------------------------------------------------------------------ one component *)

Lemma fmt_361 : generic_format radix2 fexp64 361.
Proof.
  replace 361 with (F2R (Float radix2 361 0)) by (unfold F2R; simpl; lra).
  apply fmt_dyadic; lia.
Qed.

(** [x]: the slot that is printed; [d]: the decimal the reader decodes from its text; [f]: the double float() returns
    for it (correctly rounded); the slot stored by the constructor is [double360 f]. *)
Theorem angle_component_roundtrip c (x f : b64) d :
  in_range x -> parse_decimal (format6 c (dy_of x)) = Some d ->
  is_finite f = true -> B2R f = py_float d ->
  in_range (double360 f) /\
  (Rabs (B2R (double360 f) - B2R x) <= 5 / 10000000 + / 2 * ulp radix2 fexp64 (dec_R d) \/
   Rabs (B2R (double360 f) + 360 - B2R x) <= 5 / 10000000 + / 2 * ulp radix2 fexp64 (dec_R d)).
Proof.
  intros Rx Hp Ff Hf.
  destruct (parse_format6_nonneg c (dy_of x) (in_range_sign x Rx)) as (d' & Hp' & W & P).
  rewrite Hp in Hp'. inversion Hp'; subst d'. destruct Rx as [Fx Rx].
  pose proof (within_5e7_R d _ W) as HW. rewrite (dy_of_R x Fx) in HW.
  pose proof (float_parse_error d _ W) as HE. rewrite (dy_of_R x Fx), <- Hf in HE.
  split; [apply norm360_range; exact Ff|].
  assert (Y0 : 0 <= B2R f).
  { rewrite Hf. unfold py_float. rewrite <- (round_0 radix2 fexp64 ZnearestE). apply round_le; try typeclasses eauto. exact P. }
  assert (Y720 : B2R f < 720).
  { rewrite Hf. unfold py_float. apply Rle_lt_trans with 361; [|lra].
    rewrite <- (round_generic radix2 fexp64 ZnearestE 361 fmt_361). apply round_le; try typeclasses eauto.
    apply Rabs_le_inv in HW. lra. }
  destruct (Rlt_le_dec (B2R f) 360) as [Lt|Ge].
  - left. destruct (double360_id f Ff (conj Y0 Lt)) as [E _]. rewrite E. exact HE.
  - right. destruct (double360_sub f Ff (conj Ge Y720)) as [E _]. rewrite E.
    replace (B2R f - 360 + 360 - B2R x) with (B2R f - B2R x) by ring. exact HE.
Qed.

(** the wrap-around case exists: 360 - 2^-40 prints as "360", reads back as 360.0 and is stored as 0.0 *)
Example wraparound_example :
  let x := mk false (360 * 2 ^ 40 - 1) (-40) in
  format6 cfg_pinned (dy_of x) = [51; 54; 48]%N /\ show (double360 f360) = (0, 0, 0)%Z.
Proof. vm_compute. split; reflexivity. Qed.

(** ------------------------------------------------------------------ the whole angle, any bracket style *)

(** Angle.from_str(text of an angle whose three slots are in range) for every pipeline read from the source with
    [pcfg_ok]: parse_vec_str finds three decimal fields, and whichever doubles float() returns for them (correctly
    rounded, finite), the slots the constructor stores are in [0, 360) and each is within 5e-7 + ulp/2 of the slot
    that was printed, modulo 360. *)
Theorem angle_text_roundtrip : forall pc c (p y r : b64) ws1 ob wa s1 s2 wb cb ws2,
  pcfg_ok pc = true ->
  all_space ws1 -> all_space wa -> all_space wb -> all_space ws2 ->
  all_space s1 -> s1 <> [] -> all_space s2 -> s2 <> [] ->
  opt_bracket (opens pc) ob -> opt_bracket (closes pc) cb ->
  in_range p -> in_range y -> in_range r ->
  exists d1 d2 d3,
    parse_vec pc (ws1 ++ ob ++ wa ++ format6 c (dy_of p) ++ s1 ++ format6 c (dy_of y) ++ s2 ++ format6 c (dy_of r) ++ wb ++ cb ++ ws2)
      = PFields (Some d1) (Some d2) (Some d3) /\
    forall d x, In (d, x) [(d1, p); (d2, y); (d3, r)] ->
    forall f : b64, is_finite f = true -> B2R f = py_float d ->
      in_range (double360 f) /\
      (Rabs (B2R (double360 f) - B2R x) <= 5 / 10000000 + / 2 * ulp radix2 fexp64 (dec_R d) \/
       Rabs (B2R (double360 f) + 360 - B2R x) <= 5 / 10000000 + / 2 * ulp radix2 fexp64 (dec_R d)).
Proof.
  intros pc c p y r ws1 ob wa s1 s2 wb cb ws2 OK H1 H2 H3 H4 H5 H6 H7 H8 H9 H10 Rp Ry Rr.
  destruct (parse_format6 c (dy_of p)) as (d1 & P1 & _). destruct (parse_format6 c (dy_of y)) as (d2 & P2 & _).
  destruct (parse_format6 c (dy_of r)) as (d3 & P3 & _).
  destruct (format6_numchars c (dy_of p)) as [N1 E1]. destruct (format6_numchars c (dy_of y)) as [N2 E2].
  destruct (format6_numchars c (dy_of r)) as [N3 E3].
  exists d1, d2, d3. split.
  - rewrite (parse_vec_fields pc OK _ _ _ N1 E1 N2 E2 N3 E3 ws1 ob wa s1 s2 wb cb ws2); auto.
    rewrite P1, P2, P3. reflexivity.
  - intros d x [E|[E|[E|[]]]] f Ff Hf; inversion E; subst d x;
      eapply angle_component_roundtrip; eauto.
Qed.

(** [dy_of] is the same reading of a double as [show], the interface of the bit-exact correspondence of Num/Mod360.v:
    the dyadic handed to format6 and the binary64 handed to double360 are the same Python float *)
Lemma dy_of_show x : is_finite x = true ->
  show x = ((if dneg (dy_of x) then 1 else 0)%Z, Z.of_N (dm (dy_of x)), de (dy_of x)).
Proof. destruct x as [s|s| |s m e Hb]; try discriminate; intros _; reflexivity. Qed.

(** the premises are satisfiable and the wrap-around branch is taken: for 360 - 2^-40 the text is "360", the decoded
    decimal is 360, float() of it is exactly 360.0 (representable) and the stored slot is 0.0 - 360 away from the
    original as a real number, 2^-40 away on the circle *)
Example roundtrip_not_vacuous :
  let x := mk false (360 * 2 ^ 40 - 1) (-40) in
  in_range x /\ parse_decimal (format6 cfg_pinned (dy_of x)) = Some (false, 360%N, O) /\
  is_finite f360 = true /\ B2R f360 = py_float (false, 360%N, O).
Proof.
  cbv zeta. split; [|split; [vm_compute; reflexivity|split; [vm_compute; reflexivity|]]].
  - split; [vm_compute; reflexivity|].
    assert (E360 : 360 = F2R (Float radix2 (360 * 2 ^ 40) (-40))) by (unfold F2R; simpl; lra).
    assert (Hlt : F2R (Float radix2 (360 * 2 ^ 40 - 1) (-40)) < 360) by (rewrite E360; apply F2R_lt; reflexivity).
    assert (Hge : 0 <= F2R (Float radix2 (360 * 2 ^ 40 - 1) (-40))) by (apply F2R_ge_0; simpl; discriminate).
    assert (E : B2R (mk false (360 * 2 ^ 40 - 1) (-40)) = F2R (Float radix2 (360 * 2 ^ 40 - 1) (-40))).
    { unfold mk. change ((360 * 2 ^ 40 - 1 =? 0)%Z) with false. cbv iota.
      destruct (norm_exact (360 * 2 ^ 40 - 1) (-40)) as [H _]; [reflexivity|discriminate| |exact H].
      rewrite Rabs_pos_eq by exact Hge. lra. }
    rewrite E. split; [exact Hge|exact Hlt].
  - destruct f360_spec as [H _]. rewrite H. unfold py_float, dec_R. simpl.
    replace (1 * 360 / 1) with 360 by field. symmetry. apply round_generic; [typeclasses eauto|exact fmt_360].
Qed.

(** ------------------------------------------------------------------ the whole vector *)

(** Vec.from_str / FrozenVec.from_str applied to the text of a vector with finite components: no normalisation is
    involved (the constructor stores float(x)), so the statement is the plain distance *)
Theorem vec_text_roundtrip : forall pc c (x y z : b64) ws1 ob wa s1 s2 wb cb ws2,
  pcfg_ok pc = true ->
  all_space ws1 -> all_space wa -> all_space wb -> all_space ws2 ->
  all_space s1 -> s1 <> [] -> all_space s2 -> s2 <> [] ->
  opt_bracket (opens pc) ob -> opt_bracket (closes pc) cb ->
  is_finite x = true -> is_finite y = true -> is_finite z = true ->
  exists d1 d2 d3,
    parse_vec pc (ws1 ++ ob ++ wa ++ format6 c (dy_of x) ++ s1 ++ format6 c (dy_of y) ++ s2 ++ format6 c (dy_of z) ++ wb ++ cb ++ ws2)
      = PFields (Some d1) (Some d2) (Some d3) /\
    forall d v, In (d, v) [(d1, x); (d2, y); (d3, z)] ->
      Rabs (py_float d - B2R v) <= 5 / 10000000 + / 2 * ulp radix2 fexp64 (dec_R d).
Proof.
  intros pc c x y z ws1 ob wa s1 s2 wb cb ws2 OK H1 H2 H3 H4 H5 H6 H7 H8 H9 H10 Fx Fy Fz.
  destruct (parse_format_vec pc c (dy_of x) (dy_of y) (dy_of z) ws1 ob wa s1 s2 wb cb ws2 OK H1 H2 H3 H4 H5 H6 H7 H8 H9 H10)
    as (d1 & d2 & d3 & E & W1 & W2 & W3).
  exists d1, d2, d3. split; [exact E|].
  intros d v [Q|[Q|[Q|[]]]]; inversion Q; subst d v.
  - rewrite <- (dy_of_R x Fx). apply float_parse_error, W1.
  - rewrite <- (dy_of_R y Fy). apply float_parse_error, W2.
  - rewrite <- (dy_of_R z Fz). apply float_parse_error, W3.
Qed.
