From Coq Require Import ZArith Reals List String Bool Lra.
From Flocq Require Import Core BinarySingleNaN.
From SV Require Import Num.Mod360 Num.Mod360Proofs Num.AngleSites.
Import ListNotations.

Lemma zero_in_range : in_range (B754_zero false).
Proof. split; simpl; auto. lra. Qed.

Lemma update_Forall P n x l : Forall P l -> P x -> Forall P (update n x l).
Proof.
  revert n; induction l as [|y r IH]; intros n Hl Hx; simpl; auto.
  inversion Hl; subst. destruct n; constructor; auto.
Qed.

Lemma nth_in_range n st : Forall in_range st -> in_range (nth n st (B754_zero false)).
Proof.
  revert n; induction st as [|y r IH]; intros [|n] H; simpl; try apply zero_in_range.
  - inversion H; auto.
  - inversion H; auto.
Qed.

Lemma eval_rhs_in_range r v s : rhs_safe r = true -> is_finite v = true -> in_range s -> in_range (eval_rhs r v s).
Proof.
  destruct r; simpl; try discriminate; intros _ Hv Hs.
  - destruct (norm360_range v Hv) as [H1 H2]. split; auto.
  - exact Hs.
  - apply zero_in_range.
Qed.

Lemma all_sites_safe_nth sites n nm r : all_sites_safe sites = true -> nth_error sites n = Some (nm, r) -> rhs_safe r = true.
Proof.
  unfold all_sites_safe. rewrite forallb_forall. intros H E. apply nth_error_In in E. exact (H _ E).
Qed.

(** If every store site is safe, every angle slot is in [0,360) after ANY history of stores with finite
    inputs and allocations. *)
Theorem angle_range_invariant sites : all_sites_safe sites = true ->
  forall es st, Forall in_range st -> finite_inputs es -> Forall in_range (run sites es st).
Proof.
  intros Hs es. unfold run. induction es as [|e es IH]; intros st Hst Hf; simpl; auto.
  inversion Hf; subst. apply IH; auto.
  destruct e as [o|]; simpl.
  - unfold step. destruct (nth_error sites (site o)) as [[nm r]|] eqn:E; auto.
    apply update_Forall; auto. apply eval_rhs_in_range; auto.
    + eapply all_sites_safe_nth; eauto.
    + apply nth_in_range; auto.
  - unfold alloc. apply Forall_app. split; auto. repeat constructor; apply zero_in_range.
Qed.

(** ERROR PATHS (round 5).  The events of the model are the individual STORES, not the calls: a call that raises half-way
    (a bad second component, an iterator that fails, a body that raises inside transform()) has executed a PREFIX of the
    stores it would have made and the caller carries on with what is left behind.  The invariant holds after every such
    prefix, whatever the skipped stores would have been - there is no store that is "repaired later" by another one. *)
Corollary angle_range_after_interrupted_call sites : all_sites_safe sites = true ->
  forall done skipped st, Forall in_range st -> finite_inputs done -> Forall in_range (run sites done st) /\
    (finite_inputs skipped -> Forall in_range (run sites (done ++ skipped) st)).
Proof.
  intros Hs d k st Hst Hd. split.
  - apply angle_range_invariant; auto.
  - intros Hk. apply angle_range_invariant; auto. unfold finite_inputs in *. apply Forall_app. split; assumption.
Qed.

(** A single-modulo site breaks the invariant: one store of -1e-14 leaves exactly 360.0 in the slot. *)
Theorem single_site_refuted :
  exists es, finite_inputs es /\
    exists x, In x (run [("_to_angle"%string, Single360)] es []) /\ B2R x = 360%R.
Proof.
  exists [Alloc; Store {| site := 0; dst := 1; input := tiny_neg; src := 0 |}]. split.
  - constructor; [exact I|]. constructor; [|constructor]. vm_compute. reflexivity.
  - exists (single360 tiny_neg). split.
    + change (In (single360 tiny_neg) [B754_zero false; single360 tiny_neg; B754_zero false]).
      right. left. reflexivity.
    + destruct f360_spec as [H360 _]. rewrite <- H360. apply show_B2R. vm_compute. reflexivity.
Qed.

Example invariant_not_vacuous :
  all_sites_safe [("Angle.pitch"%string, Double360); ("Angle.freeze"%string, CopyFromAngle)] = true.
Proof. reflexivity. Qed.
