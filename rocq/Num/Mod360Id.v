(** C05 (a)+(c) — Python's [% 360.0] leaves a value that already is in [0, 360) unchanged.  Consequence: the
    constructor normalisation applied by Angle.from_str / Angle(...) / FrozenAngle(...) to a component that was read
    back from text does not move it, and normalising twice is the same as normalising once more (idempotence of
    the stored representation). *)
From Coq Require Import ZArith Reals Lia Lra Bool.
From Flocq Require Import Core BinarySingleNaN.
From SV Require Import Num.Mod360 Num.Mod360Proofs.
Open Scope R_scope.

Lemma rem360_id mx e : (0 < mx < 2 ^ 53)%Z -> (-1074 <= e)%Z -> F2R (Float radix2 mx e) < 360 ->
  let '(rm, re) := rem360 mx e in F2R (Float radix2 rm re) = F2R (Float radix2 mx e).
Proof.
  intros Hm He Hlt. unfold rem360. destruct (0 <=? e)%Z eqn:E.
  - apply Z.leb_le in E.
    assert (Hv : F2R (Float radix2 mx e) = IZR (mx * 2 ^ e)).
    { unfold F2R; cbn [Fnum Fexp]. rewrite mult_IZR, (IZR_Zpower radix2) by lia. reflexivity. }
    rewrite Hv in *. apply lt_IZR in Hlt.
    assert (0 <= mx * 2 ^ e)%Z by (apply Z.mul_nonneg_nonneg; [lia|apply Z.pow_nonneg; lia]).
    rewrite Z.mod_small by lia. unfold F2R; cbn [Fnum Fexp]. simpl. lra.
  - apply Z.leb_gt in E.
    assert (Hp : (0 < 2 ^ (- e))%Z) by (apply Z.pow_pos_nonneg; lia).
    assert (Hmx : (mx < 360 * 2 ^ (- e))%Z).
    { apply lt_IZR. rewrite mult_IZR, (IZR_Zpower radix2) by lia.
      unfold F2R in Hlt; cbn [Fnum Fexp] in Hlt.
      assert (Hb : 0 < bpow radix2 (- e)) by apply bpow_gt_0.
      replace (IZR mx) with (IZR mx * bpow radix2 e * bpow radix2 (- e)).
      - apply Rmult_lt_compat_r; assumption.
      - rewrite Rmult_assoc, <- bpow_plus. replace (e + - e)%Z with 0%Z by lia. simpl. lra. }
    rewrite Z.mod_small by lia. reflexivity.
Qed.

(** the exact fmod of a finite value in [0, 360) is that value, and it is not negative *)
Lemma fmod360_id x : is_finite x = true -> 0 <= B2R x < 360 ->
  B2R (fmod360 x) = B2R x /\ is_neg (fmod360 x) = false /\ is_finite (fmod360 x) = true.
Proof.
  destruct x as [s|s| |s m e Hb]; try discriminate; intros _ Hr.
  - simpl. auto.
  - destruct (bounded_facts m e Hb) as [Hm He].
    destruct s.
    + exfalso. simpl in Hr. assert (F2R (Float radix2 (Z.neg m) e) < 0) by (apply F2R_lt_0; simpl; lia). lra.
    + simpl B2R in *. pose proof (rem360_id (Z.pos m) e ltac:(lia) He (proj2 Hr)) as Hid.
      pose proof (rem360_facts (Z.pos m) e ltac:(lia) He) as Hf.
      unfold fmod360. destruct (rem360 (Z.pos m) e) as [rm re]. destruct Hf as (Hrm & Hre & Hv).
      destruct (rm =? 0)%Z eqn:Ez.
      * apply Z.eqb_eq in Ez. subst rm. simpl. split; [|auto]. rewrite <- Hid. unfold F2R; simpl. lra.
      * destruct (norm_exact rm re) as [H1 H2]; try lia.
        { rewrite Rabs_pos_eq; lra. }
        split; [rewrite H1; exact Hid|]. split; [|exact H2].
        destruct (is_neg (norm rm re)) eqn:En; [|reflexivity].
        exfalso. apply is_neg_R in En. rewrite H1 in En. lra.
Qed.

(** one application of Python's % 360.0 on a finite value in [0, 360): the same real value *)
Theorem pymod360_id x : is_finite x = true -> 0 <= B2R x < 360 ->
  B2R (pymod360 x) = B2R x /\ is_finite (pymod360 x) = true.
Proof.
  intros Hx Hr. destruct (fmod360_id x Hx Hr) as (Hv & Hn & Hf).
  unfold pymod360. destruct (is_zero (fmod360 x)) eqn:Ez.
  - apply is_zero_R in Ez. simpl. split; [lra|reflexivity].
  - rewrite Hn. auto.
Qed.

(** the normalisation used by every store site is the identity (as a real number) on its own range:
    storing a value twice, copying through the constructor, or re-reading a printed component that denotes a double
    below 360 never moves it *)
Theorem double360_id x : is_finite x = true -> 0 <= B2R x < 360 ->
  B2R (double360 x) = B2R x /\ is_finite (double360 x) = true.
Proof.
  intros Hx Hr. destruct (pymod360_id x Hx Hr) as [H1 F1]. unfold double360.
  destruct (pymod360_id (pymod360 x) F1) as [H2 F2]; [rewrite H1; exact Hr|].
  split; [rewrite H2; exact H1|exact F2].
Qed.

Theorem double360_idempotent x : is_finite x = true ->
  B2R (double360 (double360 x)) = B2R (double360 x).
Proof.
  intros Hx. destruct (norm360_range x Hx) as [Hf Hr]. apply (double360_id _ Hf Hr).
Qed.

(** and exactly 360.0 (what "359.9999997" prints as and re-reads to) goes to 0 *)
Theorem double360_of_360 : show (double360 f360) = (0, 0, 0)%Z.
Proof. vm_compute. reflexivity. Qed.
