(** C05 (c) — proofs about the format_float model (Num/Dec6.v). *)
From Coq Require Import ZArith NArith List Bool Lia ZifyBool.
From SV Require Import Num.Dec6.
Import ListNotations.
Open Scope N_scope.

(** ---------------------------------------------------------------- rounding error *)
Lemma den_pos x : 0 < snd (num_den x).
Proof.
  unfold num_den. destruct (0 <=? de x)%Z; cbn [snd]; [lia|].
  apply N.neq_0_lt_0. apply N.pow_nonzero. lia.
Qed.

Lemma rhe_error num den : 0 < den ->
  (2 * Z.abs (Z.of_N (round_half_even num den) * Z.of_N den - Z.of_N num) <= Z.of_N den)%Z.
Proof.
  intros Hd. unfold round_half_even.
  pose proof (N.div_mod num den ltac:(lia)) as E.
  pose proof (N.mod_lt num den ltac:(lia)) as L.
  set (q := num / den) in *. set (r := num mod den) in *.
  destruct (N.compare_spec (2 * r) den) as [C|C|C]; [destruct (N.even q)| |]; nia.
Qed.

Theorem scaled6_error : forall x,
  (0 < Z.of_N (snd (num_den x)))%Z /\
  (2 * Z.abs (Z.of_N (scaled6 x) * Z.of_N (snd (num_den x)) - Z.of_N (fst (num_den x))) <= Z.of_N (snd (num_den x)))%Z.
Proof.
  intros x. pose proof (den_pos x) as Hd. split; [lia|].
  unfold scaled6. destruct (num_den x) as [num den]. cbn [fst snd] in *. apply rhe_error; auto.
Qed.

(** ---------------------------------------------------------------- integer digits *)
Notation stepd := (fun a d : N => a * 10 + d).

Lemma digs_value fuel : forall q acc, q < 2 ^ N.of_nat fuel ->
  fold_left stepd (digs fuel q acc) 0 = fold_left stepd acc q.
Proof.
  induction fuel as [|f IH]; intros q acc Hq.
  - cbn [digs]. change (2 ^ N.of_nat 0) with 1 in Hq. assert (q = 0) by lia. subst. reflexivity.
  - cbn [digs]. destruct (N.ltb_spec q 10) as [H|H].
    + cbn [fold_left]. f_equal.
    + rewrite IH.
      * cbn [fold_left]. f_equal. pose proof (N.div_mod q 10 ltac:(lia)). lia.
      * rewrite Nat2N.inj_succ, N.pow_succ_r' in Hq.
        apply N.div_lt_upper_bound; lia.
Qed.

Lemma to_digits_value q : intval (to_digits q) = q.
Proof.
  unfold intval, to_digits. rewrite digs_value; [reflexivity|].
  rewrite Nat2N.inj_succ, N2Nat.id, N.pow_succ_r'.
  pose proof (N.size_gt q). lia.
Qed.

Lemma digs_all_digits fuel : forall q acc, all_digits acc = true -> all_digits (digs fuel q acc) = true.
Proof.
  induction fuel as [|f IH]; intros q acc Ha; cbn [digs]; auto.
  destruct (N.ltb_spec q 10) as [H|H].
  - cbn [all_digits forallb]. fold (all_digits acc). rewrite Ha. lia.
  - apply IH. cbn [all_digits forallb]. fold (all_digits acc). rewrite Ha.
    pose proof (N.mod_lt q 10 ltac:(lia)). lia.
Qed.

(** head of the result: non-zero when q > 0 (and fuel suffices); the result is never empty *)
Lemma digs_head fuel : forall q acc, 0 < q -> q < 2 ^ N.of_nat fuel ->
  exists d r, digs fuel q acc = d :: r /\ d <> 0.
Proof.
  induction fuel as [|f IH]; intros q acc H0 Hq.
  - change (2 ^ N.of_nat 0) with 1 in Hq. lia.
  - cbn [digs]. destruct (N.ltb_spec q 10) as [H|H].
    + exists q, acc. split; auto. lia.
    + apply IH.
      * apply N.div_str_pos. lia.
      * rewrite Nat2N.inj_succ, N.pow_succ_r' in Hq. apply N.div_lt_upper_bound; lia.
Qed.

Lemma to_digits_shape q : all_digits (to_digits q) = true /\ no_leading_zero (to_digits q) = true /\
  (to_digits q = [0] <-> q = 0).
Proof.
  split; [apply digs_all_digits; reflexivity|].
  destruct (N.eq_dec q 0) as [->|Hne].
  - split; [reflexivity|]. split; auto.
  - destruct (digs_head (S (N.to_nat (N.size q))) q []) as (d & r & E & Hd); [lia| |].
    + rewrite Nat2N.inj_succ, N2Nat.id, N.pow_succ_r'. pose proof (N.size_gt q). lia.
    + unfold to_digits. rewrite E. split.
      * unfold no_leading_zero. destruct r; auto. destruct (N.eqb_spec d 0); auto; try contradiction.
      * split; [|contradiction]. intros E'. inversion E'. contradiction.
Qed.

(** ---------------------------------------------------------------- fraction digits *)
Lemma fixed_length k f : length (fixed k f) = k.
Proof. induction k; cbn [fixed length]; auto. Qed.

Lemma fixed_all_digits k f : all_digits (fixed k f) = true.
Proof.
  induction k as [|k IH]; cbn [fixed all_digits forallb]; auto. fold (all_digits (fixed k f)). rewrite IH.
  pose proof (N.mod_lt (f / 10 ^ N.of_nat k) 10 ltac:(lia)). lia.
Qed.

Lemma fixed_value k f : fracval k (fixed k f) = f mod 10 ^ N.of_nat k.
Proof.
  induction k as [|k IH].
  - cbn. symmetry. apply N.mod_1_r.
  - cbn [fixed fracval]. rewrite IH, Nat2N.inj_succ, N.pow_succ_r'.
    assert (Hp : 10 ^ N.of_nat k <> 0) by (apply N.pow_nonzero; lia).
    rewrite (N.mul_comm 10), N.mod_mul_r by lia. lia.
Qed.

Lemma rstrip0_value l : forall w, fracval w (rstrip0 l) = fracval w l.
Proof.
  induction l as [|d r IH]; intros w; cbn [rstrip0]; auto.
  destruct w as [|w].
  - destruct (rstrip0 r); [destruct (d =? 0)|]; destruct r; reflexivity.
  - specialize (IH w). destruct (rstrip0 r) as [|d' r'] eqn:E.
    + destruct (N.eqb_spec d 0) as [->|Hd].
      * cbn [fracval]. rewrite <- IH. destruct w; cbn; lia.
      * cbn [fracval]. rewrite <- IH. destruct w; cbn; lia.
    + cbn [fracval]. rewrite IH. reflexivity.
Qed.

Lemma rstrip0_length l : (length (rstrip0 l) <= length l)%nat.
Proof.
  induction l as [|d r IH]; cbn [rstrip0 length]; auto.
  destruct (rstrip0 r); [destruct (d =? 0)|]; cbn [length] in *; lia.
Qed.

Lemma rstrip0_all_digits l : all_digits l = true -> all_digits (rstrip0 l) = true.
Proof.
  induction l as [|d r IH]; cbn [rstrip0 all_digits forallb]; auto. fold (all_digits r).
  intros H. apply andb_prop in H. destruct H as [Hd Hr]. specialize (IH Hr).
  destruct (rstrip0 r) as [|d' r']; [destruct (d =? 0)|]; cbn [all_digits forallb] in *; auto.
  - rewrite Hd. reflexivity.
  - rewrite Hd. exact IH.
Qed.

Lemma rstrip0_last l : rstrip0 l = [] \/ exists l' d, rstrip0 l = l' ++ [d] /\ d <> 0.
Proof.
  induction l as [|d r IH]; cbn [rstrip0]; auto.
  destruct IH as [E|(l' & d' & E & Hd)].
  - rewrite E. destruct (N.eqb_spec d 0); auto. right. exists [], d. auto.
  - rewrite E. right. destruct (l' ++ [d']) as [|x y] eqn:E2.
    + destruct l'; discriminate.
    + exists (d :: l'), d'. rewrite <- E2. auto.
Qed.

Lemma rstrip0_no_trailing l : no_trailing_zero (rstrip0 l) = true.
Proof.
  destruct (rstrip0_last l) as [E|(l' & d & E & Hd)]; rewrite E; [reflexivity|].
  unfold no_trailing_zero. rewrite rev_app_distr. cbn [rev app].
  destruct (N.eqb_spec d 0); auto; try contradiction.
Qed.

(** ---------------------------------------------------------------- the assembled result *)
Definition frac_of (c : fmt_cfg) (x : dyadic) : list N :=
  if strips c then rstrip0 (fixed 6 (scaled6 x mod 1000000)) else fixed 6 (scaled6 x mod 1000000).

Lemma fmt_parts_fields c x :
  pint (fmt_parts c x) = to_digits (scaled6 x / 1000000) /\ pfrac (fmt_parts c x) = frac_of c x.
Proof.
  unfold fmt_parts, frac_of. cbv zeta.
  match goal with |- context [if ?b then _ else _] => destruct b end; split; reflexivity.
Qed.

Theorem format6_value : forall c x, scaled_value (fmt_parts c x) = scaled6 x.
Proof.
  intros c x. unfold scaled_value. destruct (fmt_parts_fields c x) as [-> ->].
  rewrite to_digits_value. unfold frac_of.
  assert (E : fracval 6 (fixed 6 (scaled6 x mod 1000000)) = scaled6 x mod 1000000).
  { rewrite fixed_value. change (10 ^ N.of_nat 6) with 1000000. apply N.mod_mod. lia. }
  destruct (strips c); [rewrite rstrip0_value|]; rewrite E;
    pose proof (N.div_mod (scaled6 x) 1000000 ltac:(lia)); lia.
Qed.

Theorem format6_sign : forall c x, pneg (fmt_parts c x) = true -> dneg x = true.
Proof.
  intros c x. unfold fmt_parts. cbv zeta.
  match goal with |- context [if ?b then _ else _] => destruct b end; cbn [pneg]; [discriminate|].
  destruct (adds_zero c); [|auto]. intros H. apply andb_prop in H. tauto.
Qed.

Lemma is_zero_parts_fields p q : pint p = pint q -> pfrac p = pfrac q -> is_zero_parts p = is_zero_parts q.
Proof. unfold is_zero_parts. intros -> ->. reflexivity. Qed.

Lemma negzero_clause fx neg ip fp :
  let p := {| pneg := neg; pint := ip; pfrac := fp |} in
  let p' := if fx && neg && is_zero_parts p then {| pneg := false; pint := ip; pfrac := fp |} else p in
  fx = true \/ neg && is_zero_parts p = false ->
  negb (pneg p' && is_zero_parts p') = true.
Proof.
  cbv zeta. unfold is_zero_parts. cbn [pint pfrac andb].
  set (z := match ip with [0] => match fp with [] => true | _ => false end | _ => false end).
  intros [-> | H].
  - destruct neg, z eqn:E; cbn [andb pneg pint pfrac negb]; try reflexivity.
    subst z. rewrite E. reflexivity.
  - destruct fx, neg, z eqn:E; cbn [andb pneg pint pfrac negb] in *; try reflexivity; try discriminate;
      subst z; rewrite E; reflexivity.
Qed.

(** a printed zero means the rounded integer is zero *)
Lemma is_zero_parts_scaled c x : is_zero_parts (fmt_parts c x) = true -> scaled6 x = 0.
Proof.
  intros H. rewrite <- (format6_value c x). unfold scaled_value, is_zero_parts in *.
  destruct (pint (fmt_parts c x)) as [|[|?] [|? ?]]; try discriminate.
  destruct (pfrac (fmt_parts c x)); try discriminate. reflexivity.
Qed.

(** General form: the shape holds for every pipeline that strips zeros at 6 places, on every input that is
    not carved out (nothing is carved out when the '-0' repair is present). *)
Theorem format6_shape_gen : forall c x, cfg_base_ok c = true -> carved c x = false -> shape_ok (fmt_parts c x) = true.
Proof.
  intros c x Hc Hcv. unfold cfg_base_ok in Hc. apply andb_prop in Hc. destruct Hc as [_ Hstrip].
  unfold shape_ok. destruct (fmt_parts_fields c x) as [Ei Ef]. rewrite Ei, Ef.
  destruct (to_digits_shape (scaled6 x / 1000000)) as (D1 & D2 & _).
  unfold frac_of. rewrite Hstrip.
  rewrite D1, D2, rstrip0_no_trailing, rstrip0_all_digits by apply fixed_all_digits.
  pose proof (rstrip0_length (fixed 6 (scaled6 x mod 1000000))) as L. rewrite fixed_length in L.
  replace (length (rstrip0 (fixed 6 (scaled6 x mod 1000000))) <=? 6)%nat with true
    by (symmetry; apply Nat.leb_le; exact L).
  cbn [andb].
  (* the '-0' clause *)
  assert (Hz : forall b, is_zero_parts {| pneg := b; pint := to_digits (scaled6 x / 1000000);
                                          pfrac := rstrip0 (fixed 6 (scaled6 x mod 1000000)) |} = true -> scaled6 x = 0).
  { intros b Hb. apply (is_zero_parts_scaled c x). rewrite <- Hb. apply is_zero_parts_fields; cbn [pint pfrac].
    - exact Ei.
    - rewrite Ef. unfold frac_of. rewrite Hstrip. reflexivity. }
  unfold fmt_parts. cbv zeta. rewrite Hstrip. fold (sign_flag c x).
  apply negzero_clause.
  unfold carved in Hcv.
  destruct (neg_zero_fix c); [left; reflexivity|right].
  cbn [negb andb] in Hcv.
  destruct (sign_flag c x); [|reflexivity]. cbn [andb] in *.
  match goal with |- ?z = false => destruct z eqn:Ez; [|reflexivity] end.
  apply Hz in Ez. rewrite Ez in Hcv. discriminate.
Qed.

Lemma cfg_ok_not_carved c x : cfg_ok c = true -> cfg_base_ok c = true /\ carved c x = false.
Proof.
  unfold cfg_ok, cfg_base_ok, carved. intros H. apply andb_prop in H. destruct H as [H1 H2].
  rewrite H1, H2. split; reflexivity.
Qed.

Theorem format6_shape : forall c x, cfg_ok c = true -> shape_ok (fmt_parts c x) = true.
Proof. intros c x H. destruct (cfg_ok_not_carved c x H). apply format6_shape_gen; assumption. Qed.

(** the carved-out class is exactly where the pinned pipeline prints "-0" *)
Theorem carved_prints_negative_zero : forall c x, cfg_base_ok c = true -> carved c x = true ->
  format6 c x = [45; 48].
Proof.
  intros c x Hc Hcv. unfold cfg_base_ok in Hc. apply andb_prop in Hc. destruct Hc as [_ Hstrip].
  unfold carved in Hcv. apply andb_prop in Hcv. destruct Hcv as [Hcv Hz]. apply andb_prop in Hcv.
  destruct Hcv as [Hfix Hs]. apply N.eqb_eq in Hz. apply negb_true_iff in Hfix.
  unfold format6, fmt_parts. cbv zeta. fold (sign_flag c x). rewrite Hfix, Hs, Hstrip, Hz.
  reflexivity.
Qed.

Theorem format6_shape_refuted :
  format6 cfg_pinned {| dneg := true; dm := 1; de := (-30)%Z |} = [45; 48] /\
  shape_ok (fmt_parts cfg_pinned {| dneg := true; dm := 1; de := (-30)%Z |}) = false.
Proof. split; vm_compute; reflexivity. Qed.

Example format6_example : format6 (cfg_fixed true) {| dneg := false; dm := 1451; de := (-1)%Z |} = [55; 50; 53; 46; 53].
Proof. vm_compute. reflexivity. Qed.

(** ---------------------------------------------------------------- the rendered string *)
Lemma is_digit_ch d : d <? 10 = true -> is_digit (ch d) = true.
Proof. unfold is_digit, ch. lia. Qed.

Lemma ch_not_minus d : d <? 10 = true -> (ch d =? 45) = false.
Proof. unfold ch. lia. Qed.

Lemma span_digits_app l rest : all_digits l = true ->
  match rest with [] => True | c :: _ => is_digit c = false end ->
  span_digits (map ch l ++ rest) = (map ch l, rest).
Proof.
  induction l as [|d r IH]; intros Ha Hr.
  - cbn [map app]. destruct rest as [|c rest']; [reflexivity|]. cbn [span_digits]. rewrite Hr. reflexivity.
  - cbn [all_digits forallb] in Ha. fold (all_digits r) in Ha. apply andb_prop in Ha. destruct Ha as [Hd Ha].
    cbn [map app span_digits]. rewrite (is_digit_ch d Hd), (IH Ha Hr). reflexivity.
Qed.

Lemma nonempty_map l : nonempty (map ch l) = nonempty l.
Proof. destruct l; reflexivity. Qed.

Lemma render_eq p : render p =
  (if pneg p then [45] else []) ++ map ch (pint p) ++
  (match pfrac p with [] => [] | _ :: _ => 46 :: map ch (pfrac p) end).
Proof. unfold render. destruct (pfrac p); reflexivity. Qed.

Theorem render_plain : forall p, shape_ok p = true -> plain_decimal (render p) = true.
Proof.
  intros [neg ip fp]. unfold shape_ok. cbn [pint pfrac pneg]. intros H.
  repeat (apply andb_prop in H; let H' := fresh "H" in destruct H as [H H']).
  rename H into Hi, H4 into Hf, H3 into Hl, H2 into Hlen, H1 into Htr, H0 into Hnz.
  rewrite render_eq. cbn [pint pfrac pneg].
  set (tail := match fp with [] => [] | _ :: _ => 46 :: map ch fp end).
  assert (Htail : match tail with [] => True | c :: _ => is_digit c = false end).
  { subst tail. destruct fp; [exact I|reflexivity]. }
  assert (Hip : nonempty ip = true) by (destruct ip; [discriminate|reflexivity]).
  (* the body after an optional '-' *)
  assert (Hbody : match ((if neg then [45] else []) ++ map ch ip ++ tail) with
                  | c :: r => if c =? 45 then r else (if neg then [45] else []) ++ map ch ip ++ tail
                  | [] => (if neg then [45] else []) ++ map ch ip ++ tail end = map ch ip ++ tail).
  { destruct neg; [reflexivity|]. cbn [app]. destruct ip as [|d r]; [discriminate|].
    cbn [map app]. cbn [all_digits forallb] in Hi. apply andb_prop in Hi. destruct Hi as [Hd _].
    rewrite (ch_not_minus d Hd). reflexivity. }
  unfold plain_decimal. cbv zeta. rewrite Hbody. rewrite (span_digits_app ip tail Hi Htail).
  rewrite nonempty_map, Hip. cbn [andb].
  apply andb_true_intro. split.
  - subst tail. destruct fp as [|f0 fr]; [reflexivity|].
    change (46 =? 46) with true. cbn [andb].
    rewrite <- (app_nil_r (map ch (f0 :: fr))), (span_digits_app (f0 :: fr) [] Hf I).
    rewrite nonempty_map, map_length. cbn [nonempty negb andb]. rewrite Hlen. reflexivity.
  - (* never "-0" *)
    destruct neg.
    + cbn [app]. destruct ip as [|d0 [|d1 r]]; [discriminate| |].
      * cbn [map app]. subst tail. destruct fp as [|f0 fr].
        -- cbn [andb]. change (45 =? 45) with true. cbn [andb].
           cbn [all_digits forallb] in Hi. unfold is_zero_parts in Hnz. cbn [pint pfrac andb] in Hnz.
           unfold ch. destruct d0; [discriminate|]. lia.
        -- reflexivity.
      * cbn [map app]. destruct (map ch r ++ tail); reflexivity.
    + cbn [app]. destruct ip as [|d0 r]; [discriminate|]. cbn [map app].
      cbn [all_digits forallb] in Hi. apply andb_prop in Hi. destruct Hi as [Hd _].
      destruct (map ch r ++ tail) as [|a [|b t]]; try reflexivity.
      rewrite (ch_not_minus d0 Hd). reflexivity.
Qed.

Theorem format6_plain : forall c x, cfg_ok c = true -> plain_decimal (format6 c x) = true.
Proof. intros c x H. unfold format6. apply render_plain, format6_shape, H. Qed.

Theorem format6_plain_gen : forall c x, cfg_base_ok c = true -> carved c x = false -> plain_decimal (format6 c x) = true.
Proof. intros c x H1 H2. unfold format6. apply render_plain, format6_shape_gen; assumption. Qed.
