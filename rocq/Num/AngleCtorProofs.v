(** C05 (a) — every constructor path yields an angle in [0, 360), for every argument form. *)
From Coq Require Import ZArith Reals List String Bool Lra Lia.
From Flocq Require Import Core BinarySingleNaN.
From SV Require Import Num.Mod360 Num.Mod360Proofs Num.AngleSites Num.AngleSitesProofs Num.AngleCtor.
Import ListNotations.

Lemma argform_eqb_eq a b : argform_eqb a b = true -> a = b.
Proof. destruct a, b; simpl; congruence. Qed.

Lemma in_range_finite x : in_range x -> is_finite x = true.
Proof. intros [H _]; exact H. Qed.

Lemma rhs_ok_in_range f r v :
  rhs_ok_for f r = true -> is_finite v = true -> (form_is_angle f = true -> in_range v) -> in_range (eval_rhs r v v).
Proof.
  destruct r; simpl; try discriminate; intros H Hv Ha.
  - destruct (norm360_range v Hv) as [H1 H2]. split; auto.
  - apply Ha; exact H.
  - apply zero_in_range.
Qed.

Lemma action_ok_range f a v :
  action_ok f a = true -> supplied_ok f v -> exists s, ctor_eval a v = Some s /\ in_range3 s.
Proof.
  destruct v as [[v1 v2] v3]. intros Hok [[F1 [F2 F3]] Hang]. destruct a as [|p y r|]; simpl in *; try discriminate.
  - exists (v1, v2, v3). split; [reflexivity | apply Hang; exact Hok].
  - apply andb_prop in Hok. destruct Hok as [Hok Hr]. apply andb_prop in Hok. destruct Hok as [Hp Hy].
    eexists; split; [reflexivity|]. simpl.
    assert (A1 : form_is_angle f = true -> in_range v1) by (intro E; apply Hang in E; tauto).
    assert (A2 : form_is_angle f = true -> in_range v2) by (intro E; apply Hang in E; tauto).
    assert (A3 : form_is_angle f = true -> in_range v3) by (intro E; apply Hang in E; tauto).
    split; [|split]; apply rhs_ok_in_range with f; auto.
Qed.

(** For a table that passes [ctor_table_ok]: whatever the form of the argument and whatever finite floats it
    supplies (in range when it is an angle), each constructor of the table HAS a path for that form, and every
    path listed for it hands out an object whose three slots are finite and in [0, 360). *)
Theorem ctor_range ctors rows :
  ctor_table_ok ctors rows = true ->
  forall c, In c ctors -> forall f v, supplied_ok f v ->
    (exists a, In (c, f, a) rows) /\
    (forall a, In (c, f, a) rows -> exists s, ctor_eval a v = Some s /\ in_range3 s).
Proof.
  unfold ctor_table_ok. intros H c Hc f v Hv.
  apply andb_prop in H. destruct H as [H _]. apply andb_prop in H. destruct H as [Hrows Hcov].
  rewrite forallb_forall in Hrows, Hcov. split.
  - specialize (Hcov c Hc). rewrite forallb_forall in Hcov.
    assert (Hin : In f all_forms) by (destruct f; simpl; tauto).
    specialize (Hcov f Hin). unfold has_row in Hcov. apply existsb_exists in Hcov.
    destruct Hcov as [[[c' f'] a] [Hin' E]]. simpl in E. apply andb_prop in E. destruct E as [E1 E2].
    apply String.eqb_eq in E1. apply argform_eqb_eq in E2. subst. exists a; exact Hin'.
  - intros a Ha. specialize (Hrows _ Ha). unfold row_ok in Hrows; simpl in Hrows.
    apply action_ok_range with f; auto.
Qed.

(** The fast path of seeded fault c05_6: for a Vec argument the components are stored as they are.  The table fails,
    and the object built from Vec(-90, 0, 0) holds -90. *)
Definition neg90 : b64 := norm (-90) 0.

Lemma neg90_spec : B2R neg90 = (-90)%R /\ is_finite neg90 = true.
Proof.
  destruct (norm_exact (-90) 0) as [H1 H2]; try lia.
  - unfold F2R; simpl. rewrite Rabs_left; lra.
  - split; auto. fold neg90 in H1. rewrite H1. unfold F2R; simpl; lra.
Qed.

Theorem ctor_vec_copy_refuted :
  let rows := [("FrozenAngle.__new__"%string, FVec, AStores Other Other Other)] in
  ctor_table_ok ["FrozenAngle.__new__"%string] rows = false /\
  bad_ctor_rows rows = [("FrozenAngle.__new__"%string, FVec)] /\
  supplied_ok FVec (neg90, B754_zero false, B754_zero false) /\
  exists s, ctor_eval (AStores Other Other Other) (neg90, B754_zero false, B754_zero false) = Some s /\
            (B2R (fst (fst s)) = -90)%R.
Proof.
  destruct neg90_spec as [Hv Hf].
  repeat split; try reflexivity; try discriminate; auto.
  eexists; split; [reflexivity|]. simpl. exact Hv.
Qed.

(** the same shape with the slots named as copies of an angle (`res._pitch = vec._pitch` would read like one) is
    rejected for a vector form and accepted for an angle form *)
Example copy_needs_angle_form :
  action_ok FVec (AStores CopyFromAngle CopyFromAngle CopyFromAngle) = false /\
  action_ok FOtherAngle (AStores CopyFromAngle CopyFromAngle CopyFromAngle) = true /\
  action_ok FFrozenVec AReturnArg = false.
Proof. repeat split. Qed.

(** today's shape of the two constructors satisfies the premise (non-vacuity) *)
Example ctor_table_satisfiable :
  ctor_table_ok ["C"%string]
    (map (fun f => ("C"%string, f, if form_is_angle f then AStores CopyFromAngle CopyFromAngle CopyFromAngle
                                   else AStores Double360 Double360 Double360)) all_forms) = true.
Proof. reflexivity. Qed.
