(** C05 (c) — the '-0' carve-out is exact.

    [carved c x] (Num/Dec6.v) is the class of inputs on which a pipeline without the '-0' repair prints "-0".
    Here: the class is characterised arithmetically (a sign is printed and |x|·10^6 <= 1/2), it is EXACTLY the
    set of inputs whose text is "-0" (both directions), and an exact zero of either sign never belongs to it
    as long as the pipeline formats x+0.0 or repairs '-0'. *)
From Coq Require Import ZArith NArith List Bool Lia ZifyBool.
From SV Require Import Num.Dec6 Num.Dec6Proofs.
Import ListNotations.
Open Scope N_scope.

(** round-half-even gives 0 exactly when the quotient is at most one half *)
Lemma rhe_zero_iff num den : 0 < den -> (round_half_even num den = 0 <-> 2 * num <= den).
Proof.
  intros Hd. unfold round_half_even.
  pose proof (N.div_mod num den ltac:(lia)) as E.
  pose proof (N.mod_lt num den ltac:(lia)) as L.
  set (q := num / den) in *. set (r := num mod den) in *.
  destruct (N.compare_spec (2 * r) den) as [C|C|C].
  - destruct (N.even q) eqn:Ev.
    + split; intros H; [subst q; nia|].
      destruct (N.eq_dec q 0) as [|Hq]; [assumption|]. exfalso. nia.
    + split; intros H; [lia|]. exfalso.
      assert (q = 0) by nia. subst q. rewrite H0 in Ev. discriminate.
  - split; intros H; [nia|]. destruct (N.eq_dec q 0) as [|Hq]; [assumption|]. exfalso. nia.
  - split; intros H; [lia|]. exfalso. nia.
Qed.

Theorem scaled6_zero_iff x : scaled6 x = 0 <-> 2 * fst (num_den x) <= snd (num_den x).
Proof.
  pose proof (den_pos x) as Hd. unfold scaled6. destruct (num_den x) as [num den]. cbn [fst snd] in *.
  apply rhe_zero_iff; assumption.
Qed.

(** The carve-out, arithmetically: no '-0' repair, a sign is printed, and |x|·10^6 <= 1/2 (i.e. |x| <= 5e-7). *)
Theorem carved_iff c x : carved c x = true <->
  neg_zero_fix c = false /\ sign_flag c x = true /\ 2 * fst (num_den x) <= snd (num_den x).
Proof.
  unfold carved. rewrite !andb_true_iff, negb_true_iff, N.eqb_eq, scaled6_zero_iff. tauto.
Qed.

(** Exactness: for a pipeline that strips zeros at 6 places the text is "-0" if AND ONLY IF the input is carved out. *)
Theorem negative_zero_iff_carved c x : cfg_base_ok c = true -> (format6 c x = [45; 48] <-> carved c x = true).
Proof.
  intros Hc. split.
  - intros E. destruct (carved c x) eqn:Hcv; [reflexivity|]. exfalso.
    pose proof (format6_plain_gen c x Hc Hcv) as P. rewrite E in P. vm_compute in P. discriminate.
  - apply carved_prints_negative_zero; assumption.
Qed.

(** an exact zero (+0.0 or -0.0) is never carved out when the pipeline formats x+0.0 or repairs '-0' ... *)
Definition zero_sign_ok (c : fmt_cfg) : bool := adds_zero c || neg_zero_fix c.

Theorem exact_zero_not_carved c x : zero_sign_ok c = true -> dm x = 0 -> carved c x = false.
Proof.
  unfold zero_sign_ok, carved, sign_flag. intros H Hm. rewrite Hm.
  destruct (adds_zero c), (neg_zero_fix c); try discriminate; cbn; try reflexivity;
    destruct (dneg x); reflexivity.
Qed.

Lemma scaled6_of_zero x : dm x = 0 -> scaled6 x = 0.
Proof.
  intros Hm. apply scaled6_zero_iff. unfold num_den. rewrite Hm. destruct (0 <=? de x)%Z; cbn [fst snd]; lia.
Qed.

(** ... and prints as "0" *)
Theorem exact_zero_prints_zero c x : cfg_base_ok c = true -> zero_sign_ok c = true -> dm x = 0 -> format6 c x = [48].
Proof.
  intros Hc Hz Hm. unfold cfg_base_ok in Hc. apply andb_prop in Hc. destruct Hc as [_ Hstrip].
  unfold format6, fmt_parts. cbv zeta. rewrite (scaled6_of_zero x Hm), Hstrip, Hm.
  unfold zero_sign_ok in Hz.
  destruct (adds_zero c), (neg_zero_fix c), (dneg x); try discriminate; reflexivity.
Qed.

(** without either, -0.0 prints as "-0": the obligation zero_sign_ok is necessary *)
Theorem exact_zero_refuted :
  format6 {| adds_zero := false; places := 6; strips := true; neg_zero_fix := false |} {| dneg := true; dm := 0; de := 0%Z |} = [45; 48].
Proof. vm_compute. reflexivity. Qed.

(** for the pinned pipeline (x+0.0, no repair) the carved-out inputs are exactly the strictly negative
    non-zero values with |x|·10^6 <= 1/2 *)
Theorem carved_pinned_iff x : carved cfg_pinned x = true <->
  dneg x = true /\ dm x <> 0 /\ 2 * fst (num_den x) <= snd (num_den x).
Proof.
  rewrite carved_iff. unfold cfg_pinned, sign_flag. cbn [neg_zero_fix adds_zero].
  rewrite andb_true_iff, negb_true_iff, N.eqb_neq. tauto.
Qed.
