(** C05 (a) — the store sites of the angle slots and the range invariant they maintain.
    [rhs] classifies the right-hand side of a store to _pitch/_yaw/_roll as read from math.py by
    translate/c05_sites.py; the list of all sites is Gen/AngleSites_gen.v.  Definitions only. *)
From Coq Require Import ZArith Reals List String Bool.
From Flocq Require Import Core BinarySingleNaN.
From SV Require Import Num.Mod360.
Import ListNotations.

Inductive rhs :=
  | Double360        (* e % 360 % 360 *)
  | Single360        (* e % 360 *)
  | CopyFromAngle    (* other._pitch etc.: a slot of an existing angle *)
  | ConstZero        (* the literal 0.0 *)
  | Other.           (* anything else *)

Definition rhs_safe (r : rhs) : bool :=
  match r with Double360 | CopyFromAngle | ConstZero => true | Single360 | Other => false end.

Definition all_sites_safe (sites : list (string * rhs)) : bool := forallb (fun s => rhs_safe (snd s)) sites.
Definition sites_of_kind (k : rhs -> bool) (sites : list (string * rhs)) : list string :=
  map fst (filter (fun s => k (snd s)) sites).
Definition is_single (r : rhs) : bool := match r with Single360 => true | _ => false end.
Definition is_other (r : rhs) : bool := match r with Other => true | _ => false end.

(** How an expression that creates an Angle/FrozenAngle object gets its three slots written (census
    [angle_creations] in Gen/AngleSites_gen.v).  [alloc] below starts new slots at 0.0: that abstraction is
    justified when no creation is [CreateOther] and the initialisers store all three slots on every path
    (obligations no_unclassified_angle_creation, to_angle_stores_all_slots, angle_init_stores_all_slots). *)
Inductive creation :=
  | ViaCtor        (* Angle(...) / FrozenAngle(...) / cls(...) / type(self)(...): the constructor's store sites *)
  | RawToAngle     (* X.__new__(X) handed directly to MatrixBase._to_angle *)
  | RawStored      (* X.__new__(X) bound to a local whose three slots are stored on every path to its return *)
  | CreateOther.
Definition creation_ok (c : creation) : bool := match c with CreateOther => false | _ => true end.
Definition all_creations_ok (l : list (string * creation)) : bool := forallb (fun s => creation_ok (snd s)) l.
Definition bad_creations (l : list (string * creation)) : list string :=
  map fst (filter (fun s => negb (creation_ok (snd s))) l).

(** value stored by a site: [v] is the (finite) float the expression e evaluated to,
    [src] the slot read by a CopyFromAngle site *)
Definition eval_rhs (r : rhs) (v src : b64) : b64 :=
  match r with
  | Double360 => double360 v
  | Single360 => single360 v
  | CopyFromAngle => src
  | ConstZero => B754_zero false
  | Other => v
  end.

(** The heap of all angle slots (three per Angle/FrozenAngle object, flattened). *)
Definition slots := list b64.
Record store_op := { site : nat; dst : nat; input : b64; src : nat }.

Fixpoint update (n : nat) (x : b64) (l : slots) {struct l} : slots :=
  match l, n with
  | [], _ => []
  | _ :: r, O => x :: r
  | y :: r, S n' => y :: update n' x r
  end.

Definition step (sites : list (string * rhs)) (st : slots) (o : store_op) : slots :=
  match nth_error sites (site o) with
  | None => st
  | Some (_, r) => update (dst o) (eval_rhs r (input o) (nth (src o) st (B754_zero false))) st
  end.
(** allocation of a new angle object adds three slots; they are written by the constructor's stores before
    anyone can observe them, so new slots start at 0.0 here *)
Definition alloc (st : slots) : slots := st ++ [B754_zero false; B754_zero false; B754_zero false].

Inductive event := Store (o : store_op) | Alloc.
Definition estep sites st e := match e with Store o => step sites st o | Alloc => alloc st end.
Definition run sites (es : list event) (st : slots) : slots := fold_left (estep sites) es st.

Definition in_range (x : b64) : Prop := is_finite x = true /\ (0 <= B2R x < 360)%R.
Definition finite_inputs (es : list event) : Prop :=
  Forall (fun e => match e with Store o => is_finite (input o) = true | Alloc => True end) es.
