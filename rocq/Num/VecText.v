(** C05 (c) — model of srctools.math.parse_vec_str (and through it Vec.from_str / Angle.from_str) on strings
    given as lists of code points:

      val = val.strip()
      if val and val[0] in '({[<': val = val[1:]
      if val and val[-1] in ')}]>': val = val[:-1]
      try: str_x, str_y, str_z = val.split()          except ValueError: return defaults
      try: return float(str_x), float(str_y), float(str_z)   except ValueError: return defaults

    The bracket sets and the shape of the pipeline are read from the source ([parse_cfg], generated).  [float()] is
    an external builtin: the model decodes the plain decimal grammar  -?digits(.digits)?  EXACTLY, as a rational
    (negative?, numerator, number of fraction digits); the binary rounding that float() then performs is an
    assumption (correctly rounded), see VecTextProofs.v.  For a field outside that grammar the model makes no
    prediction ([None]).  Definitions only. *)
From Coq Require Import ZArith NArith List Bool.
From SV Require Import Num.Dec6.
Import ListNotations.
Open Scope N_scope.

(** Python's str.isspace() on one code point (the set used by str.strip() and str.split()) *)
Definition py_space (c : N) : bool :=
  ((9 <=? c) && (c <=? 13)) || ((28 <=? c) && (c <=? 32)) || (c =? 133) || (c =? 160) || (c =? 5760) ||
  ((8192 <=? c) && (c <=? 8202)) || (c =? 8232) || (c =? 8233) || (c =? 8239) || (c =? 8287) || (c =? 12288).

Record parse_cfg := { strips_ws : bool;        (* val = val.strip() *)
                      opens : list N;          (* characters removed at position 0 *)
                      closes : list N;         (* characters removed at position -1 *)
                      splits_ws : bool;        (* val.split() without arguments, unpacked into exactly three names *)
                      uses_float : bool }.     (* the three fields are converted with float() *)

Fixpoint lstrip (s : list N) : list N :=
  match s with c :: r => if py_space c then lstrip r else s | [] => [] end.
Definition strip (s : list N) : list N := rev (lstrip (rev (lstrip s))).

Definition mem (c : N) (l : list N) : bool := existsb (N.eqb c) l.
Definition drop_open (ops : list N) (s : list N) : list N :=
  match s with c :: r => if mem c ops then r else s | [] => [] end.
Definition drop_close (cls : list N) (s : list N) : list N :=
  match rev s with c :: r => if mem c cls then rev r else s | [] => [] end.

(** str.split(): maximal runs of non-whitespace; [cur] is the current run, reversed *)
Fixpoint fields (s : list N) (cur : list N) : list (list N) :=
  match s with
  | [] => match cur with [] => [] | _ => [rev cur] end
  | c :: r => if py_space c then match cur with [] => fields r [] | _ => rev cur :: fields r [] end
              else fields r (c :: cur)
  end.

(** a decimal number: (negative?, numerator, number of fraction digits), value = ± numerator / 10^k *)
Definition decimal := (bool * N * nat)%type.
Definition digit_val (c : N) : N := c - 48.
Definition parse_decimal (s : list N) : option decimal :=
  let '(neg, body) := match s with c :: r => if c =? 45 then (true, r) else (false, s) | [] => (false, s) end in
  let '(ip, rest) := span_digits body in
  if nonempty ip then
    match rest with
    | [] => Some (neg, intval (map digit_val ip), O)
    | c :: fr => if c =? 46 then
                   let '(fp, rest') := span_digits fr in
                   if nonempty fp && negb (nonempty rest') then Some (neg, intval (map digit_val (ip ++ fp)), length fp) else None
                 else None
    end
  else None.

Inductive parsed :=
  | PDefaults                                   (* not exactly three fields: the caller's defaults *)
  | PFields (a b c : option decimal).           (* three fields; [None] = outside the plain grammar, not predicted *)

Definition parse_vec (pc : parse_cfg) (s : list N) : parsed :=
  let s1 := if strips_ws pc then strip s else s in
  let s2 := drop_close (closes pc) (drop_open (opens pc) s1) in
  match fields s2 [] with
  | [a; b; c] => PFields (parse_decimal a) (parse_decimal b) (parse_decimal c)
  | _ => PDefaults
  end.

(** the characters that format_float can print *)
Definition numchar (c : N) : bool := is_digit c || (c =? 45) || (c =? 46).

(** what the round-trip theorem needs of the pipeline read from the source *)
Definition pcfg_ok (pc : parse_cfg) : bool :=
  strips_ws pc && splits_ws pc && uses_float pc &&
  forallb (fun c => negb (numchar c) && negb (py_space c)) (opens pc ++ closes pc).

(** the four bracket pairs that the documentation of parse_vec_str / from_str promises to ignore: ( ) { } [ ] < > *)
Definition accepts_documented_brackets (pc : parse_cfg) : bool :=
  forallb (fun c => mem c (opens pc)) [40; 123; 91; 60] && forallb (fun c => mem c (closes pc)) [41; 125; 93; 62].

(** the text of a vector / angle: three numbers separated by single spaces (VecBase.__str__, AngleBase.__str__) *)
Definition vec_text (c : fmt_cfg) (x y z : dyadic) : list N :=
  format6 c x ++ [32] ++ format6 c y ++ [32] ++ format6 c z.

(** |d − x| <= 5e-7, exactly, with signs:  d = ±num/10^k  (k <= 6),  x = ±nx/dx·10^-6 *)
Definition sgn (b : bool) : Z := if b then (-1)%Z else 1%Z.
Definition within_5e7 (d : decimal) (x : dyadic) : Prop :=
  let '(neg, num, k) := d in
  (k <= 6)%nat /\
  (2 * Z.abs (sgn neg * Z.of_N (num * 10 ^ N.of_nat (6 - k)) * Z.of_N (snd (num_den x)) - sgn (dneg x) * Z.of_N (fst (num_den x)))
     <= Z.of_N (snd (num_den x)))%Z.

Definition cfg_source_brackets : parse_cfg :=
  {| strips_ws := true; opens := [40; 123; 91; 60]; closes := [41; 125; 93; 62]; splits_ws := true; uses_float := true |}.
